import RV.Proofs.CacheTTLFairDrain
import RV.Proofs.CacheTTLFairTick
import RV.Props.C07
/-!
# C14, last clause — "every entry whose TTL has elapsed is eventually removed, its capacity released,
# and it is reported once through OnEvict and OnExit": an *eventually* theorem under fairness

`RV/Props/C14.lean` has the one-sweep, step-indexed liveness theorem (`c14_reclaimed_partial`) and the
registration invariant (`registered_inv`); `RV/Props/C08Fair.lean` has infinite executions and fairness
(`Exec`, `WeakFair`, `DrainsEnd`).  Here they are combined.

**Executions.**  `e : Exec cfg` — infinite, no `Close`, any number of clients, any interleaving; `spawn`
and `tick` are the environment's.

**What the scheduler / the environment must provide** (hypotheses, each one necessary):
* `WeakFair e` — every actor that stays enabled moves (C08).
* `DrainsEnd e` — every drain loop of a `Clear` is left (C08: it follows from `SendsCease`; without it a
  `Clear` can keep the applier stopped forever — finding F13 — and nothing is ever swept:
  `c14_drains_end_needed_counterexample`).
* `TickFair e` — STRONG fairness of the ticker branch of the applier's `select`
  (`.applier .selTick`): ready infinitely often ⇒ taken infinitely often.  The real ticker fires every
  `bucketDuration/2` and Go's `select` picks uniformly among the ready cases.  Weak fairness does not
  give it: the applier may be kept busy by a stream of `Set`s (`c14_tickfair_needed_counterexample`).
* `ClockPasses e i exp` — after time `i` the clock reaches `exp + 10 s` (bucket period 5 s + rounding of
  the two bucket computations) and later advances 10 s more (needed for an entry that was applied after
  its bucket had been cleaned up: it is registered in `lastCleaned + 1`, which is covered as soon as a
  grab happens in a later cleanup bucket than the previous one).  It follows from `ClockAdvances e` (the
  clock exceeds every bound, `ClockAdvances.passes`).  The theorems use the finite form because the
  bucket kernels are int64 arithmetic: sane clock values (`TimeOk`, |t| < 2^62 s) are needed, and
  `ClockAdvances` is incompatible with a clock that is sane forever (`c14_clock_advances_vs_sane`),
  whereas `ClockPasses` is not — so the time hypotheses alone do not force the entry out
  (`c14_clock_needed_counterexample`: expired, everything fair, clock stuck below the bucket boundary:
  never reclaimed).
* sane times: the cache was created at a sane clock (`CreatedAt e now0`, `TimeOk now0`), the expiration
  is sane, and the clock is sane as long as the entry is resident.

**Results.**
* `c14_eventually_reclaimed` — an entry with a TTL that is resident at time `i` is, at some later time,
  either changed by a step that is not the sweep's `DelExpired` for its key (`ChangedByOther`:
  overwritten, deleted, evicted by the policy, cleared), or `ReclaimedBySweep`.
* `c14_reclaimed_exactly_once` — in the property's words: if nobody else touches the entry, it IS
  reclaimed: gone from the store, capacity released, exactly one `evict` for the key since then, namely
  `evict k _ value _` directly followed by `exit value`.
* `c14_eventually_reclaimed_clockAdvances` — the same from `Fair`, `SendsCease`, `ClockAdvances`.
* `c07_c14_end_to_end` — with C07: never served after the expiration, and eventually no longer accounted.
* `c14_fair_reclaim_exists` — non-vacuity: a concrete execution satisfying every hypothesis (with a sane
  clock at ALL times) in which an entry expires and is reclaimed.
-/
namespace RV.C14Fair
open RV RV.Cache Gen.Cache

/-- step `j` changes the entry `en` of key `k`, and it is not the sweep's `DelExpired` step for `k`
(a client's `store.Update` or `Del`, the applier's `store.Set`, a policy eviction, `Clear`) -/
def ChangedByOther {cfg : Cfg} (e : Exec cfg) (k : Hash) (en : Entry) (j : Nat) : Prop :=
  (e.st j).store.lookup k = some en ∧ (e.st (j + 1)).store.lookup k ≠ some en ∧ ¬ SweepDelAt e k j

/-- some sweep after time `i` reclaimed the entry: at `j0 ≥ i` the entry is still resident, at `j ≥ j0`
the applier is back at its `select`, the key is gone from the store and from the policy's cost table, and
since `j0` exactly one `OnEvict` for the key was emitted: `evict k _ en.value _` directly followed by
`exit en.value` -/
def ReclaimedBySweep {cfg : Cfg} (e : Exec cfg) (k : Hash) (en : Entry) (i : Nat) : Prop :=
  ∃ j0 j, i ≤ j0 ∧ j0 ≤ j ∧ (e.st j0).store.lookup k = some en ∧ (e.st j).app = .idle ∧
    (e.st j).store.lookup k = none ∧ (e.st j).pol.costs.lookup k = none ∧
    evictCount k (e.st j).log = evictCount k (e.st j0).log + 1 ∧
    ∃ l1 l2 c cost, (e.st j).log = l1 ++ .exit en.value :: .evict k c en.value cost :: l2

/-- **`c14_reclaimed_exactly_once`** (the property's last sentence).  In every execution that is weakly
fair, whose `Clear` drain loops end, whose ticker branch is treated strongly fairly, whose clock passes
the expiration by a bucket period and then advances once more, with sane times: an entry `en` with a TTL
that is resident under `k` at time `i` and that nobody else changes afterwards (`¬ ChangedByOther`) is
reclaimed by the sweep — removed from the store, its capacity released, reported exactly once. -/
theorem c14_reclaimed_exactly_once {cfg : Cfg} (e : Exec cfg) (hf : WeakFair e) (hd : DrainsEnd e)
    (htf : TickFair e) {now0 : Time} (hc : CreatedAt e now0) (h0 : TimeOk now0)
    {k : Hash} {en : Entry} {i : Nat} (hi : (e.st i).store.lookup k = some en)
    (hz : en.exp ≠ Gen.zeroTime) (hexp : TimeOk en.exp) (hcp : ClockPasses e i en.exp)
    (hsane : ∀ j, i ≤ j → (e.st j).store.lookup k = some en → TimeOk (e.st j).clock)
    (hH : ∀ j, i ≤ j → ¬ ChangedByOther e k en j) : ReclaimedBySweep e k en i := by
  have hH' : OnlySweepChanges e k en i := fun j hj h1 h2 =>
    Classical.byContradiction fun hns => hH j hj ⟨h1, h2, hns⟩
  obtain ⟨j0, j, h1, h2, h3, h4, hrec⟩ := eventually_reclaimed hf hd htf hc h0 hcp hi hz hexp hsane hH'
  exact ⟨j0, j, h1, h2, h3, h4, hrec.store, hrec.pol, hrec.once, hrec.cb⟩

/-- **`c14_eventually_reclaimed`.**  Same hypotheses, without the assumption that the entry is left
alone: at some later time the entry has been changed by somebody else, or it has been reclaimed by the
sweep.  In particular no entry with an elapsed TTL stays in the cache forever. -/
theorem c14_eventually_reclaimed {cfg : Cfg} (e : Exec cfg) (hf : WeakFair e) (hd : DrainsEnd e)
    (htf : TickFair e) {now0 : Time} (hc : CreatedAt e now0) (h0 : TimeOk now0)
    {k : Hash} {en : Entry} {i : Nat} (hi : (e.st i).store.lookup k = some en)
    (hz : en.exp ≠ Gen.zeroTime) (hexp : TimeOk en.exp) (hcp : ClockPasses e i en.exp)
    (hsane : ∀ j, i ≤ j → (e.st j).store.lookup k = some en → TimeOk (e.st j).clock) :
    (∃ j, i ≤ j ∧ ChangedByOther e k en j) ∨ ReclaimedBySweep e k en i := by
  by_cases h : ∃ j, i ≤ j ∧ ChangedByOther e k en j
  · exact Or.inl h
  · exact Or.inr (c14_reclaimed_exactly_once e hf hd htf hc h0 hi hz hexp hcp hsane
      fun j hj hch => h ⟨j, hj, hch⟩)

/-- the entry does not stay forever -/
theorem c14_not_resident_forever {cfg : Cfg} (e : Exec cfg) (hf : WeakFair e) (hd : DrainsEnd e)
    (htf : TickFair e) {now0 : Time} (hc : CreatedAt e now0) (h0 : TimeOk now0)
    {k : Hash} {en : Entry} {i : Nat} (hi : (e.st i).store.lookup k = some en)
    (hz : en.exp ≠ Gen.zeroTime) (hexp : TimeOk en.exp) (hcp : ClockPasses e i en.exp)
    (hsane : ∀ j, i ≤ j → (e.st j).store.lookup k = some en → TimeOk (e.st j).clock) :
    ∃ j, i ≤ j ∧ (e.st j).store.lookup k ≠ some en := by
  rcases c14_eventually_reclaimed e hf hd htf hc h0 hi hz hexp hcp hsane with ⟨j, hj, _, h2, _⟩ | h
  · exact ⟨j + 1, by omega, h2⟩
  · obtain ⟨j0, j, h1, h2, _, _, h5, _⟩ := h
    exact ⟨j, by omega, by rw [h5]; simp⟩

/-- **The same in the vocabulary of C08**: `Fair`, `SendsCease` (⇒ `DrainsEnd`), and a clock that
exceeds every bound (⇒ `ClockPasses`).  Remark: together with `hsane` (sane clock while the entry is
resident) `ClockAdvances` by itself excludes that the entry stays forever (`c14_clock_advances_vs_sane`), so
in this form only the *manner* of leaving is informative; the primary statement is the `ClockPasses` form
above, whose time hypotheses are compatible with an entry that stays (`c14_clock_needed_counterexample`). -/
theorem c14_eventually_reclaimed_clockAdvances {cfg : Cfg} (e : Exec cfg) (hf : Fair e) (hs : SendsCease e)
    (htf : TickFair e) (hca : ClockAdvances e) {now0 : Time} (hc : CreatedAt e now0) (h0 : TimeOk now0)
    {k : Hash} {en : Entry} {i : Nat} (hi : (e.st i).store.lookup k = some en)
    (hz : en.exp ≠ Gen.zeroTime) (hexp : TimeOk en.exp)
    (hsane : ∀ j, i ≤ j → (e.st j).store.lookup k = some en → TimeOk (e.st j).clock) :
    (∃ j, i ≤ j ∧ ChangedByOther e k en j) ∨ ReclaimedBySweep e k en i :=
  c14_eventually_reclaimed e hf.weak (drainsEnd_of_sendsCease hf.weak hs) htf hc h0 hi hz hexp
    (hca.passes i en.exp) hsane

/-- the hypotheses of `c14_eventually_reclaimed_clockAdvances` are satisfiable (the witness run continued
with a clock that advances forever; the clock is sane while the entry is resident, times 9 … 14), and its
second alternative is what happens there -/
example : ∃ (e : Exec exCfg1), Fair e ∧ SendsCease e ∧ TickFair e ∧ ClockAdvances e ∧ CreatedAt e 0 ∧
    (e.st 9).store.lookup 1#64 = some ttlEntry ∧
    (∀ j, 9 ≤ j → (e.st j).store.lookup 1#64 = some ttlEntry → TimeOk (e.st j).clock) ∧
    (¬ ∃ j, 9 ≤ j ∧ ChangedByOther e 1#64 ttlEntry j) ∧ ReclaimedBySweep e 1#64 ttlEntry 9 := by
  obtain ⟨e, _, hf, hs, htf, hca, hc, hst, hok, hH⟩ := reclaim_execution_clockAdvances_exists
  have hi : (e.st 9).store.lookup 1#64 = some ttlEntry := by rw [hst]; rfl
  have hsane : ∀ j, 9 ≤ j → (e.st j).store.lookup 1#64 = some ttlEntry → TimeOk (e.st j).clock := by
    intro j _ hr
    rw [hst] at hr
    split at hr
    · exact hok j (by omega)
    · cases hr
  have hno : ¬ ∃ j, 9 ≤ j ∧ ChangedByOther e 1#64 ttlEntry j := fun ⟨j, hj, hch⟩ => hch.2.2 (hH j hj hch.1 hch.2.1)
  refine ⟨e, hf, hs, htf, hca, hc, hi, hsane, hno, ?_⟩
  rcases c14_eventually_reclaimed_clockAdvances e hf hs htf hca hc (by unfold TimeOk; decide) hi (by decide)
    (by unfold TimeOk ttlEntry; decide) hsane with h | h
  · exact absurd h hno
  · exact h

/-- `ClockAdvances` (the clock exceeds EVERY bound) cannot hold together with a clock that is sane at all
times — which is why the theorems above take the finite `ClockPasses` and ask for sane clocks only while
the entry is resident. -/
theorem c14_clock_advances_vs_sane {cfg : Cfg} (e : Exec cfg) (hca : ClockAdvances e) :
    ¬ ∀ j, TimeOk (e.st j).clock :=
  clockAdvances_not_sane hca

/-! ## non-vacuity -/

/-- **Non-vacuity.**  A concrete execution from the initial state (one-slot buffer) satisfying every
hypothesis of `c14_reclaimed_exactly_once` for key 1 / `ttlEntry` (`SetWithTTL(1 ↦ 7, cost 1, 1 s)` at
clock 0) / `i = 9` — even with a sane clock at ALL times and `Fair` — in which the interesting case
occurs: the entry is resident exactly at times 9 … 14, the clock passes to 20 s and 40 s, the ticker
fires, the sweep's `DelExpired` step at time 14 removes the entry, and at time 18 the cost is released
and the log ends with `evict 1 _ 7 1`, `exit 7`; afterwards the ticker loop runs forever. -/
theorem c14_fair_reclaim_exists :
    ∃ e : Exec exCfg1, e.st 0 = init exCfg1 0 ∧ Fair e ∧ DrainsEnd e ∧ TickFair e ∧ CreatedAt e 0 ∧
      (∀ j, TimeOk (e.st j).clock) ∧ ClockPasses e 9 ttlEntry.exp ∧
      (e.st 9).store.lookup 1#64 = some ttlEntry ∧ (∀ j, 9 ≤ j → ¬ ChangedByOther e 1#64 ttlEntry j) ∧
      SweepDelAt e 1#64 14 ∧ (e.st 14).store.lookup 1#64 = some ttlEntry ∧
      (e.st 18).store.lookup 1#64 = none ∧ (e.st 18).pol.costs.lookup 1#64 = none ∧
      (e.st 18).log.take 2 = [.exit 7, .evict 1#64 0#64 7 1] ∧
      (∀ j, Fresh (e.st j).log) ∧ Ev.setExp 0 ttlEntry.value ttlEntry.exp ∈ (e.st 9).log := by
  obtain ⟨e, h1, h2, h3, h4, h5, h6, h7, h8, h9, h10, h11, h12, h13, h14⟩ := reclaim_execution_exists
  refine ⟨e, h1, h2, h3, h4, h5, h6, h7, by rw [h8]; rfl, fun j hj hch => hch.2.2 (h9 j hj hch.1 hch.2.1), h10,
    by rw [h8]; rfl, by rw [h8]; rfl, h11, h12, h13, h14⟩

/-- the hypotheses of `c14_reclaimed_exactly_once` are satisfiable on a non-trivial instance, and its
conclusion is what happened there -/
example : ∃ (e : Exec exCfg1) (k : Hash) (en : Entry) (i : Nat) (now0 : Time), WeakFair e ∧ DrainsEnd e ∧ TickFair e ∧
    CreatedAt e now0 ∧ TimeOk now0 ∧ (e.st i).store.lookup k = some en ∧ en.exp ≠ Gen.zeroTime ∧ TimeOk en.exp ∧
    ClockPasses e i en.exp ∧ (∀ j, i ≤ j → (e.st j).store.lookup k = some en → TimeOk (e.st j).clock) ∧
    (∀ j, i ≤ j → ¬ ChangedByOther e k en j) ∧ ReclaimedBySweep e k en i := by
  obtain ⟨e, _, hf, hd, htf, hc, hsane, hcp, hi, hH, _⟩ := c14_fair_reclaim_exists
  have hz : ttlEntry.exp ≠ Gen.zeroTime := by decide
  have hexp : TimeOk ttlEntry.exp := by unfold TimeOk ttlEntry; decide
  have h0 : TimeOk (0 : Time) := by unfold TimeOk; decide
  exact ⟨e, 1#64, ttlEntry, 9, 0, hf.weak, hd, htf, hc, h0, hi, hz, hexp, hcp, fun j _ _ => hsane j, hH,
    c14_reclaimed_exactly_once e hf.weak hd htf hc h0 hi hz hexp hcp (fun j _ _ => hsane j) hH⟩

/-! ## what cannot be dropped -/

/-- **The clock must pass the expiration by a bucket period** (`ClockPasses`).  `Fair`, `DrainsEnd`,
`TickFair` (the ticker fires again and again), sane clock, nobody touches the entry; the clock stops at
3 s.  The entry of key 1 (expiration 1 s: expired; bucket 1, covered by the sweep from 5 s on) stays in
the store forever. -/
theorem c14_clock_needed_counterexample :
    ∃ e : Exec exCfg1, e.st 0 = init exCfg1 0 ∧ Fair e ∧ DrainsEnd e ∧ TickFair e ∧ CreatedAt e 0 ∧
      (∀ j, TimeOk (e.st j).clock) ∧ (∀ j, 9 ≤ j → ¬ ChangedByOther e 1#64 ttlEntry j) ∧
      ¬ ClockPasses e 9 ttlEntry.exp ∧ ¬ ClockAdvances e ∧
      ∀ j, 10 ≤ j → (e.st j).store.lookup 1#64 = some ttlEntry ∧ ttlEntry.exp < (e.st j).clock := by
  obtain ⟨e, h1, h2, h3, h4, h5, h6, h7, h8, h9, h10⟩ := clock_needed_counterexample
  exact ⟨e, h1, h2, h3, h4, h5, h6, fun j hj hch => hch.2.2 (h7 j hj hch.1 hch.2.1), h8, h9,
    fun j hj => ⟨(h10 j hj).1, (h10 j hj).2.2⟩⟩

/-- **Strong fairness of the ticker branch cannot be dropped** (`TickFair`).  `Fair` (weak fairness of every
actor, strong fairness of the `setBuf` and `stop` branches), `DrainsEnd`, `ClockPasses`, a sane clock at
all times, nobody touches the entry: client 1 keeps calling `Set(5 ↦ 9)` and whenever the applier is at its
`select` an item is waiting, which it takes.  The ticker branch is ready infinitely often and never taken;
the entry of key 1 (expired at 1 s, the clock is at 40 s) stays in the store forever. -/
theorem c14_tickfair_needed_counterexample :
    ∃ e : Exec exCfg1, e.st 0 = init exCfg1 0 ∧ Fair e ∧ DrainsEnd e ∧ ¬ TickFair e ∧ CreatedAt e 0 ∧
      (∀ j, TimeOk (e.st j).clock) ∧ ClockPasses e 9 ttlEntry.exp ∧
      (∀ j, 9 ≤ j → ¬ ChangedByOther e 1#64 ttlEntry j) ∧
      ∀ j, 11 ≤ j → (e.st j).store.lookup 1#64 = some ttlEntry ∧ ttlEntry.exp < (e.st j).clock := by
  obtain ⟨e, h1, h2, h3, h4, h5, h6, h7, h8, h9⟩ := tickfair_needed_counterexample
  exact ⟨e, h1, h2, h3, h4, h5, h6, h7, fun j hj hch => hch.2.1 (h8 (j + 1) (by omega)),
    fun j hj => ⟨h8 j (by omega), by rw [h9 j hj]; decide⟩⟩

/-- **`DrainsEnd` cannot be dropped** (finding F13 — `Clear`'s drain loop does not terminate under a sustained
stream of `Set`s — seen from C14).  `Fair`, `TickFair`, `ClockPasses`, a sane clock at all times, nobody
changes the entry of key 1: client 0's `Clear` (started after the expiration) is in its drain loop forever,
the applier stays stopped, and the expired entry is neither swept nor cleared. -/
theorem c14_drains_end_needed_counterexample :
    ∃ e : Exec exCfg1, e.st 0 = init exCfg1 0 ∧ Fair e ∧ TickFair e ∧ ¬ DrainsEnd e ∧ CreatedAt e 0 ∧
      (∀ j, TimeOk (e.st j).clock) ∧ ClockPasses e 9 ttlEntry.exp ∧
      (∀ j, 9 ≤ j → ¬ ChangedByOther e 1#64 ttlEntry j) ∧
      ∀ j, 15 ≤ j → (e.st j).store.lookup 1#64 = some ttlEntry ∧ ttlEntry.exp < (e.st j).clock ∧
        (e.st j).cl 0 = .clrDrain false := by
  obtain ⟨e, h1, h2, h3, h4, h5, h6, h7, h8, h9, h10⟩ := drainsEnd_needed_counterexample
  exact ⟨e, h1, h2, h3, h4, h5, h6, h7, fun j hj hch => hch.2.1 (h8 (j + 1) (by omega)),
    fun j hj => ⟨h8 j (by omega), by rw [h9 j (by omega)]; decide, h10 j hj⟩⟩

/-! ## C07 + C14, end to end -/

theorem exec_log_mono {cfg : Cfg} (e : Exec cfg) {i j : Nat} (h : i ≤ j) : ∃ evs, (e.st j).log = evs ++ (e.st i).log := by
  have key : ∀ d, ∃ evs, (e.st (i + d)).log = evs ++ (e.st i).log := by
    intro d
    induction d with
    | zero => exact ⟨[], rfl⟩
    | succ d ih =>
      obtain ⟨evs, h1⟩ := ih
      obtain ⟨evs', h2⟩ := step_log_mono (e.next (i + d))
      exact ⟨evs' ++ evs, by rw [← Nat.add_assoc, h2, h1, List.append_assoc]⟩
  have := key (j - i)
  rwa [show i + (j - i) = j by omega] at this

/-- **`c07_c14_end_to_end`.**  Under the hypotheses of `c14_reclaimed_exactly_once`, for an entry whose value
was supplied by a `SetWithTTL` with expiration `en.exp` (its `setExp` event) and `Fresh` logs: the item is
never served after its expiration — every `Get` that returned its value, at any time of the execution,
had started at a clock `≤ en.exp` (C07, whether or not the sweep has run yet) — AND it is eventually no
longer accounted: the sweep removes it from the store and releases its cost, reporting it once (C14). -/
theorem c07_c14_end_to_end {cfg : Cfg} (e : Exec cfg) (hf : WeakFair e) (hd : DrainsEnd e)
    (htf : TickFair e) {now0 : Time} (hc : CreatedAt e now0) (h0 : TimeOk now0)
    {k : Hash} {en : Entry} {i : Nat} (hi : (e.st i).store.lookup k = some en)
    (hz : en.exp ≠ Gen.zeroTime) (hexp : TimeOk en.exp) (hcp : ClockPasses e i en.exp)
    (hsane : ∀ j, i ≤ j → (e.st j).store.lookup k = some en → TimeOk (e.st j).clock)
    (hH : ∀ j, i ≤ j → ¬ ChangedByOther e k en j)
    (hfresh : ∀ j, Fresh (e.st j).log) {t' : Tid} (hset : Ev.setExp t' en.value en.exp ∈ (e.st i).log) :
    ReclaimedBySweep e k en i ∧
    ∀ j, i ≤ j → ∀ (t : Tid) (h : Hash) (c : Conf) (now : Time) (l1 l2 l3 : List Ev),
      (e.st j).log = l3 ++ Ev.getRet t h c (some en.value) :: (l2 ++ Ev.getCall t h c now :: l1) →
      (∀ h' c' now', Ev.getCall t h' c' now' ∉ l2) → now ≤ en.exp := by
  refine ⟨c14_reclaimed_exactly_once e hf hd htf hc h0 hi hz hexp hcp hsane hH, ?_⟩
  intro j hj t h c now l1 l2 l3 hlog hl2
  apply Classical.byContradiction
  intro hlt
  obtain ⟨evs, hev⟩ := exec_log_mono e hj
  exact C07.c07_never_after (e.reach j) (hfresh j) hlog hl2
    (show Ev.setExp t' en.value en.exp ∈ (e.st j).log by rw [hev]; exact List.mem_append_right _ hset) hz
    (Int.not_le.mp hlt)

/-- the hypotheses of `c07_c14_end_to_end` are satisfiable (the same witness execution: `Fresh` logs at all
times, the `setExp` event of value 7 is in the log at time 9) -/
example : ∃ (e : Exec exCfg1) (t' : Tid), WeakFair e ∧ DrainsEnd e ∧ TickFair e ∧ CreatedAt e 0 ∧
    (e.st 9).store.lookup 1#64 = some ttlEntry ∧ ClockPasses e 9 ttlEntry.exp ∧
    (∀ j, 9 ≤ j → ¬ ChangedByOther e 1#64 ttlEntry j) ∧ (∀ j, Fresh (e.st j).log) ∧
    Ev.setExp t' ttlEntry.value ttlEntry.exp ∈ (e.st 9).log := by
  obtain ⟨e, _, hf, hd, htf, hc, _, hcp, hi, hH, _, _, _, _, _, hfr, hse⟩ := c14_fair_reclaim_exists
  exact ⟨e, 0, hf.weak, hd, htf, hc, hi, hcp, hH, hfr, hse⟩

end RV.C14Fair
