import RV.Proofs.CacheProv
/-!
# C01 — Get returns only values that were written under that very key

All theorems are about `RV/Model/Cache.lean`: `Reach cfg s` = `s` is reachable from the initial state
by any finite action list (any number of client threads, any interleaving with the applier, sweep,
evictions, `Clear`/`Close`, any choice of policy outcomes and enumeration orders), for every
configuration `cfg`.  Keys are (primary hash `h`, conflict hash `c`) pairs; nothing is assumed about
the hash function, so colliding primary hashes are included.  The ghost log is newest first:
`s.log = newer ++ e :: older` says that `older` happened before `e`.

* `prov_inv` — the invariant: everything the cache holds was supplied by a `Set` of that key.
* `c01_get_provenance` — a `Get(h, cg)` that returns `found = true` with `v` was preceded by the
  *call* of a `Set(h, cw, v)` with `cg = 0 ∨ cg = cw` (the `Set` had begun before the `Get` returned).
* `c01_no_cross_key` — a value written under `(h, cw)` is never returned for `(h, cg)` with
  non-zero `cg ≠ cw` (values identify their `Set` call: `Fresh`).
* `c01_ttl_provenance` — the same for `GetTTL` reporting `found = true`.
-/
namespace RV.C01
open RV.Cache

/-- `prov_inv` (DESIGN: `c01_store_provenance`).  In every reachable state: every store entry
`h ↦ ⟨c, v, _⟩`, every non-tombstone item in the write buffer or held by a blocked sender, every
item / (hash, conflict, value) triple held by the applier, every item held by a client, every
entry or value a `Get`/`GetTTL` client has read, and every value in a logged return or callback was
supplied by a logged `setCall _ h c v _ _` with the same hash, conflict and value (`Prov`, see
`RV/Proofs/CacheProv.lean`; `State.view` only forgets the components that carry no values). -/
theorem prov_inv {cfg : Cfg} {s : State} (h : Reach cfg s) : Prov s.view := prov_reach h

/-- the store clause of `prov_inv`, spelled out -/
theorem c01_store_provenance {cfg : Cfg} {s : State} (hr : Reach cfg s) {h : Hash} {e : Entry}
    (he : s.store.lookup h = some e) : ∃ t cost ttl, Ev.setCall t h e.conflict e.value cost ttl ∈ s.log :=
  (prov_reach hr).store h e he

/-- the buffer clause of `prov_inv`, spelled out -/
theorem c01_buffer_provenance {cfg : Cfg} {s : State} (hr : Reach cfg s) {i : Item}
    (hi : BufElem.item i ∈ s.buf) (hf : i.flag ≠ .del) :
    ∃ t cost ttl, Ev.setCall t i.key i.conflict i.value cost ttl ∈ s.log := by
  rcases (prov_reach hr).buf _ hi with ⟨hd, _⟩ | hs
  · exact absurd hd hf
  · exact hs

/-- `c01_get_provenance`: a successful `Get` returns a value that a `Set` call for the same primary
hash supplied, under a conflict hash the `Get`'s conflict hash is compatible with, and that call had
begun before the `Get` returned. -/
theorem c01_get_provenance {cfg : Cfg} {s : State} (hr : Reach cfg s) {newer older : List Ev} {t : Tid}
    {h : Hash} {cg : Conf} {v : Val} (hlog : s.log = newer ++ .getRet t h cg (some v) :: older) :
    ∃ t' cw cost ttl, Ev.setCall t' h cw v cost ttl ∈ older ∧ (cg = 0#64 ∨ cg = cw) := by
  have hl : LogOk (newer ++ .getRet t h cg (some v) :: older) := hlog ▸ (prov_reach hr).log
  obtain ⟨cw, ⟨t', cost, ttl, hm⟩, hc⟩ := logOk_split hl v rfl
  exact ⟨t', cw, cost, ttl, hm, hc⟩

/-- `c01_ttl_provenance`: `GetTTL` reports `found = true` only for a key some `Set` call was made for. -/
theorem c01_ttl_provenance {cfg : Cfg} {s : State} (hr : Reach cfg s) {newer older : List Ev} {t : Tid}
    {h : Hash} {cg : Conf} {d : Int} (hlog : s.log = newer ++ .ttlRet t h cg d true :: older) :
    ∃ t' cw v cost ttl, Ev.setCall t' h cw v cost ttl ∈ older ∧ (cg = 0#64 ∨ cg = cw) := by
  have hl : LogOk (newer ++ .ttlRet t h cg d true :: older) := hlog ▸ (prov_reach hr).log
  obtain ⟨cw, v, ⟨t', cost, ttl, hm⟩, hc⟩ := logOk_split hl rfl
  exact ⟨t', cw, v, cost, ttl, hm, hc⟩

/-- `c01_no_cross_key`: if the values identify their `Set` calls (`Fresh`), a value written under
`(h, cw)` is never returned to a `Get` of `(h, cg)` with `cg ≠ 0`, `cg ≠ cw` — also when both keys
share the primary hash `h`.  (`cw ≠ 0` is the property's side condition; the proof does not need it.) -/
theorem c01_no_cross_key {cfg : Cfg} {s : State} (hr : Reach cfg s) (hf : Fresh s.log) {t' : Tid} {h : Hash}
    {cw cg : Conf} {v : Val} {cost ttl : Int} (hset : Ev.setCall t' h cw v cost ttl ∈ s.log)
    (_hcw : cw ≠ 0#64) (hcg : cg ≠ 0#64) (hne : cg ≠ cw) (t : Tid) : Ev.getRet t h cg (some v) ∉ s.log := by
  intro hmem
  obtain ⟨newer, older, hlog⟩ := List.append_of_mem hmem
  obtain ⟨t2, cw2, cost2, ttl2, hm, hc⟩ := c01_get_provenance hr hlog
  have hm' : Ev.setCall t2 h cw2 v cost2 ttl2 ∈ s.log := by
    rw [hlog]; exact List.mem_append_right _ (List.mem_cons_of_mem _ hm)
  have := fresh_unique hf.1 hset hm'
  simp only [Ev.setCall.injEq] at this
  rcases hc with hc | hc
  · exact hcg hc
  · exact hne (hc.trans this.2.2.1.symm)

/-! ## Non-vacuity: concrete runs in which the hypotheses hold and the interesting case occurs -/

def cfg0 : Cfg :=
  { bufCap := 2, ignoreInternal := true, costFn := none, shouldUpdate := none, metricsOn := false, maxCost := 100 }

/-- `Set(5/1, 7)` is applied by the applier; then thread 2 runs `Get(key)` to completion -/
def demoSetThenGet (cg : Conf) : List Action :=
  [.spawn 1 (.set 5#64 1#64 7 1 0), .client 1 .none, .client 1 .none, .client 1 .none, .client 1 .none,
   .applier .selItem, .applier .none, .applier (.add [] true), .applier .none,
   .spawn 2 (.get 5#64 cg), .client 2 .none, .client 2 .none, .client 2 .none, .client 2 .none]

theorem reach_of_run {cfg : Cfg} {now : Time} {acts : List Action} {s : State}
    (h : run cfg (init cfg now) acts = some s) : Reach cfg s := ⟨now, acts, h⟩

theorem demo_get_log : (run cfg0 (init cfg0 0) (demoSetThenGet 1#64)).map (·.log) =
    some [.getRet 2 5#64 1#64 (some 7), .getCall 2 5#64 1#64 0, .setRet 1 7 true, .setExp 1 7 Gen.zeroTime,
          .setCall 1 5#64 1#64 7 1 0] := by decide

/-- the colliding key `5/2` misses although `5/1 ↦ 7` is resident -/
theorem demo_collide_log : (run cfg0 (init cfg0 0) (demoSetThenGet 2#64)).map (·.log) =
    some [.getRet 2 5#64 2#64 none, .getCall 2 5#64 2#64 0, .setRet 1 7 true, .setExp 1 7 Gen.zeroTime,
          .setCall 1 5#64 1#64 7 1 0] := by decide

/-- `c01_get_provenance` is not vacuous: a reachable state whose log contains a successful `Get`. -/
example : ∃ s, Reach cfg0 s ∧ ∃ newer older, s.log = newer ++ .getRet 2 5#64 1#64 (some 7) :: older := by
  obtain ⟨s, hs, hl⟩ := Option.map_eq_some_iff.mp demo_get_log
  exact ⟨s, reach_of_run hs, [], _, hl⟩

/-- `Set(5/1, 7)` applied, then `GetTTL(5/1)` -/
def demoSetThenTtl : List Action :=
  (demoSetThenGet 1#64).take 9 ++ [.spawn 2 (.getTTL 5#64 1#64), .client 2 .none, .client 2 .none, .client 2 .none]

/-- `c01_ttl_provenance` is not vacuous: a reachable state whose log contains a `GetTTL` with `found = true`. -/
example : ∃ s, Reach cfg0 s ∧ ∃ newer older, s.log = newer ++ .ttlRet 2 5#64 1#64 0 true :: older := by
  have : (run cfg0 (init cfg0 0) demoSetThenTtl).map (·.log) =
      some [.ttlRet 2 5#64 1#64 0 true, .ttlCall 2 5#64 1#64 0, .setRet 1 7 true, .setExp 1 7 Gen.zeroTime,
            .setCall 1 5#64 1#64 7 1 0] := by decide
  obtain ⟨s, hs, hl⟩ := Option.map_eq_some_iff.mp this
  exact ⟨s, reach_of_run hs, [], _, hl⟩

/-- `prov_inv` is not vacuous: a reachable state with a non-empty store. -/
example : ∃ s, Reach cfg0 s ∧ s.store.lookup 5#64 = some ⟨1#64, 7, Gen.zeroTime⟩ := by
  have : (run cfg0 (init cfg0 0) (demoSetThenGet 1#64)).map (fun s => s.store.lookup 5#64) =
      some (some ⟨1#64, 7, Gen.zeroTime⟩) := by decide
  obtain ⟨s, hs, hl⟩ := Option.map_eq_some_iff.mp this
  exact ⟨s, reach_of_run hs, hl⟩

/-- `c01_no_cross_key` is not vacuous: a reachable state with a `Fresh` log in which `7` was set under
`5/1` and a `Get` of the colliding key `5/2` (non-zero, different conflict) has completed. -/
example : ∃ s, Reach cfg0 s ∧ Fresh s.log ∧ Ev.setCall 1 5#64 1#64 7 1 0 ∈ s.log ∧
    (1#64 : Conf) ≠ 0#64 ∧ (2#64 : Conf) ≠ 0#64 ∧ (2#64 : Conf) ≠ 1#64 ∧ Ev.getCall 2 5#64 2#64 0 ∈ s.log := by
  obtain ⟨s, hs, hl⟩ := Option.map_eq_some_iff.mp demo_collide_log
  refine ⟨s, reach_of_run hs, ?_, ?_, by decide, by decide, by decide, ?_⟩ <;> rw [hl]
  · unfold Fresh; decide
  · decide
  · decide

end RV.C01
