import RV.Proofs.TieCacheDefs
import RV.Props.TieStore
/-!
# TieCache — `Cache.SetWithTTL`, `Cache.Del`, `Cache.Get`, `Cache.GetTTL` (cache.go) cut at their
# yield points: every generated section computes what the model's step function for that
# program counter computes

`RV/Gen/CacheM.lean` is regenerated from /repo's cache.go on every run (go2lean/cachem.go): one Lean
function per section between two `verifPoint` yield points (plus the entry of the method and the
return of a callee with yield points of its own), parametric in the interface `Iface W K V` of what
the section calls.  `RV/Proofs/TieCacheDefs.lean` instantiates the interface with the pieces of the
hand-written model (`mI cfg t`: `storeUpdate`, `storeDel`, `expirationOf`, `cbExit`, `metAdd`, the
fields `closed` / `clock`, the model's channel-room condition) and maps every parking point with its
Go locals to the model's `CPc` constructor (`pcSet`, `pcDel`, `pcGet`, `pcTtl`).  `landX t … (w, o)`
is the model state after a section: `w` with thread `t` at the pc of `o`, plus the model's ghost
events (`setRet` / `delRet` / `getRet` / `ttlRet` on return, `setExp` when the expiration has been
computed, `drop` when a new item is refused).

Each theorem is an EQUALITY between the model's step function and the landed result of the
generated section — same new pc and locals, same store / expiry index / buffer / send queue, same
callback events in the same order, same metric update — for every state, thread and value of the Go
locals (int64 costs are read by `BitVec.toInt`).  So the model's control flow for these methods is
the code's on this run: a flipped ttl test, a callback moved across a yield point or before the
store operation, the drop metric on the other branch, a blocking send made non-blocking, … each
falsify one of the equalities.  `tie_set_step` / `tie_del_step` / `tie_get_step` / `tie_ttl_step`
say the same for the dispatchers: `clientStep` at the pc of a parking point is the generated
`<fn>_step` at that parking point.

What is NOT covered here: the callee `store.Get` between `call_store_Get` and its return (the model's
`getRead` / `getCheck` steps; `lockedMap.get` is tied in TieStore), `Cache.Set` (a one-line wrapper),
`Wait`, `Clear`, `Close`, `processItems`.
-/
set_option linter.unusedSimpArgs false
namespace RV.TieCache
open RV RV.Cache Gen.Cache Gen.CacheM

/-! ## `SetWithTTL` -/

theorem tie_set_entry (cfg : Cfg) (s : State) (t : Tid) (k : Key) (v : Val) (cost : BitVec 64) (ttl : Int)
    (g : RV.Cache.Item) :
    stSetStart s t k.1 k.2 v cost.toInt ttl =
      landSet t v g (SetWithTTL_entry (mI cfg t) false s k v cost ttl) := by
  unfold stSetStart SetWithTTL_entry ttlNone ttlNegative ttlExpiration
  simp only [mI, Bool.false_or]
  cases hc : s.closed
  · rcases Int.lt_trichotomy ttl 0 with h | h | h
    · have h0 : ttl ≠ 0 := by omega
      have h1 : ¬ 0 < ttl := by omega
      have h2 : ¬ 0 ≤ ttl := by omega
      simp [h, h0, h1, h2, landSet]
    · subst h; simp [landSet, pcSet]
    · have h0 : ttl ≠ 0 := by omega
      have h1 : ¬ ttl < 0 := by omega
      have h2 : 0 ≤ ttl := by omega
      have h3 : ¬ ttl ≤ 0 := by omega
      simp [h, h0, h1, h2, h3, landSet, pcSet]
  · simp [landSet]

theorem tie_set_nil (cfg : Cfg) (s : State) (t : Tid) (k : Key) (v : Val) (cost : BitVec 64) (ttl : Int) :
    SetWithTTL_entry (mI cfg t) true s k v cost ttl = (s, .ret false) := by
  simp [SetWithTTL_entry]

theorem tie_set_update (cfg : Cfg) (s : State) (t : Tid) (k : Key) (v : Val) (cost : BitVec 64) (exp : Int)
    (g : RV.Cache.Item) :
    stSetUpd cfg s t ⟨.new, k.1, k.2, v, cost.toInt, exp⟩ =
      landSet t v g (SetWithTTL_vpSetAfterClock (mI cfg t) s k v cost exp) := by
  unfold stSetUpd SetWithTTL_vpSetAfterClock
  have hi : absItem ({ Gen.Methods.Item.zero 0 with flag := 0#8, Key := k.1, Conflict := k.2, Value := v, Cost := cost, Expiration := exp } : GItem)
      = ⟨.new, k.1, k.2, v, cost.toInt, exp⟩ := by
    simp [absItem, flagOf, itemUpdate, itemDelete]
  simp only [mI, hi]
  split <;> simp_all [landSet, pcSet]

theorem tie_set_exit (cfg : Cfg) (s : State) (t : Tid) (kh : Hash) (i : GItem) (prev : Val) (v : Val)
    (g : RV.Cache.Item) :
    stSetExit s t (absItem i) prev =
      landSet t v g (SetWithTTL_vpSetAfterUpdate (mI cfg t) s kh i prev) := by
  unfold stSetExit SetWithTTL_vpSetAfterUpdate
  simp [mI, landSet, pcSet, absItem, flagOf, itemUpdate]

theorem tie_set_send (cfg : Cfg) (s : State) (t : Tid) (kh : Hash) (i : GItem) (v : Val) :
    stSetSend cfg s t (absItem i) =
      landSet t v (absItem i) (SetWithTTL_vpSetBeforeSend (mI cfg t) s kh i) := by
  unfold stSetSend SetWithTTL_vpSetBeforeSend
  by_cases h : s.buf.length < cfg.bufCap ∧ s.sendq = []
  · simp [mI, hasRoom, h, landSet, pcSet]
  · simp [mI, hasRoom, h, landSet, pcSet]

theorem tie_set_sent (cfg : Cfg) (s : State) (t : Tid) (g : RV.Cache.Item) :
    stSetRetTrue s t g = landSet t g.value g (SetWithTTL_vpSetSent (mI cfg t) s) := by
  simp [stSetRetTrue, SetWithTTL_vpSetSent, landSet]

theorem tie_set_dropped (cfg : Cfg) (s : State) (t : Tid) (kh : Hash) (i : GItem) (g : RV.Cache.Item) :
    stSetRetDrop cfg s t (absItem i) =
      landSetDrop t i.Value g (SetWithTTL_vpSetDropped (mI cfg t) s kh i) := by
  unfold stSetRetDrop SetWithTTL_vpSetDropped dropIsUpdate
  by_cases h : i.flag = 2#8
  · simp [h, absItem, flagOf, itemUpdate, Flag.code, landSetDrop, landSet]
  · have : (flagOf i.flag).code ≠ 2#8 := by
      unfold flagOf; split
      · simp_all [itemUpdate]
      · split <;> simp [Flag.code, itemNew, itemDelete]
    simp [h, this, absItem, landSetDrop, mI, RV.TiePolicy.bump, Gen.Methods.metric_hit, Gen.Methods.metric_miss,
      Gen.Methods.metric_keyAdd, Gen.Methods.metric_keyUpdate, Gen.Methods.metric_keyEvict, Gen.Methods.metric_costAdd,
      Gen.Methods.metric_costEvict, Gen.Methods.metric_dropSets]


/-! Del -/
theorem tie_del_entry (cfg : Cfg) (s : State) (t : Tid) (k : Key) :
    stDelStart s t k.1 k.2 = landDel t k.1 (Del_entry (mI cfg t) false s k) := by
  unfold stDelStart Del_entry
  cases hc : s.closed <;> simp [mI, hc, landDel, pcDel]

theorem tie_del_nil (cfg : Cfg) (s : State) (t : Tid) (k : Key) :
    Del_entry (mI cfg t) true s k = (s, .ret) := by
  simp [Del_entry]

theorem tie_del_exit (cfg : Cfg) (s : State) (t : Tid) (h kh : Hash) (ch : Conf) (prev : Val) :
    stDelExit s t kh ch prev = landDel t h (Del_vpDelAfterStore (mI cfg t) s kh ch prev) := by
  simp [stDelExit, Del_vpDelAfterStore, mI, landDel, pcDel]

theorem tie_del_send (cfg : Cfg) (s : State) (t : Tid) (kh : Hash) (ch : Conf) :
    stDelSend cfg s t kh ch = landDel t kh (Del_vpDelBeforeSend (mI cfg t) s kh ch) := by
  unfold stDelSend sendBlocking Del_vpDelBeforeSend
  have hi : absItem ({ Gen.Methods.Item.zero 0 with flag := 1#8, Key := kh, Conflict := ch } : GItem)
      = ⟨.del, kh, ch, 0, 0, Gen.zeroTime⟩ := by
    simp [absItem, flagOf, itemUpdate, itemDelete, Gen.Methods.Item.zero]
  by_cases h : s.buf.length < cfg.bufCap ∧ s.sendq = []
  · simp [mI, hasRoom, h, hi, landDel, pcDel]
  · simp [mI, hasRoom, h, hi, landDel, pcDel]

theorem tie_del_sent (cfg : Cfg) (s : State) (t : Tid) (h : Hash) :
    stDelSent s t h = landDel t h (Del_vpDelSent (mI cfg t) s) := by
  simp [stDelSent, Del_vpDelSent, landDel]

theorem tie_del_unblocked (h : Hash) (o : Del_Out Key Nat) :
    unblockedPc (pcDel h o) = pcDel h (Del_unblocked o) := by
  cases o <;> rfl

/-! Get -/
/-- the model's outcome of the ring push for choice `ch` (the `let` part of `stGetStart`) -/
def ringPush (cfg : Cfg) (s : State) : Choice → Option State
  | .none => some { s with ringPending := s.ringPending + 1 }
  | .flush kept n =>
    if n = 0 ∨ n > s.ringPending + 1 then none else
    some (metAdd cfg { s with ringPending := s.ringPending + 1 - n } fun m =>
      if kept then { m with keepGets := m.keepGets + BitVec.ofNat 64 n }
      else { m with dropGets := m.dropGets + BitVec.ofNat 64 n })
  | _ => none

theorem tie_get_entry (cfg : Cfg) (s s1 : State) (t : Tid) (k : Key) (ch : Choice)
    (hp : ringPush cfg s ch = some s1) :
    stGetStart cfg s t k.1 k.2 ch =
      some (landGet t k.1 k.2 (Get_entry (mI cfg t (fun _ => s1)) false s k)) := by
  unfold stGetStart Get_entry
  cases hc : s.closed
  · cases ch <;> simp_all [ringPush, mI, landGet, pcGet]
  · simp [mI, hc, landGet, resOf]

theorem tie_get_entry_refused (cfg : Cfg) (s : State) (t : Tid) (k : Key) (ch : Choice)
    (hp : ringPush cfg s ch = none) (hc : s.closed = false) :
    stGetStart cfg s t k.1 k.2 ch = none := by
  unfold stGetStart
  cases ch <;> simp_all [ringPush]

theorem tie_get_nil (cfg : Cfg) (s : State) (t : Tid) (k : Key) :
    Get_entry (mI cfg t) true s k = (s, .ret 0 false) := by
  simp [Get_entry, mI]

theorem tie_get_beforeStore (cfg : Cfg) (s : State) (t : Tid) (c : Conf) (kh : Hash) (ch : Conf) :
    let r := Get_vpGetBeforeStore (mI cfg t) s kh ch
    r.1 = s ∧ pcGet c r.2 = pcGet c (.vpGetBeforeStore kh ch) := by
  simp [Get_vpGetBeforeStore, pcGet]

theorem tie_get_afterCall (cfg : Cfg) (s : State) (t : Tid) (h : Hash) (c : Conf) (e : Option Entry)
    (v : Val) (ok : Bool)
    (hr : (v, ok) = match getResult c e s.clock with | some v => (v, true) | none => (0, false)) :
    stGetCheck s t h c e = landGet t h c (Get_after_store_Get (mI cfg t) s v ok h) := by
  unfold stGetCheck Get_after_store_Get
  cases hg : getResult c e s.clock <;> simp_all [landGet, pcGet, resOf]

theorem tie_get_metric (cfg : Cfg) (s : State) (t : Tid) (h : Hash) (c : Conf) (v : Val) (ok : Bool) :
    stGetMetric cfg s t h c (resOf v ok) = landGet t h c (Get_vpGetAfterStore (mI cfg t) s h v ok) := by
  unfold stGetMetric Get_vpGetAfterStore
  cases ok <;> simp [resOf, mI, landGet, RV.TiePolicy.bump, Gen.Methods.metric_hit, Gen.Methods.metric_miss]

/-! GetTTL -/
theorem tie_ttl_entry (cfg : Cfg) (s : State) (t : Tid) (k : Key) :
    GetTTL_entry (mI cfg t) false s k = (s, .call_store_Get k.1 k.2 k.1) ∧
    pcTtl k.1 k.2 (.call_store_Get k.1 k.2 k.1 : GetTTL_Out Key Nat) = .ttlRead k.1 k.2 := by
  simp [GetTTL_entry, mI, pcTtl]

theorem tie_ttl_nil (cfg : Cfg) (s : State) (t : Tid) (k : Key) :
    GetTTL_entry (mI cfg t) true s k = (s, .ret 0 false) := by
  simp [GetTTL_entry]

theorem tie_ttl_afterCall (cfg : Cfg) (s : State) (t : Tid) (h : Hash) (c : Conf) (e : Option Entry)
    (v : Val) (ok : Bool)
    (hr : (v, ok) = match getResult c e s.clock with | some v => (v, true) | none => (0, false)) :
    stTtlCheck s t h c e = landTtl t h c (GetTTL_after_store_Get (mI cfg t) s v ok h) := by
  unfold stTtlCheck GetTTL_after_store_Get
  cases hg : getResult c e s.clock <;> simp_all [landTtl, pcTtl]

theorem tie_ttl_exp (cfg : Cfg) (s : State) (t : Tid) (h : Hash) (c : Conf) :
    stTtlExp s t h c = landTtl t h c (GetTTL_vpTtlAfterGet (mI cfg t) s h) := by
  unfold stTtlExp GetTTL_vpTtlAfterGet getTTLNoExpiry
  by_cases hz : expirationOf s.store h = Gen.zeroTime <;> simp [mI, hz, landTtl, pcTtl]

theorem tie_ttl_now (cfg : Cfg) (s : State) (t : Tid) (h : Hash) (c : Conf) (exp : Int) :
    stTtlNow s t h c exp = landTtl t h c (GetTTL_vpTtlAfterExp (mI cfg t) s exp) := by
  unfold stTtlNow GetTTL_vpTtlAfterExp getTTLExpired
  by_cases hz : exp < s.clock <;> simp [mI, hz, landTtl, pcTtl]

theorem tie_ttl_until (cfg : Cfg) (s : State) (t : Tid) (h : Hash) (c : Conf) (exp : Int) :
    stTtlUntil s t h c exp = landTtl t h c (GetTTL_vpTtlAfterNow (mI cfg t) s exp) := by
  simp [stTtlUntil, GetTTL_vpTtlAfterNow, getTTLRemaining, mI, landTtl]


/-! ## Non-vacuity: on a concrete state (one resident key, a full write buffer, metrics on) the
generated sections take their interesting branches: the ttl clock read, the update hit (previous
value 9 handed to `OnExit`), the refused send and its `dropSets` metric, `Del` finding the value and
then parking inside its blocking send. -/

def cfg0 : Cfg :=
  { bufCap := 1, ignoreInternal := true, costFn := none, shouldUpdate := none, metricsOn := true, maxCost := 100 }
/-- one resident key 3 (conflict 4, value 9, no expiry), a full write buffer -/
def s0 : State :=
  { init cfg0 5 with store := (AMap.empty : Store).insert 3#64 ⟨4#64, 9, Gen.zeroTime⟩, buf := [.marker 0] }
def i0 : GItem := { Gen.Methods.Item.zero 0 with Key := 3#64, Conflict := 4#64, Value := 7, Cost := 1#64 }

example : (SetWithTTL_entry (mI cfg0 1) false s0 (3#64, 4#64) 7 1#64 10).2 matches .vpSetAfterClock _ 7 _ 15 := by decide
example : (SetWithTTL_vpSetAfterClock (mI cfg0 1) s0 (3#64, 4#64) 7 1#64 15).2 matches .vpSetAfterUpdate _ _ 9 := by decide
example : (SetWithTTL_vpSetBeforeSend (mI cfg0 1) s0 3#64 i0).2 matches .vpSetDropped _ _ := by decide
example : (SetWithTTL_vpSetDropped (mI cfg0 1) s0 3#64 i0).1.met.dropSets = 1#64 := by decide
example : (Del_vpDelBeforeSend (mI cfg0 1) s0 3#64 4#64).2 matches .vpDelSent_blocked := by decide
example : (Del_entry (mI cfg0 1) false s0 (3#64, 4#64)).2 matches .vpDelAfterStore _ _ 9 := by decide
/-! ## The dispatchers: `clientStep` at the pc of a parking point = the generated `<fn>_step` there -/

/-- the landing (ghost value of the call, ghost item) that belongs to the section starting at `o` -/
def landSetAt (t : Tid) (g : RV.Cache.Item) : SetWithTTL_Out Key Nat → State × SetWithTTL_Out Key Nat → State
  | .vpSetAfterClock _ v _ _ => landSet t v g
  | .vpSetAfterUpdate _ i _ => landSet t i.Value g
  | .vpSetBeforeSend _ i => landSet t i.Value (absItem i)
  | .vpSetSent => landSet t g.value g
  | .vpSetDropped _ i => landSetDrop t i.Value g
  | .ret _ => fun r => r.1

theorem tie_set_step (cfg : Cfg) (s : State) (t : Tid) (g : RV.Cache.Item) (o : SetWithTTL_Out Key Nat)
    (hpc : s.cl t = pcSet g o) (hrun : ∀ r, o ≠ .ret r) :
    clientStep cfg s t .none = some (landSetAt t g o (SetWithTTL_step (mI cfg t) s o)) := by
  cases o with
  | ret r => exact absurd rfl (hrun r)
  | vpSetAfterClock k v cost exp =>
    simp only [clientStep, hpc, pcSet, needNone, SetWithTTL_step, landSetAt]; rw [tie_set_update]
  | vpSetAfterUpdate kh i prev =>
    simp only [clientStep, hpc, pcSet, needNone, SetWithTTL_step, landSetAt]; rw [tie_set_exit cfg s t kh i prev i.Value g]
  | vpSetBeforeSend kh i =>
    simp only [clientStep, hpc, pcSet, needNone, SetWithTTL_step, landSetAt]; rw [tie_set_send cfg s t kh i i.Value]
  | vpSetSent =>
    simp only [clientStep, hpc, pcSet, needNone, SetWithTTL_step, landSetAt]; rw [tie_set_sent cfg]
  | vpSetDropped kh i =>
    simp only [clientStep, hpc, pcSet, needNone, SetWithTTL_step, landSetAt]; rw [tie_set_dropped cfg s t kh i g]

theorem tie_del_step (cfg : Cfg) (s : State) (t : Tid) (h : Hash) (o : Del_Out Key Nat)
    (hpc : s.cl t = pcDel h o) (hrun : o ≠ .ret) (hb : o ≠ .vpDelSent_blocked)
    (hk : ∀ kh ch, o = .vpDelBeforeSend kh ch → kh = h) :
    clientStep cfg s t .none = some (landDel t h (Del_step (mI cfg t) s o)) := by
  cases o with
  | ret => exact absurd rfl hrun
  | vpDelSent_blocked => exact absurd rfl hb
  | vpDelAfterStore kh ch prev =>
    simp only [clientStep, hpc, pcDel, needNone, Del_step]; rw [tie_del_exit cfg s t h]
  | vpDelBeforeSend kh ch =>
    have := hk kh ch rfl; subst this
    simp only [clientStep, hpc, pcDel, needNone, Del_step]; rw [tie_del_send cfg]
  | vpDelSent =>
    simp only [clientStep, hpc, pcDel, needNone, Del_step]; rw [tie_del_sent cfg]

theorem tie_del_blocked (cfg : Cfg) (s : State) (t : Tid) (h : Hash) (ch : Choice)
    (hpc : s.cl t = pcDel h .vpDelSent_blocked) : clientStep cfg s t ch = none := by
  simp [clientStep, hpc, pcDel]

theorem tie_get_step (cfg : Cfg) (s : State) (t : Tid) (c : Conf) (kh : Hash) (v : Val) (ok : Bool)
    (hpc : s.cl t = pcGet c (.vpGetAfterStore kh v ok)) :
    clientStep cfg s t .none = some (landGet t kh c (Get_step (mI cfg t) s (.vpGetAfterStore kh v ok))) := by
  simp only [clientStep, hpc, pcGet, needNone, Get_step]; rw [tie_get_metric cfg]

theorem tie_ttl_step (cfg : Cfg) (s : State) (t : Tid) (h : Hash) (c : Conf) (o : GetTTL_Out Key Nat)
    (hpc : s.cl t = pcTtl h c o) (hrun : ∀ d ok, o ≠ .ret d ok) (hcall : ∀ a b k, o ≠ .call_store_Get a b k)
    (hk : ∀ kh, o = .vpTtlAfterGet kh → kh = h) :
    clientStep cfg s t .none = some (landTtl t h c (GetTTL_step (mI cfg t) s o)) := by
  cases o with
  | ret d ok => exact absurd rfl (hrun d ok)
  | call_store_Get a b k => exact absurd rfl (hcall a b k)
  | vpTtlAfterGet kh =>
    have := hk kh rfl; subst this
    simp only [clientStep, hpc, pcTtl, needNone, GetTTL_step]; rw [tie_ttl_exp cfg]
  | vpTtlAfterExp exp =>
    simp only [clientStep, hpc, pcTtl, needNone, GetTTL_step]; rw [tie_ttl_now cfg]
  | vpTtlAfterNow exp =>
    simp only [clientStep, hpc, pcTtl, needNone, GetTTL_step]; rw [tie_ttl_until cfg]

/-! ## Composition with the generated callee `lockedMap.get` (TieStore) -/

/-- … and that hypothesis is exactly what the generated `lockedMap.get` (RV/Gen/Methods.lean, tied in
TieStore) returns for the shard `m` at the clock of its check: the model's `getCheck` step is the
return of the generated callee followed by the generated after-call section. -/
theorem tie_get_afterCall_methods (cfg : Cfg) (s : State) (t : Tid) (h : Hash) (c : Conf)
    (m : Gen.Methods.LockedMap Nat) :
    stGetCheck s t h c ((RV.TieStore.absStore m.data).lookup h) =
      landGet t h c (Get_after_store_Get (mI cfg t) s
        (Gen.Methods.lockedMap_get 0 m h c s.clock).1 (Gen.Methods.lockedMap_get 0 m h c s.clock).2 h) := by
  apply tie_get_afterCall
  have e := RV.TieStore.lockedMap_get_eq m h c s.clock
  cases hg : getResult c ((RV.TieStore.absStore m.data).lookup h) s.clock <;> simp [hg] at e ⊢ <;> simp [e]

theorem tie_ttl_afterCall_methods (cfg : Cfg) (s : State) (t : Tid) (h : Hash) (c : Conf)
    (m : Gen.Methods.LockedMap Nat) :
    stTtlCheck s t h c ((RV.TieStore.absStore m.data).lookup h) =
      landTtl t h c (GetTTL_after_store_Get (mI cfg t) s
        (Gen.Methods.lockedMap_get 0 m h c s.clock).1 (Gen.Methods.lockedMap_get 0 m h c s.clock).2 h) := by
  apply tie_ttl_afterCall
  have e := RV.TieStore.lockedMap_get_eq m h c s.clock
  cases hg : getResult c ((RV.TieStore.absStore m.data).lookup h) s.clock <;> simp [hg] at e ⊢ <;> simp [e]

/-! ## The store functions of the interface instance are the generated `lockedMap` methods -/

/-- the interface function `store_Update` the sections are instantiated with IS the generated
`lockedMap.Update` (RV/Gen/Methods.lean) on a shard `m` that represents the model's store and
expiry index (TieStore's abstraction; the shard selection `key % numShards` is not part of this) -/
theorem mI_store_Update_methods (cfg : Cfg) (t : Tid) (s : State) (i : GItem) (m : Gen.Methods.LockedMap Nat)
    (hs : s.store = RV.TieStore.absStore m.data) (he : s.em = RV.TieExpiry.absEm m.em)
    (hsu : RV.TieStore.SUAgree cfg m) (hem : m.em_nonnil = true) :
    (mI cfg t).store_Update s i =
      ({ s with store := RV.TieStore.absStore (Gen.Methods.lockedMap_Update 0 m i).1.data,
                em := RV.TieExpiry.absEm (Gen.Methods.lockedMap_Update 0 m i).1.em },
       (Gen.Methods.lockedMap_Update 0 m i).2.1, (Gen.Methods.lockedMap_Update 0 m i).2.2) := by
  have e := RV.TieStore.lockedMap_Update_eq cfg m (flagOf i.flag) i hsu hem
  simp only [mI, hs, he]
  have e' : storeUpdate cfg (RV.TieStore.absStore m.data) (RV.TieExpiry.absEm m.em) (absItem i) = _ := e.symm
  rw [show absItem i = RV.TieStore.absItem (flagOf i.flag) i from rfl] at e' ⊢
  rw [e']

theorem mI_store_Del_methods (cfg : Cfg) (t : Tid) (s : State) (k c : BitVec 64) (m : Gen.Methods.LockedMap Nat)
    (hs : s.store = RV.TieStore.absStore m.data) (he : s.em = RV.TieExpiry.absEm m.em)
    (hem : m.em_nonnil = true) :
    (mI cfg t).store_Del s k c =
      ({ s with store := RV.TieStore.absStore (Gen.Methods.lockedMap_Del 0 m k c).1.data,
                em := RV.TieExpiry.absEm (Gen.Methods.lockedMap_Del 0 m k c).1.em },
       (Gen.Methods.lockedMap_Del 0 m k c).2.1, (Gen.Methods.lockedMap_Del 0 m k c).2.2) := by
  have e := RV.TieStore.lockedMap_Del_eq m k c hem
  simp only [mI, hs, he]
  rw [← e]

theorem mI_store_Expiration_methods (cfg : Cfg) (t : Tid) (s : State) (k : BitVec 64) (m : Gen.Methods.LockedMap Nat)
    (hs : s.store = RV.TieStore.absStore m.data) :
    (mI cfg t).store_Expiration s k = Gen.Methods.lockedMap_Expiration 0 m k := by
  simp only [mI, hs, RV.TieStore.lockedMap_Expiration_eq]

end RV.TieCache
