import RV.Proofs.TieBufferRead
/-!
# The methods of z.Buffer, generated whole, agree with the hand-written model (C11)

`RV/Gen/BufferM.lean` is regenerated on every run from z/buffer.go by `go2lean/bufm.go`: the
BODIES of the z.Buffer methods as Lean functions over Go's struct (64-bit words, the whole
backing array, slices as windows), in the Option monad (`none` = the Go code panics).  The C11
theorems are about the hand-written model `RV/Model/Buffer.lean` (naturals, the used prefix as a
list).  This file states, method by method, that the two are the same function through the
abstraction `abs` (`RV/Proofs/TieBufferAbs.lean`):

* `GWF g`: the generated buffer is initialised, `len(b.buf) = b.curSz`, its type is UseCalloc or
  UseMmap (with a mapping), and `abs g` is well-formed (`padding ≤ offset ≤ curSz < 2^62`, …);
* `os.Ok`: the assumed behaviour of the platform calls (`Calloc`, `os.CreateTemp`,
  `OpenMmapFileUsing`, `MmapFile.Truncate`), exactly what C11 assumes;
* `Agree R x m`: the generated result `x` and the model result `m` are both a panic / fault, or
  both a value, related by `R` — so the model faults IFF the generated code returns `none`;
* no-overflow side conditions are the model's own (`Room`: `8·curSz + 8·n + 128 < 2^62`).

Writing methods (`tie_Grow` … `tie_Reset`) are full equalities including the panic case.  The
reading methods (`tie_Slice`, `tie_SliceOffsets`, `tie_SliceIterate`) are stated in the direction
"the model succeeds ⇒ the generated code returns the same": the model faults on a read outside
the written data, the real code reads the stale capacity (`slice_stale_counterexample`).
-/
namespace RV.TieBuffer
open Gen.Buf Gen.BufferM RV.Buffer Gen.Buffer

/-! ## a concrete buffer for the non-vacuity examples: `NewBuffer(64)` after 4 written bytes -/

def gEx : Buffer :=
  { padding := 8#64, offset := 12#64, buf := zeros 64, buf_nonnil := true, bufType := 0#64, curSz := 64#64,
    maxSz := 0#64, mmapFile := ⟨#[]⟩, mmapFile_nonnil := false, autoMmapAfter := 100#64 }

theorem gEx_wf : GWF gEx :=
  ⟨rfl, by simp [gEx], Or.inl rfl, ⟨by simp [abs, gEx], by decide, by decide, by decide, by decide, by decide⟩⟩

def pEx : Array (BitVec 8) := Array.replicate 100 7#8

theorem pEx_size : pEx.size = 100 := by simp [pEx]

/-- the side conditions of the theorems below hold for `gEx` and a request of 100 (+8) bytes:
12 + 100 ≥ 64, so the buffer grows (to 228 > autoMmapAfter = 100: the calloc → mmap switch) -/
theorem gEx_room : (abs gEx).curSz + (abs gEx).curSz + pEx.size + pEx.size < 2 ^ 62 ∧ Room (abs gEx) (8 + pEx.size) := by
  rw [pEx_size]
  exact ⟨by show 64 + 64 + 100 + 100 < 2 ^ 62; decide, by show 8 * 64 + 8 * (8 + 100) + 128 < 2 ^ 62; decide⟩

/-! ## NewBuffer -/

/-- `NewBuffer(capacity)` is the model's `newBuffer`, and well-formed. -/
theorem tie_NewBuffer (os : OS) (hos : os.Ok) (capacity : Nat) (hc : capacity < 2 ^ 62) :
    ∃ g, NewBuffer os (w capacity) = some g ∧ abs g = newBuffer capacity ∧ GWF g :=
  newBuffer_agree os hos capacity hc

example : (1000 : Nat) < 2 ^ 62 := by decide

/-! ## Grow -/

/-- `Grow(n)` = the model's `grow`: max-size panic, early return, calloc re-allocation,
calloc → mmap switch, mmap truncate. -/
theorem tie_Grow (os : OS) (hos : os.Ok) (g : Buffer) (h : GWF g) (n : Nat)
    (hr : (abs g).curSz + (abs g).curSz + n + n < 2 ^ 62) :
    Agree (fun g' m => abs g' = m ∧ GWF g') (Grow os g (w n)) (grow (abs g) n) :=
  grow_agree os hos g h n hr

example : OS.good.Ok ∧ GWF gEx ∧ (abs gEx).curSz + (abs gEx).curSz + pEx.size + pEx.size < 2 ^ 62 :=
  ⟨OS.good_ok, gEx_wf, gEx_room.1⟩

/-! ## Allocate, AllocateOffset (the caller fills the region: `fill`) -/

/-- `Allocate(len p)` returns the region `[off, off+len p)` inside the (possibly moved) buffer;
once the caller has copied `p` there the state is the model's `allocate`. -/
theorem tie_Allocate (os : OS) (hos : os.Ok) (g : Buffer) (h : GWF g) (p : Array (BitVec 8))
    (hr : (abs g).curSz + (abs g).curSz + p.size + p.size < 2 ^ 62) :
    Agree (fun (r : Buffer × Win) (m : Buf × Nat) =>
        r.2 = ⟨m.2, m.2 + p.size⟩ ∧ m.2 + p.size ≤ r.1.buf.size ∧ abs (fill r.1 r.2 p) = m.1 ∧ GWF (fill r.1 r.2 p))
      (Allocate os g (w p.size)) (allocate (abs g) p.toList) :=
  allocate_agree os hos g h p hr

example : OS.good.Ok ∧ GWF gEx ∧ (abs gEx).curSz + (abs gEx).curSz + pEx.size + pEx.size < 2 ^ 62 :=
  ⟨OS.good_ok, gEx_wf, gEx_room.1⟩

/-- `AllocateOffset(len p)` returns the offset of the region; with the caller's copy: `allocateOffset`. -/
theorem tie_AllocateOffset (os : OS) (hos : os.Ok) (g : Buffer) (h : GWF g) (p : Array (BitVec 8))
    (hr : (abs g).curSz + (abs g).curSz + p.size + p.size < 2 ^ 62) :
    Agree (fun (r : Buffer × BitVec 64) (m : Buf × Nat) =>
        r.2 = w m.2 ∧ abs (fill r.1 ⟨m.2, m.2 + p.size⟩ p) = m.1 ∧ GWF (fill r.1 ⟨m.2, m.2 + p.size⟩ p))
      (AllocateOffset os g (w p.size)) (allocateOffset (abs g) p.toList) :=
  allocateOffset_agree os hos g h p hr

example : OS.good.Ok ∧ GWF gEx ∧ (abs gEx).curSz + (abs gEx).curSz + pEx.size + pEx.size < 2 ^ 62 :=
  ⟨OS.good_ok, gEx_wf, gEx_room.1⟩

/-! ## Write, writeLen, SliceAllocate, WriteSlice, Reset -/

/-- `Write(p)` = `write`: same state, count `len p`, nil error; same panic. -/
theorem tie_Write (os : OS) (hos : os.Ok) (g : Buffer) (h : GWF g) (p : Array (BitVec 8))
    (hr : (abs g).curSz + (abs g).curSz + p.size + p.size < 2 ^ 62) :
    Agree (fun (r : Buffer × BitVec 64 × Err) (m : Buf × Nat) =>
        abs r.1 = m.1 ∧ GWF r.1 ∧ r.2.1 = w m.2 ∧ r.2.2 = Err.nil)
      (Write os g p (Win.full p.size)) (write (abs g) p.toList) :=
  write_agree os hos g h p hr

example : OS.good.Ok ∧ GWF gEx ∧ (abs gEx).curSz + (abs gEx).curSz + pEx.size + pEx.size < 2 ^ 62 :=
  ⟨OS.good_ok, gEx_wf, gEx_room.1⟩

/-- `writeLen(sz)` = `writeLen`: `Allocate(8)` then the 8-byte big-endian prefix. -/
theorem tie_writeLen (os : OS) (hos : os.Ok) (g : Buffer) (h : GWF g) (sz : Nat)
    (hr : (abs g).curSz + (abs g).curSz + 8 + 8 < 2 ^ 62) :
    Agree (fun g' m => abs g' = m ∧ GWF g') (Gen.BufferM.writeLen os g (w sz)) (RV.Buffer.writeLen (abs g) sz) :=
  writeLen_agree os hos g h sz hr

example : OS.good.Ok ∧ GWF gEx ∧ (abs gEx).curSz + (abs gEx).curSz + 8 + 8 < 2 ^ 62 :=
  ⟨OS.good_ok, gEx_wf, by show 64 + 64 + 8 + 8 < 2 ^ 62; decide⟩

/-- `SliceAllocate(len p)` = `sliceAllocate` (three `Grow`s, the prefix, the region for `p`). -/
theorem tie_SliceAllocate (os : OS) (hos : os.Ok) (g : Buffer) (h : GWF g) (p : Array (BitVec 8))
    (hr : Room (abs g) (8 + p.size)) :
    Agree (fun (r : Buffer × Win) (m : Buf × Nat) =>
        r.2 = ⟨m.2, m.2 + p.size⟩ ∧ m.2 + p.size ≤ r.1.buf.size ∧ abs (fill r.1 r.2 p) = m.1 ∧ GWF (fill r.1 r.2 p))
      (SliceAllocate os g (w p.size)) (sliceAllocate (abs g) p.toList) :=
  sliceAllocate_agree os hos g h p hr

example : OS.good.Ok ∧ GWF gEx ∧ Room (abs gEx) (8 + pEx.size) := ⟨OS.good_ok, gEx_wf, gEx_room.2⟩

/-- `WriteSlice(p)` = `writeSlice`. -/
theorem tie_WriteSlice (os : OS) (hos : os.Ok) (g : Buffer) (h : GWF g) (p : Array (BitVec 8))
    (hr : Room (abs g) (8 + p.size)) :
    Agree (fun g' m => abs g' = m ∧ GWF g') (WriteSlice os g p (Win.full p.size)) (writeSlice (abs g) p.toList) :=
  writeSlice_agree os hos g h p hr

example : OS.good.Ok ∧ GWF gEx ∧ Room (abs gEx) (8 + pEx.size) := ⟨OS.good_ok, gEx_wf, gEx_room.2⟩

/-- `Reset()` = `reset` (never panics). -/
theorem tie_Reset (g : Buffer) (h : GWF g) : ∃ g', Reset g = some g' ∧ abs g' = reset (abs g) ∧ GWF g' :=
  reset_agree g h

example : ∃ g', Reset gEx = some g' ∧ abs g' = reset (abs gEx) ∧ GWF g' := tie_Reset gEx gEx_wf

/-! ## Reading -/

/-- `Bytes()` is the window `[padding, offset)`; its content is the model's `bytes`. -/
theorem tie_Bytes (g : Buffer) (h : GWF g) :
    ∃ win, Gen.BufferM.Bytes g = some win ∧ (bytesOf g.buf win).toList = bytes (abs g) :=
  bytes_agree g h

example : ∃ win, Gen.BufferM.Bytes gEx = some win ∧ (bytesOf gEx.buf win).toList = bytes (abs gEx) :=
  tie_Bytes gEx gEx_wf

/-- Whenever the model's `slice` succeeds, `Slice(off)` returns the same bytes and the same
`next` (−1 for none). -/
theorem tie_Slice (g : Buffer) (h : GWF g) (off : Nat) (hoff : off < 2 ^ 63) (s : Bytes) (nx : Option Nat)
    (hm : RV.Buffer.slice (abs g) off = .ok (s, nx)) :
    ∃ win, Slice g (w off) = some (win, nextWord nx) ∧ (bytesOf g.buf win).toList = s := by
  obtain ⟨win, h1, h2, _⟩ := slice_agree g h off hoff s nx hm
  exact ⟨win, h1, h2⟩

/-- a panic of the generated `Slice` is a fault of the model -/
theorem tie_Slice_none (g : Buffer) (h : GWF g) (off : Nat) (hoff : off < 2 ^ 63)
    (hn : Slice g (w off) = none) : ∃ f, RV.Buffer.slice (abs g) off = .error f := by
  cases hm : RV.Buffer.slice (abs g) off with
  | error f => exact ⟨f, rfl⟩
  | ok r =>
    obtain ⟨s, nx⟩ := r
    obtain ⟨win, h1, _⟩ := tie_Slice g h off hoff s nx hm
    rw [hn] at h1; cases h1

/-- a buffer holding one 4-byte slice -/
def gSl : Buffer :=
  { gEx with offset := 20#64, buf := blit (zeros 64) 8 #[0, 0, 0, 0, 0, 0, 0, 4, 9, 9, 9, 9] }

theorem gSl_wf : GWF gSl :=
  ⟨rfl, by simp [gSl, gEx], Or.inl rfl, ⟨by simp [abs, gSl, gEx], by decide, by decide, by decide, by decide, by decide⟩⟩

set_option maxRecDepth 10000 in
example : GWF gSl ∧ RV.Buffer.slice (abs gSl) 8 = .ok ([9, 9, 9, 9], none) := ⟨gSl_wf, by rfl⟩

set_option maxRecDepth 10000 in
/-- The converse of `tie_Slice` is false: at an offset whose record lies beyond the written
length the model faults, the code reads the capacity (here: zeroes) and returns. -/
theorem slice_stale_counterexample :
    GWF gEx ∧ RV.Buffer.slice (abs gEx) 8 = .error .bounds ∧ Slice gEx (w 8) = some (⟨16, 16⟩, nextWord none) :=
  ⟨gEx_wf, by rfl, by decide⟩

/-- Whenever the model's `sliceOffsets` succeeds, `SliceOffsets()` returns the same offsets. -/
theorem tie_SliceOffsets (g : Buffer) (h : GWF g) (offs : List Nat) (hm : sliceOffsets (abs g) = .ok offs) :
    SliceOffsets g = some (offs.map w).toArray :=
  sliceOffsets_agree g h offs hm

set_option maxRecDepth 10000 in
example : GWF gSl ∧ sliceOffsets (abs gSl) = .ok [8] := ⟨gSl_wf, by rfl⟩

/-- Whenever the model's `sliceIterate` succeeds, `SliceIterate(f)` — for a callback that does not
fail — has shown `f` exactly the model's slices, in order (`visit`: the callback's state). -/
theorem tie_SliceIterate {σ : Type} (g : Buffer) (h : GWF g) (f : σ → Array (BitVec 8) → σ × Err)
    (hf : ∀ st x, (f st x).2 = Err.nil) (st : σ) (ss : List Bytes) (hm : sliceIterate (abs g) = .ok ss) :
    ∃ xs : List (Array (BitVec 8)), xs.map Array.toList = ss ∧ SliceIterate g f st = some (visit f st xs, Err.nil) :=
  sliceIterate_agree g h f hf st ss hm

set_option maxRecDepth 10000 in
example : GWF gSl ∧ sliceIterate (abs gSl) = .ok [[9, 9, 9, 9]] := ⟨gSl_wf, by rfl⟩

/-! ## accessors -/

theorem tie_StartOffset (g : Buffer) : StartOffset g = some (w (abs g).padding) := startOffset_agree g

theorem tie_IsEmpty (g : Buffer) : IsEmpty g = some (isEmpty (w (abs g).offset) (w (abs g).padding)) :=
  isEmpty_agree g

theorem tie_LenWithPadding (g : Buffer) : LenWithPadding g = some (w (abs g).offset) := lenWithPadding_agree g

theorem tie_LenNoPadding (g : Buffer) (h : GWF g) : LenNoPadding g = some (w (lenNoPadding (abs g))) :=
  lenNoPadding_agree g h

/-- `Data(offset)` is `b.buf[offset:b.curSz]`; it panics beyond the capacity. -/
theorem tie_Data (g : Buffer) (h : GWF g) (off : Nat) (hoff : off < 2 ^ 63) :
    Data g (w off) = if off ≤ g.curSz.toNat then some ⟨off, g.curSz.toNat⟩ else none :=
  data_spec g h off hoff

end RV.TieBuffer
