import RV.Proofs.CacheFairExamples
/-!
# C08, last clause — "… and every call returns in bounded time": termination under fairness

This file puts the ranking lemmas of `RV/Props/C08.lean` (`client_step_decreases`,
`applier_progress_unblocks`) and deadlock freedom together into the theorem they were meant for:
in a fair infinite execution of the cache model every call returns.

**Executions.**  `Exec cfg`: `st : Nat → State`, `act : Nat → Action`, `st 0` reachable without
`Close` (`ReachNC`), `step cfg (st i) (act i) = some (st (i+1))`, no `spawn _ .close` ever (`Clear`
is allowed; any number of client threads; `spawn` and `tick` are the environment's and unrestricted).

**Fairness.**  `Fair e = WeakFair e ∧ SelectFair e`:
* `WeakFair` — for every actor (each client thread `t`, owning `.client t _` and `.done t`; the
  applier, owning `.applier _`): `∀ i, ∃ j ≥ i, ¬ Enabled (st j) actor ∨ act j is the actor's`;
* `SelectFair` — STRONG fairness of two branches of the applier's `select`: if `.applier .selItem`
  (resp. `.applier (.selStop t)`, for each client `t`) can be taken infinitely often, it is taken
  infinitely often.  This is what Go's `select` (uniformly random among the ready cases) gives with
  probability 1, and for `stop` what the FIFO queue of senders blocked on an unbuffered channel
  gives.  It cannot be dropped: in the model the ticker branch is always ready, and weak fairness
  lets the applier take it forever (`c08_weak_fairness_insufficient_counterexample`); and it cannot
  be weakened to one fairness class for the `stop` branch, because the model's applier may serve ANY
  offering client (`c08_coarse_stop_fairness_counterexample`).

**Results.**
* `c08_non_clear_calls_return` — under `Fair` (and `1 ≤ bufCap`) every `Set`/`SetWithTTL`/`Get`/
  `GetTTL`/`Del`/`Wait`/`IterValues`/`UpdateMaxCost`/`MaxCost`/`RemainingCost` call returns, whatever
  the other clients (concurrent `Clear`s included) do.
* `c08_every_call_returns` — every call, `Clear` included, returns if moreover the stream of sends
  on `setBuf` dries up (`SendsCease`).  `c08_every_call_returns_partial` is the same with the weaker
  hypothesis that every drain loop of a `Clear` is eventually left (`DrainsEnd`), and
  `c08_drains_end` derives `DrainsEnd` from `SendsCease`.
* That extra hypothesis is necessary — FINDING (code and model alike): `Clear`'s drain loop
  `for { select { case i := <-c.setBuf: … default: break loop } }` does not terminate under a
  sustained stream of concurrent `Set`s, even in a `Fair` execution
  (`c08_clear_livelock_counterexample`).
* blocking points, individually: `c08_blocked_send_released`, `c08_wait_marker_closed`,
  `c08_stop_taken`, `c08_done_received`, `c08_applier_returns_to_select`, `c08_receive_happens`.
* non-vacuity: `c08_fair_execution_exists` (a `Fair` execution from the initial state in which a
  `Del` blocks on the full buffer, is released and returns) and the `example`s.

Method: well-founded induction on `rankN 0 (pc)` (every change of a pc strictly decreases it,
`change_rank`); the pc changes because (a) at a non-blocking pc the client is enabled until it moves
(weak-fairness rule `wf_rule`), (b) a blocked sender moves one place forward in `sendq` with every
receive and nobody overtakes it, a `Wait` marker likewise in `buf ++ sendq`, and receives keep
happening (`recv_happens`: the applier is back at its `select` after finitely many steps — `rankA`,
the stop/done handshake completes, the drain loop itself receives — and `SelectFair.item`), (c) an
offered `stop` is ready whenever the applier is at its `select`, which happens again and again when
drain loops end, (d) the `done` rendezvous is enabled as soon as the applier acknowledged the stop.
-/
namespace RV.C08Fair
open RV RV.Cache Gen.Cache

/-! ## the main theorems -/

/-- **Every call outside `Clear` returns.**  In every `Fair` execution without `Close`, a client
that is inside a call other than `Clear` at time `i` is idle again at some later time — whatever
everybody else does (other clients may call anything, `Clear` included, for ever). -/
theorem c08_non_clear_calls_return {cfg : Cfg} (e : Exec cfg) (hf : Fair e) (hcap : 1 ≤ cfg.bufCap)
    (t : Tid) (i : Nat) (hcall : ((e.st i).cl t).inClear = false) :
    ∃ j, i ≤ j ∧ (e.st j).cl t = .idle :=
  call_returns hf hcap t _ i (Nat.le_refl _) (Or.inl hcall)

/-- **Every call returns** (general form): `Clear` included, provided every drain loop of a `Clear`
is eventually left (`DrainsEnd`, the explicit remaining hypothesis; see `c08_drains_end` and
`c08_clear_livelock_counterexample`). -/
theorem c08_every_call_returns_partial {cfg : Cfg} (e : Exec cfg) (hf : Fair e) (hcap : 1 ≤ cfg.bufCap)
    (hdrain : DrainsEnd e) (t : Tid) (i : Nat) : ∃ j, i ≤ j ∧ (e.st j).cl t = .idle :=
  call_returns hf hcap t _ i (Nat.le_refl _) (Or.inr hdrain)

/-- drain loops end if from some time on nobody performs the send step of `Set`/`Del`/`Wait` -/
theorem c08_drains_end {cfg : Cfg} (e : Exec cfg) (hf : WeakFair e) (hs : SendsCease e) : DrainsEnd e :=
  drainsEnd_of_sendsCease hf hs

/-- **Every call returns.**  In every `Fair` execution without `Close` in which the sends on
`setBuf` cease from some time on, every client that is inside a call (`Clear` included, several
`Clear`s may compete for the `stop` rendezvous) at time `i` is idle again at some later time. -/
theorem c08_every_call_returns {cfg : Cfg} (e : Exec cfg) (hf : Fair e) (hcap : 1 ≤ cfg.bufCap)
    (hs : SendsCease e) (t : Tid) (i : Nat) (_hcall : (e.st i).cl t ≠ .idle) :
    ∃ j, i ≤ j ∧ (e.st j).cl t = .idle :=
  c08_every_call_returns_partial e hf hcap (drainsEnd_of_sendsCease hf.weak hs) t i

/-- **Non-vacuity.**  A `Fair` execution (with `SendsCease`) from the initial state of the one-slot
configuration exists in which the interesting case occurs: at time 9 client 2 is blocked in `Del`'s
send on the full buffer, the applier's receive (time 9) completes the send, at time 14 the call has
returned; afterwards everybody is idle and the applier keeps taking the ticker branch. -/
theorem c08_fair_execution_exists :
    ∃ e : Exec exCfg1, 1 ≤ exCfg1.bufCap ∧ Fair e ∧ SendsCease e ∧ e.st 0 = init exCfg1 0 ∧
      (e.st 9).cl 2 = .delBlocked 9#64 ∧ e.act 9 = .applier .selItem ∧ (e.st 10).cl 2 = .delSent 9#64 ∧
      (e.st 14).cl 2 = .idle :=
  fair_execution_releases_blocked_del

/-- the hypotheses of `c08_every_call_returns` / `c08_non_clear_calls_return` are satisfiable with a
client blocked inside a call -/
example : ∃ (e : Exec exCfg1) (t : Tid) (i : Nat), Fair e ∧ 1 ≤ exCfg1.bufCap ∧ SendsCease e ∧
    (e.st i).cl t ≠ .idle ∧ ((e.st i).cl t).inClear = false ∧ BlockedAt (e.st i) ((e.st i).cl t) := by
  obtain ⟨e, hcap, hf, hs, _, h9, _⟩ := c08_fair_execution_exists
  exact ⟨e, 2, 9, hf, hcap, hs, by rw [h9]; simp, by rw [h9]; rfl, by rw [h9]; trivial⟩

/-- … and the conclusion is what happened there -/
example : ∃ (e : Exec exCfg1), Fair e ∧ (e.st 9).cl 2 ≠ .idle ∧ ∃ j, 9 ≤ j ∧ (e.st j).cl 2 = .idle := by
  obtain ⟨e, hcap, hf, hs, _, h9, _⟩ := c08_fair_execution_exists
  exact ⟨e, hf, by rw [h9]; simp, c08_every_call_returns e hf hcap hs 2 9 (by rw [h9]; simp)⟩

/-! ## the blocking points, one by one -/

/-- the applier is back at its `select` after finitely many of its own steps (weak fairness) -/
theorem c08_applier_returns_to_select {cfg : Cfg} (e : Exec cfg) (hf : WeakFair e) (i : Nat)
    (hrun : (e.st i).app.running = true) : ∃ j, i ≤ j ∧ (e.st j).app = .idle :=
  applier_returns hf hrun

/-- a non-empty `setBuf` is eventually received from: by the applier (`SelectFair.item`) or by the
drain loop of a `Clear` -/
theorem c08_receive_happens {cfg : Cfg} (e : Exec cfg) (hf : Fair e) (i : Nat) (hb : (e.st i).buf ≠ []) :
    ∃ j, i ≤ j ∧ IsRecv (e.st j) (e.st (j + 1)) :=
  recv_happens hf hb

/-- a sender blocked on the full buffer (`Del`, `Wait`) is released -/
theorem c08_blocked_send_released {cfg : Cfg} (e : Exec cfg) (hf : Fair e) (hcap : 1 ≤ cfg.bufCap)
    (t : Tid) (i : Nat) (hb : ((e.st i).cl t).sendBlocked = true) :
    ∃ j, i ≤ j ∧ (e.st j).cl t ≠ (e.st i).cl t :=
  sender_released hf hcap hb

/-- the marker a `Wait` call waits for is eventually closed -/
theorem c08_wait_marker_closed {cfg : Cfg} (e : Exec cfg) (hf : Fair e) (hcap : 1 ≤ cfg.bufCap)
    (t : Tid) (id : Nat) (i : Nat) (hw : ((e.st i).cl t).waitsFor = some id) :
    ∃ j, i ≤ j ∧ id ∈ (e.st j).closedMarkers :=
  marker_closes hf hcap ((e.live i).waiting t id hw)

/-- an offered `stop` is taken, if drain loops end (several `Clear`s may compete) -/
theorem c08_stop_taken {cfg : Cfg} (e : Exec cfg) (hf : Fair e) (hd : DrainsEnd e) (t : Tid) (c : Bool)
    (i : Nat) (hpc : (e.st i).cl t = .clrStop c) : ∃ j, i ≤ j ∧ (e.st j).cl t ≠ .clrStop c :=
  stop_taken hf hd hpc

/-- the `done` rendezvous happens (weak fairness) -/
theorem c08_done_received {cfg : Cfg} (e : Exec cfg) (hf : WeakFair e) (t : Tid) (c : Bool) (i : Nat)
    (hpc : (e.st i).cl t = .clrDone c) :
    ∃ j, i ≤ j ∧ (e.st j).cl t = .clrDrain c ∧ (e.st j).app = .dead :=
  done_progress hf hpc

/-- the blocking cases occur: in the witness execution client 2 is a blocked sender at time 9 -/
example : ∃ (e : Exec exCfg1), Fair e ∧ ((e.st 9).cl 2).sendBlocked = true ∧ (e.st 9).buf ≠ [] := by
  obtain ⟨e, _, hf, _, _, h9, _⟩ := c08_fair_execution_exists
  refine ⟨e, hf, by rw [h9]; rfl, ?_⟩
  obtain ⟨el, hel⟩ := (e.live 9).blocked 2 (by rw [h9]; rfl)
  intro hbe
  have := (e.live 9).full (List.ne_nil_of_mem hel)
  rw [hbe] at this; simp [exCfg1] at this

/-! ## what cannot be dropped -/

/-- **Weak fairness per actor is not enough.**  A weakly fair execution from the initial state in
which a `Wait` never returns: the applier takes the ticker branch of its `select` (always ready in
the model) forever.  The execution is not `SelectFair`. -/
theorem c08_weak_fairness_insufficient_counterexample :
    ∃ e : Exec exCfg1, 1 ≤ exCfg1.bufCap ∧ e.st 0 = init exCfg1 0 ∧ WeakFair e ∧ ¬ SelectFair e ∧
      ∀ j, 3 ≤ j → (e.st j).cl 1 = .waitRecv 0 :=
  weak_fairness_insufficient_counterexample

/-- **`Clear` can livelock in its drain loop, even in a `Fair` execution** (finding; code and model
alike): client 1 keeps calling `Set`, every drain iteration of client 0's `Clear` finds an item. -/
theorem c08_clear_livelock_counterexample :
    ∃ e : Exec exCfg1, 1 ≤ exCfg1.bufCap ∧ e.st 0 = init exCfg1 0 ∧ Fair e ∧ ¬ DrainsEnd e ∧ ¬ SendsCease e ∧
      ∀ j, 4 ≤ j → (e.st j).cl 0 = .clrDrain false :=
  clear_livelock_counterexample

/-- **Fairness of the `stop` branch as ONE class does not bound an individual `Clear`**: the
model's applier may take the `stop` of any offering client (the Go runtime serves blocked senders
FIFO).  Weakly fair, `stop` branch taken infinitely often, nobody sends — client 0's `Clear` waits
at `c.stop <- struct{}{}` forever while client 1's `Clear`s are served. -/
theorem c08_coarse_stop_fairness_counterexample :
    ∃ e : Exec exCfg1, 1 ≤ exCfg1.bufCap ∧ e.st 0 = init exCfg1 0 ∧ WeakFair e ∧ SelectFairCoarse e ∧
      SendsCease e ∧ ¬ SelectFair e ∧ ∀ j, 2 ≤ j → (e.st j).cl 0 = .clrStop false :=
  coarse_stop_fairness_counterexample

end RV.C08Fair
