import RV.Proofs.Bloom
/-!
# C19 — Bloom filter: no false negatives, faithful serialization

Property theorems only (helper lemmas live in `RV/Proofs/BloomBits.lean`, `RV/Proofs/Bloom.lean`).
Every arithmetic step of the model (`RV/Model/Bloom.lean`) is a kernel *generated* from
`z/bbloom.go` by go2lean on every run: `getSize`, the `h`/`l`/position expressions of `Add` and
of `Has` (separately), both loop conditions, the word/byte/bit addressing of `Set` and of
`IsSet` (separately), the `mask` table, the length expressions of the JSON export / import.

`InRange bl` ("the mask fits the byte array") is what the unsafe pointer arithmetic of the
real code needs; `WF bl` is the shape `NewBloomFilter` produces (`c19_new_wellformed`).
-/
namespace RV.C19
open RV.Bloom Gen.Bloom

/-- The fuelled loops of the model leave through the generated loop condition: `Add` sets
exactly the enumerated positions, `Has` is the conjunction over the enumerated positions. -/
theorem loops_exact (bl : Bloom) (hash : BitVec 64) :
    add bl hash = setAll bl (addPositions bl hash) ∧
    has bl hash = (hasPositions bl hash).all fun q => bitAt bl.bytes q.toNat :=
  ⟨add_eq bl hash, has_eq bl hash⟩

/-- `Add` and `Has` enumerate the same bit positions (for every shift, mask and `setLocs`). -/
theorem positions_same (bl : Bloom) (hash : BitVec 64) : addPositions bl hash = hasPositions bl hash :=
  RV.Bloom.positions_same bl hash

/-- The `unsafe` byte addressing of `Set` / `IsSet`: bit `idx` lives in byte `idx / 8` at bit
`idx % 8`; every position produced by `Add`/`Has` is inside the array; `Set` turns on exactly
that bit; and on a little-endian machine this is bit `idx % 64` of word `idx / 64`. -/
theorem bit_addr (bl : Bloom) (h : InRange bl) (hash : BitVec 64) :
    (∀ idx, isSet bl idx = bitAt bl.bytes idx.toNat) ∧
    (∀ q ∈ addPositions bl hash, q.toNat / 8 < bl.bytes.size) ∧
    (∀ idx p, idx.toNat / 8 < bl.bytes.size →
      bitAt (setBit bl idx).bytes p = (bitAt bl.bytes p || decide (idx.toNat = p))) ∧
    (∀ idx : BitVec 64, bitAt bl.bytes idx.toNat = (word bl.bytes (idx.toNat / 64)).getLsbD (idx.toNat % 64)) := by
  refine ⟨isSet_eq bl, inRange_positions bl h hash, fun idx p hi => bitAt_setBit bl idx hi p, fun idx => ?_⟩
  rw [word_bit _ _ _ (by omega)]
  congr 1
  omega

/-- A hash that has just been added is reported present. -/
theorem has_after_add (bl : Bloom) (h : InRange bl) (hash : BitVec 64) : has (add bl hash) hash = true :=
  RV.Bloom.has_after_add bl h hash

/-- `Add` sets exactly the enumerated bits and clears none; hence whatever `Has` reported
before, it still reports afterwards. -/
theorem add_monotone (bl : Bloom) (h : InRange bl) (hash : BitVec 64) :
    (∀ p, bitAt (add bl hash).bytes p =
      (bitAt bl.bytes p || (addPositions bl hash).any fun q => decide (q.toNat = p))) ∧
    (∀ x, has bl x = true → has (add bl hash) x = true) :=
  ⟨bitAt_add bl h hash, fun x hx => RV.Bloom.add_monotone bl h hash x hx⟩

/-- No false negatives: once a hash went in through `Add` or `AddIfNotHas`, `Has` reports it
after any later sequence of `Add` / `AddIfNotHas` calls (until `Clear`). -/
theorem c19_no_false_negative (bl : Bloom) (h : InRange bl) (hash : BitVec 64) (ops : List Op) :
    has (run (add bl hash) ops) hash = true ∧ has (run (addIfNotHas bl hash).1 ops) hash = true := by
  constructor
  · exact (run_monotone _ (inRange_add bl h hash) ops hash (RV.Bloom.has_after_add bl h hash)).1
  · exact (run_monotone _ (inRange_step bl h (.addIfNotHas hash)) ops hash (has_after_addIfNotHas bl h hash)).1

/-- `AddIfNotHas` returns true exactly when `Has` was false beforehand, leaves the filter
untouched otherwise, and in both cases `Has` is true afterwards. -/
theorem c19_add_if_not_has (bl : Bloom) (h : InRange bl) (hash : BitVec 64) :
    (addIfNotHas bl hash).2 = (!has bl hash) ∧
    (has bl hash = true → (addIfNotHas bl hash).1 = bl) ∧
    has (addIfNotHas bl hash).1 hash = true := by
  refine ⟨addIfNotHas_flag bl hash, fun hh => ?_, has_after_addIfNotHas bl h hash⟩
  rw [addIfNotHas_state, hh]; rfl

/-- `Clear` empties the filter: every bit is zero, and (when the filter tests at least one
location) `Has` is false for every hash.  For `setLocs = 0` the code's `Has` is constantly
true — see `c19_degenerate_zero_locs`. -/
theorem c19_clear (bl : Bloom) :
    (∀ p, bitAt (clear bl).bytes p = false) ∧
    (bl.setLocs ≠ 0#64 → ∀ hash, has (clear bl) hash = false) :=
  ⟨bitAt_clear bl, fun hl hash => has_clear bl hl hash⟩

/-- Degenerate parameter, as the code behaves now: a filter with zero hash locations would report
every hash present, even when empty or cleared.  (Today `NewBloomFilter(n, 0)` cannot build one:
a second parameter `< 1` is read as a false-positive rate and rate 0 panics in `make`.) -/
theorem c19_degenerate_zero_locs (bl : Bloom) (h0 : bl.setLocs = 0#64) (hash : BitVec 64) :
    has bl hash = true ∧ has (clear bl) hash = true := by
  constructor
  · rw [has_eq]; unfold hasPositions; rw [h0]; rfl
  · rw [has_eq]; unfold hasPositions
    have : (clear bl).setLocs = 0#64 := h0
    rw [this]; rfl

/-- `NewBloomFilter(entries, locs)` is well formed for every `entries ≤ 2^63` (including the
degenerate 0) and every `locs`; well-formed filters are in range. (For `entries > 2^63` the
loop of `getSize` does not terminate in Go.) -/
theorem c19_new_wellformed (entries locs : BitVec 64) (he : entries.toNat ≤ 2 ^ 63) :
    WF (new entries locs) ∧ InRange (new entries locs) :=
  ⟨new_wf entries locs he, (new_wf entries locs he).inRange⟩

/-- Well-formedness is kept by every operation. -/
theorem c19_wf_preserved (bl : Bloom) (w : WF bl) (hash : BitVec 64) :
    WF (add bl hash) ∧ WF (addIfNotHas bl hash).1 ∧ WF (clear bl) := by
  have hf := add_fields bl hash
  have wa : WF (add bl hash) := by
    constructor
    · rw [hf.2.2.2.1]; exact w.exp_lo
    · rw [hf.2.2.2.1]; exact w.exp_hi
    · rw [hf.1, hf.2.2.2.1]; exact w.size_eq
    · rw [hf.2.1, hf.2.2.2.1]; exact w.shift_eq
    · rw [hf.2.2.2.2, hf.2.2.2.1]; exact w.bytes_eq
  refine ⟨wa, ?_, ?_⟩
  · rw [addIfNotHas_state]; split
    · exact w
    · exact wa
  · exact ⟨w.exp_lo, w.exp_hi, w.size_eq, w.shift_eq, by simpa [clear] using w.bytes_eq⟩

/-- JSON round trip (the byte-level part; `encoding/json` itself is exercised by the
harness): exporting a well-formed filter byte-wise and re-importing the bytes with the exported
`SetLocs` gives back the same bytes, exponent, mask, shift and `setLocs` (only the statistics
counter `ElemNum` restarts at 0), hence `Has` answers identically for **every** hash. -/
theorem c19_json_roundtrip (bl : Bloom) (w : WF bl) :
    importBytes (exportBytes bl) bl.setLocs = { bl with elemNum := 0#64 } ∧
    ∀ hash, has (importBytes (exportBytes bl) bl.setLocs) hash = has bl hash := by
  have e : importBytes (exportBytes bl) bl.setLocs = { bl with elemNum := 0#64 } := by
    rw [exportBytes_eq bl w]; exact importBytes_eq bl w
  refine ⟨e, fun hash => ?_⟩
  rw [e]; rfl

/-! ### Non-vacuity -/

/-- the hypotheses are satisfiable by the filters the constructor builds, also at the extremes -/
example : WF (new 0#64 0#64) ∧ WF (new 1000#64 3#64) ∧ WF (new (BitVec.ofNat 64 (2 ^ 63)) 7#64) :=
  ⟨new_wf _ _ (by decide), new_wf _ _ (by decide), new_wf _ _ (by decide)⟩

/-- `Has` is not trivially true, a hash with an all-ones high half and a zero low half is found
after `Add`, and `AddIfNotHas` reports the second insertion as a duplicate. -/
example :
    has (new 512#64 3#64) 5#64 = false ∧
    has (add (new 512#64 3#64) 0xffffffff00000000#64) 0xffffffff00000000#64 = true ∧
    has (add (new 512#64 3#64) 0xffffffff00000000#64) 5#64 = false ∧
    (addIfNotHas (new 512#64 3#64) 7#64).2 = true ∧
    (addIfNotHas (add (new 512#64 3#64) 7#64) 7#64).2 = false ∧
    has (clear (add (new 512#64 3#64) 7#64)) 7#64 = false := by decide

-- the round trip on a concrete non-empty filter
set_option maxRecDepth 8192 in
example :
    (importBytes (exportBytes (add (new 512#64 2#64) 0xdeadbeef#64)) 2#64).bytes.size = 64 ∧
    has (importBytes (exportBytes (add (new 512#64 2#64) 0xdeadbeef#64)) 2#64) 0xdeadbeef#64 = true ∧
    has (importBytes (exportBytes (add (new 512#64 2#64) 0xdeadbeef#64)) 2#64) 1#64 = false ∧
    (importBytes (exportBytes (add (new 512#64 2#64) 0xdeadbeef#64)) 2#64).shift = 55#64 := by decide

end RV.C19
