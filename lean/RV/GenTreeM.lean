import RV.GenNode
import RV.Gen.Tree
/-!
Hand-written preamble of the generated module `RV/Gen/TreeM.lean` (go2lean extra generator
`go2lean/treem.go`): the tree-level methods of z/btree.go (`Tree.node`, `newNode`, `split`, `set`,
`Set`, `get`, `Get`, `compact`, `DeleteBelow`, `iterate`, `Iterate`, `IterateKV`, `initRootNode`,
`Reset`, `Stats`, `reinit`) translated WHOLE into the `Option` monad over a flat memory.

What is fixed here by hand (the trusted meaning of the constructs; everything else is generated):

* `St` — the fields of `z.Tree` the code uses: `data` is `t.data` read as 64-bit words (page `p`
  occupies the words `[p*pageSize/8, (p+1)*pageSize/8)`; `len(t.data) = 8 * data.size`, all buffer
  sizes the package produces are multiples of 8), `nextPage`, `freePage`, the two maintained
  statistics, and of `t.buffer` the two numbers `offset` / `curSz` that `Buffer.Grow` computes with.
  `epoch` counts the reallocations of the buffer.
* `NodeRef` — a value of Go type `node` (`[]uint64` aliasing `t.data`): `nil`, or a window
  (first word, length) of `t.data` *tagged with the epoch in which it was obtained*.  Using a window
  whose epoch is not the current one is a use of a slice into a buffer that has been reallocated /
  remapped (finding F11): the model answers `none`, like for a panic.  So `none` means "the Go
  code panics or leaves the model" and the refinement theorems show neither happens.
* `getNode t lo hi` — `getNode(t.data[lo:hi])` (`BytesToUint64Slice`, an `unsafe` cast): byte
  offsets, checked against `len(t.data)`.  (Go checks a slice expression against the *capacity*;
  reading between length and capacity is outside the model and answers `none`.)
* `rdNode / wrNode / wrNodeR` — a call of a generated `node` kernel (`Gen.Node.*`, a function on a
  page array) on a node value: the window is cut out, the kernel runs, what it wrote is put back.
* `sub`, `copyRef` — `n[lo:hi]` (cap = len, as in RV/GenNode.lean) and the builtin
  `copy(dst, src)` between two windows of `t.data` (memmove semantics).
* the buffer: `bufAllocateOffset` is `Buffer.AllocateOffset` reduced to what the tree observes
  (`Grow`'s size arithmetic through the kernels `Gen.Tree.grow*`, then `offset += n`; a growth
  bumps `epoch`), `bufBytes` is `t.data = t.buffer.Bytes()` (the data is cut / extended with zero
  words to `offset - 8` bytes: fresh memory is zero — `Calloc`, `ftruncate` — and `Reset` wipes the
  buffer before it shrinks the data), `memclrBuf` is `Memclr(t.buffer.buf)`, `bufReset` is
  `Buffer.Reset` (`offset = padding = 8`).
* `forDyn` — `for i := lo; i < bound(); i++ { body }` with a bound that is re-evaluated every
  round.  `i` is a Go `int` that only grows while `i < bound ≤ 2^63-1`, so `2^64` rounds of fuel
  are never used up (`Gen.TreeM.forDyn` answers `none` if they were).
* recursion (`Tree.set`, `get`, `compact`, `iterate`) is by an explicit `fuel : Nat`; `none` when
  it runs out.  `fuel ≥ height + 1` suffices (theorems in RV/Props/TieTree.lean).
-/
namespace Gen.TreeM

abbrev Words := Array (BitVec 64)

structure St where
  data : Words
  epoch : Nat
  nextPage : BitVec 64
  freePage : BitVec 64
  numLeafKeys : BitVec 64      -- t.stats.NumLeafKeys (Go int)
  numPagesFree : BitVec 64     -- t.stats.NumPagesFree (Go int)
  bufOffset : BitVec 64        -- t.buffer.offset
  bufCurSz : BitVec 64         -- t.buffer.curSz
deriving Repr, Inhabited

/-- a value of Go type `node` -/
inductive NodeRef where
  | nil
  | win (off len : Nat) (epoch : Nat)
deriving Repr, Inhabited, DecidableEq

/-- `TreeStats` without the derived float `Occupancy` -/
structure TreeStats where
  allocated : BitVec 64
  bytes : BitVec 64
  numLeafKeys : BitVec 64
  numPages : BitVec 64
  numPagesFree : BitVec 64
  pageSize : BitVec 64
deriving Repr, DecidableEq, Inhabited

/-- `len(t.data)` (bytes) -/
def dataLen (t : St) : BitVec 64 := BitVec.ofNat 64 (8 * t.data.size)

/-- `n == nil` -/
def isNil : NodeRef → Bool
  | .nil => true
  | .win _ _ _ => false

/-- `len(n)` -/
def refLen : NodeRef → BitVec 64
  | .nil => 0#64
  | .win _ len _ => BitVec.ofNat 64 len

/-- the words `[off, off+len)` -/
def page (d : Words) (off len : Nat) : Words := d.extract off (off + len)

/-- the page a node value denotes now (`none`: stale window, or window outside the data) -/
def view (t : St) : NodeRef → Option Words
  | .nil => some #[]
  | .win off len ep => if ep = t.epoch ∧ off + len ≤ t.data.size then some (page t.data off len) else none

/-- writes `src[n-1], …, src[0]` to `pos+n-1, …, pos` (the accumulator is updated in place) -/
def blitGo (src : Words) (pos : Nat) : Nat → Words → Words
  | 0, acc => acc
  | n + 1, acc => blitGo src pos n (acc.set! (pos + n) src[n]!)

/-- `a` with `src` written over the positions `pos, pos+1, …` -/
def blitAt (a : Words) (pos : Nat) (src : Words) : Words := blitGo src pos src.size a

/-- write a page back (the kernels never change the length of their slice) -/
def putBack (t : St) (n : NodeRef) (p : Words) : Option St :=
  match n with
  | .nil => if p.size = 0 then some t else none
  | .win off len _ =>
    if p.size = len then some { t with data := blitAt t.data off p } else none

/-- a read-only kernel on a node value -/
def rdNode {α : Type} (t : St) (n : NodeRef) (f : Words → Option α) : Option α :=
  (view t n).bind f

/-- a writing kernel on a node value -/
def wrNode (t : St) (n : NodeRef) (f : Words → Option Words) : Option St :=
  (view t n).bind fun p => (f p).bind fun p' => putBack t n p'

/-- a writing kernel with a result -/
def wrNodeR {α : Type} (t : St) (n : NodeRef) (f : Words → Option (Words × α)) : Option (St × α) :=
  (view t n).bind fun p => (f p).bind fun (p', r) => (putBack t n p').bind fun t' => some (t', r)

/-- `getNode(t.data[lo:hi])`, byte offsets -/
def getNode (t : St) (lo hi : BitVec 64) : Option NodeRef :=
  if 0 ≤ lo.toInt ∧ lo.toInt ≤ hi.toInt ∧ hi.toInt ≤ ((8 * t.data.size : Nat) : Int) then
    if lo = hi then some .nil
    else if lo.toNat % 8 = 0 ∧ hi.toNat % 8 = 0 then
      some (.win (lo.toNat / 8) ((hi.toNat - lo.toNat) / 8) t.epoch)
    else none
  else none

/-- `n[lo:hi]` -/
def sub (n : NodeRef) (lo hi : BitVec 64) : Option NodeRef :=
  if 0 ≤ lo.toInt ∧ lo.toInt ≤ hi.toInt ∧ hi.toInt ≤ (refLen n).toInt then
    match n with
    | .nil => some .nil
    | .win off _ ep => some (.win (off + lo.toNat) (hi.toNat - lo.toNat) ep)
  else none

/-- `copy(dst, src)`, both windows of `t.data` -/
def copyRef (t : St) (dst src : NodeRef) : Option St :=
  (view t dst).bind fun d => (view t src).bind fun s =>
    match dst with
    | .nil => some t
    | .win off _ _ =>
      let k := min d.size s.size
      some { t with data := blitAt t.data off (s.extract 0 k) }

/-- `Buffer.Grow(n)` as the tree observes it -/
def bufGrow (t : St) (n : BitVec 64) : St :=
  if Gen.Tree.growNotNeeded t.bufOffset n t.bufCurSz then t else
    let g := Gen.Tree.growBy t.bufCurSz n
    let g := if Gen.Tree.growCapped g then 1073741824#64 else g
    let g := if Gen.Tree.growAtLeast n g then n else g
    { t with bufCurSz := t.bufCurSz + g, epoch := t.epoch + 1 }

/-- `t.buffer.AllocateOffset(n)` -/
def bufAllocateOffset (t : St) (n : BitVec 64) : Option St :=
  let t1 := bufGrow t n
  some { t1 with bufOffset := t1.bufOffset + n }

/-- `t.data = t.buffer.Bytes()` -/
def bufBytes (t : St) : Option St :=
  if 8 ≤ t.bufOffset.toNat ∧ (t.bufOffset.toNat - 8) % 8 = 0 then
    let n := (t.bufOffset.toNat - 8) / 8
    some { t with data := if n ≤ t.data.size then t.data.extract 0 n
                          else t.data ++ Array.replicate (n - t.data.size) 0#64 }
  else none

/-- `Memclr(t.buffer.buf)` -/
def memclrBuf (t : St) : Option St :=
  some { t with data := Array.replicate t.data.size 0#64 }

/-- `t.buffer.Reset()` -/
def bufReset (t : St) : Option St := some { t with bufOffset := 8#64 }

/-- `t.stats = TreeStats{}` -/
def statsZero (t : St) : St := { t with numLeafKeys := 0#64, numPagesFree := 0#64 }

def forDynGo {ρ σ : Type} (bound : σ → Option (BitVec 64))
    (body : BitVec 64 → σ → Option (Gen.LoopOut ρ σ)) :
    Nat → BitVec 64 → σ → Option (Gen.LoopRes ρ σ)
  | 0, _, _ => none
  | fuel + 1, i, s =>
    (bound s).bind fun hi =>
      if BitVec.slt i hi then
        match body i s with
        | none => none
        | some (.ret r) => some (.ret r)
        | some (.brk s') => some (.done s' i)
        | some (.next s') => forDynGo bound body fuel (i + 1#64) s'
      else some (.done s i)

/-- `for i := lo; i < bound(); i++ { body }` -/
def forDyn {ρ σ : Type} (lo : BitVec 64) (bound : σ → Option (BitVec 64))
    (body : BitVec 64 → σ → Option (Gen.LoopOut ρ σ)) (s : σ) : Option (Gen.LoopRes ρ σ) :=
  forDynGo bound body (2 ^ 64) lo s

def whileGo {ρ σ : Type} (cond : σ → Option Bool) (body : σ → Option (Gen.LoopOut ρ σ)) :
    Nat → σ → Option (Gen.LoopRes ρ σ)
  | 0, _ => none
  | fuel + 1, s =>
    (cond s).bind fun c =>
      if c then
        match body s with
        | none => none
        | some (.ret r) => some (.ret r)
        | some (.brk s') => some (.done s' 0#64)
        | some (.next s') => whileGo cond body fuel s'
      else some (.done s 0#64)

/-- `for cond() { body }`; `fuel` rounds at most (`none` beyond) -/
def whileM {ρ σ : Type} (fuel : Nat) (cond : σ → Option Bool) (body : σ → Option (Gen.LoopOut ρ σ)) (s : σ) :
    Option (Gen.LoopRes ρ σ) :=
  whileGo cond body fuel s

end Gen.TreeM
