import RV.GenBase
import RV.Model.Simd
/-!
Hand-written preamble of the generated module `RV/Gen/Node.lean` (go2lean kind `KFuncM`,
`go2lean/funcm.go`): the meaning the translator gives to the Go constructs that the older
`KFunc` subset does not have.  Everything is in the `Option` monad; `none` = the Go code panics.

* `rd a i` / `wr a i v`: `a[i]` and `a[i] = v` with Go's bounds check.  The index is a Go `int`
  held in a `BitVec 64`; a negative index is ≥ 2^63 as a natural number, hence out of range for
  every slice a Go program can have.
* `guard c`: `assert(c)`.
* `forRange lo hi body s`: `for i := lo; i < hi; i++ { body }` over a Go `int` `i` (signed
  comparison), `hi` evaluated once (the translator only accepts loop-invariant bounds).  The body
  says how it ended: `next` (fell through / `continue`), `brk` (`break`), `ret` (`return` from
  the enclosing function).  The result carries the final value of the loop variable.
* windows: a slice expression `a[lo:hi]` of a node is never materialised as a second array —
  Go sub-slices alias their parent.  `winOk a lo hi` is Go's check `0 ≤ lo ≤ hi ≤ cap(a)`
  (node slices are created with cap = len, `BytesToUint64Slice`).  `copyWithin` is the builtin
  `copy(a[dlo:dhi], a[slo:shi])` (memmove semantics: the source is read before anything is
  written, the count is the shorter length), `window a lo hi f` runs a callee on the sub-slice
  and writes the result back in place.
* `simdSearch a lo hi k`: the call `simd.Search(a[lo:hi], k)`.  It is modelled by the generated
  model of `simd.Naive` (`RV.Simd.naive`, kernels `Gen.Simd.naive*`); property C20 proves that the
  amd64 wrapper + assembly routine and the portable `Search` agree with it.
-/
namespace Gen

variable {α : Type} [Inhabited α]

/-- `a[i]` -/
def rd (a : Array α) (i : BitVec 64) : Option α :=
  if i.toNat < a.size then some a[i.toNat]! else none

/-- `a[i] = v` -/
def wr (a : Array α) (i : BitVec 64) (v : α) : Option (Array α) :=
  if i.toNat < a.size then some (a.set! i.toNat v) else none

/-- `assert(c)` -/
def guard (c : Bool) : Option Unit := if c then some () else none

/-- how one round of a loop body ended -/
inductive LoopOut (ρ σ : Type) where
  | ret (r : ρ)
  | brk (s : σ)
  | next (s : σ)

/-- how a loop ended: the enclosing function returned, or the loop is over (state, loop variable) -/
inductive LoopRes (ρ σ : Type) where
  | ret (r : ρ)
  | done (s : σ) (i : BitVec 64)

def forGo {ρ σ : Type} (hi : BitVec 64) (body : BitVec 64 → σ → Option (LoopOut ρ σ)) :
    Nat → BitVec 64 → σ → Option (LoopRes ρ σ)
  | 0, i, s => if BitVec.slt i hi then none else some (.done s i)
  | fuel + 1, i, s =>
    if BitVec.slt i hi then
      match body i s with
      | none => none
      | some (.ret r) => some (.ret r)
      | some (.brk s') => some (.done s' i)
      | some (.next s') => forGo hi body fuel (i + 1#64) s'
    else some (.done s i)

/-- `for i := lo; i < hi; i++ { body }` -/
def forRange {ρ σ : Type} (lo hi : BitVec 64) (body : BitVec 64 → σ → Option (LoopOut ρ σ)) (s : σ) :
    Option (LoopRes ρ σ) :=
  forGo hi body (hi.toInt - lo.toInt).toNat lo s

/-- Go's check of the slice expression `a[lo:hi]` (cap = len) -/
def winOk (a : Array α) (lo hi : BitVec 64) : Bool :=
  decide (0 ≤ lo.toInt) && decide (lo.toInt ≤ hi.toInt) && decide (hi.toInt ≤ (a.size : Int))

/-- `a` with `src` written over the positions `pos, pos+1, …` -/
def blit (a : Array α) (pos : Nat) (src : Array α) : Array α :=
  Array.ofFn (n := a.size) fun i =>
    if pos ≤ i.val ∧ i.val < pos + src.size then src[i.val - pos]! else a[i.val]!

/-- `copy(a[dlo:dhi], a[slo:shi])` -/
def copyWithin (a : Array α) (dlo dhi slo shi : BitVec 64) : Option (Array α) :=
  if winOk a dlo dhi && winOk a slo shi then
    let k := min (dhi.toNat - dlo.toNat) (shi.toNat - slo.toNat)
    some (blit a dlo.toNat (a.extract slo.toNat (slo.toNat + k)))
  else none

/-- call `f` on the sub-slice `a[lo:hi]`; what it wrote is visible in `a` -/
def window (a : Array α) (lo hi : BitVec 64) (f : Array α → Option (Array α)) : Option (Array α) :=
  if winOk a lo hi then
    (f (a.extract lo.toNat hi.toNat)).bind fun sub =>
      if sub.size = hi.toNat - lo.toNat then some (blit a lo.toNat sub) else none
  else none

/-- `simd.Search(a[lo:hi], k)`, modelled by the generated model of `simd.Naive` (see above) -/
def simdSearch (a : Array (BitVec 64)) (lo hi : BitVec 64) (k : BitVec 64) : Option (BitVec 16) :=
  if winOk a lo hi then RV.Simd.naive (a.extract lo.toNat hi.toNat) k else none

end Gen
