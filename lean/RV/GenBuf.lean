/-!
Hand-written preamble of the generated module `RV/Gen/BufferM.lean` (go2lean/bufm.go): the
meaning the translator gives to the Go constructs of `z/buffer.go` that are not integer
arithmetic.  Everything is in the `Option` monad; `none` = the Go code panics (`panic`, a failed
`assert` = `log.Fatalf`, an index / slice-bounds failure, or a spent loop bound).

* Memory.  A `[]byte` memory object is an `Array Byte` whose size is its capacity (all of
  `Calloc`, `make([]byte, n)` and a file mapping have `len = cap`, and buffer.go has no 3-index
  slice expression, so the capacity of every slice derived from such an object ends where the
  object ends).  A Go slice value is never a second array: it is a *window* `Win` (absolute
  positions `lo ≤ hi` inside the object it was cut from); which object that is, is known to the
  translator statically (a struct field such as `b.buf`, or a parameter / local array) and a
  window is refused once that field has been re-assigned or may have been moved by a call.
  `slice size w lo hi` is the slice expression `x[lo:hi]` with Go's check
  `0 ≤ lo ≤ hi ≤ cap(x)`; `copy` is the builtin (memmove: source read first, count = shorter
  length); `getU64be`/`putU64be` are `binary.BigEndian.Uint64`/`PutUint64` (they panic on
  fewer than 8 bytes).
* `sort.Slice` is the parameter `sortFn` (`SortFn`, `sortSliceM`).
* Control.  `whileLoop cond body fuel s` is `for cond { body }` with an explicit bound on the
  number of rounds (`none` when it is spent: the generated callers pass a bound that the
  equivalence theorems show sufficient); `forEach a body s` is `for _, x := range a { body }`.
  The body says how a round ended (`LoopOut`).
* The world outside the package.  `Err` is Go's `error` as far as buffer.go looks at it
  (`nil`, `z.NewFile`, anything else).  `OS` collects the calls whose effect is assumed, not
  translated: `z.Calloc` (`make([]byte, n)`, panics on a negative length), `os.CreateTemp`,
  `z.OpenMmapFileUsing(file, sz, true)` (a mapping of `sz` bytes) and `MmapFile.Truncate(sz)`
  (`ftruncate` + `mremap`: applied to the *live* content of the mapping, which is the memory
  `b.buf` points to in mmap mode).  `OS.Ok` is the behaviour assumed by property C11
  (calls succeed, fresh memory is zero, a remap keeps the old contents).
-/
namespace Gen.Buf

abbrev Byte := BitVec 8

/-- Go's `error`, as far as z/buffer.go distinguishes values -/
inductive Err where
  | nil | newFile | other
deriving DecidableEq, Repr, Inhabited

/-- a slice value: absolute positions inside the memory object it points into -/
structure Win where
  lo : Nat
  hi : Nat
deriving DecidableEq, Repr, Inhabited

/-- the nil slice -/
def Win.nil : Win := ⟨0, 0⟩

/-- the slice that is the whole object of `n` bytes -/
def Win.full (n : Nat) : Win := ⟨0, n⟩

/-- `len(x)` -/
def Win.len (w : Win) : BitVec 64 := BitVec.ofNat 64 (w.hi - w.lo)

/-- `x[lo:hi]` for the slice `x = w` of an object of `size` bytes: Go checks
`0 ≤ lo ≤ hi ≤ cap(x)`, and `cap(x) = size - w.lo`. -/
def slice (size : Nat) (w : Win) (lo hi : BitVec 64) : Option Win :=
  if 0 ≤ lo.toInt ∧ lo.toInt ≤ hi.toInt ∧ w.lo + hi.toNat ≤ size then
    some ⟨w.lo + lo.toNat, w.lo + hi.toNat⟩
  else none

/-- the bytes a slice shows (what a callback that is handed the slice reads) -/
def bytesOf (a : Array Byte) (w : Win) : Array Byte := a.extract w.lo w.hi

/-- `a` with `src` written over the positions `pos, pos+1, …` (they exist) -/
def blit (a : Array Byte) (pos : Nat) (src : Array Byte) : Array Byte :=
  (List.range src.size).foldl (fun acc i => acc.set! (pos + i) src[i]!) a

/-- builtin `copy(dst[dw], src[sw])`: the new content of the destination object and the count -/
def copy (dst : Array Byte) (dw : Win) (src : Array Byte) (sw : Win) : Array Byte × BitVec 64 :=
  let k := min (dw.hi - dw.lo) (sw.hi - sw.lo)
  (blit dst dw.lo (src.extract sw.lo (sw.lo + k)), BitVec.ofNat 64 k)

/-- value of a byte string read most significant byte first -/
def beNat (bs : List Byte) : Nat := bs.foldl (fun acc b => acc * 256 + b.toNat) 0

/-- the 8 bytes of `v`, most significant first -/
def be64 (v : BitVec 64) : Array Byte :=
  let n := v.toNat
  #[BitVec.ofNat 8 (n / 2 ^ 56 % 256), BitVec.ofNat 8 (n / 2 ^ 48 % 256), BitVec.ofNat 8 (n / 2 ^ 40 % 256),
    BitVec.ofNat 8 (n / 2 ^ 32 % 256), BitVec.ofNat 8 (n / 2 ^ 24 % 256), BitVec.ofNat 8 (n / 2 ^ 16 % 256),
    BitVec.ofNat 8 (n / 2 ^ 8 % 256), BitVec.ofNat 8 (n % 256)]

/-- `binary.BigEndian.Uint64(x)` -/
def getU64be (a : Array Byte) (w : Win) : Option (BitVec 64) :=
  if w.lo + 8 ≤ w.hi ∧ w.hi ≤ a.size then
    some (BitVec.ofNat 64 (beNat (a.extract w.lo (w.lo + 8)).toList))
  else none

/-- `binary.LittleEndian.Uint64(x)` -/
def getU64le (a : Array Byte) (w : Win) : Option (BitVec 64) :=
  if w.lo + 8 ≤ w.hi ∧ w.hi ≤ a.size then
    some (BitVec.ofNat 64 (beNat (a.extract w.lo (w.lo + 8)).toList.reverse))
  else none

/-- `binary.BigEndian.PutUint64(x, v)` -/
def putU64be (a : Array Byte) (w : Win) (v : BitVec 64) : Option (Array Byte) :=
  if w.lo + 8 ≤ w.hi ∧ w.hi ≤ a.size then some (blit a w.lo (be64 v)) else none

/-- `binary.LittleEndian.PutUint64(x, v)` -/
def putU64le (a : Array Byte) (w : Win) (v : BitVec 64) : Option (Array Byte) :=
  if w.lo + 8 ≤ w.hi ∧ w.hi ≤ a.size then some (blit a w.lo (be64 v).reverse) else none

/-- `assert(c)` (z's `assert` is `log.Fatalf`), `check(err)` -/
def guard (c : Bool) : Option Unit := if c then some () else none

/-- `a[i]` on an `[]int` -/
def rdI (a : Array (BitVec 64)) (i : BitVec 64) : Option (BitVec 64) :=
  if 0 ≤ i.toInt ∧ i.toNat < a.size then some a[i.toNat]! else none

/-- `a[lo:]` on an `[]int` (a copy: the translator only accepts it where the result is read) -/
def dropI (a : Array (BitVec 64)) (lo : BitVec 64) : Option (Array (BitVec 64)) :=
  if 0 ≤ lo.toInt ∧ lo.toNat ≤ a.size then some (a.extract lo.toNat a.size) else none

/-- how one round of a loop body ended -/
inductive LoopOut (ρ σ : Type) where
  | ret (r : ρ)
  | brk (s : σ)
  | next (s : σ)

/-- how a loop ended: the enclosing function returned, or the loop is over -/
inductive LoopRes (ρ σ : Type) where
  | ret (r : ρ)
  | done (s : σ)

/-- `for cond { body }`, at most `fuel` rounds -/
def whileLoop {ρ σ : Type} (cond : σ → Bool) (body : σ → Option (LoopOut ρ σ)) :
    Nat → σ → Option (LoopRes ρ σ)
  | 0, _ => none
  | fuel + 1, s =>
    if cond s then
      match body s with
      | none => none
      | some (.ret r) => some (.ret r)
      | some (.brk s') => some (.done s')
      | some (.next s') => whileLoop cond body fuel s'
    else some (.done s)

/-- `for _, x := range xs { body }` -/
def forEachL {ρ σ : Type} (body : BitVec 64 → σ → Option (LoopOut ρ σ)) :
    List (BitVec 64) → σ → Option (LoopRes ρ σ)
  | [], s => some (.done s)
  | x :: xs, s =>
    match body x s with
    | none => none
    | some (.ret r) => some (.ret r)
    | some (.brk s') => some (.done s')
    | some (.next s') => forEachL body xs s'

def forEach {ρ σ : Type} (a : Array (BitVec 64)) (body : BitVec 64 → σ → Option (LoopOut ρ σ)) (s : σ) :
    Option (LoopRes ρ σ) :=
  forEachL body a.toList s

/-- `sort.Slice` as a parameter: given the comparison of two elements it permutes an `[]int`.
Its contract (a permutation, ordered when the comparison is a strict weak order) is a hypothesis
of the theorems that need it. -/
abbrev SortFn := (BitVec 64 → BitVec 64 → Bool) → Array (BitVec 64) → Array (BitVec 64)

/-- `sort.Slice(xs, func(i, j int) bool { … xs[i] … xs[j] … })`.  The closure, as a comparison
`lt` of two elements, may panic (`none`); a panic of the closure is a panic of the call.  It is
detected by evaluating the closure on every element against itself (for the closure of
`sortSmall` — decode both elements, compare — `lt x y` panics iff `lt x x` or `lt y y` does). -/
def sortSliceM (sortFn : SortFn) (xs : Array (BitVec 64)) (lt : BitVec 64 → BitVec 64 → Option Bool) :
    Option (Array (BitVec 64)) :=
  if xs.all (fun x => (lt x x).isSome) then some (sortFn (fun x y => (lt x y).getD false) xs) else none

/-- `z.MmapFile` (`Fd` is not modelled) -/
structure MmapFile where
  Data : Array Byte
deriving Inhabited

/-- the calls of z/buffer.go whose effect is assumed -/
structure OS where
  /-- `z.Calloc(n, tag)` -/
  calloc : BitVec 64 → Option (Array Byte)
  /-- `os.CreateTemp(dir, pattern)`: its error -/
  createTemp : Err
  /-- `z.OpenMmapFileUsing(file, sz, true)` -/
  openMmap : BitVec 64 → MmapFile × Err
  /-- `m.Truncate(sz)` on the live content of the mapping: the new `m.Data` and the error -/
  truncate : Array Byte → BitVec 64 → Array Byte × Err

/-- `n` zero bytes -/
def zeros (n : Nat) : Array Byte := Array.replicate n 0#8

/-- `old`, cut or zero-extended to `n` bytes -/
def resize (old : Array Byte) (n : Nat) : Array Byte :=
  if n ≤ old.size then old.extract 0 n else old ++ zeros (n - old.size)

/-- the behaviour C11 assumes of the platform -/
structure OS.Ok (os : OS) : Prop where
  calloc : ∀ n, os.calloc n = if 0 ≤ n.toInt then some (zeros n.toNat) else none
  createTemp : os.createTemp = .nil
  openMmap : ∀ n, (os.openMmap n).1 = ⟨zeros n.toNat⟩ ∧ ((os.openMmap n).2 = .nil ∨ (os.openMmap n).2 = .newFile)
  truncate : ∀ d n, os.truncate d n = (resize d n.toNat, .nil)

/-- an instance (used by the trace validator) -/
def OS.good : OS where
  calloc n := if 0 ≤ n.toInt then some (zeros n.toNat) else none
  createTemp := .nil
  openMmap n := (⟨zeros n.toNat⟩, .newFile)
  truncate d n := (resize d n.toNat, .nil)

theorem OS.good_ok : OS.good.Ok :=
  ⟨fun _ => rfl, rfl, fun _ => ⟨rfl, Or.inr rfl⟩, fun _ _ => rfl⟩

/-- `int(float64(x) * 1.1)` for the temporary buffer of the sorter: only a capacity hint
(`NewBuffer(szTmp, …)`), modelled in integers (`x + x/10`); the sorter's result does not
depend on it. -/
def scale11 (x : BitVec 64) : BitVec 64 := x + BitVec.sdiv x 10#64

end Gen.Buf
