import RV.Gen.Tree
/-!
# Model of the mmap B+ tree (`z/btree.go`), C10 / C16

Structural model (DESIGN 3.3): a labelled tree whose nodes carry their page id,
plus the allocator state (frontier, free list, the two maintained statistics and
the size of the backing buffer).  The operations thread the allocator state in
the same order as the Go code, so page ids agree with the implementation's.

Every comparison / arithmetic decision is a *generated kernel* (`Gen.Tree.*`,
regenerated from btree.go on every run); the recursion structure is hand-written
and tied to the code by trace validation (`Drive/Tree.lean`).

What is **not** modelled: flat memory words, the stale words beyond `numKeys`
(the code keeps them zeroed; reads of such a slot are modelled as reading 0),
`unsafe` slice headers.  `n.search(k)` is taken to be "index of the first key
`>= k` among the first `numKeys` keys, else `numKeys`" (the loop of `node.search`;
`simd.Search` is specified to agree with it, property C20).

Partiality: a panic of the real code (`assert`, explicit `panic`, nil page) and
every situation the structural model cannot represent faithfully (two entries of
an inner node pointing to the same page) sets `Alloc.fault`; the state is then
meaningless and the trace validator rejects.  Theorems state `fault = none`.
-/
namespace RV.Tree
open Gen.Tree

abbrev Key := BitVec 64
abbrev Val := BitVec 64

/-- Go `int` / `uint64` view of a natural number of the model. -/
abbrev w (n : Nat) : BitVec 64 := BitVec.ofNat 64 n

/-- The two package variables of btree.go. -/
structure Cfg where
  pageSize : Nat
  maxKeys : Nat
deriving Repr, DecidableEq

/-- `maxKeys = (pageSize / 16) - 1` (package variable initialiser; not inside a function,
hence hand-copied; the harness logs both numbers and the driver compares). -/
def Cfg.ofPageSize (ps : Nat) : Cfg := { pageSize := ps, maxKeys := ps / 16 - 1 }

/-- A page of the tree.  `null` is the nil page (page id 0): an inner entry whose value word is 0. -/
inductive Node where
  | null
  | leaf (pid : Nat) (ents : List (Key × Val))
  | inner (pid : Nat) (ents : List (Key × Node))
deriving Repr, Inhabited

/-- Allocator state and maintained statistics (`Tree.nextPage`, the free list starting at
`Tree.freePage`, `stats.NumLeafKeys`, `stats.NumPagesFree`, `len(t.data)`, `buffer.curSz`). -/
structure Alloc where
  nextPage : Nat
  free : List Nat          -- head first; the links live in word 0 of the free pages
  leafKeys : Int
  pagesFree : Int
  dataLen : Nat
  curSz : Nat
  fault : Option String := none
deriving Repr

def Alloc.fail (a : Alloc) (msg : String) : Alloc :=
  match a.fault with
  | none => { a with fault := some msg }
  | some _ => a

/-- `Tree.freePage` -/
def Alloc.freeHead (a : Alloc) : Nat :=
  match a.free with
  | [] => 0
  | p :: _ => p

structure Tree where
  root : Node
  a : Alloc
deriving Repr

def Tree.fail (t : Tree) (msg : String) : Tree := { t with a := t.a.fail msg }

/-! ## Node layout: the meta word -/

/-- The meta word of a node as the code builds it: `newNode` zeroes the page and calls
`setBit(bit)`; every later change goes through `setNumKeys(n)`. -/
def metaWord (leaf : Bool) (n : Nat) : BitVec 64 :=
  let w0 := (0#64 &&& setBitKeep) ||| (if leaf then bitLeaf else 0#64)
  (w0 &&& setNumKeysKeep) ||| setNumKeysNum (w n)

namespace Node

def pid : Node → Nat
  | null => 0
  | leaf p _ => p
  | inner p _ => p

def len : Node → Nat
  | null => 0
  | leaf _ es => es.length
  | inner _ es => es.length

def isLeafC : Node → Bool
  | leaf _ _ => true
  | _ => false

def metaW (n : Node) : BitVec 64 := metaWord n.isLeafC n.len

/-- `n.numKeys()` -/
def numKeys (n : Node) : Nat := (numKeysOfMeta n.metaW).toNat

/-- `n.isLeaf()` read back from the meta word -/
def isLeafK (n : Node) : Bool := isLeaf (bitsOfMeta n.metaW)

/-- `n.isFull()` -/
def isFull (cfg : Cfg) (n : Node) : Bool := Gen.Tree.isFull (w n.numKeys) (w cfg.maxKeys)

def withPid (p : Nat) : Node → Node
  | null => null
  | leaf _ es => leaf p es
  | inner _ es => inner p es

end Node

/-! ## Node level: entry lists (generic in the value: `Val` for leaves, `Node` for inner nodes) -/

section entries
variable {β : Type}

/-- `n.search(k)`: index of the first key `>= k`, else the number of keys. -/
def search (es : List (Key × β)) (k : Key) : Nat :=
  match es with
  | [] => 0
  | (ki, _) :: rest => if searchHit ki k then 0 else search rest k + 1

/-- `n.key(i)`; a slot beyond `numKeys` reads as 0 (the code keeps those slots zeroed). -/
def keyAt (es : List (Key × β)) (i : Nat) : Key :=
  match es[i]? with
  | some e => e.1
  | none => 0#64

/-- `n.maxKey()` -/
def maxKey (es : List (Key × β)) : Key :=
  if maxKeyDec (w es.length) then keyAt es (es.length - 1) else keyAt es es.length

/-- `node.set(k, v)` on the entries of a node with capacity `maxKeys`.
`none` = the code panics (or reaches a state this model does not represent);
otherwise the new entries and `numAdded`. -/
def nodeSet (maxKeys : Nat) (es : List (Key × β)) (k : Key) (v : β) : Option (List (Key × β) × Nat) :=
  let idx := search es k
  -- key(idx) for idx = maxKeys would read the page-id word: not modelled (unreachable, asserted below)
  if idx ≥ maxKeys then none else
  let ki := keyAt es idx
  if setFull (w es.length) (w maxKeys) && !(setFullAssert ki k) then none else
  let moved := setMove ki k
  if moved && !(moveRightAssert (w es.length) (w maxKeys)) then none else
  let isNew := setIsNew ki k
  if !(setWrite ki k) then none else
  if idx < es.length then
    match moved, isNew with
    | true, true => some (es.take idx ++ (k, v) :: es.drop idx, 1)     -- insert before the first larger key
    | false, false => some (es.set idx (k, v), 0)                       -- overwrite
    | _, _ => none
  else
    match moved, isNew with
    | false, true => some (es ++ [(k, v)], 1)                           -- append into the zeroed slot
    | _, _ => none

/-- `node.compact(lo)`: `valOf` reads the value word of an entry, `clear` stores 0 in it.
Returns the remaining entries and the function's return value. -/
def nodeCompact (valOf : β → Val) (clear : β → β) (es : List (Key × β)) (lo : Val) : List (Key × β) × Nat :=
  let mk := maxKey es
  let kept := es.filter (fun e => !(compactSkip (valOf e.2) lo e.1 mk))
  let left := kept.length
  let lastVal : Val := match kept[left - 1]? with | some e => valOf e.2 | none => 0#64
  let kept' :=
    if compactPlaceholder (w left) (keyAt kept (left - 1)) mk lastVal lo then
      match kept[left - 1]? with
      | some e => kept.set (left - 1) (e.1, clear e.2)
      | none => kept
    else kept
  let firstVal : Val := match kept'[0]? with | some e => valOf e.2 | none => 0#64
  let rem := if compactDroppable (w left) (keyAt kept' 0) mk firstVal lo then 0 else left
  (kept', rem)

/-- the two halves `Tree.split` produces from the entries of a full node -/
def splitLeft (maxKeys : Nat) (es : List (Key × β)) : List (Key × β) :=
  (es.take (splitFrom (w maxKeys)).toNat).take (splitLeftCount (w maxKeys)).toNat

def splitRight (maxKeys : Nat) (es : List (Key × β)) : List (Key × β) :=
  (es.drop (splitFrom (w maxKeys)).toNat).take (splitRightCount (w maxKeys)).toNat

end entries

/-- `node.get(k)` on a leaf -/
def leafGet (es : List (Key × Val)) (k : Key) : Val :=
  let idx := search es k
  if getMiss (w idx) (w es.length) then 0#64 else
  match es[idx]? with
  | some e => if getHit e.1 k then e.2 else 0#64
  | none => 0#64

/-- value word of an inner entry -/
def childWord (c : Node) : Val := w c.pid

/-! ## The page allocator -/

/-- Stand-in for `t.data` in the kernels that read `len(t.data)`: only its length matters. -/
def dataArr (n : Nat) : Array (BitVec 8) := Array.replicate n 0#8

/-- `reqSize > len(t.data)` -/
def growNeeded (req : BitVec 64) (dataLen : Nat) : Bool := newNodeGrow req (dataArr dataLen)
/-- `reqSize - len(t.data)` -/
def growAmount (req : BitVec 64) (dataLen : Nat) : BitVec 64 := newNodeGrowBy req (dataArr dataLen)
/-- `(int(t.nextPage)+1)*pageSize <= len(t.data)` -/
def pageFits (nextPage pageSize : BitVec 64) (dataLen : Nat) : Bool :=
  reinitFits nextPage pageSize (dataArr dataLen)

/-! Compiled code must not build a `dataLen`-element array just to take its size: the three
wrappers are replaced (`csimp`, a kernel-checked equation) by direct comparisons. -/
def growNeededFast (req : BitVec 64) (dataLen : Nat) : Bool := BitVec.slt (w dataLen) req
def growAmountFast (req : BitVec 64) (dataLen : Nat) : BitVec 64 := req - w dataLen
def pageFitsFast (nextPage pageSize : BitVec 64) (dataLen : Nat) : Bool :=
  BitVec.sle ((nextPage + 1#64) * pageSize) (w dataLen)

@[csimp] theorem growNeeded_eq_fast : @growNeeded = @growNeededFast := by
  funext req n; simp [growNeeded, growNeededFast, newNodeGrow, dataArr]
@[csimp] theorem growAmount_eq_fast : @growAmount = @growAmountFast := by
  funext req n; simp [growAmount, growAmountFast, newNodeGrowBy, dataArr]
@[csimp] theorem pageFits_eq_fast : @pageFits = @pageFitsFast := by
  funext a b n; simp [pageFits, pageFitsFast, reinitFits, dataArr]

/-- `Buffer.AllocateOffset(n)` as used by the tree: `Grow(n)` then `offset += n`.
The buffer's offset is `len(t.data) + 8` (8 bytes of padding). -/
def bufAllocate (a : Alloc) (n : Nat) : Alloc :=
  let off := a.dataLen + 8
  let cur :=
    if growNotNeeded (w off) (w n) (w a.curSz) then a.curSz else
      let g := growBy (w a.curSz) (w n)
      let g := if growCapped g then w (1 <<< 30) else g
      let g := if growAtLeast (w n) g then w n else g
      a.curSz + g.toNat
  { a with curSz := cur, dataLen := a.dataLen + n }

/-- `Tree.newNode`: the page id handed out and the new allocator state. -/
def newNode (cfg : Cfg) (a : Alloc) : Nat × Alloc :=
  let fp := a.freeHead
  if newNodeUseFree (w fp) then
    let a1 := { a with pagesFree := a.pagesFree - 1 }
    -- `t.freePage = n.uint64(0)`: follow the link stored in the free page
    (fp, if newNodePopFree (w fp) then { a1 with free := a1.free.tail } else a1)
  else
    let p := a.nextPage
    let a1 := { a with nextPage := a.nextPage + 1 }
    let req := newNodeReqSize (newNodeOffset (w p) (w cfg.pageSize)) (w cfg.pageSize)
    let a2 :=
      if growNeeded req a1.dataLen then bufAllocate a1 (growAmount req a1.dataLen).toNat else a1
    (p, a2)

/-- `Tree.split(pid)`: the node keeps its page and the left half, the right half moves to a new page. -/
def splitNode (cfg : Cfg) (c : Node) (a : Alloc) : Node × Node × Alloc :=
  let (p, a1) := newNode cfg a
  match c with
  | .leaf q es => (.leaf q (splitLeft cfg.maxKeys es), .leaf p (splitRight cfg.maxKeys es), a1)
  | .inner q es => (.inner q (splitLeft cfg.maxKeys es), .inner p (splitRight cfg.maxKeys es), a1)
  | .null => (.null, .null, a1.fail "split of the nil page")

def Node.maxKey : Node → Key
  | .null => 0#64
  | .leaf _ es => RV.Tree.maxKey es
  | .inner _ es => RV.Tree.maxKey es

/-! ## Set -/

/-- What `Tree.set` tells its caller's frame when the child became full and was split. -/
structure Split where
  ki : Key          -- routing key of the entry the child hangs on
  left : Node       -- the child after the split (keeps its page)
  right : Node      -- the new right sibling
deriving Inhabited

/-- `n.set(k, v)` on a leaf page, with the statistics update of `Tree.set`. -/
def leafSet (cfg : Cfg) (p : Nat) (es : List (Key × Val)) (k : Key) (v : Val) (a : Alloc) : Node × Alloc :=
  match nodeSet cfg.maxKeys es k v with
  | none => (.leaf p es, a.fail "node.set panics")
  | some (es', added) => (.leaf p es', { a with leafKeys := a.leafKeys + added })

/-- after the recursive call: `if child.isFull() { nn := t.split(child.pageID()) … }` -/
def afterChild (cfg : Cfg) (ki : Key) (c : Node) (a : Alloc) : Node × Alloc × Option Split :=
  if c.isFull cfg then
    let (l, r, a1) := splitNode cfg c a
    (l, a1, some { ki := ki, left := l, right := r })
  else (c, a, none)

mutual
/-- `Tree.set(pid, k, v)` -/
def setNode (cfg : Cfg) : Node → Key → Val → Alloc → Node × Alloc
  | .null, _, _, a => (.null, a.fail "Tree.set on the nil page")
  | .leaf p es, k, v, a => leafSet cfg p es k v a
  | .inner p es, k, v, a =>
    if setIdxPanic (w (search es k)) (w cfg.maxKeys) then
      (.inner p es, a.fail "search returned index >= maxKeys")
    else
      match setEnts cfg es k v a with
      | (es1, a1, none) => (.inner p es1, a1)
      | (es1, a1, some s) =>
        -- n.set(child.maxKey(), child.pageID()); n.set(nn.maxKey(), nn.pageID())
        match nodeSet cfg.maxKeys es1 s.left.maxKey s.left with
        | none => (.inner p es1, a1.fail "node.set (left child pointer) panics")
        | some (es2, _) =>
          match nodeSet cfg.maxKeys es2 s.right.maxKey s.right with
          | none => (.inner p es2, a1.fail "node.set (right child pointer) panics")
          | some (es3, added) =>
            -- the structural model needs every page to hang on exactly one entry afterwards
            if s.right.maxKey == s.ki && s.left.maxKey != s.ki && added == 0 then (.inner p es3, a1)
            else (.inner p es3, a1.fail "split left two entries pointing to one page (not representable)")
/-- the part of `Tree.set` that works on entry `idx = search(k)` of an inner node -/
def setEnts (cfg : Cfg) : List (Key × Node) → Key → Val → Alloc → List (Key × Node) × Alloc × Option Split
  | [], k, v, a =>
    -- idx == numKeys: `n.key(idx) == 0` (zeroed slot): the key is stored, the child is created
    if setSlotEmpty 0#64 then
      let (p, a1) := newNode cfg a
      let (c, a2) := leafSet cfg p [] k v a1
      let (c', a3, sp) := afterChild cfg k c a2
      ([(k, c')], a3, sp)
    else ([], a.fail "unmodelled: zeroed slot not recognised as empty", none)
  | (ki, c) :: rest, k, v, a =>
    if searchHit ki k then
      if setSlotEmpty ki then ((ki, c) :: rest, a.fail "unmodelled: stored key 0", none) else
      match c with
      | .null =>
        -- child == nil: `child = t.newNode(bitLeaf)`
        let (p, a1) := newNode cfg a
        let (c1, a2) := leafSet cfg p [] k v a1
        let (c', a3, sp) := afterChild cfg ki c1 a2
        ((ki, c') :: rest, a3, sp)
      | c =>
        let (c1, a1) := setNode cfg c k v a
        let (c', a2, sp) := afterChild cfg ki c1 a1
        ((ki, c') :: rest, a2, sp)
    else
      match setEnts cfg rest k v a with
      | (rest', a1, sp) => ((ki, c) :: rest', a1, sp)
end

/-- `Tree.Set(k, v)` -/
def set (cfg : Cfg) (t : Tree) (k : Key) (v : Val) : Tree :=
  if setKeyPanic k then t.fail "Error setting zero or MaxUint64" else
  match setNode cfg t.root k v t.a with
  | (root, a) =>
    if root.isFull cfg then
      match root with
      | .inner rp _ =>
        -- right := t.split(1); left := t.newNode(root.bits()); copy; root emptied; two root.set
        let (l0, right, a1) := splitNode cfg root a
        let (lp, a2) := newNode cfg a1
        let left := l0.withPid lp
        match nodeSet cfg.maxKeys ([] : List (Key × Node)) left.maxKey left with
        | none => { root := root, a := a2.fail "root.set (left) panics" }
        | some (es1, _) =>
          match nodeSet cfg.maxKeys es1 right.maxKey right with
          | none => { root := root, a := a2.fail "root.set (right) panics" }
          | some (es2, added) =>
            if added == 1 then { root := .inner rp es2, a := a2 }
            else { root := .inner rp es2, a := a2.fail "root split lost a child (equal max keys)" }
      | _ => { root := root, a := a.fail "unmodelled: full root that is not an inner node" }
    else { root := root, a := a }

/-! ## Get -/

mutual
/-- `Tree.get(n, k)`; `none` = the code panics -/
def getNode : Node → Key → Option Val
  | .null, _ => none
  | .leaf _ es, k => some (leafGet es k)
  | .inner _ es, k =>
    if getNoChild (w (search es k)) (w es.length) (keyAt es (search es k)) then some 0#64
    else getEnts es k
def getEnts : List (Key × Node) → Key → Option Val
  | [], _ => none
  | (ki, c) :: rest, k =>
    if searchHit ki k then
      match c with
      | .null => none          -- assert(child != nil)
      | c => getNode c k
    else getEnts rest k
end

/-- `Tree.Get(k)`; `none` = panic -/
def get (t : Tree) (k : Key) : Option Val :=
  if getKeyPanic k then none else getNode t.root k

/-! ## DeleteBelow -/

mutual
/-- `Tree.compact(n, ts)`: the node, the allocator state and the return value -/
def compactNode (ts : Val) : Node → Alloc → Node × Alloc × Nat
  | .null, a => (.null, a.fail "Tree.compact on the nil page", 0)
  | .leaf p es, a =>
    match nodeCompact id (fun _ => 0#64) es ts with
    | (es', rem) =>
      (.leaf p es', { a with leafKeys := a.leafKeys + (Node.leaf p es').numKeys }, rem)
  | .inner p es, a =>
    match compactEnts ts es 0 (Node.inner p es).numKeys a with
    | (es1, a1) =>
      -- `return n.compact(1)`: drops the entries whose page was released
      match nodeCompact childWord (fun _ => Node.null) es1 1#64 with
      | (es2, rem) => (.inner p es2, a1, rem)
/-- the loop `for i := 0; i < N; i++` of `Tree.compact` from entry `i` on -/
def compactEnts (ts : Val) : List (Key × Node) → Nat → Nat → Alloc → List (Key × Node) × Alloc
  | [], _, _, a => ([], a)
  | (ki, c) :: rest, i, N, a =>
    if !(compactKeyAssert ki) then ((ki, c) :: rest, a.fail "assert(n.key(i) > 0)") else
    match compactNode ts c a with
    | (c', a1, rem) =>
      if compactDropChild (w rem) (w i) (w N) then
        -- the child page goes to the head of the free list; the entry's value word becomes 0
        let a2 := { a1 with leafKeys := a1.leafKeys - c'.numKeys,
                            free := c'.pid :: a1.free,
                            pagesFree := a1.pagesFree + 1 }
        match compactEnts ts rest (i + 1) N a2 with
        | (rest', a3) => ((ki, Node.null) :: rest', a3)
      else
        match compactEnts ts rest (i + 1) N a1 with
        | (rest', a3) => ((ki, c') :: rest', a3)
end

/-- `Tree.DeleteBelow(ts)` -/
def deleteBelow (t : Tree) (ts : Val) : Tree :=
  match compactNode ts t.root { t.a with leafKeys := 0 } with
  | (root, a, _) =>
    if deleteBelowAssert (w root.numKeys) then { root := root, a := a }
    else { root := root, a := a.fail "assert(root.numKeys() >= 1)" }

/-! ## IterateKV -/

/-- the callback applied to one leaf, in order -/
def leafIter (f : Key → Val → Val) (es : List (Key × Val)) : List (Key × Val) :=
  es.map fun e =>
    if iterSkip e.2 then e else
    let nv := f e.1 e.2
    if iterWrite nv then (e.1, nv) else e

mutual
/-- `Tree.IterateKV(f)`: the tree afterwards; `false` = the walk hit an `assert` -/
def iterNode (f : Key → Val → Val) : Node → Node × Bool
  | .null => (.null, false)
  | .leaf p es => (.leaf p (leafIter f es), true)
  | .inner p es => match iterEnts f es with | (es', ok) => (.inner p es', ok)
def iterEnts (f : Key → Val → Val) : List (Key × Node) → List (Key × Node) × Bool
  | [] => ([], true)
  | (ki, c) :: rest =>
    if iterStop ki then ((ki, c) :: rest, true) else
    match iterNode f c, iterEnts f rest with
    | (c', ok1), (rest', ok2) => ((ki, c') :: rest', ok1 && ok2)
end

mutual
/-- the (key, value) pairs `IterateKV` hands to the callback, in order -/
def visitsNode : Node → List (Key × Val)
  | .null => []
  | .leaf _ es => es.filter fun e => !(iterSkip e.2)
  | .inner _ es => visitsEnts es
def visitsEnts : List (Key × Node) → List (Key × Val)
  | [] => []
  | (ki, c) :: rest => if iterStop ki then [] else visitsNode c ++ visitsEnts rest
end

def iterateKV (t : Tree) (f : Key → Val → Val) : Tree :=
  match iterNode f t.root with
  | (root, ok) => { root := root, a := if ok then t.a else t.a.fail "assert(childID > 0)" }

def visits (t : Tree) : List (Key × Val) := visitsNode t.root

/-! ## NewTree / Reset / Stats -/

/-- `initRootNode` on an empty page table: `t.newNode(0)` then `t.Set(absoluteMax, 0)` -/
def initRoot (cfg : Cfg) (a : Alloc) : Tree :=
  match newNode cfg a with
  | (p, a1) => set cfg { root := .inner p [], a := a1 } absoluteMax 0#64

/-- `Tree.Reset()`; `curSz` is the capacity the buffer has reached (it never shrinks). -/
def reset (cfg : Cfg) (curSz : Nat) : Tree :=
  initRoot cfg (bufAllocate { nextPage := 1, free := [], leafKeys := 0, pagesFree := 0,
                              dataLen := 0, curSz := curSz } minSize.toNat)

/-- `NewTree` -/
def newTree (cfg : Cfg) : Tree := reset cfg minSize.toNat

/-- `NewTreePersistent` on a file that does not exist yet (created with `minSize` bytes):
the data starts behind 8 bytes of padding and extends to the end of the mapping. -/
def newTreeFile (cfg : Cfg) : Tree :=
  initRoot cfg { nextPage := 1, free := [], leafKeys := 0, pagesFree := 0,
                 dataLen := minSize.toNat - 8, curSz := minSize.toNat }

structure Stats where
  numLeafKeys : Int
  numPages : Int
  numPagesFree : Int
  allocated : Nat
  bytes : Int
deriving Repr, DecidableEq

/-- `Tree.Stats()` (without the derived float) -/
def stats (cfg : Cfg) (t : Tree) : Stats :=
  let np := statsNumPages (w t.a.nextPage)
  { numLeafKeys := t.a.leafKeys, numPages := np.toInt, numPagesFree := t.a.pagesFree,
    allocated := t.a.dataLen, bytes := (statsBytes np (w cfg.pageSize)).toInt }

/-! ## Canonical walk (what `VerifWalk` dumps) -/

structure WalkNode where
  pid : Nat
  leaf : Bool         -- via the meta word kernels
  numKeys : Nat       -- via the meta word kernels
  kv : List (Key × Val)
deriving Repr, DecidableEq

mutual
def walkNode : Node → List WalkNode
  | .null => []
  | .leaf p es => [{ pid := p, leaf := (Node.leaf p es).isLeafK, numKeys := (Node.leaf p es).numKeys, kv := es }]
  | .inner p es =>
    { pid := p, leaf := (Node.inner p es).isLeafK, numKeys := (Node.inner p es).numKeys, kv := entWords es }
      :: walkEnts es
def walkEnts : List (Key × Node) → List WalkNode
  | [] => []
  | (_, c) :: rest => walkNode c ++ walkEnts rest
def entWords : List (Key × Node) → List (Key × Val)
  | [] => []
  | (k, c) :: rest => (k, childWord c) :: entWords rest
end

def walk (t : Tree) : List WalkNode := walkNode t.root

end RV.Tree
