import RV.Gen.TreeM
import RV.Model.NodeFlat
import RV.Model.Tree
/-!
# The whole tree on flat memory (z/btree.go), C10 / C16

`RV/Gen/TreeM.lean` holds the tree-level methods of z/btree.go translated whole over the flat
state `Gen.TreeM.St` (one word array for `t.data`).  This file says how that memory is *read* as
the structural model of `RV/Model/Tree.lean`:

* `pw cfg` words per page, `pageOf cfg d pid` the page with id `pid`;
* `walkFlat` / `freeFlat`: the canonical walk (what `VerifWalk` dumps) decoded from the words with
  the page abstraction of `RV/Model/NodeFlat.lean` (`ents`, `nkeys`, `leafBit`, `pidW`);
* `Repr cfg d n`: the structural node `n` (with its page ids) is laid out in the words `d`;
* `StOk`: geometry of a state (`pageSize = 16 * (maxKeys + 1)`, no stale epoch, data covers the
  allocated pages).

The refinement theorems are in `RV/Props/TieTree.lean`; the trace validator `Drive/TreeM.lean`
replays the tree streams on the generated functions and compares `walkFlat` with the
implementation's walk and with the walk of the structural model after the same history.
-/
namespace RV.TreeFlat
open RV.Tree RV.NodeFlat Gen.TreeM

/-- words per page: `pageSize / 8 = 2 * (maxKeys + 1)` -/
def pw (cfg : Cfg) : Nat := 2 * (cfg.maxKeys + 1)

/-- the page with id `pid` -/
def pageOf (cfg : Cfg) (d : Words) (pid : Nat) : Page := page d (pid * pw cfg) (pw cfg)

/-- one page as the canonical walk shows it -/
def walkPage (cfg : Cfg) (p : Page) (pid : Nat) : WalkNode :=
  { pid := pid, leaf := leafBit cfg.maxKeys p, numKeys := nkeys cfg.maxKeys p, kv := ents cfg.maxKeys p }

/-- pre-order walk from page `pid`; `fuel` bounds the depth; a zero value word is no child -/
def walkFlat (cfg : Cfg) (d : Words) : Nat → Nat → List WalkNode
  | 0, _ => []
  | fuel + 1, pid =>
    let p := pageOf cfg d pid
    walkPage cfg p pid ::
      (if leafBit cfg.maxKeys p then []
       else (ents cfg.maxKeys p).flatMap fun e =>
         if e.2 == 0#64 then [] else walkFlat cfg d fuel e.2.toNat)

/-- the stored page ids along the walk (the harness compares them with the pointers followed) -/
def walkStored (cfg : Cfg) (d : Words) (ws : List WalkNode) : List Nat :=
  ws.map fun wn => (pidW cfg.maxKeys (pageOf cfg d wn.pid)).toNat

/-- the free list: follow word 0 from `head` -/
def freeFlat (cfg : Cfg) (d : Words) : Nat → Nat → List Nat
  | 0, _ => []
  | fuel + 1, p => if p = 0 then [] else p :: freeFlat cfg d fuel (pageOf cfg d p)[0]!.toNat

/-- the live (key, value) pairs in walk order: what `IterateKV` hands to its callback -/
def visitsFlat (ws : List WalkNode) : List (Key × Val) :=
  ws.flatMap fun wn => if wn.leaf then wn.kv.filter (fun e => e.2 != 0#64) else []

/-! ## representation -/

/-- the kind bits (top byte of the meta word) the code ever stores: `bitLeaf >> 56` or 0 -/
def kindOf (leaf : Bool) : Nat := if leaf then 128 else 0

/-- the page with id `p` holds a well-formed node of the given kind with the given entries -/
structure PageOf (cfg : Cfg) (d : Words) (p : Nat) (leaf : Bool) (kv : List (Key × Val)) : Prop where
  pos : 0 < p
  fit : (p + 1) * pw cfg ≤ d.size
  ok : PageOk cfg.maxKeys (pageOf cfg d p)
  isLeaf : leafBit cfg.maxKeys (pageOf cfg d p) = leaf
  kind : kindBits cfg.maxKeys (pageOf cfg d p) = kindOf leaf
  pid : pidW cfg.maxKeys (pageOf cfg d p) = w p
  ents : ents cfg.maxKeys (pageOf cfg d p) = kv

mutual
/-- The structural node is laid out in `d`: a leaf page reads as its entries, an inner page holds
the children's page ids as value words, children are represented recursively.  (`null` children
are the zero value words.) -/
def Repr (cfg : Cfg) (d : Words) : Node → Prop
  | .null => True
  | .leaf p es => PageOf cfg d p true es
  | .inner p es => PageOf cfg d p false (entWords es) ∧ ReprEnts cfg d es
def ReprEnts (cfg : Cfg) (d : Words) : List (Key × Node) → Prop
  | [] => True
  | (_, c) :: rest => Repr cfg d c ∧ ReprEnts cfg d rest
end

mutual
/-- height of a structural node (a leaf has height 1) -/
def height : Node → Nat
  | .null => 0
  | .leaf _ _ => 1
  | .inner _ es => heightEnts es + 1
def heightEnts : List (Key × Node) → Nat
  | [] => 0
  | (_, c) :: rest => max (height c) (heightEnts rest)
end

/-- geometry of a flat state -/
structure StOk (cfg : Cfg) (t : St) : Prop where
  mk1 : 1 ≤ cfg.maxKeys
  mkLt : cfg.maxKeys < 2 ^ 15
  ps : cfg.pageSize = 16 * (cfg.maxKeys + 1)
  small : t.data.size < 2 ^ 40

end RV.TreeFlat
