import RV.Gen.Alloc
/-!
# z.Allocator (z/allocator.go): small-step interleaving model

Every goroutine that is inside `Allocate` is a program counter plus locals; one
model step is one *atomic section* of the real code, i.e. exactly what happens
between two yield points of the `verif` hooks:

* `add`   – `pos := atomic.AddUint64(&a.compIdx, sz)`                       (→ hook 1)
* `check` – `parse(pos)`, `buf := a.buffers[bufIdx]`, `posIdx > len(buf)`;
            either the slice `buf[posIdx-sz : posIdx]` is cut and the call returns,
            or the goroutine goes for the mutex                            (→ return / hook 2)
* `grow`  – the whole critical section `Lock … Unlock`: re-read `compIdx`,
            `newBufIdx != bufIdx` ⇒ retry; else `addBufferAt(bufIdx+1, sz)` and
            `atomic.Store(compIdx, (bufIdx+1)<<32)`                         (→ hook 3)
* `start` – a goroutine enters `Allocate` / `AllocateAligned` / `Copy` (a request above
            `maxAlloc` panics and one of size 0 returns nil before anything is touched:
            both leave the state as it is)
* `reset`, `trim` – `Reset()` / `TrimTo(max)`; enabled only while every goroutine
            is outside the allocator (neither is safe otherwise).

All comparisons, the word packing and the size arithmetic are *generated* kernels
(`Gen.Alloc.*`, regenerated from allocator.go on every run).  Hand-written: the
control skeleton, the loop of `addBufferAt` (`bufIdx++`, `pageSize *= 2`), `log2`'s
loop and table, the popcount test of `NewAllocator`.

The critical section is one step.  Atomic adds of other goroutines that fall
between its `LoadUint64` and its `StoreUint64` are overwritten by the store; such
a goroutine sees a position beyond the chunk, fails its bounds check and retries,
exactly as if its add had happened before the load – as long as the add does not
carry into the chunk index (hypothesis `NoCarry`, finding F7).

Chunks are modelled by their lengths (`0` = nil slot).  Memory contents live in
the separate layer `MState` at the end of the file.
-/
namespace RV.Alloc
open Gen.Alloc

abbrev W := BitVec 64

/-- A byte slice of length `n`; the kernels only ever look at its length. -/
def bufOfLen (n : Nat) : Array (BitVec 8) := Array.replicate n 0#8

/-- `(chunk index, offset, length)` of a slice handed out by the allocator. -/
structure Region where
  chunk : Nat
  off : Nat
  len : Nat
deriving DecidableEq, Repr

/-- The public calls. -/
inductive Op where
  | alloc (sz : W)
  | aligned (sz : W)
  | copy (data : List (BitVec 8))
deriving DecidableEq, Repr

/-- Size handed to the inner `Allocate`. -/
def Op.inner : Op → W
  | .alloc sz => sz
  | .aligned sz => alignedTotal sz
  | .copy d => BitVec.ofNat 64 d.length

inductive Panic where
  | outOfSlots   -- "Allocator can not allocate more than 64 buffers" (documented)
  | bounds       -- index / slice bounds out of range: a defect
deriving DecidableEq, Repr

inductive Pc where
  | idle
  | toAdd (sz : W)                  -- about to do the atomic add (first try or retry)
  | added (sz : W) (pos : W)        -- between the atomic add and the bounds check
  | needGrow (sz : W) (bufIdx : W)  -- bounds check failed, before `a.Lock()`
  | panicked (k : Panic)
  | hung                            -- spinning forever in `for pageSize < minSz`
deriving DecidableEq, Repr

structure Thread where
  pc : Pc := .idle
  op : Op := .alloc 0#64    -- the call in progress (meaningful while `pc ≠ idle`)
deriving DecidableEq, Repr

/-- Ghost record of a returned slice: who asked for what and got which region
(of the *inner* `Allocate`). -/
structure Grant where
  tid : Nat
  op : Op
  reg : Region
deriving DecidableEq, Repr

structure State where
  compIdx : W
  chunks : List Nat            -- `len(a.buffers[i])`, 64 slots
  threads : List Thread
  grants : List Grant          -- ghost: slices handed out since the last `Reset`, newest first
  lockHeld : Bool := false     -- only ever true after a goroutine died/hung inside the critical section
deriving DecidableEq, Repr

inductive Action where
  | start (t : Nat) (op : Op)
  | add (t : Nat)
  | check (t : Nat)
  | grow (t : Nat)
  | reset
  | trim (max : W)
deriving DecidableEq, Repr

/-- chunk-index half of `compIdx` -/
def bi (s : State) : W := (parse s.compIdx).1
/-- offset half of `compIdx` -/
def pi (s : State) : W := (parse s.compIdx).2

def chunkLen (cs : List Nat) (i : Nat) : Nat := cs.getD i 0

/-! ## addBufferAt -/

inductive Slot where
  | allocAt (idx : W)   -- first empty slot: a new chunk goes here
  | fits                -- an existing chunk is large enough: nothing to do
  | outOfSlots          -- panic
deriving DecidableEq, Repr

/-- The search loop of `addBufferAt` (`bufIdx++` until an empty or large enough slot). -/
def findSlot (cs : List Nat) (minSz : W) : Nat → W → Slot
  | 0, _ => .outOfSlots
  | f + 1, idx =>
    if growOutOfSlots idx (BitVec.ofNat 64 cs.length) then .outOfSlots
    else if growSlotEmpty (bufOfLen (chunkLen cs idx.toNat)) then .allocAt idx
    else if growFits minSz (bufOfLen (chunkLen cs idx.toNat)) then .fits
    else findSlot cs minSz f (idx + 1#64)

/-- `for pageSize < minSz { pageSize *= 2 }`; `none` = the loop never ends.  (64
rounds are exact: after 64 doublings every word is 0 and stays 0.) -/
def doubleUntil (minSz : W) : Nat → W → Option W
  | 0, p => if growTooSmall p minSz then none else some p
  | f + 1, p => if growTooSmall p minSz then doubleUntil minSz f (p * 2#64) else some p

/-- Size of the chunk `addBufferAt` allocates after a chunk of length `prev`. -/
def pageSizeFor (prev : Nat) (minSz : W) : Option W :=
  match doubleUntil minSz 64 (growFirstSize (bufOfLen prev)) with
  | none => none
  | some p => some (if growOverMax p then maxAlloc else p)

inductive GrowRes where
  | ok (cs : List Nat)
  | outOfSlots
  | hang
deriving DecidableEq, Repr

def addBufferAt (cs : List Nat) (bufIdx minSz : W) : GrowRes :=
  match findSlot cs minSz (cs.length + 1) bufIdx with
  | .outOfSlots => .outOfSlots
  | .fits => .ok cs
  | .allocAt idx =>
    match pageSizeFor (chunkLen cs (idx.toNat - 1)) minSz with
    | none => .hang
    | some p => .ok (cs.set idx.toNat p.toNat)

/-! ## TrimTo -/

/-- `for i, b := range a.buffers { if len(b) == 0 {break}; alloc += len(b);
if alloc < max {continue}; Free(b); a.buffers[i] = nil }` -/
def trimFrom (max : W) : List Nat → W → List Nat
  | [], _ => []
  | c :: cs, alloc =>
    if trimStop (bufOfLen c) then c :: cs
    else
      let alloc' := alloc + BitVec.ofNat 64 c
      if trimKeep alloc' max then c :: trimFrom max cs alloc'
      else 0 :: trimFrom max cs alloc'

def trimTo (max : W) (cs : List Nat) : List Nat := trimFrom max cs 0#64

/-! ## NewAllocator -/

/-- `calculatedLog2` as filled by `init()`: `int(math.Log2(float64(i)))`, entry 0 untouched. -/
def log2Table : Array W := Array.ofFn (n := 1025) fun i => BitVec.ofNat 64 (Nat.log2 i.val)

/-- `for sz > 1 { sz >>= 1; pow++ }` -/
def log2Loop : Nat → W → W → W
  | 0, _, pow => pow
  | f + 1, sz, pow => if log2More sz then log2Loop f (BitVec.sshiftRight sz 1) (pow + 1#64) else pow

def log2 (sz : W) : W :=
  if log2InTable sz log2Table then log2Table[sz.toNat]!
  else log2Loop 64 (BitVec.sshiftRight sz 10) 10#64

def popCount (x : W) : Nat := (List.range 64).countP fun i => x.getLsbD i

/-- Length of the first chunk made by `NewAllocator(sz)`. -/
def chunk0Len (sz : W) : Nat :=
  let sz := if newTooSmall sz then 512#64 else sz
  let l2 := log2 sz
  let l2 := if popCount sz > 1 then l2 + 1#64 else l2
  (newChunkLen l2).toNat

def numSlots : Nat := 64

/-- An allocator whose first chunk has length `c0`, used by `n` goroutines. -/
def init (c0 n : Nat) : State :=
  { compIdx := 0#64
    chunks := c0 :: List.replicate (numSlots - 1) 0
    threads := List.replicate n {}
    grants := [] }

def newAllocator (sz : W) (n : Nat) : State := init (chunk0Len sz) n

/-! ## The step relation -/

def allIdle (s : State) : Bool := s.threads.all fun th => th.pc == .idle

def setThread (s : State) (t : Nat) (th : Thread) : State :=
  { s with threads := s.threads.set t th }

/-- Outcome of the bounds check + slice expression for a goroutine that obtained `pos`. -/
inductive Checked where
  | beyond (bufIdx : W)     -- `posIdx > len(buf)`
  | slice (r : Region)      -- `buf[posIdx-sz : posIdx]`
  | panic                   -- index or slice bounds out of range
deriving DecidableEq, Repr

def checkPos (cs : List Nat) (sz pos : W) : Checked :=
  let b := (parse pos).1
  let p := (parse pos).2
  if cs.length ≤ b.toNat then .panic            -- a.buffers[bufIdx]
  else
    let len := chunkLen cs b.toNat
    if allocBeyond p (bufOfLen len) then .beyond b
    else
      let lo := allocSliceLo p sz
      -- Go's `buf[lo:p]`: 0 ≤ lo ≤ p ≤ cap(buf)
      if BitVec.slt lo 0#64 || BitVec.slt p lo || BitVec.slt (BitVec.ofNat 64 len) p then .panic
      else .slice ⟨b.toNat, lo.toNat, (p - lo).toNat⟩

def step (s : State) : Action → Option State
  | .start t op =>
    match s.threads[t]? with
    | some th =>
      if th.pc = .idle then
        let n := op.inner
        if allocTooBig n then some s               -- panics before touching the allocator
        else if allocZero n then some s            -- returns nil
        else some (setThread s t { pc := .toAdd n, op := op })
      else none
    | none => none
  | .add t =>
    match s.threads[t]? with
    | some th =>
      match th.pc with
      | .toAdd sz =>
        let pos := s.compIdx + allocAddend sz
        some { setThread s t { th with pc := .added sz pos } with compIdx := pos }
      | _ => none
    | none => none
  | .check t =>
    match s.threads[t]? with
    | some th =>
      match th.pc with
      | .added sz pos =>
        match checkPos s.chunks sz pos with
        | .beyond b => some (setThread s t { th with pc := .needGrow sz b })
        | .panic => some (setThread s t { th with pc := .panicked .bounds })
        | .slice r =>
          some { setThread s t {} with grants := ⟨t, th.op, r⟩ :: s.grants }
      | _ => none
    | none => none
  | .grow t =>
    if s.lockHeld then none else
    match s.threads[t]? with
    | some th =>
      match th.pc with
      | .needGrow sz b =>
        if allocMoved (bi s) b then some (setThread s t { th with pc := .toAdd sz })
        else
          match addBufferAt s.chunks (allocNextIdx b) sz with
          | .outOfSlots =>   -- panics while holding the mutex (no deferred Unlock)
            some { setThread s t { th with pc := .panicked .outOfSlots } with lockHeld := true }
          | .hang => some { setThread s t { th with pc := .hung } with lockHeld := true }
          | .ok cs =>
            some { setThread s t { th with pc := .toAdd sz } with chunks := cs, compIdx := allocStore b }
      | _ => none
    | none => none
  | .reset => if allIdle s then some { s with compIdx := 0#64, grants := [] } else none
  | .trim max =>
    if allIdle s then
      let cs := trimTo max s.chunks
      -- slices inside freed chunks are dead
      some { s with chunks := cs, grants := s.grants.filter fun g => chunkLen cs g.reg.chunk != 0 }
    else none

def run (s : State) : List Action → Option State
  | [] => some s
  | a :: as => match step s a with
    | some s' => run s' as
    | none => none

/-! ## NoWrap -/

/-- The action does not carry out of the 32-bit offset half of `compIdx`. -/
def NoCarry (s : State) : Action → Prop
  | .add t => ∀ (th : Thread) (sz : W), s.threads[t]? = some th → th.pc = .toAdd sz →
      (pi s).toNat + sz.toNat < 2 ^ 32
  | _ => True

/-- No goroutine that is about to do its atomic add can carry into the chunk index. -/
def NoWrap (s : State) : Prop :=
  ∀ (t : Nat) (th : Thread) (sz : W), s.threads[t]? = some th → th.pc = .toAdd sz →
    (pi s).toNat + sz.toNat < 2 ^ 32

/-- Runs in which no atomic add carries. -/
inductive ReachNW (s0 : State) : State → Prop where
  | init : ReachNW s0 s0
  | step {s s' : State} (a : Action) : ReachNW s0 s → NoCarry s a → step s a = some s' → ReachNW s0 s'

/-- All runs. -/
inductive Reach (s0 : State) : State → Prop where
  | init : Reach s0 s0
  | step {s s' : State} (a : Action) : Reach s0 s → step s a = some s' → Reach s0 s'

/-- Executable form of `NoCarry`. -/
def noCarryB (s : State) : Action → Bool
  | .add t =>
    match s.threads[t]? with
    | some th =>
      match th.pc with
      | .toAdd sz => decide ((pi s).toNat + sz.toNat < 2 ^ 32)
      | _ => true
    | none => true
  | _ => true

/-- `run`, refusing schedules in which an atomic add carries. -/
def runNW (s : State) : List Action → Option State
  | [] => some s
  | a :: as =>
    if noCarryB s a then
      match step s a with
      | some s' => runNW s' as
      | none => none
    else none

/-! ## AllocateAligned: the aligned sub-slice -/

/-- `out[start : start+sz]` for `out` = region `r` of a chunk whose first byte has address `base`. -/
def alignedSub (base : W) (r : Region) (sz : W) : Region :=
  let addr := base + BitVec.ofNat 64 r.off
  let start := alignedStart (alignedAddr addr) addr
  ⟨r.chunk, r.off + start.toNat, (alignedEnd start sz - start).toNat⟩

/-- The slice the caller receives for a grant. -/
def resultOf (base : Nat → W) (g : Grant) : Region :=
  match g.op with
  | .aligned sz => alignedSub (base g.reg.chunk) g.reg sz
  | _ => g.reg

/-! ## Memory layer: the writes the allocator itself performs

`AllocateAligned` zeroes the slice it got from `Allocate` (`ZeroOut(out, 0, len(out))`),
`Copy` copies into it.  Both writes go to the region just granted and are done by
the goroutine that owns it, so they are folded into the `check` step that grants it. -/

abbrev Mem := Nat → Nat → BitVec 8     -- chunk → offset → byte

def inRegion (r : Region) (c o : Nat) : Prop := c = r.chunk ∧ r.off ≤ o ∧ o < r.off + r.len

instance (r : Region) (c o : Nat) : Decidable (inRegion r c o) := by
  unfold inRegion; infer_instance

def writeGrant (m : Mem) (g : Grant) : Mem :=
  match g.op with
  | .alloc _ => m
  | .aligned _ => fun c o => if inRegion g.reg c o then 0#8 else m c o
  | .copy d => fun c o => if inRegion g.reg c o then d.getD (o - g.reg.off) 0#8 else m c o

structure MState where
  st : State
  mem : Mem

def mstep (ms : MState) (a : Action) : Option MState :=
  match step ms.st a with
  | none => none
  | some s' =>
    match a, s'.grants with
    | .check _, g :: _ =>
      if s'.grants.length = ms.st.grants.length + 1 then some ⟨s', writeGrant ms.mem g⟩
      else some ⟨s', ms.mem⟩
    | _, _ => some ⟨s', ms.mem⟩

end RV.Alloc
