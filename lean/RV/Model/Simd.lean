import RV.Model.X86
import RV.Gen.Simd
import RV.Gen.SimdAsm
/-!
# Model of `z/simd`: `Naive`, the portable `Search`, the assembly routine, the amd64 wrapper

Every comparison, index computation, conversion and loop header is a *generated* kernel
(`Gen.Simd.*`, regenerated from baseline.go / search.go / search_amd64.go on every run); the
assembly routine is the generated instruction list `Gen.SimdAsm.searchProg` run by the
interpreter of `RV.Model.X86`.  Hand-written here: the shape of the loops (test the condition,
run the body, run the post statement), Go's bounds checks, and the call `search(xs[:n], k)`.

`none` stands for "the real code would not return a value": a run-time panic (index or slice
bound out of range), a fault of the interpreter, or exhausted fuel.
-/
namespace RV.Simd
open Gen.Simd RV.X86

abbrev Words := Array (BitVec 64)

/-! ## Specification -/

/-- `j` is the index of the first key `≥ k` among the `m` keys `f 0, f 2, …, f (2m-2)`
(keys live at the even positions), or `j = m` if there is none. -/
def IsFirst (f : Nat → BitVec 64) (m : Nat) (k : BitVec 64) (j : Nat) : Prop :=
  j ≤ m ∧ (∀ j', j' < j → f (2 * j') < k) ∧ (j < m → k ≤ f (2 * j))

/-- The memory the routine sees: the slice followed by whatever lies behind it. -/
def memOf (xs : Words) (tail : Nat → BitVec 64) : Nat → BitVec 64 :=
  fun i => if i < xs.size then xs[i]! else tail (i - xs.size)

/-! ## `Naive` (baseline.go) -/

def naiveGo (xs : Words) (k : BitVec 64) : Nat → BitVec 64 → Option (BitVec 16)
  | 0, _ => none
  | fuel + 1, i =>
    if naiveLoopCond i xs then
      if i.toNat < xs.size then                       -- bounds check of `xs[i]`
        let x := naiveLoad xs i
        if naiveGe x k then some (naiveRet i)
        else naiveGo xs k fuel (naiveLoopStep i)
      else none
    else some (naiveEnd i)

def naive (xs : Words) (k : BitVec 64) : Option (BitVec 16) :=
  naiveGo xs k (xs.size + 1) naiveLoopInit

/-! ## portable `Search` (search.go, `!amd64`) -/

def portableGo (xs : Words) (k : BitVec 64) : Nat → BitVec 64 → Option (BitVec 16)
  | 0, _ => none
  | fuel + 1, i =>
    if portableLoopCond i xs then
      if i.toNat + 6 < xs.size ∧ i.toNat + 6 < 2 ^ 63 then   -- bounds checks of xs[i] … xs[i+6]
        let twos : Words := #[portableLoad0 xs i, portableLoad1 xs i, portableLoad2 xs i, portableLoad3 xs i]
        let pk : Words := #[k, k, k, k]
        if portableGe0 twos pk then some (portableRet0 i)
        else if portableGe1 twos pk then some (portableRet1 i)
        else if portableGe2 twos pk then some (portableRet2 i)
        else if portableGe3 twos pk then some (portableRet3 i)
        else portableGo xs k fuel (portableLoopStep i)
      else none
    else some (portableNone xs)

def portable (xs : Words) (k : BitVec 64) : Option (BitVec 16) :=
  if portableUseNaive xs then naive xs k
  else portableGo xs k (xs.size + 1) portableLoopInit

/-! ## the assembly routine -/

/-- What the routine can see besides its arguments. -/
structure Env where
  /-- address of `xs[0]` -/
  base : BitVec 64
  /-- capacity of the slice -/
  cap : BitVec 64
  /-- register contents on entry -/
  regs : Reg → BitVec 64
  /-- memory following the slice: `tail i` is the word at `xs_base + 8*(len+i)` -/
  tail : Nat → BitVec 64

def asmFuel (len : BitVec 64) : Nat := 2 * len.toNat + 16

def asmFrame (e : Env) (mem : Nat → BitVec 64) (len k : BitVec 64) : Frame :=
  { base := e.base, len := len, cap := e.cap, k := k, mem := mem }

/-- Final machine state of `search` called with a slice header `(base, len, cap)` on memory
`mem` (word-indexed from `base`). -/
def asmRun (e : Env) (mem : Nat → BitVec 64) (len k : BitVec 64) : State :=
  runN Gen.SimdAsm.searchProg (asmFrame e mem len k) (asmFuel len) (entry e.regs)

def searchAsm (e : Env) (mem : Nat → BitVec 64) (len k : BitVec 64) : Option (BitVec 16) :=
  (asmRun e mem len k).result

/-! ## the amd64 wrapper `Search` (search_amd64.go) -/

def tailGo (xs : Words) (k : BitVec 64) : Nat → BitVec 64 → Option (BitVec 16)
  | 0, _ => none
  | fuel + 1, i =>
    if wrapTailCond i xs then
      if i.toNat < xs.size then                       -- bounds check of `xs[i]`
        if wrapGe xs i k then some (wrapRet i)
        else tailGo xs k fuel (wrapTailStep i)
      else none
    else some (wrapNone xs)

def search (e : Env) (xs : Words) (k : BitVec 64) : Option (BitVec 16) :=
  let n := wrapN xs
  let rest := tailGo xs k (xs.size + 1) (wrapTailInit n)
  if wrapHasPrefix n then
    if BitVec.ule n e.cap then                        -- bounds check of `xs[:n]`
      match searchAsm e (memOf xs e.tail) n k with
      | some idx => if wrapFound idx n then some idx else rest
      | none => none
    else none
  else rest

end RV.Simd
