import RV.Gen.Ring
import RV.Model.TinyLFU
/-!
The Get-side batching path, exactly and sequentially: `ringStripe` / `ringBuffer` (ring.go),
`defaultPolicy.Push`, the policy goroutine `defaultPolicy.processItems` and `tinyLFU.Push`
(policy.go).  The Cache model (`RV/Model/Cache.lean`) abstracts all of this to the counter
`ringPending` and a choice; `RV/Proofs/RingRefine.lean` shows that abstraction is sound.

Generated (module `Gen.Ring`, regenerated from /repo on every run): the drain decision
`len(s.data) >= s.capa`, the length of `s.data` after each of the two reset branches and whether
the branch allocates a fresh array, `int(capa)`, `p.isClosed`, `len(keys) == 0`, the four results
of `defaultPolicy.Push`, the capacity of `itemsCh`, the deltas of the `keepGets` / `dropGets`
metric adds.  Hand-written (tied by the `ring` stream and the pins/flows `pinRingBufferPush`,
`pinTinyPush`, `flow_ringPush`, `flow_policyPush`, `flow_policyProcess`): the statement order,
`append`, the meaning of the non-blocking `select { case ch <- keys: … default: … }` (the send
succeeds iff the buffer of `itemsCh` is not full), the pool as a nondeterministic choice.

Atomicity: one `ringBuffer.Push` is one step.  A stripe taken from the `sync.Pool` is owned by
the calling goroutine until `Put`, so everything `Push` does is local to that stripe except the
channel send and the atomic metric add of `defaultPolicy.Push`.  `sync.Pool` is a finite list of
stripes; `Get` may return any of them or a fresh one, and the GC may drop any of them together
with the keys it holds (`lose`).  The policy goroutine is two steps per batch: the receive from
`itemsCh`, and `Lock; admit.Push(items); Unlock`.  `Close` is two steps: the stop/done
rendez-vous with the goroutine (`stop`), then `close(itemsCh); isClosed = true` (`close`; `Close`
is not safe to run concurrently with `Get`, C08/C15, so no push happens between these two).
`defaultPolicy.Clear` (`admit.clear()`) and `Metrics.Clear` are one step each.
-/
namespace RV.Ring
open Gen.Ring

abbrev Key := BitVec 64

/-- `ringStripe`: `data` in push order and `capa`; `hist` (every key ever pushed onto this
stripe) and `out` (every batch this stripe handed to its consumer) are ghost history. -/
structure Stripe where
  data : List Key
  capa : BitVec 64
  hist : List Key := []
  out : List (List Key) := []
deriving Repr

/-- `newRingStripe(cons, capa)` -/
def Stripe.new (capa : BitVec 64) : Stripe := { data := [], capa := stripeCapa capa }

/-- how `defaultPolicy.Push` ended -/
inductive Outcome
  | closed   -- `p.isClosed`
  | empty    -- `len(keys) == 0`
  | kept     -- sent on `itemsCh`
  | dropped  -- `itemsCh` full
deriving DecidableEq, Repr

/-- the Boolean `defaultPolicy.Push` returns -/
def Outcome.ret : Outcome → Bool
  | .closed => retClosed
  | .empty => retEmpty
  | .kept => retKept
  | .dropped => retDropped

/-- The part of `defaultPolicy` the Push path touches.  `keepGets` / `dropGets` are the sums of the
striped counters (what `Metrics.GetsKept()` / `GetsDropped()` return); `metricsOn` is
`p.metrics != nil`. -/
structure Pol where
  closed : Bool := false
  running : Bool := true                 -- the `processItems` goroutine has not been stopped
  metricsOn : Bool
  chan : List (List Key) := []           -- `itemsCh`, oldest first
  held : Option (List Key) := none       -- batch received by the goroutine, not yet applied
  lfu : RV.TinyLFU.TinyLFU               -- the Go field `p.admit` (the tinyLFU)
  keepGets : BitVec 64 := 0#64
  dropGets : BitVec 64 := 0#64

/-- buffer size of `itemsCh` -/
def chanCap : Nat := itemsChCap.toNat

def Pol.addKeep (p : Pol) (keys : List Key) : Pol :=
  if p.metricsOn then { p with keepGets := p.keepGets + keepDelta keys.toArray } else p

def Pol.addDrop (p : Pol) (keys : List Key) : Pol :=
  if p.metricsOn then { p with dropGets := p.dropGets + dropDelta keys.toArray } else p

/-- `defaultPolicy.Push(keys)` -/
def Pol.push (p : Pol) (keys : List Key) : Pol × Outcome :=
  if pushClosed p.closed then (p, .closed)
  else if pushEmpty keys.toArray then (p, .empty)
  else if p.chan.length < chanCap then (({ p with chan := p.chan ++ [keys] }).addKeep keys, .kept)
  else (p.addDrop keys, .dropped)

/-- `s.data` after the reset branch chosen by the consumer's answer `ok` -/
def resetData (data : List Key) (capa : BitVec 64) (ok : Bool) : List Key :=
  let n := if ok then keptResetLen data.toArray capa else dropResetLen data.toArray capa
  let fresh := if ok then keptResetFresh else dropResetFresh
  if fresh then List.replicate n.toNat 0#64 else data.take n.toNat

/-- The whole system.  Everything below `pol` is ghost history. -/
structure Sys where
  capa : BitVec 64                       -- `Config.BufferItems`
  pool : List Stripe := []
  pol : Pol
  pushed : List Key := []                -- every key pushed by a `Get`, in order
  handed : List (List Key × Outcome) := []  -- every batch a stripe handed to `defaultPolicy.Push`
  applied : List Key := []               -- keys applied to `admit` by the goroutine, in order
  dropped : List Key := []               -- keys of batches refused on a full channel (GetsDropped)
  lostClosed : List Key := []            -- keys of batches refused by a closed policy (counted nowhere)
  lostPool : List Key := []              -- keys that sat in a stripe the pool dropped
  base : RV.TinyLFU.TinyLFU              -- `admit` at creation / after the last `Clear`
  since : List Key := []                 -- keys applied since then
  keptAtClear : Nat := 0                 -- number of kept keys at the last `Metrics.Clear`
  droppedAtClear : Nat := 0

def init (capa : BitVec 64) (metricsOn : Bool) (lfu : RV.TinyLFU.TinyLFU) : Sys :=
  { capa := capa, pol := { metricsOn := metricsOn, lfu := lfu }, base := lfu }

inductive Act
  | push (i : Nat) (k : Key)   -- `ringBuffer.Push(k)`, `pool.Get()` returned stripe `i`
  | pushNew (k : Key)          -- `ringBuffer.Push(k)`, `pool.Get()` called `New`
  | lose (i : Nat)             -- the GC emptied the pool's slot holding stripe `i`
  | recv                       -- goroutine: `items := <-p.itemsCh`
  | apply                      -- goroutine: `p.Lock(); p.admit.Push(items); p.Unlock()`
  | stop                       -- `Close`: `p.stop <- …; <-p.done` (the goroutine returns)
  | close                      -- `Close`: `close(p.itemsCh); p.isClosed = true`
  | polClear                   -- `defaultPolicy.Clear`: `admit.clear()`
  | metClear                   -- `Metrics.Clear`
deriving Repr

/-- `stripe.Push(k)` for the stripe at index `i` of the pool -/
def pushAt (s : Sys) (i : Nat) (k : Key) : Option Sys :=
  match s.pool[i]? with
  | none => none
  | some st =>
    let data := st.data ++ [k]
    if stripeFull data.toArray st.capa then
      let r := s.pol.push data
      let st' : Stripe := { st with data := resetData data st.capa r.2.ret, hist := st.hist ++ [k], out := st.out ++ [data] }
      some { s with
        pool := s.pool.set i st', pol := r.1, pushed := s.pushed ++ [k]
        handed := s.handed ++ [(data, r.2)]
        dropped := if r.2 = .dropped then s.dropped ++ data else s.dropped
        lostClosed := if r.2 = .closed then s.lostClosed ++ data else s.lostClosed }
    else
      some { s with pool := s.pool.set i { st with data := data, hist := st.hist ++ [k] }, pushed := s.pushed ++ [k] }

def step (s : Sys) : Act → Option Sys
  | .push i k => pushAt s i k
  | .pushNew k => pushAt { s with pool := s.pool ++ [Stripe.new s.capa] } s.pool.length k
  | .lose i =>
    match s.pool[i]? with
    | none => none
    | some st => some { s with pool := s.pool.eraseIdx i, lostPool := s.lostPool ++ st.data }
  | .recv =>
    if s.pol.running && s.pol.held.isNone then
      match s.pol.chan with
      | [] => none
      | b :: rest => some { s with pol := { s.pol with chan := rest, held := some b } }
    else none
  | .apply =>
    match s.pol.held with
    | none => none
    | some b =>
      some { s with pol := { s.pol with held := none, lfu := RV.TinyLFU.push s.pol.lfu b }
                    applied := s.applied ++ b, since := s.since ++ b }
  | .stop =>
    if s.pol.running && s.pol.held.isNone then some { s with pol := { s.pol with running := false } } else none
  | .close =>
    if !s.pol.running && !s.pol.closed then some { s with pol := { s.pol with closed := true } } else none
  | .polClear =>
    some { s with pol := { s.pol with lfu := RV.TinyLFU.clear s.pol.lfu }
                  base := RV.TinyLFU.clear s.pol.lfu, since := [] }
  | .metClear =>
    some { s with pol := { s.pol with keepGets := 0#64, dropGets := 0#64 }
                  keptAtClear := (s.pol.chan.flatten ++ s.pol.held.getD [] ++ s.applied).length
                  droppedAtClear := s.dropped.length }

def run (s : Sys) : List Act → Option Sys
  | [] => some s
  | a :: as => match step s a with
    | none => none
    | some s' => run s' as

/-- reachable from a fresh ring buffer + policy by any finite sequence of actions -/
def Reach (capa : BitVec 64) (metricsOn : Bool) (lfu : RV.TinyLFU.TinyLFU) (s : Sys) : Prop :=
  ∃ acts, run (init capa metricsOn lfu) acts = some s

/-- keys sitting in stripes of the pool -/
def poolKeys (s : Sys) : List Key := (s.pool.map Stripe.data).flatten
/-- keys of batches in `itemsCh` -/
def chanKeys (s : Sys) : List Key := s.pol.chan.flatten
/-- keys of the batch the goroutine holds -/
def heldKeys (s : Sys) : List Key := s.pol.held.getD []
/-- keys of batches `defaultPolicy.Push` accepted (what `GetsKept` counts) -/
def keptKeys (s : Sys) : List Key := chanKeys s ++ heldKeys s ++ s.applied

/-- the number of keys a stripe of capacity word `c` holds when it drains: `max 1 c` -/
def capaN (c : BitVec 64) : Nat := max 1 c.toInt.toNat

end RV.Ring
