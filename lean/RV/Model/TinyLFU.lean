import RV.Gen.TinyLFU
import RV.Model.Sketch
import RV.Model.Bloom
/-!
TinyLFU admission model (policy.go: `tinyLFU`).  The sketch and the doorkeeper are the
models built from the generated kernels; the reset trigger `p.incrs >= p.resetAt` is a
generated kernel.  Hand-written (tied by the `tinylfu` stream): the statement order of
`Increment`, `p.incrs++` / `hits++` as `+ 1` on the int64 word, the `if added` branch.

`newTinyLFU(numCounters)` sizes the doorkeeper with
`z.NewBloomFilter(float64(numCounters), 0.01)`; the floating-point sizing is not modelled:
`new` takes the resulting `(entries, locs)` as observed by the harness.
-/
namespace RV.TinyLFU
open Gen.TinyLFU

structure TinyLFU where
  freq    : RV.Sketch.Sketch
  door    : RV.Bloom.Bloom
  incrs   : BitVec 64
  resetAt : BitVec 64
deriving Repr

def new (numCounters : BitVec 64) (seed : Array (BitVec 64)) (doorEntries doorLocs : BitVec 64) : TinyLFU :=
  { freq := RV.Sketch.new numCounters seed
    door := RV.Bloom.new doorEntries doorLocs
    incrs := 0#64
    resetAt := numCounters }

/-- `reset()`: zero `incrs`, clear the doorkeeper, halve the counters -/
def reset (t : TinyLFU) : TinyLFU :=
  { t with incrs := 0#64, door := RV.Bloom.clear t.door, freq := RV.Sketch.reset t.freq }

/-- `clear()` -/
def clear (t : TinyLFU) : TinyLFU :=
  { t with incrs := 0#64, door := RV.Bloom.clear t.door, freq := RV.Sketch.clear t.freq }

/-- `Increment` up to and including `p.incrs++` (before the reset test) -/
def touch (t : TinyLFU) (key : BitVec 64) : TinyLFU :=
  let r := RV.Bloom.addIfNotHas t.door key
  let freq := if r.2 then t.freq else RV.Sketch.increment t.freq key
  { t with door := r.1, freq := freq, incrs := t.incrs + 1#64 }

/-- does this `Increment` end with `reset()`? -/
def fires (t : TinyLFU) : Bool := resetCond (t.incrs + 1#64) t.resetAt

/-- `Increment(key)` -/
def increment (t : TinyLFU) (key : BitVec 64) : TinyLFU :=
  let t1 := touch t key
  if resetCond t1.incrs t1.resetAt then reset t1 else t1

/-- `Push(keys)` -/
def push (t : TinyLFU) (keys : List (BitVec 64)) : TinyLFU := keys.foldl increment t

/-- `Estimate(key)`: `int64(min)` plus one if the doorkeeper has the key -/
def estimate (t : TinyLFU) (key : BitVec 64) : BitVec 64 :=
  let hits := (RV.Sketch.estimate t.freq key).zeroExtend 64
  if RV.Bloom.has t.door key then hits + 1#64 else hits

end RV.TinyLFU
