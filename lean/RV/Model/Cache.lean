import RV.Gen.Cache
import RV.Data.AMap
/-!
# Small-step interleaving model of `ristretto.Cache` (cache.go, store.go, ttl.go)

One model step = one atomic section of the real code: a region protected by one
mutex, one channel operation, one atomic word operation, one callback invocation
(DESIGN.md section 3.1).  The yield points compiled into the real code with
`-tags verif` sit exactly between these steps, so the trace validator
(`Drive/Cache.lean`) can replay what the real code did step by step.

* Any number of client threads (`cl : Tid → CPc`), one applier (`app`), a clock that
  only `Action.tick` advances, the write buffer as a bounded FIFO `buf` plus the FIFO of
  blocked senders `sendq` (Go channel semantics: a receive from a full channel moves the
  first blocked sender's element into the buffer in the same step).
* Nondeterminism of the runtime is an explicit `Choice` of the action: the `select`
  branch, the outcome of `policy.Add` (victims, admitted — any outcome satisfying the
  constraints in `polAdd`; the exact sampled-LFU discipline is `RV/Model/Policy.lean`),
  map iteration orders (sweep, `Clear`, `IterValues`), ring-buffer flushes.
* Every arithmetic / decision expression is a generated kernel `Gen.Cache.*`.
* The ghost `log` records calls, returns and callbacks (newest first).

Costs are `Int` (no int64 overflow; see finding F9), times are `Int` nanoseconds since
the Unix epoch with Go's zero `time.Time` = `Gen.zeroTime`, values are `Nat` identifiers
with `0` the Go zero value.
-/
namespace RV.Cache
open RV Gen.Cache

abbrev Hash := BitVec 64
abbrev Conf := BitVec 64
abbrev Val := Nat
abbrev Tid := Nat
abbrev Time := Int

structure Entry where
  conflict : Conf
  value : Val
  exp : Time
deriving DecidableEq, Repr, Inhabited

inductive Flag | new | del | upd
deriving DecidableEq, Repr, Inhabited

def Flag.code : Flag → BitVec 8
  | .new => itemNew
  | .del => itemDelete
  | .upd => itemUpdate

structure Item where
  flag : Flag
  key : Hash
  conflict : Conf
  value : Val
  cost : Int
  exp : Time
deriving DecidableEq, Repr, Inhabited

inductive BufElem
  | item (i : Item)
  | marker (id : Nat)
deriving DecidableEq, Repr, Inhabited

/-- Static configuration (`Config` plus the package-level constants). -/
structure Cfg where
  bufCap : Nat                                   -- capacity of `setBuf` (≥ 1)
  ignoreInternal : Bool
  costFn : Option (Val → Int)
  shouldUpdate : Option (Val → Val → Bool)       -- `Config.ShouldUpdate cur prev`
  metricsOn : Bool
  maxCost : Int

/-! ## Events of the ghost log -/

inductive Ev
  | setCall (t : Tid) (h : Hash) (c : Conf) (v : Val) (cost : Int) (ttl : Int)
  | setExp (t : Tid) (v : Val) (exp : Time)          -- ghost: the expiration computed from the clock read
  | drop (t : Tid) (v : Val)                          -- ghost: new item refused because the buffer was full
  | setRet (t : Tid) (v : Val) (ok : Bool)
  | getCall (t : Tid) (h : Hash) (c : Conf) (now : Time)
  | getRet (t : Tid) (h : Hash) (c : Conf) (res : Option Val)
  | ttlCall (t : Tid) (h : Hash) (c : Conf) (now : Time)
  | ttlRet (t : Tid) (h : Hash) (c : Conf) (d : Int) (ok : Bool)
  | delCall (t : Tid) (h : Hash) (c : Conf)
  | delRet (t : Tid) (h : Hash)
  | waitCall (t : Tid)
  | waitRet (t : Tid)
  | clearCall (t : Tid)
  | clearRet (t : Tid)
  | closeCall (t : Tid)
  | closeRet (t : Tid)
  | iterCall (t : Tid) (now : Time)
  | iterRet (t : Tid) (seen : List Val)
  | maxRet (t : Tid) (m : Int)
  | remRet (t : Tid) (m : Int)
  | exit (v : Val)                               -- OnExit(v)
  | evict (h : Hash) (c : Conf) (v : Val) (cost : Int)   -- OnEvict(item)
  | reject (h : Hash) (c : Conf) (v : Val) (cost : Int)  -- OnReject(item)
deriving DecidableEq, Repr

/-! ## The store (`shardedMap` / `lockedMap`) and the expiry index (`expirationMap`) -/

structure Em where
  buckets : AMap Int (AMap Hash Conf)
  lastCleaned : Int
deriving Inhabited

def bucketOf (t : Time) : Int := (storageBucket t).toInt
def cleanupOf (t : Time) : Int := (cleanupBucket t).toInt

/-- the bucket a new registration goes to: `storageBucket exp`, or — when that bucket has
already been cleaned up — the next bucket to be cleaned up (so that late arrivals are still
reclaimed) -/
def addBucket (em : Em) (exp : Time) : Int :=
  let b := bucketOf exp
  if emAddLate (BitVec.ofInt 64 b) (BitVec.ofInt 64 em.lastCleaned) then
    (emAddNext (BitVec.ofInt 64 em.lastCleaned)).toInt else b

def updateBucket (em : Em) (exp : Time) : Int :=
  let b := bucketOf exp
  if emUpdateLate (BitVec.ofInt 64 b) (BitVec.ofInt 64 em.lastCleaned) then
    (emUpdateNext (BitVec.ofInt 64 em.lastCleaned)).toInt else b

def Em.add (em : Em) (k : Hash) (c : Conf) (exp : Time) : Em :=
  if emAddSkip exp then em else
  let b := addBucket em exp
  { em with buckets := em.buckets.insert b (((em.buckets.lookup b).getD AMap.empty).insert k c) }

def Em.update (em : Em) (k : Hash) (c : Conf) (old new : Time) : Em :=
  let b0 := bucketOf old
  let bs := match em.buckets.lookup b0 with
    | some m => em.buckets.insert b0 (m.erase k)
    | none => em.buckets
  if emUpdateSkip new then { em with buckets := bs } else
  let b := updateBucket em new
  { em with buckets := bs.insert b (((bs.lookup b).getD AMap.empty).insert k c) }

def Em.del (em : Em) (k : Hash) (exp : Time) : Em :=
  let b := bucketOf exp
  match em.buckets.lookup b with
  | some m => { em with buckets := em.buckets.insert b (m.erase k) }
  | none => em

/-- insertion into a list sorted by bucket number -/
def insertSorted (x : Int × AMap Hash Conf) : List (Int × AMap Hash Conf) → List (Int × AMap Hash Conf)
  | [] => [x]
  | y :: ys => if x.1 ≤ y.1 then x :: y :: ys else y :: insertSorted x ys

/-- `cleanup`'s bucket grab at clock `now`: the buckets `lastCleaned < b ≤ cleanupBucket now`
in ascending order, removed from the index. -/
def Em.grab (em : Em) (now : Time) : Em × List (AMap Hash Conf) :=
  let cur := cleanupOf now
  let first := (sweepFirst (BitVec.ofInt 64 em.lastCleaned)).toInt
  let inRange := fun (b : Int) => decide (first ≤ b) && sweepLoopCond (BitVec.ofInt 64 b) (BitVec.ofInt 64 cur)
  let hit := em.buckets.toList.filter (fun p => inRange p.1)
  let sorted := hit.foldr insertSorted []
  ({ buckets := em.buckets.toList.filter (fun p => !inRange p.1), lastCleaned := cur },
   sorted.map (·.2))

def Em.clear (_em : Em) (now : Time) : Em := { buckets := AMap.empty, lastCleaned := cleanupOf now }

abbrev Store := AMap Hash Entry

def suRefuses (cfg : Cfg) (cur prev : Val) : Bool × Bool :=
  match cfg.shouldUpdate with
  | none => (false, true)
  | some f => (true, f cur prev)

/-- `lockedMap.Update`: returns (store, em, prev, ok). -/
def storeUpdate (cfg : Cfg) (st : Store) (em : Em) (i : Item) : Store × Em × Val × Bool :=
  match st.lookup i.key with
  | none => (st, em, 0, false)
  | some e =>
    if updConflictMismatch i.conflict e.conflict then (st, em, 0, false) else
    let (nn, su) := suRefuses cfg i.value e.value
    if updRefused nn su then (st, em, e.value, false) else
    (st.insert i.key ⟨i.conflict, i.value, i.exp⟩, em.update i.key i.conflict e.exp i.exp, e.value, true)

/-- `lockedMap.Set` (called by the applier for an admitted new item). -/
def storeSet (cfg : Cfg) (st : Store) (em : Em) (i : Item) : Store × Em :=
  match st.lookup i.key with
  | some e =>
    if setConflictMismatch i.conflict e.conflict then (st, em) else
    let (nn, su) := suRefuses cfg i.value e.value
    if setRefused nn su then (st, em) else
    (st.insert i.key ⟨i.conflict, i.value, i.exp⟩, em.update i.key i.conflict e.exp i.exp)
  | none => (st.insert i.key ⟨i.conflict, i.value, i.exp⟩, em.add i.key i.conflict i.exp)

/-- `lockedMap.Del`: returns (store, em, conflict, value) — zeros when nothing was removed. -/
def storeDel (st : Store) (em : Em) (k : Hash) (c : Conf) : Store × Em × Conf × Val :=
  match st.lookup k with
  | none => (st, em, 0#64, 0)
  | some e =>
    if delConflictMismatch c e.conflict then (st, em, 0#64, 0) else
    let em' := if delHasExpiry e.exp then em.del k e.exp else em
    (st.erase k, em', e.conflict, e.value)

/-- `lockedMap.DelExpired` (the sweep): check and delete in one critical section.
Returns (store, em, value, expiration, removed). -/
def storeDelExpired (st : Store) (em : Em) (k : Hash) (c : Conf) (now : Time) : Store × Em × Val × Time × Bool :=
  match st.lookup k with
  | none => (st, em, 0, Gen.zeroTime, false)
  | some e =>
    if sweepConflictMismatch c e.conflict then (st, em, 0, Gen.zeroTime, false) else
    if sweepSkip e.exp now then (st, em, 0, Gen.zeroTime, false) else
    (st.erase k, em.del k e.exp, e.value, e.exp, true)

/-- the checks of `lockedMap.get` after the map read, at clock `now` -/
def getResult (c : Conf) (e : Option Entry) (now : Time) : Option Val :=
  match e with
  | none => none
  | some e =>
    if getConflictMismatch c e.conflict then none
    else if getExpired e.exp now then none
    else some e.value

def expirationOf (st : Store) (k : Hash) : Time :=
  match st.lookup k with
  | some e => e.exp
  | none => Gen.zeroTime

def shardIdx (h : Hash) : Nat := (shardOf h).toNat

/-! ## Capacity accounting (`sampledLFU` behind `defaultPolicy`'s lock) and metrics -/

structure Met where
  hit : BitVec 64 := 0
  miss : BitVec 64 := 0
  keyAdd : BitVec 64 := 0
  keyUpdate : BitVec 64 := 0
  keyEvict : BitVec 64 := 0
  costAdd : BitVec 64 := 0
  costEvict : BitVec 64 := 0
  dropSets : BitVec 64 := 0
  rejectSets : BitVec 64 := 0
  dropGets : BitVec 64 := 0
  keepGets : BitVec 64 := 0
deriving DecidableEq, Repr, Inhabited

structure Pol where
  costs : AMap Hash Int
  used : Int
  maxCost : Int
deriving Inhabited

def w64 (n : Int) : BitVec 64 := BitVec.ofInt 64 n

/-- `sampledLFU.del` -/
def polDel (on : Bool) (p : Pol) (m : Met) (k : Hash) : Pol × Met :=
  match p.costs.lookup k with
  | none => (p, m)
  | some c =>
    ({ p with costs := p.costs.erase k, used := p.used - c },
     if on then { m with costEvict := m.costEvict + w64 c, keyEvict := m.keyEvict + 1 } else m)

/-- `sampledLFU.updateIfHas` (the two's-complement delta of the real code equals adding
`cost - prev` modulo 2^64). -/
def polUpdate (on : Bool) (p : Pol) (m : Met) (k : Hash) (cost : Int) : Pol × Met × Bool :=
  match p.costs.lookup k with
  | none => (p, m, false)
  | some prev =>
    ({ p with costs := p.costs.insert k cost, used := p.used + (cost - prev) },
     if on then { m with keyUpdate := m.keyUpdate + 1, costAdd := m.costAdd + w64 (cost - prev) } else m,
     true)

def polAddKey (on : Bool) (p : Pol) (m : Met) (k : Hash) (cost : Int) : Pol × Met :=
  ({ p with costs := p.costs.insert k cost, used := p.used + cost },
   if on then { m with costAdd := m.costAdd + w64 cost } else m)

def polDelAll (on : Bool) (p : Pol) (m : Met) : List (Hash × Int) → Pol × Met
  | [] => (p, m)
  | (k, _) :: rest => let (p', m') := polDel on p m k; polDelAll on p' m' rest

/-- `defaultPolicy.Add` with its outcome (victims in order, admitted) as a choice.
`none` = this outcome is impossible.  The constraints are those every run of the real
`Add` satisfies whatever the sample and the estimates are (proved for the exact policy
model in `RV/Proofs/Policy*.lean`): too big ⇒ untouched; accounted ⇒ cost update only;
fits ⇒ admitted without victims; otherwise the victims — keys that were accounted when `Add`
started, hence never the incoming key (a key may occur twice: the second removal is a no-op) —
are removed first and the newcomer is added only if it then fits. -/
def polAdd (on : Bool) (p : Pol) (m : Met) (k : Hash) (cost : Int)
    (victims : List (Hash × Int)) (added : Bool) : Option (Pol × Met) :=
  if cost > p.maxCost then
    if victims.isEmpty && !added then some (p, m) else none
  else match polUpdate on p m k cost with
  | (p1, m1, true) => if victims.isEmpty && !added then some (p1, m1) else none
  | (_, _, false) =>
    if p.maxCost - (p.used + cost) ≥ 0 then
      if victims.isEmpty && added then some (polAddKey on p m k cost) else none
    else if !(victims.all fun v => p.costs.contains v.1) then none  -- victims are sampled from the accounted keys
    else
      let (p2, m2) := polDelAll on p m victims
      if added then
        if p2.maxCost - (p2.used + cost) ≥ 0 && !victims.isEmpty then some (polAddKey on p2 m2 k cost) else none
      else some (p2, if on then { m2 with rejectSets := m2.rejectSets + 1 } else m2)

def polCost (p : Pol) (k : Hash) : Int := (p.costs.lookup k).getD (-1)

/-! ## Threads -/

inductive Call
  | set (h : Hash) (c : Conf) (v : Val) (cost : Int) (ttl : Int)
  | get (h : Hash) (c : Conf)
  | getTTL (h : Hash) (c : Conf)
  | del (h : Hash) (c : Conf)
  | wait
  | clear
  | close
  | iter (stopAt : Nat)            -- the callback asks to stop at its `stopAt`-th call (0 = never)
  | updateMaxCost (m : Int)
  | maxCost
  | remainingCost
deriving DecidableEq, Repr

/-- Client program counters: the point *before* the named atomic section. -/
inductive CPc
  | idle
  | setStart (h : Hash) (c : Conf) (v : Val) (cost : Int) (ttl : Int)
  | setUpd (i : Item)
  | setExit (i : Item) (prev : Val)
  | setSend (i : Item)
  | setRetTrue (i : Item)
  | setRetDrop (i : Item)
  | delStart (h : Hash) (c : Conf)
  | delExit (h : Hash) (c : Conf) (prev : Val)
  | delSend (h : Hash) (c : Conf)
  | delBlocked (h : Hash)
  | delSent (h : Hash)
  | waitStart
  | waitSend
  | waitBlocked (id : Nat)
  | waitRecv (id : Nat)
  | waitDone
  | getStart (h : Hash) (c : Conf)
  | getRead (h : Hash) (c : Conf)
  | getCheck (h : Hash) (c : Conf) (e : Option Entry)
  | getMetric (h : Hash) (c : Conf) (r : Option Val)
  | ttlRead (h : Hash) (c : Conf)
  | ttlCheck (h : Hash) (c : Conf) (e : Option Entry)
  | ttlExp (h : Hash) (c : Conf)
  | ttlNow (h : Hash) (c : Conf) (exp : Time)
  | ttlUntil (h : Hash) (c : Conf) (exp : Time)
  | iterStart (stopAt : Nat)
  | iterShard (k : Nat) (stopAt : Nat) (seen : List Val)
  | clrStart (closing : Bool)
  | clrStop (closing : Bool)         -- blocked offering `stop`
  | clrDone (closing : Bool)         -- stop taken; waiting for `done`
  | clrDrain (closing : Bool)
  | clrPolicy (closing : Bool)
  | clrShard (closing : Bool) (k : Nat)
  | clrEm (closing : Bool)
  | clrMetrics (closing : Bool)
  | clrRestart (closing : Bool)
  | clsStop                           -- Close: offering the second `stop`
  | clsDone
  | clsFinish
  | updMax (m : Int)
  | readMax
  | readRem
deriving DecidableEq, Repr, Inhabited

inductive APc
  | idle
  | marker (id : Nat)
  | item (i : Item)
  | costed (i : Item)
  | added (i : Item) (victims : List (Hash × Int)) (ok : Bool)
  | victims (vs : List (Hash × Int))
  | victimEvict (h : Hash) (cost : Int) (c : Conf) (v : Val) (rest : List (Hash × Int))
  | tombPolicy (i : Item)
  | tombStore (v : Val)
  | tick
  | sweep (now : Time) (bs : List (AMap Hash Conf))
  | swKey (now : Time) (k : Hash) (c : Conf) (bs : List (AMap Hash Conf))
  | swStoreDel (now : Time) (k : Hash) (c : Conf) (expr : Time) (v : Val) (bs : List (AMap Hash Conf))
  | swPolDel (now : Time) (k : Hash) (c : Conf) (expr : Time) (cost : Int) (v : Val) (bs : List (AMap Hash Conf))
  | stopAck                           -- `stop` received; about to offer `done`
  | dead
deriving Inhabited

structure State where
  store : Store
  em : Em
  pol : Pol
  met : Met
  buf : List BufElem
  sendq : List (Tid × BufElem)
  closedMarkers : List Nat
  nextMarker : Nat
  app : APc
  cl : Tid → CPc
  clock : Time
  closed : Bool
  ringPending : Nat
  log : List Ev

def init (cfg : Cfg) (now : Time) : State :=
  { store := AMap.empty
    em := { buckets := AMap.empty, lastCleaned := cleanupOf now }
    pol := { costs := AMap.empty, used := 0, maxCost := cfg.maxCost }
    met := {}
    buf := [], sendq := [], closedMarkers := [], nextMarker := 0
    app := .idle
    cl := fun _ => .idle
    clock := now, closed := false, ringPending := 0, log := [] }

/-- Nondeterministic choices resolved by the environment. -/
inductive Choice
  | none
  | selItem | selTick | selStop (t : Tid)
  | add (victims : List (Hash × Int)) (added : Bool)
  | key (k : Hash)                     -- next key of the sweep
  | order (ks : List Hash)             -- enumeration order of one shard
  | flush (kept : Bool) (n : Nat)      -- ring buffer flushed `n` keys (kept or dropped)
deriving Repr

inductive Action
  | spawn (t : Tid) (c : Call)
  | client (t : Tid) (ch : Choice)
  | applier (ch : Choice)
  | done (t : Tid)                     -- rendezvous on `done`: applier sends, client `t` receives
  | tick (d : Nat)
deriving Repr

def setCl (s : State) (t : Tid) (pc : CPc) : State :=
  { s with cl := fun t' => if t' = t then pc else s.cl t' }

def logEv (s : State) (e : Ev) : State := { s with log := e :: s.log }

/-- `OnExit(v)` -/
def cbExit (s : State) (v : Val) : State := logEv s (.exit v)
/-- `cache.onEvict(item)`: `OnEvict` then `OnExit` -/
def cbEvict (s : State) (h : Hash) (c : Conf) (v : Val) (cost : Int) : State :=
  logEv (logEv s (.evict h c v cost)) (.exit v)
/-- `cache.onReject(item)`: `OnReject` then `OnExit` -/
def cbReject (s : State) (h : Hash) (c : Conf) (v : Val) (cost : Int) : State :=
  logEv (logEv s (.reject h c v cost)) (.exit v)

/-- pc of a sender after its blocked send has completed -/
def unblockedPc : CPc → CPc
  | .delBlocked h => .delSent h
  | .waitBlocked id => .waitRecv id
  | pc => pc

/-- Receive one element from `setBuf` (Go channel semantics, see the header). -/
def recvBuf (s : State) : Option (BufElem × State) :=
  match s.buf with
  | [] => none
  | x :: rest =>
    match s.sendq with
    | [] => some (x, { s with buf := rest })
    | (t, e) :: q =>
      let s1 := { s with buf := rest ++ [e], sendq := q }
      some (x, setCl s1 t (unblockedPc (s.cl t)))

/-- A blocking send by client `t` (pc after completion `sent`, pc while blocked `blocked`). -/
def sendBlocking (cfg : Cfg) (s : State) (t : Tid) (e : BufElem) (sent blocked : CPc) : State :=
  if s.buf.length < cfg.bufCap ∧ s.sendq = [] then setCl { s with buf := s.buf ++ [e] } t sent
  else setCl { s with sendq := s.sendq ++ [(t, e)] } t blocked

def metAdd (cfg : Cfg) (s : State) (f : Met → Met) : State :=
  if cfg.metricsOn then { s with met := f s.met } else s

def shardKeys (st : Store) (k : Nat) : List Hash := (st.keys).filter (fun h => shardIdx h = k)

/-- `ks` is an enumeration of shard `k` of the store: the same keys, each once. -/
def isShardOrder (st : Store) (k : Nat) (ks : List Hash) : Bool :=
  ks.length == (shardKeys st k).length && ks.all (fun h => (shardKeys st k).contains h) &&
  (shardKeys st k).all (fun h => ks.contains h)

/-- visit the entries of one shard in order `ks`; returns (seen, stopped) -/
def iterVisit (st : Store) (now : Time) (stopAt : Nat) : List Hash → List Val → List Val × Bool
  | [], seen => (seen, false)
  | h :: rest, seen =>
    match st.lookup h with
    | none => iterVisit st now stopAt rest seen
    | some e =>
      if iterExpired e.exp now then iterVisit st now stopAt rest seen
      else
        let seen' := seen ++ [e.value]
        if stopAt ≠ 0 ∧ seen'.length = stopAt then (seen', true)
        else iterVisit st now stopAt rest seen'

def eraseAll (st : Store) : List Hash → Store
  | [] => st
  | h :: rest => eraseAll (st.erase h) rest

def evictAll (s : State) (st : Store) : List Hash → State
  | [] => s
  | h :: rest =>
    match st.lookup h with
    | none => evictAll s st rest
    | some e => evictAll (cbEvict s h e.conflict e.value 0) st rest

/-! ## Client steps

One definition per program counter (small definitions keep case analysis in proofs
cheap); `clientStep` dispatches on the pc.  Steps without a nondeterministic choice
require `Choice.none`. -/

def needNone (ch : Choice) (r : Option State) : Option State :=
  match ch with
  | .none => r
  | _ => none

-- SetWithTTL ------------------------------------------------------------
def stSetStart (s : State) (t : Tid) (h : Hash) (c : Conf) (v : Val) (cost : Int) (ttl : Int) : State :=
  if s.closed then logEv (setCl s t .idle) (.setRet t v false)
  else if ttlNone ttl then
    logEv (setCl s t (.setUpd ⟨.new, h, c, v, cost, Gen.zeroTime⟩)) (.setExp t v Gen.zeroTime)
  else if ttlNegative ttl then logEv (setCl s t .idle) (.setRet t v false)
  else logEv (setCl s t (.setUpd ⟨.new, h, c, v, cost, ttlExpiration s.clock ttl⟩))
         (.setExp t v (ttlExpiration s.clock ttl))

def stSetUpd (cfg : Cfg) (s : State) (t : Tid) (i : Item) : State :=
  let r := storeUpdate cfg s.store s.em i
  let s1 := { s with store := r.1, em := r.2.1 }
  if r.2.2.2 then setCl s1 t (.setExit i r.2.2.1) else setCl s1 t (.setSend i)

def stSetExit (s : State) (t : Tid) (i : Item) (prev : Val) : State :=
  setCl (cbExit s prev) t (.setSend { i with flag := .upd })

def stSetSend (cfg : Cfg) (s : State) (t : Tid) (i : Item) : State :=
  if s.buf.length < cfg.bufCap ∧ s.sendq = [] then
    setCl { s with buf := s.buf ++ [.item i] } t (.setRetTrue i)
  else setCl s t (.setRetDrop i)

def stSetRetTrue (s : State) (t : Tid) (i : Item) : State :=
  logEv (setCl s t .idle) (.setRet t i.value true)

def stSetRetDrop (cfg : Cfg) (s : State) (t : Tid) (i : Item) : State :=
  if dropIsUpdate i.flag.code then logEv (setCl s t .idle) (.setRet t i.value true)
  else logEv (logEv (setCl (metAdd cfg s fun m => { m with dropSets := m.dropSets + 1 }) t .idle)
              (.drop t i.value)) (.setRet t i.value false)

-- Del -------------------------------------------------------------------
def stDelStart (s : State) (t : Tid) (h : Hash) (c : Conf) : State :=
  if s.closed then logEv (setCl s t .idle) (.delRet t h) else
  let r := storeDel s.store s.em h c
  setCl { s with store := r.1, em := r.2.1 } t (.delExit h c r.2.2.2)

def stDelExit (s : State) (t : Tid) (h : Hash) (c : Conf) (prev : Val) : State :=
  setCl (cbExit s prev) t (.delSend h c)

def stDelSend (cfg : Cfg) (s : State) (t : Tid) (h : Hash) (c : Conf) : State :=
  sendBlocking cfg s t (.item ⟨.del, h, c, 0, 0, Gen.zeroTime⟩) (.delSent h) (.delBlocked h)

def stDelSent (s : State) (t : Tid) (h : Hash) : State := logEv (setCl s t .idle) (.delRet t h)

-- Wait ------------------------------------------------------------------
def stWaitStart (s : State) (t : Tid) : State :=
  if s.closed then logEv (setCl s t .idle) (.waitRet t) else setCl s t .waitSend

def stWaitSend (cfg : Cfg) (s : State) (t : Tid) : State :=
  sendBlocking cfg { s with nextMarker := s.nextMarker + 1 } t (.marker s.nextMarker)
    (.waitRecv s.nextMarker) (.waitBlocked s.nextMarker)

def stWaitRecv (s : State) (t : Tid) (id : Nat) : Option State :=
  if s.closedMarkers.contains id then some (setCl s t .waitDone) else none

def stWaitDone (s : State) (t : Tid) : State := logEv (setCl s t .idle) (.waitRet t)

-- Get -------------------------------------------------------------------
/-- closed check and ring push; the stripe may flush to the policy (kept) or be dropped -/
def stGetStart (cfg : Cfg) (s : State) (t : Tid) (h : Hash) (c : Conf) (ch : Choice) : Option State :=
  if s.closed then some (logEv (setCl s t .idle) (.getRet t h c none)) else
  let s1 := { s with ringPending := s.ringPending + 1 }
  match ch with
  | .none => some (setCl s1 t (.getRead h c))
  | .flush kept n =>
    if n = 0 ∨ n > s1.ringPending then none else
    let s2 := { s1 with ringPending := s1.ringPending - n }
    let s3 := metAdd cfg s2 fun m =>
      if kept then { m with keepGets := m.keepGets + BitVec.ofNat 64 n }
      else { m with dropGets := m.dropGets + BitVec.ofNat 64 n }
    some (setCl s3 t (.getRead h c))
  | _ => none

def stGetRead (s : State) (t : Tid) (h : Hash) (c : Conf) : State :=
  setCl s t (.getCheck h c (s.store.lookup h))

def stGetCheck (s : State) (t : Tid) (h : Hash) (c : Conf) (e : Option Entry) : State :=
  setCl s t (.getMetric h c (getResult c e s.clock))

def stGetMetric (cfg : Cfg) (s : State) (t : Tid) (h : Hash) (c : Conf) (r : Option Val) : State :=
  let s1 := metAdd cfg s fun m =>
    if r.isSome then { m with hit := m.hit + 1 } else { m with miss := m.miss + 1 }
  logEv (setCl s1 t .idle) (.getRet t h c r)

-- GetTTL (no closed check in the real code) -------------------------------
def stTtlRead (s : State) (t : Tid) (h : Hash) (c : Conf) : State :=
  setCl s t (.ttlCheck h c (s.store.lookup h))

def stTtlCheck (s : State) (t : Tid) (h : Hash) (c : Conf) (e : Option Entry) : State :=
  match getResult c e s.clock with
  | none => logEv (setCl s t .idle) (.ttlRet t h c 0 false)
  | some _ => setCl s t (.ttlExp h c)

def stTtlExp (s : State) (t : Tid) (h : Hash) (c : Conf) : State :=
  let exp := expirationOf s.store h
  if getTTLNoExpiry exp then logEv (setCl s t .idle) (.ttlRet t h c 0 true)
  else setCl s t (.ttlNow h c exp)

def stTtlNow (s : State) (t : Tid) (h : Hash) (c : Conf) (exp : Time) : State :=
  if getTTLExpired s.clock exp then logEv (setCl s t .idle) (.ttlRet t h c 0 false)
  else setCl s t (.ttlUntil h c exp)

def stTtlUntil (s : State) (t : Tid) (h : Hash) (c : Conf) (exp : Time) : State :=
  logEv (setCl s t .idle) (.ttlRet t h c (getTTLRemaining s.clock exp) true)

-- IterValues ------------------------------------------------------------
def stIterStart (s : State) (t : Tid) (stopAt : Nat) : State :=
  if s.closed then logEv (setCl s t .idle) (.iterRet t []) else setCl s t (.iterShard 0 stopAt [])

def stIterShard (s : State) (t : Tid) (k stopAt : Nat) (seen : List Val) (ch : Choice) : Option State :=
  match ch with
  | .order ks =>
    if k ≥ numShards.toNat then none else
    if !isShardOrder s.store k ks then none else
    let r := iterVisit s.store s.clock stopAt ks seen
    if r.2 ∨ k + 1 = numShards.toNat then some (logEv (setCl s t .idle) (.iterRet t r.1))
    else some (setCl s t (.iterShard (k + 1) stopAt r.1))
  | _ => none

-- Clear / Close ------------------------------------------------------------
def stClrStart (s : State) (t : Tid) (closing : Bool) : State :=
  if s.closed then logEv (setCl s t .idle) (if closing then .closeRet t else .clearRet t)
  else setCl s t (.clrStop closing)

/-- one iteration of `Clear`'s drain loop -/
def stClrDrain (s : State) (t : Tid) (closing : Bool) : State :=
  match recvBuf s with
  | none => setCl s t (.clrPolicy closing)
  | some (.marker id, s1) => { s1 with closedMarkers := id :: s1.closedMarkers }
  | some (.item i, s1) =>
    if clearEvictsItem i.flag.code then cbEvict s1 i.key i.conflict i.value i.cost else s1

def stClrPolicy (s : State) (t : Tid) (closing : Bool) : State :=
  setCl { s with pol := { s.pol with costs := AMap.empty, used := 0 } } t (.clrShard closing 0)

def stClrShard (s : State) (t : Tid) (closing : Bool) (k : Nat) (ch : Choice) : Option State :=
  match ch with
  | .order ks =>
    if k ≥ numShards.toNat then none else
    if !isShardOrder s.store k ks then none else
    let s1 := evictAll s s.store ks
    let s2 := { s1 with store := eraseAll s1.store ks }
    some (setCl s2 t (if k + 1 = numShards.toNat then .clrEm closing else .clrShard closing (k + 1)))
  | _ => none

def stClrEm (s : State) (t : Tid) (closing : Bool) : State :=
  setCl { s with em := s.em.clear s.clock } t (.clrMetrics closing)

def stClrMetrics (cfg : Cfg) (s : State) (t : Tid) (closing : Bool) : State :=
  setCl (if cfg.metricsOn then { s with met := {} } else s) t (.clrRestart closing)

/-- `go c.processItems()`, then return (Clear) or go on to the second stop (Close) -/
def stClrRestart (s : State) (t : Tid) (closing : Bool) : State :=
  let s1 := { s with app := .idle }
  if closing then setCl s1 t .clsStop else logEv (setCl s1 t .idle) (.clearRet t)

def stClsFinish (s : State) (t : Tid) : State :=
  logEv (setCl { s with closed := true, app := .dead } t .idle) (.closeRet t)

-- MaxCost / UpdateMaxCost / RemainingCost -----------------------------------
def stUpdMax (s : State) (t : Tid) (m : Int) : State :=
  setCl { s with pol := { s.pol with maxCost := m } } t .idle
def stReadMax (s : State) (t : Tid) : State := logEv (setCl s t .idle) (.maxRet t s.pol.maxCost)
def stReadRem (s : State) (t : Tid) : State :=
  logEv (setCl s t .idle) (.remRet t (s.pol.maxCost - s.pol.used))

def clientStep (cfg : Cfg) (s : State) (t : Tid) (ch : Choice) : Option State :=
  match s.cl t with
  | .idle => none
  | .setStart h c v cost ttl => needNone ch (some (stSetStart s t h c v cost ttl))
  | .setUpd i => needNone ch (some (stSetUpd cfg s t i))
  | .setExit i prev => needNone ch (some (stSetExit s t i prev))
  | .setSend i => needNone ch (some (stSetSend cfg s t i))
  | .setRetTrue i => needNone ch (some (stSetRetTrue s t i))
  | .setRetDrop i => needNone ch (some (stSetRetDrop cfg s t i))
  | .delStart h c => needNone ch (some (stDelStart s t h c))
  | .delExit h c prev => needNone ch (some (stDelExit s t h c prev))
  | .delSend h c => needNone ch (some (stDelSend cfg s t h c))
  | .delBlocked _ => none
  | .delSent h => needNone ch (some (stDelSent s t h))
  | .waitStart => needNone ch (some (stWaitStart s t))
  | .waitSend => needNone ch (some (stWaitSend cfg s t))
  | .waitBlocked _ => none
  | .waitRecv id => needNone ch (stWaitRecv s t id)
  | .waitDone => needNone ch (some (stWaitDone s t))
  | .getStart h c => stGetStart cfg s t h c ch
  | .getRead h c => needNone ch (some (stGetRead s t h c))
  | .getCheck h c e => needNone ch (some (stGetCheck s t h c e))
  | .getMetric h c r => needNone ch (some (stGetMetric cfg s t h c r))
  | .ttlRead h c => needNone ch (some (stTtlRead s t h c))
  | .ttlCheck h c e => needNone ch (some (stTtlCheck s t h c e))
  | .ttlExp h c => needNone ch (some (stTtlExp s t h c))
  | .ttlNow h c exp => needNone ch (some (stTtlNow s t h c exp))
  | .ttlUntil h c exp => needNone ch (some (stTtlUntil s t h c exp))
  | .iterStart n => needNone ch (some (stIterStart s t n))
  | .iterShard k n seen => stIterShard s t k n seen ch
  | .clrStart closing => needNone ch (some (stClrStart s t closing))
  | .clrStop _ => none          -- → .clrDone happens in the applier's `selStop`
  | .clrDone _ => none          -- → .clrDrain happens in `Action.done`
  | .clrDrain closing => needNone ch (some (stClrDrain s t closing))
  | .clrPolicy closing => needNone ch (some (stClrPolicy s t closing))
  | .clrShard closing k => stClrShard s t closing k ch
  | .clrEm closing => needNone ch (some (stClrEm s t closing))
  | .clrMetrics closing => needNone ch (some (stClrMetrics cfg s t closing))
  | .clrRestart closing => needNone ch (some (stClrRestart s t closing))
  | .clsStop => none
  | .clsDone => none
  | .clsFinish => needNone ch (some (stClsFinish s t))
  | .updMax m => needNone ch (some (stUpdMax s t m))
  | .readMax => needNone ch (some (stReadMax s t))
  | .readRem => needNone ch (some (stReadRem s t))

def spawnStep (s : State) (t : Tid) (c : Call) : Option State :=
  match s.cl t with
  | .idle =>
    match c with
    | .set h cf v cost ttl => some (logEv (setCl s t (.setStart h cf v cost ttl)) (.setCall t h cf v cost ttl))
    | .get h cf => some (logEv (setCl s t (.getStart h cf)) (.getCall t h cf s.clock))
    | .getTTL h cf => some (logEv (setCl s t (.ttlRead h cf)) (.ttlCall t h cf s.clock))
    | .del h cf => some (logEv (setCl s t (.delStart h cf)) (.delCall t h cf))
    | .wait => some (logEv (setCl s t .waitStart) (.waitCall t))
    | .clear => some (logEv (setCl s t (.clrStart false)) (.clearCall t))
    | .close => some (logEv (setCl s t (.clrStart true)) (.closeCall t))
    | .iter n => some (logEv (setCl s t (.iterStart n)) (.iterCall t s.clock))
    | .updateMaxCost m => some (setCl s t (.updMax m))
    | .maxCost => some (setCl s t .readMax)
    | .remainingCost => some (setCl s t .readRem)
  | _ => none

/-! ## Applier steps (`processItems` and the sweep `expirationMap.cleanup`) -/

def firstNonEmpty : List (AMap Hash Conf) → List (AMap Hash Conf)
  | [] => []
  | b :: rest => if b.toList.isEmpty then firstNonEmpty rest else b :: rest

def afterVictims (vs : List (Hash × Int)) : APc := if vs.isEmpty then .idle else .victims vs

-- receive -----------------------------------------------------------------------
def apSelItem (s : State) : Option State :=
  match recvBuf s with
  | none => none
  | some (.marker id, s1) => some { s1 with app := .marker id }
  | some (.item i, s1) => some { s1 with app := .item i }

def apSelStop (s : State) (t : Tid) : Option State :=
  match s.cl t with
  | .clrStop closing => some (setCl { s with app := .stopAck } t (.clrDone closing))
  | .clsStop => some (setCl { s with app := .stopAck } t .clsDone)
  | _ => none

def apIdle (s : State) (ch : Choice) : Option State :=
  match ch with
  | .selItem => apSelItem s
  | .selTick => some { s with app := .tick }
  | .selStop t => apSelStop s t
  | _ => none

def apMarker (s : State) (id : Nat) : State :=
  { s with app := .idle, closedMarkers := id :: s.closedMarkers }

/-- cost pre-processing: `Config.Cost` when the cost is 0, then the internal per-item cost -/
def itemCost (cfg : Cfg) (i : Item) : Int :=
  let c1 := match cfg.costFn with
    | some f => if useCostFn (w64 i.cost) true i.flag.code then f i.value else i.cost
    | none => i.cost
  if addInternalCost cfg.ignoreInternal then c1 + itemSize.toInt else c1

def apItem (cfg : Cfg) (s : State) (i : Item) : State :=
  { s with app := .costed { i with cost := itemCost cfg i } }

def apCostedNew (cfg : Cfg) (s : State) (i : Item) (ch : Choice) : Option State :=
  match ch with
  | .add victims added =>
    match polAdd cfg.metricsOn s.pol s.met i.key i.cost victims added with
    | none => none
    | some pm => some { s with pol := pm.1, met := pm.2, app := .added i victims added }
  | _ => none

def apCostedUpd (cfg : Cfg) (s : State) (i : Item) : State :=
  let r := polUpdate cfg.metricsOn s.pol s.met i.key i.cost
  { s with pol := r.1, met := r.2.1, app := .idle }

def apCostedDel (cfg : Cfg) (s : State) (i : Item) : State :=
  let r := polDel cfg.metricsOn s.pol s.met i.key
  { s with pol := r.1, met := r.2, app := .tombPolicy i }

def apCosted (cfg : Cfg) (s : State) (i : Item) (ch : Choice) : Option State :=
  match i.flag with
  | .new => apCostedNew cfg s i ch
  | .upd => needNone ch (some (apCostedUpd cfg s i))
  | .del => needNone ch (some (apCostedDel cfg s i))

def apAdded (cfg : Cfg) (s : State) (i : Item) (victims : List (Hash × Int)) (ok : Bool) : State :=
  if ok then
    let r := storeSet cfg s.store s.em i
    let s1 := metAdd cfg { s with store := r.1, em := r.2 } fun m => { m with keyAdd := m.keyAdd + 1 }
    { s1 with app := afterVictims victims }
  else
    { cbReject s i.key i.conflict i.value i.cost with app := afterVictims victims }

def apVictims (s : State) (vs : List (Hash × Int)) : Option State :=
  match vs with
  | [] => none
  | (h, cost) :: rest =>
    let r := storeDel s.store s.em h 0#64
    some { s with store := r.1, em := r.2.1, app := .victimEvict h cost r.2.2.1 r.2.2.2 rest }

def apVictimEvict (s : State) (h : Hash) (cost : Int) (c : Conf) (v : Val) (rest : List (Hash × Int)) : State :=
  { cbEvict s h c v cost with app := afterVictims rest }

def apTombPolicy (s : State) (i : Item) : State :=
  let r := storeDel s.store s.em i.key i.conflict
  { s with store := r.1, em := r.2.1, app := .tombStore r.2.2.2 }

def apTombStore (s : State) (v : Val) : State := { cbExit s v with app := .idle }

-- the sweep ------------------------------------------------------------------
def apTick (s : State) : State :=
  let r := s.em.grab s.clock
  { s with em := r.1, app := .sweep s.clock r.2 }

def apSweep (s : State) (now : Time) (bs : List (AMap Hash Conf)) (ch : Choice) : Option State :=
  match firstNonEmpty bs, ch with
  | [], .none => some { s with app := .idle }
  | b :: rest, .key k =>
    match b.lookup k with
    | none => none
    | some c => some { s with app := .swKey now k c (b.erase k :: rest) }
  | _, _ => none

def apSwKey (s : State) (now : Time) (k : Hash) (c : Conf) (bs : List (AMap Hash Conf)) : State :=
  let r := storeDelExpired s.store s.em k c now
  if r.2.2.2.2 then { s with store := r.1, em := r.2.1, app := .swStoreDel now k c r.2.2.2.1 r.2.2.1 bs }
  else { s with app := .sweep now bs }

def apSwStoreDel (cfg : Cfg) (s : State) (now : Time) (k : Hash) (c : Conf) (expr : Time) (v : Val)
    (bs : List (AMap Hash Conf)) : State :=
  let r := polDel cfg.metricsOn s.pol s.met k
  { s with pol := r.1, met := r.2, app := .swPolDel now k c expr (polCost s.pol k) v bs }

def apSwPolDel (s : State) (now : Time) (k : Hash) (c : Conf) (cost : Int) (v : Val)
    (bs : List (AMap Hash Conf)) : State :=
  { cbEvict s k c v cost with app := .sweep now bs }

def applierStep (cfg : Cfg) (s : State) (ch : Choice) : Option State :=
  match s.app with
  | .idle => apIdle s ch
  | .marker id => needNone ch (some (apMarker s id))
  | .item i => needNone ch (some (apItem cfg s i))
  | .costed i => apCosted cfg s i ch
  | .added i victims ok => needNone ch (some (apAdded cfg s i victims ok))
  | .victims vs => needNone ch (apVictims s vs)
  | .victimEvict h cost c v rest => needNone ch (some (apVictimEvict s h cost c v rest))
  | .tombPolicy i => needNone ch (some (apTombPolicy s i))
  | .tombStore v => needNone ch (some (apTombStore s v))
  | .tick => needNone ch (some (apTick s))
  | .sweep now bs => apSweep s now bs ch
  | .swKey now k c bs => needNone ch (some (apSwKey s now k c bs))
  | .swStoreDel now k c expr v bs => needNone ch (some (apSwStoreDel cfg s now k c expr v bs))
  | .swPolDel now k c _ cost v bs => needNone ch (some (apSwPolDel s now k c cost v bs))
  | .stopAck => none
  | .dead => none

/-- Rendezvous on the unbuffered `done` channel. -/
def doneStep (s : State) (t : Tid) : Option State :=
  match s.app, s.cl t with
  | .stopAck, .clrDone closing => some (setCl { s with app := .dead } t (.clrDrain closing))
  | .stopAck, .clsDone => some (setCl { s with app := .dead } t .clsFinish)
  | _, _ => none

def step (cfg : Cfg) (s : State) : Action → Option State
  | .spawn t c => spawnStep s t c
  | .client t ch => clientStep cfg s t ch
  | .applier ch => applierStep cfg s ch
  | .done t => doneStep s t
  | .tick d => some { s with clock := s.clock + d }

def run (cfg : Cfg) (s : State) : List Action → Option State
  | [] => some s
  | a :: as => match step cfg s a with
    | none => none
    | some s' => run cfg s' as

/-- Reachable states: any finite action sequence from the initial state at any start time. -/
def Reach (cfg : Cfg) (s : State) : Prop := ∃ now acts, run cfg (init cfg now) acts = some s

end RV.Cache
