/-!
# A small x86-64 interpreter for `z/simd/search_amd64.s`

Exactly the subset that occurs in that file (go2lean's `asm.go` refuses anything else):
`MOVQ MOVL XORL CMPQ ADDQ ADDL SHRL JAE JB JMP RET`, registers `AX BX CX DX BP`, small
immediates, the argument frame `name+off(FP)` and the addressing form `disp(base)(idx*scale)`.

* Registers are `BitVec 64`; 32-bit operations (`…L`) compute on the low half and zero-extend.
* Flags are abstracted to the operand pair of the last `CMPQ` (Go operand order:
  `CMPQ a, b; JAE L` jumps iff `a ≥ b` unsigned, `JB` iff `a < b`).  Any arithmetic instruction
  forgets them, so a conditional jump that does not directly depend on a `CMPQ` is a fault.
* Memory is *word* memory addressed relative to `xs_base`: `mem i` is the 8-byte word at
  `xs_base + 8*i`.  The words `i < len` are the slice, every `i ≥ len` is whatever follows it in
  memory (an arbitrary function), so "the result does not depend on memory beyond the slice"
  is expressible.  Every read is recorded in `reads`.  An address that is not 8-byte aligned
  relative to `xs_base` is a fault (the routine never forms one).
* `step` is total; `status` says whether the machine is still running, returned or faulted;
  a machine that is not running does not move, so `runN (a+b) = runN b ∘ runN a`.
-/
namespace RV.X86

inductive Reg | ax | bx | cx | dx | bp
  deriving DecidableEq, Repr, Inhabited

/-- Slots of the Go argument frame of `func search(xs []uint64, k uint64) int16`. -/
inductive Arg | xsBase | xsLen | xsCap | k | ret
  deriving DecidableEq, Repr, Inhabited

inductive Opd
  | reg (r : Reg)
  | imm (v : Nat)
  | mem (disp : Nat) (base idx : Reg) (scale : Nat)
  | arg (a : Arg)
  deriving DecidableEq, Repr, Inhabited

inductive Instr
  | movq (s d : Opd)
  | movl (s d : Opd)
  | xorl (s d : Opd)
  | cmpq (a b : Opd)
  | addq (s d : Opd)
  | addl (s d : Opd)
  | shrl (s d : Opd)
  | jae (t : Nat)
  | jb (t : Nat)
  | jmp (t : Nat)
  | ret
  deriving DecidableEq, Repr, Inhabited

/-- What the routine is called with. -/
structure Frame where
  base : BitVec 64
  len : BitVec 64
  cap : BitVec 64
  k : BitVec 64
  /-- word `i` of the memory that starts at `base` (slice and whatever follows it) -/
  mem : Nat → BitVec 64

inductive Status | running | done | fault
  deriving DecidableEq, Repr, Inhabited

structure State where
  pc : Nat
  ax : BitVec 64
  bx : BitVec 64
  cx : BitVec 64
  dx : BitVec 64
  bp : BitVec 64
  /-- operands `(a, b)` of the last `CMPQ a, b`, if no instruction clobbered the flags since -/
  flags : Option (BitVec 64 × BitVec 64)
  /-- the 32 bits stored to `ret+…(FP)` -/
  ret : Option (BitVec 32)
  /-- word indices (relative to `xs_base`) of all memory reads so far, newest first -/
  reads : List Nat
  status : Status

/-- Entry state; the registers hold whatever the caller left in them. -/
def entry (g : Reg → BitVec 64) : State :=
  { pc := 0, ax := g .ax, bx := g .bx, cx := g .cx, dx := g .dx, bp := g .bp,
    flags := none, ret := none, reads := [], status := .running }

def State.get (s : State) : Reg → BitVec 64
  | .ax => s.ax | .bx => s.bx | .cx => s.cx | .dx => s.dx | .bp => s.bp

def State.set (s : State) (r : Reg) (v : BitVec 64) : State :=
  match r with
  | .ax => { s with ax := v } | .bx => { s with bx := v } | .cx => { s with cx := v }
  | .dx => { s with dx := v } | .bp => { s with bp := v }

def State.fail (s : State) : State := { s with status := .fault }

/-- low half, zero-extended (what a 32-bit destination write leaves in the register) -/
def lo32 (v : BitVec 64) : BitVec 64 := (v.setWidth 32).setWidth 64

/-- Read a source operand.  Memory reads are logged. -/
def readOpd (fr : Frame) (s : State) : Opd → Option (BitVec 64 × State)
  | .reg r => some (s.get r, s)
  | .imm v => some (BitVec.ofNat 64 v, s)
  | .arg .xsBase => some (fr.base, s)
  | .arg .xsLen => some (fr.len, s)
  | .arg .xsCap => some (fr.cap, s)
  | .arg .k => some (fr.k, s)
  | .arg .ret => none
  | .mem disp b i scale =>
    let off := s.get b + s.get i * BitVec.ofNat 64 scale + BitVec.ofNat 64 disp - fr.base
    if off.toNat % 8 = 0 then
      some (fr.mem (off.toNat / 8), { s with reads := off.toNat / 8 :: s.reads })
    else none

/-- Write a 64-bit result to a register destination. -/
def writeReg (s : State) (d : Opd) (v : BitVec 64) : State :=
  match d with
  | .reg r => { s.set r v with pc := s.pc + 1 }
  | _ => s.fail

/-- `op s, d` with a register destination: `d := f d s`; flags are forgotten. -/
def arith (fr : Frame) (s : State) (f : BitVec 64 → BitVec 64 → BitVec 64) (src d : Opd) : State :=
  match d with
  | .reg r =>
    match readOpd fr s src with
    | some (v, s1) => { (s1.set r (f (s1.get r) v)) with pc := s.pc + 1, flags := none }
    | none => s.fail
  | _ => s.fail

def condJump (s : State) (c : BitVec 64 → BitVec 64 → Bool) (t : Nat) : State :=
  match s.flags with
  | some (a, b) => { s with pc := if c a b then t else s.pc + 1 }
  | none => s.fail

def exec (fr : Frame) (s : State) : Instr → State
  | .movq src d =>
    match readOpd fr s src with
    | some (v, s1) => writeReg s1 d v
    | none => s.fail
  | .movl src d =>
    match readOpd fr s src with
    | some (v, s1) =>
      match d with
      | .arg .ret => { s1 with ret := some (v.setWidth 32), pc := s.pc + 1 }
      | _ => writeReg s1 d (lo32 v)
    | none => s.fail
  | .xorl src d => arith fr s (fun x y => lo32 (x ^^^ y)) src d
  | .addq src d => arith fr s (fun x y => x + y) src d
  | .addl src d => arith fr s (fun x y => lo32 (x + y)) src d
  | .shrl src d => arith fr s (fun x y => lo32 x >>> (y.toNat % 32)) src d
  | .cmpq a b =>
    match readOpd fr s a with
    | some (va, s1) =>
      match readOpd fr s1 b with
      | some (vb, s2) => { s2 with flags := some (va, vb), pc := s.pc + 1 }
      | none => s.fail
    | none => s.fail
  | .jae t => condJump s (fun a b => decide (b ≤ a)) t
  | .jb t => condJump s (fun a b => decide (a < b)) t
  | .jmp t => { s with pc := t }
  | .ret => { s with status := .done }

def step (prog : Array Instr) (fr : Frame) (s : State) : State :=
  match s.status with
  | .running =>
    match prog[s.pc]? with
    | some ins => exec fr s ins
    | none => s.fail
  | _ => s

def runN (prog : Array Instr) (fr : Frame) : Nat → State → State
  | 0, s => s
  | n + 1, s => runN prog fr n (step prog fr s)

/-- The `int16` the routine returned, if it returned. -/
def State.result (s : State) : Option (BitVec 16) :=
  match s.status, s.ret with
  | .done, some v => some (v.setWidth 16)
  | _, _ => none

theorem step_not_running {prog fr} {s : State} (h : s.status ≠ .running) : step prog fr s = s := by
  unfold step; cases hs : s.status <;> simp_all

theorem runN_not_running {prog fr} (n : Nat) {s : State} (h : s.status ≠ .running) :
    runN prog fr n s = s := by
  induction n with
  | zero => rfl
  | succ n ih => simp only [runN, step_not_running h, ih]

theorem runN_add {prog fr} (a b : Nat) (s : State) :
    runN prog fr (a + b) s = runN prog fr b (runN prog fr a s) := by
  induction a generalizing s with
  | zero => simp [runN]
  | succ a ih => rw [Nat.succ_add]; simp only [runN]; exact ih _

theorem runN_succ {prog fr} (n : Nat) (s : State) :
    runN prog fr (n + 1) s = runN prog fr n (step prog fr s) := rfl

/-- Once the machine has stopped after `m` steps, more fuel changes nothing. -/
theorem runN_stable {prog fr} {m n : Nat} {s : State} (h : (runN prog fr m s).status ≠ .running)
    (hmn : m ≤ n) : runN prog fr n s = runN prog fr m s := by
  obtain ⟨d, rfl⟩ := Nat.exists_eq_add_of_le hmn
  rw [runN_add, runN_not_running d h]

end RV.X86
