/-
  C08 (B) lock discipline: the shape of the generated lock table (`Gen.Locks.accesses`), the
  Bool-valued discipline checker that the kernel evaluates on it, and the abstract RW-mutex
  semantics against which the checker's "shares a mutex" clause is sound (`RV/Proofs/Locks.lean`).
  Core Lean only.
-/
namespace RV.Locks

inductive Kind | read | write
  deriving DecidableEq, Repr

/-- lock mode: `R` = `RLock()`, `W` = `Lock()` -/
inductive Mode | R | W
  deriving DecidableEq, Repr

/-- goroutine-confinement / ordering tag (hand table in go2lean/locks.go):
  `ctor`   constructor-time code, runs before the object is shared;
  `close`  code of `Cache.Close` / `defaultPolicy.Close` (excluded from C08's claim);
  `stripe` ring-stripe fields inside `ringStripe.Push` (the stripe is owned by one goroutine
           between `pool.Get()` and `pool.Put()`);
  `applier` state confined to the `processItems` goroutine (currently unused: that state is local
           variables, not fields). -/
inductive Tag | none | ctor | close | stripe | applier
  deriving DecidableEq, Repr

/-- one syntactic read/write of a field of a shared struct type -/
structure Access where
  /-- `"Type.field"` -/
  field  : String
  /-- numeric id of `field` (index into `Gen.Locks.fieldIds`); only used to make the kernel
  evaluation fast, see `disciplinedN` / `fidsOk` -/
  fid    : Nat
  kind   : Kind
  /-- mutexes held at that point: (Go type owning the mutex, mode) -/
  locks  : List (String × Mode)
  /-- a `sync/atomic` access -/
  atomic : Bool
  tag    : Tag
  /-- `"file.go:line func"` -/
  loc    : String
  deriving Repr

/-- same field, at least one write -/
def conflict (a b : Access) : Bool :=
  a.field == b.field && (a.kind == .write || b.kind == .write)

/-- both hold the same mutex and at least one of them holds it exclusively (R/R does not exclude) -/
def sharesMutex (a b : Access) : Bool :=
  a.locks.any fun p => b.locks.any fun q => p.1 == q.1 && (p.2 == .W || q.2 == .W)

/-- both are confined to the same owner-exclusive region -/
def confined (a b : Access) : Bool :=
  a.tag == b.tag && (a.tag == .stripe || a.tag == .applier)

/-- why a conflicting pair is not a data race.  NOTE the atomic clause needs BOTH sides atomic: a
plain access against an atomic one is only fine under a common mutex or when one side is
constructor code. -/
def ok (a b : Access) : Bool :=
  (a.atomic && b.atomic) || sharesMutex a b || confined a b || a.tag == .ctor || b.tag == .ctor

/-- `Close` is outside C08's concurrency claim -/
def excluded (a : Access) : Bool := a.tag == .close

def pairOk (a b : Access) : Bool :=
  excluded a || excluded b || !conflict a b || ok a b

/-- every pair of non-excluded conflicting accesses of the table is `ok` -/
def disciplined (l : List Access) : Bool :=
  l.all fun a => l.all fun b => pairOk a b

/-! The same checker over the numeric field ids (no string comparison per pair), and the check
that ties the ids to the names: `fid` is a function of `field`.  `disciplined_of_fast` in
RV/Proofs/Locks.lean: `fidsOk tbl l → disciplinedN l → disciplined l`. -/

def conflictN (a b : Access) : Bool :=
  a.fid == b.fid && (a.kind == .write || b.kind == .write)

def pairOkN (a b : Access) : Bool :=
  excluded a || excluded b || !conflictN a b || ok a b

def disciplinedN (l : List Access) : Bool :=
  l.all fun a => l.all fun b => pairOkN a b

/-- all ordered pairs inside one group -/
def groupOk (g : List Access) : Bool :=
  g.all fun a => g.all fun b => pairOkN a b

/-- the checker the kernel actually runs: split the table into the groups of equal field id
(`n` = number of ids) and test the pairs inside each group; pairs across groups never conflict.
(`disciplinedN_of_grouped` in RV/Proofs/Locks.lean.) -/
def disciplinedG (n : Nat) (l : List Access) : Bool :=
  (l.all fun a => decide (a.fid < n)) &&
  (List.range n).all fun i => groupOk (l.filter fun a => a.fid == i)

/-- every access's id is the one the table assigns to its field name -/
def fidsOk (tbl : List (String × Nat)) (l : List Access) : Bool :=
  l.all fun a => tbl.lookup a.field == some a.fid

/-- the violating pairs (for reporting; `disciplined l = true ↔ violations l = []`) -/
def violations (l : List Access) : List (Access × Access) :=
  l.flatMap fun a => (l.filter fun b => !pairOk a b).map fun b => (a, b)

/-- number of ordered pairs of non-excluded conflicting accesses (what the checker really tests) -/
def conflictingPairs (l : List Access) : Nat :=
  (l.map fun a => (l.filter fun b => !excluded a && !excluded b && conflict a b).length).sum

/-- the same count over the numeric ids (cheap for the kernel) -/
def conflictingPairsN (l : List Access) : Nat :=
  (l.map fun a => (l.filter fun b => !excluded a && !excluded b && conflictN a b).length).sum

/-! ## abstract RW-mutex semantics -/

abbrev Tid := Nat

/-- state of one RW mutex (a plain `sync.Mutex` never has readers) -/
structure MState where
  writer  : Option Tid := none
  readers : List Tid := []

/-- a lock state: every mutex name to its state -/
abbrev LState := String → MState

def LState.init : LState := fun _ => {}

/-- well-formed RW-mutex state: a writer excludes all readers (and `Option` allows one writer) -/
def Exclusive (σ : LState) : Prop :=
  ∀ n t, (σ n).writer = some t → (σ n).readers = []

/-- thread `t` holds mutex `n` in AT LEAST the given mode: a `W` requirement needs the write lock;
an `R` requirement is satisfied by the read lock or by the write lock (a helper whose entry lock
set says `R` may be reached from a caller holding `W`). -/
def holds (σ : LState) (t : Tid) : String × Mode → Prop
  | (n, .W) => (σ n).writer = some t
  | (n, .R) => (σ n).writer = some t ∨ t ∈ (σ n).readers

/-- an access can only execute while its thread holds every lock of its lock set -/
def enabled (σ : LState) (t : Tid) (a : Access) : Prop :=
  ∀ l ∈ a.locks, holds σ t l

inductive Op | lock | unlock | rlock | runlock
  deriving DecidableEq, Repr

def LState.set (σ : LState) (n : String) (m : MState) : LState :=
  fun n' => if n' = n then m else σ n'

/-- the four lock operations; `none` = the operation is not enabled (it blocks, or is a misuse):
`Lock` only when free, `RLock` only when there is no writer, the releases only by a holder. -/
def step (σ : LState) (t : Tid) (n : String) : Op → Option LState
  | .lock    => if (σ n).writer = none ∧ (σ n).readers = [] then
                  some (σ.set n { writer := some t, readers := [] }) else none
  | .rlock   => if (σ n).writer = none then
                  some (σ.set n { (σ n) with readers := t :: (σ n).readers }) else none
  | .unlock  => if (σ n).writer = some t then
                  some (σ.set n { (σ n) with writer := none }) else none
  | .runlock => if t ∈ (σ n).readers then
                  some (σ.set n { (σ n) with readers := (σ n).readers.erase t }) else none

/-- lock states reachable from the all-free state -/
inductive Reach : LState → Prop
  | init : Reach LState.init
  | step {σ σ' t n op} : Reach σ → step σ t n op = some σ' → Reach σ'

end RV.Locks
