import RV.Gen.Buffer
/-!
Model of `z.Buffer` (z/buffer.go), property C11.

* State: the bookkeeping fields of the Go struct plus `data`, the *used prefix*
  `b.buf[0:b.offset]` (padding included).  The content of the unused capacity
  is not modelled: fresh memory is zero and regions handed out by
  `Allocate`/`AllocateOffset`/`SliceAllocate` are filled by the caller, so every
  such operation carries the bytes the caller stores there.
* Every comparison and every piece of offset / capacity arithmetic is a
  *generated kernel* (`Gen.Buffer.*`, regenerated from buffer.go on every run)
  over Go's 64-bit `int`; the model converts its naturals with `w`.
* Panics / `log.Fatal` of the real code are explicit `Fault`s.
* calloc / mmap / auto-mmap differ only in `mode` bookkeeping and in which
  growth path runs; what the OS does (mmap, mremap, ftruncate) and that `Calloc`
  returns zeroed memory is assumed.
* `sort.Slice` is a parameter (`SortFn`); `insertionSort` is the executable
  instance used by the trace validator.
-/
namespace RV.Buffer
open Gen.Buffer

abbrev Byte := BitVec 8
abbrev Bytes := List Byte

/-- a natural number as a Go `int` / `uint64` word -/
def w (n : Nat) : BitVec 64 := BitVec.ofNat 64 n

/-- `next` of the slice walkers: `none` is Go's `-1`. -/
def nextWord : Option Nat → BitVec 64
  | none => BitVec.ofInt 64 (-1)
  | some n => w n

/-! ## The 8-byte length prefix -/

/-- `binary.BigEndian.PutUint64`: most significant byte first. -/
def be64 (v : BitVec 64) : Bytes :=
  let n := v.toNat
  [BitVec.ofNat 8 (n / 2 ^ 56 % 256), BitVec.ofNat 8 (n / 2 ^ 48 % 256), BitVec.ofNat 8 (n / 2 ^ 40 % 256),
   BitVec.ofNat 8 (n / 2 ^ 32 % 256), BitVec.ofNat 8 (n / 2 ^ 24 % 256), BitVec.ofNat 8 (n / 2 ^ 16 % 256),
   BitVec.ofNat 8 (n / 2 ^ 8 % 256), BitVec.ofNat 8 (n % 256)]

/-- `binary.<order>.PutUint64` into an 8-byte region. -/
def putU64 (bigEndian : Bool) (v : BitVec 64) : Bytes :=
  if bigEndian then be64 v else (be64 v).reverse

/-- value of a byte string read most significant byte first -/
def beNat (bs : Bytes) : Nat := bs.foldl (fun acc b => acc * 256 + b.toNat) 0

/-- `binary.<order>.Uint64(bs)` (the caller checks that 8 bytes are there). -/
def getU64 (bigEndian : Bool) (bs : Bytes) : BitVec 64 :=
  let p := bs.take 8
  BitVec.ofNat 64 (beNat (if bigEndian then p else p.reverse))

/-- The bytes `writeLen(sz)` stores: `b.Allocate(8)` then `PutUint64(buf, uint64(sz))`.
A region shorter than 8 bytes makes `PutUint64` panic; a longer one keeps its old
(fresh: zero) tail. -/
def lenPrefix (sz : Nat) : Option Bytes :=
  let width := writeLenWidth.toNat
  if width < 8 then none
  else some (putU64 writeLenBigEndian (writeLenValue (w sz)) ++ List.replicate (width - 8) 0)

/-- encoding of one slice as `WriteSlice` / `SliceAllocate` lay it out (spec side) -/
def enc (s : Bytes) : Bytes := be64 (w s.length) ++ s

/-- encoding of a sequence of slices -/
def encAll (ss : List Bytes) : Bytes := ss.flatMap enc

/-! ## State -/

inductive Mode
  | calloc | mmap
deriving DecidableEq, Repr

inductive Fault
  | maxSize      -- panic "z.Buffer max size exceeded"
  | startZero    -- panic "start can never be zero"
  | notCalloc    -- panic "can only autoMmap with UseCalloc"
  | bounds       -- Go index / slice-bounds panic, or a read outside `b.buf[:offset]` (content unknown to the model)
  | assertFail   -- `assert(...)` failed: log.Fatal
  | fuel         -- a model loop bound ran out (impossible on well-formed buffers, see `RV.C11`)
deriving DecidableEq, Repr

structure Buf where
  padding : Nat
  offset : Nat
  curSz : Nat
  maxSz : Nat
  mode : Mode
  autoMmapAfter : Nat
  /-- `b.buf[0:b.offset]` -/
  data : Bytes
deriving DecidableEq, Repr

/-- `NewBuffer(capacity, tag)` -/
def newBuffer (capacity : Nat) : Buf :=
  let cap := if newCapSmall (w capacity) then defaultCapacity.toNat else capacity
  { padding := 8, offset := 8, curSz := cap, maxSz := 0, mode := .calloc, autoMmapAfter := 0,
    data := List.replicate 8 0 }

/-- `NewBufferTmp(dir, capacity)`: a fresh file truncated to `capacity` and mapped (assumed). -/
def newBufferTmp (capacity : Nat) : Buf :=
  let cap := if newFileCapSmall (w capacity) then defaultCapacity.toNat else capacity
  { padding := 8, offset := 8, curSz := cap, maxSz := 0, mode := .mmap, autoMmapAfter := 0,
    data := List.replicate 8 0 }

/-- `WithAutoMmap(threshold, path)` -/
def withAutoMmap (b : Buf) (threshold : Nat) : Except Fault Buf :=
  if b.mode ≠ .calloc then .error .notCalloc else .ok { b with autoMmapAfter := threshold }

/-- `WithMaxSize(size)` -/
def withMaxSize (b : Buf) (size : Nat) : Buf := { b with maxSz := size }

/-- `Bytes()`: `b.buf[b.padding:off]` -/
def bytes (b : Buf) : Bytes := b.data.drop b.padding

def lenNoPadding (b : Buf) : Nat := b.offset - b.padding

/-! ## Grow -/

/-- The new `b.curSz` computed by `Grow(n)` when it has to grow. -/
def growSize (curSz n : Nat) : Nat :=
  let g0 := growByInit (w curSz) (w n)
  let g1 := if growByTooBig g0 then growByCap else g0
  let g2 := if growByTooSmall (w n) g1 then w n else g1
  (w curSz + g2).toNat

/-- Which of the paths of `Grow` runs. -/
inductive GrowPath
  | panicMax | noop | callocRealloc | callocToMmap | mmapTruncate
deriving DecidableEq, Repr

def growPath (b : Buf) (n : Nat) : GrowPath :=
  if growExceedsMax (w b.maxSz) (w b.offset) (w n) then .panicMax
  else if growFits (w b.offset) (w n) (w b.curSz) then .noop
  else match b.mode with
    | .calloc => if growAutoMmap (w b.autoMmapAfter) (w (growSize b.curSz n)) then .callocToMmap else .callocRealloc
    | .mmap => .mmapTruncate

/-- `Grow(n)`.  The two calloc paths allocate fresh zeroed memory of the new size and
`copy(new, b.buf[:b.offset])` (asserting that `offset` bytes were copied); the mmap path
truncates and remaps the file, which is assumed to keep the contents. -/
def grow (b : Buf) (n : Nat) : Except Fault Buf :=
  match growPath b n with
  | .panicMax => .error .maxSize
  | .noop => .ok b
  | .callocRealloc =>
    let cur := growSize b.curSz n
    if b.offset ≤ cur then .ok { b with curSz := cur, data := b.data.take b.offset } else .error .assertFail
  | .callocToMmap =>
    let cur := growSize b.curSz n
    if b.offset ≤ cur then .ok { b with curSz := cur, mode := .mmap, data := b.data.take b.offset }
    else .error .assertFail
  | .mmapTruncate => .ok { b with curSz := growSize b.curSz n }

/-! ## Writing -/

/-- `Allocate(n)` followed by the caller storing `fill` (`fill.length = n`) in the
returned region.  Returns the offset of the region. -/
def allocate (b : Buf) (fill : Bytes) : Except Fault (Buf × Nat) :=
  match grow b fill.length with
  | .error f => .error f
  | .ok b1 =>
    let off := b1.offset
    let offset' := b1.offset + fill.length
    -- `b.buf[off:int(b.offset)]`
    if offset' ≤ b1.curSz then .ok ({ b1 with offset := offset', data := b1.data ++ fill }, off)
    else .error .bounds

/-- `AllocateOffset(n)`, the caller storing `fill` at the returned offset. -/
def allocateOffset (b : Buf) (fill : Bytes) : Except Fault (Buf × Nat) :=
  match grow b fill.length with
  | .error f => .error f
  | .ok b1 =>
    let offset' := b1.offset + fill.length
    if offset' ≤ b1.curSz then
      .ok ({ b1 with offset := offset', data := b1.data ++ fill },
           (allocOffsetResult (w offset') (w fill.length)).toNat)
    else .error .bounds

/-- `Write(p)` -/
def write (b : Buf) (p : Bytes) : Except Fault (Buf × Nat) :=
  match grow b p.length with
  | .error f => .error f
  | .ok b1 =>
    -- `assert(n == copy(b.buf[b.offset:], p))`
    if b1.offset + p.length ≤ b1.curSz then
      .ok ({ b1 with offset := b1.offset + p.length, data := b1.data ++ p }, p.length)
    else .error .assertFail

/-- `writeLen(sz)` -/
def writeLen (b : Buf) (sz : Nat) : Except Fault Buf :=
  match lenPrefix sz with
  | none => .error .bounds
  | some pre =>
    match allocate b pre with
    | .error f => .error f
    | .ok (b1, _) => .ok b1

/-- `SliceAllocate(sz)` with the caller storing `fill` (`fill.length = sz`) in the result. -/
def sliceAllocate (b : Buf) (fill : Bytes) : Except Fault (Buf × Nat) :=
  match grow b (sliceAllocGrow (w fill.length)).toNat with
  | .error f => .error f
  | .ok b1 =>
    match writeLen b1 fill.length with
    | .error f => .error f
    | .ok b2 => allocate b2 fill

/-- `WriteSlice(slice)` -/
def writeSlice (b : Buf) (p : Bytes) : Except Fault Buf :=
  match sliceAllocate b p with
  | .error f => .error f
  | .ok (b1, _) => .ok b1

/-- `Reset()` -/
def reset (b : Buf) : Buf := { b with offset := b.padding, data := b.data.take b.padding }

/-! ## Operations as a step function -/

inductive Op
  | write (p : Bytes)
  | writeSlice (p : Bytes)
  | sliceAllocate (fill : Bytes)
  | allocate (fill : Bytes)
  | allocateOffset (fill : Bytes)
  | reset
deriving DecidableEq, Repr

inductive Out
  | unit
  | n (k : Nat)          -- `Write`'s count
  | off (k : Nat)        -- offset of the region handed out
  | fault (f : Fault)
deriving DecidableEq, Repr

def Out.isFault : Out → Bool
  | .fault _ => true
  | _ => false

/-- One API call.  On a fault the buffer is returned unchanged (for the only fault
reachable on a well-formed buffer, the max-size panic, that is what the code does: the
check is the first thing the first `Grow` does; `RV.C11.c11_maxsz`). -/
def step (b : Buf) : Op → Buf × Out
  | .write p => match write b p with
    | .ok (b1, k) => (b1, .n k)
    | .error f => (b, .fault f)
  | .writeSlice p => match writeSlice b p with
    | .ok b1 => (b1, .unit)
    | .error f => (b, .fault f)
  | .sliceAllocate p => match sliceAllocate b p with
    | .ok (b1, k) => (b1, .off k)
    | .error f => (b, .fault f)
  | .allocate p => match allocate b p with
    | .ok (b1, k) => (b1, .off k)
    | .error f => (b, .fault f)
  | .allocateOffset p => match allocateOffset b p with
    | .ok (b1, k) => (b1, .off k)
    | .error f => (b, .fault f)
  | .reset => (reset b, .unit)

/-- Run a history; returns the final buffer and the outputs. -/
def run (b : Buf) : List Op → Buf × List Out
  | [] => (b, [])
  | op :: rest =>
    let r := step b op
    let rr := run r.1 rest
    (rr.1, r.2 :: rr.2)

/-! ## Reading slices back -/

/-- `k ≤ l.length`, computed in `O(k)` (a bounds check must not walk the whole buffer) -/
def lenGe : Bytes → Nat → Bool
  | _, 0 => true
  | [], _ + 1 => false
  | _ :: t, k + 1 => lenGe t k

/-- `Slice(offset)`: the slice and `next` (`none` = -1).  Everything is read from
`tail = b.buf[offset:]` (one traversal of the list): the 8-byte prefix, and
`b.buf[start:next] = tail[start-offset : next-offset]`. -/
def slice (b : Buf) (off : Nat) : Except Fault (Bytes × Option Nat) :=
  if sliceAtEnd (w off) (w b.offset) then .ok ([], none)
  else
    let tail := b.data.drop off
    if !lenGe tail 8 then .error .bounds        -- the prefix is not inside the written data
    else
      let sz := getU64 sliceBigEndian tail
      let start := sliceStart (w off)
      let next := sliceNext start sz
      -- `b.buf[start:next]`
      if off ≤ start.toNat ∧ start.toNat ≤ next.toNat ∧ lenGe tail (next.toNat - off) then
        let res := (tail.drop (start.toNat - off)).take (next.toNat - start.toNat)
        if sliceIsLast next (w b.offset) then .ok (res, none) else .ok (res, some next.toNat)
      else .error .bounds

/-- The loop shared by `SliceIterate`, `SliceOffsets`, `sortSmall`:
`for cond(next) { visit next; _, next = b.Slice(next) }`, yielding (offset, slice). -/
def walk (cond : BitVec 64 → Bool) (b : Buf) : Nat → Option Nat → Except Fault (List (Nat × Bytes))
  | 0, _ => .error .fuel
  | fuel + 1, next =>
    if !cond (nextWord next) then .ok []
    else match next with
      | none => .error .bounds                    -- `Slice(-1)`
      | some off =>
        match slice b off with
        | .error f => .error f
        | .ok (s, next') =>
          match walk cond b fuel next' with
          | .error f => .error f
          | .ok rest => .ok ((off, s) :: rest)

/-- `SliceIterate(f)` with an `f` that never fails: the slices handed to `f`. -/
def sliceIterate (b : Buf) : Except Fault (List Bytes) :=
  if isEmpty (w b.offset) (w b.padding) then .ok []
  else match walk iterCond b (b.offset + 2) (some b.padding) with
    | .error f => .error f
    | .ok items => .ok ((items.map (·.2)).filter (fun s => s.length != 0))

/-- `SliceOffsets()` -/
def sliceOffsets (b : Buf) : Except Fault (List Nat) :=
  match walk offsetsCond b (b.offset + 2) (some b.padding) with
  | .error f => .error f
  | .ok items => .ok (items.map (·.1))

/-! ## Sorting -/

/-- `rawSlice(buf)`: `buf[:8+int(sz)]` (restricted to the written data). -/
def rawSlice (buf : Bytes) : Except Fault Bytes :=
  if !lenGe buf 8 then .error .bounds
  else
    let n := (rawSliceLen (getU64 rawSliceBigEndian buf)).toNat
    if lenGe buf n then .ok (buf.take n) else .error .bounds

/-- `d[a:b]` -/
def region (d : Bytes) (a b : Nat) : Bytes := (d.drop a).take (b - a)

/-- `copy(d[pos:], x)` when `x` fits -/
def overwrite (d : Bytes) (pos : Nat) (x : Bytes) : Bytes :=
  d.take pos ++ x ++ d.drop (pos + x.length)

/-- The element type `sort.Slice` permutes in `sortSmall`: an offset, shown with the
slice it points to (which is what the comparison closure looks at). -/
abbrev Item := Nat × Bytes

/-- `sort.Slice` as a parameter. -/
abbrev SortFn := (Item → Item → Bool) → List Item → List Item

def insertSorted (lt : Item → Item → Bool) (x : Item) : List Item → List Item
  | [] => [x]
  | y :: ys => if lt x y then x :: y :: ys else y :: insertSorted lt x ys

/-- a concrete `SortFn` (used by the trace validator) -/
def insertionSort : SortFn := fun lt l => l.foldr (insertSorted lt) []

/-- offsets recorded by the first loop of `SortSliceBetween`: every slice whose running
count satisfies `count%1024 == 0`. -/
def chunkOffsets (b : Buf) (end_ : Nat) : Nat → Option Nat → Nat → Except Fault (List Nat)
  | 0, _, _ => .error .fuel
  | fuel + 1, next, count =>
    if !sortWalkCond (nextWord next) (w end_) then .ok []
    else match next with
      | none => .error .bounds
      | some off =>
        match slice b off with
        | .error f => .error f
        | .ok (_, next') =>
          match chunkOffsets b end_ fuel next' (count + 1) with
          | .error f => .error f
          | .ok rest => .ok (if sortChunkStart (w count) then off :: rest else rest)

/-- the bytes `tmp` receives in `sortSmall`: `rawSlice(s.b.buf[off:])` for each offset -/
def rawSlices (d : Bytes) : List Nat → Except Fault Bytes
  | [] => .ok []
  | off :: rest =>
    match rawSlice (d.drop off) with
    | .error f => .error f
    | .ok r =>
      match rawSlices d rest with
      | .error f => .error f
      | .ok rs => .ok (r ++ rs)

/-- `sortHelper.sortSmall(start, end)` -/
def sortSmall (sortFn : SortFn) (less : Bytes → Bytes → Bool) (b : Buf) (start end_ : Nat) : Except Fault Buf :=
  match walk (fun nx => sortSmallWalkCond nx (w end_)) b (b.offset + 2) (some start) with
  | .error f => .error f
  | .ok items =>
    let sorted := sortFn (fun x y => less x.2 y.2) items
    match rawSlices b.data (sorted.map (·.1)) with
    | .error f => .error f
    | .ok tmp =>
      -- `assert(end-start == copy(s.b.buf[start:end], s.tmp.Bytes()))`
      if start ≤ end_ ∧ end_ ≤ b.data.length then
        let n := min (end_ - start) tmp.length
        if sortSmallLen (w end_) (w start) == w n then .ok { b with data := overwrite b.data start (tmp.take n) }
        else .error .assertFail
      else .error .bounds

/-- The loop of `sortHelper.merge`, *in place* as the code runs it.  `d` is the whole
buffer, `left` the copy of the left run in `tmp`, the right run is the slice header
`d[rpos:end_]` (read from the current buffer on every iteration), `start` the write
cursor.  `copy` has memmove semantics: the source is read before the destination is
written.  (That no write reaches the unread part of the right run is a theorem:
`RV.Buffer.mergeInPlace_eq`.) -/
def mergeInPlace (less : Bytes → Bytes → Bool) (end_ : Nat) : Nat → Bytes → Nat → Bytes → Nat → Except Fault Bytes
  | 0, _, _, _, _ => .error .fuel
  | fuel + 1, d, start, left, rpos =>
    if !mergeLoopCond (w start) (w end_) then .ok d
    else
      let right := region d rpos end_
      if left.length == 0 then
        -- `assert(len(right) == copy(s.b.buf[start:end], right))`
        if right.length ≤ end_ - start then .ok (overwrite d start right) else .error .assertFail
      else if right.length == 0 then
        if left.length ≤ end_ - start then .ok (overwrite d start left) else .error .assertFail
      else
        match rawSlice left, rawSlice right with
        | .ok ls, .ok rs =>
          if less (ls.drop 8) (rs.drop 8) then
            -- copyLeft
            mergeInPlace less end_ fuel (overwrite d start ls) (start + ls.length) (left.drop ls.length) rpos
          else
            -- copyRight
            mergeInPlace less end_ fuel (overwrite d start rs) (start + rs.length) left (rpos + rs.length)
        | .error f, _ => .error f
        | _, .error f => .error f

/-- `sortHelper.merge(left, right, start, end)` where `left = d[loff:moff]` and
`right = d[moff:hoff]` (slice headers into the buffer), `start = loff`, `end = hoff`. -/
def merge (less : Bytes → Bytes → Bool) (d : Bytes) (loff moff hoff : Nat) : Except Fault Bytes :=
  let left := region d loff moff
  let right := region d moff hoff
  if left.length == 0 || right.length == 0 then .ok d
  else
    -- `s.tmp.Write(left); left = s.tmp.Bytes()`
    mergeInPlace less hoff (left.length + right.length + 1) d loff left moff

/-- `sortHelper.sort(lo, hi)` on the buffer contents `d`; returns the new contents. -/
def sortRec (less : Bytes → Bytes → Bool) (offsets : List Nat) : Nat → Bytes → Nat → Nat → Except Fault Bytes
  | 0, _, _, _ => .error .fuel
  | fuel + 1, d, lo, hi =>
    if !sortAssert (w lo) (w hi) then .error .assertFail
    else
      let mid := (sortMid (w lo) (w hi)).toNat
      match offsets[lo]?, offsets[hi]? with
      | some loff, some hoff =>
        if sortLeaf (w lo) (w mid) then .ok d
        else
          match sortRec less offsets fuel d lo mid with
          | .error f => .error f
          | .ok d1 =>
            match sortRec less offsets fuel d1 mid hi with
            | .error f => .error f
            | .ok d2 =>
              match offsets[mid]? with
              | none => .error .bounds
              | some moff =>
                -- `left`/`right` are slice headers `b.buf[loff:moff]`, `b.buf[moff:hoff]`
                if loff ≤ moff ∧ moff ≤ hoff ∧ hoff ≤ d2.length then merge less d2 loff moff hoff
                else .error .bounds
      | _, _ => .error .bounds

/-- `for _, off := range offsets[1:] { s.sortSmall(left, off); left = off }` -/
def sortSmallAll (sortFn : SortFn) (less : Bytes → Bytes → Bool) : Buf → List Nat → Except Fault Buf
  | b, left :: off :: rest =>
    match sortSmall sortFn less b left off with
    | .error f => .error f
    | .ok b1 => sortSmallAll sortFn less b1 (off :: rest)
  | b, _ => .ok b

/-- `SortSliceBetween(start, end, less)` -/
def sortSliceBetween (sortFn : SortFn) (less : Bytes → Bytes → Bool) (b : Buf) (start end_ : Nat) :
    Except Fault Buf :=
  if sortEmptyRange (w start) (w end_) then .ok b
  else if sortStartZero (w start) then .error .startZero
  else
    match chunkOffsets b end_ (b.offset + 2) (some start) 0 with
    | .error f => .error f
    | .ok offs =>
      match offs.getLast? with
      | none => .error .assertFail              -- `assert(len(offsets) > 0)`
      | some last =>
        let offsets := if last != end_ then offs ++ [end_] else offs
        match sortSmallAll sortFn less b offsets with
        | .error f => .error f
        | .ok b1 =>
          match sortRec less offsets (offsets.length + 1) b1.data 0 (offsets.length - 1) with
          | .error f => .error f
          | .ok d => .ok { b1 with data := d }

/-- `SortSlice(less)` -/
def sortSlice (sortFn : SortFn) (less : Bytes → Bytes → Bool) (b : Buf) : Except Fault Buf :=
  sortSliceBetween sortFn less b b.padding b.offset

/-- 64-bit FNV-1a, used by the harness to abbreviate large byte dumps in traces. -/
def fnv1a (bs : Bytes) : BitVec 64 :=
  bs.foldl (fun h b => (h ^^^ b.setWidth 64) * 1099511628211#64) 14695981039346656037#64

end RV.Buffer
