import RV.Model.Tree
/-!
# The persistent tree: page table, `encode` and `reinit` (C16)

A file is a table `page id ↦ Page` plus its size.  `encode` is what a cleanly
closed tree leaves in the file *as far as `reinit` can see it*; `reinit` mirrors
`Tree.reinit` (btree.go): the frontier scan bounded by the mapping size, the walk
from page 1, the `tailPages` computation of the free-list head and the recount of
the statistics.  Only the **head** of the free list is reconstructed by the code;
the order of the list lives in word 0 of the free pages, so the model's list is
read back by following those links.

Assumed (DESIGN §7): `msync`+`munmap`+`mmap` of the same file returns the same
bytes; bytes of the file that were never written read as zero.
-/
namespace RV.Tree
open Gen.Tree

/-- What one page of the file holds, as far as `reinit` looks at it. -/
inductive Page where
  /-- never handed out: all words are zero, in particular `pageID() == 0` -/
  | unused
  /-- released by `DeleteBelow`: word 0 holds the next free page, the stale page id is kept -/
  | free (next : Nat)
  /-- a live node; the entries of an inner node hold the child page ids -/
  | node (leaf : Bool) (ents : List (Key × Val))
deriving Repr, DecidableEq, Inhabited

/-- `n.pageID()` of page `q` -/
def Page.pageId (pg : Page) (q : Nat) : BitVec 64 :=
  match pg with
  | .unused => 0#64
  | _ => w q

/-- `n.uint64(0)` -/
def Page.word0 : Page → BitVec 64
  | .unused => 0#64
  | .free nx => w nx
  | .node _ es => keyAt es 0

structure File where
  page : Nat → Page
  size : Nat              -- file size = size of the mapping

/-! ## encode -/

mutual
/-- the image of the reachable node with page id `q` -/
def findNode : Node → Nat → Option Page
  | .null, _ => none
  | .leaf p es, q => if p = q then some (.node true es) else none
  | .inner p es, q => if p = q then some (.node false (entWords es)) else findEnts es q
def findEnts : List (Key × Node) → Nat → Option Page
  | [], _ => none
  | (_, c) :: rest, q =>
    match findNode c q with
    | some pg => some pg
    | none => findEnts rest q
end

/-- the link stored in free page `q` (0 ends the list) -/
def freeNext : List Nat → Nat → Option Nat
  | [], _ => none
  | p :: rest, q => if p = q then some (match rest with | [] => 0 | r :: _ => r) else freeNext rest q

/-- The page table of a tree.  Pages below the frontier that are neither reachable nor on
the free list (there are none when `pid_inv` holds) are not represented. -/
def encodePage (t : Tree) (q : Nat) : Page :=
  match findNode t.root q with
  | some pg => pg
  | none =>
    match freeNext t.a.free q with
    | some nx => .free nx
    | none => .unused

def encode (t : Tree) : File := { page := encodePage t, size := t.a.curSz }

/-! ## reinit -/

/-- `for (int(t.nextPage)+1)*pageSize <= len(t.data) { if n.pageID() == 0 { break }; t.nextPage++ }` -/
def scanFrontier (cfg : Cfg) (f : Nat → Page) (dataLen : Nat) : Nat → Nat → Nat
  | 0, n => n
  | fuel + 1, n =>
    if pageFits (w n) (w cfg.pageSize) dataLen then
      if reinitUnused ((f n).pageId n) then n else scanFrontier cfg f dataLen fuel (n + 1)
    else n

/-- children of an inner page, as `Tree.iterate` reads them -/
def decodeEnts (dec : Nat → Option Node) : List (Key × Val) → Option (List (Key × Node))
  | [] => some []
  | (k, v) :: rest =>
    if iterStop k then none            -- a zero key inside numKeys: not representable
    else if v == 0#64 then none        -- assert(childID > 0)
    else
      match dec v.toNat, decodeEnts dec rest with
      | some c, some r => some ((k, c) :: r)
      | _, _ => none

/-- the tree `t.Iterate` walks from page `q` (fuel bounds the depth) -/
def decode (f : Nat → Page) : Nat → Nat → Option Node
  | 0, _ => none
  | fuel + 1, q =>
    match f q with
    | .node true es => some (.leaf q es)
    | .node false es => (decodeEnts (decode f fuel) es).map (.inner q)
    | _ => none                       -- a free / unused page read as a node: not modelled

mutual
/-- `t.stats.NumLeafKeys += n.numKeys()` over the leaves -/
def countLeafKeys : Node → Nat
  | .null => 0
  | .leaf p es => (Node.leaf p es).numKeys
  | .inner _ es => countLeafKeysEnts es
def countLeafKeysEnts : List (Key × Node) → Nat
  | [] => 0
  | (_, c) :: rest => countLeafKeys c + countLeafKeysEnts rest
end

/-- follow the links of the free list from `head` -/
def chase (f : Nat → Page) : Nat → Nat → List Nat
  | 0, _ => []
  | fuel + 1, p => if p = 0 then [] else p :: chase f fuel (f p).word0.toNat

/-- `Tree.reinit()`; `none` = the code panics (index out of range) or reads something the
model does not represent. -/
def reinit (cfg : Cfg) (file : File) : Option Tree :=
  let f := file.page
  let dataLen := file.size - 8
  let nextPage := scanFrontier cfg f dataLen (dataLen + 1) 1
  let maxPageId := (reinitMaxPage (w nextPage)).toNat
  match decode f (nextPage + 1) 1 with
  | none => none
  | some root =>
    let reach := (walkNode root).map (·.pid)
    -- tailPages[n.pageID()-1] = true
    if reach.any (fun p => p = 0 || p > maxPageId) then none else
    let pages := (List.range maxPageId).map (· + 1)
    let nonTail := pages.filter (fun p => !reach.contains p)
    let pointed := (nonTail.map (fun p => (f p).word0)).filter reinitHasNext
    if pointed.any (fun p => p.toNat > maxPageId) then none else
    let heads := nonTail.filter (fun p => !pointed.contains (w p))
    let head := heads.headD 0
    some { root := root,
           a := { nextPage := nextPage, free := chase f (maxPageId + 1) head,
                  leafKeys := countLeafKeys root, pagesFree := nonTail.length,
                  dataLen := dataLen, curSz := file.size } }

/-- `NewTreePersistent(path)` on an existing file (`isInitialized := root.pageID() != 0`). -/
def openFile (cfg : Cfg) (file : File) : Option Tree :=
  if isInitialized ((file.page 1).pageId 1) then reinit cfg file
  else some (initRoot cfg { nextPage := 1, free := [], leafKeys := 0, pagesFree := 0,
                            dataLen := file.size - 8, curSz := file.size })

end RV.Tree
