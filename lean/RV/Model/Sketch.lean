import RV.Gen.Sketch
/-!
Count-min sketch model (sketch.go).  Every arithmetic step is a generated
kernel from `RV.Gen.Sketch`; only the loop over the rows is written by hand
(`for i := range s.rows` becomes `List.mapIdx`).
-/
namespace RV.Sketch
open Gen.Sketch

abbrev Row := Array (BitVec 8)

structure Sketch where
  rows : List Row
  seed : Array (BitVec 64)
  mask : BitVec 64
deriving Repr

/-- `newCmSketch(numCounters)` with the seeds chosen by the caller (`rand` in Go). -/
def new (numCounters : BitVec 64) (seed : Array (BitVec 64)) : Sketch :=
  let n := next2Power numCounters
  { rows := List.replicate cmDepth.toNat (Array.replicate (rowLen n).toNat 0#8)
    seed := seed
    mask := sketchMask n }

def increment (s : Sketch) (h : BitVec 64) : Sketch :=
  { s with rows := s.rows.mapIdx fun i r =>
      rowIncrement r (incrIndex h s.seed (BitVec.ofNat 64 i) s.mask) }

/-- The per-row reads of `Estimate`. -/
def reads (s : Sketch) (h : BitVec 64) : List (BitVec 8) :=
  s.rows.mapIdx fun i r => rowGet r (estIndex h s.seed (BitVec.ofNat 64 i) s.mask)

def minOf (vals : List (BitVec 8)) : BitVec 8 :=
  vals.foldl (fun m v => if estLess v m then v else m) estInit

def estimate (s : Sketch) (h : BitVec 64) : BitVec 8 := minOf (reads s h)

def reset (s : Sketch) : Sketch := { s with rows := s.rows.map rowReset }
def clear (s : Sketch) : Sketch := { s with rows := s.rows.map rowClear }

end RV.Sketch
