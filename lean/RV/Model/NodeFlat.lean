import RV.Gen.Node
import RV.Model.Tree
/-!
# Flat-memory view of one tree page (`type node []uint64`, z/btree.go), C10 / C16

`RV/Model/Tree.lean` models a node as an entry list; the words of the page — in particular the
words behind `numKeys`, which the code keeps zeroed and `Tree.set` relies on (`n.key(idx) == 0`)
— are not in that model.  Here they are.  The *operations* on a page are not written by hand:
they are the functions `Gen.Node.*` that go2lean generates from the `node` methods
(`go2lean/specs_node.go`, kind `KFuncM`), over `Array (BitVec 64)`, in the `Option` monad
(`none` = index out of range, failed `assert`, `panic`).

This file only says how a page is *read* as a node of the entry-list model:

* layout (one page = `2*(maxKeys+1)` words): key `i` at word `2i`, value `i` at word `2i+1`
  for `i < maxKeys`; the page id at word `2*maxKeys`, the meta word at `2*maxKeys+1`
  (low 32 bits: number of keys; top byte: kind bits);
* `ents`: the first `numKeys` (key, value) pairs;
* `PageOk`: well-formedness — size, `numKeys ≤ maxKeys`, keys strictly increasing and non-zero,
  every key/value word from `numKeys` up to `maxKeys` is zero.

The refinement theorems (`RV/Props/TieNode.lean`) relate `Gen.Node.f p …` on `PageOk` pages to the
entry-list functions of `RV.Tree` (`search`, `leafGet`, `nodeSet`, `nodeCompact`, `maxKey`) on
`ents p`.  `PageOk` is decidable and the trace validator (`Drive/Node.lean`) evaluates it on the
pages of the real implementation.
-/
namespace RV.NodeFlat
open RV.Tree (Key Val)

abbrev Page := Array (BitVec 64)

/-- `n.key(i)` as a word of the page -/
def keyW (p : Page) (i : Nat) : Key := p[2 * i]!
/-- `n.val(i)` as a word of the page -/
def valW (p : Page) (i : Nat) : Val := p[2 * i + 1]!
/-- the meta word `n[valOffset(maxKeys)]` -/
def metaW (mk : Nat) (p : Page) : BitVec 64 := p[2 * mk + 1]!
/-- the page id word `n[keyOffset(maxKeys)]` -/
def pidW (mk : Nat) (p : Page) : BitVec 64 := p[2 * mk]!

/-- number of keys: the low 32 bits of the meta word -/
def nkeys (mk : Nat) (p : Page) : Nat := (metaW mk p).toNat % 2 ^ 32

/-- the kind bits: the top byte of the meta word -/
def kindBits (mk : Nat) (p : Page) : Nat := (metaW mk p).toNat / 2 ^ 56

/-- leaf bit: bit 63 of the meta word -/
def leafBit (mk : Nat) (p : Page) : Bool := decide (2 ^ 63 ≤ (metaW mk p).toNat)

/-- the first `n` (key, value) pairs of the page -/
def entsUpTo (p : Page) (n : Nat) : List (Key × Val) :=
  (List.range n).map fun i => (keyW p i, valW p i)

/-- the entries of the node stored in the page -/
def ents (mk : Nat) (p : Page) : List (Key × Val) := entsUpTo p (nkeys mk p)

/-- Well-formed page of a tree with `maxKeys = mk`. -/
def PageOk (mk : Nat) (p : Page) : Prop :=
  p.size = 2 * (mk + 1) ∧
  nkeys mk p ≤ mk ∧
  (∀ i, i < nkeys mk p → keyW p i ≠ 0#64) ∧
  (∀ i, i < nkeys mk p → i + 1 < nkeys mk p → keyW p i < keyW p (i + 1)) ∧
  (∀ i, i < mk → nkeys mk p ≤ i → keyW p i = 0#64 ∧ valW p i = 0#64)

instance (mk : Nat) (p : Page) : Decidable (PageOk mk p) := by
  unfold PageOk; infer_instance

/-- a freshly zeroed page (what `newNode` starts from before `setBit` / the page id) -/
def zeroPage (mk : Nat) : Page := Array.replicate (2 * (mk + 1)) 0#64

end RV.NodeFlat
