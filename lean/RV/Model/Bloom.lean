import RV.Gen.Bloom
/-!
Bloom filter model (z/bbloom.go).

The bitset `[]uint64` is modelled by its **byte view in memory order**
(`Array (BitVec 8)`, 8 bytes per word): `Set`/`IsSet` address the byte
`&bitset[idx>>6] + (idx%64)>>3` through `unsafe.Pointer`, `JSONMarshal` /
`newWithBoolset` copy the same bytes one by one.  The byte address used here is
`word*8 + byteInWord`, both factors being generated kernels.

Assumption (little-endian target, e.g. amd64/arm64): byte `j` of word `w`
holds bits `8j .. 8j+7` of the `uint64`.  It is needed only for the *word*
reading of the bitset (`words`, `RV.Bloom.word_bit` in the proofs); `Clear`, which
writes whole words `bl.bitset[i] = 0`, zeroes all 8 bytes on any byte order.

Not modelled: the floating-point sizing `calcSizeByWrongPositives`
(`math.Log/Pow/Ceil`) and `encoding/json`; the harness observes the resulting
`(entries, locs)` and the exported bytes and hands them to the model.
-/
namespace RV.Bloom
open Gen.Bloom

structure Bloom where
  bytes   : Array (BitVec 8)
  elemNum : BitVec 64
  sizeExp : BitVec 64
  size    : BitVec 64
  setLocs : BitVec 64
  shift   : BitVec 64
deriving Repr, BEq

/-- `for i := uint64(0); cond(i); i++ { s = body(s, i) }`.  `fuel` bounds the number of
condition evaluations; the proofs show the loops below leave through the generated
condition, never through the fuel. -/
def forLoop {σ : Type} (cond : BitVec 64 → Bool) (body : σ → BitVec 64 → σ) : Nat → BitVec 64 → σ → σ
  | 0, _, s => s
  | fuel + 1, i, s => if cond i then forLoop cond body fuel (i + 1#64) (body s i) else s

/-- `for i := uint64(0); cond(i); i++ { if !p(i) { return false } }; return true`. -/
def allLoop (cond : BitVec 64 → Bool) (p : BitVec 64 → Bool) : Nat → BitVec 64 → Bool
  | 0, _ => true
  | fuel + 1, i => if cond i then (if !p i then false else allLoop cond p fuel (i + 1#64)) else true

/-- `NewBloomFilter(entries, locs)` after the parameters have been converted to `uint64`
(second branch of `NewBloomFilter`, or the result of `calcSizeByWrongPositives`). -/
def new (entries locs : BitVec 64) : Bloom :=
  let (size, exponent) := getSize entries
  { bytes := Array.replicate ((numWords size).toNat * 8) 0#8
    elemNum := 0#64
    sizeExp := exponent
    size := newSizeMask size
    setLocs := locs
    shift := newShift exponent }

/-- byte address of bit `idx` as computed by `Set` -/
def setAddr (idx : BitVec 64) : Nat := (setWord idx).toNat * 8 + (setByte idx).toNat
/-- byte address of bit `idx` as computed by `IsSet` -/
def isSetAddr (idx : BitVec 64) : Nat := (isSetWord idx).toNat * 8 + (isSetByte idx).toNat

/-- `Set(idx)`: `*(*uint8)(ptr) |= mask[idx%8]` -/
def setBit (bl : Bloom) (idx : BitVec 64) : Bloom :=
  { bl with bytes := bl.bytes.set! (setAddr idx) (bl.bytes[setAddr idx]! ||| setMask maskTable idx) }

/-- `IsSet(idx)` -/
def isSet (bl : Bloom) (idx : BitVec 64) : Bool :=
  isSetResult (isSetBit bl.bytes[isSetAddr idx]! idx)

/-- `Add(hash)` -/
def add (bl : Bloom) (hash : BitVec 64) : Bloom :=
  let h := addH hash bl.shift
  let l := addL hash bl.shift
  forLoop (fun i => addLoopCond i bl.setLocs)
    (fun s i => { setBit s (addPos h i l bl.size) with elemNum := s.elemNum + 1#64 })
    (bl.setLocs.toNat + 1) 0#64 bl

/-- `Has(hash)` -/
def has (bl : Bloom) (hash : BitVec 64) : Bool :=
  let h := hasH hash bl.shift
  let l := hasL hash bl.shift
  allLoop (fun i => hasLoopCond i bl.setLocs) (fun i => isSet bl (hasPos h i l bl.size))
    (bl.setLocs.toNat + 1) 0#64

/-- `AddIfNotHas(hash)`: the new filter and the returned flag -/
def addIfNotHas (bl : Bloom) (hash : BitVec 64) : Bloom × Bool :=
  if has bl hash then (bl, false) else (add bl hash, true)

/-- `Clear()` (`ElemNum` is left alone by the code) -/
def clear (bl : Bloom) : Bloom :=
  { bl with bytes := Array.replicate bl.bytes.size 0#8 }

/-- the little-endian word view of the bitset -/
def word (bytes : Array (BitVec 8)) (w : Nat) : BitVec 64 :=
  (List.range 8).foldl (fun acc j => acc ||| ((bytes[w * 8 + j]!).zeroExtend 64 <<< (8 * j))) 0#64

def words (bl : Bloom) : Array (BitVec 64) :=
  Array.ofFn (n := bl.bytes.size / 8) fun w => word bl.bytes w.val

/-- `JSONMarshal`: the exported `FilterSet` (the `SetLocs` field is `bl.setLocs`) -/
def exportBytes (bl : Bloom) : Array (BitVec 8) :=
  ((List.range (exportLen (words bl)).toNat).map fun i => bl.bytes[i]!).toArray

/-- `newWithBoolset(bs, locs)` -/
def importBytes (bs : Array (BitVec 8)) (locs : BitVec 64) : Bloom :=
  let bl := new (importEntries bs) locs
  { bl with bytes := (List.range bs.size).foldl (fun a i => a.set! i bs[i]!) bl.bytes }

end RV.Bloom
