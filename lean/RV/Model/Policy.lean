import RV.Gen.Policy
/-!
Admission / eviction policy model (policy.go: `defaultPolicy.Add/Del/Update/Cap/Cost/Clear/
UpdateMaxCost`, `sampledLFU.roomLeft/fillSample/add/del/updateIfHas/clear`) as a
**sequential** object: every method runs under the policy mutex.

* The frequency estimator is an arbitrary function `est : Hash → Int`, constant during one
  `Add` (TinyLFU is a separate component).
* Go's map enumeration order is a *choice*: `Pol.add` receives, for every round of the
  eviction loop, the sequence `enum` of `(key, cost)` pairs the `range p.keyCosts` of that
  round's `fillSample` produced (`enums`, one list per round).  `fillSample` consumes a
  prefix of it exactly as the Go loop does (append, then test `len(in) >= lfuSample`).
  Nothing is de-duplicated: the sample may hold a key twice, and stale copies of an evicted
  key (a later round may pick such a copy: a *phantom* victim whose `del` is a no-op).
* Costs are `Int`s that stand for Go `int64` words.  Every comparison / arithmetic
  expression is the **generated kernel** (`Gen.Policy.*`, `BitVec 64`) applied to the
  two's-complement words of the operands (`w64`), and read back with `toInt`; the statements
  `p.used += x` / `p.used -= x` are the hand-written `plus64` / `minus64` (wrapping, like Go).
  So the model is exact for all `int64` inputs, including overflowing ones; the theorems
  assume an explicit no-overflow hypothesis under which all of this is plain `Int` arithmetic
  (`RV/Proofs/PolicyBridge.lean`).
* The loop of `Add` is made total by structural recursion on `enums`: if the list runs out
  while `room < 0` the result carries `Status.stuck` (the driver rejects such a trace; the
  real loop would go on).  A Go panic (`sample[len(sample)-1]` on an empty sample) is
  `Status.panic`.

Core Lean only (imported by the driver and by the Cache model).
-/
namespace RV.Policy
open Gen.Policy

/-- Key hashes are Go `uint64`s. -/
abbrev Hash := BitVec 64
/-- a `(key, cost)` pair (`policyPair`, or an entry of `keyCosts`). -/
abbrev KC := Hash × Int

/-! ### int64 words -/

/-- the `int64` word of an integer (two's complement, wraps) -/
def w64 (x : Int) : BitVec 64 := BitVec.ofInt 64 x

/-- representable as a Go `int64` -/
def I64 (x : Int) : Prop := -2 ^ 63 ≤ x ∧ x < 2 ^ 63

instance (x : Int) : Decidable (I64 x) := by unfold I64; infer_instance

/-- `a += b` on an `int64` variable (hand-modelled statement; wraps like Go). -/
def plus64 (a b : Int) : Int := (w64 a + w64 b).toInt
/-- `a -= b` on an `int64` variable (hand-modelled statement; wraps like Go). -/
def minus64 (a b : Int) : Int := (w64 a - w64 b).toInt

/-! ### the generated decision points and expressions, over `Int` operands -/

/-- `cost > p.evict.getMaxCost()` -/
def tooBig (cost maxCost : Int) : Bool := addTooBig (w64 cost) (w64 maxCost)
/-- `p.getMaxCost() - (p.used + cost)` -/
def roomLeft (maxCost used cost : Int) : Int :=
  (Gen.Policy.roomLeft (w64 maxCost) (w64 used) (w64 cost)).toInt
/-- `room >= 0` -/
def roomOk (room : Int) : Bool := addRoomOk (w64 room)
/-- `room < 0` (the loop condition) -/
def needRoom (room : Int) : Bool := addNeedRoom (w64 room)
/-- `int64(math.MaxInt64)`, the initial `minHits` -/
def minHitsInit : Int := addMinHitsInit.toInt
/-- `hits < minHits` -/
def hitsLess (hits minHits : Int) : Bool := addHitsLess (w64 hits) (w64 minHits)
/-- `incHits < minHits` -/
def incLess (incHits minHits : Int) : Bool := addIncLess (w64 incHits) (w64 minHits)
/-- `len(in) >= lfuSample` at the top of `fillSample` -/
def fullBefore (len : Nat) : Bool := fillFullBefore (BitVec.ofNat 64 len)
/-- `len(in) >= lfuSample` after an append in `fillSample` -/
def fullAfter (len : Nat) : Bool := fillFullAfter (BitVec.ofNat 64 len)
/-- `p.evict.getMaxCost() - p.evict.used` -/
def capOf (maxCost used : Int) : Int := (capExpr (w64 maxCost) (w64 used)).toInt
/-- the `cost - prev` of `p.used += cost - prev` -/
def usedDelta (cost prev : Int) : Int := (updUsedDelta (w64 cost) (w64 prev)).toInt

/-- The `uint64` delta `updateIfHas` adds to the `costAdd` metric. -/
def updMetricDelta (prev cost : Int) : BitVec 64 :=
  if updLower (w64 prev) (w64 cost) then updMetricDown (updDiffDown (w64 prev) (w64 cost))
  else if updRaise (w64 cost) (w64 prev) then updMetricUp (updDiffUp (w64 cost) (w64 prev))
  else 0#64

/-! ### `keyCosts`: an association list without duplicate keys -/

def keys (kcs : List KC) : List Hash := kcs.map (·.1)
def costSum : List KC → Int
  | [] => 0
  | kc :: rest => kc.2 + costSum rest
/-- `keyCosts[k]` -/
def lookup : List KC → Hash → Option Int
  | [], _ => none
  | kc :: rest, k => if kc.1 = k then some kc.2 else lookup rest k
/-- `delete(keyCosts, k)` -/
def erase : List KC → Hash → List KC
  | [], _ => []
  | kc :: rest, k => if kc.1 = k then erase rest k else kc :: erase rest k
/-- `keyCosts[k] = c` -/
def insert (kcs : List KC) (k : Hash) (c : Int) : List KC := (k, c) :: erase kcs k

/-- The policy state (`sampledLFU`): `keyCosts`, `used`, `maxCost`. -/
structure Pol where
  keyCosts : List KC
  used     : Int
  maxCost  : Int
deriving Repr, DecidableEq

namespace Pol

/-- `newSampledLFU(maxCost)` -/
def empty (maxCost : Int) : Pol := { keyCosts := [], used := 0, maxCost := maxCost }

/-- `defaultPolicy.Cost`: the accounted cost, `-1` when absent. -/
def costOf (p : Pol) (k : Hash) : Int :=
  match lookup p.keyCosts k with
  | some c => c
  | none => -1

/-- `defaultPolicy.Has` -/
def has (p : Pol) (k : Hash) : Bool := (lookup p.keyCosts k).isSome

/-- `defaultPolicy.Cap` -/
def cap (p : Pol) : Int := capOf p.maxCost p.used

/-- `sampledLFU.del` / `defaultPolicy.Del` -/
def del (p : Pol) (k : Hash) : Pol :=
  match lookup p.keyCosts k with
  | none => p
  | some c => { p with used := minus64 p.used c, keyCosts := erase p.keyCosts k }

/-- `sampledLFU.add` (not exported by the policy; the tail of `Add`) -/
def evictAdd (p : Pol) (k : Hash) (c : Int) : Pol :=
  { p with keyCosts := insert p.keyCosts k c, used := plus64 p.used c }

/-- `sampledLFU.updateIfHas` -/
def updateIfHas (p : Pol) (k : Hash) (cost : Int) : Pol × Bool :=
  match lookup p.keyCosts k with
  | none => (p, false)
  | some prev =>
    ({ p with used := plus64 p.used (usedDelta cost prev), keyCosts := insert p.keyCosts k cost }, true)

/-- `defaultPolicy.Update` -/
def update (p : Pol) (k : Hash) (cost : Int) : Pol := (p.updateIfHas k cost).1

/-- `sampledLFU.clear` (`defaultPolicy.Clear` also clears the estimator, which is not part of `Pol`) -/
def clear (p : Pol) : Pol := { p with keyCosts := [], used := 0 }

/-- `defaultPolicy.UpdateMaxCost` -/
def setMaxCost (p : Pol) (m : Int) : Pol := { p with maxCost := m }

end Pol

/-! ### `fillSample` -/

/-- The `for key, cost := range p.keyCosts` loop of `fillSample` over the enumeration `enum`. -/
def fillGo (s : List KC) : List KC → List KC
  | [] => s
  | kc :: rest => if fullAfter (s ++ [kc]).length then s ++ [kc] else fillGo (s ++ [kc]) rest

/-- `sampledLFU.fillSample(in)` when the map enumerates `enum`. -/
def fillSample (s enum : List KC) : List KC :=
  if fullBefore s.length then s else fillGo s enum

/-! ### the minimum scan -/

/-- `minKey, minHits, minId, minCost` -/
structure MinSt where
  key  : Hash
  hits : Int
  id   : Nat
  cost : Int
deriving Repr, DecidableEq

def scanInit : MinSt := { key := 0#64, hits := minHitsInit, id := 0, cost := 0 }

/-- `for i, pair := range sample { if hits := Estimate(pair.key); hits < minHits { … } }`,
from index `i` on. -/
def scanFrom (est : Hash → Int) : Nat → MinSt → List KC → MinSt
  | _, m, [] => m
  | i, m, kc :: rest =>
    scanFrom est (i + 1)
      (if hitsLess (est kc.1) m.hits then { key := kc.1, hits := est kc.1, id := i, cost := kc.2 } else m) rest

def scan (est : Hash → Int) (s : List KC) : MinSt := scanFrom est 0 scanInit s

/-- `sample[minId] = sample[len(sample)-1]; sample = sample[:len(sample)-1]`;
`none` = index out of range (Go panics). -/
def swapRemove (s : List KC) (minId : Nat) : Option (List KC) :=
  match s[(addLastIdx (BitVec.ofNat 64 s.length)).toNat]? with
  | none => none
  | some x =>
    let dst := (addSwapDst (BitVec.ofNat 64 minId)).toNat
    if dst < s.length then some ((s.set dst x).take (addNewLen (BitVec.ofNat 64 s.length)).toNat) else none

/-! ### `defaultPolicy.Add` -/

inductive Status where
  | ok     -- `Add` returned
  | stuck  -- `enums` ran out while `room < 0`: only a prefix of the real execution
  | panic  -- the real code panics (index out of range on an empty sample)
deriving Repr, DecidableEq

/-- One round of the eviction loop. -/
structure Round where
  before   : Pol        -- policy state at the start of the round
  carry    : List KC    -- the sample slice entering `fillSample`
  enum     : List KC    -- what the map enumeration offered in this round
  sample   : List KC    -- the slice after `fillSample` (the one that is scanned)
  min      : MinSt      -- result of the scan
  rejected : Bool       -- `incHits < minHits`: the newcomer is turned away in this round
deriving Repr, DecidableEq

structure AddOut where
  pol      : Pol
  victims  : List KC    -- in the order `Add` returns them
  admitted : Bool
  status   : Status
  rounds   : List Round
deriving Repr, DecidableEq

/-- `for ; room < 0; room = p.evict.roomLeft(cost) { … }` followed by the final
`p.evict.add(key, cost); return victims, true`. -/
def evictLoop (est : Hash → Int) (key : Hash) (cost incHits : Int) :
    List (List KC) → Pol → List KC → AddOut
  | [], p, _ =>
    if needRoom (roomLeft p.maxCost p.used cost) then
      { pol := p, victims := [], admitted := false, status := .stuck, rounds := [] }
    else
      { pol := p.evictAdd key cost, victims := [], admitted := true, status := .ok, rounds := [] }
  | enum :: rest, p, carry =>
    if needRoom (roomLeft p.maxCost p.used cost) then
      let s := fillSample carry enum
      let m := scan est s
      if incLess incHits m.hits then
        { pol := p, victims := [], admitted := false, status := .ok,
          rounds := [{ before := p, carry := carry, enum := enum, sample := s, min := m, rejected := true }] }
      else
        let r : Round := { before := p, carry := carry, enum := enum, sample := s, min := m, rejected := false }
        match swapRemove s m.id with
        | none =>
          { pol := p.del m.key, victims := [(m.key, m.cost)], admitted := false, status := .panic, rounds := [r] }
        | some s' =>
          let o := evictLoop est key cost incHits rest (p.del m.key) s'
          { o with victims := (m.key, m.cost) :: o.victims, rounds := r :: o.rounds }
    else
      { pol := p.evictAdd key cost, victims := [], admitted := true, status := .ok, rounds := [] }

namespace Pol

/-- `defaultPolicy.Add(key, cost)` with everything it did (rounds, status). -/
def addFull (p : Pol) (est : Hash → Int) (enums : List (List KC)) (key : Hash) (cost : Int) : AddOut :=
  if tooBig cost p.maxCost then
    { pol := p, victims := [], admitted := false, status := .ok, rounds := [] }
  else
    match p.updateIfHas key cost with
    | (p', true) => { pol := p', victims := [], admitted := false, status := .ok, rounds := [] }
    | (_, false) =>
      if roomOk (roomLeft p.maxCost p.used cost) then
        { pol := p.evictAdd key cost, victims := [], admitted := true, status := .ok, rounds := [] }
      else
        evictLoop est key cost (est key) enums p []

/-- `defaultPolicy.Add(key, cost)`: new state, victims in order, admitted. -/
def add (p : Pol) (est : Hash → Int) (enums : List (List KC)) (key : Hash) (cost : Int) :
    Pol × List KC × Bool :=
  let o := p.addFull est enums key cost
  (o.pol, o.victims, o.admitted)

/-- The operations of the policy as a sequential object. -/
inductive Op where
  | add (est : Hash → Int) (enums : List (List KC)) (key : Hash) (cost : Int)
  | del (key : Hash)
  | update (key : Hash) (cost : Int)
  | clear
  | setMaxCost (m : Int)

def step (p : Pol) : Op → Pol
  | .add est enums key cost => (p.add est enums key cost).1
  | .del key => p.del key
  | .update key cost => p.update key cost
  | .clear => p.clear
  | .setMaxCost m => p.setMaxCost m

def run (p : Pol) (ops : List Op) : Pol := ops.foldl step p

end Pol

/-! ### admissible enumerations (what a Go `range` over `keyCosts` can produce) -/

/-- `enum` can be what `fillSample` saw of `range keyCosts` when entered with the slice `carry`:
distinct keys of the map with their current costs, and either enough of them to fill the
sample or the whole map. -/
def Admissible (keyCosts carry enum : List KC) : Prop :=
  (keys enum).Nodup ∧ (∀ x ∈ enum, x ∈ keyCosts) ∧
    (lfuSample.toNat ≤ carry.length + enum.length ∨ ∀ x ∈ keyCosts, x ∈ enum)

instance (a b c : List KC) : Decidable (Admissible a b c) := by unfold Admissible; infer_instance

/-- every round of an `Add` got an admissible enumeration -/
def AddOut.Admissible (o : AddOut) : Prop :=
  ∀ r ∈ o.rounds, RV.Policy.Admissible r.before.keyCosts r.carry r.enum

instance (o : AddOut) : Decidable o.Admissible := by unfold AddOut.Admissible; infer_instance

/-- the observed enumeration was consumed completely (Go appended exactly these pairs) -/
def Round.consumedAll (r : Round) : Bool := r.sample.length == r.carry.length + r.enum.length

/-! ### well-formedness and the no-overflow hypothesis (used by the theorems) -/

/-- Σ |cost| over the accounted keys. -/
def absSum : List KC → Int
  | [] => 0
  | kc :: rest => (kc.2.natAbs : Int) + absSum rest

/-- all accounted costs are non-negative -/
def NonNeg (kcs : List KC) : Prop := ∀ x ∈ kcs, 0 ≤ x.2

/-- The representation invariant of the policy: no key is accounted twice and
`used` is exactly the sum of the accounted costs (so `RemainingCost = MaxCost − Σ costs`). -/
def Pol.wf (p : Pol) : Prop := (keys p.keyCosts).Nodup ∧ p.used = costSum p.keyCosts

/-- Explicit no-overflow hypothesis for an operation with cost argument `cost` on `p`:
the magnitudes of all accounted costs, of the incoming cost and of `maxCost` add up to less
than 2^63, so every intermediate `int64` value of policy.go is exact (finding F9 lives
outside). -/
def Pol.NoOvf (p : Pol) (cost : Int) : Prop :=
  absSum p.keyCosts + (cost.natAbs : Int) + (p.maxCost.natAbs : Int) < 2 ^ 63

instance (p : Pol) : Decidable p.wf := by unfold Pol.wf; infer_instance
instance (p : Pol) (c : Int) : Decidable (p.NoOvf c) := by unfold Pol.NoOvf; infer_instance
instance (kcs : List KC) : Decidable (NonNeg kcs) := by unfold NonNeg; infer_instance

/-- estimates are `int64`s below `math.MaxInt64` (TinyLFU's are at most 16) -/
def EstOK (est : Hash → Int) : Prop := ∀ k, -2 ^ 63 ≤ est k ∧ est k < 2 ^ 63 - 1

end RV.Policy
