import RV.GenBase
/-!
Hand-written preamble of the generated module `RV/Gen/AllocM.lean` (go2lean/allocm*.go): the
meaning the translator gives to the Go constructs of z/allocator.go that the expression kernels
of `RV/Gen/Alloc.lean` do not cover.

* `Bytes` — a `[]byte` value without its contents and without the identity of its backing block:
  the offset of its first byte inside the block, `len`, `cap`.  `nil` is `⟨0,0,0⟩`.  A chunk made
  by `Calloc(n)` is `⟨0,n,n⟩`; `buf[lo:hi]` is Go's slice expression with its run-time check
  `0 ≤ lo ≤ hi ≤ cap(buf)`.
* `Res σ α` — what running a piece of Go code gives: a value, a panic (with the allocator as it
  was at that moment — the mutex may still be held), `spin` (the fuel of a `for` loop ran out:
  as far as the fuel shows the loop does not terminate) or `blocked` (`Lock()` on a held mutex).
  Every `for cond {}` / `for {}` loop takes the function's `fuel` parameter: `fuel` rounds may be
  run; the theorems say for which fuel the result is exact and prove `∀ fuel, … = spin` where the
  code really never terminates (finding F10).
* `Eff` — calls whose effect lies outside the allocator's own fields are appended, in program
  order, to the ghost field `log` of the generated `Allocator` structure: the `verifObserve`
  observation points (these are what the harness writes into the trace), `ZeroOut`, `copy`, `Free`.
* loops: the body of a loop is a function from the loop's state (the variables it assigns) to
  `LoopOut` (`next` = fell through or `continue`, `brk` = `break`, `ret` = `return` from the
  enclosing function); `forRange n` runs it for `i = 0 … n-1` (`for i, b := range s`, `len(s)`
  evaluated once, `b` read from the current backing array), `loop fuel` until it breaks.
-/
namespace Gen.AM

/-- a `[]byte` value (no contents, no block identity) -/
structure Bytes where
  off : Nat := 0
  len : Nat := 0
  cap : Nat := 0
deriving DecidableEq, Repr, Inhabited

/-- `nil` -/
def Bytes.nil : Bytes := {}

inductive Fault where
  | user      -- `panic(…)`
  | bounds    -- index / slice bounds out of range
  | assert    -- `assert(false)` (log.Fatalf: not recoverable)
  | makeLen   -- `make([]byte, n)` with n < 0
deriving DecidableEq, Repr

inductive Res (σ α : Type) where
  | ok (x : α)
  | panic (f : Fault) (s : σ)
  | spin (s : σ)
  | blocked (s : σ)
deriving DecidableEq, Repr

@[inline] def Res.bind {σ α β : Type} : Res σ α → (α → Res σ β) → Res σ β
  | .ok x, k => k x
  | .panic f s, _ => .panic f s
  | .spin s, _ => .spin s
  | .blocked s, _ => .blocked s

/-- a callee without allocator state (package function) run from a method whose allocator is `s` -/
@[inline] def Res.lift {σ α : Type} (s : σ) : Res Unit α → Res σ α
  | .ok x => .ok x
  | .panic f _ => .panic f s
  | .spin _ => .spin s
  | .blocked _ => .blocked s

inductive Eff where
  | obs (id : BitVec 64) (a b : BitVec 64)             -- verifObserve(id, a, b)
  | zeroOut (dst : Bytes) (start stop : BitVec 64)     -- ZeroOut(dst, start, stop)
  | copy (dst src : Bytes)                             -- copy(dst, src)
  | free (b : Bytes)                                   -- Free(b)
deriving DecidableEq, Repr

variable {σ α : Type} [Inhabited α]

/-- `arr[i]` with Go's bounds check (`i` is a Go int; a negative one is ≥ 2^63 as a natural number) -/
def rd (s : σ) (arr : Array α) (i : BitVec 64) : Res σ α :=
  if i.toNat < arr.size then .ok arr[i.toNat]! else .panic .bounds s

/-- `arr[i] = v` -/
def wr (s : σ) (arr : Array α) (i : BitVec 64) (v : α) : Res σ (Array α) :=
  if i.toNat < arr.size then .ok (arr.set! i.toNat v) else .panic .bounds s

/-- `b[lo:hi]` -/
def slice (s : σ) (b : Bytes) (lo hi : BitVec 64) : Res σ Bytes :=
  if 0 ≤ lo.toInt ∧ lo.toInt ≤ hi.toInt ∧ hi.toInt ≤ (b.cap : Int) then
    .ok ⟨b.off + lo.toNat, hi.toNat - lo.toNat, b.cap - lo.toNat⟩
  else .panic .bounds s

/-- `Calloc(n, tag)` / `make([]byte, n)`: a fresh zeroed block -/
def calloc (s : σ) (n : BitVec 64) : Res σ Bytes :=
  if n.toInt < 0 then .panic .makeLen s else .ok ⟨0, n.toNat, n.toNat⟩

/-- `make([][]byte, n)` -/
def makeSlots (s : σ) (n : BitVec 64) : Res σ (Array Bytes) :=
  if n.toInt < 0 then .panic .makeLen s else .ok (Array.replicate n.toNat Bytes.nil)

/-- `append([]byte{}, b...)` (the capacity Go picks is not specified; `len` is) -/
def clone (b : Bytes) : Bytes := ⟨0, b.len, b.len⟩

/-- `uintptr(unsafe.Pointer(&b[i]))` for a slice whose backing block starts at address `base` -/
def addrOf (s : σ) (base : BitVec 64) (b : Bytes) (i : BitVec 64) : Res σ (BitVec 64) :=
  if i.toNat < b.len then .ok (base + BitVec.ofNat 64 (b.off + i.toNat)) else .panic .bounds s

/-- `assert(c)` -/
def guard (s : σ) (c : Bool) : Res σ Unit := if c then .ok () else .panic .assert s

/-- `mu.Lock()` -/
def lock (s : σ) (held : Bool) : Res σ Unit := if held then .blocked s else .ok ()

/-- `bits.OnesCount64(x)` (as a Go int) -/
def onesCount64 (x : BitVec 64) : BitVec 64 :=
  BitVec.ofNat 64 ((List.range 64).countP fun i => x.getLsbD i)

/-- how one round of a loop body ended -/
inductive LoopOut (ρ S : Type) where
  | ret (r : ρ)
  | brk (st : S)
  | next (st : S)

/-- how a loop ended: the enclosing function returned, or the loop is over -/
inductive LoopRes (ρ S : Type) where
  | ret (r : ρ)
  | done (st : S)

def forRangeGo {ρ S : Type} (body : BitVec 64 → S → Res σ (LoopOut ρ S)) :
    Nat → Nat → S → Res σ (LoopRes ρ S)
  | 0, _, st => .ok (.done st)
  | rem + 1, i, st =>
    match body (BitVec.ofNat 64 i) st with
    | .ok (.ret r) => .ok (.ret r)
    | .ok (.brk st') => .ok (.done st')
    | .ok (.next st') => forRangeGo body rem (i + 1) st'
    | .panic f s => .panic f s
    | .spin s => .spin s
    | .blocked s => .blocked s

/-- `for i := range s { body }` with `n = len(s)` -/
def forRange {ρ S : Type} (n : Nat) (body : BitVec 64 → S → Res σ (LoopOut ρ S)) (st : S) :
    Res σ (LoopRes ρ S) :=
  forRangeGo body n 0 st

/-- `for { body }` (a `for cond { … }` loop starts its body with `if !cond { break }`): at most
`fuel` rounds; `spinAt` gives the allocator to report when the fuel is gone -/
def loop {ρ S : Type} (spinAt : S → σ) (body : S → Res σ (LoopOut ρ S)) :
    Nat → S → Res σ (LoopRes ρ S)
  | 0, st => .spin (spinAt st)
  | fuel + 1, st =>
    match body st with
    | .ok (.ret r) => .ok (.ret r)
    | .ok (.brk st') => .ok (.done st')
    | .ok (.next st') => loop spinAt body fuel st'
    | .panic f s => .panic f s
    | .spin s => .spin s
    | .blocked s => .blocked s

end Gen.AM
