/-!
A tiny association-list map with function-style lemmas.  `insert` removes older
bindings first, so the key list stays duplicate-free by construction
(`nodup_keys_*`).  All invariants of the models are phrased through `lookup`.
-/
namespace RV

def AMap (κ : Type) (ν : Type) := List (κ × ν)

namespace AMap
variable {κ ν : Type} [DecidableEq κ]

def empty : AMap κ ν := ([] : List (κ × ν))

instance : Inhabited (AMap κ ν) := ⟨empty⟩

def lookup (m : AMap κ ν) (k : κ) : Option ν :=
  match m with
  | [] => none
  | (k', v) :: rest => if k' = k then some v else lookup rest k

def erase (m : AMap κ ν) (k : κ) : AMap κ ν :=
  match m with
  | [] => []
  | (k', v) :: rest => if k' = k then erase rest k else (k', v) :: erase rest k

def insert (m : AMap κ ν) (k : κ) (v : ν) : AMap κ ν := (k, v) :: erase m k

def contains (m : AMap κ ν) (k : κ) : Bool := (lookup m k).isSome

def keys (m : AMap κ ν) : List κ := List.map Prod.fst m
def toList (m : AMap κ ν) : List (κ × ν) := m
def size (m : AMap κ ν) : Nat := List.length m

@[simp] theorem lookup_empty (k : κ) : lookup (empty : AMap κ ν) k = none := rfl

@[simp] theorem lookup_erase_self (m : AMap κ ν) (k : κ) : lookup (erase m k) k = none := by
  induction m with
  | nil => rfl
  | cons p rest ih =>
    obtain ⟨k', v⟩ := p
    by_cases h : k' = k
    · simp [erase, h, ih]
    · simp [erase, h, lookup, ih]

theorem lookup_erase_ne (m : AMap κ ν) {k k' : κ} (h : k' ≠ k) :
    lookup (erase m k) k' = lookup m k' := by
  induction m with
  | nil => rfl
  | cons p rest ih =>
    obtain ⟨k'', v⟩ := p
    by_cases h1 : k'' = k
    · subst h1
      have : ¬ k'' = k' := fun e => h e.symm
      simp [erase, lookup, ih, this]
    · by_cases h2 : k'' = k'
      · subst h2; simp [erase, h1, lookup]
      · simp [erase, h1, lookup, h2, ih]

@[simp] theorem lookup_insert_self (m : AMap κ ν) (k : κ) (v : ν) :
    lookup (insert m k v) k = some v := by
  simp [insert, lookup]

theorem lookup_insert_ne (m : AMap κ ν) {k k' : κ} (v : ν) (h : k' ≠ k) :
    lookup (insert m k v) k' = lookup m k' := by
  have : ¬ k = k' := fun e => h e.symm
  simp [insert, lookup, this, lookup_erase_ne m h]

theorem lookup_insert (m : AMap κ ν) (k k' : κ) (v : ν) :
    lookup (insert m k v) k' = if k' = k then some v else lookup m k' := by
  by_cases h : k' = k
  · subst h; simp
  · simp [h, lookup_insert_ne m v h]

theorem lookup_erase (m : AMap κ ν) (k k' : κ) :
    lookup (erase m k) k' = if k' = k then none else lookup m k' := by
  by_cases h : k' = k
  · subst h; simp
  · simp [h, lookup_erase_ne m h]

theorem mem_keys_of_lookup {m : AMap κ ν} {k : κ} {v : ν} (h : lookup m k = some v) : k ∈ keys m := by
  induction m with
  | nil => simp [lookup] at h
  | cons p rest ih =>
    obtain ⟨k', v'⟩ := p
    by_cases hk : k' = k
    · simp [keys, hk]
    · simp [lookup, hk] at h
      have := ih h
      simp [keys] at this ⊢
      exact Or.inr this

theorem lookup_isSome_of_mem_keys {m : AMap κ ν} {k : κ} (h : k ∈ keys m) : (lookup m k).isSome := by
  induction m with
  | nil => simp [keys] at h
  | cons p rest ih =>
    obtain ⟨k', v'⟩ := p
    by_cases hk : k' = k
    · simp [lookup, hk]
    · simp [keys] at h
      rcases h with h | h
      · exact absurd h.symm hk
      · have := ih (by simpa [keys] using h)
        simp [lookup, hk, this]

theorem mem_keys_erase {m : AMap κ ν} {k k' : κ} (h : k' ∈ keys (erase m k)) : k' ∈ keys m ∧ k' ≠ k := by
  induction m with
  | nil => simp [erase, keys] at h
  | cons p rest ih =>
    obtain ⟨k'', v⟩ := p
    by_cases h1 : k'' = k
    · have h' : k' ∈ keys (erase rest k) := by simpa [erase, h1] using h
      have := ih h'
      exact ⟨List.mem_cons_of_mem _ this.1, this.2⟩
    · have h' : k' = k'' ∨ k' ∈ keys (erase rest k) := by
        have h2 : k' ∈ keys ((k'', v) :: erase rest k) := by
          have e : erase ((k'', v) :: rest) k = (k'', v) :: erase rest k := by simp only [erase, h1]; rfl
          rw [e] at h; exact h
        exact List.mem_cons.mp h2
      rcases h' with h' | h'
      · subst h'; exact ⟨by simp [keys], h1⟩
      · have := ih h'
        exact ⟨List.mem_cons_of_mem _ this.1, this.2⟩

/-- Key lists are duplicate-free for every map built from `empty` by `insert`/`erase`. -/
def NodupKeys (m : AMap κ ν) : Prop := (keys m).Nodup

omit [DecidableEq κ] in
theorem nodup_empty : NodupKeys (empty : AMap κ ν) := by simp [NodupKeys, keys, empty]

theorem nodup_erase {m : AMap κ ν} (h : NodupKeys m) (k : κ) : NodupKeys (erase m k) := by
  induction m with
  | nil => simpa [erase] using h
  | cons p rest ih =>
    obtain ⟨k', v⟩ := p
    have hc : k' ∉ keys rest ∧ (keys rest).Nodup := by
      simpa [NodupKeys, keys] using h
    by_cases h1 : k' = k
    · simp only [erase, h1]; exact ih hc.2
    · simp only [erase, h1]
      show (k' :: keys (erase rest k)).Nodup
      refine List.nodup_cons.mpr ⟨?_, ih hc.2⟩
      intro hm
      exact hc.1 (mem_keys_erase hm).1

theorem nodup_insert {m : AMap κ ν} (h : NodupKeys m) (k : κ) (v : ν) : NodupKeys (insert m k v) := by
  show (k :: keys (erase m k)).Nodup
  refine List.nodup_cons.mpr ⟨?_, nodup_erase h k⟩
  intro hm
  exact (mem_keys_erase hm).2 rfl

end AMap
end RV
