import RV.GenBase
import RV.Data.AMap
/-!
Hand-written preamble of the generated modules `RV/Gen/SketchM.lean`, `RV/Gen/TinyLFUM.lean`,
`RV/Gen/PolicyM.lean` (go2lean/lfu*.go): the meaning the translator gives to the Go constructs
it uses.  Core Lean only.

A translated function that can fail returns `GenL.Res α`:

* `ok a`   — the Go function returns `a`;
* `panic`  — the Go code panics (index out of range, slice bounds, explicit `panic`);
* `stuck`  — the translation does not cover this execution: the enumeration oracle or the loop
  fuel ran out, or a re-slice went beyond `len` (where Go's answer depends on the capacity,
  which is not represented).  Nothing is claimed about the Go code in that case.

Constructs:

* `rd a i` / `wr a i v`: `a[i]` and `a[i] = v` with Go's bounds check.  The index is a Go integer
  held in a `BitVec 64`; a negative `int` is ≥ 2^63 as a natural number, hence out of range for
  every slice or array a Go program can have.
* `takeTo a hi`: `a[:hi]` (`hi` a Go `int`): negative ⇒ panic; `hi ≤ len` ⇒ the prefix;
  `len < hi` ⇒ `stuck` (Go panics only beyond the capacity).
* `mkArr n z`: `make([]T, n)`; negative `n` panics.
* slices have VALUE semantics (`Array`); the translator refuses programs in which two live slice
  variables could share a backing array (see go2lean/lfu.go).  `append(a, v)` is `a.push v`.
* `for … range`: `forL items body s` when the body has no `return`/`break`/`continue`, else
  `loopL items body s` whose body says how a round ended (`LoopOut`).  `items` is
  `idxs n` (`for i := range a`), `enumA a` (`for i, v := range a`), `a.toList`
  (`for _, v := range a`) or the enumeration popped from the oracle (`for k, v := range m`).
* `range` over a map: Go's enumeration order is not determined by the program.  A function that
  (transitively) ranges over a map takes an oracle `orc : Orc` — the enumerations, as lists of
  `(key, value)` pairs, that the successive `range` statements see, in execution order — and
  returns the unconsumed rest.  `popEnum` takes the next one; an empty oracle is `stuck`.
  That an enumeration lists the map without duplicates is a hypothesis of the theorems, not
  checked here.
* `for i := lo; i < hi; i++ { body }` (counted): `forL` / `loopL` over `countUp lo hi`.
* an extern object built by a constructor call (`source := rand.New(…)`) is a parameter `source_new`.
* `for init; cond; post { body }` that is not a counted loop: `whileL fuel cond body s`
  (`post` is the end of `body`); `fuel` rounds at most, then `stuck`.
-/
namespace GenL

inductive Res (α : Type) where
  | ok (a : α)
  | panic
  | stuck
deriving Repr, DecidableEq

namespace Res
variable {α β : Type}

def bind : Res α → (α → Res β) → Res β
  | .ok a, f => f a
  | .panic, _ => .panic
  | .stuck, _ => .stuck

def map (f : α → β) : Res α → Res β
  | .ok a => .ok (f a)
  | .panic => .panic
  | .stuck => .stuck

@[simp] theorem bind_ok (a : α) (f : α → Res β) : (Res.ok a).bind f = f a := rfl
@[simp] theorem bind_panic (f : α → Res β) : (Res.panic : Res α).bind f = .panic := rfl
@[simp] theorem bind_stuck (f : α → Res β) : (Res.stuck : Res α).bind f = .stuck := rfl
theorem bind_assoc {γ : Type} (x : Res α) (f : α → Res β) (g : β → Res γ) :
    (x.bind f).bind g = x.bind fun a => (f a).bind g := by
  cases x <;> rfl
@[simp] theorem map_ok (f : α → β) (a : α) : (Res.ok a).map f = .ok (f a) := rfl
@[simp] theorem map_panic (f : α → β) : (Res.panic : Res α).map f = .panic := rfl
@[simp] theorem map_stuck (f : α → β) : (Res.stuck : Res α).map f = .stuck := rfl

end Res

variable {α : Type}

/-- `a[i]` -/
def rd (a : Array α) (i : BitVec 64) : Res α :=
  match a[i.toNat]? with
  | some v => .ok v
  | none => .panic

/-- `a[i] = v` -/
def wr (a : Array α) (i : BitVec 64) (v : α) : Res (Array α) :=
  if i.toNat < a.size then .ok (a.set! i.toNat v) else .panic

/-- `a[:hi]` -/
def takeTo (a : Array α) (hi : BitVec 64) : Res (Array α) :=
  if BitVec.slt hi 0#64 then .panic
  else if hi.toNat ≤ a.size then .ok (a.extract 0 hi.toNat)
  else .stuck

/-- `make([]T, n)` with zero value `z` -/
def mkArr (n : BitVec 64) (z : α) : Res (Array α) :=
  if BitVec.slt n 0#64 then .panic else .ok (Array.replicate n.toNat z)

/-- the indices `0 … n-1` as Go `int`s -/
def idxs (n : Nat) : List (BitVec 64) := (List.range n).map (BitVec.ofNat 64)

/-- the values of `i` in `for i := lo; i < hi; i++` (Go `int`s, signed comparison; the translator accepts
the loop only when neither `i` nor the bound is assigned in the body) -/
def countUp (lo hi : BitVec 64) : List (BitVec 64) :=
  if BitVec.slt lo hi then (List.range (hi.toInt - lo.toInt).toNat).map fun k => lo + BitVec.ofNat 64 k else []

/-- `(i, a[i])` for `i = 0 … len-1` -/
def enumA (a : Array α) : List (BitVec 64 × α) :=
  (List.zipIdx a.toList).map fun p => (BitVec.ofNat 64 p.2, p.1)

/-- a loop whose body has no jumps -/
def forL {ι σ : Type} : List ι → (ι → σ → Res σ) → σ → Res σ
  | [], _, s => .ok s
  | x :: xs, body, s => (body x s).bind fun s' => forL xs body s'

/-- how one round of a loop body ended -/
inductive LoopOut (ρ σ : Type) where
  | ret (r : ρ)      -- `return` from the enclosing function
  | brk (s : σ)      -- `break`
  | next (s : σ)     -- fell through / `continue`

/-- how a loop ended -/
inductive LoopRes (ρ σ : Type) where
  | ret (r : ρ)
  | done (s : σ)

def loopL {ι ρ σ : Type} : List ι → (ι → σ → Res (LoopOut ρ σ)) → σ → Res (LoopRes ρ σ)
  | [], _, s => .ok (.done s)
  | x :: xs, body, s =>
    (body x s).bind fun
      | .ret r => .ok (.ret r)
      | .brk s' => .ok (.done s')
      | .next s' => loopL xs body s'

def whileL {ρ σ : Type} : Nat → (σ → Bool) → (σ → Res (LoopOut ρ σ)) → σ → Res (LoopRes ρ σ)
  | 0, _, _, _ => .stuck
  | fuel + 1, cond, body, s =>
    if cond s then
      (body s).bind fun
        | .ret r => .ok (.ret r)
        | .brk s' => .ok (.done s')
        | .next s' => whileL fuel cond body s'
    else .ok (.done s)

/-- the enumerations the successive `range`s over maps see -/
abbrev Orc := List (List (BitVec 64 × BitVec 64))

/-- the next enumeration -/
def popEnum : Orc → Res (List (BitVec 64 × BitVec 64) × Orc)
  | [] => .stuck
  | e :: rest => .ok (e, rest)

@[simp] theorem forL_nil {ι σ : Type} (body : ι → σ → Res σ) (s : σ) : forL [] body s = .ok s := rfl
@[simp] theorem forL_cons {ι σ : Type} (x : ι) (xs : List ι) (body : ι → σ → Res σ) (s : σ) :
    forL (x :: xs) body s = (body x s).bind fun s' => forL xs body s' := rfl

theorem forL_append {ι σ : Type} (xs ys : List ι) (body : ι → σ → Res σ) (s : σ) :
    forL (xs ++ ys) body s = (forL xs body s).bind fun s' => forL ys body s' := by
  induction xs generalizing s with
  | nil => rfl
  | cons x xs ih =>
    simp only [List.cons_append, forL_cons]
    cases body x s <;> simp [ih]

@[simp] theorem loopL_nil {ι ρ σ : Type} (body : ι → σ → Res (LoopOut ρ σ)) (s : σ) :
    loopL [] body s = .ok (.done s) := rfl

end GenL
