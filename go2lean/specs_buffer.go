package main

import (
	"fmt"
	"go/ast"
	"go/parser"
	"go/token"
	"go/types"
	"strings"
)

func init() {
	register("buffer", bufferSpecs())
	extras["Buffer"] = genBufferExtra
}

// Kernels of z/buffer.go (property C11): every comparison and every piece of
// offset / capacity arithmetic of Grow, Slice, the slice walkers and the sorter.
// The hand-written model (lean/RV/Model/Buffer.lean) calls these defs.
func bufferSpecs() []Spec {
	o := "Buffer"
	z := "z"
	return []Spec{
		{Kind: KConst, Pkg: z, Match: "defaultCapacity", Lean: "defaultCapacity", Out: o},
		// NewBuffer / newBufferFile
		{Kind: KExpr, Pkg: z, Func: "NewBuffer", Match: "capacity < defaultCapacity", Lean: "newCapSmall", Out: o},
		{Kind: KExpr, Pkg: z, Func: "newBufferFile", Match: "capacity < defaultCapacity", Lean: "newFileCapSmall", Out: o},
		// IsEmpty, LenNoPadding
		{Kind: KExpr, Pkg: z, Func: "Buffer.IsEmpty", Match: "int(b.offset) == b.StartOffset()", Lean: "isEmpty", Out: o},
		// Grow
		{Kind: KExpr, Pkg: z, Func: "Buffer.Grow", Match: "b.maxSz > 0 && int(b.offset)+n > b.maxSz", Lean: "growExceedsMax", Out: o},
		{Kind: KExpr, Pkg: z, Func: "Buffer.Grow", Match: "int(b.offset)+n < b.curSz", Lean: "growFits", Out: o},
		{Kind: KExpr, Pkg: z, Func: "Buffer.Grow", Match: "b.curSz + n", Lean: "growByInit", Out: o},
		// the order of the checks and of the two clamps is hand-modelled: pin it
		{Kind: KPin, Pkg: z, Func: "Buffer.Grow", Match: "if int(b.offset)+n < b.curSz { return }; growBy := b.curSz + n; if growBy > 1<<30 { growBy = 1 << 30 }; if n > growBy { growBy = n }; b.curSz += growBy", Lean: "pinGrowSequence", Out: o},
		{Kind: KExpr, Pkg: z, Func: "Buffer.Grow", Match: "growBy > 1<<30", Lean: "growByTooBig", Out: o},
		{Kind: KExpr, Pkg: z, Func: "Buffer.Grow", Match: "1 << 30", Nth: 2, Lean: "growByCap", Out: o},
		{Kind: KExpr, Pkg: z, Func: "Buffer.Grow", Match: "n > growBy", Lean: "growByTooSmall", Out: o},
		{Kind: KExpr, Pkg: z, Func: "Buffer.Grow", Match: "b.autoMmapAfter > 0 && b.curSz > b.autoMmapAfter", Lean: "growAutoMmap", Out: o},
		// Allocate / AllocateOffset
		{Kind: KExpr, Pkg: z, Func: "Buffer.AllocateOffset", Match: "int(b.offset) - n", Lean: "allocOffsetResult", Out: o},
		{Kind: KExpr, Pkg: z, Func: "Buffer.SliceAllocate", Match: "8 + sz", Lean: "sliceAllocGrow", Out: o},
		// Slice
		{Kind: KExpr, Pkg: z, Func: "Buffer.Slice", Match: "offset >= int(b.offset)", Lean: "sliceAtEnd", Out: o},
		{Kind: KExpr, Pkg: z, Func: "Buffer.Slice", Match: "offset + 8", Lean: "sliceStart", Out: o},
		// walkers
		{Kind: KExpr, Pkg: z, Func: "Buffer.SliceIterate", Match: "next >= 0", Lean: "iterCond", Out: o},
		{Kind: KExpr, Pkg: z, Func: "Buffer.SliceOffsets", Match: "next >= 0", Lean: "offsetsCond", Out: o},
		// SortSliceBetween and the sort helper
		{Kind: KExpr, Pkg: z, Func: "Buffer.SortSliceBetween", Match: "start >= end", Lean: "sortEmptyRange", Out: o},
		{Kind: KExpr, Pkg: z, Func: "Buffer.SortSliceBetween", Match: "start == 0", Lean: "sortStartZero", Out: o},
		{Kind: KExpr, Pkg: z, Func: "Buffer.SortSliceBetween", Match: "next >= 0 && next < end", Lean: "sortWalkCond", Out: o},
		{Kind: KExpr, Pkg: z, Func: "Buffer.SortSliceBetween", Match: "count%1024 == 0", Lean: "sortChunkStart", Out: o},
		{Kind: KExpr, Pkg: z, Func: "sortHelper.sortSmall", Match: "next >= 0 && next < end", Lean: "sortSmallWalkCond", Out: o},
		{Kind: KExpr, Pkg: z, Func: "sortHelper.sortSmall", Match: "end - start", Lean: "sortSmallLen", Out: o},
		{Kind: KExpr, Pkg: z, Func: "sortHelper.sort", Match: "lo + (hi-lo)/2", Lean: "sortMid", Out: o},
		{Kind: KExpr, Pkg: z, Func: "sortHelper.sort", Match: "lo == mid", Lean: "sortLeaf", Out: o},
		{Kind: KExpr, Pkg: z, Func: "sortHelper.sort", Match: "lo <= hi", Lean: "sortAssert", Out: o},
		{Kind: KExpr, Pkg: z, Func: "sortHelper.merge", Match: "start < end", Lean: "mergeLoopCond", Out: o},
	}
}

// ---------------------------------------------------------------------------
// Kernels that mention a value produced by encoding/binary.
//
// main.go's stubImporter has no stub for "encoding/binary", so in the shared
// type-check `sz := binary.BigEndian.Uint64(...)` has no type and every
// expression mentioning `sz` (and `next := start + int(sz)`) is reported as
// "untyped leaf".  Rather than touching main.go, this extra generator re-checks
// the already parsed files of package z with an importer that adds a five-line
// stub of encoding/binary and then uses the ordinary translateExpr.
// It also reads the byte order of the three length-prefix accesses off the AST.

const stubBinary = `package binary
type bigEndian struct{}
type littleEndian struct{}
var BigEndian bigEndian
var LittleEndian littleEndian
func (bigEndian) Uint64([]byte) uint64
func (bigEndian) PutUint64([]byte, uint64)
func (bigEndian) Uint32([]byte) uint32
func (bigEndian) PutUint32([]byte, uint32)
func (littleEndian) Uint64([]byte) uint64
func (littleEndian) PutUint64([]byte, uint64)
func (littleEndian) Uint32([]byte) uint32
func (littleEndian) PutUint32([]byte, uint32)
`

type bufImporter struct {
	base *stubImporter
	bin  *types.Package
}

func (bi *bufImporter) Import(path string) (*types.Package, error) {
	if path != "encoding/binary" {
		return bi.base.Import(path)
	}
	if bi.bin != nil {
		return bi.bin, nil
	}
	f, err := parser.ParseFile(bi.base.fset, "encoding/binary.stub.go", stubBinary, 0)
	if err != nil {
		return nil, err
	}
	conf := types.Config{Importer: bi.base, Error: func(error) {}}
	bi.bin, _ = conf.Check(path, bi.base.fset, []*ast.File{f}, nil)
	return bi.bin, nil
}

func genBufferExtra(load func(string) *pkgInfo) (string, error) {
	base := load("z")
	info := &types.Info{
		Types:      map[ast.Expr]types.TypeAndValue{},
		Defs:       map[*ast.Ident]types.Object{},
		Uses:       map[*ast.Ident]types.Object{},
		Selections: map[*ast.SelectorExpr]*types.Selection{},
	}
	imp := &bufImporter{base: &stubImporter{fset: base.fset, cache: map[string]*types.Package{}}}
	conf := types.Config{Importer: imp, Error: func(error) {}}
	pkg, _ := conf.Check("p", base.fset, base.files, info)
	pi := &pkgInfo{fset: base.fset, files: base.files, info: info, pkg: pkg, dir: base.dir}

	var b strings.Builder
	bad := func(name string, err error) {
		msg := strings.ReplaceAll(err.Error(), "\n", " ")
		// every function these kernels anchor is translated whole and proved equal to the model
		// (TieBuffer / TieBufferSort): keep the reviewed definition, that tie becomes the obligation
		if old, ok := keptDef("Buffer", name); ok {
			fmt.Fprintf(&b, "-- KEPT %s (%s): z.Buffer's methods are translated whole and proved equal to the model in RV/Props/TieBuffer.lean\n%s\n", name, msg, old)
			fmt.Printf("KEPT Buffer.%s TieBuffer\n", name)
			keptKernels = append(keptKernels, [2]string{"Buffer." + name, "TieBuffer"})
			return
		}
		fmt.Fprintf(&b, "-- UNTRANSLATABLE %s: %s\n\n", name, msg)
		fmt.Printf("UNTRANSLATABLE %s: %s\n", name, msg)
	}
	for _, s := range []Spec{
		{Kind: KExpr, Pkg: "z", Func: "Buffer.Slice", Match: "start + int(sz)", Lean: "sliceNext", Out: "Buffer"},
		{Kind: KExpr, Pkg: "z", Func: "Buffer.Slice", Match: "next >= int(b.offset)", Lean: "sliceIsLast", Out: "Buffer"},
		{Kind: KExpr, Pkg: "z", Func: "rawSlice", Match: "8 + int(sz)", Lean: "rawSliceLen", Out: "Buffer"},
		{Kind: KExpr, Pkg: "z", Func: "Buffer.writeLen", Match: "uint64(sz)", Lean: "writeLenValue", Out: "Buffer"},
	} {
		txt, err := translateExpr(pi, s)
		if err != nil {
			bad(s.Lean, err)
			continue
		}
		b.WriteString(txt)
		b.WriteString("\n")
	}
	// byte order and width of the length prefix, read off the call expressions
	for _, q := range []struct{ fn, method, lean string }{
		{"Buffer.writeLen", "PutUint64", "writeLenBigEndian"},
		{"Buffer.Slice", "Uint64", "sliceBigEndian"},
		{"rawSlice", "Uint64", "rawSliceBigEndian"},
	} {
		order, err := byteOrderOf(pi, q.fn, q.method)
		if err != nil {
			bad(q.lean, err)
			continue
		}
		fmt.Fprintf(&b, "/-- %s: byte order of the `binary.<order>.%s` call (true = BigEndian, false = LittleEndian) -/\ndef %s : Bool :=\n  %v\n\n",
			q.fn, q.method, q.lean, order == "BigEndian")
	}
	// width of the prefix: the literal handed to Allocate in writeLen
	if fd := pi.findFunc("Buffer.writeLen"); fd == nil {
		bad("writeLenWidth", fmt.Errorf("function Buffer.writeLen not found"))
	} else {
		var lit string
		n := 0
		ast.Inspect(fd.Body, func(nd ast.Node) bool {
			if c, ok := nd.(*ast.CallExpr); ok {
				if sel, ok := c.Fun.(*ast.SelectorExpr); ok && sel.Sel.Name == "Allocate" && len(c.Args) == 1 {
					if bl, ok := c.Args[0].(*ast.BasicLit); ok && bl.Kind == token.INT {
						lit = bl.Value
						n++
					}
				}
			}
			return true
		})
		if n != 1 {
			bad("writeLenWidth", fmt.Errorf("expected exactly one b.Allocate(<literal>) in writeLen, found %d", n))
		} else {
			fmt.Fprintf(&b, "/-- Buffer.writeLen: `b.Allocate(%s)` -/\ndef writeLenWidth : BitVec 64 :=\n  %s#64\n\n", lit, lit)
		}
	}
	return b.String(), nil
}

// byteOrderOf finds the unique call binary.<Order>.<method>(...) in fn.
func byteOrderOf(pi *pkgInfo, fn, method string) (string, error) {
	fd := pi.findFunc(fn)
	if fd == nil {
		return "", fmt.Errorf("function %s not found", fn)
	}
	orders := []string{}
	ast.Inspect(fd.Body, func(n ast.Node) bool {
		c, ok := n.(*ast.CallExpr)
		if !ok {
			return true
		}
		sel, ok := c.Fun.(*ast.SelectorExpr)
		if !ok || sel.Sel.Name != method {
			return true
		}
		inner, ok := sel.X.(*ast.SelectorExpr)
		if !ok {
			return true
		}
		if id, ok := inner.X.(*ast.Ident); ok && id.Name == "binary" {
			orders = append(orders, inner.Sel.Name)
		}
		return true
	})
	if len(orders) != 1 {
		return "", fmt.Errorf("expected exactly one binary.<order>.%s call in %s, found %d", method, fn, len(orders))
	}
	if orders[0] != "BigEndian" && orders[0] != "LittleEndian" {
		return "", fmt.Errorf("unknown byte order %s in %s", orders[0], fn)
	}
	return orders[0], nil
}
