package main

// bufm.go — whole-method translation of z/buffer.go ("BufferM"): methods of a struct with a
// `[]byte` memory field, in state-passing style, in the Option monad (`none` = the Go code
// panics).  Lean side of the primitives: RV/GenBuf.lean.  Specs: specs_bufferm.go.
//
// What is mechanical here (everything else is refused with `-- UNTRANSLATABLE name: reason`):
//
//   - Go structs listed in the spec become Lean structures (listed fields only; a slice or
//     pointer field with `Nonnil` gets a Bool companion `<f>_nonnil`).  A method on `*T` takes
//     the structure and, if it writes it, returns the new value first.  Pointer fields are
//     structures held by value; a local struct variable stored into a pointer field of a
//     composite literal becomes an alias of that field (reads and the returned receiver go
//     through the field), because Go shares the pointee.
//   - `[]byte` values are windows (`Gen.Buf.Win`) of a memory object that the translator
//     tracks statically: a `[]byte` struct field (`b.buf`), a local / parameter array, or — for a
//     parameter declared `Alias` in the spec — a field reachable from the receiver.  A window
//     whose object may have been replaced (assignment to the field, a call of a method that
//     re-assigns it, e.g. Grow) is stale and its use is refused.  A generic `[]byte` parameter
//     is a pair (array, window), read-only.  A `[]byte` result is a window of the receiver's
//     field or of a parameter (all `return`s must agree).
//   - slice expressions, `len`, `copy` (also in expression position: its count), `append` on
//     `[]int`, `binary.BigEndian/LittleEndian.Uint64/PutUint64`, `atomic.LoadUint64(&x)`,
//     `assert`, `check2(f(..))`, `panic`, `x == nil`, `error` values (nil / NewFile / other);
//   - if / else (joined when no branch jumps, otherwise the rest is continued in both branches),
//     `switch tag` with `break`, `for cond {}` with a spec-given bound, `for _, x := range ints`,
//     `return`/`continue`/`break` inside loops (one round of a loop becomes `<fn>_loop<k>`),
//     closures without parameters (expanded where called), `defer` of a call without modelled
//     effect, composite literals of listed structs, recursion with a fuel parameter;
//   - calls of other translated functions (receiver = any struct place, e.g. `s.tmp.Write(..)`),
//     of function-typed parameters / fields (`[]byte` arguments are passed by value; a callback
//     that returns an error or nothing threads a state σ), and of the externs of the spec
//     (`os` parameter).
//   - scalar expressions go through main.go's `ctx.expr` (hook = this file).

import (
	"fmt"
	"go/ast"
	"go/parser"
	"go/token"
	"go/types"
	"sort"
	"strings"
)

// ---------------------------------------------------------------- specs

type bmFieldSpec struct {
	Name   string
	Nonnil bool
}

type bmStructSpec struct {
	Go, Lean    string
	Handwritten bool
	Fields      []bmFieldSpec
}

type bmFuncSpec struct {
	Go, Lean  string
	Fuel      []string
	Alias     map[string][]string
	Recursive bool
	RecFuel   string
}

type bmExternSpec struct {
	Lean    string
	Args    []int
	Results []string
	Option  bool
	OS      bool
	Mem     string
	Store   string
}

// ---------------------------------------------------------------- types

type bmKind int

const (
	bkScalar bmKind = iota
	bkErr
	bkBytes
	bkInts
	bkStruct
	bkFunc
	bkOpaque
)

type bmType struct {
	kind bmKind
	lt   lty
	st   *bmStruct
	sig  *types.Signature
}

type bmField struct {
	name   string
	ty     bmType
	nonnil bool
}

type bmStruct struct {
	goName, lean string
	fields       []bmField
	dropped      []string
}

func (s *bmStruct) field(n string) *bmField {
	for i := range s.fields {
		if s.fields[i].name == n {
			return &s.fields[i]
		}
	}
	return nil
}

type bmParam struct {
	name  string
	obj   types.Object
	ty    bmType
	alias []string // bytes: window of this receiver path; nil: generic (array, window)
}

type bmResult struct {
	ty   bmType
	base string // bytes: "recv:<a.b>" / "param:<i>" / "" (nil only)
}

type bmFunc struct {
	key, lean string
	spec      bmFuncSpec
	fd        *ast.FuncDecl
	recv      *bmStruct
	mutates   bool
	moves     [][]string
	params    []bmParam
	results   []bmResult
	usesOS    bool
	usesSort  bool // takes `sortFn : Gen.Buf.SortFn` (sort.Slice)
	cbState   bool // threads a callback state σ
	recursive bool
	hasFuel   bool // takes `fuel : Nat` first (recursive, or calls a recursive function with the caller's bound)
}

type bmGen struct {
	pi      *pkgInfo
	structs map[string]*bmStruct
	funcs   map[string]*bmFunc
	errType types.Type
}

func (g *bmGen) typeOf(t types.Type) bmType {
	if t == nil {
		return bmType{kind: bkOpaque}
	}
	if types.Identical(t, g.errType) {
		return bmType{kind: bkErr}
	}
	tt := t
	if p, ok := tt.(*types.Pointer); ok {
		tt = p.Elem()
	}
	if n, ok := tt.(*types.Named); ok {
		if st, ok := g.structs[n.Obj().Name()]; ok && n.Obj().Pkg() == g.pi.pkg {
			return bmType{kind: bkStruct, st: st}
		}
	}
	switch u := t.Underlying().(type) {
	case *types.Signature:
		return bmType{kind: bkFunc, sig: u}
	case *types.Slice:
		if b, ok := u.Elem().Underlying().(*types.Basic); ok {
			switch b.Kind() {
			case types.Uint8:
				return bmType{kind: bkBytes}
			case types.Int:
				return bmType{kind: bkInts}
			}
		}
		return bmType{kind: bkOpaque}
	case *types.Basic:
		if u.Kind() == types.String || u.Kind() == types.UntypedString || u.Kind() == types.UntypedNil ||
			u.Kind() == types.Float64 || u.Kind() == types.Float32 || u.Kind() == types.UntypedFloat {
			return bmType{kind: bkOpaque}
		}
	}
	if lt, err := leanType(t); err == nil && (lt.kind == "bv" || lt.kind == "bool") {
		return bmType{kind: bkScalar, lt: lt}
	}
	return bmType{kind: bkOpaque}
}

const bmBytesT = "Array (BitVec 8)"
const bmIntsT = "Array (BitVec 64)"
const bmWinT = "Gen.Buf.Win"
const bmErrT = "Gen.Buf.Err"

// cbLean: Lean type of a function value.  stateful: `σ → args → σ × res`.
func (g *bmGen) cbLean(sig *types.Signature) (string, bool, error) {
	parts := []string{}
	for i := 0; i < sig.Params().Len(); i++ {
		t := g.typeOf(sig.Params().At(i).Type())
		switch t.kind {
		case bkBytes:
			parts = append(parts, bmBytesT)
		case bkScalar:
			parts = append(parts, t.lt.lean())
		default:
			return "", false, fmt.Errorf("callback parameter of type %s outside the subset", sig.Params().At(i).Type())
		}
	}
	res, stateful := "Unit", true
	switch sig.Results().Len() {
	case 0:
	case 1:
		t := g.typeOf(sig.Results().At(0).Type())
		switch {
		case t.kind == bkErr:
			res = bmErrT
		case t.kind == bkScalar:
			res, stateful = t.lt.lean(), false
		default:
			return "", false, fmt.Errorf("callback result of type %s outside the subset", sig.Results().At(0).Type())
		}
	default:
		return "", false, fmt.Errorf("callback with several results outside the subset")
	}
	if stateful {
		return "σ → " + strings.Join(parts, " → ") + " → σ × " + res, true, nil
	}
	return strings.Join(parts, " → ") + " → " + res, false, nil
}

func (g *bmGen) leanOf(t bmType) (string, error) {
	switch t.kind {
	case bkScalar:
		return t.lt.lean(), nil
	case bkErr:
		return bmErrT, nil
	case bkBytes:
		return bmWinT, nil
	case bkInts:
		return bmIntsT, nil
	case bkStruct:
		return t.st.lean, nil
	case bkFunc:
		s, _, err := g.cbLean(t.sig)
		return s, err
	}
	return "", fmt.Errorf("type outside the subset")
}

// ---------------------------------------------------------------- loading with richer stubs

const bmStubOS = `package os
func Getpagesize() int
type File struct{ x int }
func (*File) Name() string
type FileMode uint32
const (
	O_RDWR = 2
	O_CREATE = 64
)
func CreateTemp(dir, pattern string) (*File, error)
func OpenFile(name string, flag int, perm FileMode) (*File, error)
func Remove(name string) error
`
const bmStubBinary = `package binary
type bigEndian struct{}
type littleEndian struct{}
var BigEndian bigEndian
var LittleEndian littleEndian
func (bigEndian) Uint64([]byte) uint64
func (bigEndian) PutUint64([]byte, uint64)
func (bigEndian) Uint32([]byte) uint32
func (bigEndian) PutUint32([]byte, uint32)
func (littleEndian) Uint64([]byte) uint64
func (littleEndian) PutUint64([]byte, uint64)
func (littleEndian) Uint32([]byte) uint32
func (littleEndian) PutUint32([]byte, uint32)
`
const bmStubErrors = `package errors
func New(string) error
func Join(...error) error
`
const bmStubFmt = `package fmt
func Errorf(string, ...interface{}) error
func Sprintf(string, ...interface{}) string
func Printf(string, ...interface{})
func Println(...interface{})
`
const bmStubSort = `package sort
func Slice(x interface{}, less func(i, j int) bool)
`
const bmStubLog = `package log
func Fatalf(string, ...interface{})
func Printf(string, ...interface{})
`

type bmImporter struct {
	base  *stubImporter
	fset  *token.FileSet
	cache map[string]*types.Package
}

func (bi *bmImporter) Import(path string) (*types.Package, error) {
	src := ""
	switch path {
	case "os":
		src = bmStubOS
	case "encoding/binary":
		src = bmStubBinary
	case "errors":
		src = bmStubErrors
	case "fmt":
		src = bmStubFmt
	case "sort":
		src = bmStubSort
	case "log":
		src = bmStubLog
	default:
		return bi.base.Import(path)
	}
	if p, ok := bi.cache[path]; ok {
		return p, nil
	}
	f, err := parser.ParseFile(bi.fset, path+".bmstub.go", src, 0)
	if err != nil {
		return nil, err
	}
	conf := types.Config{Importer: bi, Error: func(error) {}}
	p, _ := conf.Check(path, bi.fset, []*ast.File{f}, nil)
	bi.cache[path] = p
	return p, nil
}

// bmRecheck type-checks the already parsed files of a package again, with the richer stubs.
func bmRecheck(pi *pkgInfo) *pkgInfo {
	info := &types.Info{
		Types:      map[ast.Expr]types.TypeAndValue{},
		Defs:       map[*ast.Ident]types.Object{},
		Uses:       map[*ast.Ident]types.Object{},
		Selections: map[*ast.SelectorExpr]*types.Selection{},
	}
	imp := &bmImporter{base: &stubImporter{fset: pi.fset, cache: map[string]*types.Package{}}, fset: pi.fset, cache: map[string]*types.Package{}}
	conf := types.Config{Importer: imp, Error: func(error) {}}
	pkg, _ := conf.Check("p", pi.fset, pi.files, info)
	return &pkgInfo{fset: pi.fset, files: pi.files, info: info, pkg: pkg, dir: pi.dir}
}

// ---------------------------------------------------------------- the generator

func genBufferM(load func(string) *pkgInfo) (string, error) {
	pi := bmRecheck(load("z"))
	g := &bmGen{pi: pi, structs: map[string]*bmStruct{}, funcs: map[string]*bmFunc{},
		errType: types.Universe.Lookup("error").Type()}
	var out strings.Builder
	out.WriteString("set_option linter.unusedVariables false\n\n")
	for _, ss := range bufmStructs {
		obj := pi.pkg.Scope().Lookup(ss.Go)
		if obj == nil {
			return "", fmt.Errorf("struct %s not found", ss.Go)
		}
		st, ok := obj.Type().Underlying().(*types.Struct)
		if !ok {
			return "", fmt.Errorf("%s is not a struct", ss.Go)
		}
		d := &bmStruct{goName: ss.Go, lean: ss.Lean}
		g.structs[ss.Go] = d // (a struct may refer to itself through a pointer: not needed here)
		want := map[string]bmFieldSpec{}
		for _, f := range ss.Fields {
			want[f.Name] = f
		}
		for i := 0; i < st.NumFields(); i++ {
			f := st.Field(i)
			fs, ok := want[f.Name()]
			if !ok {
				d.dropped = append(d.dropped, f.Name())
				continue
			}
			delete(want, f.Name())
			t := g.typeOf(f.Type())
			if t.kind == bkOpaque {
				return "", fmt.Errorf("field %s.%s has a type outside the subset (%s)", ss.Go, f.Name(), f.Type())
			}
			d.fields = append(d.fields, bmField{name: f.Name(), ty: t, nonnil: fs.Nonnil})
		}
		for n := range want {
			return "", fmt.Errorf("struct %s has no field %s any more", ss.Go, n)
		}
		if ss.Handwritten {
			fmt.Fprintf(&out, "-- z.%s is `%s` (RV/GenBuf.lean)\n\n", ss.Go, ss.Lean)
			continue
		}
		fmt.Fprintf(&out, "/-- z.%s, held by value (state-passing)", ss.Go)
		if len(d.dropped) > 0 {
			fmt.Fprintf(&out, "; not modelled: %s", strings.Join(d.dropped, ", "))
		}
		fmt.Fprintf(&out, " -/\nstructure %s where\n", ss.Lean)
		for _, f := range d.fields {
			var lt string
			var err error
			if f.ty.kind == bkBytes {
				lt = bmBytesT
			} else {
				lt, err = g.leanOf(f.ty)
				if err != nil {
					return "", fmt.Errorf("field %s.%s: %v", ss.Go, f.name, err)
				}
			}
			fmt.Fprintf(&out, "  %s : %s\n", sanitize(f.name), lt)
			if f.nonnil {
				fmt.Fprintf(&out, "  %s_nonnil : Bool\n", sanitize(f.name))
			}
		}
		out.WriteString("\n")
	}
	for _, fs := range bufmFuncs {
		txt, err := g.translate(fs)
		if err != nil {
			msg := strings.ReplaceAll(err.Error(), "\n", " ")
			fmt.Fprintf(&out, "-- UNTRANSLATABLE %s: %s\n\n", fs.Lean, msg)
			extraFailed = append(extraFailed, fmt.Sprintf("BufferM.%s: %s", fs.Lean, msg))
			continue
		}
		out.WriteString(txt)
		out.WriteString("\n")
	}
	return out.String(), nil
}

// ---------------------------------------------------------------- per-function context

type bmBase struct {
	local types.Object // a local / parameter array
	root  types.Object // or: a []byte field of a struct variable
	path  []string
}

func (a *bmBase) same(b *bmBase) bool {
	if a == nil || b == nil {
		return a == nil && b == nil
	}
	if a.local != nil || b.local != nil {
		return a.local == b.local
	}
	if a.root != b.root || len(a.path) != len(b.path) {
		return false
	}
	for i := range a.path {
		if a.path[i] != b.path[i] {
			return false
		}
	}
	return true
}

type bmVar struct {
	ty    bmType
	lean  string  // scalar / err / ints / struct / func: value; bytes: the window ("" = whole array)
	base  *bmBase // bytes: the memory object (nil: the nil slice)
	arr   string  // bytes, owner of a local array: its current value
	stale string
	// a struct variable that was stored into a pointer field: alias of that place
	aliasRoot types.Object
	aliasPath []string
	closure   *ast.FuncLit
	stateful  bool // bkFunc parameter threading σ
}

func (v *bmVar) clone() *bmVar {
	c := *v
	return &c
}

type bmVal struct {
	ty   bmType
	text string
	base *bmBase // bytes
	full bool    // bytes: the whole object
}

type bmCtx struct {
	*ctx
	g       *bmGen
	fn      *bmFunc
	vars    map[types.Object]*bmVar
	subst   map[ast.Expr]substVal
	recvObj types.Object
	aux     []string
	nloops  int
	nwhile  int
	cbName  string // Lean name of the current callback state (σ), "" if none
	retWrap func(v string) string
	contK   func(ind string) (string, error)
	brkK    func(ind string) (string, error)
	wrote   bool // the receiver was written
	resBase []string
	elemSub map[string]string // inside a sort.Slice closure: source text of `xs[i]` -> element variable
	clo     *bmSnap           // inside a closure with a result: the state it must leave unchanged
	nless   int
	pure    bool // cleared whenever a bind is emitted (used to render joins of pure branches)
}

type bmSnap struct {
	env   map[types.Object]string
	vars  map[types.Object]*bmVar
	cb    string
	wrote bool
}

func (m *bmCtx) snap() bmSnap {
	s := bmSnap{env: m.saveEnv(), vars: map[types.Object]*bmVar{}, cb: m.cbName, wrote: m.wrote}
	for k, v := range m.vars {
		s.vars[k] = v.clone()
	}
	return s
}

func (m *bmCtx) restore(s bmSnap) {
	m.restoreEnv(s.env)
	m.vars = map[types.Object]*bmVar{}
	for k, v := range s.vars {
		m.vars[k] = v.clone()
	}
	m.cbName = s.cb
	// `wrote` is monotone: a write in any branch counts
}

func (m *bmCtx) objOf(id *ast.Ident) types.Object {
	if o := m.pi.info.Uses[id]; o != nil {
		return o
	}
	return m.pi.info.Defs[id]
}

func (m *bmCtx) typeOfExpr(e ast.Expr) bmType {
	if tv, ok := m.pi.info.Types[e]; ok && tv.Type != nil {
		return m.g.typeOf(tv.Type)
	}
	if id, ok := e.(*ast.Ident); ok {
		if o := m.objOf(id); o != nil {
			return m.g.typeOf(o.Type())
		}
	}
	return bmType{kind: bkOpaque}
}

func (m *bmCtx) bind(b *strings.Builder, ind, term, pat string) {
	m.pure = false
	fmt.Fprintf(b, "%s(%s).bind fun %s =>\n", ind, term, pat)
}

// ---------------------------------------------------------------- places (struct values)

// placeOf resolves an expression denoting a struct value to (root variable, field path).
func (m *bmCtx) placeOf(e ast.Expr) (types.Object, []string, *bmStruct, bool) {
	e = unparen(e)
	switch x := e.(type) {
	case *ast.Ident:
		obj := m.objOf(x)
		v := m.vars[obj]
		if v == nil || v.ty.kind != bkStruct {
			return nil, nil, nil, false
		}
		if v.aliasRoot != nil {
			return v.aliasRoot, append([]string{}, v.aliasPath...), v.ty.st, true
		}
		return obj, nil, v.ty.st, true
	case *ast.SelectorExpr:
		r, p, st, ok := m.placeOf(x.X)
		if !ok {
			return nil, nil, nil, false
		}
		f := st.field(x.Sel.Name)
		if f == nil || f.ty.kind != bkStruct {
			return nil, nil, nil, false
		}
		return r, append(append([]string{}, p...), f.name), f.ty.st, true
	case *ast.StarExpr:
		return m.placeOf(x.X)
	case *ast.UnaryExpr:
		if x.Op == token.AND {
			return m.placeOf(x.X)
		}
	}
	return nil, nil, nil, false
}

func (m *bmCtx) placeText(root types.Object, path []string) string {
	s := m.vars[root].lean
	for _, p := range path {
		s += "." + sanitize(p)
	}
	return s
}

// fieldOf resolves `X.f` where X is a struct place: (root, path of X, struct of X, field).
func (m *bmCtx) fieldOf(e ast.Expr) (types.Object, []string, *bmField, bool) {
	sel, ok := unparen(e).(*ast.SelectorExpr)
	if !ok {
		return nil, nil, nil, false
	}
	r, p, st, ok := m.placeOf(sel.X)
	if !ok {
		return nil, nil, nil, false
	}
	f := st.field(sel.Sel.Name)
	if f == nil {
		return nil, nil, nil, false
	}
	return r, p, f, true
}

// structAt: the struct definitions along a path.
func (m *bmCtx) structAt(root types.Object, path []string) *bmStruct {
	st := m.vars[root].ty.st
	for _, p := range path {
		st = st.field(p).ty.st
	}
	return st
}

// setField emits `let root' := { root with path.f := val }` (nested structure updates).
func (m *bmCtx) setField(root types.Object, path []string, field string, val string, nonnil string, ind string, b *strings.Builder) {
	inner := fmt.Sprintf("%s := %s", sanitize(field), val)
	if nonnil != "" {
		inner += fmt.Sprintf(", %s_nonnil := %s", sanitize(field), nonnil)
	}
	text := fmt.Sprintf("{ %s with %s }", m.placeText(root, path), inner)
	for i := len(path) - 1; i >= 0; i-- {
		text = fmt.Sprintf("{ %s with %s := %s }", m.placeText(root, path[:i]), sanitize(path[i]), text)
	}
	v := m.vars[root]
	nn := m.freshName(root.Name())
	fmt.Fprintf(b, "%slet %s : %s := %s\n", ind, nn, v.ty.st.lean, text)
	v.lean = nn
	if m.isRecvRoot(root) {
		m.wrote = true
	}
}

// isRecvRoot: root is the receiver variable, or the struct the receiver has become a part of.
func (m *bmCtx) isRecvRoot(root types.Object) bool {
	if m.recvObj == nil {
		return false
	}
	if root == m.recvObj {
		return true
	}
	rv := m.vars[m.recvObj]
	return rv != nil && rv.aliasRoot == root
}

// setPlace replaces the struct value at (root, path).
func (m *bmCtx) setPlace(root types.Object, path []string, val string, ind string, b *strings.Builder) {
	if len(path) == 0 {
		m.vars[root].lean = val
		if m.isRecvRoot(root) {
			m.wrote = true
		}
		return
	}
	m.setField(root, path[:len(path)-1], path[len(path)-1], val, "", ind, b)
}

// guardPath emits the nil checks of the pointer fields along a path.
func (m *bmCtx) guardPath(root types.Object, path []string, ind string, b *strings.Builder) {
	st := m.vars[root].ty.st
	for i, p := range path {
		f := st.field(p)
		if f.nonnil {
			m.bind(b, ind, fmt.Sprintf("Gen.Buf.guard %s.%s_nonnil", m.placeText(root, path[:i]), sanitize(p)), "_")
		}
		st = f.ty.st
	}
}

// ---------------------------------------------------------------- memory objects and windows

func (m *bmCtx) arrText(base *bmBase) string {
	if base.local != nil {
		return m.vars[base.local].arr
	}
	return m.placeText(base.root, base.path[:len(base.path)-1]) + "." + sanitize(base.path[len(base.path)-1])
}

// writeArr stores the new content `val` (a bound name) of the object.
func (m *bmCtx) writeArr(base *bmBase, val string, ind string, b *strings.Builder) error {
	if base.local != nil {
		v := m.vars[base.local]
		if v.ty.kind == bkBytes && v.arr != "" {
			for _, p := range m.fn.params {
				if p.obj == base.local {
					return fmt.Errorf("write through the parameter slice %s outside the subset (parameters are read-only)", p.name)
				}
			}
			v.arr = val
			return nil
		}
		return fmt.Errorf("write to an unknown memory object")
	}
	m.setField(base.root, base.path[:len(base.path)-1], base.path[len(base.path)-1], val, "", ind, b)
	return nil
}

func (m *bmCtx) fullWin(base *bmBase) string {
	return fmt.Sprintf("(Gen.Buf.Win.full %s.size)", m.arrText(base))
}

// markStale: the object `base` may have been replaced.
func (m *bmCtx) markStale(base *bmBase, why string, except map[*bmVar]bool) {
	for _, v := range m.vars {
		if v.ty.kind == bkBytes && v.base != nil && v.base.same(base) && !except[v] && v.arr == "" {
			v.stale = why
		}
	}
}

// winOf evaluates a []byte-valued expression to a window.
func (m *bmCtx) winOf(e ast.Expr, ind string, b *strings.Builder) (bmVal, error) {
	e = unparen(e)
	bt := bmType{kind: bkBytes}
	switch x := e.(type) {
	case *ast.Ident:
		if x.Name == "nil" {
			return bmVal{ty: bt, text: "Gen.Buf.Win.nil"}, nil
		}
		obj := m.objOf(x)
		v := m.vars[obj]
		if v == nil || v.ty.kind != bkBytes {
			return bmVal{}, fmt.Errorf("%s is not a known byte slice", x.Name)
		}
		if v.stale != "" {
			return bmVal{}, fmt.Errorf("slice %s is used after %s", x.Name, v.stale)
		}
		if v.base == nil {
			return bmVal{ty: bt, text: "Gen.Buf.Win.nil"}, nil
		}
		if v.lean == "" {
			return bmVal{ty: bt, text: m.fullWin(v.base), base: v.base, full: true}, nil
		}
		return bmVal{ty: bt, text: v.lean, base: v.base}, nil
	case *ast.SelectorExpr:
		r, p, f, ok := m.fieldOf(x)
		if !ok || f.ty.kind != bkBytes {
			return bmVal{}, fmt.Errorf("slice expression %q outside the subset", m.pi.src(e))
		}
		m.guardPath(r, p, ind, b)
		base := &bmBase{root: r, path: append(append([]string{}, p...), f.name)}
		return bmVal{ty: bt, text: m.fullWin(base), base: base, full: true}, nil
	case *ast.SliceExpr:
		if x.Slice3 {
			return bmVal{}, fmt.Errorf("3-index slice outside the subset")
		}
		w, err := m.winOf(x.X, ind, b)
		if err != nil {
			return bmVal{}, err
		}
		if w.base == nil {
			return bmVal{}, fmt.Errorf("slice expression on the nil slice outside the subset")
		}
		lo := "0#64"
		if x.Low != nil {
			s, t, err := m.value(x.Low, ind, b)
			if err != nil {
				return bmVal{}, err
			}
			if t.kind != bkScalar || t.lt.kind != "bv" || t.lt.w != 64 {
				return bmVal{}, fmt.Errorf("slice bound %q is not a 64-bit integer", m.pi.src(x.Low))
			}
			lo = s
		}
		hi := fmt.Sprintf("(Gen.Buf.Win.len %s)", nfAtom(w.text))
		if w.full {
			hi = fmt.Sprintf("(BitVec.ofNat 64 %s.size)", m.arrText(w.base))
		}
		if x.High != nil {
			s, t, err := m.value(x.High, ind, b)
			if err != nil {
				return bmVal{}, err
			}
			if t.kind != bkScalar || t.lt.kind != "bv" || t.lt.w != 64 {
				return bmVal{}, fmt.Errorf("slice bound %q is not a 64-bit integer", m.pi.src(x.High))
			}
			hi = s
		}
		t := m.freshName("w")
		m.bind(b, ind, fmt.Sprintf("Gen.Buf.slice %s.size %s %s %s", m.arrText(w.base), nfAtom(w.text), nfAtom(lo), nfAtom(hi)), t)
		return bmVal{ty: bt, text: t, base: w.base}, nil
	case *ast.CallExpr:
		vals, err := m.call(x, []string{"w"}, ind, b)
		if err != nil {
			return bmVal{}, err
		}
		if len(vals) != 1 || vals[0].ty.kind != bkBytes {
			return bmVal{}, fmt.Errorf("call %q does not yield one byte slice", m.pi.src(x))
		}
		return vals[0], nil
	}
	return bmVal{}, fmt.Errorf("slice expression %q outside the subset", m.pi.src(e))
}

// ---------------------------------------------------------------- scalar expressions

func (m *bmCtx) hookFn(e ast.Expr) (string, lty, bool, error) {
	if r, ok := m.subst[e]; ok {
		return r.text, r.ty, true, nil
	}
	switch x := e.(type) {
	case *ast.SelectorExpr:
		if r, p, f, ok := m.fieldOf(x); ok {
			switch f.ty.kind {
			case bkScalar:
				return m.placeText(r, p) + "." + sanitize(f.name), f.ty.lt, true, nil
			case bkErr:
				return m.placeText(r, p) + "." + sanitize(f.name), lty{kind: "err"}, true, nil
			}
			return "", lty{}, true, fmt.Errorf("field %q used as a scalar", m.pi.src(x))
		}
	case *ast.Ident:
		obj := m.objOf(x)
		if v, ok := m.vars[obj]; ok && v.ty.kind == bkErr {
			return v.lean, lty{kind: "err"}, true, nil
		}
		if x.Name == "NewFile" && obj != nil && obj.Parent() == m.pi.pkg.Scope() {
			return "Gen.Buf.Err.newFile", lty{kind: "err"}, true, nil
		}
		if x.Name == "nil" {
			if tv, ok := m.pi.info.Types[x]; ok && tv.Type != nil && m.g.typeOf(tv.Type).kind == bkErr {
				return "Gen.Buf.Err.nil", lty{kind: "err"}, true, nil
			}
		}
	case *ast.BinaryExpr:
		if x.Op != token.EQL && x.Op != token.NEQ {
			break
		}
		tx, ty := m.typeOfExpr(x.X), m.typeOfExpr(x.Y)
		neg := x.Op == token.NEQ
		if tx.kind == bkErr || ty.kind == bkErr {
			a, err := m.errText(x.X)
			if err != nil {
				return "", lty{}, true, err
			}
			c, err := m.errText(x.Y)
			if err != nil {
				return "", lty{}, true, err
			}
			op := "=="
			if neg {
				op = "!="
			}
			return fmt.Sprintf("(%s %s %s)", a, op, c), lty{kind: "bool"}, true, nil
		}
		if isNilIdent(x.Y) || isNilIdent(x.X) {
			other := x.X
			if isNilIdent(x.X) {
				other = x.Y
			}
			if r, p, f, ok := m.fieldOf(other); ok && f.nonnil {
				t := m.placeText(r, p) + "." + sanitize(f.name) + "_nonnil"
				if neg {
					return t, lty{kind: "bool"}, true, nil
				}
				return "(!" + t + ")", lty{kind: "bool"}, true, nil
			}
			return "", lty{}, true, fmt.Errorf("comparison %q with nil outside the subset (no nil flag is kept for this value)", m.pi.src(x))
		}
	}
	return "", lty{}, false, nil
}

func (m *bmCtx) errText(e ast.Expr) (string, error) {
	e = unparen(e)
	if isNilIdent(e) {
		return "Gen.Buf.Err.nil", nil
	}
	s, t, err := m.expr(e)
	if err != nil {
		return "", err
	}
	if t.kind != "err" {
		return "", fmt.Errorf("%q is not an error value of the subset", m.pi.src(e))
	}
	return s, nil
}

// hoist binds, in evaluation order, the sub-expressions of a scalar expression that have an
// effect or can panic, and records what they were bound to.
func (m *bmCtx) hoist(e ast.Expr, ind string, b *strings.Builder) error {
	if e == nil {
		return nil
	}
	if _, done := m.subst[e]; done {
		return nil
	}
	switch x := e.(type) {
	case *ast.ParenExpr:
		return m.hoist(x.X, ind, b)
	case *ast.Ident, *ast.BasicLit:
		return nil
	case *ast.SelectorExpr:
		// a scalar field read through pointer fields: their nil checks
		if r, p, _, ok := m.fieldOf(x); ok {
			m.guardPath(r, p, ind, b)
		}
		return nil
	case *ast.UnaryExpr:
		return m.hoist(x.X, ind, b)
	case *ast.StarExpr:
		return m.hoist(x.X, ind, b)
	case *ast.BinaryExpr:
		if x.Op == token.LAND || x.Op == token.LOR {
			var probe strings.Builder
			saved := m.snap()
			savedFresh, savedPure := m.fresh, m.pure
			err := m.hoist(x.Y, ind, &probe)
			m.clearSubst(x.Y)
			m.restore(saved)
			m.fresh, m.pure = savedFresh, savedPure
			if err != nil {
				return err
			}
			if probe.Len() > 0 {
				return fmt.Errorf("right operand of %q has an effect: outside the subset", m.pi.src(x))
			}
		}
		if err := m.hoist(x.X, ind, b); err != nil {
			return err
		}
		return m.hoist(x.Y, ind, b)
	case *ast.IndexExpr:
		if n, ok := m.elemSub[m.pi.src(x)]; ok {
			m.subst[x] = substVal{n, lty{"bv", 64, true}}
			return nil
		}
		// []int element
		arr, err := m.intsOf(x.X, ind, b)
		if err != nil {
			return err
		}
		i, ti, err := m.value(x.Index, ind, b)
		if err != nil {
			return err
		}
		if ti.kind != bkScalar || ti.lt.w != 64 {
			return fmt.Errorf("index %q is not a 64-bit integer", m.pi.src(x.Index))
		}
		t := m.freshName("t")
		m.bind(b, ind, fmt.Sprintf("Gen.Buf.rdI %s %s", nfAtom(arr), nfAtom(i)), t)
		m.subst[x] = substVal{t, lty{"bv", 64, true}}
		return nil
	case *ast.CallExpr:
		if tvf, ok := m.pi.info.Types[x.Fun]; ok && tvf.IsType() && len(x.Args) == 1 {
			// int(float64(e) * 1.1): a capacity hint, see Gen.Buf.scale11
			if inner, ok := m.scale11(x); ok {
				s, _, err := m.value(inner, ind, b)
				if err != nil {
					return err
				}
				m.subst[x] = substVal{fmt.Sprintf("(Gen.Buf.scale11 %s)", nfAtom(s)), lty{"bv", 64, true}}
				return nil
			}
			return m.hoist(x.Args[0], ind, b)
		}
		name := m.pi.src(x.Fun)
		switch name {
		case "len":
			if len(x.Args) != 1 {
				break
			}
			switch m.typeOfExpr(x.Args[0]).kind {
			case bkBytes:
				w, err := m.winOf(x.Args[0], ind, b)
				if err != nil {
					return err
				}
				if w.full {
					m.subst[x] = substVal{fmt.Sprintf("(BitVec.ofNat 64 %s.size)", m.arrText(w.base)), lty{"bv", 64, true}}
				} else {
					m.subst[x] = substVal{fmt.Sprintf("(Gen.Buf.Win.len %s)", nfAtom(w.text)), lty{"bv", 64, true}}
				}
				return nil
			case bkInts:
				arr, err := m.intsOf(x.Args[0], ind, b)
				if err != nil {
					return err
				}
				m.subst[x] = substVal{fmt.Sprintf("(BitVec.ofNat 64 %s.size)", nfAtom(arr)), lty{"bv", 64, true}}
				return nil
			}
			return fmt.Errorf("len of %q outside the subset", m.pi.src(x.Args[0]))
		case "copy":
			cnt, err := m.copyCall(x, ind, b)
			if err != nil {
				return err
			}
			m.subst[x] = substVal{cnt, lty{"bv", 64, true}}
			return nil
		case "atomic.LoadUint64":
			if len(x.Args) == 1 {
				if u, ok := x.Args[0].(*ast.UnaryExpr); ok && u.Op == token.AND {
					if err := m.hoist(u.X, ind, b); err != nil {
						return err
					}
					s, t, err := m.expr(u.X)
					if err != nil {
						return err
					}
					m.subst[x] = substVal{s, t}
					return nil
				}
			}
			return fmt.Errorf("call %q outside the subset", m.pi.src(x))
		}
		vals, err := m.call(x, []string{"t"}, ind, b)
		if err != nil {
			return err
		}
		if len(vals) != 1 {
			return fmt.Errorf("call %q in expression position must have one result", m.pi.src(x))
		}
		switch vals[0].ty.kind {
		case bkScalar:
			m.subst[x] = substVal{vals[0].text, vals[0].ty.lt}
		case bkErr:
			m.subst[x] = substVal{vals[0].text, lty{kind: "err"}}
		default:
			return fmt.Errorf("call %q does not yield a scalar", m.pi.src(x))
		}
		return nil
	}
	return fmt.Errorf("expression %q outside the subset", m.pi.src(e))
}

// scale11 recognises `int(float64(e) * 1.1)`.
func (m *bmCtx) scale11(x *ast.CallExpr) (ast.Expr, bool) {
	if id, ok := x.Fun.(*ast.Ident); !ok || id.Name != "int" {
		return nil, false
	}
	mul, ok := unparen(x.Args[0]).(*ast.BinaryExpr)
	if !ok || mul.Op != token.MUL {
		return nil, false
	}
	lit, ok := mul.Y.(*ast.BasicLit)
	if !ok || lit.Value != "1.1" {
		return nil, false
	}
	conv, ok := unparen(mul.X).(*ast.CallExpr)
	if !ok || len(conv.Args) != 1 {
		return nil, false
	}
	if id, ok := conv.Fun.(*ast.Ident); !ok || id.Name != "float64" {
		return nil, false
	}
	return conv.Args[0], true
}

func (m *bmCtx) clearSubst(n ast.Node) {
	if n == nil {
		return
	}
	for e := range m.subst {
		if e.Pos() >= n.Pos() && e.End() <= n.End() {
			delete(m.subst, e)
		}
	}
}

// value hoists and renders a scalar / error expression.
func (m *bmCtx) value(e ast.Expr, ind string, b *strings.Builder) (string, bmType, error) {
	if err := m.hoist(e, ind, b); err != nil {
		return "", bmType{}, err
	}
	s, t, err := m.expr(e)
	if err != nil {
		return "", bmType{}, err
	}
	switch t.kind {
	case "err":
		return s, bmType{kind: bkErr}, nil
	case "bv", "bool":
		return s, bmType{kind: bkScalar, lt: t}, nil
	}
	return "", bmType{}, fmt.Errorf("expression %q has a type outside the subset", m.pi.src(e))
}

// intsOf evaluates an []int-valued expression (by value).
func (m *bmCtx) intsOf(e ast.Expr, ind string, b *strings.Builder) (string, error) {
	e = unparen(e)
	switch x := e.(type) {
	case *ast.Ident:
		if v := m.vars[m.objOf(x)]; v != nil && v.ty.kind == bkInts {
			return v.lean, nil
		}
	case *ast.SelectorExpr:
		if r, p, f, ok := m.fieldOf(x); ok && f.ty.kind == bkInts {
			m.guardPath(r, p, ind, b)
			return m.placeText(r, p) + "." + sanitize(f.name), nil
		}
	case *ast.SliceExpr:
		if x.Slice3 {
			break
		}
		arr, err := m.intsOf(x.X, ind, b)
		if err != nil {
			return "", err
		}
		if x.High != nil {
			// s[:0]: reuse of the capacity; the old elements are dead
			if tv := m.pi.info.Types[x.High]; x.Low == nil && tv.Value != nil && tv.Value.ExactString() == "0" {
				return "(#[] : " + bmIntsT + ")", nil
			}
			break
		}
		lo := "0#64"
		if x.Low != nil {
			s, _, err := m.value(x.Low, ind, b)
			if err != nil {
				return "", err
			}
			lo = s
		}
		t := m.freshName("t")
		m.bind(b, ind, fmt.Sprintf("Gen.Buf.dropI %s %s", nfAtom(arr), nfAtom(lo)), t)
		return t, nil
	case *ast.CallExpr:
		name := m.pi.src(x.Fun)
		if name == "make" && len(x.Args) >= 2 {
			if tv := m.pi.info.Types[x.Args[1]]; tv.Value != nil && tv.Value.ExactString() == "0" {
				return "(#[] : " + bmIntsT + ")", nil
			}
			return "", fmt.Errorf("make with a non-zero length outside the subset")
		}
		if name == "append" && len(x.Args) == 2 {
			arr, err := m.intsOf(x.Args[0], ind, b)
			if err != nil {
				return "", err
			}
			v, _, err := m.value(x.Args[1], ind, b)
			if err != nil {
				return "", err
			}
			return fmt.Sprintf("(%s.push %s)", arr, v), nil
		}
		vals, err := m.call(x, []string{"t"}, ind, b)
		if err != nil {
			return "", err
		}
		if len(vals) == 1 && vals[0].ty.kind == bkInts {
			return vals[0].text, nil
		}
	}
	return "", fmt.Errorf("[]int expression %q outside the subset", m.pi.src(e))
}

// copyCall emits `copy(dst, src)` and returns the count.
func (m *bmCtx) copyCall(x *ast.CallExpr, ind string, b *strings.Builder) (string, error) {
	if len(x.Args) != 2 {
		return "", fmt.Errorf("copy with %d arguments", len(x.Args))
	}
	d, err := m.winOf(x.Args[0], ind, b)
	if err != nil {
		return "", err
	}
	s, err := m.winOf(x.Args[1], ind, b)
	if err != nil {
		return "", err
	}
	if d.base == nil {
		return "", fmt.Errorf("copy into the nil slice outside the subset")
	}
	srcArr, srcWin := "(#[] : "+bmBytesT+")", "Gen.Buf.Win.nil"
	if s.base != nil {
		srcArr, srcWin = m.arrText(s.base), s.text
	}
	r, a, c := m.freshName("r"), m.freshName("a"), m.freshName("c")
	fmt.Fprintf(b, "%slet %s := Gen.Buf.copy %s %s %s %s\n", ind, r, m.arrText(d.base), nfAtom(d.text), srcArr, nfAtom(srcWin))
	fmt.Fprintf(b, "%slet %s : %s := %s.1\n", ind, a, bmBytesT, r)
	fmt.Fprintf(b, "%slet %s : BitVec 64 := %s.2\n", ind, c, r)
	if err := m.writeArr(d.base, a, ind, b); err != nil {
		return "", err
	}
	return c, nil
}

// ---------------------------------------------------------------- values of any kind

type bmAny struct {
	bmVal
	freshArr string // bytes: a fresh memory object (its content)
}

// evalAs evaluates e as a value of the wanted kind.
func (m *bmCtx) evalAs(e ast.Expr, want bmType, ind string, b *strings.Builder) (bmAny, error) {
	switch want.kind {
	case bkScalar, bkErr:
		if want.kind == bkErr && isNilIdent(unparen(e)) {
			return bmAny{bmVal: bmVal{ty: want, text: "Gen.Buf.Err.nil"}}, nil
		}
		if want.kind == bkScalar {
			if tv := m.pi.info.Types[e]; tv.Value != nil {
				if s, err := constLit(tv.Value, want.lt); err == nil {
					return bmAny{bmVal: bmVal{ty: want, text: s}}, nil
				}
			}
		}
		s, t, err := m.value(e, ind, b)
		if err != nil {
			return bmAny{}, err
		}
		return bmAny{bmVal: bmVal{ty: t, text: s}}, nil
	case bkBytes:
		if c, ok := unparen(e).(*ast.CallExpr); ok {
			vals, err := m.callAny(c, []string{"w"}, ind, b)
			if err != nil {
				return bmAny{}, err
			}
			if len(vals) != 1 || vals[0].ty.kind != bkBytes {
				return bmAny{}, fmt.Errorf("call %q does not yield one byte slice", m.pi.src(c))
			}
			return vals[0], nil
		}
		w, err := m.winOf(e, ind, b)
		return bmAny{bmVal: w}, err
	case bkInts:
		s, err := m.intsOf(e, ind, b)
		return bmAny{bmVal: bmVal{ty: want, text: s}}, err
	case bkStruct:
		s, err := m.structOf(e, want.st, ind, b)
		return bmAny{bmVal: bmVal{ty: want, text: s}}, err
	case bkFunc:
		s, err := m.funcOf(e)
		return bmAny{bmVal: bmVal{ty: want, text: s}}, err
	}
	return bmAny{}, fmt.Errorf("value %q of a type outside the subset", m.pi.src(e))
}

// funcOf: a function value (a callback parameter or a function-typed field).
func (m *bmCtx) funcOf(e ast.Expr) (string, error) {
	e = unparen(e)
	switch x := e.(type) {
	case *ast.Ident:
		if v := m.vars[m.objOf(x)]; v != nil && v.ty.kind == bkFunc && v.closure == nil {
			if v.stateful {
				return "", fmt.Errorf("the stateful callback %s cannot be stored", x.Name)
			}
			return v.lean, nil
		}
	case *ast.SelectorExpr:
		if r, p, f, ok := m.fieldOf(x); ok && f.ty.kind == bkFunc {
			return m.placeText(r, p) + "." + sanitize(f.name), nil
		}
	}
	return "", fmt.Errorf("function value %q outside the subset", m.pi.src(e))
}

// structOf: a struct value (by value).
func (m *bmCtx) structOf(e ast.Expr, st *bmStruct, ind string, b *strings.Builder) (string, error) {
	e = unparen(e)
	if r, p, _, ok := m.placeOf(e); ok {
		m.guardPath(r, p, ind, b)
		return m.placeText(r, p), nil
	}
	switch x := e.(type) {
	case *ast.UnaryExpr:
		if x.Op == token.AND {
			return m.structOf(x.X, st, ind, b)
		}
	case *ast.CompositeLit:
		return m.composite(x, st, nil, ind, b)
	case *ast.CallExpr:
		vals, err := m.callAny(x, []string{st.goName}, ind, b)
		if err != nil {
			return "", err
		}
		if len(vals) == 1 && vals[0].ty.kind == bkStruct {
			return vals[0].text, nil
		}
	}
	return "", fmt.Errorf("struct value %q outside the subset", m.pi.src(e))
}

// composite translates `T{f: e, …}`.  aliasTo: the variable the literal is assigned to (struct
// variables stored in pointer fields become aliases of those fields).
func (m *bmCtx) composite(x *ast.CompositeLit, st *bmStruct, aliasTo types.Object, ind string, b *strings.Builder) (string, error) {
	given := map[string]string{}
	nonnil := map[string]bool{}
	type al struct {
		obj   types.Object
		field string
	}
	var aliases []al
	for _, el := range x.Elts {
		kv, ok := el.(*ast.KeyValueExpr)
		if !ok {
			return "", fmt.Errorf("positional composite literal outside the subset")
		}
		name := kv.Key.(*ast.Ident).Name
		f := st.field(name)
		if f == nil {
			// a field that is not modelled: its value must have no modelled effect
			if _, isCall := unparen(kv.Value).(*ast.CallExpr); isCall {
				return "", fmt.Errorf("field %s of %s is not modelled but is initialised by a call", name, st.goName)
			}
			continue
		}
		v, err := m.evalAs(kv.Value, f.ty, ind, b)
		if err != nil {
			return "", err
		}
		text := v.text
		if f.ty.kind == bkBytes {
			switch {
			case v.freshArr != "":
				text = v.freshArr
			case v.full && v.base != nil:
				text = m.arrText(v.base)
			default:
				return "", fmt.Errorf("field %s must be given a whole memory object", name)
			}
		}
		if f.ty.kind == bkStruct {
			if id, ok := unparen(kv.Value).(*ast.Ident); ok {
				if _, isPtr := m.objOf(id).Type().(*types.Pointer); isPtr {
					aliases = append(aliases, al{m.objOf(id), name})
				}
			}
		}
		given[name] = text
		nonnil[name] = true
	}
	parts := []string{}
	for _, f := range st.fields {
		val, ok := given[f.name]
		if !ok {
			switch f.ty.kind {
			case bkScalar:
				if f.ty.lt.kind == "bool" {
					val = "false"
				} else {
					val = fmt.Sprintf("0#%d", f.ty.lt.w)
				}
			case bkBytes:
				val = "#[]"
			case bkInts:
				val = "#[]"
			case bkStruct:
				z, err := m.zeroStruct(f.ty.st)
				if err != nil {
					return "", err
				}
				val = z
			default:
				return "", fmt.Errorf("field %s of %s has no zero value in the subset", f.name, st.goName)
			}
		}
		parts = append(parts, fmt.Sprintf("%s := %s", sanitize(f.name), val))
		if f.nonnil {
			parts = append(parts, fmt.Sprintf("%s_nonnil := %v", sanitize(f.name), nonnil[f.name]))
		}
	}
	if aliasTo != nil {
		for _, a := range aliases {
			if v := m.vars[a.obj]; v != nil {
				v.aliasRoot, v.aliasPath = aliasTo, []string{a.field}
			}
		}
	} else if len(aliases) > 0 {
		return "", fmt.Errorf("a struct literal holding pointers to local structs must be assigned to a variable")
	}
	return "{ " + strings.Join(parts, ", ") + " }", nil
}

func (m *bmCtx) zeroStruct(st *bmStruct) (string, error) {
	parts := []string{}
	for _, f := range st.fields {
		val := ""
		switch f.ty.kind {
		case bkScalar:
			if f.ty.lt.kind == "bool" {
				val = "false"
			} else {
				val = fmt.Sprintf("0#%d", f.ty.lt.w)
			}
		case bkBytes, bkInts:
			val = "#[]"
		case bkStruct:
			z, err := m.zeroStruct(f.ty.st)
			if err != nil {
				return "", err
			}
			val = z
		default:
			return "", fmt.Errorf("field %s of %s has no zero value in the subset", f.name, st.goName)
		}
		parts = append(parts, fmt.Sprintf("%s := %s", sanitize(f.name), val))
		if f.nonnil {
			parts = append(parts, fmt.Sprintf("%s_nonnil := false", sanitize(f.name)))
		}
	}
	return "{ " + strings.Join(parts, ", ") + " }", nil
}

// ---------------------------------------------------------------- calls

func (m *bmCtx) call(x *ast.CallExpr, hints []string, ind string, b *strings.Builder) ([]bmVal, error) {
	vals, err := m.callAny(x, hints, ind, b)
	if err != nil {
		return nil, err
	}
	out := []bmVal{}
	for _, v := range vals {
		if v.freshArr != "" {
			return nil, fmt.Errorf("call %q yields a fresh memory object: it must be assigned to a variable or a field", m.pi.src(x))
		}
		out = append(out, v.bmVal)
	}
	return out, nil
}

func hintAt(hints []string, i int, def string) string {
	if i < len(hints) && hints[i] != "" {
		return hints[i]
	}
	return def
}

func (m *bmCtx) callAny(x *ast.CallExpr, hints []string, ind string, b *strings.Builder) ([]bmAny, error) {
	name := m.pi.src(x.Fun)
	if ex, ok := bufmExterns[name]; ok {
		return m.externCall(name, ex, x, nil, nil, hints, ind, b)
	}
	if bufmSkip[name] {
		return nil, nil
	}
	switch name {
	case "sort.Slice":
		return nil, m.sortSliceCall(x, ind, b)
	case "binary.BigEndian.Uint64", "binary.LittleEndian.Uint64":
		if len(x.Args) != 1 {
			break
		}
		w, err := m.winOf(x.Args[0], ind, b)
		if err != nil {
			return nil, err
		}
		if w.base == nil {
			return nil, fmt.Errorf("%s of the nil slice", name)
		}
		prim := "Gen.Buf.getU64be"
		if strings.Contains(name, "Little") {
			prim = "Gen.Buf.getU64le"
		}
		t := m.freshName(hintAt(hints, 0, "t"))
		m.bind(b, ind, fmt.Sprintf("%s %s %s", prim, m.arrText(w.base), nfAtom(w.text)), t)
		return []bmAny{{bmVal: bmVal{ty: bmType{kind: bkScalar, lt: lty{"bv", 64, false}}, text: t}}}, nil
	case "binary.BigEndian.PutUint64", "binary.LittleEndian.PutUint64":
		if len(x.Args) != 2 {
			break
		}
		w, err := m.winOf(x.Args[0], ind, b)
		if err != nil {
			return nil, err
		}
		if w.base == nil {
			return nil, fmt.Errorf("%s into the nil slice", name)
		}
		v, _, err := m.value(x.Args[1], ind, b)
		if err != nil {
			return nil, err
		}
		prim := "Gen.Buf.putU64be"
		if strings.Contains(name, "Little") {
			prim = "Gen.Buf.putU64le"
		}
		a := m.freshName("a")
		m.bind(b, ind, fmt.Sprintf("%s %s %s %s", prim, m.arrText(w.base), nfAtom(w.text), nfAtom(v)), a)
		if err := m.writeArr(w.base, a, ind, b); err != nil {
			return nil, err
		}
		return nil, nil
	}
	switch f := x.Fun.(type) {
	case *ast.Ident:
		obj := m.objOf(f)
		if v := m.vars[obj]; v != nil && v.ty.kind == bkFunc && v.closure == nil {
			return m.cbCall(v.lean, v.stateful, v.ty.sig, x, hints, ind, b)
		}
		if fn, ok := m.g.funcs[f.Name]; ok {
			if _, isFn := obj.(*types.Func); isFn {
				return m.funcCall(fn, nil, nil, x, hints, ind, b)
			}
		}
	case *ast.SelectorExpr:
		if r, p, st, ok := m.placeOf(f.X); ok {
			key := st.goName + "." + f.Sel.Name
			if ex, ok := bufmExterns[key]; ok {
				return m.externCall(key, ex, x, r, p, hints, ind, b)
			}
			if bufmSkip[key] {
				return nil, nil
			}
			if fn, ok := m.g.funcs[key]; ok {
				return m.funcCall(fn, r, p, x, hints, ind, b)
			}
			if fld := st.field(f.Sel.Name); fld != nil && fld.ty.kind == bkFunc {
				m.guardPath(r, p, ind, b)
				return m.cbCall(m.placeText(r, p)+"."+sanitize(fld.name), false, fld.ty.sig, x, hints, ind, b)
			}
		}
	}
	return nil, fmt.Errorf("call %q outside the subset (callee not translated)", m.pi.src(x))
}

// fuelText substitutes `$x` by the current Lean value of the Go variable x.
func (m *bmCtx) fuelText(tpl string) (string, error) {
	var out strings.Builder
	for i := 0; i < len(tpl); i++ {
		if tpl[i] != '$' {
			out.WriteByte(tpl[i])
			continue
		}
		j := i + 1
		for j < len(tpl) && (tpl[j] == '_' || tpl[j] >= 'a' && tpl[j] <= 'z' || tpl[j] >= 'A' && tpl[j] <= 'Z' || tpl[j] >= '0' && tpl[j] <= '9') {
			j++
		}
		name := tpl[i+1 : j]
		found := ""
		for obj, v := range m.vars {
			if obj.Name() == name && obj.Pos() >= m.fn.fd.Pos() && obj.Pos() <= m.fn.fd.End() {
				switch {
				case v.ty.kind == bkStruct && v.aliasRoot != nil:
					found = m.placeText(v.aliasRoot, v.aliasPath)
				case v.ty.kind == bkBytes:
					if v.base == nil {
						found = "Gen.Buf.Win.nil"
					} else if v.lean == "" {
						found = m.fullWin(v.base)
					} else {
						found = v.lean
					}
				default:
					found = v.lean
				}
			}
		}
		if found == "" {
			for obj, n := range m.env {
				if obj.Name() == name && obj.Pos() >= m.fn.fd.Pos() && obj.Pos() <= m.fn.fd.End() {
					found = n
				}
			}
		}
		if found == "" {
			return "", fmt.Errorf("loop bound %q: no variable %s", tpl, name)
		}
		out.WriteString(found)
		i = j - 1
	}
	return out.String(), nil
}

func (m *bmCtx) funcCall(fn *bmFunc, root types.Object, path []string, x *ast.CallExpr, hints []string, ind string, b *strings.Builder) ([]bmAny, error) {
	parts := []string{fn.lean}
	if fn.hasFuel {
		switch {
		case fn == m.fn:
			parts = append(parts, "fuel")
		case m.fn.spec.RecFuel != "":
			ft, err := m.fuelText(m.fn.spec.RecFuel)
			if err != nil {
				return nil, err
			}
			parts = append(parts, "("+ft+")")
		default:
			return nil, fmt.Errorf("call of the recursive %s needs a RecFuel bound in the spec", fn.key)
		}
	}
	if fn.usesOS {
		parts = append(parts, "os")
		m.fn.usesOS = true
	}
	if fn.usesSort {
		parts = append(parts, "sortFn")
		m.fn.usesSort = true
	}
	if fn.recv != nil {
		if root == nil {
			return nil, fmt.Errorf("method %s called without a struct receiver", fn.key)
		}
		m.guardPath(root, path, ind, b)
	}
	if len(x.Args) != len(fn.params) {
		return nil, fmt.Errorf("call %q: arity mismatch (multi-value forwarding outside the subset)", m.pi.src(x))
	}
	argBase := make([]*bmBase, len(fn.params))
	args := []string{}
	for i, p := range fn.params {
		a := x.Args[i]
		switch p.ty.kind {
		case bkOpaque:
			continue
		case bkBytes:
			w, err := m.winOf(a, ind, b)
			if err != nil {
				return nil, err
			}
			argBase[i] = w.base
			if p.alias != nil {
				want := &bmBase{root: root, path: append(append([]string{}, path...), p.alias...)}
				if w.base != nil && !w.base.same(want) {
					return nil, fmt.Errorf("argument %q of %s must be a slice of the receiver's %s", m.pi.src(a), fn.key, strings.Join(p.alias, "."))
				}
				args = append(args, nfAtom(w.text))
				continue
			}
			if w.base == nil {
				args = append(args, "(#[] : "+bmBytesT+")", "Gen.Buf.Win.nil")
			} else {
				args = append(args, nfAtom(m.arrText(w.base)), nfAtom(w.text))
			}
		default:
			v, err := m.evalAs(a, p.ty, ind, b)
			if err != nil {
				return nil, err
			}
			if p.ty.kind == bkFunc {
				if id, ok := unparen(a).(*ast.Ident); ok {
					if cv := m.vars[m.objOf(id)]; cv != nil && cv.stateful != fn.cbState {
						return nil, fmt.Errorf("callback %s: state threading does not match %s", id.Name, fn.key)
					}
				}
			}
			args = append(args, nfAtom(v.text))
		}
	}
	if fn.recv != nil {
		parts = append(parts, nfAtom(m.placeText(root, path)))
	}
	parts = append(parts, args...)
	if fn.cbState {
		if m.cbName == "" {
			return nil, fmt.Errorf("call of %s needs a callback state", fn.key)
		}
		parts = append(parts, m.cbName)
	}
	pats := []string{}
	newRecv, newCb := "", ""
	if fn.mutates {
		newRecv = m.freshName(root.Name())
		if len(path) > 0 {
			newRecv = m.freshName(path[len(path)-1])
		}
		pats = append(pats, newRecv)
	}
	if fn.cbState {
		newCb = m.freshName("st")
		pats = append(pats, newCb)
	}
	out := []bmAny{}
	for i, r := range fn.results {
		h := hintAt(hints, i, "t")
		if h == "_" {
			pats = append(pats, "_")
			out = append(out, bmAny{bmVal: bmVal{ty: r.ty, text: "_"}})
			continue
		}
		n := m.freshName(h)
		pats = append(pats, n)
		v := bmVal{ty: r.ty, text: n}
		if r.ty.kind == bkBytes {
			switch {
			case strings.HasPrefix(r.base, "recv:"):
				pp := append([]string{}, path...)
				if rest := r.base[len("recv:"):]; rest != "" {
					pp = append(pp, strings.Split(rest, ".")...)
				}
				v.base = &bmBase{root: root, path: pp}
			case strings.HasPrefix(r.base, "param:"):
				var k int
				fmt.Sscanf(r.base[len("param:"):], "%d", &k)
				v.base = argBase[k]
			}
		}
		out = append(out, bmAny{bmVal: v})
	}
	pat := "_"
	if len(pats) == 1 {
		pat = pats[0]
	} else if len(pats) > 1 {
		pat = "(" + strings.Join(pats, ", ") + ")"
	}
	m.bind(b, ind, strings.Join(parts, " "), pat)
	if fn.mutates {
		m.setPlace(root, path, newRecv, ind, b)
	}
	if fn.cbState {
		m.cbName = newCb
	}
	for _, mv := range fn.moves {
		base := &bmBase{root: root, path: append(append([]string{}, path...), mv...)}
		m.markStale(base, fmt.Sprintf("the call %s, which may move the memory", firstLine(m.pi.src(x))), nil)
		if root == m.recvObj {
			m.noteMove(base.path)
		}
	}
	return out, nil
}

func (m *bmCtx) noteMove(path []string) {
	for _, p := range m.fn.moves {
		if strings.Join(p, ".") == strings.Join(path, ".") {
			return
		}
	}
	m.fn.moves = append(m.fn.moves, append([]string{}, path...))
}

func (m *bmCtx) externCall(key string, ex bmExternSpec, x *ast.CallExpr, root types.Object, path []string, hints []string, ind string, b *strings.Builder) ([]bmAny, error) {
	parts := []string{ex.Lean}
	if ex.OS {
		m.fn.usesOS = true
	}
	if ex.Mem != "" {
		if root == nil || len(path) == 0 {
			return nil, fmt.Errorf("extern %s must be called on a pointer field", key)
		}
		m.guardPath(root, path, ind, b)
		owner := m.structAt(root, path[:len(path)-1])
		if f := owner.field(ex.Mem); f == nil || f.ty.kind != bkBytes {
			return nil, fmt.Errorf("extern %s: the owner has no []byte field %s", key, ex.Mem)
		}
		parts = append(parts, m.placeText(root, path[:len(path)-1])+"."+sanitize(ex.Mem))
	}
	for _, i := range ex.Args {
		if i >= len(x.Args) {
			return nil, fmt.Errorf("extern %s: missing argument %d", key, i)
		}
		s, _, err := m.value(x.Args[i], ind, b)
		if err != nil {
			return nil, err
		}
		parts = append(parts, nfAtom(s))
	}
	term := strings.Join(parts, " ")
	r := m.freshName("r")
	if ex.Option {
		m.bind(b, ind, term, r)
	} else {
		fmt.Fprintf(b, "%slet %s := %s\n", ind, r, term)
	}
	// components of the Lean result: [Store] ++ modelled results
	comps := []string{}
	if ex.Store != "" {
		comps = append(comps, "store")
	}
	for _, k := range ex.Results {
		if k != "_" {
			comps = append(comps, k)
		}
	}
	proj := func(i int) string {
		if len(comps) == 1 {
			return r
		}
		s := r
		for j := 0; j < i; j++ {
			s += ".2"
		}
		if i < len(comps)-1 {
			s += ".1"
		}
		return s
	}
	ci := 0
	if ex.Store != "" {
		m.setField(root, path, ex.Store, proj(0), "", ind, b)
		ci = 1
	}
	out := []bmAny{}
	for i, k := range ex.Results {
		h := hintAt(hints, i, "t")
		switch k {
		case "_":
			out = append(out, bmAny{bmVal: bmVal{ty: bmType{kind: bkOpaque}, text: "()"}})
			continue
		case "err":
			n := proj(ci)
			if h != "_" {
				n = m.freshName(h)
				fmt.Fprintf(b, "%slet %s : %s := %s\n", ind, n, bmErrT, proj(ci))
			}
			out = append(out, bmAny{bmVal: bmVal{ty: bmType{kind: bkErr}, text: n}})
		case "bytes":
			n := proj(ci)
			if len(comps) > 1 {
				n = m.freshName(h)
				fmt.Fprintf(b, "%slet %s : %s := %s\n", ind, n, bmBytesT, proj(ci))
			}
			out = append(out, bmAny{bmVal: bmVal{ty: bmType{kind: bkBytes}}, freshArr: n})
		default:
			st, ok := m.g.structs[k]
			if !ok {
				return nil, fmt.Errorf("extern %s: unknown result kind %s", key, k)
			}
			n := m.freshName(h)
			fmt.Fprintf(b, "%slet %s : %s := %s\n", ind, n, st.lean, proj(ci))
			out = append(out, bmAny{bmVal: bmVal{ty: bmType{kind: bkStruct, st: st}, text: n}})
		}
		ci++
	}
	return out, nil
}

// cbCall: a call of a function value.  []byte arguments are handed over by value.
func (m *bmCtx) cbCall(fn string, stateful bool, sig *types.Signature, x *ast.CallExpr, hints []string, ind string, b *strings.Builder) ([]bmAny, error) {
	parts := []string{fn}
	if stateful {
		if m.cbName == "" {
			return nil, fmt.Errorf("callback state missing")
		}
		parts = append(parts, m.cbName)
	}
	for i, a := range x.Args {
		t := m.g.typeOf(sig.Params().At(i).Type())
		switch t.kind {
		case bkBytes:
			w, err := m.winOf(a, ind, b)
			if err != nil {
				return nil, err
			}
			if w.base == nil {
				parts = append(parts, "(#[] : "+bmBytesT+")")
			} else {
				parts = append(parts, fmt.Sprintf("(Gen.Buf.bytesOf %s %s)", m.arrText(w.base), nfAtom(w.text)))
			}
		case bkScalar:
			s, _, err := m.value(a, ind, b)
			if err != nil {
				return nil, err
			}
			parts = append(parts, nfAtom(s))
		default:
			return nil, fmt.Errorf("callback argument %q outside the subset", m.pi.src(a))
		}
	}
	term := strings.Join(parts, " ")
	var rt bmType
	if sig.Results().Len() == 1 {
		rt = m.g.typeOf(sig.Results().At(0).Type())
	}
	if !stateful {
		if sig.Results().Len() != 1 || rt.kind != bkScalar {
			return nil, fmt.Errorf("pure callback must return a scalar")
		}
		return []bmAny{{bmVal: bmVal{ty: rt, text: "(" + term + ")"}}}, nil
	}
	r := m.freshName("r")
	fmt.Fprintf(b, "%slet %s := %s\n", ind, r, term)
	st := m.freshName("st")
	fmt.Fprintf(b, "%slet %s := %s.1\n", ind, st, r)
	m.cbName = st
	if sig.Results().Len() == 0 {
		return nil, nil
	}
	n := m.freshName(hintAt(hints, 0, "err"))
	fmt.Fprintf(b, "%slet %s : %s := %s.2\n", ind, n, bmErrT, r)
	return []bmAny{{bmVal: bmVal{ty: rt, text: n}}}, nil
}

// ---------------------------------------------------------------- assignment

// bindVar gives the Go variable obj (new or existing) the value v.
func (m *bmCtx) bindVar(id *ast.Ident, obj types.Object, v bmAny, ind string, b *strings.Builder) error {
	t := m.g.typeOf(obj.Type())
	isName := func(s string) bool {
		if s == "(BitVec.ofInt 64 (-1))" {
			return true
		}
		if i := strings.Index(s, "#"); i > 0 && !strings.ContainsAny(s, " ().") {
			return true // a literal
		}
		return s != "" && !strings.ContainsAny(s, " ().#")
	}
	switch t.kind {
	case bkScalar:
		lt, _ := leanType(obj.Type())
		nm := v.text
		if !isName(v.text) || v.text == m.env[obj] {
			nm = m.freshName(id.Name)
			fmt.Fprintf(b, "%slet %s : %s := %s\n", ind, nm, lt.lean(), v.text)
		}
		m.env[obj] = nm
	case bkErr:
		nm := v.text
		if !isName(v.text) {
			nm = m.freshName(id.Name)
			fmt.Fprintf(b, "%slet %s : %s := %s\n", ind, nm, bmErrT, v.text)
		}
		m.vars[obj] = &bmVar{ty: t, lean: nm}
	case bkInts:
		nm := v.text
		if !isName(v.text) {
			nm = m.freshName(id.Name)
			fmt.Fprintf(b, "%slet %s : %s := %s\n", ind, nm, bmIntsT, v.text)
		}
		m.vars[obj] = &bmVar{ty: t, lean: nm}
	case bkStruct:
		nm := v.text
		if !isName(v.text) {
			nm = m.freshName(id.Name)
			fmt.Fprintf(b, "%slet %s : %s := %s\n", ind, nm, t.st.lean, v.text)
		}
		m.vars[obj] = &bmVar{ty: t, lean: nm}
	case bkBytes:
		if old := m.vars[obj]; old != nil && old.arr != "" {
			return fmt.Errorf("re-assignment of the memory variable %s outside the subset", id.Name)
		}
		switch {
		case v.freshArr != "":
			m.vars[obj] = &bmVar{ty: t, base: &bmBase{local: obj}, arr: v.freshArr}
		case v.base == nil:
			m.vars[obj] = &bmVar{ty: t, lean: "Gen.Buf.Win.nil"}
		case v.full:
			m.vars[obj] = &bmVar{ty: t, base: v.base}
		default:
			nm := v.text
			if !isName(v.text) {
				nm = m.freshName(id.Name)
				fmt.Fprintf(b, "%slet %s : %s := %s\n", ind, nm, bmWinT, v.text)
			}
			m.vars[obj] = &bmVar{ty: t, base: v.base, lean: nm}
		}
	case bkOpaque:
		// not modelled (files, strings)
	default:
		return fmt.Errorf("assignment to %s of a type outside the subset", id.Name)
	}
	return nil
}

// storeField performs `P.f = v`.
func (m *bmCtx) storeField(lhs *ast.SelectorExpr, v bmAny, ind string, b *strings.Builder) error {
	r, p, f, ok := m.fieldOf(lhs)
	if !ok {
		if rr, _, st, ok2 := m.placeOf(lhs.X); ok2 && rr != nil && st.field(lhs.Sel.Name) == nil {
			return nil // a field that is not modelled
		}
		return fmt.Errorf("assignment target %q outside the subset", m.pi.src(lhs))
	}
	m.guardPath(r, p, ind, b)
	nonnil := ""
	if f.nonnil {
		nonnil = "true"
	}
	switch f.ty.kind {
	case bkScalar, bkErr, bkInts, bkFunc:
		m.setField(r, p, f.name, v.text, "", ind, b)
	case bkStruct:
		m.setField(r, p, f.name, v.text, nonnil, ind, b)
	case bkBytes:
		base := &bmBase{root: r, path: append(append([]string{}, p...), f.name)}
		var text string
		switch {
		case v.freshArr != "":
			text = v.freshArr
		case v.base != nil && v.full:
			text = m.arrText(v.base)
			if v.base.local != nil {
				if lv := m.vars[v.base.local]; lv != nil {
					defer func() { lv.stale = fmt.Sprintf("its memory became %s", m.pi.src(lhs)) }()
				}
			}
		case v.base == nil:
			text, nonnil = "#[]", "false"
		default:
			return fmt.Errorf("%q must be given a whole memory object", m.pi.src(lhs))
		}
		m.markStale(base, fmt.Sprintf("the assignment to %s", m.pi.src(lhs)), nil)
		m.setField(r, p, f.name, text, nonnil, ind, b)
		if r == m.recvObj {
			m.noteMove(base.path)
		}
	default:
		return fmt.Errorf("assignment target %q outside the subset", m.pi.src(lhs))
	}
	return nil
}

func (m *bmCtx) lhsType(l ast.Expr) bmType {
	l = unparen(l)
	if id, ok := l.(*ast.Ident); ok {
		if id.Name == "_" {
			return bmType{kind: bkOpaque}
		}
		if o := m.objOf(id); o != nil {
			return m.g.typeOf(o.Type())
		}
	}
	if _, _, f, ok := m.fieldOf(l); ok {
		return f.ty
	}
	return m.typeOfExpr(l)
}

func (m *bmCtx) assignStmt(x *ast.AssignStmt, ind string, b *strings.Builder) error {
	// op-assign
	if x.Tok != token.ASSIGN && x.Tok != token.DEFINE {
		if len(x.Lhs) != 1 || len(x.Rhs) != 1 {
			return fmt.Errorf("op-assign with several operands")
		}
		return m.opAssign(x.Lhs[0], x.Tok, x.Rhs[0], ind, b)
	}
	// closures
	if len(x.Lhs) == 1 && len(x.Rhs) == 1 {
		if lit, ok := x.Rhs[0].(*ast.FuncLit); ok {
			id, ok := x.Lhs[0].(*ast.Ident)
			if !ok || lit.Type.Params.NumFields() != 0 || lit.Type.Results.NumFields() != 0 || containsReturn(lit.Body.List) {
				return fmt.Errorf("closure %q outside the subset (no parameters, results or return)", firstLine(m.pi.src(x)))
			}
			m.vars[m.objOf(id)] = &bmVar{ty: bmType{kind: bkFunc}, closure: lit}
			return nil
		}
	}
	var vals []bmAny
	if len(x.Rhs) == 1 && len(x.Lhs) > 1 {
		c, ok := unparen(x.Rhs[0]).(*ast.CallExpr)
		if !ok {
			return fmt.Errorf("tuple assignment %q outside the subset", firstLine(m.pi.src(x)))
		}
		hints := []string{}
		for _, l := range x.Lhs {
			if id, ok := l.(*ast.Ident); ok {
				hints = append(hints, id.Name)
			} else {
				hints = append(hints, "t")
			}
		}
		var err error
		vals, err = m.callAny(c, hints, ind, b)
		if err != nil {
			return err
		}
		if len(vals) != len(x.Lhs) {
			return fmt.Errorf("call %q yields %d values for %d targets", m.pi.src(c), len(vals), len(x.Lhs))
		}
	} else {
		if len(x.Lhs) != len(x.Rhs) {
			return fmt.Errorf("assignment %q outside the subset", firstLine(m.pi.src(x)))
		}
		for i, r := range x.Rhs {
			want := m.lhsType(x.Lhs[i])
			if want.kind == bkOpaque {
				if _, isCall := unparen(r).(*ast.CallExpr); isCall {
					return fmt.Errorf("value of %q is not modelled", m.pi.src(r))
				}
				vals = append(vals, bmAny{bmVal: bmVal{ty: want}})
				continue
			}
			// a composite literal assigned to a variable: pointer fields alias local structs
			if id, ok := x.Lhs[i].(*ast.Ident); ok && want.kind == bkStruct {
				rr := unparen(r)
				if u, ok := rr.(*ast.UnaryExpr); ok && u.Op == token.AND {
					rr = unparen(u.X)
				}
				if cl, ok := rr.(*ast.CompositeLit); ok {
					obj := m.objOf(id)
					nm := m.freshName(id.Name)
					text, err := m.composite(cl, want.st, obj, ind, b)
					if err != nil {
						return err
					}
					fmt.Fprintf(b, "%slet %s : %s := %s\n", ind, nm, want.st.lean, text)
					vals = append(vals, bmAny{bmVal: bmVal{ty: want, text: nm}})
					continue
				}
			}
			v, err := m.evalAs(r, want, ind, b)
			if err != nil {
				return err
			}
			vals = append(vals, v)
		}
	}
	for i, l := range x.Lhs {
		switch lx := unparen(l).(type) {
		case *ast.Ident:
			if lx.Name == "_" {
				continue
			}
			if err := m.bindVar(lx, m.objOf(lx), vals[i], ind, b); err != nil {
				return err
			}
		case *ast.SelectorExpr:
			if err := m.storeField(lx, vals[i], ind, b); err != nil {
				return err
			}
		default:
			return fmt.Errorf("assignment target %q outside the subset", m.pi.src(l))
		}
	}
	return nil
}

func (m *bmCtx) opAssign(lhs ast.Expr, tok token.Token, rhs ast.Expr, ind string, b *strings.Builder) error {
	ops := map[token.Token]token.Token{
		token.ADD_ASSIGN: token.ADD, token.SUB_ASSIGN: token.SUB, token.MUL_ASSIGN: token.MUL,
		token.QUO_ASSIGN: token.QUO, token.REM_ASSIGN: token.REM, token.AND_ASSIGN: token.AND,
		token.OR_ASSIGN: token.OR, token.XOR_ASSIGN: token.XOR, token.AND_NOT_ASSIGN: token.AND_NOT,
	}
	op, ok := ops[tok]
	if !ok {
		return fmt.Errorf("assignment operator %s outside the subset", tok)
	}
	cur, tl, err := m.value(lhs, ind, b)
	if err != nil {
		return err
	}
	if tl.kind != bkScalar || tl.lt.kind != "bv" {
		return fmt.Errorf("op-assign on a non-integer")
	}
	var r string
	if rhs == nil {
		r = fmt.Sprintf("1#%d", tl.lt.w)
	} else if tv := m.pi.info.Types[rhs]; tv.Value != nil {
		r, err = constLit(tv.Value, tl.lt)
		if err != nil {
			return err
		}
	} else {
		var tr bmType
		r, tr, err = m.value(rhs, ind, b)
		if err != nil {
			return err
		}
		if tr.kind != bkScalar || tr.lt.w != tl.lt.w {
			return fmt.Errorf("width mismatch in %q", m.pi.src(lhs))
		}
	}
	val, err := m.binText(op, cur, tl.lt, r, tl.lt)
	if err != nil {
		return err
	}
	v := bmAny{bmVal: bmVal{ty: tl, text: val}}
	switch lx := unparen(lhs).(type) {
	case *ast.Ident:
		return m.bindVar(lx, m.objOf(lx), v, ind, b)
	case *ast.SelectorExpr:
		return m.storeField(lx, v, ind, b)
	}
	return fmt.Errorf("assignment target %q outside the subset", m.pi.src(lhs))
}

// ---------------------------------------------------------------- joins

type bmComp struct {
	obj  types.Object // nil: the callback state
	ty   string       // Lean type of the component
	what string       // "env", "lean", "arr"
}

func (m *bmCtx) compText(c bmComp, s *bmSnap) string {
	switch {
	case c.obj == nil:
		return s.cb
	case c.what == "env":
		return s.env[c.obj]
	case c.what == "arr":
		return s.vars[c.obj].arr
	}
	v := s.vars[c.obj]
	if v.ty.kind == bkBytes {
		if v.base == nil {
			return "Gen.Buf.Win.nil"
		}
		if v.lean == "" {
			return fmt.Sprintf("(Gen.Buf.Win.full %s.size)", "?") // never: whole-object variables do not change
		}
	}
	return v.lean
}

// changed: the components of the state before `from` that differ in one of the later snapshots.
func (m *bmCtx) changed(from bmSnap, later []bmSnap) ([]bmComp, error) {
	var comps []bmComp
	var objs []types.Object
	seen := map[types.Object]bool{}
	for o := range from.env {
		if !seen[o] {
			seen[o] = true
			objs = append(objs, o)
		}
	}
	for o := range from.vars {
		if !seen[o] {
			seen[o] = true
			objs = append(objs, o)
		}
	}
	sort.Slice(objs, func(i, j int) bool { return objs[i].Pos() < objs[j].Pos() })
	for _, o := range objs {
		if n0, ok := from.env[o]; ok {
			diff := false
			for _, s := range later {
				if s.env[o] != n0 {
					diff = true
				}
			}
			if diff {
				lt, err := leanType(o.Type())
				if err != nil {
					return nil, err
				}
				comps = append(comps, bmComp{obj: o, ty: lt.lean(), what: "env"})
			}
			continue
		}
		v0 := from.vars[o]
		if v0.closure != nil {
			continue
		}
		diffLean, diffArr := false, false
		for _, s := range later {
			v := s.vars[o]
			if v == nil {
				return nil, fmt.Errorf("variable %s vanished", o.Name())
			}
			if v.lean != v0.lean {
				diffLean = true
			}
			if v.arr != v0.arr {
				diffArr = true
			}
			if v0.ty.kind == bkBytes && v0.arr == "" {
				if v.base != nil && v0.base != nil && !v.base.same(v0.base) {
					diffLean = true
				}
				if (v.base == nil) != (v0.base == nil) {
					diffLean = true
				}
			}
			if v.aliasRoot != v0.aliasRoot {
				return nil, fmt.Errorf("struct %s becomes shared inside a branch or loop: outside the subset", o.Name())
			}
		}
		if diffArr {
			comps = append(comps, bmComp{obj: o, ty: bmBytesT, what: "arr"})
		}
		if diffLean {
			t, err := m.g.leanOf(v0.ty)
			if err != nil {
				return nil, err
			}
			comps = append(comps, bmComp{obj: o, ty: t, what: "lean"})
		}
	}
	for _, s := range later {
		if s.cb != from.cb {
			comps = append(comps, bmComp{obj: nil, ty: "σ"})
			break
		}
	}
	return comps, nil
}

// joinBases: the memory object of every changed window after the join; stale flags are or-ed.
func (m *bmCtx) joinBases(comps []bmComp, from bmSnap, later []bmSnap) error {
	for o, v := range m.vars {
		for _, s := range later {
			if sv := s.vars[o]; sv != nil && sv.stale != "" && v.stale == "" {
				v.stale = sv.stale
			}
		}
	}
	for _, c := range comps {
		if c.obj == nil || c.what != "lean" {
			continue
		}
		v := m.vars[c.obj]
		if v.ty.kind != bkBytes {
			continue
		}
		var base *bmBase
		cands := []*bmVar{from.vars[c.obj]}
		for _, s := range later {
			cands = append(cands, s.vars[c.obj])
		}
		for _, sv := range cands {
			if sv.base == nil {
				continue
			}
			if sv.lean == "" {
				return fmt.Errorf("slice %s is a whole memory object on one path and a part on another: outside the subset", c.obj.Name())
			}
			if base != nil && !base.same(sv.base) {
				return fmt.Errorf("slice %s points into different memory objects on different paths", c.obj.Name())
			}
			base = sv.base
		}
		v.base = base
	}
	return nil
}

// adopt gives the components fresh names (the pattern a join / loop binds).
func (m *bmCtx) adopt(comps []bmComp) []string {
	names := []string{}
	for _, c := range comps {
		if c.obj == nil {
			n := m.freshName("st")
			m.cbName = n
			names = append(names, n)
			continue
		}
		n := m.freshName(c.obj.Name())
		names = append(names, n)
		switch c.what {
		case "env":
			m.env[c.obj] = n
		case "arr":
			m.vars[c.obj].arr = n
		default:
			m.vars[c.obj].lean = n
		}
	}
	return names
}

func bmTupleTy(comps []bmComp) string {
	if len(comps) == 0 {
		return "Unit"
	}
	ts := []string{}
	for _, c := range comps {
		ts = append(ts, c.ty)
	}
	if len(ts) == 1 {
		return ts[0]
	}
	return "(" + strings.Join(ts, " × ") + ")"
}

func (m *bmCtx) tupleOf(comps []bmComp, s *bmSnap) string {
	xs := []string{}
	for _, c := range comps {
		xs = append(xs, m.compText(c, s))
	}
	return tuple(xs)
}

func bmJumps(stmts []ast.Stmt) bool {
	found := false
	for _, s := range stmts {
		ast.Inspect(s, func(n ast.Node) bool {
			switch x := n.(type) {
			case *ast.ReturnStmt, *ast.BranchStmt:
				found = true
			case *ast.CallExpr:
				if id, ok := x.Fun.(*ast.Ident); ok && id.Name == "panic" {
					found = true
				}
			case *ast.FuncLit:
				return false
			case *ast.ForStmt, *ast.RangeStmt:
				if containsReturn([]ast.Stmt{x.(ast.Stmt)}) {
					found = true
				}
				return false
			}
			return !found
		})
	}
	return found
}

// ---------------------------------------------------------------- statements

// endsInPanic: a statement list without loops and jumps that ends in `panic(..)`.
func bmEndsInPanic(stmts []ast.Stmt) bool {
	if len(stmts) == 0 {
		return false
	}
	last, ok := stmts[len(stmts)-1].(*ast.ExprStmt)
	if !ok {
		return false
	}
	c, ok := last.X.(*ast.CallExpr)
	if !ok {
		return false
	}
	if id, ok := c.Fun.(*ast.Ident); !ok || id.Name != "panic" {
		return false
	}
	bad := false
	for _, s := range stmts[:len(stmts)-1] {
		ast.Inspect(s, func(n ast.Node) bool {
			switch n.(type) {
			case *ast.ForStmt, *ast.RangeStmt, *ast.ReturnStmt, *ast.BranchStmt, *ast.IfStmt, *ast.SwitchStmt, *ast.DeferStmt, *ast.GoStmt:
				bad = true
			}
			return !bad
		})
	}
	return !bad
}

func (m *bmCtx) block(stmts []ast.Stmt, ind string, k func(ind string) (string, error)) (string, error) {
	if len(stmts) == 0 {
		return k(ind)
	}
	if bmEndsInPanic(stmts) {
		m.pure = false
		return ind + "none", nil
	}
	st, rest := stmts[0], stmts[1:]
	next := func(i string) (string, error) { return m.block(rest, i, k) }
	var b strings.Builder
	if _, isBlock := st.(*ast.BlockStmt); !isBlock {
		m.clearSubst(st) // the statement may be translated more than once (continuations are duplicated)
	}
	if m.opaqueOnly(st) {
		return next(ind) // only values that are not modelled (tags, directories)
	}
	switch x := st.(type) {
	case *ast.EmptyStmt:
		return next(ind)
	case *ast.BlockStmt:
		return m.block(append(append([]ast.Stmt{}, x.List...), rest...), ind, k)
	case *ast.ReturnStmt:
		s, err := m.returnStmt(x, ind, &b)
		if err != nil {
			return "", err
		}
		return b.String() + s, nil
	case *ast.BranchStmt:
		if x.Label != nil {
			return "", fmt.Errorf("labelled %s outside the subset", x.Tok)
		}
		switch x.Tok {
		case token.CONTINUE:
			if m.contK != nil {
				return m.contK(ind)
			}
		case token.BREAK:
			if m.brkK != nil {
				return m.brkK(ind)
			}
		}
		return "", fmt.Errorf("%s outside a loop / switch", x.Tok)
	case *ast.DeclStmt:
		gd := x.Decl.(*ast.GenDecl)
		for _, sp := range gd.Specs {
			vs, ok := sp.(*ast.ValueSpec)
			if !ok {
				return "", fmt.Errorf("declaration outside the subset")
			}
			for i, n := range vs.Names {
				obj := m.pi.info.Defs[n]
				t := m.g.typeOf(obj.Type())
				var v bmAny
				var err error
				if i < len(vs.Values) {
					v, err = m.evalAs(vs.Values[i], t, ind, &b)
					if err != nil {
						return "", err
					}
				} else {
					v, err = m.zeroVal(t)
					if err != nil {
						return "", fmt.Errorf("var %s: %v", n.Name, err)
					}
				}
				if err := m.bindVar(n, obj, v, ind, &b); err != nil {
					return "", err
				}
			}
		}
		r, err := next(ind)
		return b.String() + r, err
	case *ast.AssignStmt:
		if err := m.assignStmt(x, ind, &b); err != nil {
			return "", err
		}
		r, err := next(ind)
		return b.String() + r, err
	case *ast.IncDecStmt:
		tok := token.ADD_ASSIGN
		if x.Tok == token.DEC {
			tok = token.SUB_ASSIGN
		}
		if err := m.opAssign(x.X, tok, nil, ind, &b); err != nil {
			return "", err
		}
		r, err := next(ind)
		return b.String() + r, err
	case *ast.DeferStmt:
		// a deferred call without modelled effect
		ok := true
		var check func(c *ast.CallExpr)
		check = func(c *ast.CallExpr) {
			if lit, isLit := c.Fun.(*ast.FuncLit); isLit {
				for _, s := range lit.Body.List {
					var inner *ast.CallExpr
					switch y := s.(type) {
					case *ast.ExprStmt:
						inner, _ = y.X.(*ast.CallExpr)
					case *ast.AssignStmt:
						if len(y.Rhs) == 1 {
							inner, _ = y.Rhs[0].(*ast.CallExpr)
						}
						for _, l := range y.Lhs {
							if id, isId := l.(*ast.Ident); !isId || id.Name != "_" {
								ok = false
							}
						}
					}
					if inner == nil {
						ok = false
						return
					}
					check(inner)
				}
				return
			}
			name := m.pi.src(c.Fun)
			if sel, isSel := c.Fun.(*ast.SelectorExpr); isSel {
				if _, _, st, isPlace := m.placeOf(sel.X); isPlace {
					name = st.goName + "." + sel.Sel.Name
				}
			}
			if !bufmSkip[name] {
				ok = false
			}
		}
		check(x.Call)
		if !ok {
			return "", fmt.Errorf("defer %q outside the subset (only calls without modelled effect)", firstLine(m.pi.src(x.Call)))
		}
		return next(ind)
	case *ast.ExprStmt:
		call, ok := x.X.(*ast.CallExpr)
		if !ok {
			break
		}
		name := m.pi.src(call.Fun)
		switch name {
		case "panic":
			m.pure = false
			return ind + "none", nil
		case "assert":
			if len(call.Args) != 1 {
				break
			}
			c, _, err := m.value(call.Args[0], ind, &b)
			if err != nil {
				return "", err
			}
			m.bind(&b, ind, "Gen.Buf.guard "+nfAtom(c), "_")
			r, err := next(ind)
			return b.String() + r, err
		case "check", "check2":
			// check(err) / check2(f(..)): log.Fatalf unless the (last) result is nil
			if len(call.Args) != 1 {
				break
			}
			var errText string
			if inner, isCall := unparen(call.Args[0]).(*ast.CallExpr); isCall && name == "check2" {
				vals, err := m.callAny(inner, []string{"_", "err"}, ind, &b)
				if err != nil {
					return "", err
				}
				if len(vals) != 2 || vals[1].ty.kind != bkErr {
					return "", fmt.Errorf("check2(%s): the call must yield (value, error)", m.pi.src(inner))
				}
				errText = vals[1].text
			} else {
				s, t, err := m.value(call.Args[0], ind, &b)
				if err != nil {
					return "", err
				}
				if t.kind != bkErr {
					return "", fmt.Errorf("check of a non-error")
				}
				errText = s
			}
			m.bind(&b, ind, fmt.Sprintf("Gen.Buf.guard (%s == Gen.Buf.Err.nil)", errText), "_")
			r, err := next(ind)
			return b.String() + r, err
		case "copy":
			if _, err := m.copyCall(call, ind, &b); err != nil {
				return "", err
			}
			r, err := next(ind)
			return b.String() + r, err
		}
		// a closure without parameters: expanded here
		if id, ok := call.Fun.(*ast.Ident); ok {
			if v := m.vars[m.objOf(id)]; v != nil && v.closure != nil {
				m.clearSubst(v.closure)
				return m.block(append(append([]ast.Stmt{}, v.closure.Body.List...), rest...), ind, k)
			}
		}
		hints := []string{"_", "_", "_", "_"}
		if _, err := m.callAny(call, hints, ind, &b); err != nil {
			return "", err
		}
		r, err := next(ind)
		return b.String() + r, err
	case *ast.IfStmt:
		if x.Init != nil {
			x2 := *x
			x2.Init = nil
			return m.block(append([]ast.Stmt{x.Init, &x2}, rest...), ind, k)
		}
		return m.ifStmt(x, ind, next)
	case *ast.SwitchStmt:
		return m.switchStmt(x, ind, next)
	case *ast.ForStmt:
		return m.whileStmt(x, ind, next)
	case *ast.RangeStmt:
		return m.rangeStmt(x, ind, next)
	}
	return "", fmt.Errorf("statement %q outside the subset", firstLine(m.pi.src(st)))
}

func (m *bmCtx) zeroVal(t bmType) (bmAny, error) {
	switch t.kind {
	case bkScalar:
		if t.lt.kind == "bool" {
			return bmAny{bmVal: bmVal{ty: t, text: "false"}}, nil
		}
		return bmAny{bmVal: bmVal{ty: t, text: fmt.Sprintf("0#%d", t.lt.w)}}, nil
	case bkErr:
		return bmAny{bmVal: bmVal{ty: t, text: "Gen.Buf.Err.nil"}}, nil
	case bkBytes:
		return bmAny{bmVal: bmVal{ty: t, text: "Gen.Buf.Win.nil"}}, nil
	case bkInts:
		return bmAny{bmVal: bmVal{ty: t, text: "(#[] : " + bmIntsT + ")"}}, nil
	}
	return bmAny{}, fmt.Errorf("zero value outside the subset")
}

func (m *bmCtx) retTuple(vals []string) string {
	parts := []string{}
	if m.fn.mutates {
		parts = append(parts, m.placeTextOfRecv())
	}
	if m.fn.cbState {
		parts = append(parts, m.cbName)
	}
	parts = append(parts, vals...)
	return tuple(parts)
}

func (m *bmCtx) placeTextOfRecv() string {
	v := m.vars[m.recvObj]
	if v.aliasRoot != nil {
		return m.placeText(v.aliasRoot, v.aliasPath)
	}
	return v.lean
}

func (m *bmCtx) returnStmt(x *ast.ReturnStmt, ind string, b *strings.Builder) (string, error) {
	if m.clo != nil {
		if len(x.Results) != 1 {
			return "", fmt.Errorf("closure must return one value")
		}
		v, t, err := m.value(x.Results[0], ind, b)
		if err != nil {
			return "", err
		}
		if t.kind != bkScalar || t.lt.kind != "bool" {
			return "", fmt.Errorf("comparison closure must return a bool")
		}
		now := m.snap()
		ch, err := m.changed(*m.clo, []bmSnap{now})
		if err != nil {
			return "", err
		}
		if len(ch) > 0 {
			return "", fmt.Errorf("comparison closure changes %s: outside the subset", ch[0].ty)
		}
		return ind + "some " + nfAtom(v), nil
	}
	vals := []string{}
	if len(x.Results) == 0 {
		i := 0
		if m.fn.fd.Type.Results != nil {
			for _, f := range m.fn.fd.Type.Results.List {
				for _, n := range f.Names {
					obj := m.pi.info.Defs[n]
					switch m.fn.results[i].ty.kind {
					case bkScalar:
						vals = append(vals, m.env[obj])
					case bkErr, bkInts:
						vals = append(vals, m.vars[obj].lean)
					default:
						return "", fmt.Errorf("naked return of %s outside the subset", n.Name)
					}
					i++
				}
			}
		}
		if i != len(m.fn.results) {
			return "", fmt.Errorf("missing return values")
		}
		return ind + m.retWrap(m.retTuple(vals)), nil
	}
	if len(x.Results) != len(m.fn.results) {
		return "", fmt.Errorf("return %q: multi-value forwarding outside the subset", m.pi.src(x))
	}
	for i, r := range x.Results {
		want := m.fn.results[i].ty
		v, err := m.evalAs(r, want, ind, b)
		if err != nil {
			return "", err
		}
		if want.kind == bkBytes {
			if v.freshArr != "" {
				return "", fmt.Errorf("returning a fresh memory object outside the subset")
			}
			desc := ""
			if v.base != nil {
				switch {
				case v.base.root != nil && v.base.root == m.recvObj:
					desc = "recv:" + strings.Join(v.base.path, ".")
				case v.base.root != nil && m.vars[m.recvObj] != nil && m.vars[m.recvObj].aliasRoot == v.base.root &&
					len(v.base.path) > len(m.vars[m.recvObj].aliasPath):
					desc = "recv:" + strings.Join(v.base.path[len(m.vars[m.recvObj].aliasPath):], ".")
				default:
					for pi, p := range m.fn.params {
						if v.base.local != nil && p.obj == v.base.local {
							desc = fmt.Sprintf("param:%d", pi)
						}
					}
				}
				if desc == "" {
					return "", fmt.Errorf("returned slice %q is neither part of the receiver nor of a parameter", m.pi.src(r))
				}
				if m.resBase[i] != "" && m.resBase[i] != desc {
					return "", fmt.Errorf("returned slices point into different memory objects (%s, %s)", m.resBase[i], desc)
				}
				m.resBase[i] = desc
			}
		}
		vals = append(vals, v.text)
	}
	return ind + m.retWrap(m.retTuple(vals)), nil
}

const bmPhT, bmPhE = "\x00THEN\x00", "\x00ELSE\x00"

func (m *bmCtx) ifStmt(x *ast.IfStmt, ind string, next func(ind string) (string, error)) (string, error) {
	var b strings.Builder
	cond, _, err := m.value(x.Cond, ind, &b)
	if err != nil {
		return "", err
	}
	var elseStmts []ast.Stmt
	switch e := x.Else.(type) {
	case nil:
	case *ast.BlockStmt:
		elseStmts = e.List
	case *ast.IfStmt:
		elseStmts = []ast.Stmt{e}
	}
	saved := m.snap()
	if !bmJumps(x.Body.List) && !bmJumps(elseStmts) {
		outerPure := m.pure
		var snapT, snapE bmSnap
		m.pure = true
		tb, err := m.block(x.Body.List, ind+"    ", func(i string) (string, error) { snapT = m.snap(); return i + bmPhT, nil })
		if err != nil {
			return "", err
		}
		pureT := m.pure
		m.restore(saved)
		m.pure = true
		eb, err := m.block(elseStmts, ind+"    ", func(i string) (string, error) { snapE = m.snap(); return i + bmPhE, nil })
		if err != nil {
			return "", err
		}
		pureE := m.pure
		m.restore(saved)
		comps, err := m.changed(saved, []bmSnap{snapT, snapE})
		if err != nil {
			return "", err
		}
		if err := m.joinBases(comps, saved, []bmSnap{snapT, snapE}); err != nil {
			return "", err
		}
		tT, tE := m.tupleOf(comps, &snapT), m.tupleOf(comps, &snapE)
		names := m.adopt(comps)
		if pureT && pureE {
			m.pure = outerPure
			tb = strings.Replace(tb, bmPhT, tT, 1)
			eb = strings.Replace(eb, bmPhE, tE, 1)
			switch {
			case len(comps) == 0:
				// nothing visible happens
			case len(comps) == 1 && !strings.Contains(strings.TrimSpace(tb), "\n") && !strings.Contains(strings.TrimSpace(eb), "\n"):
				fmt.Fprintf(&b, "%slet %s : %s := if %s then %s else %s\n", ind, names[0], comps[0].ty, cond, strings.TrimSpace(tb), strings.TrimSpace(eb))
			case len(comps) == 1:
				fmt.Fprintf(&b, "%slet %s : %s :=\n%s  if %s then\n%s\n%s  else\n%s\n", ind, names[0], comps[0].ty, ind, cond, tb, ind, eb)
			default:
				j := m.freshName("j")
				fmt.Fprintf(&b, "%slet %s : %s :=\n%s  if %s then\n%s\n%s  else\n%s\n", ind, j, bmTupleTy(comps), ind, cond, tb, ind, eb)
				for i, n := range names {
					p := j
					for k := 0; k < i; k++ {
						p += ".2"
					}
					if i < len(names)-1 {
						p += ".1"
					}
					fmt.Fprintf(&b, "%slet %s : %s := %s\n", ind, n, comps[i].ty, p)
				}
			}
		} else {
			m.pure = false
			tb = strings.Replace(tb, bmPhT, "some "+nfAtom(tT), 1)
			eb = strings.Replace(eb, bmPhE, "some "+nfAtom(tE), 1)
			pat := "_"
			if len(names) > 0 {
				pat = tuple(names)
			}
			fmt.Fprintf(&b, "%s(if %s then\n%s\n%s  else\n%s).bind fun %s =>\n", ind, cond, tb, ind, eb, pat)
		}
		r, err := next(ind)
		if err != nil {
			return "", err
		}
		return b.String() + r, nil
	}
	// a branch leaves the function or the loop round: the rest goes into both branches
	m.pure = false
	tb, err := m.block(x.Body.List, ind+"  ", next)
	if err != nil {
		return "", err
	}
	afterT := m.snap()
	m.restore(saved)
	eb, err := m.block(elseStmts, ind+"  ", next)
	if err != nil {
		return "", err
	}
	_ = afterT
	m.restore(saved)
	fmt.Fprintf(&b, "%sif %s then\n%s\n%selse\n%s", ind, cond, tb, ind, eb)
	return b.String(), nil
}

// switchStmt: `switch tag { case c…: …; default: … }`, `break` leaves the switch.
func (m *bmCtx) switchStmt(x *ast.SwitchStmt, ind string, next func(ind string) (string, error)) (string, error) {
	if x.Init != nil || x.Tag == nil {
		return "", fmt.Errorf("switch %q outside the subset (want `switch tag {`)", firstLine(m.pi.src(x)))
	}
	var b strings.Builder
	tag, tt, err := m.value(x.Tag, ind, &b)
	if err != nil {
		return "", err
	}
	if tt.kind != bkScalar {
		return "", fmt.Errorf("switch on a non-scalar")
	}
	var clauses []*ast.CaseClause
	var def *ast.CaseClause
	for _, s := range x.Body.List {
		cc := s.(*ast.CaseClause)
		if cc.List == nil {
			def = cc
		} else {
			clauses = append(clauses, cc)
		}
		for _, bs := range cc.Body {
			if br, ok := bs.(*ast.BranchStmt); ok && br.Tok == token.FALLTHROUGH {
				return "", fmt.Errorf("fallthrough outside the subset")
			}
		}
	}
	m.pure = false
	saved := m.snap()
	oldBrk := m.brkK
	m.brkK = next
	defer func() { m.brkK = oldBrk }()
	var build func(i int, ind2 string) (string, error)
	build = func(i int, ind2 string) (string, error) {
		if i == len(clauses) {
			body := []ast.Stmt{}
			if def != nil {
				body = def.Body
			}
			m.restore(saved)
			return m.block(body, ind2, next)
		}
		cc := clauses[i]
		conds := []string{}
		for _, e := range cc.List {
			tv := m.pi.info.Types[e]
			if tv.Value == nil {
				return "", fmt.Errorf("non-constant case %q outside the subset", m.pi.src(e))
			}
			lit, err := constLit(tv.Value, tt.lt)
			if err != nil {
				return "", err
			}
			conds = append(conds, fmt.Sprintf("(%s == %s)", tag, lit))
		}
		m.restore(saved)
		tb, err := m.block(cc.Body, ind2+"  ", next)
		if err != nil {
			return "", err
		}
		eb, err := build(i+1, ind2+"  ")
		if err != nil {
			return "", err
		}
		return fmt.Sprintf("%sif %s then\n%s\n%selse\n%s", ind2, strings.Join(conds, " || "), tb, ind2, eb), nil
	}
	r, err := build(0, ind)
	if err != nil {
		return "", err
	}
	m.restore(saved)
	return b.String() + r, nil
}

// ---------------------------------------------------------------- loops

type bmLoopProbe struct {
	snaps []bmSnap
}

// loopState finds, by a dry run of the body, the outer state a loop round changes.
func (m *bmCtx) loopState(body []ast.Stmt, extra func(), bodyNode ast.Node) ([]bmComp, []bmSnap, error) {
	entry := m.snap()
	savedFresh, savedAux, savedLoops, savedWhile, savedPure := m.fresh, len(m.aux), m.nloops, m.nwhile, m.pure
	oldRet, oldCont, oldBrk := m.retWrap, m.contK, m.brkK
	var snaps []bmSnap
	rec := func(string) (string, error) { snaps = append(snaps, m.snap()); return "", nil }
	m.retWrap = func(v string) string { return "" }
	m.contK, m.brkK = rec, rec
	if extra != nil {
		extra()
	}
	_, err := m.block(body, "", rec)
	m.retWrap, m.contK, m.brkK = oldRet, oldCont, oldBrk
	m.restore(entry)
	m.fresh, m.aux, m.nloops, m.nwhile, m.pure = savedFresh, m.aux[:savedAux], savedLoops, savedWhile, savedPure
	m.clearSubst(bodyNode)
	if err != nil {
		return nil, nil, err
	}
	comps, err := m.changed(entry, snaps)
	return comps, snaps, err
}

// captured: the outer names a piece of generated text mentions, with their Lean types.
func (m *bmCtx) captured(text string, s *bmSnap, exclude map[string]bool) ([]string, []string) {
	mentions := func(name string) bool {
		if name == "" {
			return false
		}
		isId := func(c byte) bool {
			return c == '_' || c == '\'' || c >= '0' && c <= '9' || c >= 'a' && c <= 'z' || c >= 'A' && c <= 'Z'
		}
		for i := 0; i+len(name) <= len(text); i++ {
			if text[i:i+len(name)] != name {
				continue
			}
			if (i == 0 || !isId(text[i-1]) && text[i-1] != '.') && (i+len(name) == len(text) || !isId(text[i+len(name)])) {
				return true
			}
		}
		return false
	}
	var names, decls []string
	seen := map[string]bool{}
	add := func(n, t string) {
		if n == "" || seen[n] || exclude[n] || !mentions(n) {
			return
		}
		seen[n] = true
		names = append(names, n)
		decls = append(decls, fmt.Sprintf("(%s : %s)", n, t))
	}
	if m.fn.hasFuel {
		add("fuel", "Nat")
	}
	add("os", "Gen.Buf.OS")
	add("sortFn", "Gen.Buf.SortFn")
	var objs []types.Object
	for o := range s.env {
		objs = append(objs, o)
	}
	for o := range s.vars {
		objs = append(objs, o)
	}
	sort.Slice(objs, func(i, j int) bool { return objs[i].Pos() < objs[j].Pos() })
	for _, o := range objs {
		if n, ok := s.env[o]; ok {
			if lt, err := leanType(o.Type()); err == nil {
				add(n, lt.lean())
			}
			continue
		}
		v := s.vars[o]
		if v.closure != nil {
			continue
		}
		if v.arr != "" {
			add(v.arr, bmBytesT)
		}
		if t, err := m.g.leanOf(v.ty); err == nil {
			add(v.lean, t)
		}
	}
	if s.cb != "" {
		add(s.cb, "σ")
	}
	return names, decls
}

func (m *bmCtx) loopCommon(x ast.Stmt, body []ast.Stmt, bodyNode ast.Node, ind string, next func(ind string) (string, error),
	header func(b *strings.Builder) (extra func(), itemName string, err error),
	inside func() error,
	render func(loopFn, init string, stPat string, b *strings.Builder) error) (string, error) {
	var b strings.Builder
	extra, itemName, err := header(&b)
	if err != nil {
		return "", err
	}
	comps, probes, err := m.loopState(body, extra, bodyNode)
	if err != nil {
		return "", err
	}
	entry := m.snap()
	// memory objects of the loop-carried windows (a nil slice adopts what the body gives it)
	if err := m.joinBases(comps, entry, probes); err != nil {
		return "", err
	}
	for o, v := range m.vars { // joinBases or-ed the stale flags of the probes into the entry state
		entry.vars[o].stale = v.stale
		entry.vars[o].base = v.base
	}
	init := m.tupleOf(comps, &entry)
	stNames := m.adopt(comps)
	if extra != nil {
		extra()
	}
	inLoop := m.snap()
	if inside != nil {
		if err := inside(); err != nil {
			return "", err
		}
	}
	oldRet, oldCont, oldBrk := m.retWrap, m.contK, m.brkK
	check := func() error {
		for _, c := range comps {
			if c.obj == nil || c.what != "lean" {
				continue
			}
			v := m.vars[c.obj]
			if v.ty.kind != bkBytes {
				continue
			}
			if v.stale != "" {
				return fmt.Errorf("slice %s is carried around the loop after %s", c.obj.Name(), v.stale)
			}
			if v.base != nil && !v.base.same(inLoop.vars[c.obj].base) {
				return fmt.Errorf("slice %s changes its memory object inside the loop", c.obj.Name())
			}
		}
		return nil
	}
	cur := func() bmSnap { return m.snap() }
	m.retWrap = func(v string) string { return "some (Gen.Buf.LoopOut.ret " + nfAtom(v) + ")" }
	m.contK = func(i string) (string, error) {
		if err := check(); err != nil {
			return "", err
		}
		s := cur()
		return i + "some (Gen.Buf.LoopOut.next " + nfAtom(m.tupleOf(comps, &s)) + ")", nil
	}
	m.brkK = func(i string) (string, error) {
		if err := check(); err != nil {
			return "", err
		}
		s := cur()
		return i + "some (Gen.Buf.LoopOut.brk " + nfAtom(m.tupleOf(comps, &s)) + ")", nil
	}
	bodyText, err := m.block(body, ind+"    ", m.contK)
	m.retWrap, m.contK, m.brkK = oldRet, oldCont, oldBrk
	if err != nil {
		return "", err
	}
	m.pure = false
	m.restore(entry)
	m.nloops++
	loopName := fmt.Sprintf("%s_loop%d", m.fn.lean, m.nloops)
	exclude := map[string]bool{itemName: true}
	for _, n := range stNames {
		exclude[n] = true
	}
	capNames, capDecls := m.captured(bodyText, &inLoop, exclude)
	sigma := bmTupleTy(comps)
	stPat := "_"
	if len(stNames) > 0 {
		stPat = tuple(stNames)
	}
	var aux strings.Builder
	generic := ""
	if m.fn.cbState {
		generic = " {σ : Type}"
	}
	item := ""
	if itemName != "" {
		item = fmt.Sprintf(" (%s : BitVec 64)", itemName)
	}
	fmt.Fprintf(&aux, "/-- z.%s: one round of the loop `%s` -/\ndef %s%s%s%s :\n    %s → Option (Gen.Buf.LoopOut %s %s)\n  | %s =>\n%s\n\n",
		m.fn.key, strings.Join(strings.Fields(firstLine(m.pi.src(x))), " "), loopName, generic, nfLead(strings.Join(capDecls, " ")), item,
		sigma, nfAtom(m.resTy()), nfAtom(sigma), stPat, indent(nfDedent(bodyText, ind+"    "), "    "))
	m.aux = append(m.aux, aux.String())
	loopFn := loopName
	if len(capNames) > 0 {
		loopFn = "(" + loopName + " " + strings.Join(capNames, " ") + ")"
	}
	if err := render(loopFn, init, stPat, &b); err != nil {
		return "", err
	}
	doneNames := m.adopt(comps)
	donePat := "_"
	if len(doneNames) > 0 {
		donePat = tuple(doneNames)
	}
	r, err := next(ind + "    ")
	if err != nil {
		return "", err
	}
	fmt.Fprintf(&b, "%s  | Gen.Buf.LoopRes.ret v => %s\n", ind, m.retWrap("v"))
	fmt.Fprintf(&b, "%s  | Gen.Buf.LoopRes.done %s =>\n", ind, donePat)
	return b.String() + r, nil
}

// whileStmt: `for cond { body }` with the bound given in the spec.
func (m *bmCtx) whileStmt(x *ast.ForStmt, ind string, next func(ind string) (string, error)) (string, error) {
	if x.Init != nil || x.Post != nil || x.Cond == nil {
		return "", fmt.Errorf("loop %q outside the subset (want `for cond {`)", firstLine(m.pi.src(x)))
	}
	m.nwhile++
	if m.nwhile > len(m.fn.spec.Fuel) {
		return "", fmt.Errorf("loop %q has no bound in the spec", firstLine(m.pi.src(x)))
	}
	fuelTpl := m.fn.spec.Fuel[m.nwhile-1]
	fuel, cond := "", ""
	return m.loopCommon(x, x.Body.List, x.Body, ind, next,
		func(b *strings.Builder) (func(), string, error) {
			var err error
			fuel, err = m.fuelText(fuelTpl)
			return nil, "", err
		},
		func() error {
			// the condition, over the loop state (it must be free of effects)
			var cb strings.Builder
			m.clearSubst(x.Cond)
			var err error
			cond, _, err = m.value(x.Cond, ind, &cb)
			if err != nil {
				return err
			}
			if cb.Len() > 0 {
				return fmt.Errorf("loop condition %q has an effect: outside the subset", m.pi.src(x.Cond))
			}
			return nil
		},
		func(loopFn, init, stPat string, b *strings.Builder) error {
			fmt.Fprintf(b, "%s(Gen.Buf.whileLoop (fun %s => %s) %s (%s) %s).bind fun\n", ind, stPat, cond, loopFn, fuel, nfAtom(init))
			return nil
		})
}

// rangeStmt: `for _, x := range ints { body }`.
func (m *bmCtx) rangeStmt(x *ast.RangeStmt, ind string, next func(ind string) (string, error)) (string, error) {
	if x.Tok != token.DEFINE || x.Value == nil {
		return "", fmt.Errorf("loop %q outside the subset (want `for _, x := range s`)", firstLine(m.pi.src(x)))
	}
	if k, ok := x.Key.(*ast.Ident); !ok || k.Name != "_" {
		return "", fmt.Errorf("range loop with an index variable outside the subset")
	}
	vid, ok := x.Value.(*ast.Ident)
	if !ok {
		return "", fmt.Errorf("range value outside the subset")
	}
	vobj := m.pi.info.Defs[vid]
	arr := ""
	itemName := ""
	return m.loopCommon(x, x.Body.List, x.Body, ind, next,
		func(b *strings.Builder) (func(), string, error) {
			if m.typeOfExpr(x.X).kind != bkInts {
				return nil, "", fmt.Errorf("range over %q outside the subset", m.pi.src(x.X))
			}
			var err error
			arr, err = m.intsOf(x.X, ind, b)
			if err != nil {
				return nil, "", err
			}
			itemName = m.freshName(vid.Name)
			return func() { m.env[vobj] = itemName }, itemName, nil
		},
		nil,
		func(loopFn, init, stPat string, b *strings.Builder) error {
			fmt.Fprintf(b, "%s(Gen.Buf.forEach %s %s %s).bind fun\n", ind, nfAtom(arr), loopFn, nfAtom(init))
			return nil
		})
}

// ---------------------------------------------------------------- functions

func (m *bmCtx) resTy() string {
	parts := []string{}
	if m.fn.mutates {
		parts = append(parts, m.fn.recv.lean)
	}
	if m.fn.cbState {
		parts = append(parts, "σ")
	}
	for _, r := range m.fn.results {
		t, _ := m.g.leanOf(r.ty)
		parts = append(parts, t)
	}
	if len(parts) == 0 {
		return "Unit"
	}
	if len(parts) == 1 {
		return parts[0]
	}
	return "(" + strings.Join(parts, " × ") + ")"
}

func (g *bmGen) translate(fs bmFuncSpec) (string, error) {
	fd := g.pi.findFunc(fs.Go)
	if fd == nil || fd.Body == nil {
		return "", fmt.Errorf("function %s not found", fs.Go)
	}
	fn := &bmFunc{key: fs.Go, lean: fs.Lean, spec: fs, fd: fd, recursive: fs.Recursive, hasFuel: fs.Recursive}
	if fd.Recv != nil {
		if len(fd.Recv.List) != 1 || len(fd.Recv.List[0].Names) != 1 {
			return "", fmt.Errorf("receiver outside the subset")
		}
		rt := g.typeOf(g.pi.info.Defs[fd.Recv.List[0].Names[0]].Type())
		if rt.kind != bkStruct {
			return "", fmt.Errorf("receiver type is not a listed struct")
		}
		fn.recv = rt.st
	}
	for _, f := range fd.Type.Params.List {
		for _, n := range f.Names {
			obj := g.pi.info.Defs[n]
			p := bmParam{name: n.Name, obj: obj, ty: g.typeOf(obj.Type())}
			if a, ok := fs.Alias[n.Name]; ok {
				if p.ty.kind != bkBytes || fn.recv == nil {
					return "", fmt.Errorf("alias declared for %s, which is not a []byte parameter of a method", n.Name)
				}
				p.alias = a
			}
			if p.ty.kind == bkFunc {
				_, stateful, err := g.cbLean(p.ty.sig)
				if err != nil {
					return "", err
				}
				if stateful {
					fn.cbState = true
				}
			}
			if p.ty.kind == bkStruct {
				return "", fmt.Errorf("struct parameter %s outside the subset", n.Name)
			}
			fn.params = append(fn.params, p)
		}
		if len(f.Names) == 0 {
			return "", fmt.Errorf("unnamed parameter outside the subset")
		}
	}
	if fd.Type.Results != nil {
		for _, f := range fd.Type.Results.List {
			t := g.typeOf(g.pi.info.Types[f.Type].Type)
			if t.kind == bkOpaque || t.kind == bkFunc {
				return "", fmt.Errorf("result type %s outside the subset", g.pi.src(f.Type))
			}
			n := len(f.Names)
			if n == 0 {
				n = 1
			}
			for i := 0; i < n; i++ {
				fn.results = append(fn.results, bmResult{ty: t})
			}
		}
	}
	// pass 1 assumes that the receiver is written and finds out; pass 2 is the text
	fn.mutates = fn.recv != nil
	g.funcs[fs.Go] = fn
	_, wrote, err := g.emit(fn)
	if err != nil {
		delete(g.funcs, fs.Go)
		return "", err
	}
	fn.mutates = wrote
	txt, _, err := g.emit(fn)
	if err != nil {
		delete(g.funcs, fs.Go)
		return "", err
	}
	return txt, nil
}

func (g *bmGen) emit(fn *bmFunc) (string, bool, error) {
	fd := fn.fd
	c := &ctx{pi: g.pi, env: map[types.Object]string{}, lazy: map[types.Object]ast.Expr{}}
	m := &bmCtx{ctx: c, g: g, fn: fn, vars: map[types.Object]*bmVar{}, subst: map[ast.Expr]substVal{}, pure: true}
	c.hook = m.hookFn
	m.resBase = make([]string, len(fn.results))
	type par struct{ name, ty string }
	var pars []par
	if fn.recv != nil {
		id := fd.Recv.List[0].Names[0]
		obj := g.pi.info.Defs[id]
		m.recvObj = obj
		m.vars[obj] = &bmVar{ty: bmType{kind: bkStruct, st: fn.recv}, lean: sanitize(id.Name)}
		pars = append(pars, par{sanitize(id.Name), fn.recv.lean})
	}
	for _, p := range fn.params {
		n := sanitize(p.name)
		switch p.ty.kind {
		case bkScalar:
			c.env[p.obj] = n
			pars = append(pars, par{n, p.ty.lt.lean()})
		case bkErr:
			m.vars[p.obj] = &bmVar{ty: p.ty, lean: n}
			pars = append(pars, par{n, bmErrT})
		case bkInts:
			m.vars[p.obj] = &bmVar{ty: p.ty, lean: n}
			pars = append(pars, par{n, bmIntsT})
		case bkBytes:
			if p.alias != nil {
				m.vars[p.obj] = &bmVar{ty: p.ty, lean: n, base: &bmBase{root: m.recvObj, path: p.alias}}
				pars = append(pars, par{n, bmWinT})
			} else {
				m.vars[p.obj] = &bmVar{ty: p.ty, lean: n + "_w", arr: n, base: &bmBase{local: p.obj}}
				pars = append(pars, par{n, bmBytesT}, par{n + "_w", bmWinT})
			}
		case bkFunc:
			t, stateful, err := g.cbLean(p.ty.sig)
			if err != nil {
				return "", false, err
			}
			m.vars[p.obj] = &bmVar{ty: p.ty, lean: n, stateful: stateful}
			pars = append(pars, par{n, t})
		case bkOpaque:
			// not modelled
		}
	}
	if fn.cbState {
		m.cbName = "st"
		pars = append(pars, par{"st", "σ"})
	}
	// named results
	if fd.Type.Results != nil {
		i := 0
		for _, f := range fd.Type.Results.List {
			for _, n := range f.Names {
				obj := g.pi.info.Defs[n]
				z, err := m.zeroVal(fn.results[i].ty)
				if err != nil {
					return "", false, err
				}
				switch fn.results[i].ty.kind {
				case bkScalar:
					c.env[obj] = "(" + z.text + ")"
				case bkErr, bkInts:
					m.vars[obj] = &bmVar{ty: fn.results[i].ty, lean: z.text}
				default:
					return "", false, fmt.Errorf("named result %s outside the subset", n.Name)
				}
				i++
			}
			if len(f.Names) == 0 {
				i++
			}
		}
	}
	m.retWrap = func(v string) string { return "some " + nfAtom(v) }
	ind := "  "
	if fn.recursive {
		ind = "    "
	}
	body, err := m.block(fd.Body.List, ind, func(ind string) (string, error) {
		if len(fn.results) > 0 {
			hasNamed := false
			if fd.Type.Results != nil {
				for _, f := range fd.Type.Results.List {
					if len(f.Names) > 0 {
						hasNamed = true
					}
				}
			}
			if !hasNamed {
				return "", fmt.Errorf("missing return")
			}
			return m.returnStmt(&ast.ReturnStmt{}, ind, &strings.Builder{})
		}
		return ind + m.retWrap(m.retTuple(nil)), nil
	})
	if err != nil {
		return "", false, err
	}
	for i := range fn.results {
		if fn.results[i].ty.kind == bkBytes {
			fn.results[i].base = m.resBase[i]
		}
	}
	var b strings.Builder
	for _, a := range m.aux {
		b.WriteString(a)
	}
	dropped := []string{}
	for _, p := range fn.params {
		if p.ty.kind == bkOpaque {
			dropped = append(dropped, p.name)
		}
	}
	note := ""
	if len(dropped) > 0 {
		note = "; parameters not modelled: " + strings.Join(dropped, ", ")
	}
	fmt.Fprintf(&b, "/-- z.%s (whole function; `none` = panic%s) -/\ndef %s", fn.key, note, fn.lean)
	if fn.cbState {
		b.WriteString(" {σ : Type}")
	}
	if fn.hasFuel {
		b.WriteString(" (fuel : Nat)")
	}
	if fn.usesOS {
		b.WriteString(" (os : Gen.Buf.OS)")
	}
	if fn.usesSort {
		b.WriteString(" (sortFn : Gen.Buf.SortFn)")
	}
	for _, p := range pars {
		fmt.Fprintf(&b, " (%s : %s)", p.name, p.ty)
	}
	fmt.Fprintf(&b, " : Option %s :=\n", nfAtom(m.resTy()))
	if fn.recursive {
		fmt.Fprintf(&b, "  match fuel with\n  | 0 => none\n  | fuel + 1 =>\n")
	}
	b.WriteString(body)
	b.WriteString("\n")
	return b.String(), m.wrote, nil
}

// opaqueOnly: the statement reads and writes only variables of types that are not modelled
// (strings, files) and calls nothing.
func (m *bmCtx) opaqueOnly(st ast.Stmt) bool {
	switch st.(type) {
	case *ast.IfStmt, *ast.AssignStmt:
	default:
		return false
	}
	ok, sawVar := true, false
	ast.Inspect(st, func(n ast.Node) bool {
		switch x := n.(type) {
		case *ast.CallExpr, *ast.ReturnStmt, *ast.BranchStmt, *ast.ForStmt, *ast.RangeStmt, *ast.FuncLit:
			ok = false
		case *ast.Ident:
			if v, isVar := m.objOf(x).(*types.Var); isVar {
				sawVar = true
				if m.g.typeOf(v.Type()).kind != bkOpaque {
					ok = false
				}
			}
		}
		return ok
	})
	return ok && sawVar
}

// sortSliceCall: `sort.Slice(xs, func(i, j int) bool { … xs[i] … xs[j] … })`.  The closure becomes
// a comparison of two ELEMENTS (`<fn>_less<k>`; it may use i and j only to read xs[i], xs[j]) in
// the Option monad; `Gen.Buf.sortSliceM` hands it to the `sortFn` parameter.
func (m *bmCtx) sortSliceCall(x *ast.CallExpr, ind string, b *strings.Builder) error {
	if len(x.Args) != 2 {
		return fmt.Errorf("sort.Slice with %d arguments", len(x.Args))
	}
	lit, ok := x.Args[1].(*ast.FuncLit)
	if !ok || lit.Type.Params.NumFields() != 2 {
		return fmt.Errorf("sort.Slice needs a literal comparison closure")
	}
	var pobjs []types.Object
	for _, f := range lit.Type.Params.List {
		for _, n := range f.Names {
			pobjs = append(pobjs, m.pi.info.Defs[n])
		}
	}
	if m.typeOfExpr(x.Args[0]).kind != bkInts {
		return fmt.Errorf("sort.Slice of %q outside the subset ([]int only)", m.pi.src(x.Args[0]))
	}
	arr, err := m.intsOf(x.Args[0], ind, b)
	if err != nil {
		return err
	}
	arrSrc := m.pi.src(x.Args[0])
	entry := m.snap()
	xn, yn := m.freshName("x"), m.freshName("y")
	oldSub, oldClo, oldRet, oldCont, oldBrk := m.elemSub, m.clo, m.retWrap, m.contK, m.brkK
	m.elemSub = map[string]string{arrSrc + "[" + pobjs[0].Name() + "]": xn, arrSrc + "[" + pobjs[1].Name() + "]": yn}
	m.clo = &entry
	m.contK, m.brkK = nil, nil
	m.clearSubst(lit)
	body, err := m.block(lit.Body.List, "  ", func(string) (string, error) { return "", fmt.Errorf("comparison closure without return") })
	m.elemSub, m.clo, m.retWrap, m.contK, m.brkK = oldSub, oldClo, oldRet, oldCont, oldBrk
	if err != nil {
		return err
	}
	m.restore(entry)
	m.fn.usesSort = true
	m.nless++
	name := fmt.Sprintf("%s_less%d", m.fn.lean, m.nless)
	capNames, capDecls := m.captured(body, &entry, map[string]bool{xn: true, yn: true})
	var aux strings.Builder
	fmt.Fprintf(&aux, "/-- z.%s: the comparison closure handed to sort.Slice, on two elements of `%s` -/\ndef %s%s (%s : BitVec 64) (%s : BitVec 64) : Option Bool :=\n%s\n\n",
		m.fn.key, arrSrc, name, nfLead(strings.Join(capDecls, " ")), xn, yn, body)
	m.aux = append(m.aux, aux.String())
	fnText := name
	if len(capNames) > 0 {
		fnText = "(" + name + " " + strings.Join(capNames, " ") + ")"
	}
	res := m.freshName("sorted")
	m.bind(b, ind, fmt.Sprintf("Gen.Buf.sortSliceM sortFn %s %s", nfAtom(arr), fnText), res)
	// store the permuted slice back
	switch lx := unparen(x.Args[0]).(type) {
	case *ast.Ident:
		return m.bindVar(lx, m.objOf(lx), bmAny{bmVal: bmVal{ty: bmType{kind: bkInts}, text: res}}, ind, b)
	case *ast.SelectorExpr:
		return m.storeField(lx, bmAny{bmVal: bmVal{ty: bmType{kind: bkInts}, text: res}}, ind, b)
	}
	return fmt.Errorf("sort.Slice of %q outside the subset", arrSrc)
}
