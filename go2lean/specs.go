package main

// Spec registry.  Each component file (specs_<component>.go) registers its
// kernels from an init function; allSpecs returns them in a stable order.
var registry = map[string][]Spec{}

func register(component string, specs []Spec) { registry[component] = specs }

func allSpecs() []Spec {
	names := []string{}
	for k := range registry {
		names = append(names, k)
	}
	sortStrings(names)
	specs := []Spec{}
	for _, n := range names {
		specs = append(specs, registry[n]...)
	}
	for _, s := range specs {
		if s.Kind == KFunc && lastDot(s.Func) < 0 {
			funcLeanNames[s.Func] = "Gen." + s.Out + "." + s.Lean
		}
	}
	return specs
}

func sortStrings(a []string) {
	for i := 1; i < len(a); i++ {
		for j := i; j > 0 && a[j] < a[j-1]; j-- {
			a[j], a[j-1] = a[j-1], a[j]
		}
	}
}

func lastDot(s string) int {
	for i := len(s) - 1; i >= 0; i-- {
		if s[i] == '.' {
			return i
		}
	}
	return -1
}
