package main

func init() { register("alloc", allocSpecs()) }

// Kernels of z/allocator.go (C12).  Slices whose only use is `len(...)` become
// `Array (BitVec 8)` parameters (the translator renders len as `.size`); the
// model passes `bufOfLen n`.  Not translatable as whole functions: `log2` (reads
// the table `calculatedLog2`, filled by init() with float math) and
// `addBufferAt` (`for { … break … return }`); their decision points and
// arithmetic are anchored one by one instead.  `bits.OnesCount64(uint64(sz)) > 1`
// in NewAllocator is not translatable either (math/bits is not stubbed: "untyped
// leaf"); the power-of-two test is hand-modelled and tied by the trace records.
func allocSpecs() []Spec {
	o := "Alloc"
	z := "z"
	return []Spec{
		{Kind: KConst, Pkg: z, Match: "maxAlloc", Lean: "maxAlloc", Out: o},
		{Kind: KConst, Pkg: z, Match: "nodeAlign", Lean: "nodeAlign", Out: o},
		{Kind: KFunc, Pkg: z, Func: "parse", Lean: "parse", Out: o},
		// Allocate
		{Kind: KExpr, Pkg: z, Func: "Allocator.Allocate", Match: "sz > maxAlloc", Lean: "allocTooBig", Out: o},
		{Kind: KExpr, Pkg: z, Func: "Allocator.Allocate", Match: "sz == 0", Lean: "allocZero", Out: o},
		{Kind: KExpr, Pkg: z, Func: "Allocator.Allocate", Match: "uint64(sz)", Nth: 1, Lean: "allocAddend", Out: o},
		{Kind: KExpr, Pkg: z, Func: "Allocator.Allocate", Match: "posIdx > len(buf)", Lean: "allocBeyond", Out: o},
		{Kind: KExpr, Pkg: z, Func: "Allocator.Allocate", Match: "newBufIdx != bufIdx", Lean: "allocMoved", Out: o},
		{Kind: KExpr, Pkg: z, Func: "Allocator.Allocate", Match: "bufIdx + 1", Nth: 1, Lean: "allocNextIdx", Out: o},
		{Kind: KExpr, Pkg: z, Func: "Allocator.Allocate", Match: "uint64((bufIdx + 1) << 32)", Lean: "allocStore", Out: o},
		{Kind: KExpr, Pkg: z, Func: "Allocator.Allocate", Match: "posIdx - sz", Lean: "allocSliceLo", Out: o},
		// addBufferAt
		{Kind: KExpr, Pkg: z, Func: "Allocator.addBufferAt", Match: "bufIdx >= len(a.buffers)", Lean: "growOutOfSlots", Out: o},
		{Kind: KExpr, Pkg: z, Func: "Allocator.addBufferAt", Match: "len(a.buffers[bufIdx]) == 0", Nth: 1, Lean: "growSlotEmpty", Out: o},
		{Kind: KExpr, Pkg: z, Func: "Allocator.addBufferAt", Match: "minSz <= len(a.buffers[bufIdx])", Lean: "growFits", Out: o},
		{Kind: KExpr, Pkg: z, Func: "Allocator.addBufferAt", Match: "2 * len(a.buffers[bufIdx-1])", Lean: "growFirstSize", Out: o},
		{Kind: KExpr, Pkg: z, Func: "Allocator.addBufferAt", Match: "pageSize < minSz", Lean: "growTooSmall", Out: o},
		{Kind: KExpr, Pkg: z, Func: "Allocator.addBufferAt", Match: "pageSize > maxAlloc", Lean: "growOverMax", Out: o},
		// NewAllocator / log2
		{Kind: KExpr, Pkg: z, Func: "NewAllocator", Match: "sz < 512", Lean: "newTooSmall", Out: o},
		{Kind: KExpr, Pkg: z, Func: "NewAllocator", Match: "1 << l2", Lean: "newChunkLen", Out: o},
		{Kind: KExpr, Pkg: z, Func: "log2", Match: "sz < len(calculatedLog2)", Lean: "log2InTable", Out: o},
		{Kind: KExpr, Pkg: z, Func: "log2", Match: "sz > 1", Lean: "log2More", Out: o},
		// AllocateAligned
		{Kind: KExpr, Pkg: z, Func: "Allocator.AllocateAligned", Match: "sz + int(nodeAlign)", Lean: "alignedTotal", Out: o},
		{Kind: KExpr, Pkg: z, Func: "Allocator.AllocateAligned", Match: "(addr + nodeAlign) & ^nodeAlign", Lean: "alignedAddr", Out: o},
		{Kind: KExpr, Pkg: z, Func: "Allocator.AllocateAligned", Match: "aligned - addr", Lean: "alignedStart", Out: o},
		{Kind: KExpr, Pkg: z, Func: "Allocator.AllocateAligned", Match: "start + sz", Lean: "alignedEnd", Out: o},
		// TrimTo
		{Kind: KExpr, Pkg: z, Func: "Allocator.TrimTo", Match: "len(b) == 0", Lean: "trimStop", Out: o},
		{Kind: KExpr, Pkg: z, Func: "Allocator.TrimTo", Match: "alloc < max", Lean: "trimKeep", Out: o},
	}
}
