package main

// methods_stmt.go — statements of methods.go (state-passing translation).

import (
	"fmt"
	"go/ast"
	"go/token"
	"go/types"
	"sort"
	"strings"
)

func proj(name string, i, n int) string {
	if n == 1 {
		return name
	}
	s := name + strings.Repeat(".2", i)
	if i < n-1 {
		s += ".1"
	}
	return s
}

func (g *mgen) translateMethod(me *mMethod) (string, error) {
	fd := me.fd
	info := g.pi.info
	me.clockOf = map[string]string{}
	// receiver and parameters
	mkParam := func(id *ast.Ident) (*mParam, error) {
		obj := info.Defs[id]
		if obj == nil {
			return nil, fmt.Errorf("parameter %s has no type", id.Name)
		}
		t, err := g.mtype(obj.Type())
		if err != nil {
			return nil, fmt.Errorf("parameter %s: %v", id.Name, err)
		}
		if t.k == mOpaquePtr || t.k == mMap {
			return nil, fmt.Errorf("parameter %s of type %s outside the subset", id.Name, obj.Type())
		}
		return &mParam{obj: obj, name: sanitize(id.Name), t: t}, nil
	}
	if fd.Recv != nil && len(fd.Recv.List) == 1 {
		if len(fd.Recv.List[0].Names) != 1 || fd.Recv.List[0].Names[0].Name == "_" {
			return "", fmt.Errorf("unnamed receiver")
		}
		p, err := mkParam(fd.Recv.List[0].Names[0])
		if err != nil {
			return "", err
		}
		if p.t.k != mPtr && p.t.k != mStruct {
			return "", fmt.Errorf("receiver type outside the subset")
		}
		me.recv = p
		me.generic = p.t.st.generic
	}
	if fd.Type.TypeParams != nil && fd.Type.TypeParams.NumFields() > 0 {
		if fd.Type.TypeParams.NumFields() > 1 {
			return "", fmt.Errorf("more than one type parameter")
		}
		me.generic = true
	}
	for _, f := range fd.Type.Params.List {
		if len(f.Names) == 0 {
			return "", fmt.Errorf("unnamed parameter")
		}
		for _, n := range f.Names {
			p, err := mkParam(n)
			if err != nil {
				return "", err
			}
			me.params = append(me.params, p)
		}
	}
	if fd.Type.Results != nil {
		for _, f := range fd.Type.Results.List {
			if len(f.Names) > 0 {
				return "", fmt.Errorf("named results outside the subset")
			}
			tv := info.Types[f.Type]
			t, err := g.mtype(tv.Type)
			if err != nil {
				return "", fmt.Errorf("result type: %v", err)
			}
			if t.k != mScalar && t.k != mTParam && t.k != mStruct {
				return "", fmt.Errorf("result type %s outside the subset", tv.Type)
			}
			me.results = append(me.results, t)
		}
	}
	var body string
	for pass := 0; pass < 2; pass++ {
		m := &mctx{g: g, me: me, final: pass == 1, nonnilOf: map[types.Object]*mParam{}}
		m.c = &ctx{pi: g.pi, env: map[types.Object]string{}, hook: m.hook}
		m.st = &mstate{env: map[types.Object]string{}, alias: map[types.Object]aliasInfo{}, okOf: map[types.Object]types.Object{}, effs: "effs_0"}
		all := []*mParam{}
		if me.recv != nil {
			all = append(all, me.recv)
		}
		all = append(all, me.params...)
		for _, p := range all {
			m.st.env[p.obj] = p.name
			if p.t.k == mPtr || p.t.k == mFunc {
				m.nonnilOf[p.obj] = p
			}
		}
		var err error
		body, err = m.block(fd.Body.List, "  ", func() (string, error) { return m.ret(nil, "  ") })
		if err != nil {
			return "", err
		}
	}
	if me.mutates && me.recv != nil && me.recv.t.k != mPtr {
		return "", fmt.Errorf("value receiver is written (the caller would not see it)")
	}
	// signature
	var b strings.Builder
	kind := "whole method"
	if me.recv == nil {
		kind = "whole function"
	}
	comps := []string{}
	ctys := []string{}
	if me.mutates {
		comps = append(comps, "receiver'")
		ctys = append(ctys, me.recv.t.lean)
	}
	for i, r := range me.results {
		comps = append(comps, fmt.Sprintf("result%d", i+1))
		ctys = append(ctys, r.lean)
	}
	if me.hasEffs {
		comps = append(comps, "effects")
		ctys = append(ctys, "List Eff")
	}
	fmt.Fprintf(&b, "/-- %s (%s, state-passing); returns (%s) -/\n", me.qual, kind, strings.Join(comps, ", "))
	if me.aux {
		b.WriteString("@[simp] ")
	}
	fmt.Fprintf(&b, "def %s", me.lean)
	if me.generic {
		b.WriteString(" {V : Type}")
	}
	if me.needZero {
		if !me.generic {
			return "", fmt.Errorf("zero value of a type parameter in a non-generic function")
		}
		b.WriteString(" (zeroV : V)")
	}
	all := []*mParam{}
	if me.recv != nil {
		all = append(all, me.recv)
	}
	all = append(all, me.params...)
	for _, p := range all {
		if p.needNonnil {
			fmt.Fprintf(&b, " (%s_nonnil : Bool)", p.name)
		}
		fmt.Fprintf(&b, " (%s : %s)", p.name, p.t.lean)
	}
	for _, c := range me.clocks {
		fmt.Fprintf(&b, " (%s : Int)", c)
	}
	rt := "Unit"
	if len(ctys) > 0 {
		rt = strings.Join(ctys, " × ")
	}
	fmt.Fprintf(&b, " : %s :=\n", rt)
	if me.hasEffs {
		b.WriteString("  let effs_0 : List Eff := []\n")
	}
	b.WriteString(body + "\n")
	return b.String(), nil
}

// ret renders the result tuple of the method at a return with the given result expressions.
func (m *mctx) ret(results []ast.Expr, ind string) (string, error) {
	if len(results) != len(m.me.results) {
		return "", fmt.Errorf("return with %d results, expected %d", len(results), len(m.me.results))
	}
	parts := []string{}
	if m.me.mutates && m.me.recv != nil {
		parts = append(parts, m.st.env[m.me.recv.obj])
	}
	for _, r := range results {
		s, _, err := m.expr(r)
		if err != nil {
			return "", err
		}
		parts = append(parts, s)
	}
	if m.me.hasEffs && m.final {
		parts = append(parts, m.st.effs)
	}
	return ind + tuple(parts), nil
}

func elseStmtsOf(x *ast.IfStmt) []ast.Stmt {
	switch e := x.Else.(type) {
	case *ast.BlockStmt:
		return e.List
	case *ast.IfStmt:
		return []ast.Stmt{e}
	}
	return nil
}

func (m *mctx) block(stmts []ast.Stmt, ind string, k func() (string, error)) (string, error) {
	if len(stmts) == 0 {
		return k()
	}
	st, rest := stmts[0], stmts[1:]
	next := func() (string, error) { return m.block(rest, ind, k) }
	seq := func(s string, err error) (string, error) {
		if err != nil {
			return "", err
		}
		r, err := next()
		return s + r, err
	}
	switch x := st.(type) {
	case *ast.EmptyStmt:
		return next()
	case *ast.BlockStmt:
		return m.block(append(append([]ast.Stmt{}, x.List...), rest...), ind, k)
	case *ast.ReturnStmt:
		return m.ret(x.Results, ind)
	case *ast.DeferStmt:
		if m.isSyncCall(x.Call) {
			return next()
		}
		return "", fmt.Errorf("defer %q outside the subset", firstLine(m.g.pi.src(x.Call)))
	case *ast.ExprStmt:
		call, ok := x.X.(*ast.CallExpr)
		if !ok {
			return "", fmt.Errorf("statement %q outside the subset", firstLine(m.g.pi.src(st)))
		}
		return seq(m.callStmt(call, nil, false, ind))
	case *ast.DeclStmt:
		return seq(m.declStmt(x, ind))
	case *ast.AssignStmt:
		return seq(m.assign(x, ind))
	case *ast.IncDecStmt:
		op := token.ADD
		if x.Tok == token.DEC {
			op = token.SUB
		}
		return seq(m.opAssign(x.X, op, &ast.BasicLit{Kind: token.INT, Value: "1"}, true, ind))
	case *ast.IfStmt:
		return m.ifStmt(x, ind, next)
	case *ast.SwitchStmt:
		// a tagless switch is its if / else-if chain (flow.go)
		if x.Tag == nil && x.Init == nil {
			if ifs := switchAsIf(x); ifs != nil {
				return m.ifStmt(ifs, ind, next)
			}
		}
	}
	return "", fmt.Errorf("statement %q outside the subset", firstLine(m.g.pi.src(st)))
}

func (m *mctx) declStmt(x *ast.DeclStmt, ind string) (string, error) {
	gd, ok := x.Decl.(*ast.GenDecl)
	if !ok || gd.Tok != token.VAR {
		return "", fmt.Errorf("declaration outside the subset")
	}
	var b strings.Builder
	for _, sp := range gd.Specs {
		vs := sp.(*ast.ValueSpec)
		for i, n := range vs.Names {
			obj := m.g.pi.info.Defs[n]
			t, err := m.g.mtype(obj.Type())
			if err != nil {
				return "", err
			}
			var val string
			if i < len(vs.Values) {
				val, _, err = m.expr(vs.Values[i])
			} else {
				val, err = m.g.zeroOf(t, &m.me.needZero)
			}
			if err != nil {
				return "", err
			}
			s, err := m.bindLocal(n, obj, t, val, nil, ind)
			if err != nil {
				return "", err
			}
			b.WriteString(s)
		}
	}
	return b.String(), nil
}

// bindLocal binds (or re-binds) a Go local to a new Lean name holding val.
func (m *mctx) bindLocal(id *ast.Ident, obj types.Object, t *mT, val string, rhs ast.Expr, ind string) (string, error) {
	switch t.k {
	case mPtr, mOpaquePtr, mFunc:
		return "", fmt.Errorf("local %s of reference type outside the subset", id.Name)
	case mStruct:
		if containsRef(t) {
			return "", fmt.Errorf("local copy %s of a struct holding references outside the subset", id.Name)
		}
	case mMap:
		a := aliasInfo{}
		switch r := unparen(rhs).(type) {
		case *ast.CallExpr:
			if fid, ok := r.Fun.(*ast.Ident); ok && fid.Name == "make" {
				a.nonnil = true
			} else {
				return "", fmt.Errorf("map-typed local %s from a call outside the subset", id.Name)
			}
		case *ast.IndexExpr:
			root, fs, _, ok := m.resolvePath(r.X)
			if !ok || len(fs) == 0 {
				return "", fmt.Errorf("map-typed local %s outside the subset", id.Name)
			}
			k, _, err := m.expr(r.Index)
			if err != nil {
				return "", err
			}
			a = aliasInfo{root: root, fields: fs, key: k}
		case nil:
			// declared without a value: a nil map
		default:
			return "", fmt.Errorf("map-typed local %s aliases %q: outside the subset", id.Name, m.g.pi.src(rhs))
		}
		m.st.alias[obj] = a
	}
	nm := m.freshName(id.Name)
	m.st.env[obj] = nm
	return fmt.Sprintf("%slet %s : %s := %s\n", ind, nm, t.lean, val), nil
}

// markStale: the map at root.path has been written; every other alias into it is stale.
func (m *mctx) markStale(root types.Object, fs []*mField, except types.Object) {
	ps := pathStr(fs)
	for o, a := range m.st.alias {
		if o == except || a.root != root {
			continue
		}
		as := pathStr(a.fields)
		if strings.HasPrefix(as, ps) || strings.HasPrefix(ps, as) {
			a.stale = true
			m.st.alias[o] = a
		}
	}
}

func nestedWith(cur string, fs []*mField, val string) string {
	if len(fs) == 0 {
		return val
	}
	return fmt.Sprintf("{ %s with %s := %s }", cur, fs[0].lean, nestedWith(cur+"."+fs[0].lean, fs[1:], val))
}

// setPath writes val to root.f1.f2… (root must be the receiver).
func (m *mctx) setPath(root types.Object, fs []*mField, val string, except types.Object, ind string) (string, error) {
	if m.me.recv == nil || root != m.me.recv.obj {
		return "", fmt.Errorf("write through %s, which is not the receiver", root.Name())
	}
	cur := m.st.env[root]
	nm := m.freshName(root.Name())
	m.st.env[root] = nm
	m.me.mutates = true
	m.markStale(root, fs, except)
	return fmt.Sprintf("%slet %s := %s\n", ind, nm, nestedWith(cur, fs, val)), nil
}

// mapWrite: `target[key] = val` (insert) or `delete(target, key)`.
func (m *mctx) mapWrite(target ast.Expr, insert bool, key, val string, valExpr ast.Expr, ind string) (string, error) {
	target = unparen(target)
	op := func(cur string) string {
		if insert {
			return fmt.Sprintf("%s.insert %s %s", atom(cur), atom(key), atom(val))
		}
		return fmt.Sprintf("%s.erase %s", atom(cur), atom(key))
	}
	if id, ok := target.(*ast.Ident); ok {
		obj := m.objOf(id)
		if a, isAlias := m.st.alias[obj]; isAlias {
			if a.stale {
				return "", fmt.Errorf("write through %s, which may be stale", id.Name)
			}
			if a.conflict {
				return "", fmt.Errorf("write through %s: the branches above disagree on which map it is", id.Name)
			}
			if insert && !a.nonnil {
				return "", fmt.Errorf("write to the possibly nil map %s", id.Name)
			}
			cur := m.st.env[obj]
			nm := m.freshName(id.Name)
			t, _ := m.g.mtype(obj.Type())
			lets := fmt.Sprintf("%slet %s : %s := %s\n", ind, nm, t.lean, op(cur))
			m.st.env[obj] = nm
			if a.root != nil {
				outer := m.pathText(a.root, a.fields)
				nv := fmt.Sprintf("%s.insert %s %s", atom(outer), atom(a.key), nm)
				if a.guard != "" {
					nv = fmt.Sprintf("(if %s then %s else %s)", a.guard, nv, outer)
				}
				s, err := m.setPath(a.root, a.fields, nv, obj, ind)
				if err != nil {
					return "", err
				}
				lets += s
			}
			return lets, nil
		}
	}
	if root, fs, t, ok := m.resolvePath(target); ok && len(fs) > 0 && t.k == mMap {
		s, err := m.setPath(root, fs, op(m.pathText(root, fs)), nil, ind)
		if err != nil {
			return "", err
		}
		if insert && valExpr != nil {
			if vid, ok := unparen(valExpr).(*ast.Ident); ok {
				vobj := m.objOf(vid)
				if a, isAlias := m.st.alias[vobj]; isAlias {
					m.st.alias[vobj] = aliasInfo{root: root, fields: fs, key: key, nonnil: a.nonnil}
				}
			}
		}
		return s, nil
	}
	if ix, ok := target.(*ast.IndexExpr); ok {
		if root, fs, t, ok := m.resolvePath(ix.X); ok && len(fs) > 0 && t.k == mMap && t.val.k == mMap {
			if insert {
				return "", fmt.Errorf("write into an element of a map of maps (panics when the element is absent)")
			}
			k0, _, err := m.expr(ix.Index)
			if err != nil {
				return "", err
			}
			cur := atom(m.pathText(root, fs))
			nv := fmt.Sprintf("(match %s.lookup %s with | some inner_ => %s.insert %s (inner_.erase %s) | none => %s)",
				cur, atom(k0), cur, atom(k0), atom(key), cur)
			return m.setPath(root, fs, nv, nil, ind)
		}
	}
	return "", fmt.Errorf("map write to %q outside the subset", m.g.pi.src(target))
}

// callStmt handles a call in statement position (its results bound to lhs, which may be nil).
func (m *mctx) callStmt(call *ast.CallExpr, lhs []ast.Expr, define bool, ind string) (string, error) {
	info := m.g.pi.info
	src := firstLine(m.g.pi.src(call))
	if m.isSyncCall(call) || isHookCall(call) {
		if len(lhs) > 0 {
			return "", fmt.Errorf("result of %q used", src)
		}
		return "", nil
	}
	if id, ok := unparen(call.Fun).(*ast.Ident); ok {
		if _, isBuiltin := info.Uses[id].(*types.Builtin); isBuiltin && id.Name == "delete" && len(call.Args) == 2 {
			k, _, err := m.expr(call.Args[1])
			if err != nil {
				return "", err
			}
			return m.mapWrite(call.Args[0], false, k, "", nil, ind)
		}
	}
	fn, recvExpr := m.g.funcOfCall(call)
	if fn == nil {
		return "", fmt.Errorf("call %q outside the subset", src)
	}
	fd := m.g.declOfFunc(fn)
	if fd == nil {
		return "", fmt.Errorf("no body for %q", src)
	}
	q := qualName(fd)
	if ef, ok := m.g.effects[q]; ok {
		if len(lhs) > 0 {
			return "", fmt.Errorf("result of the effect %q used", src)
		}
		parts := []string{"Eff." + ef.ctor}
		if ef.recvPtr {
			n, err := m.nonnil(recvExpr)
			if err != nil {
				return "", err
			}
			parts = append(parts, atom(n))
		}
		if len(call.Args) != len(ef.params) {
			return "", fmt.Errorf("argument count of %q", src)
		}
		for _, a := range call.Args {
			s, _, err := m.expr(a)
			if err != nil {
				return "", err
			}
			parts = append(parts, atom(s))
		}
		nm := m.freshName("effs")
		s := fmt.Sprintf("%slet %s : List Eff := %s ++ [%s]\n", ind, nm, m.st.effs, strings.Join(parts, " "))
		m.st.effs = nm
		m.me.hasEffs = true
		return s, nil
	}
	callee := m.g.method(q)
	if callee.err != nil {
		return "", fmt.Errorf("call of %s: %v", callee.qual, callee.err)
	}
	if len(lhs) > 0 && len(lhs) != len(callee.results) {
		return "", fmt.Errorf("%q: %d results bound to %d variables", src, len(callee.results), len(lhs))
	}
	txt, err := m.buildCall(callee, call, recvExpr)
	if err != nil {
		return "", err
	}
	n := callee.nComps()
	if n == 0 {
		return "", nil // no state change, no result, no effect
	}
	r := m.freshName("r")
	lets := fmt.Sprintf("%slet %s := %s\n", ind, r, txt)
	i := 0
	if callee.mutates {
		root, fs, _, ok := m.resolvePath(recvExpr)
		if !ok {
			return "", fmt.Errorf("%q: the receiver is not a path from the method's receiver", src)
		}
		s, err := m.setPath(root, fs, proj(r, 0, n), nil, ind)
		if err != nil {
			return "", err
		}
		lets += s
		i++
	}
	for j := range callee.results {
		if len(lhs) > 0 {
			s, err := m.store(lhs[j], define, proj(r, i, n), callee.results[j], nil, ind)
			if err != nil {
				return "", err
			}
			lets += s
		}
		i++
	}
	if callee.hasEffs {
		nm := m.freshName("effs")
		lets += fmt.Sprintf("%slet %s : List Eff := %s ++ %s\n", ind, nm, m.st.effs, proj(r, n-1, n))
		m.st.effs = nm
		m.me.hasEffs = true
	}
	return lets, nil
}

// store assigns an already translated value to an assignable expression.
func (m *mctx) store(l ast.Expr, define bool, val string, vt *mT, rhs ast.Expr, ind string) (string, error) {
	switch lx := unparen(l).(type) {
	case *ast.Ident:
		if lx.Name == "_" {
			return "", nil
		}
		obj := m.g.pi.info.Defs[lx]
		if obj == nil {
			obj = m.g.pi.info.Uses[lx]
		}
		if obj == nil {
			return "", fmt.Errorf("unknown variable %s", lx.Name)
		}
		if _, isLocal := m.st.env[obj]; isLocal || m.g.pi.info.Defs[lx] != nil {
			if m.me.recv != nil && obj == m.me.recv.obj {
				return "", fmt.Errorf("assignment to the receiver variable")
			}
			for _, p := range m.me.params {
				if p.obj == obj && p.t.k != mScalar && p.t.k != mTParam {
					return "", fmt.Errorf("assignment to the parameter %s", lx.Name)
				}
			}
			t, err := m.g.mtype(obj.Type())
			if err != nil {
				return "", err
			}
			return m.bindLocal(lx, obj, t, val, rhs, ind)
		}
		return "", fmt.Errorf("assignment to the non-local %s", lx.Name)
	case *ast.SelectorExpr:
		root, fs, t, ok := m.resolvePath(lx)
		if !ok || len(fs) == 0 {
			return "", fmt.Errorf("assignment target %q outside the subset", m.g.pi.src(l))
		}
		if t.k == mPtr || t.k == mOpaquePtr || t.k == mFunc {
			return "", fmt.Errorf("assignment to the reference field %q outside the subset", m.g.pi.src(l))
		}
		if t.k == mMap {
			if c, ok := unparen(rhs).(*ast.CallExpr); !ok || m.g.pi.src(c.Fun) != "make" {
				return "", fmt.Errorf("map field %q assigned something else than a fresh map", m.g.pi.src(l))
			}
		}
		return m.setPath(root, fs, val, nil, ind)
	case *ast.IndexExpr:
		k, _, err := m.expr(lx.Index)
		if err != nil {
			return "", err
		}
		return m.mapWrite(lx.X, true, k, val, rhs, ind)
	}
	return "", fmt.Errorf("assignment target %q outside the subset", m.g.pi.src(l))
}

var assignOps = map[token.Token]token.Token{
	token.ADD_ASSIGN: token.ADD, token.SUB_ASSIGN: token.SUB, token.MUL_ASSIGN: token.MUL,
	token.QUO_ASSIGN: token.QUO, token.REM_ASSIGN: token.REM, token.AND_ASSIGN: token.AND,
	token.OR_ASSIGN: token.OR, token.XOR_ASSIGN: token.XOR, token.SHL_ASSIGN: token.SHL,
	token.SHR_ASSIGN: token.SHR, token.AND_NOT_ASSIGN: token.AND_NOT,
}

func (m *mctx) opAssign(lhs ast.Expr, op token.Token, rhs ast.Expr, incdec bool, ind string) (string, error) {
	cur, lt, err := m.expr(lhs)
	if err != nil {
		return "", err
	}
	if lt.k != mScalar || lt.l.kind != "bv" {
		return "", fmt.Errorf("op-assignment on %q outside the subset", m.g.pi.src(lhs))
	}
	var val string
	if incdec {
		val, err = m.c.binText(op, cur, lt.l, fmt.Sprintf("1#%d", lt.l.w), lt.l)
	} else {
		var s string
		s, _, err = m.c.binary(&ast.BinaryExpr{X: lhs, Op: op, Y: rhs})
		val = s
	}
	if err != nil {
		return "", err
	}
	return m.store(lhs, false, val, lt, nil, ind)
}

func (m *mctx) assign(x *ast.AssignStmt, ind string) (string, error) {
	define := x.Tok == token.DEFINE
	if x.Tok != token.ASSIGN && x.Tok != token.DEFINE {
		op, ok := assignOps[x.Tok]
		if !ok || len(x.Lhs) != 1 || len(x.Rhs) != 1 {
			return "", fmt.Errorf("assignment %q outside the subset", firstLine(m.g.pi.src(x)))
		}
		return m.opAssign(x.Lhs[0], op, x.Rhs[0], false, ind)
	}
	// v, ok := m[k]   /   a, b := f(...)
	if len(x.Lhs) == 2 && len(x.Rhs) == 1 {
		switch r := unparen(x.Rhs[0]).(type) {
		case *ast.IndexExpr:
			return m.commaOk(x.Lhs[0], x.Lhs[1], define, r, ind)
		case *ast.CallExpr:
			return m.callStmt(r, x.Lhs, define, ind)
		}
		return "", fmt.Errorf("assignment %q outside the subset", firstLine(m.g.pi.src(x)))
	}
	if len(x.Lhs) != len(x.Rhs) {
		return "", fmt.Errorf("assignment %q outside the subset", firstLine(m.g.pi.src(x)))
	}
	// a single call with side effects on the right-hand side
	if len(x.Rhs) == 1 {
		if call, ok := unparen(x.Rhs[0]).(*ast.CallExpr); ok {
			if fn, _ := m.g.funcOfCall(call); fn != nil {
				if fd := m.g.declOfFunc(fn); fd != nil {
					q := qualName(fd)
					if _, isEff := m.g.effects[q]; !isEff {
						if _, isKernel := funcLeanNames[fn.Name()]; !(isKernel && fd.Recv == nil) {
							callee := m.g.method(q)
							if callee.err == nil && (callee.mutates || callee.hasEffs) {
								return m.callStmt(call, x.Lhs, define, ind)
							}
						}
					}
				}
			}
		}
	}
	vals := []string{}
	tys := []*mT{}
	for _, r := range x.Rhs {
		s, t, err := m.expr(r)
		if err != nil {
			return "", err
		}
		vals = append(vals, s)
		tys = append(tys, t)
	}
	var b strings.Builder
	if len(vals) > 1 {
		for i := range vals {
			t := m.freshName("t")
			fmt.Fprintf(&b, "%slet %s : %s := %s\n", ind, t, tys[i].lean, vals[i])
			vals[i] = t
		}
	}
	for i, l := range x.Lhs {
		s, err := m.store(l, define, vals[i], tys[i], x.Rhs[i], ind)
		if err != nil {
			return "", err
		}
		b.WriteString(s)
	}
	return b.String(), nil
}

func (m *mctx) commaOk(lv, lok ast.Expr, define bool, r *ast.IndexExpr, ind string) (string, error) {
	base, bt, err := m.expr(r.X)
	if err != nil {
		return "", err
	}
	if bt.k != mMap {
		return "", fmt.Errorf("comma-ok on %q outside the subset", m.g.pi.src(r))
	}
	k, _, err := m.expr(r.Index)
	if err != nil {
		return "", err
	}
	z, err := m.g.zeroOf(bt.val, &m.me.needZero)
	if err != nil {
		return "", err
	}
	o := m.freshName("look")
	lets := fmt.Sprintf("%slet %s := %s.lookup %s\n", ind, o, atom(base), atom(k))
	var vobj types.Object
	if id, ok := unparen(lv).(*ast.Ident); ok && id.Name != "_" {
		s, err := m.store(lv, define, fmt.Sprintf("%s.getD %s", o, z), bt.val, r, ind)
		if err != nil {
			return "", err
		}
		lets += s
		vobj = m.objOf(id)
	} else if !ok {
		return "", fmt.Errorf("comma-ok target %q outside the subset", m.g.pi.src(lv))
	}
	if id, ok := unparen(lok).(*ast.Ident); ok && id.Name != "_" {
		s, err := m.store(lok, define, o+".isSome", scalarT(lty{kind: "bool"}), nil, ind)
		if err != nil {
			return "", err
		}
		lets += s
		if vobj != nil && bt.val.k == mMap {
			m.st.okOf[m.objOf(id)] = vobj
		}
	} else if !ok {
		return "", fmt.Errorf("comma-ok target %q outside the subset", m.g.pi.src(lok))
	}
	return lets, nil
}

// refine: what the truth of cond says about map locals (comma-ok flags).
func (m *mctx) refine(cond ast.Expr, truth bool) {
	c := unparen(cond)
	if u, ok := c.(*ast.UnaryExpr); ok && u.Op == token.NOT {
		m.refine(u.X, !truth)
		return
	}
	if id, ok := c.(*ast.Ident); ok && truth {
		if vobj, ok := m.st.okOf[m.objOf(id)]; ok {
			if a, ok := m.st.alias[vobj]; ok {
				a.nonnil = true
				m.st.alias[vobj] = a
			}
		}
	}
}

type joinKey struct {
	obj  types.Object // nil = the effect list
	name string
}

func (m *mctx) ifStmt(x *ast.IfStmt, ind string, next func() (string, error)) (string, error) {
	pre := ""
	if x.Init != nil {
		s, err := m.block([]ast.Stmt{x.Init}, ind, func() (string, error) { return "", nil })
		if err != nil {
			return "", err
		}
		pre = s
	}
	cond, ct, err := m.expr(x.Cond)
	if err != nil {
		return "", err
	}
	if ct.k != mScalar || ct.l.kind != "bool" {
		return "", fmt.Errorf("condition %q is not Boolean", m.g.pi.src(x.Cond))
	}
	thenS, elseS := x.Body.List, elseStmtsOf(x)
	saved := m.st.clone()
	if containsReturn(thenS) || containsReturn(elseS) {
		inner := func() (string, error) {
			s, err := next()
			return indent(s, "  "), err
		}
		m.refine(x.Cond, true)
		tb, err := m.block(thenS, ind+"  ", inner)
		if err != nil {
			return "", err
		}
		m.st = saved.clone()
		m.refine(x.Cond, false)
		eb, err := m.block(elseS, ind+"  ", inner)
		if err != nil {
			return "", err
		}
		return fmt.Sprintf("%s%sif %s then\n%s\n%selse\n%s", pre, ind, cond, tb, ind, eb), nil
	}
	// join: first a dry run to learn which variables the branches change
	run := func(stmts []ast.Stmt, truth bool, k func() (string, error)) (string, *mstate, error) {
		m.st = saved.clone()
		m.refine(x.Cond, truth)
		s, err := m.block(stmts, ind+"    ", k)
		return s, m.st, err
	}
	fr := m.fresh
	_, stT, err := run(thenS, true, func() (string, error) { return "", nil })
	if err != nil {
		return "", err
	}
	_, stE, err := run(elseS, false, func() (string, error) { return "", nil })
	if err != nil {
		return "", err
	}
	m.fresh = fr
	keys := []joinKey{}
	objs := []types.Object{}
	for o := range saved.env {
		objs = append(objs, o)
	}
	sort.Slice(objs, func(i, j int) bool { return objs[i].Pos() < objs[j].Pos() })
	for _, o := range objs {
		if stT.env[o] != saved.env[o] || stE.env[o] != saved.env[o] {
			keys = append(keys, joinKey{obj: o, name: o.Name()})
		}
	}
	if stT.effs != saved.effs || stE.effs != saved.effs {
		keys = append(keys, joinKey{name: "effs"})
	}
	joinK := func() (string, error) {
		names := []string{}
		for _, k := range keys {
			if k.obj == nil {
				names = append(names, m.st.effs)
			} else {
				names = append(names, m.st.env[k.obj])
			}
		}
		return ind + "    " + tuple(names), nil
	}
	tb, stT, err := run(thenS, true, joinK)
	if err != nil {
		return "", err
	}
	eb, stE, err := run(elseS, false, joinK)
	if err != nil {
		return "", err
	}
	m.st = saved.clone()
	// facts about map locals after the join
	for o := range saved.alias {
		a, b := stT.alias[o], stE.alias[o]
		plain := func(x aliasInfo) bool { return !x.stale && !x.conflict && x.guard == "" }
		if a.same(b) {
			a.nonnil = a.nonnil && b.nonnil
			m.st.alias[o] = a
		} else if plain(a) && plain(b) && a.root != nil && b.root == nil {
			// only the then-branch left the map inside the outer map
			a.nonnil, a.guard = a.nonnil && b.nonnil, cond
			m.st.alias[o] = a
		} else if plain(a) && plain(b) && a.root == nil && b.root != nil {
			b.nonnil, b.guard = a.nonnil && b.nonnil, "(!"+cond+")"
			m.st.alias[o] = b
		} else {
			m.st.alias[o] = aliasInfo{conflict: true, stale: a.stale || b.stale}
		}
	}
	if len(keys) == 0 {
		r, err := next()
		return pre + r, err
	}
	j := m.freshName("j")
	text := fmt.Sprintf("%s%slet %s :=\n%s  if %s then\n%s\n%s  else\n%s\n", pre, ind, j, ind, cond, tb, ind, eb)
	for i, k := range keys {
		nm := m.freshName(k.name)
		if k.obj == nil {
			text += fmt.Sprintf("%slet %s : List Eff := %s\n", ind, nm, proj(j, i, len(keys)))
			m.st.effs = nm
		} else {
			t, err := m.g.mtype(k.obj.Type())
			if err != nil {
				return "", err
			}
			text += fmt.Sprintf("%slet %s : %s := %s\n", ind, nm, t.lean, proj(j, i, len(keys)))
			m.st.env[k.obj] = nm
		}
	}
	r, err := next()
	return text + r, err
}
