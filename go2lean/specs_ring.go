package main

// Kernels of the Get-side batching path: ring.go (ringStripe.Push, ringBuffer.Push),
// defaultPolicy.Push / newDefaultPolicy and tinyLFU.Push (policy.go).  Output module: Ring.
//
// Plain specs (KExpr / KPin) cover the decisions of defaultPolicy.Push; the extra generator below
// covers what is anchored by its PLACE rather than by its text, and what is not an expression:
//
//   - the drain decision of ringStripe.Push: the condition of the `if` that encloses the hand-over
//     `if s.cons.Push(s.data) {…} else {…}`, whatever its text (`stripeFull`, over s.data / s.capa),
//     so that a changed operator changes the definition the model calls instead of making the
//     anchor disappear;
//   - the two reset branches of ringStripe.Push (`s.data = make([]uint64, 0, s.capa)` after the
//     consumer took the batch, `s.data = s.data[:0]` after it refused): for each branch the
//     LENGTH of s.data after the branch as a function of s.data / s.capa (`keptResetLen`,
//     `dropResetLen`; a branch without an assignment leaves the length `len(s.data)`), and
//     whether the branch allocates a fresh backing array (`keptResetFresh`, `dropResetFresh`:
//     the batch handed to the channel must not be written again by the stripe);
//   - the delta argument of `p.metrics.add(keepGets, …)` / `p.metrics.add(dropGets, …)` in
//     defaultPolicy.Push, anchored by the metric constant (not by position), with the fixed
//     parameter `keys` so that a constant delta still yields a def of the same signature.

import (
	"fmt"
	"go/ast"
	"go/token"
	"go/types"
	"strings"
)

func init() {
	register("ring", ringSpecs())
	extras["Ring"] = genRing
}

func ringSpecs() []Spec {
	o := "Ring"
	return []Spec{
		// ring.go
		{Kind: KExpr, Func: "newRingStripe", Match: "int(capa)", Lean: "stripeCapa", Out: o},
		{Kind: KPin, Func: "ringBuffer.Push", Nth: -1, Match: "stripe := b.pool.Get().(*ringStripe); stripe.Push(item); b.pool.Put(stripe)", Lean: "pinRingBufferPush", Out: o},
		// policy.go: defaultPolicy.Push
		{Kind: KExpr, Func: "defaultPolicy.Push", Match: "p.isClosed", Lean: "pushClosed", Out: o},
		{Kind: KExpr, Func: "defaultPolicy.Push", Match: "len(keys) == 0", Lean: "pushEmpty", Out: o},
		// the four results, in source order: closed, empty batch, sent, channel full
		{Kind: KExpr, Func: "defaultPolicy.Push", Match: "false", Nth: 1, Lean: "retClosed", Out: o},
		{Kind: KExpr, Func: "defaultPolicy.Push", Match: "true", Nth: 1, Lean: "retEmpty", Out: o},
		{Kind: KExpr, Func: "defaultPolicy.Push", Match: "true", Nth: 2, Lean: "retKept", Out: o},
		{Kind: KExpr, Func: "defaultPolicy.Push", Match: "false", Nth: 2, Lean: "retDropped", Out: o},
		// capacity of itemsCh: the literal in `make(chan []uint64, 3)`
		{Kind: KExpr, Func: "newDefaultPolicy", Match: "3", Lean: "itemsChCap", Out: o},
		// tinyLFU.Push is `Increment` per key, in order
		{Kind: KPin, Func: "tinyLFU.Push", Nth: -1, Match: "for _, key := range keys { p.Increment(key) }", Lean: "pinTinyPush", Out: o},
	}
}

// ---------------------------------------------------------------- extra generator

func genRing(load func(string) *pkgInfo) (string, error) {
	pi := load("")
	var b strings.Builder
	var errs []string
	add := func(txt string, err error, name string) {
		if err != nil {
			errs = append(errs, fmt.Sprintf("%s: %v", name, err))
			fmt.Fprintf(&b, "-- UNTRANSLATABLE %s: %v\n\n", name, strings.ReplaceAll(err.Error(), "\n", " "))
			return
		}
		b.WriteString(txt)
		b.WriteString("\n")
	}
	cond, kept, dropped, err := ringResetBranches(pi)
	if err != nil {
		add("", err, "stripeFull")
		add("", err, "keptResetLen")
		add("", err, "dropResetLen")
	} else {
		ctxt, cerr := ringDrainCond(pi, cond)
		add(ctxt, cerr, "stripeFull")
		for _, br := range []struct {
			name  string
			stmts []ast.Stmt
			what  string
		}{{"kept", kept, "the consumer took the batch"}, {"drop", dropped, "the consumer refused the batch"}} {
			txt, fresh, err := ringResetLen(pi, br.stmts, br.name+"ResetLen", br.what)
			add(txt, err, br.name+"ResetLen")
			if err == nil {
				add(fmt.Sprintf("/-- ringStripe.Push, branch \"%s\": does the branch give s.data a fresh backing array (`make`)? -/\ndef %sResetFresh : Bool := %v\n",
					br.what, br.name, fresh), nil, br.name+"ResetFresh")
			}
		}
	}
	for _, m := range []struct{ metric, lean string }{{"keepGets", "keepDelta"}, {"dropGets", "dropDelta"}} {
		txt, err := ringMetricDelta(pi, m.metric, m.lean)
		add(txt, err, m.lean)
	}
	if len(errs) > 0 {
		// the defs that did translate are still emitted; main reports the module as failed
		return b.String(), fmt.Errorf("%s", strings.Join(errs, "; "))
	}
	return b.String(), nil
}

// ringResetBranches finds, in ringStripe.Push, the `if <full> { if s.cons.Push(s.data) { A } else { B } }`
// and returns A and B.
func ringResetBranches(pi *pkgInfo) (cond ast.Expr, kept, dropped []ast.Stmt, err error) {
	fd := pi.findFunc("ringStripe.Push")
	if fd == nil {
		return nil, nil, nil, fmt.Errorf("function ringStripe.Push not found")
	}
	isHandOver := func(st ast.Stmt) *ast.IfStmt {
		is, ok := st.(*ast.IfStmt)
		if !ok {
			return nil
		}
		if call, ok := unparen(is.Cond).(*ast.CallExpr); ok {
			if sel, ok := call.Fun.(*ast.SelectorExpr); ok && sel.Sel.Name == "Push" {
				return is
			}
		}
		return nil
	}
	var inner, outer *ast.IfStmt
	n := 0
	ast.Inspect(fd.Body, func(nd ast.Node) bool {
		if is, ok := nd.(*ast.IfStmt); ok {
			if isHandOver(is) != nil {
				inner = is
				n++
			}
			var real []ast.Stmt
			for _, st := range is.Body.List {
				if !pi.isHookStmt(st) {
					real = append(real, st)
				}
			}
			if len(real) == 1 && isHandOver(real[0]) != nil && is.Else == nil && is.Init == nil {
				outer = is
			}
		}
		return true
	})
	if n != 1 {
		return nil, nil, nil, fmt.Errorf("ringStripe.Push: expected exactly one `if ….Push(…)` (found %d)", n)
	}
	if outer == nil {
		return nil, nil, nil, fmt.Errorf("ringStripe.Push: the hand-over is not the whole body of one `if <drain decision> { … }`")
	}
	if inner.Init != nil {
		return nil, nil, nil, fmt.Errorf("ringStripe.Push: if with init statement outside the subset")
	}
	switch e := inner.Else.(type) {
	case nil:
	case *ast.BlockStmt:
		dropped = e.List
	default:
		return nil, nil, nil, fmt.Errorf("ringStripe.Push: else-if outside the subset")
	}
	return outer.Cond, inner.Body.List, dropped, nil
}

// ringDrainCond: the drain decision over the fixed parameters s.data / s.capa.
func ringDrainCond(pi *pkgInfo, cond ast.Expr) (string, error) {
	fd := pi.findFunc("ringStripe.Push")
	recv := "s"
	if fd.Recv != nil && len(fd.Recv.List) == 1 && len(fd.Recv.List[0].Names) == 1 {
		recv = fd.Recv.List[0].Names[0].Name
	}
	c := &ctx{pi: pi, env: map[types.Object]string{}, leaves: map[string]string{}, opaque: true}
	c.leaves[recv+".data"] = "s_data"
	c.params = append(c.params, param{"s_data", lty{"arr", 64, false}})
	c.leaves[recv+".capa"] = "s_capa"
	c.params = append(c.params, param{"s_capa", lty{"bv", 64, true}})
	body, t, err := c.expr(cond)
	if err != nil {
		return "", err
	}
	if t.kind != "bool" || len(c.params) != 2 {
		return "", fmt.Errorf("drain decision %q outside the subset", pi.src(cond))
	}
	return fmt.Sprintf("set_option linter.unusedVariables false in\n/-- ringStripe.Push, the drain decision (condition of the `if` around the hand-over): `%s` -/\ndef stripeFull (s_data : Array (BitVec 64)) (s_capa : BitVec 64) : Bool :=\n  %s\n",
		pi.src(cond), body), nil
}

// ringResetLen: the length of s.data after the statements of one branch.
func ringResetLen(pi *pkgInfo, stmts []ast.Stmt, lean, what string) (string, bool, error) {
	fd := pi.findFunc("ringStripe.Push")
	recv := "s"
	if fd.Recv != nil && len(fd.Recv.List) == 1 && len(fd.Recv.List[0].Names) == 1 {
		recv = fd.Recv.List[0].Names[0].Name
	}
	var real []ast.Stmt
	for _, st := range stmts {
		if !pi.isHookStmt(st) {
			real = append(real, st)
		}
	}
	c := &ctx{pi: pi, env: map[types.Object]string{}, leaves: map[string]string{}, opaque: true}
	// fixed signature: (s_data : Array (BitVec 64)) (s_capa : BitVec 64)
	c.leaves[recv+".data"] = "s_data"
	c.params = append(c.params, param{"s_data", lty{"arr", 64, false}})
	c.leaves[recv+".capa"] = "s_capa"
	c.params = append(c.params, param{"s_capa", lty{"bv", 64, true}})
	body, fresh, src := "", false, ""
	switch len(real) {
	case 0:
		body, src = "(BitVec.ofNat 64 s_data.size)", "(no assignment)"
	case 1:
		as, ok := real[0].(*ast.AssignStmt)
		if !ok || as.Tok != token.ASSIGN || len(as.Lhs) != 1 || len(as.Rhs) != 1 || pi.src(as.Lhs[0]) != recv+".data" {
			return "", false, fmt.Errorf("branch %q is not a single assignment to %s.data: %q", what, recv, firstLine(pi.src(real[0])))
		}
		src = pi.src(as)
		switch r := unparen(as.Rhs[0]).(type) {
		case *ast.CallExpr: // make([]uint64, L, C)
			id, ok := r.Fun.(*ast.Ident)
			if !ok || id.Name != "make" || len(r.Args) < 2 {
				return "", false, fmt.Errorf("branch %q: right-hand side %q outside the subset", what, pi.src(r))
			}
			l, t, err := c.expr(r.Args[1])
			if err != nil || t.kind != "bv" {
				return "", false, fmt.Errorf("branch %q: length %q outside the subset", what, pi.src(r.Args[1]))
			}
			body, fresh = l, true
		case *ast.SliceExpr: // s.data[:H]
			if pi.src(r.X) != recv+".data" || r.Low != nil || r.High == nil || r.Slice3 {
				return "", false, fmt.Errorf("branch %q: slice %q outside the subset", what, pi.src(r))
			}
			h, t, err := c.expr(r.High)
			if err != nil || t.kind != "bv" {
				return "", false, fmt.Errorf("branch %q: bound %q outside the subset", what, pi.src(r.High))
			}
			body = h
		default:
			return "", false, fmt.Errorf("branch %q: right-hand side %q outside the subset", what, pi.src(as.Rhs[0]))
		}
	default:
		return "", false, fmt.Errorf("branch %q has %d statements", what, len(real))
	}
	if len(c.params) != 2 {
		return "", false, fmt.Errorf("branch %q: unexpected operand %s", what, c.params[len(c.params)-1].name)
	}
	txt := fmt.Sprintf("set_option linter.unusedVariables false in\n/-- ringStripe.Push, branch \"%s\": `len(s.data)` after `%s` -/\ndef %s (s_data : Array (BitVec 64)) (s_capa : BitVec 64) : BitVec 64 :=\n  %s\n",
		what, strings.Join(strings.Fields(src), " "), lean, body)
	return txt, fresh, nil
}

// ringMetricDelta: the delta argument of the unique call `p.metrics.add(<metric>, _, delta)` in
// defaultPolicy.Push, over the fixed parameter `keys`.
func ringMetricDelta(pi *pkgInfo, metric, lean string) (string, error) {
	fd := pi.findFunc("defaultPolicy.Push")
	if fd == nil {
		return "", fmt.Errorf("function defaultPolicy.Push not found")
	}
	var hits []*ast.CallExpr
	ast.Inspect(fd.Body, func(nd ast.Node) bool {
		if call, ok := nd.(*ast.CallExpr); ok && len(call.Args) == 3 {
			if sel, ok := call.Fun.(*ast.SelectorExpr); ok && sel.Sel.Name == "add" {
				if id, ok := call.Args[0].(*ast.Ident); ok && id.Name == metric {
					hits = append(hits, call)
				}
			}
		}
		return true
	})
	if len(hits) != 1 {
		return "", fmt.Errorf("defaultPolicy.Push: expected exactly one `….add(%s, _, delta)` (found %d)", metric, len(hits))
	}
	keys := "keys"
	if ps := fd.Type.Params.List; len(ps) == 1 && len(ps[0].Names) == 1 {
		keys = ps[0].Names[0].Name
	}
	c := &ctx{pi: pi, env: map[types.Object]string{}, leaves: map[string]string{}, opaque: true}
	c.leaves[keys] = "keys"
	c.params = append(c.params, param{"keys", lty{"arr", 64, false}})
	body, t, err := c.expr(hits[0].Args[2])
	if err != nil {
		return "", err
	}
	if t.kind != "bv" || t.w != 64 || len(c.params) != 1 {
		return "", fmt.Errorf("delta %q outside the subset", pi.src(hits[0].Args[2]))
	}
	return fmt.Sprintf("set_option linter.unusedVariables false in\n/-- defaultPolicy.Push: delta of `p.metrics.add(%s, …)`: `%s` -/\ndef %s (keys : Array (BitVec 64)) : BitVec 64 :=\n  %s\n",
		metric, pi.src(hits[0].Args[2]), lean, body), nil
}
