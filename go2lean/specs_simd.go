package main

// Kernels of z/simd (C20).
//
//   - the amd64 wrapper `Search` (search_amd64.go) and `Naive` (baseline.go): their statement
//     SHAPE is checked (it is the shape of the hand-written model in RV/Model/Simd.lean) and
//     the expression at every position of that shape is emitted as a kernel, whatever its
//     operator or constant (so a changed operator breaks a proof, not the translation);
//   - the three-clause `for` headers of those functions (init / condition / post statement),
//     which KFunc cannot take because the loop bodies return: forHeader below;
//   - the portable `Search` of search.go (`!amd64`, skipped by the package loader because it
//     clashes with the amd64 wrapper): parsed here as its own package together with
//     baseline.go, kernels emitted with the prefix `portable`.
//
// The assembly routine itself is read by asm.go (module SimdAsm).

import (
	"fmt"
	"go/ast"
	"go/parser"
	"go/token"
	"go/types"
	"path/filepath"
	"regexp"
	"strings"
)

var reConstIdx = regexp.MustCompile(`\[([0-9]+#[0-9]+)\.toNat\]`)

func init() {
	extras["Simd"] = genSimdExtra
}

func genSimdExtra(load func(string) *pkgInfo) (string, error) {
	var b strings.Builder
	pi := load("z/simd")
	txt0, err := wrapperKernels(pi)
	if err != nil {
		return "", err
	}
	b.WriteString(txt0)
	txt0, err = naiveKernels(pi)
	if err != nil {
		return "", err
	}
	b.WriteString(txt0)
	for _, h := range []struct {
		fn, lean string
		nth      int
	}{{"Search", "wrapTail", 1}, {"Naive", "naiveLoop", 1}} {
		txt, err := forHeader(pi, h.fn, h.nth, h.lean)
		if err != nil {
			return "", err
		}
		b.WriteString(txt)
	}
	// portable search.go (+ baseline.go for Naive) as a package of its own
	fset := token.NewFileSet()
	var files []*ast.File
	dir := filepath.Join(repo, "z/simd")
	for _, n := range []string{"search.go", "baseline.go"} {
		f, err := parser.ParseFile(fset, filepath.Join(dir, n), nil, parser.ParseComments)
		if err != nil {
			return "", err
		}
		files = append(files, f)
	}
	pp, err := checkFiles(fset, files, dir)
	if err != nil {
		return "", err
	}
	// the portable version must really be the fallback of the amd64 one
	if len(files[0].Comments) == 0 || !strings.Contains(files[0].Comments[0].Text(), "!amd64") {
		// Comments[0].Text() drops //go:build lines; look at the raw text instead
		raw := ""
		for _, cg := range files[0].Comments {
			for _, c := range cg.List {
				raw += c.Text + "\n"
			}
		}
		if !strings.Contains(raw, "//go:build !amd64") {
			return "", fmt.Errorf("search.go is no longer built for !amd64 only")
		}
	}
	ps := []Spec{
		{Kind: KExpr, Func: "Search", Match: "len(xs) < 8 || (len(xs)%8 != 0)", Lean: "portableUseNaive"},
		{Kind: KExpr, Func: "Search", Match: "xs[i]", Lean: "portableLoad0"},
		{Kind: KExpr, Func: "Search", Match: "xs[i+2]", Lean: "portableLoad1"},
		{Kind: KExpr, Func: "Search", Match: "xs[i+4]", Lean: "portableLoad2"},
		{Kind: KExpr, Func: "Search", Match: "xs[i+6]", Lean: "portableLoad3"},
		{Kind: KExpr, Func: "Search", Match: "twos[0] >= pk[0]", Lean: "portableGe0"},
		{Kind: KExpr, Func: "Search", Match: "twos[1] >= pk[1]", Lean: "portableGe1"},
		{Kind: KExpr, Func: "Search", Match: "twos[2] >= pk[2]", Lean: "portableGe2"},
		{Kind: KExpr, Func: "Search", Match: "twos[3] >= pk[3]", Lean: "portableGe3"},
		{Kind: KExpr, Func: "Search", Match: "int16(i / 2)", Lean: "portableRet0"},
		{Kind: KExpr, Func: "Search", Match: "int16((i + 2) / 2)", Lean: "portableRet1"},
		{Kind: KExpr, Func: "Search", Match: "int16((i + 4) / 2)", Lean: "portableRet2"},
		{Kind: KExpr, Func: "Search", Match: "int16((i + 6) / 2)", Lean: "portableRet3"},
		{Kind: KExpr, Func: "Search", Match: "int16(len(xs) / 2)", Lean: "portableNone"},
	}
	for _, s := range ps {
		s.Pkg = "z/simd(search.go)"
		txt, err := translateExpr(pp, s)
		if err != nil {
			return "", fmt.Errorf("%s: %v", s.Lean, err)
		}
		// main.go renders a constant index as `a[0#64.toNat]!`, which Lean does not parse
		txt = reConstIdx.ReplaceAllString(txt, "[($1).toNat]")
		b.WriteString(txt)
		b.WriteString("\n")
	}
	txt, err := forHeader(pp, "Search", 1, "portableLoop")
	if err != nil {
		return "", err
	}
	b.WriteString(txt)
	return b.String(), nil
}

// forHeader renders the init / condition / post of the nth `for` statement of a function as
// three Lean defs (used by specs_simd.go for the loops whose bodies return, which KFunc
// does not cover).  The loop variable is the defs' first parameter.
func forHeader(pi *pkgInfo, fn string, nth int, lean string) (string, error) {
	fd := pi.findFunc(fn)
	if fd == nil || fd.Body == nil {
		return "", fmt.Errorf("function %s not found", fn)
	}
	var loops []*ast.ForStmt
	ast.Inspect(fd.Body, func(n ast.Node) bool {
		if f, ok := n.(*ast.ForStmt); ok {
			loops = append(loops, f)
		}
		return true
	})
	if nth < 1 || nth > len(loops) {
		return "", fmt.Errorf("%s has %d for loops, wanted #%d", fn, len(loops), nth)
	}
	fs := loops[nth-1]
	if fs.Init == nil || fs.Cond == nil || fs.Post == nil {
		return "", fmt.Errorf("%s loop #%d is not a three-clause loop", fn, nth)
	}
	as, ok := fs.Init.(*ast.AssignStmt)
	if !ok || len(as.Lhs) != 1 || len(as.Rhs) != 1 {
		return "", fmt.Errorf("%s loop #%d: init %q outside the subset", fn, nth, pi.src(fs.Init))
	}
	iv, ok := as.Lhs[0].(*ast.Ident)
	if !ok {
		return "", fmt.Errorf("%s loop #%d: init %q outside the subset", fn, nth, pi.src(fs.Init))
	}
	obj := pi.info.Defs[iv]
	if obj == nil {
		obj = pi.info.Uses[iv]
	}
	if obj == nil {
		return "", fmt.Errorf("%s loop #%d: loop variable unresolved", fn, nth)
	}
	tIv, err := leanType(obj.Type())
	if err != nil || tIv.kind != "bv" {
		return "", fmt.Errorf("%s loop #%d: loop variable type outside the subset", fn, nth)
	}
	var b strings.Builder
	emit := func(suffix, doc string, c *ctx, first bool, body string, t lty) {
		fmt.Fprintf(&b, "/-- %s: %s -/\ndef %s%s", fn, doc, lean, suffix)
		if first {
			fmt.Fprintf(&b, " (%s : %s)", sanitize(iv.Name), tIv.lean())
		}
		for _, p := range c.params {
			fmt.Fprintf(&b, " (%s : %s)", p.name, p.ty.lean())
		}
		fmt.Fprintf(&b, " : %s :=\n  %s\n\n", t.lean(), body)
	}
	// init
	c0 := &ctx{pi: pi, env: map[types.Object]string{}, leaves: map[string]string{}, opaque: true}
	ini, t0, err := c0.expr(as.Rhs[0])
	if err != nil {
		return "", err
	}
	if t0.kind != "bv" || t0.w != tIv.w {
		return "", fmt.Errorf("%s loop #%d: init type mismatch", fn, nth)
	}
	emit("Init", fmt.Sprintf("`for %s; …` initial value of %s", pi.src(fs.Init), iv.Name), c0, false, ini, tIv)
	// cond
	c1 := &ctx{pi: pi, env: map[types.Object]string{obj: sanitize(iv.Name)}, leaves: map[string]string{}, opaque: true}
	cond, t1, err := c1.expr(fs.Cond)
	if err != nil {
		return "", err
	}
	if t1.kind != "bool" {
		return "", fmt.Errorf("%s loop #%d: condition is not boolean", fn, nth)
	}
	emit("Cond", fmt.Sprintf("loop condition `%s`", pi.src(fs.Cond)), c1, true, cond, t1)
	// post
	c2 := &ctx{pi: pi, env: map[types.Object]string{obj: sanitize(iv.Name)}, leaves: map[string]string{}, opaque: true}
	var post string
	switch p := fs.Post.(type) {
	case *ast.IncDecStmt, *ast.AssignStmt:
		if a, ok := p.(*ast.AssignStmt); ok {
			if len(a.Lhs) != 1 || pi.src(a.Lhs[0]) != iv.Name {
				return "", fmt.Errorf("%s loop #%d: post %q outside the subset", fn, nth, pi.src(fs.Post))
			}
		}
		if a, ok := p.(*ast.IncDecStmt); ok && pi.src(a.X) != iv.Name {
			return "", fmt.Errorf("%s loop #%d: post %q outside the subset", fn, nth, pi.src(fs.Post))
		}
		post, err = c2.block([]ast.Stmt{fs.Post}, "  ", func() (string, error) { return "  " + c2.env[obj], nil })
		if err != nil {
			return "", err
		}
	default:
		return "", fmt.Errorf("%s loop #%d: post %q outside the subset", fn, nth, pi.src(fs.Post))
	}
	emit("Step", fmt.Sprintf("loop post statement `%s`", pi.src(fs.Post)), c2, true, strings.TrimSpace(post), tIv)
	return b.String(), nil
}

// emitExpr renders one expression of fn as a Lean def (same conventions as KExpr: opaque
// leaves become the parameters in order of first occurrence).
func emitExpr(pi *pkgInfo, fn, lean string, e ast.Expr) (string, error) {
	c := &ctx{pi: pi, env: map[types.Object]string{}, leaves: map[string]string{}, opaque: true}
	body, t, err := c.expr(e)
	if err != nil {
		return "", fmt.Errorf("%s: %v", lean, err)
	}
	var b strings.Builder
	fmt.Fprintf(&b, "/-- %s: `%s` -/\ndef %s", fn, pi.src(e), lean)
	for _, p := range c.params {
		fmt.Fprintf(&b, " (%s : %s)", p.name, p.ty.lean())
	}
	fmt.Fprintf(&b, " : %s :=\n  %s\n\n", t.lean(), body)
	return reConstIdx.ReplaceAllString(b.String(), "[($1).toNat]"), nil
}

func shapeErr(fn, what string) error {
	return fmt.Errorf("%s no longer has the modelled shape: %s", fn, what)
}

// ifReturn matches `if <cond> { return <expr> }` (no init, no else).
func ifReturn(st ast.Stmt) (cond, ret ast.Expr, ok bool) {
	is, ok1 := st.(*ast.IfStmt)
	if !ok1 || is.Init != nil || is.Else != nil || len(is.Body.List) != 1 {
		return nil, nil, false
	}
	rs, ok2 := is.Body.List[0].(*ast.ReturnStmt)
	if !ok2 || len(rs.Results) != 1 {
		return nil, nil, false
	}
	return is.Cond, rs.Results[0], true
}

// wrapperKernels checks that the amd64 Search is
//
//	n := E1
//	if E2 { if idx := search(xs[:n], k); E3 { return idx } }
//	for i := …; …; … { if E4 { return E5 } }
//	return E6
//
// and emits E1..E6 (the loop header is emitted by forHeader).
func wrapperKernels(pi *pkgInfo) (string, error) {
	fn := "Search"
	fd := pi.findFunc(fn)
	if fd == nil || fd.Body == nil {
		return "", fmt.Errorf("function %s not found", fn)
	}
	if got := pi.src(fd.Type); got != "func(xs []uint64, k uint64) int16" {
		return "", shapeErr(fn, "signature "+got)
	}
	l := fd.Body.List
	if len(l) != 4 {
		return "", shapeErr(fn, fmt.Sprintf("%d top-level statements, expected 4", len(l)))
	}
	as, ok := l[0].(*ast.AssignStmt)
	if !ok || as.Tok != token.DEFINE || len(as.Lhs) != 1 || len(as.Rhs) != 1 || pi.src(as.Lhs[0]) != "n" {
		return "", shapeErr(fn, "first statement is not `n := …`")
	}
	outer, ok := l[1].(*ast.IfStmt)
	if !ok || outer.Init != nil || outer.Else != nil || len(outer.Body.List) != 1 {
		return "", shapeErr(fn, "second statement is not `if … { if … }`")
	}
	inner, ok := outer.Body.List[0].(*ast.IfStmt)
	if !ok || inner.Init == nil || inner.Else != nil || len(inner.Body.List) != 1 {
		return "", shapeErr(fn, "inner statement is not `if idx := …; … { return idx }`")
	}
	if got := pi.src(inner.Init); got != "idx := search(xs[:n], k)" {
		return "", shapeErr(fn, "call of the assembly routine is `"+got+"`, expected `idx := search(xs[:n], k)`")
	}
	if rs, ok := inner.Body.List[0].(*ast.ReturnStmt); !ok || len(rs.Results) != 1 || pi.src(rs.Results[0]) != "idx" {
		return "", shapeErr(fn, "inner if does not `return idx`")
	}
	fs, ok := l[2].(*ast.ForStmt)
	if !ok || fs.Init == nil || fs.Cond == nil || fs.Post == nil || len(fs.Body.List) != 1 {
		return "", shapeErr(fn, "third statement is not a three-clause for loop with a one-statement body")
	}
	e4, e5, ok := ifReturn(fs.Body.List[0])
	if !ok {
		return "", shapeErr(fn, "loop body is not `if … { return … }`")
	}
	rs, ok := l[3].(*ast.ReturnStmt)
	if !ok || len(rs.Results) != 1 {
		return "", shapeErr(fn, "last statement is not a return")
	}
	var b strings.Builder
	for _, k := range []struct {
		lean string
		e    ast.Expr
	}{{"wrapN", as.Rhs[0]}, {"wrapHasPrefix", outer.Cond}, {"wrapFound", inner.Cond}, {"wrapGe", e4}, {"wrapRet", e5}, {"wrapNone", rs.Results[0]}} {
		txt, err := emitExpr(pi, fn, k.lean, k.e)
		if err != nil {
			return "", err
		}
		b.WriteString(txt)
	}
	return b.String(), nil
}

// naiveKernels checks that Naive is
//
//	var i int
//	for i = …; …; … { x := E1; if E2 { return E3 } }
//	return E4
func naiveKernels(pi *pkgInfo) (string, error) {
	fn := "Naive"
	fd := pi.findFunc(fn)
	if fd == nil || fd.Body == nil {
		return "", fmt.Errorf("function %s not found", fn)
	}
	if got := pi.src(fd.Type); got != "func(xs []uint64, k uint64) int16" {
		return "", shapeErr(fn, "signature "+got)
	}
	l := fd.Body.List
	if len(l) != 3 {
		return "", shapeErr(fn, fmt.Sprintf("%d top-level statements, expected 3", len(l)))
	}
	if ds, ok := l[0].(*ast.DeclStmt); !ok || pi.src(ds) != "var i int" {
		return "", shapeErr(fn, "first statement is not `var i int`")
	}
	fs, ok := l[1].(*ast.ForStmt)
	if !ok || fs.Init == nil || fs.Cond == nil || fs.Post == nil || len(fs.Body.List) != 2 {
		return "", shapeErr(fn, "second statement is not a three-clause for loop with a two-statement body")
	}
	as, ok := fs.Body.List[0].(*ast.AssignStmt)
	if !ok || as.Tok != token.DEFINE || len(as.Lhs) != 1 || len(as.Rhs) != 1 || pi.src(as.Lhs[0]) != "x" {
		return "", shapeErr(fn, "loop body does not start with `x := …`")
	}
	e2, e3, ok := ifReturn(fs.Body.List[1])
	if !ok {
		return "", shapeErr(fn, "loop body does not end with `if … { return … }`")
	}
	rs, ok := l[2].(*ast.ReturnStmt)
	if !ok || len(rs.Results) != 1 {
		return "", shapeErr(fn, "last statement is not a return")
	}
	var b strings.Builder
	for _, k := range []struct {
		lean string
		e    ast.Expr
	}{{"naiveLoad", as.Rhs[0]}, {"naiveGe", e2}, {"naiveRet", e3}, {"naiveEnd", rs.Results[0]}} {
		txt, err := emitExpr(pi, fn, k.lean, k.e)
		if err != nil {
			return "", err
		}
		b.WriteString(txt)
	}
	return b.String(), nil
}
