package main

// Kernels of z/simd (C20).
//
//   - the decision points / arithmetic of the amd64 wrapper `Search` (search_amd64.go) and of
//     `Naive` (baseline.go) as KExpr kernels in the registry (module Simd);
//   - the three-clause `for` headers of those functions (init / condition / post statement),
//     which KFunc cannot take because the loop bodies return: forHeader below;
//   - the portable `Search` of search.go (`!amd64`, skipped by the package loader because it
//     clashes with the amd64 wrapper): parsed here as its own package together with
//     baseline.go, kernels emitted with the prefix `portable`.
//
// The assembly routine itself is read by asm.go (module SimdAsm).

import (
	"fmt"
	"go/ast"
	"go/parser"
	"go/token"
	"go/types"
	"path/filepath"
	"strings"
)

func init() {
	register("simd", simdSpecs())
	extras["Simd"] = genSimdExtra
}

func simdSpecs() []Spec {
	o, p := "Simd", "z/simd"
	return []Spec{
		// amd64 wrapper
		{Kind: KExpr, Pkg: p, Func: "Search", Match: "len(xs) &^ 7", Lean: "wrapN", Out: o},
		{Kind: KExpr, Pkg: p, Func: "Search", Match: "n > 0", Lean: "wrapHasPrefix", Out: o},
		{Kind: KExpr, Pkg: p, Func: "Search", Match: "int(idx) < n/2", Lean: "wrapFound", Out: o},
		{Kind: KExpr, Pkg: p, Func: "Search", Match: "xs[i] >= k", Lean: "wrapGe", Out: o},
		{Kind: KExpr, Pkg: p, Func: "Search", Match: "int16(i / 2)", Lean: "wrapRet", Out: o},
		{Kind: KExpr, Pkg: p, Func: "Search", Match: "int16(len(xs) / 2)", Lean: "wrapNone", Out: o},
		// Naive
		{Kind: KExpr, Pkg: p, Func: "Naive", Match: "xs[i]", Lean: "naiveLoad", Out: o},
		{Kind: KExpr, Pkg: p, Func: "Naive", Match: "x >= k", Lean: "naiveGe", Out: o},
		{Kind: KExpr, Pkg: p, Func: "Naive", Match: "int16(i / 2)", Nth: 1, Lean: "naiveRet", Out: o},
		{Kind: KExpr, Pkg: p, Func: "Naive", Match: "int16(i / 2)", Nth: 2, Lean: "naiveEnd", Out: o},
	}
}

func genSimdExtra(load func(string) *pkgInfo) (string, error) {
	var b strings.Builder
	pi := load("z/simd")
	for _, h := range []struct {
		fn, lean string
		nth      int
	}{{"Search", "wrapTail", 1}, {"Naive", "naiveLoop", 1}} {
		txt, err := forHeader(pi, h.fn, h.nth, h.lean)
		if err != nil {
			return "", err
		}
		b.WriteString(txt)
	}
	// portable search.go (+ baseline.go for Naive) as a package of its own
	fset := token.NewFileSet()
	var files []*ast.File
	dir := filepath.Join(repo, "z/simd")
	for _, n := range []string{"search.go", "baseline.go"} {
		f, err := parser.ParseFile(fset, filepath.Join(dir, n), nil, parser.ParseComments)
		if err != nil {
			return "", err
		}
		files = append(files, f)
	}
	pp, err := checkFiles(fset, files, dir)
	if err != nil {
		return "", err
	}
	// the portable version must really be the fallback of the amd64 one
	if len(files[0].Comments) == 0 || !strings.Contains(files[0].Comments[0].Text(), "!amd64") {
		// Comments[0].Text() drops //go:build lines; look at the raw text instead
		raw := ""
		for _, cg := range files[0].Comments {
			for _, c := range cg.List {
				raw += c.Text + "\n"
			}
		}
		if !strings.Contains(raw, "//go:build !amd64") {
			return "", fmt.Errorf("search.go is no longer built for !amd64 only")
		}
	}
	ps := []Spec{
		{Kind: KExpr, Func: "Search", Match: "len(xs) < 8 || (len(xs)%8 != 0)", Lean: "portableUseNaive"},
		{Kind: KExpr, Func: "Search", Match: "xs[i]", Lean: "portableLoad0"},
		{Kind: KExpr, Func: "Search", Match: "xs[i+2]", Lean: "portableLoad1"},
		{Kind: KExpr, Func: "Search", Match: "xs[i+4]", Lean: "portableLoad2"},
		{Kind: KExpr, Func: "Search", Match: "xs[i+6]", Lean: "portableLoad3"},
		{Kind: KExpr, Func: "Search", Match: "twos[0] >= pk[0]", Lean: "portableGe0"},
		{Kind: KExpr, Func: "Search", Match: "twos[1] >= pk[1]", Lean: "portableGe1"},
		{Kind: KExpr, Func: "Search", Match: "twos[2] >= pk[2]", Lean: "portableGe2"},
		{Kind: KExpr, Func: "Search", Match: "twos[3] >= pk[3]", Lean: "portableGe3"},
		{Kind: KExpr, Func: "Search", Match: "int16(i / 2)", Lean: "portableRet0"},
		{Kind: KExpr, Func: "Search", Match: "int16((i + 2) / 2)", Lean: "portableRet1"},
		{Kind: KExpr, Func: "Search", Match: "int16((i + 4) / 2)", Lean: "portableRet2"},
		{Kind: KExpr, Func: "Search", Match: "int16((i + 6) / 2)", Lean: "portableRet3"},
		{Kind: KExpr, Func: "Search", Match: "int16(len(xs) / 2)", Lean: "portableNone"},
	}
	for _, s := range ps {
		s.Pkg = "z/simd(search.go)"
		txt, err := translateExpr(pp, s)
		if err != nil {
			return "", fmt.Errorf("%s: %v", s.Lean, err)
		}
		b.WriteString(txt)
		b.WriteString("\n")
	}
	txt, err := forHeader(pp, "Search", 1, "portableLoop")
	if err != nil {
		return "", err
	}
	b.WriteString(txt)
	return b.String(), nil
}

// forHeader renders the init / condition / post of the nth `for` statement of a function as
// three Lean defs (used by specs_simd.go for the loops whose bodies return, which KFunc
// does not cover).  The loop variable is the defs' first parameter.
func forHeader(pi *pkgInfo, fn string, nth int, lean string) (string, error) {
	fd := pi.findFunc(fn)
	if fd == nil || fd.Body == nil {
		return "", fmt.Errorf("function %s not found", fn)
	}
	var loops []*ast.ForStmt
	ast.Inspect(fd.Body, func(n ast.Node) bool {
		if f, ok := n.(*ast.ForStmt); ok {
			loops = append(loops, f)
		}
		return true
	})
	if nth < 1 || nth > len(loops) {
		return "", fmt.Errorf("%s has %d for loops, wanted #%d", fn, len(loops), nth)
	}
	fs := loops[nth-1]
	if fs.Init == nil || fs.Cond == nil || fs.Post == nil {
		return "", fmt.Errorf("%s loop #%d is not a three-clause loop", fn, nth)
	}
	as, ok := fs.Init.(*ast.AssignStmt)
	if !ok || len(as.Lhs) != 1 || len(as.Rhs) != 1 {
		return "", fmt.Errorf("%s loop #%d: init %q outside the subset", fn, nth, pi.src(fs.Init))
	}
	iv, ok := as.Lhs[0].(*ast.Ident)
	if !ok {
		return "", fmt.Errorf("%s loop #%d: init %q outside the subset", fn, nth, pi.src(fs.Init))
	}
	obj := pi.info.Defs[iv]
	if obj == nil {
		obj = pi.info.Uses[iv]
	}
	if obj == nil {
		return "", fmt.Errorf("%s loop #%d: loop variable unresolved", fn, nth)
	}
	tIv, err := leanType(obj.Type())
	if err != nil || tIv.kind != "bv" {
		return "", fmt.Errorf("%s loop #%d: loop variable type outside the subset", fn, nth)
	}
	var b strings.Builder
	emit := func(suffix, doc string, c *ctx, first bool, body string, t lty) {
		fmt.Fprintf(&b, "/-- %s: %s -/\ndef %s%s", fn, doc, lean, suffix)
		if first {
			fmt.Fprintf(&b, " (%s : %s)", sanitize(iv.Name), tIv.lean())
		}
		for _, p := range c.params {
			fmt.Fprintf(&b, " (%s : %s)", p.name, p.ty.lean())
		}
		fmt.Fprintf(&b, " : %s :=\n  %s\n\n", t.lean(), body)
	}
	// init
	c0 := &ctx{pi: pi, env: map[types.Object]string{}, leaves: map[string]string{}, opaque: true}
	ini, t0, err := c0.expr(as.Rhs[0])
	if err != nil {
		return "", err
	}
	if t0.kind != "bv" || t0.w != tIv.w {
		return "", fmt.Errorf("%s loop #%d: init type mismatch", fn, nth)
	}
	emit("Init", fmt.Sprintf("`for %s; …` initial value of %s", pi.src(fs.Init), iv.Name), c0, false, ini, tIv)
	// cond
	c1 := &ctx{pi: pi, env: map[types.Object]string{obj: sanitize(iv.Name)}, leaves: map[string]string{}, opaque: true}
	cond, t1, err := c1.expr(fs.Cond)
	if err != nil {
		return "", err
	}
	if t1.kind != "bool" {
		return "", fmt.Errorf("%s loop #%d: condition is not boolean", fn, nth)
	}
	emit("Cond", fmt.Sprintf("loop condition `%s`", pi.src(fs.Cond)), c1, true, cond, t1)
	// post
	c2 := &ctx{pi: pi, env: map[types.Object]string{obj: sanitize(iv.Name)}, leaves: map[string]string{}, opaque: true}
	var post string
	switch p := fs.Post.(type) {
	case *ast.IncDecStmt, *ast.AssignStmt:
		if a, ok := p.(*ast.AssignStmt); ok {
			if len(a.Lhs) != 1 || pi.src(a.Lhs[0]) != iv.Name {
				return "", fmt.Errorf("%s loop #%d: post %q outside the subset", fn, nth, pi.src(fs.Post))
			}
		}
		if a, ok := p.(*ast.IncDecStmt); ok && pi.src(a.X) != iv.Name {
			return "", fmt.Errorf("%s loop #%d: post %q outside the subset", fn, nth, pi.src(fs.Post))
		}
		post, err = c2.block([]ast.Stmt{fs.Post}, "  ", func() (string, error) { return "  " + c2.env[obj], nil })
		if err != nil {
			return "", err
		}
	default:
		return "", fmt.Errorf("%s loop #%d: post %q outside the subset", fn, nth, pi.src(fs.Post))
	}
	emit("Step", fmt.Sprintf("loop post statement `%s`", pi.src(fs.Post)), c2, true, strings.TrimSpace(post), tIv)
	return b.String(), nil
}
