package main

import "fmt"

func translateAsm(path string) (string, error) { return "", fmt.Errorf("not yet") }
