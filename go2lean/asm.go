package main

// Plan 9 amd64 assembly reader for z/simd/search_amd64.s.
//
// It understands exactly what occurs in that file and refuses everything else:
//
//	TEXT ·search(SB), NOSPLIT, $0-34        (name and frame are checked against the Go stub)
//	label:
//	MOVQ MOVL XORL CMPQ ADDQ ADDL SHRL      (operand forms per mnemonic, see asmForms)
//	JAE JB JMP <label>, RET
//	operands: AX BX CX DX BP | $imm | name+off(FP) | disp(REG)(REG*scale)
//
// Output: `def searchProg : Array RV.X86.Instr` with labels resolved to instruction
// indices, plus the label table.  The meaning of the instructions is RV/Model/X86.lean.

import (
	"fmt"
	"go/types"
	"os"
	"path/filepath"
	"regexp"
	"strconv"
	"strings"
)

func init() {
	extras["SimdAsm"] = genSimdAsm
	extraImports["SimdAsm"] = []string{"RV.Model.X86"}
}

const (
	asmFile = "search_amd64.s"
	asmFunc = "search"
)

type asmOpd struct {
	kind string // "reg", "imm", "mem", "arg", "ret"
	lean string
}

var asmRegs = map[string]string{"AX": ".ax", "BX": ".bx", "CX": ".cx", "DX": ".dx", "BP": ".bp"}

var (
	reFP  = regexp.MustCompile(`^([A-Za-z_][A-Za-z0-9_]*)\+([0-9]+)\(FP\)$`)
	reMem = regexp.MustCompile(`^([0-9]*)\(([A-Z]+)\)\(([A-Z]+)\*([0-9]+)\)$`)
	reLbl = regexp.MustCompile(`^([A-Za-z_][A-Za-z0-9_]*):$`)
	reTxt = regexp.MustCompile(`^TEXT\s+·([A-Za-z_][A-Za-z0-9_]*)\(SB\),\s*NOSPLIT,\s*\$([0-9]+)-([0-9]+)$`)
)

// permitted (source kind, destination kind) pairs per mnemonic: the forms that occur.
var asmForms = map[string][][2]string{
	"MOVQ": {{"arg", "reg"}, {"reg", "reg"}},
	"MOVL": {{"reg", "reg"}, {"reg", "ret"}},
	"XORL": {{"reg", "reg"}},
	"CMPQ": {{"mem", "reg"}, {"reg", "reg"}},
	"ADDQ": {{"imm", "reg"}},
	"ADDL": {{"imm", "reg"}, {"reg", "reg"}},
	"SHRL": {{"imm", "reg"}},
}

var asmCtor = map[string]string{
	"MOVQ": ".movq", "MOVL": ".movl", "XORL": ".xorl", "CMPQ": ".cmpq",
	"ADDQ": ".addq", "ADDL": ".addl", "SHRL": ".shrl",
	"JAE": ".jae", "JB": ".jb", "JMP": ".jmp",
}

// argLayout computes the amd64 stack-ABI0 argument frame of the Go declaration of fn:
// name+off(FP) -> Lean Arg constructor, and the total argument size.
func argLayout(pi *pkgInfo, fn string) (map[string]string, int, error) {
	fd := pi.findFunc(fn)
	if fd == nil {
		return nil, 0, fmt.Errorf("Go declaration of %s not found", fn)
	}
	if fd.Body != nil {
		return nil, 0, fmt.Errorf("Go declaration of %s has a body (not an assembly stub)", fn)
	}
	lay := map[string]string{}
	off := 0
	for _, f := range fd.Type.Params.List {
		for _, n := range f.Names {
			obj := pi.info.Defs[n]
			if obj == nil {
				return nil, 0, fmt.Errorf("untyped parameter %s", n.Name)
			}
			switch u := obj.Type().Underlying().(type) {
			case *types.Slice:
				if b, ok := u.Elem().Underlying().(*types.Basic); !ok || b.Kind() != types.Uint64 {
					return nil, 0, fmt.Errorf("parameter %s: only []uint64 is supported", n.Name)
				}
				if n.Name != "xs" {
					return nil, 0, fmt.Errorf("slice parameter is called %s, expected xs", n.Name)
				}
				lay[fmt.Sprintf("%s_base+%d", n.Name, off)] = ".xsBase"
				lay[fmt.Sprintf("%s_len+%d", n.Name, off+8)] = ".xsLen"
				lay[fmt.Sprintf("%s_cap+%d", n.Name, off+16)] = ".xsCap"
				off += 24
			case *types.Basic:
				if u.Kind() != types.Uint64 || n.Name != "k" {
					return nil, 0, fmt.Errorf("parameter %s %s outside the subset", n.Name, obj.Type())
				}
				lay[fmt.Sprintf("%s+%d", n.Name, off)] = ".k"
				off += 8
			default:
				return nil, 0, fmt.Errorf("parameter %s %s outside the subset", n.Name, obj.Type())
			}
		}
	}
	if fd.Type.Results == nil || len(fd.Type.Results.List) != 1 || len(fd.Type.Results.List[0].Names) != 0 {
		return nil, 0, fmt.Errorf("expected exactly one unnamed result")
	}
	tv := pi.info.Types[fd.Type.Results.List[0].Type]
	if b, ok := tv.Type.Underlying().(*types.Basic); !ok || b.Kind() != types.Int16 {
		return nil, 0, fmt.Errorf("result type %s outside the subset (int16 expected)", tv.Type)
	}
	// results start at the next pointer-aligned offset
	off = (off + 7) &^ 7
	lay[fmt.Sprintf("ret+%d", off)] = ".ret"
	return lay, off + 2, nil
}

func parseAsmOpd(s string, lay map[string]string) (asmOpd, error) {
	s = strings.TrimSpace(s)
	if r, ok := asmRegs[s]; ok {
		return asmOpd{"reg", "(.reg " + r + ")"}, nil
	}
	if strings.HasPrefix(s, "$") {
		v, err := strconv.ParseUint(s[1:], 0, 64)
		if err != nil || v >= 1<<31 {
			return asmOpd{}, fmt.Errorf("immediate %q outside the subset", s)
		}
		return asmOpd{"imm", fmt.Sprintf("(.imm %d)", v)}, nil
	}
	if m := reFP.FindStringSubmatch(s); m != nil {
		a, ok := lay[m[1]+"+"+m[2]]
		if !ok {
			return asmOpd{}, fmt.Errorf("frame reference %q does not match the Go declaration", s)
		}
		if a == ".ret" {
			return asmOpd{"ret", "(.arg .ret)"}, nil
		}
		return asmOpd{"arg", "(.arg " + a + ")"}, nil
	}
	if m := reMem.FindStringSubmatch(s); m != nil {
		disp := uint64(0)
		if m[1] != "" {
			var err error
			disp, err = strconv.ParseUint(m[1], 10, 31)
			if err != nil {
				return asmOpd{}, fmt.Errorf("displacement in %q outside the subset", s)
			}
		}
		b, ok1 := asmRegs[m[2]]
		i, ok2 := asmRegs[m[3]]
		sc := m[4]
		if !ok1 || !ok2 || (sc != "1" && sc != "2" && sc != "4" && sc != "8") {
			return asmOpd{}, fmt.Errorf("memory operand %q outside the subset", s)
		}
		return asmOpd{"mem", fmt.Sprintf("(.mem %d %s %s %s)", disp, b, i, sc)}, nil
	}
	return asmOpd{}, fmt.Errorf("operand %q outside the subset", s)
}

func genSimdAsm(load func(string) *pkgInfo) (string, error) {
	pi := load("z/simd")
	lay, argBytes, err := argLayout(pi, asmFunc)
	if err != nil {
		return "", err
	}
	path := filepath.Join(repo, "z/simd", asmFile)
	raw, err := os.ReadFile(path)
	if err != nil {
		return "", err
	}
	type ins struct {
		mn, src string
		ops     []asmOpd
		target  string
	}
	var prog []ins
	labels := map[string]int{}
	var labelOrder []string
	sawText := false
	for ln, line := range strings.Split(string(raw), "\n") {
		if i := strings.Index(line, "//"); i >= 0 {
			line = line[:i]
		}
		line = strings.TrimSpace(line)
		if line == "" {
			continue
		}
		where := fmt.Sprintf("%s:%d", asmFile, ln+1)
		if strings.HasPrefix(line, "#include") {
			if line != `#include "textflag.h"` {
				return "", fmt.Errorf("%s: directive %q outside the subset", where, line)
			}
			continue
		}
		if strings.HasPrefix(line, "TEXT") {
			m := reTxt.FindStringSubmatch(line)
			if m == nil || sawText {
				return "", fmt.Errorf("%s: TEXT line %q outside the subset", where, line)
			}
			if m[1] != asmFunc {
				return "", fmt.Errorf("%s: routine is called %s, expected %s", where, m[1], asmFunc)
			}
			if m[2] != "0" || m[3] != strconv.Itoa(argBytes) {
				return "", fmt.Errorf("%s: frame $%s-%s, expected $0-%d", where, m[2], m[3], argBytes)
			}
			sawText = true
			continue
		}
		if !sawText {
			return "", fmt.Errorf("%s: %q before TEXT", where, line)
		}
		if m := reLbl.FindStringSubmatch(line); m != nil {
			if _, dup := labels[m[1]]; dup {
				return "", fmt.Errorf("%s: duplicate label %s", where, m[1])
			}
			labels[m[1]] = len(prog)
			labelOrder = append(labelOrder, m[1])
			continue
		}
		fields := strings.Fields(line)
		mn := fields[0]
		rest := strings.TrimSpace(line[len(mn):])
		switch mn {
		case "RET":
			if rest != "" {
				return "", fmt.Errorf("%s: RET with operands", where)
			}
			prog = append(prog, ins{mn: mn, src: line})
		case "JAE", "JB", "JMP":
			if !regexp.MustCompile(`^[A-Za-z_][A-Za-z0-9_]*$`).MatchString(rest) {
				return "", fmt.Errorf("%s: jump target %q outside the subset", where, rest)
			}
			prog = append(prog, ins{mn: mn, src: line, target: rest})
		default:
			forms, ok := asmForms[mn]
			if !ok {
				return "", fmt.Errorf("%s: mnemonic %s outside the subset", where, mn)
			}
			parts := strings.Split(rest, ",")
			if len(parts) != 2 {
				return "", fmt.Errorf("%s: %q: two operands expected", where, line)
			}
			a, err := parseAsmOpd(parts[0], lay)
			if err != nil {
				return "", fmt.Errorf("%s: %v", where, err)
			}
			b, err := parseAsmOpd(parts[1], lay)
			if err != nil {
				return "", fmt.Errorf("%s: %v", where, err)
			}
			okForm := false
			for _, f := range forms {
				if f[0] == a.kind && f[1] == b.kind {
					okForm = true
				}
			}
			if !okForm {
				return "", fmt.Errorf("%s: operand form %s %s,%s outside the subset", where, mn, a.kind, b.kind)
			}
			prog = append(prog, ins{mn: mn, src: line, ops: []asmOpd{a, b}})
		}
	}
	if !sawText || len(prog) == 0 {
		return "", fmt.Errorf("%s: no routine found", asmFile)
	}
	if prog[len(prog)-1].mn != "RET" {
		return "", fmt.Errorf("%s: routine does not end in RET", asmFile)
	}
	var b strings.Builder
	fmt.Fprintf(&b, "/-- z/simd/%s, routine `%s` ($0-%d), labels resolved to instruction indices -/\n", asmFile, asmFunc, argBytes)
	b.WriteString("def searchProg : Array RV.X86.Instr := #[\n")
	var leanIns []string
	for i, in := range prog {
		var txt string
		switch {
		case in.mn == "RET":
			txt = ".ret"
		case in.target != "":
			t, ok := labels[in.target]
			if !ok {
				return "", fmt.Errorf("%s: undefined label %s", asmFile, in.target)
			}
			txt = fmt.Sprintf("%s %d", asmCtor[in.mn], t)
		default:
			txt = fmt.Sprintf("%s %s %s", asmCtor[in.mn], in.ops[0].lean, in.ops[1].lean)
		}
		leanIns = append(leanIns, txt)
		sep := ","
		if i == len(prog)-1 {
			sep = ""
		}
		fmt.Fprintf(&b, "  /- %2d -/ %s%s  -- %s\n", i, txt, sep, strings.Join(strings.Fields(in.src), " "))
	}
	b.WriteString("]\n\n")
	// one fetch lemma per instruction (proved by evaluation), for symbolic execution in proofs
	for i := range prog {
		fmt.Fprintf(&b, "theorem at_%d : searchProg[%d]? = some (%s) := rfl\n", i, i, leanIns[i])
	}
	fmt.Fprintf(&b, "theorem searchProg_size : searchProg.size = %d := rfl\n\n", len(prog))
	b.WriteString("/-- label table of the routine -/\ndef searchLabels : List (String × Nat) := [")
	for i, l := range labelOrder {
		if i > 0 {
			b.WriteString(", ")
		}
		fmt.Fprintf(&b, "(%q, %d)", l, labels[l])
	}
	b.WriteString("]\n")
	return b.String(), nil
}
