package main

// Matching of source text modulo consistent renaming of local variables.
//
// KExpr / KPin / KLockShape specs name expressions and statements by their gofmt text, which
// mentions receivers, parameters and local variables by name.  A rename of such a variable is a
// harmless rewrite; so when the literal text is not found the translator looks for a piece of
// code that equals the pattern token for token, except that an identifier which (in the source)
// resolves to a receiver, parameter or local variable may carry a different name than in the
// pattern — consistently: the correspondence pattern-name <-> source variable must be one to one
// within the match.  Fields, methods, functions, constants, types and package-level names must
// match exactly.

import (
	"go/ast"
	"go/scanner"
	"go/token"
	"go/types"
	"strings"
)

type atok struct {
	tok token.Token
	lit string
}

// scanTokens tokenises Go source text; automatic semicolons (inserted at line ends) are dropped so
// that whitespace-collapsed patterns compare equal to printed source.
func scanTokens(src string) []atok {
	fset := token.NewFileSet()
	f := fset.AddFile("", fset.Base(), len(src))
	var s scanner.Scanner
	s.Init(f, []byte(src), func(token.Position, string) {}, 0)
	var out []atok
	for {
		_, tk, lit := s.Scan()
		if tk == token.EOF {
			break
		}
		if tk == token.SEMICOLON && lit == "\n" {
			continue
		}
		if tk.IsOperator() || tk.IsKeyword() {
			lit = tk.String()
		}
		out = append(out, atok{tk, lit})
	}
	return out
}

// isLocalVar reports whether id resolves to a receiver, parameter or local variable.
func (pi *pkgInfo) localVar(id *ast.Ident) types.Object {
	var obj types.Object
	if o, ok := pi.info.Uses[id]; ok {
		obj = o
	} else if o, ok := pi.info.Defs[id]; ok {
		obj = o
	}
	v, ok := obj.(*types.Var)
	if !ok || v == nil || v.IsField() || v.Parent() == nil || v.Parent() == types.Universe {
		return nil
	}
	if pi.pkg != nil && v.Parent() == pi.pkg.Scope() {
		return nil
	}
	return v
}

// nodeTokens returns the tokens of the printed node together with, for every IDENT token, the
// local variable it denotes (nil when it is not a local variable).
func (pi *pkgInfo) nodeTokens(n ast.Node) ([]atok, []types.Object, bool) {
	toks := scanTokens(pi.src(n))
	var ids []*ast.Ident
	ast.Inspect(n, func(x ast.Node) bool {
		if id, ok := x.(*ast.Ident); ok {
			ids = append(ids, id)
		}
		return true
	})
	objs := make([]types.Object, len(toks))
	k := 0
	for i, t := range toks {
		if t.tok != token.IDENT {
			continue
		}
		if k >= len(ids) || ids[k].Name != t.lit {
			return nil, nil, false // printer and AST disagree on identifier order: give up
		}
		objs[i] = pi.localVar(ids[k])
		k++
	}
	if k != len(ids) {
		return nil, nil, false
	}
	return toks, objs, true
}

// alphaTokensMatch compares candidate tokens (with their local-variable resolution) to the
// pattern's tokens under one shared, one-to-one renaming (fwd: pattern name -> variable,
// bwd: variable -> pattern name).
func alphaTokensMatch(cand []atok, objs []types.Object, pat []atok, fwd map[string]types.Object, bwd map[types.Object]string) bool {
	if len(cand) != len(pat) {
		return false
	}
	for i := range cand {
		if cand[i].tok != pat[i].tok {
			return false
		}
		if cand[i].tok == token.IDENT && objs[i] != nil {
			if o, ok := fwd[pat[i].lit]; ok {
				if o != objs[i] {
					return false
				}
				continue
			}
			if _, ok := bwd[objs[i]]; ok {
				return false
			}
			fwd[pat[i].lit] = objs[i]
			bwd[objs[i]] = pat[i].lit
			continue
		}
		if cand[i].lit != pat[i].lit {
			return false
		}
	}
	return true
}

// alphaMatch: does node n equal the pattern text modulo renaming of local variables?
func (pi *pkgInfo) alphaMatch(n ast.Node, pattern string) bool {
	cand, objs, ok := pi.nodeTokens(n)
	if !ok {
		return false
	}
	return alphaTokensMatch(cand, objs, scanTokens(pattern), map[string]types.Object{}, map[types.Object]string{})
}

// alphaMatchStmts: do the statements, joined by ";", equal the pattern modulo renaming?
func (pi *pkgInfo) alphaMatchStmts(stmts []ast.Stmt, pattern string) bool {
	var cand []atok
	var objs []types.Object
	for i, st := range stmts {
		t, o, ok := pi.nodeTokens(st)
		if !ok {
			return false
		}
		if i > 0 {
			cand = append(cand, atok{token.SEMICOLON, ";"})
			objs = append(objs, nil)
		}
		cand = append(cand, t...)
		objs = append(objs, o...)
	}
	pat := scanTokens(pattern)
	// a trailing explicit ";" in either is irrelevant
	for len(pat) > 0 && pat[len(pat)-1].tok == token.SEMICOLON {
		pat = pat[:len(pat)-1]
	}
	return alphaTokensMatch(cand, objs, pat, map[string]types.Object{}, map[types.Object]string{})
}

// isHookStmt: a verif yield/observation hook statement (ignored by the pins).
func (pi *pkgInfo) isHookStmt(st ast.Stmt) bool {
	txt := strings.Join(strings.Fields(pi.src(st)), " ")
	return strings.HasPrefix(txt, "verifPoint(") || strings.HasPrefix(txt, "verifObserve(")
}

// ---------------------------------------------------------------------------------------------
// AST matching (KExpr fallback): like the token matcher, but insensitive to redundant parentheses,
// accepting a named constant where the pattern has its value, and looking through a call to a
// *pure helper* of the package (a function whose body is a single `return e`): the call matches
// if e, with the parameters replaced by the arguments, matches the pattern.  Extracting a
// repeated test into such a helper is a harmless rewrite.

type amatch struct {
	pi  *pkgInfo
	fwd map[string]types.Object
	bwd map[types.Object]string
	env map[types.Object]ast.Expr // helper parameter -> argument expression (caller's context)
	// repl: sub-expressions of the candidate that matched the pattern only through an arithmetic
	// identity (identity.go) -> the pattern's spelling over the candidate's operands; the
	// translator translates these instead, so the generated Lean text does not change
	repl map[ast.Expr]ast.Expr
}

func unparen(e ast.Expr) ast.Expr {
	for {
		p, ok := e.(*ast.ParenExpr)
		if !ok {
			return e
		}
		e = p.X
	}
}

// pureHelper: the callee of `call` is declared in this package with a body `return e`.
func (pi *pkgInfo) pureHelper(call *ast.CallExpr) (*ast.FuncDecl, ast.Expr) {
	w := &flowWalker{pi: pi}
	_, fd := w.declOf(call)
	if fd == nil || fd.Body == nil || len(fd.Body.List) != 1 {
		return nil, nil
	}
	ret, ok := fd.Body.List[0].(*ast.ReturnStmt)
	if !ok || len(ret.Results) != 1 {
		return nil, nil
	}
	return fd, ret.Results[0]
}

// helperEnv maps the helper's parameters (and receiver) to the call's arguments.
func (pi *pkgInfo) helperEnv(fd *ast.FuncDecl, call *ast.CallExpr) (map[types.Object]ast.Expr, bool) {
	env := map[types.Object]ast.Expr{}
	var params []*ast.Ident
	for _, f := range fd.Type.Params.List {
		params = append(params, f.Names...)
	}
	if len(params) != len(call.Args) {
		return nil, false
	}
	for i, p := range params {
		if o := pi.info.Defs[p]; o != nil {
			env[o] = call.Args[i]
		}
	}
	if fd.Recv != nil && len(fd.Recv.List) == 1 && len(fd.Recv.List[0].Names) == 1 {
		if sel, ok := call.Fun.(*ast.SelectorExpr); ok {
			if o := pi.info.Defs[fd.Recv.List[0].Names[0]]; o != nil {
				env[o] = sel.X
			}
		}
	}
	return env, true
}

func (m *amatch) eq(pat, cand ast.Expr) bool {
	pat, cand = unparen(pat), unparen(cand)
	// a helper parameter stands for its argument
	if id, ok := cand.(*ast.Ident); ok && m.env != nil {
		obj := m.pi.info.Uses[id]
		if a, ok := m.env[obj]; ok && obj != nil {
			saved := m.env
			m.env = nil // the argument lives in the caller
			r := m.eq(pat, a)
			m.env = saved
			return r
		}
	}
	// literal in the pattern, constant expression in the code
	if bl, ok := pat.(*ast.BasicLit); ok {
		if tv, ok := m.pi.info.Types[cand]; ok && tv.Value != nil {
			return tv.Value.ExactString() == strings.TrimSpace(bl.Value) || tv.Value.String() == bl.Value
		}
		cb, ok := cand.(*ast.BasicLit)
		return ok && cb.Value == bl.Value
	}
	// look through a pure helper
	if call, ok := cand.(*ast.CallExpr); ok {
		if _, isCall := pat.(*ast.CallExpr); !isCall {
			if fd, body := m.pi.pureHelper(call); fd != nil {
				if env, ok := m.pi.helperEnv(fd, call); ok {
					saved := m.env
					m.env = env
					r := m.eq(pat, body)
					m.env = saved
					return r
				}
			}
			return false
		}
	}
	switch p := pat.(type) {
	case *ast.Ident:
		c, ok := cand.(*ast.Ident)
		if !ok {
			return false
		}
		if obj := m.pi.localVar(c); obj != nil {
			if o, ok := m.fwd[p.Name]; ok {
				return o == obj
			}
			if _, ok := m.bwd[obj]; ok {
				return false
			}
			m.fwd[p.Name] = obj
			m.bwd[obj] = p.Name
			return true
		}
		return c.Name == p.Name
	case *ast.BinaryExpr:
		c, ok := cand.(*ast.BinaryExpr)
		if ok && c.Op == p.Op && m.eq(p.X, c.X) && m.eq(p.Y, c.Y) {
			return true
		}
		return ok && m.identity(p, c)
	case *ast.UnaryExpr:
		c, ok := cand.(*ast.UnaryExpr)
		return ok && c.Op == p.Op && m.eq(p.X, c.X)
	case *ast.SelectorExpr:
		c, ok := cand.(*ast.SelectorExpr)
		return ok && c.Sel.Name == p.Sel.Name && m.eq(p.X, c.X)
	case *ast.StarExpr:
		c, ok := cand.(*ast.StarExpr)
		return ok && m.eq(p.X, c.X)
	case *ast.IndexExpr:
		c, ok := cand.(*ast.IndexExpr)
		return ok && m.eq(p.X, c.X) && m.eq(p.Index, c.Index)
	case *ast.CallExpr:
		c, ok := cand.(*ast.CallExpr)
		if !ok || len(c.Args) != len(p.Args) || !m.eq(p.Fun, c.Fun) {
			return false
		}
		for i := range p.Args {
			if !m.eq(p.Args[i], c.Args[i]) {
				return false
			}
		}
		return true
	}
	return false
}

// astMatch: does cand match the pattern (Go expression text)?  Second result: the pure helper
// looked through at the top level, if any (the translator then translates its body).
func (pi *pkgInfo) astMatch(cand ast.Expr, pattern ast.Expr) bool {
	ok, _ := pi.astMatchR(cand, pattern)
	return ok
}

// astMatchEnv: like astMatchR, for a candidate inside a helper whose parameters stand for the
// arguments of the call (env).
func (pi *pkgInfo) astMatchEnv(cand ast.Expr, pattern ast.Expr, env map[types.Object]ast.Expr) (bool, map[ast.Expr]ast.Expr) {
	m := &amatch{pi: pi, fwd: map[string]types.Object{}, bwd: map[types.Object]string{}, repl: map[ast.Expr]ast.Expr{}, env: env}
	if m.eq(pattern, cand) {
		return true, m.repl
	}
	return false, nil
}

// astMatchR also returns the identity replacements (see amatch.repl) of a successful match.
func (pi *pkgInfo) astMatchR(cand ast.Expr, pattern ast.Expr) (bool, map[ast.Expr]ast.Expr) {
	m := &amatch{pi: pi, fwd: map[string]types.Object{}, bwd: map[types.Object]string{}, repl: map[ast.Expr]ast.Expr{}}
	if m.eq(pattern, cand) {
		return true, m.repl
	}
	return false, nil
}
