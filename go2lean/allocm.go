package main

// AllocM — z/allocator.go translated WHOLE (RV/Gen/AllocM.lean; hand-written meaning of the
// constructs: RV/GenAlloc.lean; equality with the model: RV/Props/TieAlloc.lean).
//
//   - the Go struct `Allocator` becomes a Lean structure (embedded sync.Mutex -> `locked : Bool`,
//     string fields dropped, ghost field `log : List AM.Eff`);
//   - every listed function / method becomes a Lean function in the monad `AM.Res σ` (σ = Allocator
//     for methods, Unit for package functions): methods are in state-passing style and return
//     `(a', results)`; panics, asserts, index and slice-bounds checks, `make` with a negative length
//     are `.panic`; `for cond {}` / `for {}` loops take `fuel` (`.spin` when it runs out);
//     `for i, b := range a.buffers` is `AM.forRange`; loop bodies are definitions of their own
//     (`<fn>_loop<k>`);
//   - `sync/atomic` operations on a field are plain reads / writes of the field (one section is one
//     atomic step, see below); `a.Lock()` / `a.Unlock()` set `locked` (`.blocked` when held);
//   - `verifObserve`, `ZeroOut`, `copy`, `Free` are appended to `log`; package variables without a
//     constant initialiser (`calculatedLog2`, `allocRef`) are parameters; string parameters and
//     arguments are dropped; statements listed in allocmSkip (the registry of all allocators) are
//     skipped and must be present exactly once;
//   - CUTTING: a function that contains yield points `verifPoint(id)` (or calls such a function) is
//     not one Lean function but one per SECTION: the code from the function's entry, from the head
//     of a `for {` loop that contains yield points, from each `verifPoint`, and from the return of
//     each call of a cut function, up to the next such point.  A section takes the allocator and
//     the locals that are live there and returns the allocator and a value of the generated type
//     `<fn>_Out` that says where it stopped (`ret v`, `top …`, `<id> …`, `call_<callee> args… …`)
//     with the live locals of that point.  Liveness is computed (fixpoint over the generated text),
//     nothing is anchored by hand: a statement moved across a yield point lands in another
//     section and the equality theorems about the sections fail.
//
// Anything outside the subset: `-- UNTRANSLATABLE <name>: reason` (exit code 1).

import (
	"fmt"
	"go/ast"
	"go/token"
	"go/types"
	"sort"
	"strings"
)

func init() {
	extras["AllocM"] = genAllocM
	extraImports["AllocM"] = []string{"RV.GenAlloc"}
}

// ---------------------------------------------------------------- types

type amT struct {
	k string // "scalar", "bytes", "slots", "struct", "arr", "string", "unit"
	l lty
}

func (t amT) lean() string {
	switch t.k {
	case "scalar", "arr":
		return t.l.lean()
	case "bytes":
		return "AM.Bytes"
	case "slots":
		return "Array AM.Bytes"
	case "struct":
		return allocmStruct
	case "unit":
		return "Unit"
	}
	return "?"
}

type amVal struct {
	text string
	t    amT
}

type amField struct {
	goName string
	t      amT
	zero   string
	note   string
}

type amParam struct {
	name string
	ty   string
}

// amDef is one emitted definition (a whole function or one section): what it turned out to need.
type amDef struct {
	usesFuel bool
	usesNil  bool
	needs    map[string]string // package variables: name -> Lean type
	extra    []amParam         // e.g. out_base
}

func newAmDef() *amDef { return &amDef{needs: map[string]string{}} }

func (d *amDef) addExtra(name, ty string) {
	for _, p := range d.extra {
		if p.name == name {
			return
		}
	}
	d.extra = append(d.extra, amParam{name, ty})
}

func (d *amDef) merge(o *amDef) {
	d.usesFuel = d.usesFuel || o.usesFuel
	for k, v := range o.needs {
		d.needs[k] = v
	}
}

func (d *amDef) needNames() []string {
	ns := []string{}
	for k := range d.needs {
		ns = append(ns, k)
	}
	sort.Strings(ns)
	return ns
}

// leading parameters shared by all emitted definitions: fuel, a_nil, package variables
func (d *amDef) leadDecl(nilName string) string {
	s := ""
	if d.usesFuel {
		s += " (fuel : Nat)"
	}
	if d.usesNil {
		s += fmt.Sprintf(" (%s : Bool)", nilName)
	}
	for _, n := range d.needNames() {
		s += fmt.Sprintf(" (%s : %s)", n, d.needs[n])
	}
	return s
}

func (d *amDef) leadArgs(nilName string) string {
	s := ""
	if d.usesFuel {
		s += " fuel"
	}
	if d.usesNil {
		s += " " + nilName
	}
	for _, n := range d.needNames() {
		s += " " + n
	}
	return s
}

type amCut struct {
	name    string // constructor of <fn>_Out and suffix of the section
	node    ast.Node
	isCall  bool
	callee  *amFunc
	argTys  []amT // call cut: the (non-string) arguments of the call
	resObj  types.Object
	resT    amT
	scope   []types.Object
	params  []types.Object // live locals (fixpoint)
	gen     func() (string, error)
	def     *amDef
	body    string
	doc     string
	seen    bool
	retWrap func([]string) string
	retRaw  func(string) string
	contK   func(ind string) (string, error)
	brkK    func(ind string) (string, error)
}

type amFunc struct {
	key, lean string
	fd        *ast.FuncDecl
	recv      types.Object
	params    []types.Object // non-string parameters
	resT      []amT
	def       *amDef // non-cut functions: the function; cut functions: union over the sections
	cut       bool
	cuts      []*amCut
	cutByNode map[ast.Node]*amCut
	hasCallCut bool
	done      bool
}

type amGen struct {
	pi     *pkgInfo
	fields []amField
	funcs  map[string]*amFunc
	order  []*amFunc
}

func (g *amGen) amType(t types.Type) (amT, error) {
	if p, ok := t.(*types.Pointer); ok {
		if n, ok := p.Elem().(*types.Named); ok && n.Obj().Name() == allocmStruct {
			return amT{k: "struct"}, nil
		}
	}
	if b, ok := t.Underlying().(*types.Basic); ok && b.Info()&types.IsString != 0 {
		return amT{k: "string"}, nil
	}
	if s, ok := t.Underlying().(*types.Slice); ok {
		if b, ok := s.Elem().Underlying().(*types.Basic); ok && b.Kind() == types.Uint8 {
			return amT{k: "bytes"}, nil
		}
		if s2, ok := s.Elem().Underlying().(*types.Slice); ok {
			if b, ok := s2.Elem().Underlying().(*types.Basic); ok && b.Kind() == types.Uint8 {
				return amT{k: "slots"}, nil
			}
		}
	}
	l, err := leanType(t)
	if err != nil {
		return amT{}, err
	}
	if l.kind == "arr" {
		return amT{k: "arr", l: l}, nil
	}
	if l.kind != "bv" && l.kind != "bool" {
		return amT{}, fmt.Errorf("type %s outside the subset", t)
	}
	return amT{k: "scalar", l: l}, nil
}

func (g *amGen) field(name string) *amField {
	for i := range g.fields {
		if g.fields[i].goName == name {
			return &g.fields[i]
		}
	}
	return nil
}

func (g *amGen) buildStruct() (string, error) {
	obj := g.pi.pkg.Scope().Lookup(allocmStruct)
	if obj == nil {
		return "", fmt.Errorf("type %s not found", allocmStruct)
	}
	st, ok := obj.Type().Underlying().(*types.Struct)
	if !ok {
		return "", fmt.Errorf("%s is not a struct", allocmStruct)
	}
	var b strings.Builder
	notes := []string{}
	lines := []string{}
	for i := 0; i < st.NumFields(); i++ {
		f := st.Field(i)
		if n, ok := f.Type().(*types.Named); ok && n.Obj().Pkg() != nil && n.Obj().Pkg().Path() == "sync" && n.Obj().Name() == "Mutex" {
			if !f.Embedded() {
				return "", fmt.Errorf("mutex field %s is not embedded", f.Name())
			}
			g.fields = append(g.fields, amField{goName: "Mutex", t: amT{k: "scalar", l: lty{kind: "bool"}}, zero: "false"})
			lines = append(lines, "  locked : Bool := false")
			notes = append(notes, "embedded sync.Mutex -> `locked`")
			continue
		}
		t, err := g.amType(f.Type())
		if err != nil {
			return "", fmt.Errorf("field %s: %v", f.Name(), err)
		}
		switch t.k {
		case "string":
			g.fields = append(g.fields, amField{goName: f.Name(), t: t})
			notes = append(notes, fmt.Sprintf("`%s string` dropped", f.Name()))
			continue
		case "scalar":
			z := "false"
			if t.l.kind == "bv" {
				z = fmt.Sprintf("0#%d", t.l.w)
			}
			g.fields = append(g.fields, amField{goName: f.Name(), t: t, zero: z})
			lines = append(lines, fmt.Sprintf("  %s : %s := %s", sanitize(f.Name()), t.lean(), z))
		case "slots":
			g.fields = append(g.fields, amField{goName: f.Name(), t: t, zero: "#[]"})
			lines = append(lines, fmt.Sprintf("  %s : %s := #[]", sanitize(f.Name()), t.lean()))
		default:
			return "", fmt.Errorf("field %s of type %s outside the subset", f.Name(), f.Type())
		}
	}
	fmt.Fprintf(&b, "/-- z.%s (%s; `log`: ghost, see RV/GenAlloc.lean) -/\nstructure %s where\n%s\n  log : List AM.Eff := []\nderiving DecidableEq, Repr\n\n",
		allocmStruct, strings.Join(notes, "; "), allocmStruct, strings.Join(lines, "\n"))
	return b.String(), nil
}

// ---------------------------------------------------------------- the generator

func genAllocM(load func(string) *pkgInfo) (string, error) {
	pi := load(allocmPkg)
	g := &amGen{pi: pi, funcs: map[string]*amFunc{}}
	var out strings.Builder
	out.WriteString("-- z/allocator.go translated whole; see go2lean/allocm.go and RV/GenAlloc.lean.\nset_option linter.unusedVariables false\n\n")
	st, err := g.buildStruct()
	if err != nil {
		return "", err
	}
	out.WriteString(st)
	for _, key := range allocmFuncs {
		lean := strings.ReplaceAll(key, allocmStruct+".", "")
		f := &amFunc{key: key, lean: lean, def: newAmDef(), cutByNode: map[ast.Node]*amCut{}}
		g.funcs[key] = f
		g.order = append(g.order, f)
		txt, err := g.translate(f)
		if err != nil {
			extraFailed = append(extraFailed, fmt.Sprintf("AllocM.%s: %v", lean, err))
			fmt.Fprintf(&out, "-- UNTRANSLATABLE %s: %v\n\n", lean, strings.ReplaceAll(err.Error(), "\n", " "))
			delete(g.funcs, key)
			continue
		}
		f.done = true
		out.WriteString(txt)
		out.WriteString("\n")
	}
	return out.String(), nil
}

func amMentions(body, name string) bool {
	isId := func(c byte) bool {
		return c == '_' || c == '\'' || c >= '0' && c <= '9' || c >= 'a' && c <= 'z' || c >= 'A' && c <= 'Z'
	}
	for i := 0; i+len(name) <= len(body); i++ {
		if body[i:i+len(name)] != name {
			continue
		}
		if (i == 0 || !isId(body[i-1]) && body[i-1] != '.') && (i+len(name) == len(body) || !isId(body[i+len(name)])) {
			return true
		}
	}
	return false
}

func (g *amGen) translate(f *amFunc) (string, error) {
	fd := g.pi.findFunc(f.key)
	if fd == nil || fd.Body == nil {
		return "", fmt.Errorf("function %s not found", f.key)
	}
	f.fd = fd
	// skipped statements must be there, exactly once
	for _, want := range allocmSkip[f.key] {
		n := 0
		ast.Inspect(fd.Body, func(nd ast.Node) bool {
			if st, ok := nd.(ast.Stmt); ok {
				if _, isBlock := st.(*ast.BlockStmt); !isBlock && strings.Join(strings.Fields(g.pi.src(st)), " ") == want {
					n++
				}
			}
			return true
		})
		if n != 1 {
			return "", fmt.Errorf("skipped statement %q occurs %d times (expected once)", want, n)
		}
	}
	m := g.newCtx(f)
	// parameters
	if fd.Recv != nil {
		if len(fd.Recv.List) != 1 || len(fd.Recv.List[0].Names) != 1 {
			return "", fmt.Errorf("receiver outside the subset")
		}
		obj := g.pi.info.Defs[fd.Recv.List[0].Names[0]]
		t, err := g.amType(obj.Type())
		if err != nil || t.k != "struct" {
			return "", fmt.Errorf("receiver must be *%s", allocmStruct)
		}
		f.recv = obj
		m.recvObj = obj
	}
	for _, fl := range fd.Type.Params.List {
		for _, n := range fl.Names {
			obj := g.pi.info.Defs[n]
			t, err := g.amType(obj.Type())
			if err != nil {
				return "", fmt.Errorf("parameter %s: %v", n.Name, err)
			}
			if t.k == "string" {
				continue
			}
			f.params = append(f.params, obj)
		}
	}
	if fd.Type.Results != nil {
		for _, fl := range fd.Type.Results.List {
			t, err := g.amType(g.pi.info.Types[fl.Type].Type)
			if err != nil {
				return "", err
			}
			k := len(fl.Names)
			if k == 0 {
				k = 1
			}
			for i := 0; i < k; i++ {
				f.resT = append(f.resT, t)
			}
		}
	}
	// cut points, in source order
	g.findCuts(f)
	if f.cut {
		return m.translateCut()
	}
	return m.translateWhole()
}

func (f *amFunc) resTuple() string {
	ts := []string{}
	for _, t := range f.resT {
		ts = append(ts, t.lean())
	}
	if len(ts) == 0 {
		return "Unit"
	}
	if len(ts) == 1 {
		return ts[0]
	}
	return "(" + strings.Join(ts, " × ") + ")"
}

func (f *amFunc) sigma() string {
	if f.recv != nil {
		return allocmStruct
	}
	return "Unit"
}

// rho: the value a `return` produces
func (f *amFunc) rho() string {
	if f.cut {
		return fmt.Sprintf("(%s × %s_Out)", allocmStruct, f.lean)
	}
	if f.recv != nil {
		return fmt.Sprintf("(%s × %s)", allocmStruct, f.resTuple())
	}
	return nfAtom(f.resTuple())
}

func (g *amGen) calleeOf(x *ast.CallExpr) (*amFunc, ast.Expr) {
	switch fn := x.Fun.(type) {
	case *ast.Ident:
		if _, isFn := g.pi.info.Uses[fn].(*types.Func); isFn {
			if cf, ok := g.funcs[fn.Name]; ok {
				return cf, nil
			}
		}
	case *ast.SelectorExpr:
		if sel, ok := g.pi.info.Selections[fn]; ok {
			if mfn, ok := sel.Obj().(*types.Func); ok {
				t := sel.Recv()
				if p, ok := t.(*types.Pointer); ok {
					t = p.Elem()
				}
				if n, ok := t.(*types.Named); ok {
					if cf, ok := g.funcs[n.Obj().Name()+"."+mfn.Name()]; ok {
						return cf, fn.X
					}
				}
			}
		}
	}
	return nil, nil
}

func (g *amGen) findCuts(f *amFunc) {
	type hit struct {
		base string
		node ast.Node
		call bool
		cf   *amFunc
	}
	hits := []hit{}
	var walk func(n ast.Node) bool
	walk = func(n ast.Node) bool {
		switch x := n.(type) {
		case *ast.ForStmt:
			if x.Init == nil && x.Cond == nil && x.Post == nil && g.containsCut(x.Body) {
				hits = append(hits, hit{"top", x, false, nil})
			}
		case *ast.CallExpr:
			if g.pi.src(x.Fun) == "verifPoint" && len(x.Args) == 1 {
				hits = append(hits, hit{sanitize(g.pi.src(x.Args[0])), x, false, nil})
			} else if cf, _ := g.calleeOf(x); cf != nil && cf.cut {
				hits = append(hits, hit{"call_" + cf.lean, x, true, cf})
			}
		}
		return true
	}
	ast.Inspect(f.fd.Body, walk)
	count := map[string]int{}
	for _, h := range hits {
		count[h.base]++
	}
	idx := map[string]int{}
	for _, h := range hits {
		name := h.base
		if count[h.base] > 1 {
			idx[h.base]++
			name = fmt.Sprintf("%s_%d", h.base, idx[h.base])
		}
		c := &amCut{name: name, node: h.node, isCall: h.call, callee: h.cf}
		f.cuts = append(f.cuts, c)
		f.cutByNode[h.node] = c
		if h.call {
			f.hasCallCut = true
		}
	}
	f.cut = len(hits) > 0
}

func (g *amGen) containsCut(n ast.Node) bool {
	found := false
	ast.Inspect(n, func(nd ast.Node) bool {
		if c, ok := nd.(*ast.CallExpr); ok {
			if g.pi.src(c.Fun) == "verifPoint" {
				found = true
			} else if cf, _ := g.calleeOf(c); cf != nil && cf.cut {
				found = true
			}
		}
		return !found
	})
	return found
}

// ---------------------------------------------------------------- whole functions

func (g *amGen) newCtx(f *amFunc) *amCtx {
	c := &ctx{pi: g.pi, env: map[types.Object]string{}, lazy: map[types.Object]ast.Expr{}}
	m := &amCtx{ctx: c, g: g, f: f, subst: map[ast.Expr]substVal{}, nsub: map[ast.Expr]amVal{}}
	c.hook = m.hookFn
	return m
}

func (m *amCtx) nilName() string {
	if m.f.recv != nil {
		return sanitize(m.f.recv.Name()) + "_nil"
	}
	return "recv_nil"
}

func (m *amCtx) paramDecls(objs []types.Object) (string, error) {
	s := ""
	for _, o := range objs {
		t, err := m.g.amType(o.Type())
		if err != nil {
			return "", err
		}
		s += fmt.Sprintf(" (%s : %s)", sanitize(o.Name()), t.lean())
	}
	return s, nil
}

func (m *amCtx) enterScope(objs []types.Object) error {
	m.env = map[types.Object]string{}
	used := map[string]bool{}
	if m.recvObj != nil {
		n := sanitize(m.recvObj.Name())
		m.env[m.recvObj] = n
		used[n] = true
	}
	for _, o := range objs {
		n := sanitize(o.Name())
		if used[n] {
			return fmt.Errorf("two variables named %s are in scope at a section boundary", n)
		}
		used[n] = true
		m.env[o] = n
	}
	return nil
}

func (m *amCtx) translateWhole() (string, error) {
	f := m.f
	m.cur = f.def
	if err := m.enterScope(f.params); err != nil {
		return "", err
	}
	m.setTopWraps()
	body, err := m.blockM(f.fd.Body.List, "  ", func() (string, error) {
		if len(f.resT) > 0 {
			return "", fmt.Errorf("missing return")
		}
		return "  " + m.retWrap(nil), nil
	})
	if err != nil {
		return "", err
	}
	var b strings.Builder
	for _, a := range m.aux {
		b.WriteString(a)
	}
	pd, err := m.paramDecls(f.params)
	if err != nil {
		return "", err
	}
	recv := ""
	if f.recv != nil {
		recv = fmt.Sprintf(" (%s : %s)", sanitize(f.recv.Name()), allocmStruct)
	}
	extra := ""
	for _, p := range f.def.extra {
		extra += fmt.Sprintf(" (%s : %s)", p.name, p.ty)
	}
	fmt.Fprintf(&b, "/-- z.%s (whole function) -/\ndef %s%s%s%s%s : AM.Res %s %s :=\n%s\n",
		f.key, f.lean, f.def.leadDecl(m.nilName()), recv, pd, extra, f.sigma(), f.rho(), body)
	return b.String(), nil
}

func (m *amCtx) setTopWraps() {
	f := m.f
	m.retRaw = func(v string) string { return ".ok " + nfAtom(v) }
	m.retWrap = func(vals []string) string {
		v := tuple(vals)
		switch {
		case f.cut:
			ctor := fmt.Sprintf("%s_Out.ret", f.lean)
			if len(vals) > 0 {
				ctor += " " + nfAtom(v)
			}
			return m.retRaw(fmt.Sprintf("(%s, %s)", m.env[m.recvObj], ctor))
		case f.recv != nil:
			return m.retRaw(fmt.Sprintf("(%s, %s)", m.env[m.recvObj], v))
		}
		return m.retRaw(v)
	}
	m.contK, m.brkK = nil, nil
}

// ---------------------------------------------------------------- cut functions

func (m *amCtx) translateCut() (string, error) {
	f := m.f
	if f.recv == nil {
		return "", fmt.Errorf("a function with yield points must be a method of %s", allocmStruct)
	}
	var entryBody string
	var entryDef *amDef
	var auxAll []string
	for round := 0; ; round++ {
		if round > 20 {
			return "", fmt.Errorf("liveness of the sections does not stabilise")
		}
		for _, c := range f.cuts {
			c.seen, c.gen = false, nil
		}
		m.aux, m.nloops = nil, 0
		// entry section
		m.fresh = 0
		entryDef = newAmDef()
		m.cur = entryDef
		if err := m.enterScope(f.params); err != nil {
			return "", err
		}
		m.setTopWraps()
		var err error
		entryBody, err = m.blockM(f.fd.Body.List, "  ", func() (string, error) {
			if len(f.resT) > 0 {
				return "", fmt.Errorf("missing return")
			}
			return "  " + m.retWrap(nil), nil
		})
		if err != nil {
			return "", err
		}
		// the sections, in source order of their cut points; generating one may discover others
		changed := false
		generated := map[*amCut]bool{}
		for progress := true; progress; {
			progress = false
			for _, c := range f.cuts {
				if !c.seen || c.gen == nil || generated[c] {
					continue
				}
				generated[c] = true
				progress = true
				m.fresh = 0
				c.def = newAmDef()
				m.cur = c.def
				if err := m.enterScope(c.scope); err != nil {
					return "", err
				}
				m.retWrap, m.retRaw, m.contK, m.brkK = c.retWrap, c.retRaw, c.contK, c.brkK
				body, err := c.gen()
				if err != nil {
					return "", err
				}
				c.body = body
				var live []types.Object
				for _, o := range c.scope {
					if amMentions(body, sanitize(o.Name())) {
						live = append(live, o)
					}
				}
				if !sameObjs(live, c.params) {
					changed = true
					c.params = live
				}
			}
		}
		auxAll = m.aux
		if !changed {
			break
		}
	}
	for _, c := range f.cuts {
		if !c.seen {
			return "", fmt.Errorf("yield point %s is not reachable by the section translator", c.name)
		}
	}
	// emit
	var b strings.Builder
	for _, a := range auxAll {
		b.WriteString(a)
	}
	fmt.Fprintf(&b, "/-- where a section of z.%s stopped, with the locals that are live there -/\ninductive %s_Out where\n", f.key, f.lean)
	if len(f.resT) > 0 {
		fmt.Fprintf(&b, "  | ret (r : %s)\n", f.resTuple())
	} else {
		fmt.Fprintf(&b, "  | ret\n")
	}
	for _, c := range f.cuts {
		fmt.Fprintf(&b, "  | %s", c.name)
		if c.isCall {
			for i, t := range c.argTys {
				fmt.Fprintf(&b, " (arg%d : %s)", i+1, t.lean())
			}
		}
		pd, err := m.paramDecls(c.params)
		if err != nil {
			return "", err
		}
		b.WriteString(pd + "\n")
	}
	b.WriteString("deriving DecidableEq, Repr\n\n")
	recv := fmt.Sprintf(" (%s : %s)", sanitize(f.recv.Name()), allocmStruct)
	pd, err := m.paramDecls(f.params)
	if err != nil {
		return "", err
	}
	fmt.Fprintf(&b, "/-- z.%s, section from the entry of the function -/\ndef %s_entry%s%s%s : AM.Res %s %s :=\n%s\n\n",
		f.key, f.lean, entryDef.leadDecl(m.nilName()), recv, pd, f.sigma(), f.rho(), entryBody)
	f.def.merge(entryDef)
	f.def.usesNil = f.def.usesNil || entryDef.usesNil
	for _, c := range f.cuts {
		pd, err := m.paramDecls(c.params)
		if err != nil {
			return "", err
		}
		extra := ""
		if c.isCall && c.resObj != nil {
			extra += fmt.Sprintf(" (%s : %s)", sanitize(c.resObj.Name()), c.resT.lean())
		}
		for _, p := range c.def.extra {
			extra += fmt.Sprintf(" (%s : %s)", p.name, p.ty)
		}
		secName := c.name
		if c.isCall {
			secName = "after_" + strings.TrimPrefix(c.name, "call_")
		}
		fmt.Fprintf(&b, "/-- z.%s, section %s -/\ndef %s_%s%s%s%s%s : AM.Res %s %s :=\n%s\n\n",
			f.key, c.doc, f.lean, secName, c.def.leadDecl(m.nilName()), recv, pd, extra, f.sigma(), f.rho(), c.body)
		f.def.merge(c.def)
		f.def.usesNil = f.def.usesNil || c.def.usesNil
	}
	// dispatcher: only when every cut is a yield point
	if !f.hasCallCut {
		d := newAmDef()
		for _, c := range f.cuts {
			d.merge(c.def)
			d.usesNil = d.usesNil || c.def.usesNil
		}
		fmt.Fprintf(&b, "/-- z.%s: run the section that starts where `o` stopped -/\ndef %s_step%s%s : %s_Out → AM.Res %s %s\n",
			f.key, f.lean, d.leadDecl(m.nilName()), recv, f.lean, f.sigma(), f.rho())
		rn := sanitize(f.recv.Name())
		if len(f.resT) > 0 {
			fmt.Fprintf(&b, "  | .ret r => .ok (%s, .ret r)\n", rn)
		} else {
			fmt.Fprintf(&b, "  | .ret => .ok (%s, .ret)\n", rn)
		}
		for _, c := range f.cuts {
			names := ""
			for _, o := range c.params {
				names += " " + sanitize(o.Name())
			}
			if len(c.def.extra) > 0 {
				return "", fmt.Errorf("section %s needs extra parameters: no dispatcher", c.name)
			}
			fmt.Fprintf(&b, "  | .%s%s => %s_%s%s %s%s\n", c.name, names, f.lean, c.name, c.def.leadArgs(m.nilName()), rn, names)
		}
	}
	return b.String(), nil
}

func sameObjs(a, b []types.Object) bool {
	if len(a) != len(b) {
		return false
	}
	for i := range a {
		if a[i] != b[i] {
			return false
		}
	}
	return true
}

// yield renders "stop here": the allocator and the constructor of the cut with its live locals.
func (m *amCtx) yield(c *amCut, args []string) string {
	parts := []string{fmt.Sprintf("%s_Out.%s", m.f.lean, c.name)}
	for _, a := range args {
		parts = append(parts, nfAtom(a))
	}
	for _, o := range c.params {
		parts = append(parts, m.env[o])
	}
	return fmt.Sprintf(".ok (%s, %s)", m.env[m.recvObj], strings.Join(parts, " "))
}

// registerCut remembers how to generate the section that starts at c (first reach wins: the
// continuation of a syntactic point is the same whichever path reached it).
func (m *amCtx) registerCut(c *amCut, doc string, gen func() (string, error)) {
	if c.seen {
		return
	}
	c.seen = true
	c.doc = doc
	c.scope = nil
	for o := range m.env {
		if o == m.recvObj {
			continue
		}
		if v, ok := o.(*types.Var); ok && v.Parent() == m.pi.pkg.Scope() {
			continue
		}
		c.scope = append(c.scope, o)
	}
	sort.Slice(c.scope, func(i, j int) bool { return c.scope[i].Pos() < c.scope[j].Pos() })
	c.retWrap, c.retRaw, c.contK, c.brkK = m.retWrap, m.retRaw, m.contK, m.brkK
	c.gen = gen
}

var _ = token.ADD
