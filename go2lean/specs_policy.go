package main

func init() { register("policy", policySpecs()) }

// Decision points and arithmetic of the admission/eviction policy (policy.go:
// defaultPolicy.Add/Cap, sampledLFU.roomLeft/fillSample/updateIfHas).
//
// Statements (`p.used -= cost`, `p.used += cost`, `p.used += cost - prev` as a
// whole, `delete`, the swap-remove of the sample) are not expressions; they are
// modelled by hand in RV/Model/Policy.lean (two's-complement `+`/`-` on the
// int64 word) and tied by the policy stream.  The *right-hand side*
// `cost - prev` of the `+=` in updateIfHas is a kernel (second occurrence of
// that text; the first one is `diff := cost - prev`).
func policySpecs() []Spec {
	o := "Policy"
	return []Spec{
		{Kind: KConst, Match: "lfuSample", Lean: "lfuSample", Out: o},
		// defaultPolicy.Add
		{Kind: KExpr, Func: "defaultPolicy.Add", Match: "cost > p.evict.getMaxCost()", Lean: "addTooBig", Out: o},
		{Kind: KExpr, Func: "defaultPolicy.Add", Match: "room >= 0", Lean: "addRoomOk", Out: o},
		{Kind: KExpr, Func: "defaultPolicy.Add", Match: "room < 0", Lean: "addNeedRoom", Out: o},
		{Kind: KExpr, Func: "defaultPolicy.Add", Match: "int64(math.MaxInt64)", Lean: "addMinHitsInit", Out: o},
		{Kind: KExpr, Func: "defaultPolicy.Add", Match: "hits < minHits", Lean: "addHitsLess", Out: o},
		{Kind: KExpr, Func: "defaultPolicy.Add", Match: "incHits < minHits", Lean: "addIncLess", Out: o},
		{Kind: KExpr, Func: "defaultPolicy.Add", Match: "len(sample) - 1", Nth: 1, Lean: "addLastIdx", Out: o},
		{Kind: KExpr, Func: "defaultPolicy.Add", Match: "len(sample) - 1", Nth: 2, Lean: "addNewLen", Out: o},
		// the destination index of the swap-remove `sample[minId] = sample[len(sample)-1]`:
		// third occurrence of the identifier (1: declaration, 2: assignment in the scan)
		{Kind: KExpr, Func: "defaultPolicy.Add", Match: "minId", Nth: 3, Lean: "addSwapDst", Out: o},
		// defaultPolicy.Cap
		{Kind: KExpr, Func: "defaultPolicy.Cap", Match: "p.evict.getMaxCost() - p.evict.used", Lean: "capExpr", Out: o},
		// sampledLFU
		{Kind: KExpr, Func: "sampledLFU.roomLeft", Match: "p.getMaxCost() - (p.used + cost)", Lean: "roomLeft", Out: o},
		{Kind: KExpr, Func: "sampledLFU.fillSample", Match: "len(in) >= lfuSample", Nth: 1, Lean: "fillFullBefore", Out: o},
		{Kind: KExpr, Func: "sampledLFU.fillSample", Match: "len(in) >= lfuSample", Nth: 2, Lean: "fillFullAfter", Out: o},
		{Kind: KExpr, Func: "sampledLFU.updateIfHas", Match: "prev > cost", Lean: "updLower", Out: o},
		{Kind: KExpr, Func: "sampledLFU.updateIfHas", Match: "cost > prev", Lean: "updRaise", Out: o},
		{Kind: KExpr, Func: "sampledLFU.updateIfHas", Match: "prev - cost", Lean: "updDiffDown", Out: o},
		{Kind: KExpr, Func: "sampledLFU.updateIfHas", Match: "cost - prev", Nth: 1, Lean: "updDiffUp", Out: o},
		{Kind: KExpr, Func: "sampledLFU.updateIfHas", Match: "cost - prev", Nth: 2, Lean: "updUsedDelta", Out: o},
		{Kind: KExpr, Func: "sampledLFU.updateIfHas", Match: "^(uint64(diff) - 1)", Lean: "updMetricDown", Out: o},
		{Kind: KExpr, Func: "sampledLFU.updateIfHas", Match: "uint64(diff)", Nth: 2, Lean: "updMetricUp", Out: o},
	}
}
