package main

// Whole-function translation of z/allocator.go (allocm.go): output RV/Gen/AllocM.lean.
//
// RV/Props/TieAlloc.lean proves each function / section equal to the corresponding piece of the
// hand-written model RV/Model/Alloc.lean; Drive/AllocM.lean replays the `alloc` traces on them.

const allocmPkg = "z"

// the Go struct that becomes a Lean structure
const allocmStruct = "Allocator"

// Functions, callees before callers.  A function with `verifPoint` yield points (Allocate), and
// every function that calls one (AllocateAligned, Copy), is cut into sections automatically.
var allocmFuncs = []string{
	"parse",
	"log2",
	"NewAllocator",
	"Allocator.Reset",
	"Allocator.Size",
	"Allocator.Allocated",
	"Allocator.TrimTo",
	"Allocator.addBufferAt",
	"Allocator.Allocate",
	"Allocator.AllocateAligned",
	"Allocator.Copy",
}

// Statements that are skipped (gofmt text; each must occur exactly once): the process-wide
// registry of allocators (`allocs`, `allocsMu`) is not modelled.
var allocmSkip = map[string][]string{
	"NewAllocator": {"allocsMu.Lock()", "allocs[ref] = a", "allocsMu.Unlock()"},
}
