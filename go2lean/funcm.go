package main

// KFuncM — whole functions and methods over integer slices, translated into the Option monad
// (`none` = the Go code panics).  Used for the `node` methods of z/btree.go
// (specs_node.go -> RV/Gen/Node.lean); the Lean side of the constructs is RV/GenNode.lean.
//
// On top of the pure expression translator of main.go (`ctx.expr`, reached through `ctx.hook`
// for the sub-expressions bound here) this adds, and refuses everything else loudly:
//
//   - every slice read `a[i]` / write `a[i] = v` is bounds-checked (`Gen.rd` / `Gen.wr`);
//   - `assert(c)` is `Gen.guard c`, `panic(..)` is `none`;
//   - calls of other KFuncM kernels: methods on the receiver (`n.key(i)`), package functions,
//     in expression position (bound before the statement, in Go's evaluation order; the right
//     operand of `&&` / `||` only when the left one asks for it) and as statements;
//     a callee that writes its slice returns the new array, which replaces the caller's;
//   - package variables without a constant initialiser (`maxKeys`) become parameters, passed on;
//   - `for i := a; i < b; i++ { … }` / `for i = a; …` with a loop-invariant bound, with `return`,
//     `continue` and `break` in the body (`Gen.forRange`); one round of the loop is emitted as a
//     definition of its own (`<fn>_loop<k>`, parameters: the enclosing variables it mentions), so
//     that proofs can talk about it by name;
//   - `if init; cond { … }`;
//   - sub-slices never become arrays of their own: `copy(a[..], a[..])` on one array is
//     `Gen.copyWithin`, a call `f(a[lo:hi])` of a KFuncM kernel is `Gen.window`, a method whose
//     body is `return recv[lo:hi]` (`node.data`) is expanded at its call sites;
//   - `simd.Search(a[lo:hi], k)` is `Gen.simdSearch` (see RV/GenNode.lean);
//   - a parameter of function type is a Lean function parameter (callbacks that get a slice
//     return the possibly updated slice).

import (
	"fmt"
	"go/ast"
	"go/token"
	"go/types"
	"sort"
	"strings"
)

type substVal struct {
	text string
	ty   lty
}

// nfFunc is a KFuncM kernel that has been translated (callers come later in the spec list).
type nfFunc struct {
	lean    string   // fully qualified Lean name
	needs   []string // package variables it takes, in order
	mutates bool     // returns its slice (receiver or first slice parameter) first
	nres    int      // number of declared results
	fd      *ast.FuncDecl
	window  bool // `return recv[lo:hi]`: expanded at call sites
}

var nfFuncs = map[string]*nfFunc{} // "node.key", "zeroOut"

// externs: calls into packages the loader only stubs.
type nfExtern struct {
	lean string
	res  lty
}

var nfExterns = map[string]nfExtern{
	"simd.Search": {"Gen.simdSearch", lty{"bv", 16, true}},
}

type nfCb struct{ name, ty string }

type nfCtx struct {
	*ctx
	s        Spec
	fd       *ast.FuncDecl
	subst    map[ast.Expr]substVal
	needs    map[string]lty
	resTy    string         // Lean type R of the value inside Option
	mutObjs  []types.Object // slices this function writes: returned first
	namedRes []types.Object
	cbs      map[types.Object]*types.Signature // callback parameters
	cbOrder  []nfCb
	aux      []string // auxiliary definitions (loop bodies), emitted before the function
	nloops   int
	// rendering of jumps at the current point
	retWrap func(v string) string
	contK   func() string // nil outside loops
	brkK    func() string
}

func (m *nfCtx) hookFn(e ast.Expr) (string, lty, bool, error) {
	if r, ok := m.subst[e]; ok {
		return r.text, r.ty, true, nil
	}
	return "", lty{}, false, nil
}

func nfKey(fd *ast.FuncDecl) string {
	if fd.Recv != nil && len(fd.Recv.List) == 1 {
		t := fd.Recv.List[0].Type
		if s, ok := t.(*ast.StarExpr); ok {
			t = s.X
		}
		if id, ok := t.(*ast.Ident); ok {
			return id.Name + "." + fd.Name.Name
		}
	}
	return fd.Name.Name
}

// calleeOf resolves a call to a translated kernel; recv is the receiver expression (nil for
// package functions).
func (m *nfCtx) calleeOf(x *ast.CallExpr) (*nfFunc, ast.Expr) {
	switch f := x.Fun.(type) {
	case *ast.Ident:
		if mf, ok := nfFuncs[f.Name]; ok {
			if _, isFn := m.pi.info.Uses[f].(*types.Func); isFn {
				return mf, nil
			}
		}
	case *ast.SelectorExpr:
		if sel, ok := m.pi.info.Selections[f]; ok {
			if fn, ok := sel.Obj().(*types.Func); ok {
				t := sel.Recv()
				if p, ok := t.(*types.Pointer); ok {
					t = p.Elem()
				}
				if n, ok := t.(*types.Named); ok {
					if mf, ok := nfFuncs[n.Obj().Name()+"."+fn.Name()]; ok {
						return mf, f.X
					}
				}
			}
		}
	}
	return nil, nil
}

func (m *nfCtx) externOf(x *ast.CallExpr) (nfExtern, bool) {
	ex, ok := nfExterns[m.pi.src(x.Fun)]
	return ex, ok
}

// arrObj resolves an expression that must be a slice variable of this function (through the
// lazy bindings of an expanded helper) to its object.
func (m *nfCtx) arrObj(e ast.Expr) (types.Object, error) {
	e = unparen(e)
	id, ok := e.(*ast.Ident)
	if !ok {
		return nil, fmt.Errorf("slice expression %q outside the subset (must be a variable)", m.pi.src(e))
	}
	obj := m.pi.info.Uses[id]
	if obj == nil {
		obj = m.pi.info.Defs[id]
	}
	if obj == nil {
		return nil, fmt.Errorf("unresolved identifier %s", id.Name)
	}
	if a, ok := m.lazy[obj]; ok {
		return m.arrObj(a)
	}
	if _, ok := m.env[obj]; !ok {
		return nil, fmt.Errorf("slice %s is not a local of the function", id.Name)
	}
	t, err := leanType(obj.Type())
	if err != nil || t.kind != "arr" {
		return nil, fmt.Errorf("%s is not an integer slice", id.Name)
	}
	return obj, nil
}

func (m *nfCtx) need(name string, t lty) { m.needs[name] = t }

func (m *nfCtx) isPkgVarNoConst(id *ast.Ident) (string, lty, bool) {
	obj := m.pi.info.Uses[id]
	v, ok := obj.(*types.Var)
	if !ok || v.Parent() != m.pi.pkg.Scope() {
		return "", lty{}, false
	}
	if _, _, err := m.ctx.pkgVar(v); err == nil {
		return "", lty{}, false // has a constant initialiser: main.go inlines it
	}
	t, err := leanType(v.Type())
	if err != nil || t.kind != "bv" {
		return "", lty{}, false
	}
	return sanitize(v.Name()), t, true
}

// effectful: does evaluating e involve a bounds check, a kernel call or a package variable?
func (m *nfCtx) effectful(e ast.Expr) bool {
	found := false
	ast.Inspect(e, func(n ast.Node) bool {
		if found {
			return false
		}
		switch x := n.(type) {
		case *ast.IndexExpr:
			found = true
		case *ast.CallExpr:
			if mf, _ := m.calleeOf(x); mf != nil {
				found = true
			}
			if _, ok := m.externOf(x); ok {
				found = true
			}
			if id, ok := x.Fun.(*ast.Ident); ok {
				if obj := m.pi.info.Uses[id]; obj != nil {
					if _, ok := m.cbs[obj]; ok {
						found = true
					}
				}
			}
		}
		return !found
	})
	return found
}

func (m *nfCtx) bind(b *strings.Builder, ind, term, pat string) {
	fmt.Fprintf(b, "%s(%s).bind fun %s =>\n", ind, term, pat)
}

// window resolves a slice-valued expression to (object, lo, hi) of a window of a local slice.
// Its bound expressions are hoisted into b.
func (m *nfCtx) window(e ast.Expr, ind string, b *strings.Builder) (types.Object, string, string, error) {
	e = unparen(e)
	switch x := e.(type) {
	case *ast.Ident:
		obj, err := m.arrObj(x)
		if err != nil {
			return nil, "", "", err
		}
		return obj, "0#64", fmt.Sprintf("(BitVec.ofNat 64 %s.size)", m.env[obj]), nil
	case *ast.SliceExpr:
		if x.Slice3 {
			return nil, "", "", fmt.Errorf("3-index slice outside the subset")
		}
		obj, err := m.arrObj(x.X)
		if err != nil {
			return nil, "", "", err
		}
		lo, hi := "0#64", fmt.Sprintf("(BitVec.ofNat 64 %s.size)", m.env[obj])
		if x.Low != nil {
			if err := m.hoist(x.Low, ind, b); err != nil {
				return nil, "", "", err
			}
			s, _, err := m.expr(x.Low)
			if err != nil {
				return nil, "", "", err
			}
			lo = s
		}
		if x.High != nil {
			if err := m.hoist(x.High, ind, b); err != nil {
				return nil, "", "", err
			}
			s, _, err := m.expr(x.High)
			if err != nil {
				return nil, "", "", err
			}
			hi = s
		}
		return obj, lo, hi, nil
	case *ast.CallExpr:
		mf, recv := m.calleeOf(x)
		if mf == nil || !mf.window {
			return nil, "", "", fmt.Errorf("slice-valued call %q outside the subset", m.pi.src(x))
		}
		// expand `func (n node) data(i int) []uint64 { return n[lo:hi] }`
		fd := mf.fd
		saved := map[types.Object]ast.Expr{}
		var bound []types.Object
		bindLazy := func(id *ast.Ident, a ast.Expr) {
			obj := m.pi.info.Defs[id]
			if old, ok := m.lazy[obj]; ok {
				saved[obj] = old
			}
			m.lazy[obj] = a
			bound = append(bound, obj)
		}
		if recv != nil && len(fd.Recv.List[0].Names) == 1 {
			bindLazy(fd.Recv.List[0].Names[0], recv)
		}
		i := 0
		for _, f := range fd.Type.Params.List {
			for _, n := range f.Names {
				if i >= len(x.Args) {
					return nil, "", "", fmt.Errorf("arity mismatch in %q", m.pi.src(x))
				}
				if m.effectful(x.Args[i]) {
					return nil, "", "", fmt.Errorf("argument %q of a slice helper must be free of calls and index reads", m.pi.src(x.Args[i]))
				}
				bindLazy(n, x.Args[i])
				i++
			}
		}
		ret := fd.Body.List[0].(*ast.ReturnStmt).Results[0]
		obj, lo, hi, err := m.window(ret, ind, b)
		// the helper's syntax tree is shared by all its call sites: forget what was bound in it
		for e := range m.subst {
			if e.Pos() >= fd.Body.Pos() && e.End() <= fd.Body.End() {
				delete(m.subst, e)
			}
		}
		for _, o := range bound {
			if old, ok := saved[o]; ok {
				m.lazy[o] = old
			} else {
				delete(m.lazy, o)
			}
		}
		return obj, lo, hi, err
	}
	return nil, "", "", fmt.Errorf("slice expression %q outside the subset", m.pi.src(e))
}

func nfWindowBody(fd *ast.FuncDecl) bool {
	if fd.Body == nil || len(fd.Body.List) != 1 {
		return false
	}
	r, ok := fd.Body.List[0].(*ast.ReturnStmt)
	if !ok || len(r.Results) != 1 {
		return false
	}
	_, ok = unparen(r.Results[0]).(*ast.SliceExpr)
	return ok
}

// callText builds the application of kernel mf to the receiver / arguments of x; arguments are
// hoisted first.  Slice arguments other than the receiver must be whole local slices.
func (m *nfCtx) callArgs(mf *nfFunc, recv ast.Expr, x *ast.CallExpr, ind string, b *strings.Builder) (string, types.Object, error) {
	parts := []string{mf.lean}
	var target types.Object
	if recv != nil {
		obj, err := m.arrObj(recv)
		if err != nil {
			return "", nil, err
		}
		parts = append(parts, m.env[obj])
		target = obj
	}
	for _, nd := range mf.needs {
		t := lty{"bv", 64, true}
		m.need(nd, t)
		parts = append(parts, nd)
	}
	for _, a := range x.Args {
		if tv, ok := m.pi.info.Types[a]; ok && tv.Type != nil {
			if lt, err := leanType(tv.Type); err == nil && lt.kind == "arr" {
				obj, err := m.arrObj(a)
				if err != nil {
					return "", nil, err
				}
				parts = append(parts, m.env[obj])
				if target == nil {
					target = obj
				}
				continue
			}
		}
		if err := m.hoist(a, ind, b); err != nil {
			return "", nil, err
		}
		s, _, err := m.expr(a)
		if err != nil {
			return "", nil, err
		}
		parts = append(parts, nfAtom(s))
	}
	return strings.Join(parts, " "), target, nil
}

func nfAtom(s string) string {
	if !strings.ContainsAny(s, " \n") {
		return s
	}
	if strings.HasPrefix(s, "(") && strings.HasSuffix(s, ")") {
		depth, closedEarly := 0, false
		for i := 0; i < len(s); i++ {
			switch s[i] {
			case '(':
				depth++
			case ')':
				depth--
				if depth == 0 && i != len(s)-1 {
					closedEarly = true
				}
			}
		}
		if !closedEarly && depth == 0 {
			return s
		}
	}
	return "(" + s + ")"
}

// hoistCall binds the call x; discard: statement position.  Returns the name bound to the
// (single) declared result, if any.
func (m *nfCtx) hoistCall(x *ast.CallExpr, ind string, b *strings.Builder, discard bool) (string, error) {
	mf, recv := m.calleeOf(x)
	if mf == nil {
		return "", fmt.Errorf("call %q outside the subset", m.pi.src(x))
	}
	if mf.window {
		return "", fmt.Errorf("slice helper %q used outside copy / a kernel call", m.pi.src(x))
	}
	// a package function given a window of a local slice
	if recv == nil && len(x.Args) >= 1 {
		if _, isSlice := unparen(x.Args[0]).(*ast.SliceExpr); isSlice || m.isWindowCall(x.Args[0]) {
			if len(x.Args) != 1 || !mf.mutates || mf.nres != 0 {
				return "", fmt.Errorf("call %q on a sub-slice outside the subset", m.pi.src(x))
			}
			obj, lo, hi, err := m.window(x.Args[0], ind, b)
			if err != nil {
				return "", err
			}
			needs := ""
			for _, nd := range mf.needs {
				m.need(nd, lty{"bv", 64, true})
				needs += " " + nd
			}
			nn := m.freshName(obj.Name())
			m.bind(b, ind, fmt.Sprintf("Gen.window %s %s %s (fun d => %s%s d)", m.env[obj], nfAtom(lo), nfAtom(hi), mf.lean, needs), nn)
			m.env[obj] = nn
			return "", nil
		}
	}
	call, target, err := m.callArgs(mf, recv, x, ind, b)
	if err != nil {
		return "", err
	}
	pats := []string{}
	if mf.mutates {
		if target == nil {
			return "", fmt.Errorf("call %q: no slice to update", m.pi.src(x))
		}
		nn := m.freshName(target.Name())
		pats = append(pats, nn)
		defer func() { m.env[target] = nn }()
	}
	res := ""
	for i := 0; i < mf.nres; i++ {
		if discard {
			pats = append(pats, "_")
		} else {
			res = m.freshName("t")
			pats = append(pats, res)
		}
	}
	if mf.nres > 1 && !discard {
		return "", fmt.Errorf("call %q with several results in expression position", m.pi.src(x))
	}
	pat := "_"
	if len(pats) == 1 {
		pat = pats[0]
	} else if len(pats) > 1 {
		pat = "(" + strings.Join(pats, ", ") + ")"
	}
	m.bind(b, ind, call, pat)
	return res, nil
}

func (m *nfCtx) isWindowCall(e ast.Expr) bool {
	c, ok := unparen(e).(*ast.CallExpr)
	if !ok {
		return false
	}
	mf, _ := m.calleeOf(c)
	return mf != nil && mf.window
}

// hoist binds, in evaluation order, every sub-expression of e that can panic or needs a
// parameter, and records the bound names in m.subst so that ctx.expr renders the rest.
func (m *nfCtx) hoist(e ast.Expr, ind string, b *strings.Builder) error {
	if e == nil {
		return nil
	}
	if _, done := m.subst[e]; done {
		return nil
	}
	switch x := e.(type) {
	case *ast.ParenExpr:
		return m.hoist(x.X, ind, b)
	case *ast.Ident:
		obj := m.pi.info.Uses[x]
		if obj != nil {
			if a, ok := m.lazy[obj]; ok {
				return m.hoist(a, ind, b)
			}
		}
		if name, t, ok := m.isPkgVarNoConst(x); ok {
			m.need(name, t)
			m.subst[x] = substVal{name, t}
		}
		return nil
	case *ast.BasicLit:
		return nil
	case *ast.UnaryExpr:
		return m.hoist(x.X, ind, b)
	case *ast.BinaryExpr:
		if (x.Op == token.LAND || x.Op == token.LOR) && m.effectful(x.Y) {
			if err := m.hoist(x.X, ind, b); err != nil {
				return err
			}
			a, _, err := m.expr(x.X)
			if err != nil {
				return err
			}
			var inner strings.Builder
			if err := m.hoist(x.Y, ind+"    ", &inner); err != nil {
				return err
			}
			y, _, err := m.expr(x.Y)
			if err != nil {
				return err
			}
			t := m.freshName("t")
			if x.Op == token.LAND {
				fmt.Fprintf(b, "%s(if %s then\n%s%s    some %s\n%s  else some false).bind fun %s =>\n", ind, a, inner.String(), ind, nfAtom(y), ind, t)
			} else {
				fmt.Fprintf(b, "%s(if %s then some true\n%s  else\n%s%s    some %s).bind fun %s =>\n", ind, a, ind, inner.String(), ind, nfAtom(y), t)
			}
			m.subst[x] = substVal{t, lty{kind: "bool"}}
			return nil
		}
		if err := m.hoist(x.X, ind, b); err != nil {
			return err
		}
		return m.hoist(x.Y, ind, b)
	case *ast.IndexExpr:
		obj, err := m.arrObj(x.X)
		if err != nil {
			return err
		}
		if err := m.hoist(x.Index, ind, b); err != nil {
			return err
		}
		i, ti, err := m.expr(x.Index)
		if err != nil {
			return err
		}
		if ti.kind != "bv" || ti.w != 64 {
			return fmt.Errorf("index %q is not a 64-bit integer", m.pi.src(x.Index))
		}
		ta, _ := leanType(obj.Type())
		t := m.freshName("t")
		m.bind(b, ind, fmt.Sprintf("Gen.rd %s %s", m.env[obj], nfAtom(i)), t)
		m.subst[x] = substVal{t, lty{"bv", ta.w, ta.signed}}
		return nil
	case *ast.CallExpr:
		// conversion
		if tvf, ok := m.pi.info.Types[x.Fun]; ok && tvf.IsType() && len(x.Args) == 1 {
			return m.hoist(x.Args[0], ind, b)
		}
		if id, ok := x.Fun.(*ast.Ident); ok && id.Name == "len" && len(x.Args) == 1 {
			obj, err := m.arrObj(x.Args[0])
			if err != nil {
				return err
			}
			m.subst[x] = substVal{fmt.Sprintf("(BitVec.ofNat 64 %s.size)", m.env[obj]), lty{"bv", 64, true}}
			return nil
		}
		if ex, ok := m.externOf(x); ok {
			if len(x.Args) < 1 {
				return fmt.Errorf("extern %q without a slice argument", m.pi.src(x))
			}
			obj, lo, hi, err := m.window(x.Args[0], ind, b)
			if err != nil {
				return err
			}
			parts := []string{ex.lean, m.env[obj], nfAtom(lo), nfAtom(hi)}
			for _, a := range x.Args[1:] {
				if err := m.hoist(a, ind, b); err != nil {
					return err
				}
				s, _, err := m.expr(a)
				if err != nil {
					return err
				}
				parts = append(parts, nfAtom(s))
			}
			t := m.freshName("t")
			m.bind(b, ind, strings.Join(parts, " "), t)
			m.subst[x] = substVal{t, ex.res}
			return nil
		}
		if mf, _ := m.calleeOf(x); mf != nil {
			if mf.nres != 1 {
				return fmt.Errorf("call %q in expression position must have one result", m.pi.src(x))
			}
			res, err := m.hoistCall(x, ind, b, false)
			if err != nil {
				return err
			}
			tv := m.pi.info.Types[x]
			t, err := leanType(tv.Type)
			if err != nil {
				return err
			}
			m.subst[x] = substVal{res, t}
			return nil
		}
		// pure package-level kernels (KFunc) and anything main.go knows: hoist the arguments
		for _, a := range x.Args {
			if err := m.hoist(a, ind, b); err != nil {
				return err
			}
		}
		return nil
	case *ast.SelectorExpr:
		return nil
	}
	return fmt.Errorf("expression %q outside the subset", m.pi.src(e))
}

// value hoists e and renders it.
func (m *nfCtx) value(e ast.Expr, ind string, b *strings.Builder) (string, lty, error) {
	if err := m.hoist(e, ind, b); err != nil {
		return "", lty{}, err
	}
	return m.expr(e)
}

// ---------------------------------------------------------------- which variables a statement list writes

func (m *nfCtx) assignedM(stmts []ast.Stmt, out assignSet) {
	for _, st := range stmts {
		ast.Inspect(st, func(n ast.Node) bool {
			switch x := n.(type) {
			case *ast.AssignStmt:
				for _, l := range x.Lhs {
					m.lhsObj(l, out, x.Tok == token.DEFINE)
				}
			case *ast.IncDecStmt:
				m.lhsObj(x.X, out, false)
			case *ast.ForStmt:
				if as, ok := x.Init.(*ast.AssignStmt); ok && as.Tok == token.ASSIGN {
					for _, l := range as.Lhs {
						m.lhsObj(l, out, false)
					}
				}
			case *ast.CallExpr:
				if id, ok := x.Fun.(*ast.Ident); ok {
					if id.Name == "copy" && len(x.Args) == 2 {
						if obj := m.baseOf(x.Args[0]); obj != nil {
							out[obj] = true
						}
					}
					if obj := m.pi.info.Uses[id]; obj != nil {
						if _, ok := m.cbs[obj]; ok {
							for _, a := range x.Args {
								if o := m.baseOf(a); o != nil {
									out[o] = true
								}
							}
						}
					}
				}
				if mf, recv := m.calleeOf(x); mf != nil && mf.mutates {
					if recv != nil {
						if obj := m.baseOf(recv); obj != nil {
							out[obj] = true
						}
					} else if len(x.Args) > 0 {
						if obj := m.baseOf(x.Args[0]); obj != nil {
							out[obj] = true
						}
					}
				}
			}
			return true
		})
	}
}

// baseOf: the local slice a slice-valued expression is a window of (nil if none).
func (m *nfCtx) baseOf(e ast.Expr) types.Object {
	e = unparen(e)
	switch x := e.(type) {
	case *ast.Ident:
		obj := m.pi.info.Uses[x]
		if obj == nil {
			return nil
		}
		if t, err := leanType(obj.Type()); err != nil || t.kind != "arr" {
			return nil
		}
		return obj
	case *ast.SliceExpr:
		return m.baseOf(x.X)
	case *ast.CallExpr:
		if mf, recv := m.calleeOf(x); mf != nil && mf.window && recv != nil {
			return m.baseOf(recv)
		}
	}
	return nil
}

func nfContainsJump(stmts []ast.Stmt) bool {
	found := false
	for _, s := range stmts {
		ast.Inspect(s, func(n ast.Node) bool {
			switch x := n.(type) {
			case *ast.ReturnStmt, *ast.BranchStmt:
				found = true
			case *ast.CallExpr:
				if id, ok := x.Fun.(*ast.Ident); ok && id.Name == "panic" {
					found = true
				}
			case *ast.ForStmt:
				// a break/continue inside a nested loop belongs to that loop, a return does not
				if containsReturn([]ast.Stmt{x}) {
					found = true
				}
				return false
			}
			return !found
		})
	}
	return found
}

// ---------------------------------------------------------------- statements

func (m *nfCtx) stateTuple(objs []types.Object) string {
	names := []string{}
	for _, o := range objs {
		names = append(names, m.env[o])
	}
	return tuple(names)
}

// retVal is the function's result value R for `return results…`.
func (m *nfCtx) retVal(results []string) string {
	parts := []string{}
	for _, o := range m.mutObjs {
		parts = append(parts, m.env[o])
	}
	parts = append(parts, results...)
	return tuple(parts)
}

func (m *nfCtx) blockM(stmts []ast.Stmt, ind string, k func() (string, error)) (string, error) {
	if len(stmts) == 0 {
		return k()
	}
	st, rest := stmts[0], stmts[1:]
	next := func() (string, error) { return m.blockM(rest, ind, k) }
	var b strings.Builder
	switch x := st.(type) {
	case *ast.EmptyStmt:
		return next()
	case *ast.BlockStmt:
		return m.blockM(append(append([]ast.Stmt{}, x.List...), rest...), ind, k)
	case *ast.ReturnStmt:
		vals := []string{}
		if len(x.Results) == 0 {
			for _, o := range m.namedRes {
				vals = append(vals, m.env[o])
			}
		}
		for _, r := range x.Results {
			s, _, err := m.value(r, ind, &b)
			if err != nil {
				return "", err
			}
			vals = append(vals, s)
		}
		return b.String() + ind + m.retWrap(m.retVal(vals)), nil
	case *ast.BranchStmt:
		if x.Label != nil {
			return "", fmt.Errorf("labelled %s outside the subset", x.Tok)
		}
		switch x.Tok {
		case token.CONTINUE:
			if m.contK != nil {
				return ind + m.contK(), nil
			}
		case token.BREAK:
			if m.brkK != nil {
				return ind + m.brkK(), nil
			}
		}
		return "", fmt.Errorf("%s outside a loop / outside the subset", x.Tok)
	case *ast.DeclStmt:
		gd := x.Decl.(*ast.GenDecl)
		for _, sp := range gd.Specs {
			vs, ok := sp.(*ast.ValueSpec)
			if !ok {
				return "", fmt.Errorf("declaration outside the subset")
			}
			for i, n := range vs.Names {
				obj := m.pi.info.Defs[n]
				t, err := leanType(obj.Type())
				if err != nil {
					return "", err
				}
				val := ""
				if i < len(vs.Values) {
					val, _, err = m.value(vs.Values[i], ind, &b)
					if err != nil {
						return "", err
					}
				} else if t.kind == "bv" {
					val = fmt.Sprintf("0#%d", t.w)
				} else if t.kind == "bool" {
					val = "false"
				} else {
					return "", fmt.Errorf("zero value of %s outside the subset", obj.Type())
				}
				nm := m.freshName(n.Name)
				fmt.Fprintf(&b, "%slet %s : %s := %s\n", ind, nm, t.lean(), val)
				m.env[obj] = nm
			}
		}
		r, err := next()
		return b.String() + r, err
	case *ast.AssignStmt:
		if err := m.assignM(x, ind, &b); err != nil {
			return "", err
		}
		r, err := next()
		return b.String() + r, err
	case *ast.IncDecStmt:
		if _, isIdx := x.X.(*ast.IndexExpr); isIdx {
			return "", fmt.Errorf("%q outside the subset", m.pi.src(x))
		}
		op := token.ADD_ASSIGN
		if x.Tok == token.DEC {
			op = token.SUB_ASSIGN
		}
		s, err := m.assignOp(x.X, op, &ast.BasicLit{Kind: token.INT, Value: "1"}, ind, true)
		if err != nil {
			return "", err
		}
		r, err := next()
		return s + r, err
	case *ast.ExprStmt:
		call, ok := x.X.(*ast.CallExpr)
		if !ok {
			break
		}
		if id, ok := call.Fun.(*ast.Ident); ok {
			switch id.Name {
			case "panic":
				return ind + "none", nil
			case "assert":
				if len(call.Args) != 1 {
					break
				}
				c, _, err := m.value(call.Args[0], ind, &b)
				if err != nil {
					return "", err
				}
				m.bind(&b, ind, "Gen.guard "+nfAtom(c), "_")
				r, err := next()
				return b.String() + r, err
			case "copy":
				if len(call.Args) != 2 {
					break
				}
				dobj, dlo, dhi, err := m.window(call.Args[0], ind, &b)
				if err != nil {
					return "", err
				}
				sobj, slo, shi, err := m.window(call.Args[1], ind, &b)
				if err != nil {
					return "", err
				}
				if dobj != sobj {
					return "", fmt.Errorf("copy between two different slices outside the subset")
				}
				nn := m.freshName(dobj.Name())
				m.bind(&b, ind, fmt.Sprintf("Gen.copyWithin %s %s %s %s %s", m.env[dobj], nfAtom(dlo), nfAtom(dhi), nfAtom(slo), nfAtom(shi)), nn)
				m.env[dobj] = nn
				r, err := next()
				return b.String() + r, err
			}
			// callback parameter
			if obj := m.pi.info.Uses[id]; obj != nil {
				if sig, ok := m.cbs[obj]; ok {
					parts := []string{sanitize(id.Name)}
					var target types.Object
					for _, a := range call.Args {
						if o := m.baseOf(a); o != nil {
							ao, err := m.arrObj(a)
							if err != nil {
								return "", err
							}
							parts = append(parts, m.env[ao])
							if target == nil {
								target = ao
							}
							continue
						}
						s, _, err := m.value(a, ind, &b)
						if err != nil {
							return "", err
						}
						parts = append(parts, nfAtom(s))
					}
					if sig.Results().Len() != 0 {
						return "", fmt.Errorf("callback with results outside the subset")
					}
					if target != nil {
						nn := m.freshName(target.Name())
						m.bind(&b, ind, strings.Join(parts, " "), nn)
						m.env[target] = nn
					} else {
						m.bind(&b, ind, strings.Join(parts, " "), "_")
					}
					r, err := next()
					return b.String() + r, err
				}
			}
		}
		if _, err := m.hoistCall(call, ind, &b, true); err != nil {
			return "", err
		}
		r, err := next()
		return b.String() + r, err
	case *ast.IfStmt:
		if x.Init != nil {
			x2 := *x
			x2.Init = nil
			return m.blockM(append([]ast.Stmt{x.Init, &x2}, rest...), ind, k)
		}
		return m.ifM(x, ind, next)
	case *ast.ForStmt:
		return m.forM(x, ind, next)
	}
	return "", fmt.Errorf("statement %q outside the subset", firstLine(m.pi.src(st)))
}

func (m *nfCtx) assignM(x *ast.AssignStmt, ind string, b *strings.Builder) error {
	hasIdx := false
	for _, l := range x.Lhs {
		if _, ok := l.(*ast.IndexExpr); ok {
			hasIdx = true
		}
	}
	if !hasIdx {
		for _, r := range x.Rhs {
			if err := m.hoist(r, ind, b); err != nil {
				return err
			}
		}
		if x.Tok != token.ASSIGN && x.Tok != token.DEFINE {
			// op-assign reads the left side too
			for _, l := range x.Lhs {
				if err := m.hoist(l, ind, b); err != nil {
					return err
				}
			}
		}
		s, err := m.assign(x, ind)
		if err != nil {
			return err
		}
		b.WriteString(s)
		return nil
	}
	if len(x.Lhs) != 1 || len(x.Rhs) != 1 {
		return fmt.Errorf("tuple assignment to slice elements outside the subset")
	}
	lx := x.Lhs[0].(*ast.IndexExpr)
	obj, err := m.arrObj(lx.X)
	if err != nil {
		return err
	}
	ta, _ := leanType(obj.Type())
	te := lty{"bv", ta.w, ta.signed}
	// Go evaluates the index operand, then the right side, then performs the (checked) store
	if err := m.hoist(lx.Index, ind, b); err != nil {
		return err
	}
	idx, _, err := m.expr(lx.Index)
	if err != nil {
		return err
	}
	var val string
	if x.Tok == token.ASSIGN {
		if tv := m.pi.info.Types[x.Rhs[0]]; tv.Value != nil {
			val, err = constLit(tv.Value, te)
		} else {
			val, _, err = m.value(x.Rhs[0], ind, b)
		}
		if err != nil {
			return err
		}
	} else {
		ops := map[token.Token]token.Token{
			token.ADD_ASSIGN: token.ADD, token.SUB_ASSIGN: token.SUB, token.MUL_ASSIGN: token.MUL,
			token.AND_ASSIGN: token.AND, token.OR_ASSIGN: token.OR, token.XOR_ASSIGN: token.XOR,
			token.AND_NOT_ASSIGN: token.AND_NOT,
		}
		op, ok := ops[x.Tok]
		if !ok {
			return fmt.Errorf("assignment operator %s on a slice element outside the subset", x.Tok)
		}
		cur := m.freshName("t")
		m.bind(b, ind, fmt.Sprintf("Gen.rd %s %s", m.env[obj], nfAtom(idx)), cur)
		var r string
		if tv := m.pi.info.Types[x.Rhs[0]]; tv.Value != nil {
			r, err = constLit(tv.Value, te)
		} else {
			r, _, err = m.value(x.Rhs[0], ind, b)
		}
		if err != nil {
			return err
		}
		val, err = m.binText(op, cur, te, r, te)
		if err != nil {
			return err
		}
	}
	nn := m.freshName(obj.Name())
	m.bind(b, ind, fmt.Sprintf("Gen.wr %s %s %s", m.env[obj], nfAtom(idx), nfAtom(val)), nn)
	m.env[obj] = nn
	return nil
}

func (m *nfCtx) ifM(x *ast.IfStmt, ind string, next func() (string, error)) (string, error) {
	var b strings.Builder
	cond, _, err := m.value(x.Cond, ind, &b)
	if err != nil {
		return "", err
	}
	var elseStmts []ast.Stmt
	switch e := x.Else.(type) {
	case nil:
	case *ast.BlockStmt:
		elseStmts = e.List
	case *ast.IfStmt:
		elseStmts = []ast.Stmt{e}
	}
	saved := m.saveEnv()
	if !nfContainsJump(x.Body.List) && !nfContainsJump(elseStmts) {
		as := assignSet{}
		m.assignedM(x.Body.List, as)
		m.assignedM(elseStmts, as)
		objs := sortedObjs(m.ctx, as)
		joinK := func() (string, error) { return ind + "    some " + m.stateTuple(objs), nil }
		tb, err := m.blockM(x.Body.List, ind+"    ", joinK)
		if err != nil {
			return "", err
		}
		m.restoreEnv(saved)
		eb, err := m.blockM(elseStmts, ind+"    ", joinK)
		if err != nil {
			return "", err
		}
		m.restoreEnv(saved)
		newNames := []string{}
		for _, o := range objs {
			newNames = append(newNames, m.freshName(o.Name()))
		}
		for i, o := range objs {
			m.env[o] = newNames[i]
		}
		r, err := next()
		if err != nil {
			return "", err
		}
		pat := "_"
		if len(newNames) > 0 {
			pat = tuple(newNames)
		}
		fmt.Fprintf(&b, "%s(if %s then\n%s\n%s  else\n%s).bind fun %s =>\n", ind, cond, tb, ind, eb, pat)
		return b.String() + r, nil
	}
	// a branch leaves the function or the loop round: the rest goes into both branches
	tb, err := m.blockM(x.Body.List, ind+"  ", next)
	if err != nil {
		return "", err
	}
	m.restoreEnv(saved)
	eb, err := m.blockM(elseStmts, ind+"  ", next)
	if err != nil {
		return "", err
	}
	m.restoreEnv(saved)
	fmt.Fprintf(&b, "%sif %s then\n%s\n%selse\n%s", ind, cond, tb, ind, eb)
	return b.String(), nil
}

// forM: `for i := a; i < b; i++ { body }` and `for i = a; i < b; i++ { body }`.
func (m *nfCtx) forM(x *ast.ForStmt, ind string, next func() (string, error)) (string, error) {
	bad := fmt.Errorf("loop %q outside the subset (want `for i := a; i < b; i++`)", firstLine(m.pi.src(x)))
	init, ok := x.Init.(*ast.AssignStmt)
	if !ok || len(init.Lhs) != 1 || len(init.Rhs) != 1 || (init.Tok != token.DEFINE && init.Tok != token.ASSIGN) {
		return "", bad
	}
	iv, ok := init.Lhs[0].(*ast.Ident)
	if !ok {
		return "", bad
	}
	ivObj := m.pi.info.Defs[iv]
	if init.Tok == token.ASSIGN {
		ivObj = m.pi.info.Uses[iv]
	}
	if ivObj == nil {
		return "", bad
	}
	if t, err := leanType(ivObj.Type()); err != nil || t.kind != "bv" || t.w != 64 || !t.signed {
		return "", fmt.Errorf("loop variable %s is not a Go int", iv.Name)
	}
	cond, ok := x.Cond.(*ast.BinaryExpr)
	if !ok || cond.Op != token.LSS {
		return "", bad
	}
	if id, ok := cond.X.(*ast.Ident); !ok || m.pi.info.Uses[id] != ivObj {
		return "", bad
	}
	post, ok := x.Post.(*ast.IncDecStmt)
	if !ok || post.Tok != token.INC {
		return "", bad
	}
	if id, ok := post.X.(*ast.Ident); !ok || m.pi.info.Uses[id] != ivObj {
		return "", bad
	}
	as := assignSet{}
	m.assignedM(x.Body.List, as)
	if as[ivObj] {
		return "", fmt.Errorf("loop variable %s is assigned in the body", iv.Name)
	}
	// the bound is evaluated once: it must not depend on anything the body writes (the length
	// of a slice does not change when its elements are written)
	badBound := ""
	ast.Inspect(cond.Y, func(n ast.Node) bool {
		if c, ok := n.(*ast.CallExpr); ok {
			if id, ok := c.Fun.(*ast.Ident); ok && id.Name == "len" {
				return false
			}
			if mf, _ := m.calleeOf(c); mf != nil {
				badBound = m.pi.src(c)
			}
		}
		if id, ok := n.(*ast.Ident); ok {
			if o := m.pi.info.Uses[id]; o != nil && (as[o] || o == ivObj) {
				badBound = id.Name
			}
		}
		return true
	})
	if badBound != "" {
		return "", fmt.Errorf("loop bound %q depends on %s, which the body may change", m.pi.src(cond.Y), badBound)
	}
	var b strings.Builder
	lo, _, err := m.value(init.Rhs[0], ind, &b)
	if err != nil {
		return "", err
	}
	hi, _, err := m.value(cond.Y, ind, &b)
	if err != nil {
		return "", err
	}
	objs := sortedObjs(m.ctx, as)
	saved := m.saveEnv()
	stNames := []string{}
	for _, o := range objs {
		n := m.freshName(o.Name())
		stNames = append(stNames, n)
		m.env[o] = n
	}
	iName := m.freshName(iv.Name)
	m.env[ivObj] = iName
	oldRet, oldCont, oldBrk := m.retWrap, m.contK, m.brkK
	m.retWrap = func(v string) string { return "some (Gen.LoopOut.ret " + nfAtom(v) + ")" }
	m.contK = func() string { return "some (Gen.LoopOut.next " + m.stateTuple(objs) + ")" }
	m.brkK = func() string { return "some (Gen.LoopOut.brk " + m.stateTuple(objs) + ")" }
	body, err := m.blockM(x.Body.List, ind+"    ", func() (string, error) { return ind + "    " + m.contK(), nil })
	m.retWrap, m.contK, m.brkK = oldRet, oldCont, oldBrk
	if err != nil {
		return "", err
	}
	m.restoreEnv(saved)
	init0 := m.stateTuple(objs)
	newNames := []string{}
	for _, o := range objs {
		newNames = append(newNames, m.freshName(o.Name()))
	}
	for i, o := range objs {
		m.env[o] = newNames[i]
	}
	ivFinal := "_"
	if init.Tok == token.ASSIGN {
		ivFinal = m.freshName(iv.Name)
		m.env[ivObj] = ivFinal
	}
	r, err := next()
	if err != nil {
		return "", err
	}
	stPat := "_"
	if len(stNames) > 0 {
		stPat = tuple(stNames)
	}
	donePat := "_"
	if len(newNames) > 0 {
		donePat = tuple(newNames)
	}
	// the body becomes a definition of its own (proofs talk about it by name); it takes the
	// variables of the enclosing function it mentions as parameters
	m.nloops++
	loopName := fmt.Sprintf("%s_loop%d", m.s.Lean, m.nloops)
	var capNames, capDecls []string
	mentions := func(name string) bool {
		for i := 0; i+len(name) <= len(body); i++ {
			if body[i:i+len(name)] != name {
				continue
			}
			isId := func(c byte) bool {
				return c == '_' || c == '\'' || c >= '0' && c <= '9' || c >= 'a' && c <= 'z' || c >= 'A' && c <= 'Z'
			}
			if (i == 0 || !isId(body[i-1]) && body[i-1] != '.') && (i+len(name) == len(body) || !isId(body[i+len(name)])) {
				return true
			}
		}
		return false
	}
	var capObjs []types.Object
	for o := range saved {
		capObjs = append(capObjs, o)
	}
	sort.Slice(capObjs, func(i, j int) bool { return capObjs[i].Pos() < capObjs[j].Pos() })
	seen := map[string]bool{}
	for _, o := range capObjs {
		name := saved[o]
		isState := false
		for _, so := range objs {
			if so == o {
				isState = true
			}
		}
		if isState || o == ivObj || seen[name] || !mentions(name) {
			continue
		}
		t, err := leanType(o.Type())
		if err != nil {
			continue
		}
		seen[name] = true
		capNames = append(capNames, name)
		capDecls = append(capDecls, fmt.Sprintf("(%s : %s)", name, t.lean()))
	}
	var needNames []string
	for n := range m.needs {
		needNames = append(needNames, n)
	}
	sort.Strings(needNames)
	for _, n := range needNames {
		if mentions(n) && !seen[n] {
			seen[n] = true
			capNames = append(capNames, n)
			capDecls = append(capDecls, fmt.Sprintf("(%s : %s)", n, m.needs[n].lean()))
		}
	}
	for _, cb := range m.cbOrder {
		if mentions(cb.name) && !seen[cb.name] {
			seen[cb.name] = true
			capNames = append(capNames, cb.name)
			capDecls = append(capDecls, fmt.Sprintf("(%s : %s)", cb.name, cb.ty))
		}
	}
	stTys := []string{}
	for _, o := range objs {
		t, _ := leanType(o.Type())
		stTys = append(stTys, t.lean())
	}
	sigma := "Unit"
	if len(stTys) == 1 {
		sigma = stTys[0]
	} else if len(stTys) > 1 {
		sigma = "(" + strings.Join(stTys, " × ") + ")"
	}
	var aux strings.Builder
	fmt.Fprintf(&aux, "/-- %s.%s: one round of the loop `%s` -/\ndef %s%s (%s : BitVec 64) :\n    %s → Option (Gen.LoopOut %s %s)\n  | %s =>\n%s\n\n",
		m.s.Pkg, m.s.Func, strings.Join(strings.Fields(firstLine(m.pi.src(x))), " "), loopName, nfLead(strings.Join(capDecls, " ")), iName,
		sigma, nfAtom(m.resTy), nfAtom(sigma), stPat, indent(nfDedent(body, ind+"    "), "    "))
	m.aux = append(m.aux, aux.String())
	loopCall := "Gen." + m.s.Out + "." + loopName
	if len(capNames) > 0 {
		loopCall = "(" + loopCall + " " + strings.Join(capNames, " ") + ")"
	}
	fmt.Fprintf(&b, "%s(Gen.forRange (ρ := %s) %s %s %s %s).bind fun\n", ind, m.resTy, nfAtom(lo), nfAtom(hi), loopCall, init0)
	fmt.Fprintf(&b, "%s  | Gen.LoopRes.ret v => %s\n", ind, m.retWrap("v"))
	fmt.Fprintf(&b, "%s  | Gen.LoopRes.done %s %s =>\n", ind, donePat, ivFinal)
	return b.String() + indent(r, "    "), nil
}

func nfLead(s string) string {
	if s == "" {
		return ""
	}
	return " " + s
}

// nfDedent removes the common indentation `by` from every line that has it.
func nfDedent(s, by string) string {
	lines := strings.Split(s, "\n")
	for i, l := range lines {
		lines[i] = strings.TrimPrefix(l, by)
	}
	return strings.Join(lines, "\n")
}

// ---------------------------------------------------------------- the function

func translateFuncM(pi *pkgInfo, s Spec) (string, error) {
	fd := pi.findFunc(s.Func)
	if fd == nil {
		return "", fmt.Errorf("function %s not found", s.Func)
	}
	key := nfKey(fd)
	full := "Gen." + s.Out + "." + s.Lean
	if nfWindowBody(fd) {
		nfFuncs[key] = &nfFunc{lean: full, fd: fd, window: true}
		return fmt.Sprintf("/-- %s.%s is a sub-slice helper (`%s`): expanded where it is called -/\ndef %s : Bool := true\n",
			s.Pkg, s.Func, strings.Join(strings.Fields(pi.src(fd.Body.List[0])), " "), s.Lean), nil
	}
	c := &ctx{pi: pi, env: map[types.Object]string{}, lazy: map[types.Object]ast.Expr{}}
	m := &nfCtx{ctx: c, s: s, fd: fd, subst: map[ast.Expr]substVal{}, needs: map[string]lty{}, cbs: map[types.Object]*types.Signature{}}
	c.hook = m.hookFn
	type par struct {
		name, ty string
		recv     bool
	}
	var pars []par
	var sliceParams []types.Object
	addParam := func(id *ast.Ident, recv bool) error {
		obj := pi.info.Defs[id]
		n := sanitize(id.Name)
		if sig, ok := obj.Type().Underlying().(*types.Signature); ok {
			// callback: slices it is given come back (possibly updated)
			parts := []string{}
			res := "Unit"
			for i := 0; i < sig.Params().Len(); i++ {
				t, err := leanType(sig.Params().At(i).Type())
				if err != nil {
					return err
				}
				parts = append(parts, t.lean())
				if t.kind == "arr" && res == "Unit" {
					res = t.lean()
				}
			}
			if sig.Results().Len() != 0 {
				return fmt.Errorf("callback %s with results outside the subset", id.Name)
			}
			m.cbs[obj] = sig
			m.cbOrder = append(m.cbOrder, nfCb{n, strings.Join(parts, " → ") + " → Option (" + res + ")"})
			pars = append(pars, par{n, strings.Join(parts, " → ") + " → Option (" + res + ")", false})
			return nil
		}
		t, err := leanType(obj.Type())
		if err != nil {
			return err
		}
		c.env[obj] = n
		pars = append(pars, par{n, t.lean(), recv})
		if t.kind == "arr" {
			sliceParams = append(sliceParams, obj)
		}
		return nil
	}
	if fd.Recv != nil {
		for _, f := range fd.Recv.List {
			for _, n := range f.Names {
				if err := addParam(n, true); err != nil {
					return "", err
				}
			}
		}
	}
	for _, f := range fd.Type.Params.List {
		for _, n := range f.Names {
			if err := addParam(n, false); err != nil {
				return "", err
			}
		}
	}
	as := assignSet{}
	m.assignedM(fd.Body.List, as)
	for _, o := range sliceParams {
		if as[o] {
			m.mutObjs = append(m.mutObjs, o)
		}
	}
	if len(m.mutObjs) > 1 {
		return "", fmt.Errorf("a function writing two slices is outside the subset")
	}
	resT := []string{}
	for _, o := range m.mutObjs {
		t, _ := leanType(o.Type())
		resT = append(resT, t.lean())
	}
	nres := 0
	if fd.Type.Results != nil {
		for _, f := range fd.Type.Results.List {
			tv := pi.info.Types[f.Type]
			t, err := leanType(tv.Type)
			if err != nil {
				return "", err
			}
			if t.kind == "arr" {
				return "", fmt.Errorf("slice result outside the subset")
			}
			if len(f.Names) == 0 {
				resT = append(resT, t.lean())
				nres++
			}
			for _, n := range f.Names {
				resT = append(resT, t.lean())
				nres++
				obj := pi.info.Defs[n]
				m.namedRes = append(m.namedRes, obj)
				if t.kind == "bool" {
					c.env[obj] = "false"
				} else {
					c.env[obj] = fmt.Sprintf("(0#%d)", t.w)
				}
			}
		}
	}
	m.resTy = "Unit"
	if len(resT) == 1 {
		m.resTy = resT[0]
	} else if len(resT) > 1 {
		m.resTy = "(" + strings.Join(resT, " × ") + ")"
	}
	m.retWrap = func(v string) string { return "some " + nfAtom(v) }
	body, err := m.blockM(fd.Body.List, "  ", func() (string, error) {
		vals := []string{}
		for _, o := range m.namedRes {
			vals = append(vals, m.env[o])
		}
		if len(m.namedRes) == 0 && nres > 0 {
			return "", fmt.Errorf("missing return")
		}
		return "  " + m.retWrap(m.retVal(vals)), nil
	})
	if err != nil {
		return "", err
	}
	needs := []string{}
	for n := range m.needs {
		needs = append(needs, n)
	}
	sort.Strings(needs)
	var b strings.Builder
	for _, a := range m.aux {
		b.WriteString(a)
	}
	fmt.Fprintf(&b, "/-- %s.%s (whole function; `none` = panic) -/\ndef %s", s.Pkg, s.Func, s.Lean)
	emitNeeds := func() {
		for _, n := range needs {
			fmt.Fprintf(&b, " (%s : %s)", n, m.needs[n].lean())
		}
	}
	if fd.Recv == nil {
		emitNeeds()
	}
	for _, p := range pars {
		fmt.Fprintf(&b, " (%s : %s)", p.name, p.ty)
		if p.recv {
			emitNeeds()
		}
	}
	fmt.Fprintf(&b, " : Option %s :=\n%s\n", nfAtom(m.resTy), body)
	nfFuncs[key] = &nfFunc{lean: full, needs: needs, mutates: len(m.mutObjs) > 0, nres: nres, fd: fd}
	return b.String(), nil
}
