package main

// TreeM — the tree-level methods of z/btree.go translated WHOLE (RV/Gen/TreeM.lean).
//
// specs_node.go / funcm.go translate the `node` methods into functions over one page array
// (`Gen.Node.*`).  This generator translates the methods of `*Tree` on top of them, into the
// `Option` monad (`none` = panic / outside the model) over the flat state `Gen.TreeM.St` of
// RV/GenTreeM.lean (hand-written: the meaning of the constructs below).  What it handles, and
// refuses everything else loudly (`-- UNTRANSLATABLE name: reason`, a broken obligation):
//
//   - the receiver `t *Tree` is a state value that is threaded through the statements; reads of
//     `t.nextPage`, `t.freePage`, `t.stats.NumLeafKeys`, `t.stats.NumPagesFree`, `len(t.data)`;
//     assignments, `op=`, `++/--` to those fields; `t.stats = TreeStats{}`;
//   - values of type `node` / `[]uint64` are `NodeRef`s (windows of `t.data`, epoch-tagged):
//     `getNode(t.data[lo:hi])`, `n[lo:hi]`, `nil`, `x == nil`;
//   - a call of a `node` kernel on such a value (`n.key(i)`, `n.set(k, v)`, `zeroOut(n[a:b])`) is
//     `rdNode` / `wrNode` / `wrNodeR` around the generated `Gen.Node.*` function, in expression
//     position (bound before the statement, in evaluation order) or as a statement;
//     `copy(dst, src)` between node values is `copyRef`;
//   - calls of other translated `*Tree` methods (state in, state out); recursion through an
//     explicit `fuel : Nat` (a method that calls itself matches on it; every caller passes it on);
//   - `t.buffer.AllocateOffset(e)`, `t.data = t.buffer.Bytes()`, `t.buffer.Reset()`,
//     `Memclr(t.buffer.buf)`: the four primitives of RV/GenTreeM.lean;
//   - parameters of function type: `func(node)` is a callback that gets and returns the state
//     plus a state `κ` of its own (what a closure captures and assigns); `func(k, v uint64) uint64`
//     is a pure function; a function literal passed as such an argument is translated in place;
//   - `if init; cond {}`, `for i := a; i < b; i++ {}` (invariant bound: `Gen.forRange`; a bound that
//     is re-evaluated: `Gen.TreeM.forDyn`) with `return` / `continue` / `break`; loop bodies become
//     definitions of their own (`<fn>_loop<k>`); a recursive call inside a loop body goes through
//     the parameter `self_`;
//   - `TreeStats{…}` literals (the float64 field `Occupancy` is dropped, with a comment);
//   - `pageSize`, `maxKeys` (package variables) are parameters of every function.
//
// Scalar expressions go through main.go's `ctx.expr` (hooked for the sub-expressions bound here).

import (
	"fmt"
	"go/ast"
	"go/token"
	"go/types"
	"sort"
	"strings"
)

func init() {
	extras["TreeM"] = genTreeM
	extraImports["TreeM"] = []string{"RV.GenTreeM", "RV.Gen.Node", "RV.Gen.Tree"}
}

// methods of *Tree, callees first
var tmOrder = []string{
	"node", "newNode", "split", "set", "Set", "get", "Get", "compact", "DeleteBelow",
	"iterate", "Iterate", "IterateKV", "initRootNode", "Reset", "Stats", "reinit",
}

// functions of btree.go that are deliberately not translated
var tmSkipped = [][2]string{
	{"NewTree", "constructs the Buffer (allocator, tags): the initial state is built by hand (Drive/TreeM.lean: `Reset` on an empty 1 MiB buffer)"},
	{"NewTreePersistent", "opens / maps a file (package os, Buffer internals): hand-written in Drive/TreeM.lean on top of the generated `initRootNode` / `reinit`"},
	{"Tree.Close", "releases the buffer (munmap / free): no tree logic"},
	{"BytesToUint64Slice", "unsafe cast through reflect.SliceHeader: primitive `Gen.TreeM.getNode`"},
	{"getNode", "wrapper of BytesToUint64Slice: primitive `Gen.TreeM.getNode`"},
	{"Tree.print", "fmt / strings (debug output)"},
	{"Tree.Print", "fmt / strings (debug output)"},
	{"node.print", "fmt / strings (debug output)"},
	{"Tree.shareWithSiblingXXX", "dead code (never called)"},
}

var tmFields = map[string]string{
	"nextPage":           "nextPage",
	"freePage":           "freePage",
	"stats.NumLeafKeys":  "numLeafKeys",
	"stats.NumPagesFree": "numPagesFree",
}

var tmStatsFields = map[string]string{
	"Allocated": "allocated", "Bytes": "bytes", "NumLeafKeys": "numLeafKeys",
	"NumPages": "numPages", "NumPagesFree": "numPagesFree", "PageSize": "pageSize",
}

type tmParam struct {
	name string
	kind int // 0 scalar, 1 node, 2 node callback, 3 pure callback
	ty   string
	obj  types.Object
}

type tmFunc struct {
	goName, lean string
	fd           *ast.FuncDecl
	mut          bool
	fuel         bool
	recur        bool
	hasK         bool
	params       []tmParam
	resTys       []string
	resNode      []bool
}

// resultType: the Lean type inside Option
func (f *tmFunc) resultType() string {
	parts := []string{}
	if f.mut {
		parts = append(parts, "St")
	}
	if f.hasK {
		parts = append(parts, "κ")
	}
	parts = append(parts, f.resTys...)
	return tmProd(parts)
}

func tmProd(parts []string) string {
	if len(parts) == 0 {
		return "Unit"
	}
	if len(parts) == 1 {
		return parts[0]
	}
	return "(" + strings.Join(parts, " × ") + ")"
}

const tmCbTy = "(St → κ → NodeRef → Option (St × κ))"

// selfType: the type of the function after `pageSize maxKeys fuel`
func (f *tmFunc) selfType() string {
	parts := []string{"St"}
	if f.hasK {
		parts = append(parts, "κ")
	}
	for _, p := range f.params {
		parts = append(parts, p.ty)
	}
	return strings.Join(parts, " → ") + " → Option " + nfAtom(f.resultType())
}

type tmGen struct {
	pi    *pkgInfo
	funcs map[string]*tmFunc
}

func genTreeM(load func(string) *pkgInfo) (string, error) {
	pi := load("z")
	g := &tmGen{pi: pi, funcs: map[string]*tmFunc{}}
	if err := g.checkStruct(); err != nil {
		return "", err
	}
	var b strings.Builder
	b.WriteString("set_option linter.unusedVariables false\n\n")
	for _, name := range tmOrder {
		txt, err := g.translate(name)
		if err != nil {
			msg := strings.ReplaceAll(err.Error(), "\n", " ")
			extraFailed = append(extraFailed, fmt.Sprintf("TreeM.%s: %s", name, msg))
			fmt.Fprintf(&b, "-- UNTRANSLATABLE %s: %s\n\n", name, msg)
			continue
		}
		b.WriteString(txt)
		b.WriteString("\n")
	}
	for _, s := range tmSkipped {
		fmt.Fprintf(&b, "-- NOT TRANSLATED (by design) z.%s: %s\n", s[0], s[1])
	}
	return b.String(), nil
}

// checkStruct: the hand-written `St` mirrors `type Tree struct`; a change of the struct must be
// looked at by a human.
func (g *tmGen) checkStruct() error {
	obj := g.pi.pkg.Scope().Lookup("Tree")
	if obj == nil {
		return fmt.Errorf("type Tree not found")
	}
	st, ok := obj.Type().Underlying().(*types.Struct)
	if !ok {
		return fmt.Errorf("Tree is not a struct")
	}
	want := []string{"buffer *Buffer", "data []byte", "nextPage uint64", "freePage uint64", "stats TreeStats"}
	got := []string{}
	for i := 0; i < st.NumFields(); i++ {
		f := st.Field(i)
		got = append(got, f.Name()+" "+types.TypeString(f.Type(), func(p *types.Package) string { return "" }))
	}
	if strings.Join(got, "; ") != strings.Join(want, "; ") {
		return fmt.Errorf("struct Tree changed: fields are {%s}, Gen.TreeM.St was written for {%s}", strings.Join(got, "; "), strings.Join(want, "; "))
	}
	return nil
}

// ---------------------------------------------------------------- context

type tmName struct{ name, ty string }

type tmCtx struct {
	*ctx
	g        *tmGen
	f        *tmFunc
	recv     types.Object
	st       string
	k        string
	kTy      string
	curMut   bool
	curHasK  bool
	resTy    string
	subst    map[ast.Expr]substVal
	names    []tmName
	cbNode   map[types.Object]string // node callback parameter -> Lean name
	cbPure   map[types.Object]string
	retWrap  func(v string) string
	contK    func() string
	brkK     func() string
	aux      []string
	nloops   int
	inAux    int
	usesSelf bool
	stats    map[types.Object]map[string]string // TreeStats locals: field -> Lean value name
	closureK func() string                      // inside a function literal: the captured locals as the callback state
	localArr map[types.Object]string            // locals made by `make`: Lean element type
}

func (m *tmCtx) intro(name, ty string) string {
	m.names = append(m.names, tmName{name, ty})
	return name
}

func (m *tmCtx) fresh(base, ty string) string { return m.intro(m.freshName(base), ty) }

func (m *tmCtx) hookFn(e ast.Expr) (string, lty, bool, error) {
	if r, ok := m.subst[e]; ok {
		return r.text, r.ty, true, nil
	}
	return "", lty{}, false, nil
}

func (m *tmCtx) bind(b *strings.Builder, ind, term, pat string) {
	fmt.Fprintf(b, "%s(%s).bind fun %s =>\n", ind, term, pat)
}

func (m *tmCtx) objOf(id *ast.Ident) types.Object {
	if o := m.pi.info.Uses[id]; o != nil {
		return o
	}
	return m.pi.info.Defs[id]
}

func tmIsNodeType(t types.Type) bool {
	if t == nil {
		return false
	}
	if n, ok := t.(*types.Named); ok && n.Obj().Name() == "node" {
		return true
	}
	if s, ok := t.Underlying().(*types.Slice); ok {
		if b, ok := s.Elem().Underlying().(*types.Basic); ok && b.Kind() == types.Uint64 {
			return true
		}
	}
	return false
}

func tmIsStatsType(t types.Type) bool {
	n, ok := t.(*types.Named)
	return ok && n.Obj().Name() == "TreeStats"
}

func (m *tmCtx) isNodeVar(obj types.Object) bool {
	if _, ok := m.localArr[obj]; ok {
		return false
	}
	return tmIsNodeType(obj.Type())
}

func (m *tmCtx) varTy(obj types.Object) (string, error) {
	if el, ok := m.localArr[obj]; ok {
		return "Array " + nfAtom(el), nil
	}
	if tmIsNodeType(obj.Type()) {
		return "NodeRef", nil
	}
	t, err := leanType(obj.Type())
	if err != nil {
		return "", err
	}
	return t.lean(), nil
}

func (m *tmCtx) isRecv(e ast.Expr) bool {
	id, ok := unparen(e).(*ast.Ident)
	return ok && m.objOf(id) == m.recv
}

// fieldPath: `t.nextPage` -> "nextPage", `t.stats.NumLeafKeys` -> "stats.NumLeafKeys"
func (m *tmCtx) fieldPath(e ast.Expr) (string, bool) {
	sel, ok := unparen(e).(*ast.SelectorExpr)
	if !ok {
		return "", false
	}
	if m.isRecv(sel.X) {
		return sel.Sel.Name, true
	}
	if p, ok := m.fieldPath(sel.X); ok {
		return p + "." + sel.Sel.Name, true
	}
	return "", false
}

func (m *tmCtx) isDataLen(x *ast.CallExpr) bool {
	id, ok := x.Fun.(*ast.Ident)
	if !ok || id.Name != "len" || len(x.Args) != 1 {
		return false
	}
	p, ok := m.fieldPath(x.Args[0])
	return ok && p == "data"
}

// ---------------------------------------------------------------- calls

// kernelOf: a call of a generated `node` kernel; recv is the node-valued receiver (methods) or
// the single slice argument (package functions such as zeroOut).
func (m *tmCtx) kernelOf(x *ast.CallExpr) (*nfFunc, ast.Expr, []ast.Expr) {
	switch f := x.Fun.(type) {
	case *ast.Ident:
		if mf, ok := nfFuncs[f.Name]; ok && !mf.window {
			if _, isFn := m.pi.info.Uses[f].(*types.Func); isFn && len(x.Args) >= 1 {
				if tv, ok := m.pi.info.Types[x.Args[0]]; ok && tmIsNodeType(tv.Type) {
					return mf, x.Args[0], x.Args[1:]
				}
			}
		}
	case *ast.SelectorExpr:
		if sel, ok := m.pi.info.Selections[f]; ok {
			if fn, ok := sel.Obj().(*types.Func); ok {
				if n, ok := sel.Recv().(*types.Named); ok && n.Obj().Name() == "node" {
					if mf, ok := nfFuncs["node."+fn.Name()]; ok && !mf.window {
						return mf, f.X, x.Args
					}
				}
			}
		}
	}
	return nil, nil, nil
}

func (m *tmCtx) treeCallee(x *ast.CallExpr) *tmFunc {
	sel, ok := x.Fun.(*ast.SelectorExpr)
	if !ok || !m.isRecv(sel.X) {
		return nil
	}
	return m.g.funcs[sel.Sel.Name]
}

// bufferCall: "AllocateOffset", "Reset", "Bytes" for `t.buffer.X(…)`; "Memclr" for `Memclr(t.buffer.buf)`
func (m *tmCtx) bufferCall(x *ast.CallExpr) string {
	if sel, ok := x.Fun.(*ast.SelectorExpr); ok {
		if p, ok := m.fieldPath(sel.X); ok && p == "buffer" {
			return sel.Sel.Name
		}
	}
	if id, ok := x.Fun.(*ast.Ident); ok && id.Name == "Memclr" && len(x.Args) == 1 {
		if p, ok := m.fieldPath(x.Args[0]); ok && p == "buffer.buf" {
			return "Memclr"
		}
	}
	return ""
}

func (m *tmCtx) cbOf(x *ast.CallExpr) (string, int) {
	id, ok := x.Fun.(*ast.Ident)
	if !ok {
		return "", 0
	}
	obj := m.pi.info.Uses[id]
	if n, ok := m.cbNode[obj]; ok {
		return n, 2
	}
	if n, ok := m.cbPure[obj]; ok {
		return n, 3
	}
	return "", 0
}

// nodeValue renders a node-valued expression (binding what has to be evaluated).
func (m *tmCtx) nodeValue(e ast.Expr, ind string, b *strings.Builder) (string, error) {
	e = unparen(e)
	switch x := e.(type) {
	case *ast.Ident:
		if x.Name == "nil" {
			return "NodeRef.nil", nil
		}
		obj := m.objOf(x)
		if n, ok := m.env[obj]; ok && m.isNodeVar(obj) {
			return n, nil
		}
		return "", fmt.Errorf("node value %s is not a local of the function", x.Name)
	case *ast.SliceExpr:
		if x.Slice3 {
			return "", fmt.Errorf("3-index slice outside the subset")
		}
		base, err := m.nodeValue(x.X, ind, b)
		if err != nil {
			return "", err
		}
		lo, hi := "0#64", "(Gen.TreeM.refLen "+base+")"
		if x.Low != nil {
			s, _, err := m.value(x.Low, ind, b)
			if err != nil {
				return "", err
			}
			lo = nfAtom(s)
		}
		if x.High != nil {
			s, _, err := m.value(x.High, ind, b)
			if err != nil {
				return "", err
			}
			hi = nfAtom(s)
		}
		w := m.fresh("w", "NodeRef")
		m.bind(b, ind, fmt.Sprintf("Gen.TreeM.sub %s %s %s", base, lo, hi), w)
		return w, nil
	case *ast.CallExpr:
		// getNode(t.data[lo:hi])
		if id, ok := x.Fun.(*ast.Ident); ok && id.Name == "getNode" && len(x.Args) == 1 {
			sl, ok := unparen(x.Args[0]).(*ast.SliceExpr)
			if ok && !sl.Slice3 && sl.Low != nil && sl.High != nil {
				if p, ok := m.fieldPath(sl.X); ok && p == "data" {
					lo, _, err := m.value(sl.Low, ind, b)
					if err != nil {
						return "", err
					}
					hi, _, err := m.value(sl.High, ind, b)
					if err != nil {
						return "", err
					}
					w := m.fresh("w", "NodeRef")
					m.bind(b, ind, fmt.Sprintf("Gen.TreeM.getNode %s %s %s", m.st, nfAtom(lo), nfAtom(hi)), w)
					return w, nil
				}
			}
			return "", fmt.Errorf("getNode argument %q outside the subset (want t.data[lo:hi])", m.pi.src(x.Args[0]))
		}
		if cf := m.treeCallee(x); cf != nil {
			if len(cf.resNode) != 1 || !cf.resNode[0] {
				return "", fmt.Errorf("call %q does not return one node", m.pi.src(x))
			}
			res, err := m.hoistTreeCall(cf, x, ind, b, false)
			if err != nil {
				return "", err
			}
			return res[0], nil
		}
	}
	return "", fmt.Errorf("node-valued expression %q outside the subset", m.pi.src(e))
}

// kernelApp: `fun p => Gen.Node.f p needs… args…`
func (m *tmCtx) kernelApp(mf *nfFunc, args []ast.Expr, ind string, b *strings.Builder) (string, error) {
	parts := []string{mf.lean, "p"}
	for _, nd := range mf.needs {
		if nd != "maxKeys" && nd != "pageSize" {
			return "", fmt.Errorf("kernel %s needs %s", mf.lean, nd)
		}
		parts = append(parts, nd)
	}
	for _, a := range args {
		if tv, ok := m.pi.info.Types[a]; ok && tv.Type != nil {
			if _, isSig := tv.Type.Underlying().(*types.Signature); isSig || tmIsNodeType(tv.Type) {
				return "", fmt.Errorf("argument %q of a node kernel outside the subset", m.pi.src(a))
			}
		}
		s, _, err := m.value(a, ind, b)
		if err != nil {
			return "", err
		}
		parts = append(parts, nfAtom(s))
	}
	return "(fun p => " + strings.Join(parts, " ") + ")", nil
}

// hoistKernel binds a kernel call; returns the name of its (single) result ("" if discarded / none).
func (m *tmCtx) hoistKernel(mf *nfFunc, recv ast.Expr, args []ast.Expr, x *ast.CallExpr, ind string, b *strings.Builder, discard bool) (string, error) {
	rn, err := m.nodeValue(recv, ind, b)
	if err != nil {
		return "", err
	}
	app, err := m.kernelApp(mf, args, ind, b)
	if err != nil {
		return "", err
	}
	if mf.nres > 1 {
		return "", fmt.Errorf("kernel %s has several results", mf.lean)
	}
	resTy := "BitVec 64"
	if mf.nres == 1 {
		tv := m.pi.info.Types[x]
		t, err := leanType(tv.Type)
		if err != nil {
			return "", err
		}
		resTy = t.lean()
	}
	switch {
	case !mf.mutates:
		pat := "_"
		res := ""
		if mf.nres == 1 && !discard {
			res = m.fresh("x", resTy)
			pat = res
		}
		m.bind(b, ind, fmt.Sprintf("Gen.TreeM.rdNode %s %s %s", m.st, rn, app), pat)
		return res, nil
	case mf.nres == 0:
		nt := m.fresh("t", "St")
		m.bind(b, ind, fmt.Sprintf("Gen.TreeM.wrNode %s %s %s", m.st, rn, app), nt)
		m.st = nt
		return "", nil
	default:
		nt := m.fresh("t", "St")
		res := "_"
		if !discard {
			res = m.fresh("x", resTy)
		}
		m.bind(b, ind, fmt.Sprintf("Gen.TreeM.wrNodeR %s %s %s", m.st, rn, app), "("+nt+", "+res+")")
		m.st = nt
		if discard {
			return "", nil
		}
		return res, nil
	}
}

// hoistTreeCall binds a call of a translated *Tree method; returns the names of its results.
func (m *tmCtx) hoistTreeCall(cf *tmFunc, x *ast.CallExpr, ind string, b *strings.Builder, discard bool) ([]string, error) {
	if len(x.Args) != len(cf.params) {
		return nil, fmt.Errorf("arity mismatch in %q", m.pi.src(x))
	}
	args := []string{}
	kArg := ""
	var capObjs []types.Object // closure: captured locals that come back
	for i, p := range cf.params {
		a := x.Args[i]
		switch p.kind {
		case 0:
			s, _, err := m.value(a, ind, b)
			if err != nil {
				return nil, err
			}
			args = append(args, nfAtom(s))
		case 1:
			s, err := m.nodeValue(a, ind, b)
			if err != nil {
				return nil, err
			}
			args = append(args, s)
		case 2:
			switch ax := unparen(a).(type) {
			case *ast.Ident:
				n, ok := m.cbNode[m.objOf(ax)]
				if !ok {
					return nil, fmt.Errorf("callback argument %s is not a callback parameter", ax.Name)
				}
				if m.k == "" {
					return nil, fmt.Errorf("callback %s passed on without a callback state", ax.Name)
				}
				args = append(args, n)
				kArg = m.k
			case *ast.FuncLit:
				txt, init, objs, err := m.closure(ax, ind)
				if err != nil {
					return nil, err
				}
				args = append(args, txt)
				kArg = init
				capObjs = objs
				if capObjs == nil {
					capObjs = []types.Object{}
				}
			default:
				return nil, fmt.Errorf("callback argument %q outside the subset", m.pi.src(a))
			}
		case 3:
			ax, ok := unparen(a).(*ast.Ident)
			if !ok {
				return nil, fmt.Errorf("function argument %q outside the subset", m.pi.src(a))
			}
			n, ok := m.cbPure[m.objOf(ax)]
			if !ok {
				return nil, fmt.Errorf("function argument %s is not a function parameter", ax.Name)
			}
			args = append(args, n)
		}
	}
	head := cf.lean + " pageSize maxKeys"
	if cf.fuel {
		if !m.f.fuel {
			return nil, fmt.Errorf("internal: caller of %s has no fuel", cf.goName)
		}
		head += " fuel"
	}
	if cf == m.f && m.inAux > 0 {
		head = "self_"
		m.usesSelf = true
	}
	parts := []string{head, m.st}
	if cf.hasK {
		parts = append(parts, nfAtom(kArg))
	}
	parts = append(parts, args...)
	pats := []string{}
	newSt := ""
	if cf.mut {
		newSt = m.fresh("t", "St")
		pats = append(pats, newSt)
	}
	newK := ""
	if cf.hasK {
		if capObjs != nil {
			ks := []string{}
			for _, o := range capObjs {
				ty, _ := m.varTy(o)
				ks = append(ks, m.fresh(o.Name(), ty))
			}
			if len(ks) == 0 {
				newK = "_"
			} else {
				newK = tuple(ks)
			}
			defer func() {
				for i, o := range capObjs {
					m.env[o] = ks[i]
				}
			}()
		} else {
			newK = m.fresh("c", m.kTy)
			defer func() { m.k = newK }()
		}
		pats = append(pats, newK)
	}
	res := []string{}
	for i, ty := range cf.resTys {
		if discard {
			pats = append(pats, "_")
			continue
		}
		base := "x"
		if cf.resNode[i] {
			base = "w"
		}
		r := m.fresh(base, ty)
		res = append(res, r)
		pats = append(pats, r)
	}
	pat := "_"
	if len(pats) == 1 {
		pat = pats[0]
	} else if len(pats) > 1 {
		pat = "(" + strings.Join(pats, ", ") + ")"
	}
	m.bind(b, ind, strings.Join(parts, " "), pat)
	if newSt != "" {
		m.st = newSt
	}
	return res, nil
}

// closure translates a function literal `func(n node) { … }` passed as a node callback.
// Returns the Lean lambda, the initial callback state and the captured locals it assigns.
func (m *tmCtx) closure(fl *ast.FuncLit, ind string) (string, string, []types.Object, error) {
	if fl.Type.Results != nil && len(fl.Type.Results.List) > 0 {
		return "", "", nil, fmt.Errorf("function literal with results outside the subset")
	}
	if len(fl.Type.Params.List) != 1 || len(fl.Type.Params.List[0].Names) != 1 {
		return "", "", nil, fmt.Errorf("function literal: want one parameter of type node")
	}
	pid := fl.Type.Params.List[0].Names[0]
	pobj := m.pi.info.Defs[pid]
	if !tmIsNodeType(pobj.Type()) {
		return "", "", nil, fmt.Errorf("function literal: want one parameter of type node")
	}
	// captured locals that the body assigns
	eff := m.effects(fl.Body.List)
	var caps []types.Object
	for o := range eff.objs {
		if _, ok := m.env[o]; ok {
			caps = append(caps, o)
		}
	}
	sort.Slice(caps, func(i, j int) bool { return caps[i].Pos() < caps[j].Pos() })
	initNames := []string{}
	capTys := []string{}
	for _, o := range caps {
		initNames = append(initNames, m.env[o])
		ty, err := m.varTy(o)
		if err != nil {
			return "", "", nil, err
		}
		capTys = append(capTys, ty)
	}
	init := "()"
	if len(caps) > 0 {
		init = tuple(initNames)
	}
	// translate the body in a nested frame
	saved := m.saveEnv()
	oSt, oK, oKTy, oMut, oHasK, oRes := m.st, m.k, m.kTy, m.curMut, m.curHasK, m.resTy
	oRet, oCont, oBrk, oInAux := m.retWrap, m.contK, m.brkK, m.inAux
	cTy := tmProd(capTys)
	m.kTy = cTy
	m.curMut, m.curHasK = true, true
	m.resTy = "(St × " + cTy + ")"
	m.st = m.fresh("t", "St")
	stParam := m.st
	inner := []string{}
	for i, o := range caps {
		n := m.fresh(o.Name(), capTys[i])
		inner = append(inner, n)
		m.env[o] = n
	}
	kPat := "_"
	if len(inner) > 0 {
		kPat = tuple(inner)
	}
	pname := m.fresh(pid.Name, "NodeRef")
	m.env[pobj] = pname
	capsNow := func() string {
		if len(caps) == 0 {
			return "()"
		}
		ns := []string{}
		for _, o := range caps {
			ns = append(ns, m.env[o])
		}
		return tuple(ns)
	}
	m.k = "" // rendered through capsNow
	m.retWrap = func(v string) string { return "some " + nfAtom(v) }
	m.contK, m.brkK = nil, nil
	savedRetParts := m.closureK
	m.closureK = capsNow
	body, err := m.blockM(fl.Body.List, ind+"    ", func() (string, error) {
		return ind + "    " + m.retWrap(m.retVal(nil)), nil
	})
	m.closureK = savedRetParts
	m.restoreEnv(saved)
	m.st, m.k, m.kTy, m.curMut, m.curHasK, m.resTy = oSt, oK, oKTy, oMut, oHasK, oRes
	m.retWrap, m.contK, m.brkK, m.inAux = oRet, oCont, oBrk, oInAux
	if err != nil {
		return "", "", nil, err
	}
	txt := fmt.Sprintf("(fun (%s : St) (%s : %s) (%s : NodeRef) =>\n%s)", stParam, kPatName(kPat), cTy, pname, body)
	if kPat != "_" && strings.HasPrefix(kPat, "(") {
		// a tuple pattern needs a match
		txt = fmt.Sprintf("(fun (%s : St) (c_ : %s) (%s : NodeRef) =>\n%s    match c_ with\n%s    | %s =>\n%s)", stParam, cTy, pname, ind, ind, kPat, body)
	}
	return txt, init, caps, nil
}

func kPatName(p string) string {
	if p == "_" {
		return "_"
	}
	return p
}

// ---------------------------------------------------------------- expressions

// effectful: does evaluating e bind anything (kernel / tree call, field read, …)?
func (m *tmCtx) readsState(e ast.Expr) bool {
	found := false
	ast.Inspect(e, func(n ast.Node) bool {
		if found {
			return false
		}
		switch x := n.(type) {
		case *ast.CallExpr:
			if mf, _, _ := m.kernelOf(x); mf != nil {
				found = true
			}
			if m.treeCallee(x) != nil {
				found = true
			}
		}
		return !found
	})
	return found
}

func (m *tmCtx) mutatesInExpr(e ast.Expr) bool {
	found := false
	ast.Inspect(e, func(n ast.Node) bool {
		if x, ok := n.(*ast.CallExpr); ok {
			if mf, _, _ := m.kernelOf(x); mf != nil && mf.mutates {
				found = true
			}
			if cf := m.treeCallee(x); cf != nil && cf.mut {
				found = true
			}
		}
		return !found
	})
	return found
}

func (m *tmCtx) hoist(e ast.Expr, ind string, b *strings.Builder) error {
	if e == nil {
		return nil
	}
	if _, done := m.subst[e]; done {
		return nil
	}
	if tv, ok := m.pi.info.Types[e]; ok && tv.Value != nil {
		return nil
	}
	switch x := e.(type) {
	case *ast.ParenExpr:
		return m.hoist(x.X, ind, b)
	case *ast.BasicLit:
		return nil
	case *ast.Ident:
		obj := m.pi.info.Uses[x]
		if v, ok := obj.(*types.Var); ok && v.Parent() == m.pi.pkg.Scope() {
			if _, _, err := m.ctx.pkgVar(v); err != nil {
				if x.Name != "pageSize" && x.Name != "maxKeys" {
					return fmt.Errorf("package variable %s outside the subset", x.Name)
				}
				t, err := leanType(v.Type())
				if err != nil {
					return err
				}
				m.subst[x] = substVal{x.Name, t}
			}
		}
		return nil
	case *ast.UnaryExpr:
		return m.hoist(x.X, ind, b)
	case *ast.BinaryExpr:
		// comparison with nil
		if x.Op == token.EQL || x.Op == token.NEQ {
			var other ast.Expr
			if isNilIdent(x.Y) {
				other = x.X
			} else if isNilIdent(x.X) {
				other = x.Y
			}
			if other != nil {
				n, err := m.nodeValue(other, ind, b)
				if err != nil {
					return err
				}
				txt := "(Gen.TreeM.isNil " + n + ")"
				if x.Op == token.NEQ {
					txt = "(!" + txt + ")"
				}
				m.subst[x] = substVal{txt, lty{kind: "bool"}}
				return nil
			}
		}
		if (x.Op == token.LAND || x.Op == token.LOR) && m.readsState(x.Y) {
			if m.mutatesInExpr(x.Y) {
				return fmt.Errorf("right operand of %s writes memory: outside the subset", x.Op)
			}
			if err := m.hoist(x.X, ind, b); err != nil {
				return err
			}
			a, _, err := m.expr(x.X)
			if err != nil {
				return err
			}
			var inner strings.Builder
			if err := m.hoist(x.Y, ind+"    ", &inner); err != nil {
				return err
			}
			y, _, err := m.expr(x.Y)
			if err != nil {
				return err
			}
			t := m.fresh("c", "Bool")
			if x.Op == token.LAND {
				fmt.Fprintf(b, "%s(if %s then\n%s%s    some %s\n%s  else some false).bind fun %s =>\n", ind, a, inner.String(), ind, nfAtom(y), ind, t)
			} else {
				fmt.Fprintf(b, "%s(if %s then some true\n%s  else\n%s%s    some %s).bind fun %s =>\n", ind, a, ind, inner.String(), ind, nfAtom(y), t)
			}
			m.subst[x] = substVal{t, lty{kind: "bool"}}
			return nil
		}
		if err := m.hoist(x.X, ind, b); err != nil {
			return err
		}
		return m.hoist(x.Y, ind, b)
	case *ast.SelectorExpr:
		if p, ok := m.fieldPath(x); ok {
			lf, ok := tmFields[p]
			if !ok {
				return fmt.Errorf("field t.%s outside the subset", p)
			}
			tv := m.pi.info.Types[x]
			t, err := leanType(tv.Type)
			if err != nil {
				return err
			}
			// bound by a `let`, so that a kernel lambda that mentions it captures the number, not the state
			nm := m.fresh(sanitize(lf), t.lean())
			fmt.Fprintf(b, "%slet %s : %s := %s.%s\n", ind, nm, t.lean(), m.st, lf)
			m.subst[x] = substVal{nm, t}
			return nil
		}
		// field of a TreeStats local
		if id, ok := x.X.(*ast.Ident); ok {
			if fs, ok := m.stats[m.objOf(id)]; ok {
				v, ok := fs[x.Sel.Name]
				if !ok {
					return fmt.Errorf("field %s of %s outside the subset", x.Sel.Name, id.Name)
				}
				tv := m.pi.info.Types[x]
				t, err := leanType(tv.Type)
				if err != nil {
					return err
				}
				m.subst[x] = substVal{v, t}
				return nil
			}
		}
		return fmt.Errorf("selector %q outside the subset", m.pi.src(x))
	case *ast.CallExpr:
		if tvf, ok := m.pi.info.Types[x.Fun]; ok && tvf.IsType() && len(x.Args) == 1 {
			return m.hoist(x.Args[0], ind, b)
		}
		if m.isDataLen(x) {
			m.subst[x] = substVal{"(Gen.TreeM.dataLen " + m.st + ")", lty{"bv", 64, true}}
			return nil
		}
		if id, ok := x.Fun.(*ast.Ident); ok && id.Name == "len" && len(x.Args) == 1 {
			n, err := m.nodeValue(x.Args[0], ind, b)
			if err != nil {
				return err
			}
			m.subst[x] = substVal{"(Gen.TreeM.refLen " + n + ")", lty{"bv", 64, true}}
			return nil
		}
		if mf, recv, args := m.kernelOf(x); mf != nil {
			if mf.nres != 1 {
				return fmt.Errorf("call %q in expression position must have one result", m.pi.src(x))
			}
			res, err := m.hoistKernel(mf, recv, args, x, ind, b, false)
			if err != nil {
				return err
			}
			t, err := leanType(m.pi.info.Types[x].Type)
			if err != nil {
				return err
			}
			m.subst[x] = substVal{res, t}
			return nil
		}
		if cf := m.treeCallee(x); cf != nil {
			if len(cf.resTys) != 1 || cf.resNode[0] {
				return fmt.Errorf("call %q in scalar position must have one scalar result", m.pi.src(x))
			}
			res, err := m.hoistTreeCall(cf, x, ind, b, false)
			if err != nil {
				return err
			}
			t, err := leanType(m.pi.info.Types[x].Type)
			if err != nil {
				return err
			}
			m.subst[x] = substVal{res[0], t}
			return nil
		}
		if n, kind := m.cbOf(x); kind == 3 {
			parts := []string{n}
			for _, a := range x.Args {
				s, _, err := m.value(a, ind, b)
				if err != nil {
					return err
				}
				parts = append(parts, nfAtom(s))
			}
			t, err := leanType(m.pi.info.Types[x].Type)
			if err != nil {
				return err
			}
			m.subst[x] = substVal{"(" + strings.Join(parts, " ") + ")", t}
			return nil
		}
		if id, ok := x.Fun.(*ast.Ident); ok {
			if _, ok := funcLeanNames[id.Name]; ok {
				for _, a := range x.Args {
					if err := m.hoist(a, ind, b); err != nil {
						return err
					}
				}
				return nil
			}
		}
		return fmt.Errorf("call %q outside the subset", m.pi.src(x))
	}
	return fmt.Errorf("expression %q outside the subset", m.pi.src(e))
}

func (m *tmCtx) value(e ast.Expr, ind string, b *strings.Builder) (string, lty, error) {
	if err := m.hoist(e, ind, b); err != nil {
		return "", lty{}, err
	}
	return m.expr(e)
}

// ---------------------------------------------------------------- effects of a statement list

type tmEff struct {
	objs assignSet
	st   bool
	k    bool
}

func (m *tmCtx) effects(stmts []ast.Stmt) tmEff {
	e := tmEff{objs: assignSet{}}
	lhs := func(l ast.Expr, define bool) {
		l = unparen(l)
		if _, ok := m.fieldPath(l); ok {
			e.st = true
			return
		}
		if id, ok := l.(*ast.Ident); ok && !define {
			if o := m.pi.info.Uses[id]; o != nil {
				e.objs[o] = true
			}
		}
		if ix, ok := l.(*ast.IndexExpr); ok {
			if id, ok := ix.X.(*ast.Ident); ok {
				if o := m.pi.info.Uses[id]; o != nil {
					e.objs[o] = true
				}
			}
		}
	}
	for _, s := range stmts {
		ast.Inspect(s, func(n ast.Node) bool {
			switch x := n.(type) {
			case *ast.AssignStmt:
				for _, l := range x.Lhs {
					lhs(l, x.Tok == token.DEFINE)
				}
			case *ast.IncDecStmt:
				lhs(x.X, false)
			case *ast.CallExpr:
				if mf, _, _ := m.kernelOf(x); mf != nil && mf.mutates {
					e.st = true
				}
				if cf := m.treeCallee(x); cf != nil {
					if cf.mut {
						e.st = true
					}
					if cf.hasK {
						e.k = true
					}
				}
				if m.bufferCall(x) != "" {
					e.st = true
				}
				if id, ok := x.Fun.(*ast.Ident); ok && id.Name == "copy" {
					e.st = true
				}
				if _, kind := m.cbOf(x); kind == 2 {
					e.st, e.k = true, true
				}
			}
			return true
		})
	}
	return e
}

// threaded: the names of the variables a join / loop carries, in a fixed order.
type tmThread struct {
	st, k bool
	objs  []types.Object
}

func (m *tmCtx) thread(e tmEff) tmThread {
	th := tmThread{st: e.st && m.curMut, k: e.k && m.curHasK && m.closureK == nil}
	if e.k && m.closureK != nil {
		// inside a closure the callback state is the tuple of captured locals: they are in objs
	}
	th.objs = sortedObjs(m.ctx, e.objs)
	return th
}

func (m *tmCtx) threadNames(th tmThread) []string {
	ns := []string{}
	if th.st {
		ns = append(ns, m.st)
	}
	if th.k {
		ns = append(ns, m.k)
	}
	for _, o := range th.objs {
		ns = append(ns, m.env[o])
	}
	return ns
}

func (m *tmCtx) threadTypes(th tmThread) ([]string, error) {
	ts := []string{}
	if th.st {
		ts = append(ts, "St")
	}
	if th.k {
		ts = append(ts, m.kTy)
	}
	for _, o := range th.objs {
		t, err := m.varTy(o)
		if err != nil {
			return nil, err
		}
		ts = append(ts, t)
	}
	return ts, nil
}

// rebind gives every threaded variable a fresh name and returns the names.
func (m *tmCtx) rebind(th tmThread) []string {
	ns := []string{}
	if th.st {
		m.st = m.fresh("t", "St")
		ns = append(ns, m.st)
	}
	if th.k {
		m.k = m.fresh("c", m.kTy)
		ns = append(ns, m.k)
	}
	for _, o := range th.objs {
		ty, _ := m.varTy(o)
		n := m.fresh(o.Name(), ty)
		m.env[o] = n
		ns = append(ns, n)
	}
	return ns
}

type tmFrame struct {
	env   map[types.Object]string
	st, k string
}

func (m *tmCtx) save() tmFrame { return tmFrame{m.saveEnv(), m.st, m.k} }
func (m *tmCtx) restore(f tmFrame) {
	m.restoreEnv(f.env)
	m.st, m.k = f.st, f.k
}

// retVal: the value of `return results…`
func (m *tmCtx) retVal(results []string) string {
	parts := []string{}
	if m.curMut {
		parts = append(parts, m.st)
	}
	if m.curHasK {
		if m.closureK != nil {
			parts = append(parts, m.closureK())
		} else {
			parts = append(parts, m.k)
		}
	}
	parts = append(parts, results...)
	return tuple(parts)
}

// ---------------------------------------------------------------- statements

func (m *tmCtx) blockM(stmts []ast.Stmt, ind string, k func() (string, error)) (string, error) {
	if len(stmts) == 0 {
		return k()
	}
	st, rest := stmts[0], stmts[1:]
	next := func() (string, error) { return m.blockM(rest, ind, k) }
	var b strings.Builder
	switch x := st.(type) {
	case *ast.EmptyStmt:
		return next()
	case *ast.BlockStmt:
		return m.blockM(append(append([]ast.Stmt{}, x.List...), rest...), ind, k)
	case *ast.ReturnStmt:
		vals := []string{}
		for _, r := range x.Results {
			tv := m.pi.info.Types[r]
			if isNilIdent(unparen(r)) || tmIsNodeType(tv.Type) {
				s, err := m.nodeValue(r, ind, &b)
				if err != nil {
					return "", err
				}
				vals = append(vals, s)
				continue
			}
			if id, ok := unparen(r).(*ast.Ident); ok {
				if fs, ok := m.stats[m.objOf(id)]; ok {
					vals = append(vals, tmStatsLit(fs))
					continue
				}
			}
			s, _, err := m.value(r, ind, &b)
			if err != nil {
				return "", err
			}
			vals = append(vals, s)
		}
		return b.String() + ind + m.retWrap(m.retVal(vals)), nil
	case *ast.BranchStmt:
		if x.Label != nil {
			return "", fmt.Errorf("labelled %s outside the subset", x.Tok)
		}
		switch x.Tok {
		case token.CONTINUE:
			if m.contK != nil {
				return ind + m.contK(), nil
			}
		case token.BREAK:
			if m.brkK != nil {
				return ind + m.brkK(), nil
			}
		}
		return "", fmt.Errorf("%s outside a loop / outside the subset", x.Tok)
	case *ast.DeclStmt:
		gd := x.Decl.(*ast.GenDecl)
		for _, sp := range gd.Specs {
			vs, ok := sp.(*ast.ValueSpec)
			if !ok {
				return "", fmt.Errorf("declaration outside the subset")
			}
			for i, n := range vs.Names {
				obj := m.pi.info.Defs[n]
				if i < len(vs.Values) {
					if err := m.defineVar(obj, n.Name, vs.Values[i], ind, &b); err != nil {
						return "", err
					}
					continue
				}
				t, err := leanType(obj.Type())
				if err != nil || tmIsNodeType(obj.Type()) {
					return "", fmt.Errorf("zero value of %s outside the subset", obj.Type())
				}
				val := "false"
				if t.kind == "bv" {
					val = fmt.Sprintf("0#%d", t.w)
				} else if t.kind != "bool" {
					return "", fmt.Errorf("zero value of %s outside the subset", obj.Type())
				}
				nm := m.fresh(n.Name, t.lean())
				fmt.Fprintf(&b, "%slet %s : %s := %s\n", ind, nm, t.lean(), val)
				m.env[obj] = nm
			}
		}
		r, err := next()
		return b.String() + r, err
	case *ast.AssignStmt:
		if err := m.assignM(x, ind, &b); err != nil {
			return "", err
		}
		r, err := next()
		return b.String() + r, err
	case *ast.IncDecStmt:
		op := token.ADD_ASSIGN
		if x.Tok == token.DEC {
			op = token.SUB_ASSIGN
		}
		if err := m.opAssign(x.X, op, nil, ind, &b); err != nil {
			return "", err
		}
		r, err := next()
		return b.String() + r, err
	case *ast.ExprStmt:
		call, ok := x.X.(*ast.CallExpr)
		if !ok {
			break
		}
		if err := m.callStmt(call, ind, &b); err != nil {
			if err == errPanicStmt {
				return ind + "none", nil
			}
			return "", err
		}
		r, err := next()
		return b.String() + r, err
	case *ast.IfStmt:
		if x.Init != nil {
			x2 := *x
			x2.Init = nil
			return m.blockM(append([]ast.Stmt{x.Init, &x2}, rest...), ind, k)
		}
		return m.ifM(x, ind, next)
	case *ast.ForStmt:
		if x.Init == nil && x.Post == nil && x.Cond != nil {
			return m.whileM(x, ind, next)
		}
		return m.forM(x, ind, next)
	case *ast.RangeStmt:
		return m.rangeM(x, ind, next)
	}
	return "", fmt.Errorf("statement %q outside the subset", firstLine(m.pi.src(st)))
}

var errPanicStmt = fmt.Errorf("panic statement")

func tmStatsLit(fs map[string]string) string {
	keys := []string{}
	for k := range fs {
		keys = append(keys, k)
	}
	sort.Strings(keys)
	parts := []string{}
	for _, k := range keys {
		parts = append(parts, fmt.Sprintf("%s := %s", tmStatsFields[k], fs[k]))
	}
	return "({ " + strings.Join(parts, ", ") + " } : TreeStats)"
}

// defineVar: `name := rhs` / `var name = rhs` / `name = rhs` for a local
func (m *tmCtx) defineVar(obj types.Object, name string, rhs ast.Expr, ind string, b *strings.Builder) error {
	if tmIsStatsType(obj.Type()) {
		cl, ok := unparen(rhs).(*ast.CompositeLit)
		if !ok {
			return fmt.Errorf("TreeStats value %q outside the subset", m.pi.src(rhs))
		}
		fs := map[string]string{}
		for f := range tmStatsFields {
			fs[f] = "0#64"
		}
		for _, el := range cl.Elts {
			kv, ok := el.(*ast.KeyValueExpr)
			if !ok {
				return fmt.Errorf("positional TreeStats literal outside the subset")
			}
			fn := kv.Key.(*ast.Ident).Name
			if _, ok := tmStatsFields[fn]; !ok {
				return fmt.Errorf("field %s in a TreeStats literal outside the subset", fn)
			}
			s, _, err := m.value(kv.Value, ind, b)
			if err != nil {
				return err
			}
			nm := m.fresh(name+"_"+fn, "BitVec 64")
			fmt.Fprintf(b, "%slet %s : BitVec 64 := %s\n", ind, nm, s)
			fs[fn] = nm
		}
		m.stats[obj] = fs
		return nil
	}
	if c, ok := unparen(rhs).(*ast.CallExpr); ok {
		if id, ok := c.Fun.(*ast.Ident); ok && id.Name == "make" && len(c.Args) == 2 {
			sl, ok := m.pi.info.Types[c.Args[0]].Type.Underlying().(*types.Slice)
			if !ok {
				return fmt.Errorf("make of %q outside the subset", m.pi.src(c.Args[0]))
			}
			el, err := leanType(sl.Elem())
			if err != nil || (el.kind != "bv" && el.kind != "bool") {
				return fmt.Errorf("make of %q outside the subset", m.pi.src(c.Args[0]))
			}
			n, _, err := m.value(c.Args[1], ind, b)
			if err != nil {
				return err
			}
			zero := "false"
			if el.kind == "bv" {
				zero = fmt.Sprintf("0#%d", el.w)
			}
			m.localArr[obj] = el.lean()
			ty := "Array " + nfAtom(el.lean())
			nm := m.fresh(name, ty)
			fmt.Fprintf(b, "%slet %s : %s := Array.replicate (%s).toNat %s\n", ind, nm, ty, n, zero)
			m.env[obj] = nm
			return nil
		}
		// x = append(x, v)
		if id, ok := c.Fun.(*ast.Ident); ok && id.Name == "append" && len(c.Args) == 2 {
			a0, ok := unparen(c.Args[0]).(*ast.Ident)
			if !ok || m.objOf(a0) != obj {
				return fmt.Errorf("append %q outside the subset (want x = append(x, v))", m.pi.src(c))
			}
			if _, ok := m.localArr[obj]; !ok {
				return fmt.Errorf("append to %s, which is not a local made by make", name)
			}
			v, _, err := m.value(c.Args[1], ind, b)
			if err != nil {
				return err
			}
			ty, _ := m.varTy(obj)
			nm := m.fresh(name, ty)
			fmt.Fprintf(b, "%slet %s : %s := %s.push %s\n", ind, nm, ty, m.env[obj], nfAtom(v))
			m.env[obj] = nm
			return nil
		}
	}
	if m.isNodeVar(obj) {
		s, err := m.nodeValue(rhs, ind, b)
		if err != nil {
			return err
		}
		nm := m.fresh(name, "NodeRef")
		fmt.Fprintf(b, "%slet %s : NodeRef := %s\n", ind, nm, s)
		m.env[obj] = nm
		return nil
	}
	t, err := leanType(obj.Type())
	if err != nil {
		return err
	}
	var s string
	if tv := m.pi.info.Types[rhs]; tv.Value != nil {
		s, err = constLit(tv.Value, t)
	} else {
		s, _, err = m.value(rhs, ind, b)
	}
	if err != nil {
		return err
	}
	nm := m.fresh(name, t.lean())
	fmt.Fprintf(b, "%slet %s : %s := %s\n", ind, nm, t.lean(), s)
	m.env[obj] = nm
	return nil
}

func (m *tmCtx) assignM(x *ast.AssignStmt, ind string, b *strings.Builder) error {
	if len(x.Lhs) != 1 || len(x.Rhs) != 1 {
		return fmt.Errorf("tuple assignment outside the subset")
	}
	lhs, rhs := unparen(x.Lhs[0]), x.Rhs[0]
	if x.Tok != token.ASSIGN && x.Tok != token.DEFINE {
		return m.opAssign(lhs, x.Tok, rhs, ind, b)
	}
	// t.data = t.buffer.Bytes()
	if p, ok := m.fieldPath(lhs); ok {
		if p == "data" {
			if c, ok := unparen(rhs).(*ast.CallExpr); ok && m.bufferCall(c) == "Bytes" && len(c.Args) == 0 {
				nt := m.fresh("t", "St")
				m.bind(b, ind, "Gen.TreeM.bufBytes "+m.st, nt)
				m.st = nt
				return nil
			}
			return fmt.Errorf("assignment to t.data other than `t.data = t.buffer.Bytes()` outside the subset")
		}
		if p == "stats" {
			if cl, ok := unparen(rhs).(*ast.CompositeLit); ok && len(cl.Elts) == 0 {
				nt := m.fresh("t", "St")
				fmt.Fprintf(b, "%slet %s : St := Gen.TreeM.statsZero %s\n", ind, nt, m.st)
				m.st = nt
				return nil
			}
			return fmt.Errorf("assignment to t.stats other than `TreeStats{}` outside the subset")
		}
		lf, ok := tmFields[p]
		if !ok {
			return fmt.Errorf("assignment to field t.%s outside the subset", p)
		}
		t, err := leanType(m.pi.info.Types[lhs].Type)
		if err != nil {
			return err
		}
		var s string
		if tv := m.pi.info.Types[rhs]; tv.Value != nil {
			s, err = constLit(tv.Value, t)
		} else {
			s, _, err = m.value(rhs, ind, b)
		}
		if err != nil {
			return err
		}
		nt := m.fresh("t", "St")
		fmt.Fprintf(b, "%slet %s : St := { %s with %s := %s }\n", ind, nt, m.st, lf, s)
		m.st = nt
		return nil
	}
	// field of a TreeStats local
	if sel, ok := lhs.(*ast.SelectorExpr); ok {
		if id, ok := sel.X.(*ast.Ident); ok {
			if fs, ok := m.stats[m.objOf(id)]; ok {
				if _, ok := tmStatsFields[sel.Sel.Name]; !ok {
					if b2, ok := m.pi.info.Types[lhs].Type.Underlying().(*types.Basic); ok && b2.Info()&types.IsFloat != 0 {
						fmt.Fprintf(b, "%s-- %s (float64, derived): not translated\n", ind, strings.Join(strings.Fields(m.pi.src(x)), " "))
						return nil
					}
					return fmt.Errorf("field %s outside the subset", sel.Sel.Name)
				}
				s, _, err := m.value(rhs, ind, b)
				if err != nil {
					return err
				}
				nm := m.fresh(id.Name+"_"+sel.Sel.Name, "BitVec 64")
				fmt.Fprintf(b, "%slet %s : BitVec 64 := %s\n", ind, nm, s)
				fs[sel.Sel.Name] = nm
				return nil
			}
		}
	}
	if ix, ok := lhs.(*ast.IndexExpr); ok {
		aid, ok := unparen(ix.X).(*ast.Ident)
		if !ok {
			return fmt.Errorf("indexed assignment target %q outside the subset", m.pi.src(lhs))
		}
		obj := m.objOf(aid)
		if _, ok := m.localArr[obj]; !ok {
			return fmt.Errorf("indexed assignment to %s, which is not a local made by make", aid.Name)
		}
		idx, ti, err := m.value(ix.Index, ind, b)
		if err != nil {
			return err
		}
		if ti.kind != "bv" || ti.w != 64 {
			return fmt.Errorf("index %q is not a 64-bit integer", m.pi.src(ix.Index))
		}
		v, _, err := m.value(rhs, ind, b)
		if err != nil {
			return err
		}
		ty, _ := m.varTy(obj)
		nm := m.fresh(aid.Name, ty)
		m.bind(b, ind, fmt.Sprintf("Gen.wr %s %s %s", m.env[obj], nfAtom(idx), nfAtom(v)), nm)
		m.env[obj] = nm
		return nil
	}
	id, ok := lhs.(*ast.Ident)
	if !ok {
		return fmt.Errorf("assignment target %q outside the subset", m.pi.src(lhs))
	}
	if id.Name == "_" {
		return fmt.Errorf("blank assignment outside the subset")
	}
	obj := m.objOf(id)
	if obj == nil {
		return fmt.Errorf("unresolved %s", id.Name)
	}
	return m.defineVar(obj, id.Name, rhs, ind, b)
}

// opAssign: `lhs op= rhs`; rhs == nil for `lhs++` / `lhs--` (op ADD_ASSIGN / SUB_ASSIGN)
func (m *tmCtx) opAssign(lhs ast.Expr, tok token.Token, rhs ast.Expr, ind string, b *strings.Builder) error {
	ops := map[token.Token]token.Token{
		token.ADD_ASSIGN: token.ADD, token.SUB_ASSIGN: token.SUB, token.MUL_ASSIGN: token.MUL,
		token.AND_ASSIGN: token.AND, token.OR_ASSIGN: token.OR, token.XOR_ASSIGN: token.XOR,
	}
	op, ok := ops[tok]
	if !ok {
		return fmt.Errorf("assignment operator %s outside the subset", tok)
	}
	lhs = unparen(lhs)
	tl, err := leanType(m.pi.info.Types[lhs].Type)
	if err != nil || tl.kind != "bv" {
		return fmt.Errorf("op-assign on %q outside the subset", m.pi.src(lhs))
	}
	// right side first (it may call kernels that write memory; they cannot touch scalars)
	r := fmt.Sprintf("1#%d", tl.w)
	if rhs != nil {
		if tv := m.pi.info.Types[rhs]; tv.Value != nil {
			r, err = constLit(tv.Value, tl)
		} else {
			if cf := m.rhsTreeCall(rhs); cf {
				return fmt.Errorf("op-assign whose right side calls a *Tree method outside the subset")
			}
			r, _, err = m.value(rhs, ind, b)
		}
		if err != nil {
			return err
		}
	}
	if p, ok := m.fieldPath(lhs); ok {
		lf, ok := tmFields[p]
		if !ok {
			return fmt.Errorf("assignment to field t.%s outside the subset", p)
		}
		val, err := m.binText(op, m.st+"."+lf, tl, r, tl)
		if err != nil {
			return err
		}
		nt := m.fresh("t", "St")
		fmt.Fprintf(b, "%slet %s : St := { %s with %s := %s }\n", ind, nt, m.st, lf, val)
		m.st = nt
		return nil
	}
	id, ok := lhs.(*ast.Ident)
	if !ok {
		return fmt.Errorf("op-assign target %q outside the subset", m.pi.src(lhs))
	}
	obj := m.objOf(id)
	cur, ok := m.env[obj]
	if !ok {
		return fmt.Errorf("op-assign to non-local %s", id.Name)
	}
	val, err := m.binText(op, cur, tl, r, tl)
	if err != nil {
		return err
	}
	nm := m.fresh(id.Name, tl.lean())
	fmt.Fprintf(b, "%slet %s : %s := %s\n", ind, nm, tl.lean(), val)
	m.env[obj] = nm
	return nil
}

func (m *tmCtx) rhsTreeCall(e ast.Expr) bool {
	found := false
	ast.Inspect(e, func(n ast.Node) bool {
		if x, ok := n.(*ast.CallExpr); ok && m.treeCallee(x) != nil {
			found = true
		}
		return !found
	})
	return found
}

// callStmt: a call in statement position
func (m *tmCtx) callStmt(call *ast.CallExpr, ind string, b *strings.Builder) error {
	if id, ok := call.Fun.(*ast.Ident); ok {
		switch id.Name {
		case "panic":
			return errPanicStmt
		case "assert":
			if len(call.Args) != 1 {
				return fmt.Errorf("assert arity")
			}
			c, _, err := m.value(call.Args[0], ind, b)
			if err != nil {
				return err
			}
			m.bind(b, ind, "Gen.guard "+nfAtom(c), "_")
			return nil
		case "copy":
			if len(call.Args) != 2 {
				return fmt.Errorf("copy arity")
			}
			d, err := m.nodeValue(call.Args[0], ind, b)
			if err != nil {
				return err
			}
			s, err := m.nodeValue(call.Args[1], ind, b)
			if err != nil {
				return err
			}
			nt := m.fresh("t", "St")
			m.bind(b, ind, fmt.Sprintf("Gen.TreeM.copyRef %s %s %s", m.st, d, s), nt)
			m.st = nt
			return nil
		}
	}
	if n, kind := m.cbOf(call); kind == 2 {
		if len(call.Args) != 1 {
			return fmt.Errorf("callback arity")
		}
		a, err := m.nodeValue(call.Args[0], ind, b)
		if err != nil {
			return err
		}
		if m.k == "" {
			return fmt.Errorf("callback call without a callback state")
		}
		nt, nk := m.fresh("t", "St"), m.fresh("c", m.kTy)
		m.bind(b, ind, fmt.Sprintf("%s %s %s %s", n, m.st, m.k, a), "("+nt+", "+nk+")")
		m.st, m.k = nt, nk
		return nil
	}
	switch m.bufferCall(call) {
	case "AllocateOffset":
		if len(call.Args) != 1 {
			return fmt.Errorf("AllocateOffset arity")
		}
		s, _, err := m.value(call.Args[0], ind, b)
		if err != nil {
			return err
		}
		nt := m.fresh("t", "St")
		m.bind(b, ind, fmt.Sprintf("Gen.TreeM.bufAllocateOffset %s %s", m.st, nfAtom(s)), nt)
		m.st = nt
		return nil
	case "Reset":
		nt := m.fresh("t", "St")
		m.bind(b, ind, "Gen.TreeM.bufReset "+m.st, nt)
		m.st = nt
		return nil
	case "Memclr":
		nt := m.fresh("t", "St")
		m.bind(b, ind, "Gen.TreeM.memclrBuf "+m.st, nt)
		m.st = nt
		return nil
	case "":
	default:
		return fmt.Errorf("buffer call %q outside the subset", m.pi.src(call))
	}
	if mf, recv, args := m.kernelOf(call); mf != nil {
		_, err := m.hoistKernel(mf, recv, args, call, ind, b, true)
		return err
	}
	if cf := m.treeCallee(call); cf != nil {
		_, err := m.hoistTreeCall(cf, call, ind, b, true)
		return err
	}
	return fmt.Errorf("call %q outside the subset", m.pi.src(call))
}

func tmContainsJump(stmts []ast.Stmt) bool {
	found := false
	for _, s := range stmts {
		ast.Inspect(s, func(n ast.Node) bool {
			switch x := n.(type) {
			case *ast.FuncLit:
				return false
			case *ast.ReturnStmt, *ast.BranchStmt:
				found = true
			case *ast.CallExpr:
				if id, ok := x.Fun.(*ast.Ident); ok && id.Name == "panic" {
					found = true
				}
			case *ast.ForStmt:
				if tmContainsReturn(x.Body.List) {
					found = true
				}
				return false
			case *ast.RangeStmt:
				if tmContainsReturn(x.Body.List) {
					found = true
				}
				return false
			}
			return !found
		})
	}
	return found
}

func tmContainsReturn(stmts []ast.Stmt) bool {
	found := false
	for _, s := range stmts {
		ast.Inspect(s, func(n ast.Node) bool {
			switch n.(type) {
			case *ast.FuncLit:
				return false
			case *ast.ReturnStmt:
				found = true
			}
			return !found
		})
	}
	return found
}

func (m *tmCtx) ifM(x *ast.IfStmt, ind string, next func() (string, error)) (string, error) {
	var b strings.Builder
	cond, _, err := m.value(x.Cond, ind, &b)
	if err != nil {
		return "", err
	}
	var elseStmts []ast.Stmt
	switch e := x.Else.(type) {
	case nil:
	case *ast.BlockStmt:
		elseStmts = e.List
	case *ast.IfStmt:
		elseStmts = []ast.Stmt{e}
	}
	saved := m.save()
	if !tmContainsJump(x.Body.List) && !tmContainsJump(elseStmts) {
		eff := m.effects(append(append([]ast.Stmt{}, x.Body.List...), elseStmts...))
		th := m.thread(eff)
		joinK := func() (string, error) { return ind + "    some " + tuple(m.threadNames(th)), nil }
		tb, err := m.blockM(x.Body.List, ind+"    ", joinK)
		if err != nil {
			return "", err
		}
		m.restore(saved)
		eb, err := m.blockM(elseStmts, ind+"    ", joinK)
		if err != nil {
			return "", err
		}
		m.restore(saved)
		newNames := m.rebind(th)
		r, err := next()
		if err != nil {
			return "", err
		}
		pat := "_"
		if len(newNames) > 0 {
			pat = tuple(newNames)
		}
		fmt.Fprintf(&b, "%s(if %s then\n%s\n%s  else\n%s).bind fun %s =>\n", ind, cond, tb, ind, eb, pat)
		return b.String() + r, nil
	}
	tb, err := m.blockM(x.Body.List, ind+"  ", next)
	if err != nil {
		return "", err
	}
	m.restore(saved)
	eb, err := m.blockM(elseStmts, ind+"  ", next)
	if err != nil {
		return "", err
	}
	m.restore(saved)
	fmt.Fprintf(&b, "%sif %s then\n%s\n%selse\n%s", ind, cond, tb, ind, eb)
	return b.String(), nil
}

func (m *tmCtx) mentions(body, name string) bool {
	isId := func(c byte) bool {
		return c == '_' || c == '\'' || c >= '0' && c <= '9' || c >= 'a' && c <= 'z' || c >= 'A' && c <= 'Z'
	}
	for i := 0; i+len(name) <= len(body); i++ {
		if body[i:i+len(name)] != name {
			continue
		}
		if (i == 0 || !isId(body[i-1]) && body[i-1] != '.') && (i+len(name) == len(body) || !isId(body[i+len(name)])) {
			return true
		}
	}
	return false
}

// forM: `for i := a; i < b; i++ { body }`
func (m *tmCtx) forM(x *ast.ForStmt, ind string, next func() (string, error)) (string, error) {
	bad := fmt.Errorf("loop %q outside the subset (want `for i := a; i < b; i++`)", firstLine(m.pi.src(x)))
	init, ok := x.Init.(*ast.AssignStmt)
	if !ok || len(init.Lhs) != 1 || len(init.Rhs) != 1 || init.Tok != token.DEFINE {
		return "", bad
	}
	iv, ok := init.Lhs[0].(*ast.Ident)
	if !ok {
		return "", bad
	}
	ivObj := m.pi.info.Defs[iv]
	if ivObj == nil {
		return "", bad
	}
	if t, err := leanType(ivObj.Type()); err != nil || t.kind != "bv" || t.w != 64 || !t.signed {
		return "", fmt.Errorf("loop variable %s is not a Go int", iv.Name)
	}
	cond, ok := x.Cond.(*ast.BinaryExpr)
	if !ok || cond.Op != token.LSS {
		return "", bad
	}
	if id, ok := cond.X.(*ast.Ident); !ok || m.pi.info.Uses[id] != ivObj {
		return "", bad
	}
	post, ok := x.Post.(*ast.IncDecStmt)
	if !ok || post.Tok != token.INC {
		return "", bad
	}
	if id, ok := post.X.(*ast.Ident); !ok || m.pi.info.Uses[id] != ivObj {
		return "", bad
	}
	m.nloops++
	loopNum := m.nloops
	eff := m.effects(x.Body.List)
	if eff.objs[ivObj] {
		return "", fmt.Errorf("loop variable %s is assigned in the body", iv.Name)
	}
	// is the bound loop-invariant?  (no call but pure layout kernels, no field, nothing the body writes)
	dynamic := false
	ast.Inspect(cond.Y, func(n ast.Node) bool {
		switch y := n.(type) {
		case *ast.CallExpr:
			if tvf, ok := m.pi.info.Types[y.Fun]; ok && tvf.IsType() {
				return true
			}
			if id, ok := y.Fun.(*ast.Ident); ok {
				if _, ok := funcLeanNames[id.Name]; ok {
					return true
				}
			}
			dynamic = true
		case *ast.SelectorExpr:
			if _, ok := m.fieldPath(y); ok {
				dynamic = true
			}
		case *ast.Ident:
			if o := m.pi.info.Uses[y]; o != nil && (eff.objs[o] || o == ivObj) {
				dynamic = true
			}
		}
		return true
	})
	var b strings.Builder
	lo, _, err := m.value(init.Rhs[0], ind, &b)
	if err != nil {
		return "", err
	}
	hi := ""
	if !dynamic {
		hi, _, err = m.value(cond.Y, ind, &b)
		if err != nil {
			return "", err
		}
	}
	th := m.thread(eff)
	saved := m.save()
	nBefore := len(m.names)
	stNames := m.rebind(th)
	stTys, err := m.threadTypes(th)
	if err != nil {
		return "", err
	}
	sigma := tmProd(stTys)
	stPat := "_"
	if len(stNames) > 0 {
		stPat = tuple(stNames)
	}
	// dynamic bound: a function of the loop state
	boundFn := ""
	if dynamic {
		if m.mutatesInExpr(cond.Y) {
			return "", fmt.Errorf("loop bound %q writes memory: outside the subset", m.pi.src(cond.Y))
		}
		var bb strings.Builder
		s, _, err := m.value(cond.Y, ind+"      ", &bb)
		if err != nil {
			return "", err
		}
		boundFn = fmt.Sprintf("(fun (s_ : %s) =>\n%s      match s_ with\n%s      | %s =>\n%s%s      some %s)", sigma, ind, ind, stPat, bb.String(), ind, nfAtom(s))
	}
	iName := m.fresh(iv.Name, "BitVec 64")
	m.env[ivObj] = iName
	oldRet, oldCont, oldBrk := m.retWrap, m.contK, m.brkK
	m.retWrap = func(v string) string { return "some (Gen.LoopOut.ret " + nfAtom(v) + ")" }
	m.contK = func() string { return "some (Gen.LoopOut.next " + tuple(m.threadNames(th)) + ")" }
	m.brkK = func() string { return "some (Gen.LoopOut.brk " + tuple(m.threadNames(th)) + ")" }
	m.inAux++
	oldSelf := m.usesSelf
	m.usesSelf = false
	body, err := m.blockM(x.Body.List, ind+"    ", func() (string, error) { return ind + "    " + m.contK(), nil })
	bodySelf := m.usesSelf
	m.usesSelf = oldSelf || bodySelf
	m.inAux--
	m.retWrap, m.contK, m.brkK = oldRet, oldCont, oldBrk
	if err != nil {
		return "", err
	}
	m.restore(saved)
	init0 := tuple(m.threadNames(th))
	newNames := m.rebind(th)
	r, err := next()
	if err != nil {
		return "", err
	}
	donePat := "_"
	if len(newNames) > 0 {
		donePat = tuple(newNames)
	}
	loopCall := m.loopDef(x, loopNum, firstLine(m.pi.src(x)), body, ind, stNames, stPat, sigma, iName, nBefore, bodySelf)
	if dynamic {
		fmt.Fprintf(&b, "%s(Gen.TreeM.forDyn (ρ := %s) %s\n%s    %s\n%s    %s %s).bind fun\n", ind, m.resTy, nfAtom(lo), ind, boundFn, ind, loopCall, init0)
	} else {
		fmt.Fprintf(&b, "%s(Gen.forRange (ρ := %s) %s %s %s %s).bind fun\n", ind, m.resTy, nfAtom(lo), nfAtom(hi), loopCall, init0)
	}
	fmt.Fprintf(&b, "%s  | Gen.LoopRes.ret v => %s\n", ind, m.retWrap("v"))
	fmt.Fprintf(&b, "%s  | Gen.LoopRes.done %s _ =>\n", ind, donePat)
	return b.String() + indent(r, "    "), nil
}

// loopDef emits one round of a loop as a definition of its own (it takes what it mentions of the
// enclosing scope as parameters) and returns the text that applies it to those variables.
func (m *tmCtx) loopDef(x ast.Node, num int, head, body, ind string, stNames []string, stPat, sigma, iName string, nBefore int, bodySelf bool) string {
	loopName := fmt.Sprintf("%s_loop%d", m.f.lean, num)
	var capNames, capDecls []string
	seen := map[string]bool{}
	for _, s := range stNames {
		seen[s] = true
	}
	if iName != "" {
		seen[iName] = true
	}
	fixed := []tmName{{"pageSize", "BitVec 64"}, {"maxKeys", "BitVec 64"}}
	if m.f.fuel {
		fixed = append(fixed, tmName{"fuel", "Nat"})
	}
	if bodySelf {
		fixed = append(fixed, tmName{"self_", "(" + m.f.selfType() + ")"})
	}
	for _, nm := range append(fixed, m.names[:nBefore]...) {
		if seen[nm.name] || !m.mentions(body, nm.name) {
			continue
		}
		seen[nm.name] = true
		capNames = append(capNames, nm.name)
		capDecls = append(capDecls, fmt.Sprintf("(%s : %s)", nm.name, nm.ty))
	}
	kDecl := ""
	if m.f.hasK {
		kDecl = " {κ : Type}"
	}
	idx := ""
	if iName != "" {
		idx = fmt.Sprintf(" (%s : BitVec 64)", iName)
	}
	var aux strings.Builder
	fmt.Fprintf(&aux, "/-- z.Tree.%s: one round of the loop `%s` -/\ndef %s%s%s%s :\n    %s → Option (Gen.LoopOut %s %s)\n  | %s =>\n%s\n\n",
		m.f.goName, strings.Join(strings.Fields(head), " "), loopName, kDecl, nfLead(strings.Join(capDecls, " ")), idx,
		sigma, nfAtom(m.resTy), nfAtom(sigma), stPat, indent(nfDedent(body, ind+"    "), "    "))
	m.aux = append(m.aux, aux.String())
	loopCall := loopName
	args := []string{}
	for _, c := range capNames {
		if c == "self_" && m.inAux == 0 {
			args = append(args, "("+m.f.lean+" pageSize maxKeys fuel)")
		} else {
			args = append(args, c)
		}
	}
	if len(args) > 0 {
		loopCall = "(" + loopName + " " + strings.Join(args, " ") + ")"
	}
	return loopCall
}

// loopBody translates the body of a loop whose state is th (already rebound to stNames).
func (m *tmCtx) loopBody(stmts []ast.Stmt, ind string, th tmThread, pre func(b *strings.Builder) error) (string, bool, error) {
	oldRet, oldCont, oldBrk := m.retWrap, m.contK, m.brkK
	m.retWrap = func(v string) string { return "some (Gen.LoopOut.ret " + nfAtom(v) + ")" }
	m.contK = func() string { return "some (Gen.LoopOut.next " + tuple(m.threadNames(th)) + ")" }
	m.brkK = func() string { return "some (Gen.LoopOut.brk " + tuple(m.threadNames(th)) + ")" }
	m.inAux++
	oldSelf := m.usesSelf
	m.usesSelf = false
	var pb strings.Builder
	var err error
	if pre != nil {
		err = pre(&pb)
	}
	body := ""
	if err == nil {
		body, err = m.blockM(stmts, ind+"    ", func() (string, error) { return ind + "    " + m.contK(), nil })
	}
	bodySelf := m.usesSelf
	m.usesSelf = oldSelf || bodySelf
	m.inAux--
	m.retWrap, m.contK, m.brkK = oldRet, oldCont, oldBrk
	return pb.String() + body, bodySelf, err
}

// whileM: `for cond { body }`
func (m *tmCtx) whileM(x *ast.ForStmt, ind string, next func() (string, error)) (string, error) {
	m.nloops++
	loopNum := m.nloops
	eff := m.effects(x.Body.List)
	if m.mutatesInExpr(x.Cond) {
		return "", fmt.Errorf("loop condition %q writes memory: outside the subset", m.pi.src(x.Cond))
	}
	var b strings.Builder
	th := m.thread(eff)
	saved := m.save()
	nBefore := len(m.names)
	stNames := m.rebind(th)
	stTys, err := m.threadTypes(th)
	if err != nil {
		return "", err
	}
	sigma := tmProd(stTys)
	stPat := "_"
	if len(stNames) > 0 {
		stPat = tuple(stNames)
	}
	var cb strings.Builder
	c, _, err := m.value(x.Cond, ind+"      ", &cb)
	if err != nil {
		return "", err
	}
	condFn := fmt.Sprintf("(fun (s_ : %s) =>\n%s      match s_ with\n%s      | %s =>\n%s%s      some %s)", sigma, ind, ind, stPat, cb.String(), ind, nfAtom(c))
	body, bodySelf, err := m.loopBody(x.Body.List, ind, th, nil)
	if err != nil {
		return "", err
	}
	m.restore(saved)
	init0 := tuple(m.threadNames(th))
	newNames := m.rebind(th)
	r, err := next()
	if err != nil {
		return "", err
	}
	donePat := "_"
	if len(newNames) > 0 {
		donePat = tuple(newNames)
	}
	loopCall := m.loopDef(x, loopNum, firstLine(m.pi.src(x)), body, ind, stNames, stPat, sigma, "", nBefore, bodySelf)
	fmt.Fprintf(&b, "%s(Gen.TreeM.whileM (ρ := %s) (2 ^ 64)\n%s    %s\n%s    %s %s).bind fun\n", ind, m.resTy, ind, condFn, ind, loopCall, init0)
	fmt.Fprintf(&b, "%s  | Gen.LoopRes.ret v => %s\n", ind, m.retWrap("v"))
	fmt.Fprintf(&b, "%s  | Gen.LoopRes.done %s _ =>\n", ind, donePat)
	return b.String() + indent(r, "    "), nil
}

// rangeM: `for i, v := range a { body }` over a local made by `make` that the body does not assign
func (m *tmCtx) rangeM(x *ast.RangeStmt, ind string, next func() (string, error)) (string, error) {
	bad := fmt.Errorf("loop %q outside the subset (want `for i, v := range a` over a local slice)", firstLine(m.pi.src(x)))
	if x.Tok != token.DEFINE {
		return "", bad
	}
	aid, ok := unparen(x.X).(*ast.Ident)
	if !ok {
		return "", bad
	}
	aobj := m.objOf(aid)
	el, ok := m.localArr[aobj]
	if !ok {
		return "", bad
	}
	m.nloops++
	loopNum := m.nloops
	eff := m.effects(x.Body.List)
	if eff.objs[aobj] {
		return "", fmt.Errorf("the body of %q assigns the slice it ranges over: outside the subset", firstLine(m.pi.src(x)))
	}
	arr := m.env[aobj]
	var b strings.Builder
	th := m.thread(eff)
	saved := m.save()
	nBefore := len(m.names)
	stNames := m.rebind(th)
	stTys, err := m.threadTypes(th)
	if err != nil {
		return "", err
	}
	sigma := tmProd(stTys)
	stPat := "_"
	if len(stNames) > 0 {
		stPat = tuple(stNames)
	}
	iName := m.fresh("i", "BitVec 64")
	if kid, ok := x.Key.(*ast.Ident); ok && kid.Name != "_" {
		iName = m.fresh(kid.Name, "BitVec 64")
		m.env[m.pi.info.Defs[kid]] = iName
	}
	pre := func(pb *strings.Builder) error {
		if x.Value == nil {
			return nil
		}
		vid, ok := x.Value.(*ast.Ident)
		if !ok {
			return bad
		}
		if vid.Name == "_" {
			return nil
		}
		vn := m.fresh(vid.Name, el)
		m.bind(pb, ind+"    ", fmt.Sprintf("Gen.rd %s %s", arr, iName), vn)
		m.env[m.pi.info.Defs[vid]] = vn
		return nil
	}
	body, bodySelf, err := m.loopBody(x.Body.List, ind, th, pre)
	if err != nil {
		return "", err
	}
	m.restore(saved)
	init0 := tuple(m.threadNames(th))
	newNames := m.rebind(th)
	r, err := next()
	if err != nil {
		return "", err
	}
	donePat := "_"
	if len(newNames) > 0 {
		donePat = tuple(newNames)
	}
	loopCall := m.loopDef(x, loopNum, firstLine(m.pi.src(x)), body, ind, stNames, stPat, sigma, iName, nBefore, bodySelf)
	fmt.Fprintf(&b, "%s(Gen.forRange (ρ := %s) 0#64 (BitVec.ofNat 64 %s.size) %s %s).bind fun\n", ind, m.resTy, arr, loopCall, init0)
	fmt.Fprintf(&b, "%s  | Gen.LoopRes.ret v => %s\n", ind, m.retWrap("v"))
	fmt.Fprintf(&b, "%s  | Gen.LoopRes.done %s _ =>\n", ind, donePat)
	return b.String() + indent(r, "    "), nil
}

// ---------------------------------------------------------------- one method

func (g *tmGen) analyse(name string) (*tmFunc, error) {
	pi := g.pi
	fd := pi.findFunc("Tree." + name)
	if fd == nil || fd.Body == nil {
		return nil, fmt.Errorf("method Tree.%s not found", name)
	}
	f := &tmFunc{goName: name, lean: sanitize(name), fd: fd}
	for _, fl := range fd.Type.Params.List {
		for _, n := range fl.Names {
			obj := pi.info.Defs[n]
			p := tmParam{name: sanitize(n.Name), obj: obj}
			if sig, ok := obj.Type().Underlying().(*types.Signature); ok {
				if sig.Params().Len() == 1 && tmIsNodeType(sig.Params().At(0).Type()) && sig.Results().Len() == 0 {
					p.kind, p.ty = 2, tmCbTy
					f.hasK = true
				} else if sig.Results().Len() == 1 {
					parts := []string{}
					for i := 0; i < sig.Params().Len(); i++ {
						t, err := leanType(sig.Params().At(i).Type())
						if err != nil || t.kind != "bv" {
							return nil, fmt.Errorf("function parameter %s outside the subset", n.Name)
						}
						parts = append(parts, t.lean())
					}
					t, err := leanType(sig.Results().At(0).Type())
					if err != nil || t.kind != "bv" {
						return nil, fmt.Errorf("function parameter %s outside the subset", n.Name)
					}
					p.kind, p.ty = 3, "("+strings.Join(append(parts, t.lean()), " → ")+")"
				} else {
					return nil, fmt.Errorf("function parameter %s outside the subset", n.Name)
				}
			} else if tmIsNodeType(obj.Type()) {
				p.kind, p.ty = 1, "NodeRef"
			} else {
				t, err := leanType(obj.Type())
				if err != nil {
					return nil, err
				}
				p.ty = t.lean()
			}
			f.params = append(f.params, p)
		}
	}
	if fd.Type.Results != nil {
		for _, fl := range fd.Type.Results.List {
			if len(fl.Names) > 0 {
				return nil, fmt.Errorf("named results outside the subset")
			}
			tv := pi.info.Types[fl.Type]
			switch {
			case tmIsNodeType(tv.Type):
				f.resTys = append(f.resTys, "NodeRef")
				f.resNode = append(f.resNode, true)
			case tmIsStatsType(tv.Type):
				f.resTys = append(f.resTys, "TreeStats")
				f.resNode = append(f.resNode, false)
			default:
				t, err := leanType(tv.Type)
				if err != nil {
					return nil, err
				}
				f.resTys = append(f.resTys, t.lean())
				f.resNode = append(f.resNode, false)
			}
		}
	}
	// recursion, fuel, mutation
	recvName := ""
	if len(fd.Recv.List[0].Names) == 1 {
		recvName = fd.Recv.List[0].Names[0].Name
	}
	isRecv := func(e ast.Expr) bool {
		id, ok := unparen(e).(*ast.Ident)
		return ok && id.Name == recvName
	}
	var rooted func(e ast.Expr) bool
	rooted = func(e ast.Expr) bool {
		sel, ok := unparen(e).(*ast.SelectorExpr)
		if !ok {
			return false
		}
		return isRecv(sel.X) || rooted(sel.X)
	}
	f.mut = f.hasK
	ast.Inspect(fd.Body, func(n ast.Node) bool {
		switch x := n.(type) {
		case *ast.AssignStmt:
			for _, l := range x.Lhs {
				if rooted(l) {
					f.mut = true
				}
			}
		case *ast.IncDecStmt:
			if rooted(x.X) {
				f.mut = true
			}
		case *ast.CallExpr:
			if sel, ok := x.Fun.(*ast.SelectorExpr); ok {
				if isRecv(sel.X) {
					if sel.Sel.Name == name {
						f.recur, f.fuel = true, true
					} else if cf, ok := g.funcs[sel.Sel.Name]; ok {
						if cf.fuel {
							f.fuel = true
						}
						if cf.mut {
							f.mut = true
						}
					}
				} else if rooted(sel.X) {
					f.mut = true // t.buffer.X(…)
				} else if s, ok := pi.info.Selections[sel]; ok {
					if fn, ok := s.Obj().(*types.Func); ok {
						if nn, ok := s.Recv().(*types.Named); ok && nn.Obj().Name() == "node" {
							if mf, ok := nfFuncs["node."+fn.Name()]; ok && mf.mutates {
								f.mut = true
							}
						}
					}
				}
			}
			if id, ok := x.Fun.(*ast.Ident); ok {
				if id.Name == "copy" || id.Name == "Memclr" {
					f.mut = true
				}
				if mf, ok := nfFuncs[id.Name]; ok && mf.mutates {
					f.mut = true
				}
			}
		}
		return true
	})
	return f, nil
}

func (g *tmGen) translate(name string) (string, error) {
	f, err := g.analyse(name)
	if err != nil {
		return "", err
	}
	pi := g.pi
	fd := f.fd
	c := &ctx{pi: pi, env: map[types.Object]string{}, lazy: map[types.Object]ast.Expr{}}
	m := &tmCtx{ctx: c, g: g, f: f, subst: map[ast.Expr]substVal{}, cbNode: map[types.Object]string{},
		cbPure: map[types.Object]string{}, stats: map[types.Object]map[string]string{}, localArr: map[types.Object]string{}}
	c.hook = m.hookFn
	if len(fd.Recv.List[0].Names) != 1 {
		return "", fmt.Errorf("receiver without a name")
	}
	m.recv = pi.info.Defs[fd.Recv.List[0].Names[0]]
	m.st = m.intro("t", "St")
	m.curMut, m.curHasK = f.mut, f.hasK
	if f.hasK {
		m.k = m.intro("c", "κ")
		m.kTy = "κ"
	}
	for _, p := range f.params {
		switch p.kind {
		case 0, 1:
			c.env[p.obj] = m.intro(p.name, p.ty)
		case 2:
			m.cbNode[p.obj] = m.intro(p.name, p.ty)
		case 3:
			m.cbPure[p.obj] = m.intro(p.name, p.ty)
		}
	}
	m.resTy = f.resultType()
	m.retWrap = func(v string) string { return "some " + nfAtom(v) }
	if f.recur {
		// the function is visible to itself while its body is translated
		g.funcs[name] = f
	}
	ind := "  "
	if f.recur {
		ind = "    "
	}
	body, err := m.blockM(fd.Body.List, ind, func() (string, error) {
		if len(f.resTys) > 0 {
			return "", fmt.Errorf("missing return")
		}
		return ind + m.retWrap(m.retVal(nil)), nil
	})
	if err != nil {
		delete(g.funcs, name)
		return "", err
	}
	g.funcs[name] = f
	var b strings.Builder
	for _, a := range m.aux {
		b.WriteString(a)
	}
	kDecl := ""
	if f.hasK {
		kDecl = " {κ : Type}"
	}
	fmt.Fprintf(&b, "/-- z.Tree.%s (whole method; `none` = panic / outside the model) -/\ndef %s%s (pageSize maxKeys : BitVec 64)", name, f.lean, kDecl)
	if f.recur {
		pats := []string{"t"}
		if f.hasK {
			pats = append(pats, "c")
		}
		unders := []string{"_"}
		if f.hasK {
			unders = append(unders, "_")
		}
		for _, p := range f.params {
			pats = append(pats, p.name)
			unders = append(unders, "_")
		}
		fmt.Fprintf(&b, " :\n    Nat → %s\n  | 0, %s => none\n  | fuel + 1, %s =>\n%s\n", f.selfType(), strings.Join(unders, ", "), strings.Join(pats, ", "), body)
		return b.String(), nil
	}
	if f.fuel {
		b.WriteString(" (fuel : Nat)")
	}
	b.WriteString(" (t : St)")
	if f.hasK {
		b.WriteString(" (c : κ)")
	}
	for _, p := range f.params {
		fmt.Fprintf(&b, " (%s : %s)", p.name, p.ty)
	}
	fmt.Fprintf(&b, " :\n    Option %s :=\n%s\n", nfAtom(m.resTy), body)
	return b.String(), nil
}
