package main

// z.KeyToHash, integer cases (C01: "for key types string, []byte and the integer kinds").
// Output module: KeyToHash.
//
// KExpr anchors an expression by its source text inside a function; inside KeyToHash the texts
// `uint64(k)`, `k`, `v.Uint()`, `uint64(v.Int())` occur once per case and mean something different
// in each (the type of `k` is the case's type), and the order of the cases is irrelevant.  So the
// cases are anchored by their TYPE (direct type switch) resp. by their reflect KIND (fallback
// `switch v.Kind()`), not by position: for every integer kind the generator emits
//
//	prim<Kind> (k : BitVec w) : BitVec 64      first result of `case <type>: return a, b`
//	conf<Kind> (k : BitVec w) : BitVec 64      second result
//	reflPrim<Kind> (vInt vUint : BitVec 64)    first result of `case reflect.<Kind>: return a, b`
//	reflConf<Kind> (vInt vUint : BitVec 64)    second result
//
// with FIXED parameter lists (a constant result still has the parameters), so a changed expression
// changes the definition the theorems of RV/Props/KeyHash.lean are about, not its signature.
// `k` is the type switch's symbolic variable, whose type in a single-type case is that type
// (go/types).  Package reflect is not type-checked (stub importer); the two accessors used here are
// given their documented result types: `v.Int()` is int64, `v.Uint()` is uint64, and become the
// parameters vInt / vUint (what they return for a key of the kind is stated in the Lean model:
// the underlying integer sign- resp. zero-extended to 64 bits).

import (
	"fmt"
	"go/ast"
	"go/types"
	"strings"
)

func init() { extras["KeyToHash"] = genKeyToHash }

// the integer kinds of z.Key, by the name of the basic type
var keyKinds = []struct {
	basic types.BasicKind
	name  string // Lean suffix and reflect.Kind name
}{
	{types.Uint64, "Uint64"}, {types.Uint8, "Uint8"}, {types.Uint, "Uint"}, {types.Int, "Int"},
	{types.Int32, "Int32"}, {types.Uint32, "Uint32"}, {types.Int64, "Int64"},
}

func genKeyToHash(load func(string) *pkgInfo) (string, error) {
	pi := load("z")
	fd := pi.findFunc("KeyToHash")
	if fd == nil {
		return "", fmt.Errorf("function z.KeyToHash not found")
	}
	var tsw *ast.TypeSwitchStmt
	nts := 0
	ast.Inspect(fd.Body, func(n ast.Node) bool {
		if t, ok := n.(*ast.TypeSwitchStmt); ok {
			tsw = t
			nts++
		}
		return true
	})
	if nts != 1 {
		return "", fmt.Errorf("z.KeyToHash: expected exactly one type switch (found %d)", nts)
	}
	as, ok := tsw.Assign.(*ast.AssignStmt)
	if !ok || len(as.Lhs) != 1 {
		return "", fmt.Errorf("z.KeyToHash: type switch without symbolic variable")
	}
	kname := as.Lhs[0].(*ast.Ident).Name
	var b strings.Builder
	var errs []string
	fail := func(name string, err error) {
		errs = append(errs, fmt.Sprintf("%s: %v", name, err))
		fmt.Fprintf(&b, "-- UNTRANSLATABLE %s: %v\n\n", name, strings.ReplaceAll(err.Error(), "\n", " "))
	}
	// ---- direct cases
	direct := map[types.BasicKind]*ast.CaseClause{}
	var deflt *ast.CaseClause
	for _, st := range tsw.Body.List {
		cc := st.(*ast.CaseClause)
		if cc.List == nil {
			deflt = cc
			continue
		}
		if len(cc.List) != 1 {
			continue // a multi-type case gives k the interface type; an integer kind in it is reported missing below
		}
		tv, ok := pi.info.Types[cc.List[0]]
		if !ok || tv.Type == nil {
			continue
		}
		if bt, ok := tv.Type.(*types.Basic); ok {
			direct[bt.Kind()] = cc
		}
	}
	for _, kk := range keyKinds {
		cc := direct[kk.basic]
		if cc == nil {
			fail("prim"+kk.name, fmt.Errorf("z.KeyToHash has no single-type case for %s", strings.ToLower(kk.name)))
			continue
		}
		kt, _ := leanType(types.Typ[kk.basic])
		res, err := caseResults(pi, cc.Body)
		if err != nil {
			fail("prim"+kk.name, err)
			continue
		}
		for j, nm := range []string{"prim", "conf"} {
			c := &ctx{pi: pi, env: map[types.Object]string{}, leaves: map[string]string{}, opaque: true}
			c.leaves[kname] = "k"
			c.params = append(c.params, param{"k", kt})
			body, t, err := c.expr(res[j])
			if err == nil && (t.kind != "bv" || t.w != 64 || len(c.params) != 1) {
				err = fmt.Errorf("result %q outside the subset", pi.src(res[j]))
			}
			if err != nil {
				fail(nm+kk.name, err)
				continue
			}
			fmt.Fprintf(&b, "set_option linter.unusedVariables false in\n/-- z.KeyToHash, `case %s:` result %d: `%s` -/\ndef %s%s (k : %s) : BitVec 64 :=\n  %s\n\n",
				pi.src(cc.List[0]), j+1, pi.src(res[j]), nm, kk.name, kt.lean(), body)
		}
	}
	// ---- reflect fallback: `v := reflect.ValueOf(key); switch v.Kind() { case reflect.X: return … }`
	var ksw *ast.SwitchStmt
	if deflt != nil {
		for _, st := range deflt.Body {
			if s, ok := st.(*ast.SwitchStmt); ok && s.Tag != nil && strings.HasSuffix(pi.src(s.Tag), ".Kind()") {
				ksw = s
			}
		}
	}
	if ksw == nil {
		fail("reflPrim", fmt.Errorf("z.KeyToHash: no `switch v.Kind()` in the default case"))
	} else {
		vname := strings.TrimSuffix(pi.src(ksw.Tag), ".Kind()")
		refl := map[string]*ast.CaseClause{}
		for _, st := range ksw.Body.List {
			cc := st.(*ast.CaseClause)
			if len(cc.List) != 1 {
				continue
			}
			if sel, ok := cc.List[0].(*ast.SelectorExpr); ok && pi.src(sel.X) == "reflect" {
				refl[sel.Sel.Name] = cc
			}
		}
		for _, kk := range keyKinds {
			cc := refl[kk.name]
			if cc == nil {
				fail("reflPrim"+kk.name, fmt.Errorf("z.KeyToHash has no case reflect.%s", kk.name))
				continue
			}
			res, err := caseResults(pi, cc.Body)
			if err != nil {
				fail("reflPrim"+kk.name, err)
				continue
			}
			for j, nm := range []string{"reflPrim", "reflConf"} {
				// documented result types of the two reflect accessors
				ast.Inspect(res[j], func(n ast.Node) bool {
					if call, ok := n.(*ast.CallExpr); ok && len(call.Args) == 0 {
						switch pi.src(call.Fun) {
						case vname + ".Int":
							pi.info.Types[call] = types.TypeAndValue{Type: types.Typ[types.Int64]}
						case vname + ".Uint":
							pi.info.Types[call] = types.TypeAndValue{Type: types.Typ[types.Uint64]}
						}
					}
					return true
				})
				c := &ctx{pi: pi, env: map[types.Object]string{}, leaves: map[string]string{}, opaque: true}
				c.leaves[vname+".Int()"] = "vInt"
				c.params = append(c.params, param{"vInt", lty{"bv", 64, true}})
				c.leaves[vname+".Uint()"] = "vUint"
				c.params = append(c.params, param{"vUint", lty{"bv", 64, false}})
				body, t, err := c.expr(res[j])
				if err == nil && (t.kind != "bv" || t.w != 64 || len(c.params) != 2) {
					err = fmt.Errorf("result %q outside the subset", pi.src(res[j]))
				}
				if err != nil {
					fail(nm+kk.name, err)
					continue
				}
				fmt.Fprintf(&b, "set_option linter.unusedVariables false in\n/-- z.KeyToHash, `case reflect.%s:` result %d: `%s` (vInt = `%s.Int()`, vUint = `%s.Uint()`) -/\ndef %s%s (vInt : BitVec 64) (vUint : BitVec 64) : BitVec 64 :=\n  %s\n\n",
					kk.name, j+1, pi.src(res[j]), vname, vname, nm, kk.name, body)
			}
		}
	}
	if len(errs) > 0 {
		return b.String(), fmt.Errorf("%s", strings.Join(errs, "; "))
	}
	return b.String(), nil
}

// caseResults: the body of the case must be exactly `return a, b`.
func caseResults(pi *pkgInfo, body []ast.Stmt) ([]ast.Expr, error) {
	var real []ast.Stmt
	for _, st := range body {
		if !pi.isHookStmt(st) {
			real = append(real, st)
		}
	}
	if len(real) != 1 {
		return nil, fmt.Errorf("case body has %d statements, expected `return a, b`", len(real))
	}
	ret, ok := real[0].(*ast.ReturnStmt)
	if !ok || len(ret.Results) != 2 {
		return nil, fmt.Errorf("case body %q is not `return a, b`", firstLine(pi.src(real[0])))
	}
	return ret.Results, nil
}
