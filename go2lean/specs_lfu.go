package main

// Whole-function translation of cmSketch / cmRow (sketch.go), tinyLFU, sampledLFU.fillSample and
// defaultPolicy.Add (policy.go) by lfu.go.  Outputs RV/Gen/SketchM.lean, TinyLFUM.lean, PolicyM.lean.
// Proved equal to RV/Model/Sketch.lean, TinyLFU.lean, Policy.lean in RV/Props/TieSketch.lean,
// TieTinyLFU.lean, TiePolicyAdd.lean.

type lxModule struct {
	name    string
	imports []string
}

// Output modules; a module may use the modules before it.
var lxModules = []lxModule{
	{"SketchM", []string{"RV.GenLfu"}},
	{"TinyLFUM", []string{"RV.GenLfu", "RV.Gen.SketchM"}},
	{"PolicyM", []string{"RV.GenLfu", "RV.Gen.TinyLFUM"}},
}

type lxStructSpec struct{ name, mod string }

// Go struct types that become Lean structures (a struct after the structs its fields use).
var lxStructs = []lxStructSpec{
	{"cmSketch", "SketchM"},
	{"tinyLFU", "TinyLFUM"},
	{"policyPair", "PolicyM"},
	{"Item", "PolicyM"},
	{"sampledLFU", "PolicyM"},
	{"defaultPolicy", "PolicyM"},
}

// Module of the methods of a named type when they are translated on demand.
var lxTypeModule = map[string]string{
	"cmRow": "SketchM", "cmSketch": "SketchM", "tinyLFU": "TinyLFUM",
	"policyPair": "PolicyM", "Item": "PolicyM", "sampledLFU": "PolicyM", "defaultPolicy": "PolicyM",
}

type lxExtMSpec struct {
	name    string
	mutates bool     // may change the object (else: a pure observer)
	params  []string // Go types; only for externs without readable source (pkg "-")
	res     string
}

type lxExternSpec struct {
	key, pkg, goType, lean, ops, opsVar, mod string
	methods                                  []lxExtMSpec
}

// Abstract extern objects: not translated (z.Bloom is unsafe-pointer code with its own model and
// property, C19); the translated functions take the operations as a structure parameter.  The
// parameter / result types are read from the source of the extern package on every run; whether
// an operation may change the object is stated here.
var lxExterns = []lxExternSpec{
	{key: "z.Bloom", pkg: "z", goType: "Bloom", lean: "Door", ops: "BloomOps", opsVar: "ops", mod: "TinyLFUM",
		methods: []lxExtMSpec{{name: "Has"}, {name: "AddIfNotHas", mutates: true}, {name: "Clear", mutates: true}}},
	// math/rand.Rand (standard library, no source in the repository): the signature of Uint64 is stated here
	{key: "rand.Rand", pkg: "-", goType: "Rand", lean: "Rand", ops: "RandOps", opsVar: "rnd", mod: "SketchM",
		methods: []lxExtMSpec{{name: "Uint64", mutates: true, res: "uint64"}}},
}

// Constructors of extern objects: `x := rand.New(...)` makes x an abstract object that the translated
// function receives as a parameter `x_new` (the constructor's arguments — the clock-seeded source —
// are not represented).
var lxExternCtors = map[string]string{"rand.New": "rand.Rand"}

// Calls that are not translated but recorded, in order, in the `effs : List Eff` result.
var lxEffects = []string{"Metrics.add"}
var lxEffectsMod = "PolicyM"

type lxConst struct{ goName, lean string }

// Constants used to interpret the effects (metric kinds).
var lxConsts = []lxConst{
	{"keyUpdate", "metric_keyUpdate"}, {"keyEvict", "metric_keyEvict"}, {"costAdd", "metric_costAdd"},
	{"costEvict", "metric_costEvict"}, {"rejectSets", "metric_rejectSets"}, {"lfuSample", "lfuSample"},
}

type lxSpec struct{ fn, lean, mod string }

// Functions and methods.  Callees are translated before their callers whatever the order here; a
// callee that is not listed is translated on demand under the name <type>_<method>.
var lxSpecs = []lxSpec{
	// sketch.go
	{"cmRow.get", "cmRow_get", "SketchM"},
	{"cmRow.increment", "cmRow_increment", "SketchM"},
	{"cmRow.reset", "cmRow_reset", "SketchM"},
	{"cmRow.clear", "cmRow_clear", "SketchM"},
	{"cmSketch.Increment", "cmSketch_Increment", "SketchM"},
	{"cmSketch.Estimate", "cmSketch_Estimate", "SketchM"},
	{"cmSketch.Reset", "cmSketch_Reset", "SketchM"},
	{"cmSketch.Clear", "cmSketch_Clear", "SketchM"},
	{"newCmSketch", "newCmSketch", "SketchM"},
	// policy.go: tinyLFU
	{"tinyLFU.Estimate", "tinyLFU_Estimate", "TinyLFUM"},
	{"tinyLFU.reset", "tinyLFU_reset", "TinyLFUM"},
	{"tinyLFU.clear", "tinyLFU_clear", "TinyLFUM"},
	{"tinyLFU.Increment", "tinyLFU_Increment", "TinyLFUM"},
	{"tinyLFU.Push", "tinyLFU_Push", "TinyLFUM"},
	// policy.go: sampledLFU, defaultPolicy.Add
	{"sampledLFU.getMaxCost", "sampledLFU_getMaxCost", "PolicyM"},
	{"sampledLFU.roomLeft", "sampledLFU_roomLeft", "PolicyM"},
	{"sampledLFU.add", "sampledLFU_add", "PolicyM"},
	{"sampledLFU.del", "sampledLFU_del", "PolicyM"},
	{"sampledLFU.updateIfHas", "sampledLFU_updateIfHas", "PolicyM"},
	{"sampledLFU.fillSample", "sampledLFU_fillSample", "PolicyM"},
	{"defaultPolicy.Add", "defaultPolicy_Add", "PolicyM"},
}
