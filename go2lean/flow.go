package main

// Control-flow skeletons ("flows") of the functions whose ORDER of atomic actions the Cache
// model mirrors by hand.  For each listed function the extractor walks the body in source
// order and emits the sequence of *relevant actions* — calls into the store / policy / expiry
// index, callbacks, channel operations, lock operations, clock reads, goroutine starts,
// returns — with the branching structure around them (`if{`, `}else{`, `}`, `for{`,
// `select{`, `case …:`, `switch{`).  Arithmetic, local bookkeeping, the verif hooks and
// everything else is dropped, so harmless rewrites of expressions do not change a flow, while a
// reordered, removed or added action does.
//
// Output: RV/Gen/CacheFlow.lean with one `def <name> : List String` per function.
// `RV/Proofs/CacheFlow.lean` states, by `rfl`, that each flow equals the sequence the model was
// written against; a changed flow therefore breaks a proof obligation of the properties that
// depend on that function.

import (
	"fmt"
	"go/ast"
	"go/token"
	"go/types"
	"os"
	"strings"
)

func init() {
	extras["CacheFlow"] = genFlows
}

type flowSpec struct {
	pkg, fn, lean string
}

var flowSpecs = []flowSpec{
	{"", "Cache.Wait", "wait"},
	{"", "Cache.Get", "get"},
	{"", "Cache.SetWithTTL", "setWithTTL"},
	{"", "Cache.Del", "del"},
	{"", "Cache.GetTTL", "getTTL"},
	{"", "Cache.IterValues", "iterValues"},
	{"", "Cache.Close", "close"},
	{"", "Cache.Clear", "clear"},
	{"", "Cache.processItems", "processItems"},
	{"", "expirationMap.cleanup", "cleanup"},
	{"", "expirationMap.add", "emAdd"},
	{"", "expirationMap.update", "emUpdate"},
	{"", "expirationMap.del", "emDel"},
	{"", "expirationMap.clear", "emClear"},
	{"", "lockedMap.get", "storeGet"},
	{"", "lockedMap.Set", "storeSet"},
	{"", "lockedMap.Del", "storeDel"},
	{"", "lockedMap.DelExpired", "storeDelExpired"},
	{"", "lockedMap.Update", "storeUpdate"},
	{"", "lockedMap.Clear", "storeShardClear"},
	{"", "shardedMap.Clear", "storeClear"},
	{"", "shardedMap.IterValues", "storeIter"},
	{"", "defaultPolicy.Add", "policyAdd"},
	{"", "defaultPolicy.Del", "policyDel"},
	{"", "defaultPolicy.Update", "policyUpdate"},
	{"", "defaultPolicy.Clear", "policyClear"},
	{"", "defaultPolicy.Cap", "policyCap"},
	{"", "defaultPolicy.Cost", "policyCost"},
	{"", "defaultPolicy.Push", "policyPush"},
	{"", "defaultPolicy.processItems", "policyProcess"},
	{"", "sampledLFU.del", "evictDel"},
	{"", "sampledLFU.add", "evictAdd"},
	{"", "sampledLFU.updateIfHas", "evictUpdateIfHas"},
	{"", "tinyLFU.Increment", "tinyIncrement"},
	{"", "tinyLFU.Estimate", "tinyEstimate"},
	{"", "tinyLFU.reset", "tinyReset"},
	{"", "ringStripe.Push", "ringPush"},
}

// relevant call prefixes (callee source text).
var flowCallPrefixes = []string{
	// methods and function-valued fields reached through a value of one of the modelled types
	"Cache.", "defaultPolicy.", "sampledLFU.", "tinyLFU.", "lockedMap.", "shardedMap.", "expirationMap.",
	"ringStripe.", "storeItem.", "Item.", "store.", "Time.", "time.", "atomic.",
	// callbacks passed as parameters (canonical name of a func-typed variable) and helpers
	"func", "close", "delete", "storageBucket", "cleanupBucket", "trackAdmission",
}

func relevantCall(txt string) bool {
	if os.Getenv("FLOW_ALL") != "" {
		return true
	}
	for _, p := range flowCallPrefixes {
		if strings.HasPrefix(txt, p) {
			return true
		}
	}
	return false
}

type flowWalker struct {
	pi  *pkgInfo
	out []string
	// func-typed local variables and parameters (callbacks), numbered in order of first appearance
	fnIdx map[types.Object]int
	// functions currently being inlined (recursion guard)
	inl []*types.Func
	// tail: nothing of the function executes after the statement list being walked (a bare
	// `return` there is redundant and not emitted)
	tail bool
	// loops entered so far / at the entry of the innermost inlined helper: a bare `return` inside a
	// loop of an inlined helper leaves that loop and the helper, which in the caller's flow is what a
	// `break` out of the same loop was before the loop was extracted
	loops, inlLoops int
}

// pinnedFuncs: the functions that have a flow of their own; a call to one of them is an action
// (`call Name`).  A call to any OTHER function or method declared in the package is replaced by
// that function's own actions (inlined, to depth 4), so extracting a helper or inlining one does
// not change a flow.
var pinnedFuncs = map[string]bool{}

func init() {
	for _, fs := range flowSpecs {
		pinnedFuncs[fs.fn] = true
	}
}

// declOf finds the declaration (with body) of a function or method of this package.
func (w *flowWalker) declOf(call *ast.CallExpr) (*types.Func, *ast.FuncDecl) {
	var obj types.Object
	switch f := call.Fun.(type) {
	case *ast.Ident:
		obj = w.pi.info.Uses[f]
	case *ast.SelectorExpr:
		if sel, ok := w.pi.info.Selections[f]; ok {
			obj = sel.Obj()
		} else {
			obj = w.pi.info.Uses[f.Sel]
		}
	case *ast.IndexExpr: // explicit instantiation f[T](...)
		if id, ok := f.X.(*ast.Ident); ok {
			obj = w.pi.info.Uses[id]
		}
	}
	fn, ok := obj.(*types.Func)
	if !ok || fn == nil || fn.Pkg() != w.pi.pkg {
		return nil, nil
	}
	fn = fn.Origin()
	for _, file := range w.pi.files {
		for _, d := range file.Decls {
			if fd, ok := d.(*ast.FuncDecl); ok && fd.Body != nil {
				if o, ok := w.pi.info.Defs[fd.Name].(*types.Func); ok && o.Origin() == fn {
					return fn, fd
				}
			}
		}
	}
	return nil, nil
}

func qualName(fd *ast.FuncDecl) string {
	if fd.Recv == nil || len(fd.Recv.List) == 0 {
		return fd.Name.Name
	}
	t := fd.Recv.List[0].Type
	for {
		switch x := t.(type) {
		case *ast.StarExpr:
			t = x.X
			continue
		case *ast.IndexExpr:
			t = x.X
			continue
		case *ast.IndexListExpr:
			t = x.X
			continue
		case *ast.ParenExpr:
			t = x.X
			continue
		}
		break
	}
	if id, ok := t.(*ast.Ident); ok {
		return id.Name + "." + fd.Name.Name
	}
	return fd.Name.Name
}

// terminates: control does not reach the statement after this block
func terminates(stmts []ast.Stmt) bool {
	if len(stmts) == 0 {
		return false
	}
	switch x := stmts[len(stmts)-1].(type) {
	case *ast.ReturnStmt:
		return true
	case *ast.BranchStmt:
		return true
	case *ast.BlockStmt:
		return terminates(x.List)
	case *ast.ExprStmt:
		if c, ok := x.X.(*ast.CallExpr); ok {
			if id, ok := c.Fun.(*ast.Ident); ok && id.Name == "panic" {
				return true
			}
		}
	case *ast.IfStmt:
		if x.Else == nil {
			return false
		}
		eb, ok := x.Else.(*ast.BlockStmt)
		if !ok {
			return terminates(x.Body.List) && terminates([]ast.Stmt{x.Else})
		}
		return terminates(x.Body.List) && terminates(eb.List)
	}
	return false
}

func (w *flowWalker) emit(s string) { w.out = append(w.out, s) }

func (w *flowWalker) callee(c *ast.CallExpr) string {
	return w.canon(c.Fun)
}

// canonType names a type independently of how variables are called: the name of the named type
// behind any pointers (type arguments dropped), or a shape word for unnamed types.
func canonType(t types.Type) string {
	for {
		p, ok := t.(*types.Pointer)
		if !ok {
			break
		}
		t = p.Elem()
	}
	switch x := t.(type) {
	case *types.Named:
		return x.Obj().Name()
	case *types.Alias:
		return x.Obj().Name()
	case *types.TypeParam:
		return x.Obj().Name()
	case *types.Basic:
		return x.Name()
	case *types.Chan:
		return "chan"
	case *types.Slice:
		return "[]" + canonType(x.Elem())
	case *types.Array:
		return "[]" + canonType(x.Elem())
	case *types.Map:
		return "map"
	case *types.Signature:
		return "func"
	case *types.Struct:
		return "struct"
	case *types.Interface:
		return "interface"
	}
	return "_"
}

// canon renders an expression with every local variable, parameter and receiver replaced by the
// name of its type, so that renaming a variable does not change a flow while calling a different
// method, field or function does.  Fields, methods, functions, constants and package-level
// variables keep their names.
func (w *flowWalker) canon(e ast.Expr) string {
	switch x := e.(type) {
	case *ast.Ident:
		var obj types.Object
		if o, ok := w.pi.info.Uses[x]; ok {
			obj = o
		} else if o, ok := w.pi.info.Defs[x]; ok {
			obj = o
		}
		if v, ok := obj.(*types.Var); ok && !v.IsField() && v.Parent() != nil && v.Parent() != w.pi.pkg.Scope() && v.Parent() != types.Universe {
			if v.Type() != nil {
				t := canonType(v.Type())
				if t == "func" {
					if w.fnIdx == nil {
						w.fnIdx = map[types.Object]int{}
					}
					if _, ok := w.fnIdx[obj]; !ok {
						w.fnIdx[obj] = len(w.fnIdx) + 1
					}
					return fmt.Sprintf("func#%d", w.fnIdx[obj])
				}
				if t != "_" && t != "invalid type" {
					return t
				}
			}
		}
		return x.Name
	case *ast.SelectorExpr:
		return w.canon(x.X) + "." + x.Sel.Name
	case *ast.CallExpr:
		args := []string{}
		for _, a := range x.Args {
			args = append(args, w.canon(a))
		}
		return w.canon(x.Fun) + "(" + strings.Join(args, ",") + ")"
	case *ast.IndexExpr:
		return w.canon(x.X) + "[_]"
	case *ast.IndexListExpr:
		return w.canon(x.X) + "[…]"
	case *ast.StarExpr:
		return "*" + w.canon(x.X)
	case *ast.ParenExpr:
		return "(" + w.canon(x.X) + ")"
	case *ast.UnaryExpr:
		return x.Op.String() + w.canon(x.X)
	case *ast.BinaryExpr:
		return w.canon(x.X) + x.Op.String() + w.canon(x.Y)
	case *ast.BasicLit:
		return x.Value
	case *ast.TypeAssertExpr:
		return w.canon(x.X) + ".(type)"
	case *ast.SliceExpr:
		return w.canon(x.X) + "[:]"
	}
	return strings.Join(strings.Fields(w.pi.src(e)), "")
}

// expr emits the relevant actions inside an expression, in evaluation order (arguments first).
func (w *flowWalker) expr(e ast.Expr) {
	if e == nil {
		return
	}
	switch x := e.(type) {
	case *ast.CallExpr:
		name := w.callee(x)
		if strings.HasPrefix(name, "verif") {
			return
		}
		if sel, ok := x.Fun.(*ast.SelectorExpr); ok {
			w.expr(sel.X)
		}
		if fl, ok := x.Fun.(*ast.FuncLit); ok {
			for _, a := range x.Args {
				w.expr(a)
			}
			w.expr(fl)
			return
		}
		for _, a := range x.Args {
			w.expr(a)
		}
		if fn, fd := w.declOf(x); fd != nil {
			if pinnedFuncs[qualName(fd)] {
				w.emit("call " + qualName(fd))
				return
			}
			onStack := false
			for _, g := range w.inl {
				if g == fn {
					onStack = true
				}
			}
			if len(w.inl) < 4 && !onStack {
				w.inl = append(w.inl, fn)
				t := w.tail
				w.tail = true
				il := w.inlLoops
				w.inlLoops = w.loops
				defer func() { w.tail = t; w.inlLoops = il }()
				body := fd.Body.List
				// a trailing `return e` contributes the actions of e only
				if n := len(body); n > 0 {
					if ret, ok := body[n-1].(*ast.ReturnStmt); ok {
						w.block(body[:n-1])
						for _, r := range ret.Results {
							w.expr(r)
						}
						w.inl = w.inl[:len(w.inl)-1]
						return
					}
				}
				w.block(body)
				w.inl = w.inl[:len(w.inl)-1]
				return
			}
			w.emit("call " + qualName(fd))
			return
		}
		if relevantCall(name) {
			w.emit("call " + name)
		}
	case *ast.UnaryExpr:
		if x.Op == token.ARROW {
			w.emit("recv " + w.canon(x.X))
			return
		}
		w.expr(x.X)
	case *ast.BinaryExpr:
		w.expr(x.X)
		w.expr(x.Y)
	case *ast.ParenExpr:
		w.expr(x.X)
	case *ast.SelectorExpr:
		w.expr(x.X)
	case *ast.IndexExpr:
		w.expr(x.X)
		w.expr(x.Index)
	case *ast.StarExpr:
		w.expr(x.X)
	case *ast.CompositeLit:
		for _, el := range x.Elts {
			if kv, ok := el.(*ast.KeyValueExpr); ok {
				w.expr(kv.Value)
			} else {
				w.expr(el)
			}
		}
	case *ast.FuncLit:
		t := w.tail
		w.tail = true
		w.emit("func{")
		w.block(x.Body.List)
		w.emit("}")
		w.tail = t
	case *ast.TypeAssertExpr:
		w.expr(x.X)
	case *ast.SliceExpr:
		w.expr(x.X)
	}
}

// block walks a statement list.  `if` statements are normalised so that equivalent spellings give
// the same flow: when one branch of an `if` does not fall through (ends in return / continue /
// break / panic), the statements that follow the `if` belong to the other branch — so
// `if c {A; return}; B`, `if c {A; return} else {B}` and `if !c {B} else {A; return}` coincide;
// a negated condition with both branches present swaps them.
func (w *flowWalker) block(stmts []ast.Stmt) {
	tail := w.tail
	defer func() { w.tail = tail }()
	for i, st := range stmts {
		w.tail = tail && i == len(stmts)-1
		if x, ok := st.(*ast.IfStmt); ok {
			w.tail = tail
			rest := stmts[i+1:]
			w.ifStmt(x, rest)
			return
		}
		if sw, ok := st.(*ast.SwitchStmt); ok && sw.Tag == nil && sw.Init == nil {
			if x := switchAsIf(sw); x != nil {
				w.tail = tail
				w.ifStmt(x, stmts[i+1:])
				return
			}
		}
		w.stmt(st)
	}
}

// switchAsIf rewrites a tagless `switch { case a: A; case b: B; default: C }` as the chain
// `if a {A} else if b {B} else {C}` (a trailing `break` of a case body is dropped), so both
// spellings give the same flow.
func switchAsIf(sw *ast.SwitchStmt) *ast.IfStmt {
	var clauses []*ast.CaseClause
	var def *ast.CaseClause
	for _, c := range sw.Body.List {
		cc := c.(*ast.CaseClause)
		if cc.List == nil {
			def = cc
		} else {
			clauses = append(clauses, cc)
		}
	}
	if len(clauses) == 0 {
		return nil
	}
	body := func(cc *ast.CaseClause) *ast.BlockStmt {
		b := cc.Body
		if n := len(b); n > 0 {
			if br, ok := b[n-1].(*ast.BranchStmt); ok && br.Tok == token.BREAK && br.Label == nil {
				b = b[:n-1]
			}
		}
		return &ast.BlockStmt{List: b}
	}
	var tail ast.Stmt
	if def != nil {
		tail = body(def)
	}
	for i := len(clauses) - 1; i >= 0; i-- {
		cc := clauses[i]
		cond := cc.List[0]
		for _, e := range cc.List[1:] {
			cond = &ast.BinaryExpr{X: cond, Op: token.LOR, Y: e}
		}
		tail = &ast.IfStmt{Cond: cond, Body: body(cc), Else: tail}
	}
	return tail.(*ast.IfStmt)
}

func elseList(e ast.Stmt) []ast.Stmt {
	if e == nil {
		return nil
	}
	if b, ok := e.(*ast.BlockStmt); ok {
		return b.List
	}
	return []ast.Stmt{e} // else if …
}

func (w *flowWalker) ifStmt(x *ast.IfStmt, rest []ast.Stmt) {
	if x.Init != nil {
		w.stmt(x.Init)
	}
	cond := x.Cond
	w.expr(cond)
	thenB := append([]ast.Stmt{}, x.Body.List...)
	elseB := append([]ast.Stmt{}, elseList(x.Else)...)
	hasElse := x.Else != nil
	switch {
	case terminates(thenB) && !terminates(elseB):
		elseB = append(elseB, rest...)
		hasElse = hasElse || len(rest) > 0
		rest = nil
	case terminates(elseB) && !terminates(thenB):
		thenB = append(thenB, rest...)
		rest = nil
	case terminates(thenB) && terminates(elseB):
		rest = nil // unreachable
	}
	// negation: `if !c {A} else {B}` is `if c {B} else {A}`
	neg := false
	for {
		if p, ok := cond.(*ast.ParenExpr); ok {
			cond = p.X
			continue
		}
		if u, ok := cond.(*ast.UnaryExpr); ok && u.Op == token.NOT {
			neg = !neg
			cond = u.X
			continue
		}
		break
	}
	if neg && hasElse {
		thenB, elseB = elseB, thenB
	}
	tail := w.tail
	w.tail = tail && len(rest) == 0
	w.emit("if{")
	w.block(thenB)
	if hasElse {
		w.emit("}else{")
		w.block(elseB)
	}
	w.emit("}")
	w.tail = tail
	w.block(rest)
}

func (w *flowWalker) stmt(st ast.Stmt) {
	switch x := st.(type) {
	case *ast.ExprStmt:
		w.expr(x.X)
	case *ast.AssignStmt:
		// operands of the left-hand sides are evaluated first (calls inside them are actions)
		for _, l := range x.Lhs {
			switch lx := l.(type) {
			case *ast.IndexExpr:
				w.expr(lx.X)
				w.expr(lx.Index)
			case *ast.SelectorExpr:
				w.expr(lx.X)
			case *ast.StarExpr:
				w.expr(lx.X)
			}
		}
		for _, r := range x.Rhs {
			w.expr(r)
		}
		for _, l := range x.Lhs {
			// writes of the shared maps / fields the model tracks
			t := w.canon(l)
			// an indexed lvalue is also named by the type of what is indexed, whatever expression
			// denotes it (`b[key] = …`, `m.bucketFor(n)[key] = …`)
			t2 := ""
			if ix, ok := l.(*ast.IndexExpr); ok {
				if tv, ok := w.pi.info.Types[ix.X]; ok && tv.Type != nil {
					t2 = canonType(tv.Type) + "["
				}
			}
			for _, p := range []string{"lockedMap.data", "expirationMap.buckets", "expirationMap.lastCleanedBucketNum", "sampledLFU.keyCosts", "sampledLFU.used", "tinyLFU.incrs", "bucket[", "ringStripe.data", "Item.flag", "Item.Cost", "Item.Conflict"} {
				if strings.HasPrefix(t, p) || (t2 != "" && strings.HasPrefix(t2, p)) {
					w.emit("write " + p)
					break
				}
			}
		}
	case *ast.IncDecStmt:
		// counters of shared state only (fields); loop counters and other locals are not actions
		if t := w.canon(x.X); strings.Contains(t, ".") {
			w.emit("incdec " + t)
		}
	case *ast.SendStmt:
		w.expr(x.Value)
		w.emit("send " + w.canon(x.Chan))
	case *ast.GoStmt:
		w.emit("go " + w.callee(x.Call))
	case *ast.DeferStmt:
		w.emit("defer " + w.callee(x.Call))
	case *ast.ReturnStmt:
		for _, r := range x.Results {
			w.expr(r)
		}
		if w.tail && len(x.Results) == 0 {
			break // falls off the end anyway
		}
		if len(w.inl) > 0 && len(x.Results) == 0 && w.loops > w.inlLoops {
			w.emit("break") // see flowWalker.loops
		} else if len(w.inl) > 0 {
			w.emit("ret") // return of an inlined helper, not of the pinned function
		} else {
			w.emit("return")
		}
	case *ast.BranchStmt:
		w.emit(x.Tok.String())
	case *ast.BlockStmt:
		w.block(x.List)
	case *ast.IfStmt:
		w.ifStmt(x, nil)
	case *ast.ForStmt:
		if x.Init != nil {
			w.stmt(x.Init)
		}
		t := w.tail
		w.tail = false
		w.loops++
		w.emit("for{")
		w.expr(x.Cond)
		w.block(x.Body.List)
		if x.Post != nil {
			w.stmt(x.Post)
		}
		w.emit("}")
		w.loops--
		w.tail = t
	case *ast.RangeStmt:
		// same skeleton as an index loop over the same collection
		w.expr(x.X)
		t := w.tail
		w.tail = false
		w.loops++
		w.emit("for{")
		w.block(x.Body.List)
		w.emit("}")
		w.loops--
		w.tail = t
	case *ast.SelectStmt:
		w.emit("select{")
		for _, c := range x.Body.List {
			cc := c.(*ast.CommClause)
			if cc.Comm == nil {
				w.emit("default:")
			} else {
				w.emit("case:")
				w.stmt(cc.Comm)
			}
			w.block(cc.Body)
		}
		w.emit("}")
	case *ast.SwitchStmt:
		if x.Init != nil {
			w.stmt(x.Init)
		}
		w.expr(x.Tag)
		w.emit("switch{")
		for _, c := range x.Body.List {
			cc := c.(*ast.CaseClause)
			if cc.List == nil {
				w.emit("default:")
			} else {
				parts := []string{}
				for _, e := range cc.List {
					parts = append(parts, w.canon(e))
				}
				w.emit("case " + strings.Join(parts, ",") + ":")
			}
			w.block(cc.Body)
		}
		w.emit("}")
	case *ast.LabeledStmt:
		w.stmt(x.Stmt)
	case *ast.DeclStmt:
		if gd, ok := x.Decl.(*ast.GenDecl); ok {
			for _, sp := range gd.Specs {
				if vs, ok := sp.(*ast.ValueSpec); ok {
					for _, v := range vs.Values {
						w.expr(v)
					}
				}
			}
		}
	}
}

// simplify drops empty control structures left after filtering.
func simplifyFlow(in []string) []string {
	changed := true
	for changed {
		changed = false
		out := []string{}
		for i := 0; i < len(in); i++ {
			if i+1 < len(in) && in[i+1] == "}" && (in[i] == "if{" || in[i] == "for{" || in[i] == "func{" || strings.HasPrefix(in[i], "range ")) {
				i++
				changed = true
				continue
			}
			if i+2 < len(in) && in[i] == "if{" && in[i+1] == "}else{" && in[i+2] == "}" {
				i += 2
				changed = true
				continue
			}
			// conditions are not recorded: a one-armed conditional is `if{ … }` whichever arm it was
			if i+1 < len(in) && in[i] == "if{" && in[i+1] == "}else{" {
				out = append(out, "if{")
				i++
				changed = true
				continue
			}
			if i+1 < len(in) && in[i] == "}else{" && in[i+1] == "}" {
				changed = true
				continue
			}
			out = append(out, in[i])
		}
		in = out
	}
	return in
}

// hoistFlow factors what the two arms of a conditional have in common: `if{ P A }else{ P B }`
// becomes `P if{ A }else{ B }` and `if{ A }else{ A }` becomes `A`.  Conditions carry no actions of
// their own (their calls are emitted before the `if{`) and are pinned separately by KExpr kernels,
// so releasing a lock before a two-way return instead of inside both arms, or testing and
// returning in either order, gives one flow.  One-armed conditionals and loops are left alone.
type flowNode struct {
	tok        string      // plain token, or the opening token of a block
	body, alt  []*flowNode // block content; alt = else arm of an `if{`
	block, els bool
}

func parseFlow(toks []string, i int) ([]*flowNode, int, string) {
	var out []*flowNode
	for i < len(toks) {
		t := toks[i]
		switch {
		case t == "}" || t == "}else{":
			return out, i + 1, t
		case strings.HasSuffix(t, "{"):
			n := &flowNode{tok: t, block: true}
			var end string
			n.body, i, end = parseFlow(toks, i+1)
			if end == "}else{" {
				n.els = true
				n.alt, i, _ = parseFlow(toks, i)
			}
			out = append(out, n)
		default:
			out = append(out, &flowNode{tok: t})
			i++
		}
	}
	return out, i, ""
}

func flowText(ns []*flowNode) []string {
	var out []string
	for _, n := range ns {
		out = append(out, n.tok)
		if n.block {
			out = append(out, flowText(n.body)...)
			if n.els {
				out = append(out, "}else{")
				out = append(out, flowText(n.alt)...)
			}
			out = append(out, "}")
		}
	}
	return out
}

func hoistNodes(ns []*flowNode) []*flowNode {
	var out []*flowNode
	for _, n := range ns {
		if !n.block {
			out = append(out, n)
			continue
		}
		n.body = hoistNodes(n.body)
		n.alt = hoistNodes(n.alt)
		if n.tok == "if{" && n.els {
			same := func(a, b *flowNode) bool {
				return strings.Join(flowText([]*flowNode{a}), "\x00") == strings.Join(flowText([]*flowNode{b}), "\x00")
			}
			k := 0
			for k < len(n.body) && k < len(n.alt) && same(n.body[k], n.alt[k]) {
				k++
			}
			out = append(out, n.body[:k]...)
			n.body, n.alt = n.body[k:], n.alt[k:]
			if len(n.body) == 0 && len(n.alt) == 0 {
				continue
			}
		}
		out = append(out, n)
	}
	return out
}

func hoistFlow(in []string) []string {
	ns, _, _ := parseFlow(in, 0)
	return flowText(hoistNodes(ns))
}

// sortWriteRuns: the order of ADJACENT plain field writes (no call, channel operation, lock
// operation or branch between them) is not part of a flow: swapping two such assignments cannot be
// observed by another goroutine that respects the lock discipline (checked separately, C08), so a
// run of consecutive `write <field>` actions is listed in alphabetical order.
func sortWriteRuns(in []string) []string {
	out := append([]string{}, in...)
	for i := 0; i < len(out); {
		j := i
		for j < len(out) && strings.HasPrefix(out[j], "write ") {
			j++
		}
		if j-i > 1 {
			sortStrings(out[i:j])
		}
		if j == i {
			j++
		}
		i = j
	}
	return out
}

func genFlows(load func(string) *pkgInfo) (string, error) {
	var b strings.Builder
	for _, fs := range flowSpecs {
		pi := load(fs.pkg)
		fd := pi.findFunc(fs.fn)
		if fd == nil {
			return "", fmt.Errorf("flow: function %s not found", fs.fn)
		}
		w := &flowWalker{pi: pi, tail: true}
		w.block(fd.Body.List)
		flow := sortWriteRuns(simplifyFlow(hoistFlow(simplifyFlow(w.out))))
		fmt.Fprintf(&b, "/-- actions of %s in source order -/\ndef %s : List String := [", fs.fn, fs.lean)
		for i, s := range flow {
			if i > 0 {
				b.WriteString(",")
			}
			if i%4 == 0 {
				b.WriteString("\n  ")
			} else {
				b.WriteString(" ")
			}
			fmt.Fprintf(&b, "%q", s)
		}
		b.WriteString("]\n\n")
	}
	return b.String(), nil
}
