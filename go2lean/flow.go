package main

// Control-flow skeletons ("flows") of the functions whose ORDER of atomic actions the Cache
// model mirrors by hand.  For each listed function the extractor walks the body in source
// order and emits the sequence of *relevant actions* — calls into the store / policy / expiry
// index, callbacks, channel operations, lock operations, clock reads, goroutine starts,
// returns — with the branching structure around them (`if{`, `}else{`, `}`, `for{`,
// `select{`, `case …:`, `switch{`).  Arithmetic, local bookkeeping, the verif hooks and
// everything else is dropped, so harmless rewrites of expressions do not change a flow, while a
// reordered, removed or added action does.
//
// Output: RV/Gen/CacheFlow.lean with one `def <name> : List String` per function.
// `RV/Proofs/CacheFlow.lean` states, by `rfl`, that each flow equals the sequence the model was
// written against; a changed flow therefore breaks a proof obligation of the properties that
// depend on that function.

import (
	"fmt"
	"go/ast"
	"go/token"
	"strings"
)

func init() {
	extras["CacheFlow"] = genFlows
}

type flowSpec struct {
	pkg, fn, lean string
}

var flowSpecs = []flowSpec{
	{"", "Cache.Wait", "wait"},
	{"", "Cache.Get", "get"},
	{"", "Cache.SetWithTTL", "setWithTTL"},
	{"", "Cache.Del", "del"},
	{"", "Cache.GetTTL", "getTTL"},
	{"", "Cache.IterValues", "iterValues"},
	{"", "Cache.Close", "close"},
	{"", "Cache.Clear", "clear"},
	{"", "Cache.processItems", "processItems"},
	{"", "expirationMap.cleanup", "cleanup"},
	{"", "expirationMap.add", "emAdd"},
	{"", "expirationMap.update", "emUpdate"},
	{"", "expirationMap.del", "emDel"},
	{"", "expirationMap.clear", "emClear"},
	{"", "lockedMap.get", "storeGet"},
	{"", "lockedMap.Set", "storeSet"},
	{"", "lockedMap.Del", "storeDel"},
	{"", "lockedMap.DelExpired", "storeDelExpired"},
	{"", "lockedMap.Update", "storeUpdate"},
	{"", "lockedMap.Clear", "storeShardClear"},
	{"", "shardedMap.Clear", "storeClear"},
	{"", "shardedMap.IterValues", "storeIter"},
	{"", "defaultPolicy.Add", "policyAdd"},
	{"", "defaultPolicy.Del", "policyDel"},
	{"", "defaultPolicy.Update", "policyUpdate"},
	{"", "defaultPolicy.Clear", "policyClear"},
	{"", "defaultPolicy.Cap", "policyCap"},
	{"", "defaultPolicy.Cost", "policyCost"},
	{"", "defaultPolicy.Push", "policyPush"},
	{"", "defaultPolicy.processItems", "policyProcess"},
	{"", "sampledLFU.del", "evictDel"},
	{"", "sampledLFU.add", "evictAdd"},
	{"", "sampledLFU.updateIfHas", "evictUpdateIfHas"},
	{"", "tinyLFU.Increment", "tinyIncrement"},
	{"", "tinyLFU.Estimate", "tinyEstimate"},
	{"", "tinyLFU.reset", "tinyReset"},
	{"", "ringStripe.Push", "ringPush"},
}

// relevant call prefixes (callee source text).
var flowCallPrefixes = []string{
	"c.storedItems.", "c.cachePolicy.", "c.onExit", "c.onEvict", "c.onReject", "onEvict", "c.Metrics.", "c.getBuf.",
	"c.isClosed.", "c.cleanupTicker.", "c.processItems", "c.keyToHash", "c.cost", "c.Clear",
	"time.Now", "time.Until", "close", "store.", "policy.", "sm.expiryMap.", "sm.shards", "shard.", "cb",
	"m.em.", "m.Lock", "m.Unlock", "m.RLock", "m.RUnlock", "m.shouldUpdate", "delete", "make",
	"p.Lock", "p.Unlock", "p.evict.", "p.admit.", "p.metrics.", "p.door.", "p.freq.", "p.Increment", "p.reset",
	"atomic.", "s.cons.", "trackAdmission", "storageBucket", "cleanupBucket", "expr.", "expiration.", "item.expiration.", "newExpTime.",
}

func relevantCall(txt string) bool {
	for _, p := range flowCallPrefixes {
		if strings.HasPrefix(txt, p) {
			return true
		}
	}
	return false
}

type flowWalker struct {
	pi  *pkgInfo
	out []string
}

func (w *flowWalker) emit(s string) { w.out = append(w.out, s) }

func (w *flowWalker) callee(c *ast.CallExpr) string {
	return strings.Join(strings.Fields(w.pi.src(c.Fun)), "")
}

// expr emits the relevant actions inside an expression, in evaluation order (arguments first).
func (w *flowWalker) expr(e ast.Expr) {
	if e == nil {
		return
	}
	switch x := e.(type) {
	case *ast.CallExpr:
		name := w.callee(x)
		if strings.HasPrefix(name, "verif") {
			return
		}
		if sel, ok := x.Fun.(*ast.SelectorExpr); ok {
			w.expr(sel.X)
		}
		for _, a := range x.Args {
			w.expr(a)
		}
		if relevantCall(name) {
			w.emit("call " + name)
		}
	case *ast.UnaryExpr:
		if x.Op == token.ARROW {
			w.emit("recv " + strings.Join(strings.Fields(w.pi.src(x.X)), ""))
			return
		}
		w.expr(x.X)
	case *ast.BinaryExpr:
		w.expr(x.X)
		w.expr(x.Y)
	case *ast.ParenExpr:
		w.expr(x.X)
	case *ast.SelectorExpr:
		w.expr(x.X)
	case *ast.IndexExpr:
		w.expr(x.X)
		w.expr(x.Index)
	case *ast.StarExpr:
		w.expr(x.X)
	case *ast.CompositeLit:
		for _, el := range x.Elts {
			if kv, ok := el.(*ast.KeyValueExpr); ok {
				w.expr(kv.Value)
			} else {
				w.expr(el)
			}
		}
	case *ast.FuncLit:
		w.emit("func{")
		w.block(x.Body.List)
		w.emit("}")
	case *ast.TypeAssertExpr:
		w.expr(x.X)
	case *ast.SliceExpr:
		w.expr(x.X)
	}
}

func (w *flowWalker) block(stmts []ast.Stmt) {
	for _, st := range stmts {
		w.stmt(st)
	}
}

func (w *flowWalker) stmt(st ast.Stmt) {
	switch x := st.(type) {
	case *ast.ExprStmt:
		w.expr(x.X)
	case *ast.AssignStmt:
		for _, r := range x.Rhs {
			w.expr(r)
		}
		for _, l := range x.Lhs {
			// writes of the shared maps / fields the model tracks
			t := strings.Join(strings.Fields(w.pi.src(l)), "")
			for _, p := range []string{"m.data[", "m.data", "m.buckets", "m.lastCleanedBucketNum", "p.keyCosts", "p.used", "p.incrs", "b[", "newBucket[", "s.data", "i.flag", "i.Cost", "victim.Conflict"} {
				if strings.HasPrefix(t, p) {
					w.emit("write " + p)
					break
				}
			}
		}
	case *ast.IncDecStmt:
		t := strings.Join(strings.Fields(w.pi.src(x.X)), "")
		if strings.HasPrefix(t, "p.incrs") || strings.HasPrefix(t, "hits") {
			w.emit("incdec " + t)
		}
	case *ast.SendStmt:
		w.expr(x.Value)
		w.emit("send " + strings.Join(strings.Fields(w.pi.src(x.Chan)), ""))
	case *ast.GoStmt:
		w.emit("go " + w.callee(x.Call))
	case *ast.DeferStmt:
		w.emit("defer " + w.callee(x.Call))
	case *ast.ReturnStmt:
		for _, r := range x.Results {
			w.expr(r)
		}
		w.emit("return")
	case *ast.BranchStmt:
		w.emit(x.Tok.String())
	case *ast.BlockStmt:
		w.block(x.List)
	case *ast.IfStmt:
		if x.Init != nil {
			w.stmt(x.Init)
		}
		w.expr(x.Cond)
		w.emit("if{")
		w.block(x.Body.List)
		if x.Else != nil {
			w.emit("}else{")
			w.stmt(x.Else)
		}
		w.emit("}")
	case *ast.ForStmt:
		if x.Init != nil {
			w.stmt(x.Init)
		}
		w.emit("for{")
		w.expr(x.Cond)
		w.block(x.Body.List)
		if x.Post != nil {
			w.stmt(x.Post)
		}
		w.emit("}")
	case *ast.RangeStmt:
		w.expr(x.X)
		w.emit("range " + strings.Join(strings.Fields(w.pi.src(x.X)), "") + "{")
		w.block(x.Body.List)
		w.emit("}")
	case *ast.SelectStmt:
		w.emit("select{")
		for _, c := range x.Body.List {
			cc := c.(*ast.CommClause)
			if cc.Comm == nil {
				w.emit("default:")
			} else {
				w.emit("case:")
				w.stmt(cc.Comm)
			}
			w.block(cc.Body)
		}
		w.emit("}")
	case *ast.SwitchStmt:
		if x.Init != nil {
			w.stmt(x.Init)
		}
		w.expr(x.Tag)
		w.emit("switch{")
		for _, c := range x.Body.List {
			cc := c.(*ast.CaseClause)
			if cc.List == nil {
				w.emit("default:")
			} else {
				parts := []string{}
				for _, e := range cc.List {
					parts = append(parts, strings.Join(strings.Fields(w.pi.src(e)), ""))
				}
				w.emit("case " + strings.Join(parts, ",") + ":")
			}
			w.block(cc.Body)
		}
		w.emit("}")
	case *ast.LabeledStmt:
		w.stmt(x.Stmt)
	case *ast.DeclStmt:
		if gd, ok := x.Decl.(*ast.GenDecl); ok {
			for _, sp := range gd.Specs {
				if vs, ok := sp.(*ast.ValueSpec); ok {
					for _, v := range vs.Values {
						w.expr(v)
					}
				}
			}
		}
	}
}

// simplify drops empty control structures left after filtering.
func simplifyFlow(in []string) []string {
	changed := true
	for changed {
		changed = false
		out := []string{}
		for i := 0; i < len(in); i++ {
			if i+1 < len(in) && in[i+1] == "}" && (in[i] == "if{" || in[i] == "for{" || in[i] == "func{" || strings.HasPrefix(in[i], "range ")) {
				i++
				changed = true
				continue
			}
			if i+2 < len(in) && in[i] == "if{" && in[i+1] == "}else{" && in[i+2] == "}" {
				i += 2
				changed = true
				continue
			}
			out = append(out, in[i])
		}
		in = out
	}
	return in
}

func genFlows(load func(string) *pkgInfo) (string, error) {
	var b strings.Builder
	for _, fs := range flowSpecs {
		pi := load(fs.pkg)
		fd := pi.findFunc(fs.fn)
		if fd == nil {
			return "", fmt.Errorf("flow: function %s not found", fs.fn)
		}
		w := &flowWalker{pi: pi}
		w.block(fd.Body.List)
		flow := simplifyFlow(w.out)
		fmt.Fprintf(&b, "/-- actions of %s in source order -/\ndef %s : List String := [", fs.fn, fs.lean)
		for i, s := range flow {
			if i > 0 {
				b.WriteString(",")
			}
			if i%4 == 0 {
				b.WriteString("\n  ")
			} else {
				b.WriteString(" ")
			}
			fmt.Fprintf(&b, "%q", s)
		}
		b.WriteString("]\n\n")
	}
	return b.String(), nil
}
