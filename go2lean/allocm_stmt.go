package main

// AllocM: expressions and statements (see allocm.go).

import (
	"fmt"
	"go/ast"
	"go/token"
	"go/types"
	"sort"
	"strings"
)

type amCtx struct {
	*ctx
	g       *amGen
	f       *amFunc
	cur     *amDef
	subst   map[ast.Expr]substVal // scalar sub-expressions bound by hoist
	nsub    map[ast.Expr]amVal    // non-scalar ones
	recvObj types.Object
	retWrap func(vals []string) string // `return vals…`
	retRaw  func(v string) string      // pass on a complete return value (from an inner loop)
	contK   func(ind string) (string, error)
	brkK    func(ind string) (string, error)
	inLoop  int // inside a combinator loop: no yield points
	binds   int // number of monadic binds emitted so far (pure-join detection)
	aux     []string
	nloops  int
}

func (m *amCtx) hookFn(e ast.Expr) (string, lty, bool, error) {
	if r, ok := m.subst[e]; ok {
		return r.text, r.ty, true, nil
	}
	return "", lty{}, false, nil
}

// S: the allocator to report when the code panics here
func (m *amCtx) S() string {
	if m.recvObj != nil {
		return m.env[m.recvObj]
	}
	return "()"
}

func (m *amCtx) bind(b *strings.Builder, ind, term, pat string) {
	m.binds++
	fmt.Fprintf(b, "%s(%s).bind fun %s =>\n", ind, term, pat)
}

func (m *amCtx) objOf(id *ast.Ident) types.Object {
	if o := m.pi.info.Uses[id]; o != nil {
		return o
	}
	return m.pi.info.Defs[id]
}

// structVar: e is a variable holding (a pointer to) the translated struct
func (m *amCtx) structVar(e ast.Expr) (types.Object, bool) {
	id, ok := unparen(e).(*ast.Ident)
	if !ok {
		return nil, false
	}
	obj := m.objOf(id)
	if obj == nil {
		return nil, false
	}
	if t, err := m.g.amType(obj.Type()); err != nil || t.k != "struct" {
		return nil, false
	}
	if _, ok := m.env[obj]; !ok {
		return nil, false
	}
	return obj, true
}

func (m *amCtx) setStruct(obj types.Object, val, ind string, b *strings.Builder) string {
	nm := m.freshName(obj.Name())
	fmt.Fprintf(b, "%slet %s : %s := %s\n", ind, nm, allocmStruct, val)
	m.env[obj] = nm
	return nm
}

func (m *amCtx) logEff(eff, ind string, b *strings.Builder) error {
	if m.recvObj == nil {
		return fmt.Errorf("effect %s outside a method", eff)
	}
	cur := m.env[m.recvObj]
	m.setStruct(m.recvObj, fmt.Sprintf("{ %s with log := %s :: %s.log }", cur, eff, cur), ind, b)
	return nil
}

// fieldRef: `x.f` / `&x.f` on a struct variable
func (m *amCtx) fieldRef(e ast.Expr) (types.Object, *amField, bool) {
	e = unparen(e)
	if u, ok := e.(*ast.UnaryExpr); ok && u.Op == token.AND {
		e = unparen(u.X)
	}
	sel, ok := e.(*ast.SelectorExpr)
	if !ok {
		return nil, nil, false
	}
	obj, ok := m.structVar(sel.X)
	if !ok {
		return nil, nil, false
	}
	f := m.g.field(sel.Sel.Name)
	if f == nil {
		return nil, nil, false
	}
	return obj, f, true
}

func (m *amCtx) pkgVarParam(e ast.Expr) (string, amT, bool) {
	e = unparen(e)
	if u, ok := e.(*ast.UnaryExpr); ok && u.Op == token.AND {
		e = unparen(u.X)
	}
	id, ok := e.(*ast.Ident)
	if !ok {
		return "", amT{}, false
	}
	v, ok := m.pi.info.Uses[id].(*types.Var)
	if !ok || v.Parent() != m.pi.pkg.Scope() {
		return "", amT{}, false
	}
	if _, _, err := m.ctx.pkgVar(v); err == nil {
		return "", amT{}, false // constant initialiser: inlined by main.go
	}
	t, err := m.g.amType(v.Type())
	if err != nil || (t.k != "scalar" && t.k != "arr") {
		return "", amT{}, false
	}
	n := sanitize(v.Name())
	m.cur.needs[n] = t.lean()
	m.env[v] = n
	return n, t, true
}

func (m *amCtx) typeOf(e ast.Expr) (amT, bool) {
	tv, ok := m.pi.info.Types[e]
	if !ok || tv.Type == nil {
		return amT{}, false
	}
	if b, ok := tv.Type.(*types.Basic); ok && b.Kind() == types.Invalid {
		return amT{}, false
	}
	t, err := m.g.amType(tv.Type)
	if err != nil {
		return amT{}, false
	}
	return t, true
}

// ---------------------------------------------------------------- expressions

// hoist binds, in evaluation order, every sub-expression of e that can fail, has an effect or is
// not a scalar, and records what it bound in m.subst / m.nsub; ctx.expr renders the rest.
func (m *amCtx) hoist(e ast.Expr, ind string, b *strings.Builder) error {
	if e == nil {
		return nil
	}
	if tv, ok := m.pi.info.Types[e]; ok && tv.Value != nil {
		return nil // constant
	}
	switch x := e.(type) {
	case *ast.ParenExpr:
		return m.hoist(x.X, ind, b)
	case *ast.BasicLit:
		return nil
	case *ast.Ident:
		if x.Name == "nil" || x.Name == "true" || x.Name == "false" || x.Name == "_" {
			return nil
		}
		m.pkgVarParam(x)
		return nil
	case *ast.UnaryExpr:
		if x.Op == token.AND {
			return fmt.Errorf("address-of %q outside the subset", m.pi.src(x))
		}
		return m.hoist(x.X, ind, b)
	case *ast.BinaryExpr:
		if (x.Op == token.EQL || x.Op == token.NEQ) && (isNilIdent(x.X) || isNilIdent(x.Y)) {
			other := x.X
			if isNilIdent(x.X) {
				other = x.Y
			}
			if obj, ok := m.structVar(other); ok && obj == m.recvObj {
				m.cur.usesNil = true
				txt := m.nilName()
				if x.Op == token.NEQ {
					txt = "(!" + txt + ")"
				}
				m.subst[x] = substVal{txt, lty{kind: "bool"}}
				return nil
			}
			return fmt.Errorf("comparison %q with nil outside the subset", m.pi.src(x))
		}
		if (x.Op == token.LAND || x.Op == token.LOR) && m.effectful(x.Y) {
			return fmt.Errorf("%q: right operand of %s with a check or an effect outside the subset", m.pi.src(x), x.Op)
		}
		if err := m.hoist(x.X, ind, b); err != nil {
			return err
		}
		return m.hoist(x.Y, ind, b)
	case *ast.SelectorExpr:
		if obj, f, ok := m.fieldRef(x); ok {
			cur := m.env[obj]
			switch f.t.k {
			case "scalar":
				name := sanitize(f.goName)
				if f.goName == "Mutex" {
					return fmt.Errorf("direct use of the mutex field outside the subset")
				}
				m.subst[x] = substVal{cur + "." + name, f.t.l}
			case "slots":
				m.nsub[x] = amVal{cur + "." + sanitize(f.goName), f.t}
			case "string":
			default:
				return fmt.Errorf("field %s outside the subset", f.goName)
			}
		}
		return nil
	case *ast.IndexExpr:
		if err := m.hoist(x.X, ind, b); err != nil {
			return err
		}
		base, err := m.nsVal(x.X)
		if err != nil {
			return err
		}
		if err := m.hoist(x.Index, ind, b); err != nil {
			return err
		}
		idx, ti, err := m.expr(x.Index)
		if err != nil {
			return err
		}
		if ti.kind != "bv" || ti.w != 64 {
			return fmt.Errorf("index %q is not a 64-bit integer", m.pi.src(x.Index))
		}
		t := m.freshName("t")
		m.bind(b, ind, fmt.Sprintf("AM.rd %s %s %s", m.S(), base.text, nfAtom(idx)), t)
		switch base.t.k {
		case "slots":
			m.nsub[x] = amVal{t, amT{k: "bytes"}}
		case "arr":
			m.subst[x] = substVal{t, lty{"bv", base.t.l.w, base.t.l.signed}}
		default:
			return fmt.Errorf("index into %q outside the subset", m.pi.src(x.X))
		}
		return nil
	case *ast.SliceExpr:
		if x.Slice3 {
			return fmt.Errorf("3-index slice outside the subset")
		}
		if err := m.hoist(x.X, ind, b); err != nil {
			return err
		}
		base, err := m.nsVal(x.X)
		if err != nil {
			return err
		}
		if base.t.k != "bytes" {
			return fmt.Errorf("slice expression %q outside the subset", m.pi.src(x))
		}
		lo, hi := "0#64", fmt.Sprintf("(BitVec.ofNat 64 %s.len)", base.text)
		if x.Low != nil {
			if err := m.hoist(x.Low, ind, b); err != nil {
				return err
			}
			if lo, _, err = m.expr(x.Low); err != nil {
				return err
			}
		}
		if x.High != nil {
			if err := m.hoist(x.High, ind, b); err != nil {
				return err
			}
			if hi, _, err = m.expr(x.High); err != nil {
				return err
			}
		}
		t := m.freshName("t")
		m.bind(b, ind, fmt.Sprintf("AM.slice %s %s %s %s", m.S(), base.text, nfAtom(lo), nfAtom(hi)), t)
		m.nsub[x] = amVal{t, amT{k: "bytes"}}
		return nil
	case *ast.CallExpr:
		return m.hoistCall(x, ind, b)
	}
	return fmt.Errorf("expression %q outside the subset", m.pi.src(e))
}

func (m *amCtx) effectful(e ast.Expr) bool {
	found := false
	ast.Inspect(e, func(n ast.Node) bool {
		switch x := n.(type) {
		case *ast.IndexExpr, *ast.SliceExpr:
			found = true
		case *ast.CallExpr:
			fn := m.pi.src(x.Fun)
			if tvf, ok := m.pi.info.Types[x.Fun]; ok && tvf.IsType() {
				return true
			}
			if fn != "len" && fn != "cap" {
				found = true
			}
		}
		return !found
	})
	return found
}

func (m *amCtx) hoistCall(x *ast.CallExpr, ind string, b *strings.Builder) error {
	fun := m.pi.src(x.Fun)
	// conversions
	if tvf, ok := m.pi.info.Types[x.Fun]; ok && tvf.IsType() && len(x.Args) == 1 {
		if fun == "uintptr" {
			if inner, ok := unparen(x.Args[0]).(*ast.CallExpr); ok && m.pi.src(inner.Fun) == "unsafe.Pointer" && len(inner.Args) == 1 {
				u, ok := unparen(inner.Args[0]).(*ast.UnaryExpr)
				if !ok || u.Op != token.AND {
					return fmt.Errorf("%q outside the subset", m.pi.src(x))
				}
				ix, ok := unparen(u.X).(*ast.IndexExpr)
				if !ok {
					return fmt.Errorf("%q outside the subset", m.pi.src(x))
				}
				if err := m.hoist(ix.X, ind, b); err != nil {
					return err
				}
				base, err := m.nsVal(ix.X)
				if err != nil || base.t.k != "bytes" {
					return fmt.Errorf("%q outside the subset", m.pi.src(x))
				}
				if err := m.hoist(ix.Index, ind, b); err != nil {
					return err
				}
				idx, _, err := m.expr(ix.Index)
				if err != nil {
					return err
				}
				pname := sanitize(m.pi.src(ix.X)) + "_base"
				m.cur.addExtra(pname, "BitVec 64")
				t := m.freshName("t")
				m.bind(b, ind, fmt.Sprintf("AM.addrOf %s %s %s %s", m.S(), pname, base.text, nfAtom(idx)), t)
				m.subst[x] = substVal{t, lty{"bv", 64, false}}
				return nil
			}
		}
		return m.hoist(x.Args[0], ind, b)
	}
	switch fun {
	case "len", "cap":
		if len(x.Args) != 1 {
			break
		}
		if err := m.hoist(x.Args[0], ind, b); err != nil {
			return err
		}
		v, err := m.nsVal(x.Args[0])
		if err != nil {
			return err
		}
		intT := lty{"bv", 64, true}
		switch v.t.k {
		case "bytes":
			m.subst[x] = substVal{fmt.Sprintf("(BitVec.ofNat 64 %s.%s)", nfAtom(v.text), fun), intT}
		case "slots", "arr":
			m.subst[x] = substVal{fmt.Sprintf("(BitVec.ofNat 64 %s.size)", nfAtom(v.text)), intT}
		default:
			return fmt.Errorf("%q outside the subset", m.pi.src(x))
		}
		return nil
	case "atomic.AddUint64":
		if len(x.Args) != 2 {
			break
		}
		if err := m.hoist(x.Args[1], ind, b); err != nil {
			return err
		}
		v, _, err := m.expr(x.Args[1])
		if err != nil {
			return err
		}
		if obj, f, ok := m.fieldRef(x.Args[0]); ok && f.t.k == "scalar" {
			cur := m.env[obj]
			fn := sanitize(f.goName)
			nm := m.setStruct(obj, fmt.Sprintf("{ %s with %s := (%s.%s + %s) }", cur, fn, cur, fn, v), ind, b)
			m.subst[x] = substVal{nm + "." + fn, f.t.l}
			return nil
		}
		if n, t, ok := m.pkgVarParam(x.Args[0]); ok && t.k == "scalar" {
			// the update of the package variable itself is not modelled
			m.subst[x] = substVal{fmt.Sprintf("(%s + %s)", n, v), t.l}
			return nil
		}
		return fmt.Errorf("%q outside the subset", m.pi.src(x))
	case "atomic.LoadUint64":
		if len(x.Args) != 1 {
			break
		}
		if obj, f, ok := m.fieldRef(x.Args[0]); ok && f.t.k == "scalar" {
			m.subst[x] = substVal{m.env[obj] + "." + sanitize(f.goName), f.t.l}
			return nil
		}
		return fmt.Errorf("%q outside the subset", m.pi.src(x))
	case "bits.OnesCount64":
		if len(x.Args) != 1 {
			break
		}
		if err := m.hoist(x.Args[0], ind, b); err != nil {
			return err
		}
		a, _, err := m.expr(x.Args[0])
		if err != nil {
			return err
		}
		m.subst[x] = substVal{fmt.Sprintf("(AM.onesCount64 %s)", nfAtom(a)), lty{"bv", 64, true}}
		return nil
	case "Calloc":
		if len(x.Args) < 1 {
			break
		}
		return m.hoistCalloc(x, x.Args[0], ind, b)
	case "make":
		if len(x.Args) != 2 {
			return fmt.Errorf("%q outside the subset", m.pi.src(x))
		}
		t, ok := m.typeOf(x)
		if !ok {
			return fmt.Errorf("%q: unknown type", m.pi.src(x))
		}
		switch t.k {
		case "bytes":
			return m.hoistCalloc(x, x.Args[1], ind, b)
		case "slots":
			if err := m.hoist(x.Args[1], ind, b); err != nil {
				return err
			}
			n, _, err := m.expr(x.Args[1])
			if err != nil {
				return err
			}
			nm := m.freshName("t")
			m.bind(b, ind, fmt.Sprintf("AM.makeSlots %s %s", m.S(), nfAtom(n)), nm)
			m.nsub[x] = amVal{nm, t}
			return nil
		}
		return fmt.Errorf("%q outside the subset", m.pi.src(x))
	case "append":
		// append([]byte{}, buf...)
		if len(x.Args) == 2 && x.Ellipsis.IsValid() {
			if cl, ok := unparen(x.Args[0]).(*ast.CompositeLit); ok && len(cl.Elts) == 0 {
				if t, ok := m.typeOf(cl); ok && t.k == "bytes" {
					if err := m.hoist(x.Args[1], ind, b); err != nil {
						return err
					}
					v, err := m.nsVal(x.Args[1])
					if err != nil {
						return err
					}
					m.nsub[x] = amVal{fmt.Sprintf("(AM.clone %s)", nfAtom(v.text)), amT{k: "bytes"}}
					return nil
				}
			}
		}
		return fmt.Errorf("%q outside the subset", m.pi.src(x))
	}
	cf, recv := m.g.calleeOf(x)
	if cf == nil {
		return fmt.Errorf("call %q outside the subset", m.pi.src(x))
	}
	if cf.cut {
		return fmt.Errorf("call %q of a function with yield points must be a statement `x := f(..)`", m.pi.src(x))
	}
	if len(cf.resT) != 1 {
		return fmt.Errorf("call %q in expression position must have one result", m.pi.src(x))
	}
	names, err := m.emitCall(cf, recv, x, []string{"t"}, ind, b)
	if err != nil {
		return err
	}
	if cf.resT[0].k == "scalar" {
		m.subst[x] = substVal{names[0], cf.resT[0].l}
	} else {
		m.nsub[x] = amVal{names[0], cf.resT[0]}
	}
	return nil
}

func (m *amCtx) hoistCalloc(x *ast.CallExpr, n ast.Expr, ind string, b *strings.Builder) error {
	if err := m.hoist(n, ind, b); err != nil {
		return err
	}
	s, _, err := m.expr(n)
	if err != nil {
		return err
	}
	nm := m.freshName("t")
	m.bind(b, ind, fmt.Sprintf("AM.calloc %s %s", m.S(), nfAtom(s)), nm)
	m.nsub[x] = amVal{nm, amT{k: "bytes"}}
	return nil
}

// emitCall binds a call of the translated function cf; wants: base names for the results ("_" to
// drop one).  Returns the names bound to the results.
func (m *amCtx) emitCall(cf *amFunc, recv ast.Expr, x *ast.CallExpr, wants []string, ind string, b *strings.Builder) ([]string, error) {
	if cf.def.usesNil {
		return nil, fmt.Errorf("call %q of a function that tests its receiver for nil outside the subset", m.pi.src(x))
	}
	if len(cf.def.extra) > 0 {
		return nil, fmt.Errorf("call %q of a function with address parameters outside the subset", m.pi.src(x))
	}
	args := []string{}
	for _, a := range x.Args {
		if t, ok := m.typeOf(a); ok && t.k == "string" {
			continue
		}
		v, err := m.val(a, ind, b)
		if err != nil {
			return nil, err
		}
		args = append(args, nfAtom(v.text))
	}
	if len(args) != len(cf.params) {
		return nil, fmt.Errorf("arity mismatch in %q", m.pi.src(x))
	}
	m.cur.merge(cf.def)
	call := "Gen.AllocM." + cf.lean + cf.def.leadArgs("false")
	var robj types.Object
	if cf.recv != nil {
		obj, ok := m.structVar(recv)
		if !ok {
			return nil, fmt.Errorf("receiver of %q outside the subset", m.pi.src(x))
		}
		robj = obj
		call += " " + m.env[obj]
	}
	if len(args) > 0 {
		call += " " + strings.Join(args, " ")
	}
	names := []string{}
	pats := []string{}
	for i := range cf.resT {
		w := "t"
		if i < len(wants) {
			w = wants[i]
		}
		if w == "_" {
			names = append(names, "_")
			pats = append(pats, "_")
			continue
		}
		n := m.freshName(w)
		names = append(names, n)
		pats = append(pats, n)
	}
	resPat := "_"
	if len(pats) == 1 {
		resPat = pats[0]
	} else if len(pats) > 1 {
		resPat = "(" + strings.Join(pats, ", ") + ")"
	}
	if cf.recv != nil {
		if robj != m.recvObj {
			return nil, fmt.Errorf("method call %q on a struct variable that is not the receiver outside the subset", m.pi.src(x))
		}
		nn := m.freshName(robj.Name())
		m.bind(b, ind, call, fmt.Sprintf("(%s, %s)", nn, resPat))
		m.env[robj] = nn
	} else if m.recvObj != nil {
		m.bind(b, ind, fmt.Sprintf("AM.Res.lift %s (%s)", m.S(), call), resPat)
	} else {
		m.bind(b, ind, call, resPat)
	}
	return names, nil
}

// nsVal renders a non-scalar expression that hoist has already seen.
func (m *amCtx) nsVal(e ast.Expr) (amVal, error) {
	e = unparen(e)
	if v, ok := m.nsub[e]; ok {
		return v, nil
	}
	if id, ok := e.(*ast.Ident); ok {
		if id.Name == "nil" {
			return amVal{"AM.Bytes.nil", amT{k: "bytes"}}, nil
		}
		if obj := m.objOf(id); obj != nil {
			if n, ok := m.env[obj]; ok {
				t, err := m.g.amType(obj.Type())
				if err != nil {
					return amVal{}, err
				}
				return amVal{n, t}, nil
			}
		}
	}
	return amVal{}, fmt.Errorf("expression %q outside the subset", m.pi.src(e))
}

// val hoists e and renders it.
func (m *amCtx) val(e ast.Expr, ind string, b *strings.Builder) (amVal, error) {
	if err := m.hoist(e, ind, b); err != nil {
		return amVal{}, err
	}
	ue := unparen(e)
	if _, ok := m.nsub[ue]; ok {
		return m.nsVal(ue)
	}
	if _, ok := m.subst[ue]; !ok {
		if id, ok := ue.(*ast.Ident); ok && id.Name == "nil" {
			return m.nsVal(ue)
		}
		if t, ok := m.typeOf(ue); ok && t.k != "scalar" {
			return m.nsVal(ue)
		}
	}
	s, t, err := m.expr(e)
	if err != nil {
		return amVal{}, err
	}
	return amVal{s, amT{k: "scalar", l: t}}, nil
}

// ---------------------------------------------------------------- which variables a statement list writes

func (m *amCtx) assignedAM(stmts []ast.Stmt, out assignSet) {
	mark := func(e ast.Expr) {
		e = unparen(e)
		switch x := e.(type) {
		case *ast.Ident:
			if o := m.pi.info.Uses[x]; o != nil {
				out[o] = true
			}
		case *ast.IndexExpr:
			if o, _, ok := m.fieldRef(x.X); ok {
				out[o] = true
			}
		case *ast.SelectorExpr:
			if o, _, ok := m.fieldRef(x); ok {
				out[o] = true
			}
		}
	}
	for _, st := range stmts {
		ast.Inspect(st, func(n ast.Node) bool {
			switch x := n.(type) {
			case *ast.AssignStmt:
				for _, l := range x.Lhs {
					if id, ok := l.(*ast.Ident); ok && x.Tok == token.DEFINE && m.pi.info.Defs[id] != nil {
						continue
					}
					mark(l)
				}
			case *ast.IncDecStmt:
				mark(x.X)
			case *ast.CallExpr:
				fn := m.pi.src(x.Fun)
				switch fn {
				case "atomic.AddUint64", "atomic.StoreUint64":
					if len(x.Args) > 0 {
						if o, _, ok := m.fieldRef(x.Args[0]); ok {
							out[o] = true
						}
					}
				case "verifObserve", "ZeroOut", "copy", "Free":
					if m.recvObj != nil {
						out[m.recvObj] = true
					}
				}
				if sel, ok := x.Fun.(*ast.SelectorExpr); ok {
					if o, ok := m.structVar(sel.X); ok {
						out[o] = true // Lock / Unlock / a method
					}
				}
			}
			return true
		})
	}
}

func (m *amCtx) containsJump(stmts []ast.Stmt) bool {
	found := false
	for _, s := range stmts {
		ast.Inspect(s, func(n ast.Node) bool {
			switch x := n.(type) {
			case *ast.ReturnStmt, *ast.BranchStmt:
				found = true
			case *ast.CallExpr:
				fn := m.pi.src(x.Fun)
				if fn == "panic" || fn == "verifPoint" {
					found = true
				}
				if cf, _ := m.g.calleeOf(x); cf != nil && cf.cut {
					found = true
				}
			case *ast.ForStmt, *ast.RangeStmt:
				// break / continue inside a nested loop belong to it; a return or a yield does not
				if containsReturn([]ast.Stmt{x.(ast.Stmt)}) || m.g.containsCut(x) {
					found = true
				}
				return false
			}
			return !found
		})
	}
	return found
}

// ---------------------------------------------------------------- statements

func (m *amCtx) stateNames(objs []types.Object) []string {
	names := []string{}
	for _, o := range objs {
		names = append(names, m.env[o])
	}
	return names
}

func (m *amCtx) stateTypes(objs []types.Object) (string, error) {
	ts := []string{}
	for _, o := range objs {
		t, err := m.g.amType(o.Type())
		if err != nil {
			return "", err
		}
		ts = append(ts, t.lean())
	}
	if len(ts) == 0 {
		return "Unit", nil
	}
	if len(ts) == 1 {
		return ts[0], nil
	}
	return "(" + strings.Join(ts, " × ") + ")", nil
}

func (m *amCtx) isSkipped(st ast.Stmt) bool {
	txt := strings.Join(strings.Fields(m.pi.src(st)), " ")
	for _, s := range allocmSkip[m.f.key] {
		if s == txt {
			return true
		}
	}
	return false
}

func (m *amCtx) blockM(stmts []ast.Stmt, ind string, k func() (string, error)) (string, error) {
	if len(stmts) == 0 {
		return k()
	}
	st, rest := stmts[0], stmts[1:]
	next := func() (string, error) { return m.blockM(rest, ind, k) }
	if m.isSkipped(st) {
		return next()
	}
	var b strings.Builder
	cont := func() (string, error) {
		r, err := next()
		return b.String() + r, err
	}
	switch x := st.(type) {
	case *ast.EmptyStmt:
		return next()
	case *ast.BlockStmt:
		return m.blockM(append(append([]ast.Stmt{}, x.List...), rest...), ind, k)
	case *ast.ReturnStmt:
		if len(x.Results) == 0 && len(m.f.resT) > 0 {
			return "", fmt.Errorf("naked return outside the subset")
		}
		vals := []string{}
		for _, r := range x.Results {
			v, err := m.val(r, ind, &b)
			if err != nil {
				return "", err
			}
			vals = append(vals, v.text)
		}
		return b.String() + ind + m.retWrap(vals), nil
	case *ast.BranchStmt:
		if x.Label != nil {
			return "", fmt.Errorf("labelled %s outside the subset", x.Tok)
		}
		switch x.Tok {
		case token.CONTINUE:
			if m.contK != nil {
				return m.contK(ind)
			}
		case token.BREAK:
			if m.brkK != nil {
				return m.brkK(ind)
			}
		}
		return "", fmt.Errorf("%s outside a loop / outside the subset", x.Tok)
	case *ast.DeclStmt:
		gd := x.Decl.(*ast.GenDecl)
		for _, sp := range gd.Specs {
			vs, ok := sp.(*ast.ValueSpec)
			if !ok {
				return "", fmt.Errorf("declaration outside the subset")
			}
			for i, n := range vs.Names {
				obj := m.pi.info.Defs[n]
				t, err := m.g.amType(obj.Type())
				if err != nil {
					return "", err
				}
				val := ""
				switch {
				case i < len(vs.Values):
					v, err := m.val(vs.Values[i], ind, &b)
					if err != nil {
						return "", err
					}
					val = v.text
				case t.k == "scalar" && t.l.kind == "bv":
					val = fmt.Sprintf("0#%d", t.l.w)
				case t.k == "scalar":
					val = "false"
				case t.k == "bytes":
					val = "AM.Bytes.nil"
				default:
					return "", fmt.Errorf("zero value of %s outside the subset", obj.Type())
				}
				nm := m.freshName(n.Name)
				fmt.Fprintf(&b, "%slet %s : %s := %s\n", ind, nm, t.lean(), val)
				m.env[obj] = nm
			}
		}
		return cont()
	case *ast.AssignStmt:
		// x := f(..) with f a function that has yield points: stop here, go on after the call
		if len(x.Rhs) == 1 {
			if call, ok := unparen(x.Rhs[0]).(*ast.CallExpr); ok {
				if cf, recv := m.g.calleeOf(call); cf != nil && cf.cut {
					return m.callCut(x, call, cf, recv, ind, next)
				}
			}
		}
		if err := m.assignAM(x, ind, &b); err != nil {
			return "", err
		}
		return cont()
	case *ast.IncDecStmt:
		if _, ok := x.X.(*ast.Ident); !ok {
			return "", fmt.Errorf("%q outside the subset", m.pi.src(x))
		}
		op := token.ADD_ASSIGN
		if x.Tok == token.DEC {
			op = token.SUB_ASSIGN
		}
		s, err := m.assignOp(x.X, op, &ast.BasicLit{Kind: token.INT, Value: "1"}, ind, true)
		if err != nil {
			return "", err
		}
		b.WriteString(s)
		return cont()
	case *ast.ExprStmt:
		call, ok := x.X.(*ast.CallExpr)
		if !ok {
			break
		}
		done, jump, err := m.callStmt(call, ind, &b, next)
		if err != nil {
			return "", err
		}
		if jump != "" {
			return b.String() + jump, nil
		}
		if done {
			return cont()
		}
	case *ast.IfStmt:
		if x.Init != nil {
			return "", fmt.Errorf("if with init statement outside the subset")
		}
		return m.ifAM(x, ind, next)
	case *ast.ForStmt:
		if c, ok := m.f.cutByNode[x]; ok {
			return m.cutLoop(x, c, ind, next)
		}
		return m.loopAM(x, nil, ind, next)
	case *ast.RangeStmt:
		return m.loopAM(nil, x, ind, next)
	}
	return "", fmt.Errorf("statement %q outside the subset", firstLine(m.pi.src(st)))
}

// callStmt: a call in statement position.  jump != "": the statement ends the section.
func (m *amCtx) callStmt(call *ast.CallExpr, ind string, b *strings.Builder, next func() (string, error)) (bool, string, error) {
	fun := m.pi.src(call.Fun)
	vals := func() ([]amVal, error) {
		out := []amVal{}
		for _, a := range call.Args {
			v, err := m.val(a, ind, b)
			if err != nil {
				return nil, err
			}
			out = append(out, v)
		}
		return out, nil
	}
	switch fun {
	case "panic":
		return false, ind + ".panic .user " + m.S(), nil
	case "assert":
		if len(call.Args) != 1 {
			break
		}
		c, err := m.val(call.Args[0], ind, b)
		if err != nil {
			return false, "", err
		}
		m.bind(b, ind, fmt.Sprintf("AM.guard %s %s", m.S(), nfAtom(c.text)), "_")
		return true, "", nil
	case "verifPoint":
		c, ok := m.f.cutByNode[call]
		if !ok || m.inLoop > 0 {
			return false, "", fmt.Errorf("yield point %q inside an ordinary loop outside the subset", m.pi.src(call))
		}
		m.registerCut(c, fmt.Sprintf("from the yield point `%s`", m.pi.src(call)), next)
		return false, ind + m.yield(c, nil), nil
	case "verifObserve":
		vs, err := vals()
		if err != nil || len(vs) != 3 {
			return false, "", fmt.Errorf("%q outside the subset (%v)", m.pi.src(call), err)
		}
		return true, "", m.logEff(fmt.Sprintf("AM.Eff.obs %s %s %s", nfAtom(vs[0].text), nfAtom(vs[1].text), nfAtom(vs[2].text)), ind, b)
	case "ZeroOut":
		vs, err := vals()
		if err != nil || len(vs) != 3 || vs[0].t.k != "bytes" {
			return false, "", fmt.Errorf("%q outside the subset (%v)", m.pi.src(call), err)
		}
		return true, "", m.logEff(fmt.Sprintf("AM.Eff.zeroOut %s %s %s", nfAtom(vs[0].text), nfAtom(vs[1].text), nfAtom(vs[2].text)), ind, b)
	case "copy":
		vs, err := vals()
		if err != nil || len(vs) != 2 || vs[0].t.k != "bytes" || vs[1].t.k != "bytes" {
			return false, "", fmt.Errorf("%q outside the subset (%v)", m.pi.src(call), err)
		}
		return true, "", m.logEff(fmt.Sprintf("AM.Eff.copy %s %s", nfAtom(vs[0].text), nfAtom(vs[1].text)), ind, b)
	case "Free":
		vs, err := vals()
		if err != nil || len(vs) != 1 || vs[0].t.k != "bytes" {
			return false, "", fmt.Errorf("%q outside the subset (%v)", m.pi.src(call), err)
		}
		return true, "", m.logEff(fmt.Sprintf("AM.Eff.free %s", nfAtom(vs[0].text)), ind, b)
	case "atomic.StoreUint64":
		if len(call.Args) != 2 {
			break
		}
		obj, f, ok := m.fieldRef(call.Args[0])
		if !ok || f.t.k != "scalar" {
			return false, "", fmt.Errorf("%q outside the subset", m.pi.src(call))
		}
		v, err := m.val(call.Args[1], ind, b)
		if err != nil {
			return false, "", err
		}
		cur := m.env[obj]
		m.setStruct(obj, fmt.Sprintf("{ %s with %s := %s }", cur, sanitize(f.goName), v.text), ind, b)
		return true, "", nil
	}
	if sel, ok := call.Fun.(*ast.SelectorExpr); ok && len(call.Args) == 0 {
		if obj, ok := m.structVar(sel.X); ok && m.g.field("Mutex") != nil {
			cur := m.env[obj]
			switch sel.Sel.Name {
			case "Lock":
				m.bind(b, ind, fmt.Sprintf("AM.lock %s %s.locked", m.S(), cur), "_")
				m.setStruct(obj, fmt.Sprintf("{ %s with locked := true }", cur), ind, b)
				return true, "", nil
			case "Unlock":
				m.setStruct(obj, fmt.Sprintf("{ %s with locked := false }", cur), ind, b)
				return true, "", nil
			}
		}
	}
	cf, recv := m.g.calleeOf(call)
	if cf == nil {
		return false, "", fmt.Errorf("call %q outside the subset", m.pi.src(call))
	}
	if cf.cut {
		return false, "", fmt.Errorf("call %q of a function with yield points must be `x := f(..)`", m.pi.src(call))
	}
	wants := []string{}
	for range cf.resT {
		wants = append(wants, "_")
	}
	if _, err := m.emitCall(cf, recv, call, wants, ind, b); err != nil {
		return false, "", err
	}
	return true, "", nil
}

func (m *amCtx) bindLocal(id *ast.Ident, v amVal, ind string, b *strings.Builder) error {
	if id.Name == "_" {
		return nil
	}
	obj := m.objOf(id)
	t, err := m.g.amType(obj.Type())
	if err != nil {
		return err
	}
	if t.k == "struct" {
		return fmt.Errorf("assignment to the struct variable %s outside the subset", id.Name)
	}
	nm := m.freshName(id.Name)
	fmt.Fprintf(b, "%slet %s : %s := %s\n", ind, nm, t.lean(), v.text)
	m.env[obj] = nm
	return nil
}

func (m *amCtx) assignAM(x *ast.AssignStmt, ind string, b *strings.Builder) error {
	// several results of one call
	if len(x.Rhs) == 1 && len(x.Lhs) > 1 {
		call, ok := unparen(x.Rhs[0]).(*ast.CallExpr)
		if !ok {
			return fmt.Errorf("assignment %q outside the subset", firstLine(m.pi.src(x)))
		}
		cf, recv := m.g.calleeOf(call)
		if cf == nil || cf.cut || len(cf.resT) != len(x.Lhs) {
			return fmt.Errorf("assignment %q outside the subset", firstLine(m.pi.src(x)))
		}
		wants := []string{}
		for _, l := range x.Lhs {
			id, ok := l.(*ast.Ident)
			if !ok {
				return fmt.Errorf("assignment target %q outside the subset", m.pi.src(l))
			}
			wants = append(wants, id.Name)
		}
		names, err := m.emitCall(cf, recv, call, wants, ind, b)
		if err != nil {
			return err
		}
		for i, l := range x.Lhs {
			id := l.(*ast.Ident)
			if id.Name == "_" {
				continue
			}
			m.env[m.objOf(id)] = names[i]
		}
		return nil
	}
	if len(x.Lhs) != 1 || len(x.Rhs) != 1 {
		return fmt.Errorf("assignment %q outside the subset", firstLine(m.pi.src(x)))
	}
	lhs, rhs := x.Lhs[0], x.Rhs[0]
	if x.Tok != token.ASSIGN && x.Tok != token.DEFINE {
		if _, ok := lhs.(*ast.Ident); !ok {
			return fmt.Errorf("%q outside the subset", firstLine(m.pi.src(x)))
		}
		if err := m.hoist(rhs, ind, b); err != nil {
			return err
		}
		s, err := m.assignOp(lhs, x.Tok, rhs, ind, false)
		if err != nil {
			return err
		}
		b.WriteString(s)
		return nil
	}
	// a := &Allocator{…}
	if u, ok := unparen(rhs).(*ast.UnaryExpr); ok && u.Op == token.AND {
		if cl, ok := unparen(u.X).(*ast.CompositeLit); ok {
			id, ok := lhs.(*ast.Ident)
			if !ok || x.Tok != token.DEFINE {
				return fmt.Errorf("%q outside the subset", firstLine(m.pi.src(x)))
			}
			obj := m.pi.info.Defs[id]
			if t, err := m.g.amType(obj.Type()); err != nil || t.k != "struct" {
				return fmt.Errorf("%q outside the subset", firstLine(m.pi.src(x)))
			}
			parts := []string{}
			for _, el := range cl.Elts {
				kv, ok := el.(*ast.KeyValueExpr)
				if !ok {
					return fmt.Errorf("positional struct literal outside the subset")
				}
				f := m.g.field(m.pi.src(kv.Key))
				if f == nil {
					return fmt.Errorf("unknown field %s", m.pi.src(kv.Key))
				}
				if f.t.k == "string" {
					continue
				}
				v, err := m.val(kv.Value, ind, b)
				if err != nil {
					return err
				}
				parts = append(parts, fmt.Sprintf("%s := %s", sanitize(f.goName), v.text))
			}
			nm := m.freshName(id.Name)
			fmt.Fprintf(b, "%slet %s : %s := { %s }\n", ind, nm, allocmStruct, strings.Join(parts, ", "))
			m.env[obj] = nm
			return nil
		}
	}
	switch l := lhs.(type) {
	case *ast.Ident:
		v, err := m.val(rhs, ind, b)
		if err != nil {
			return err
		}
		return m.bindLocal(l, v, ind, b)
	case *ast.IndexExpr:
		obj, f, ok := m.fieldRef(l.X)
		if !ok || f.t.k != "slots" {
			return fmt.Errorf("assignment target %q outside the subset", m.pi.src(l))
		}
		if err := m.hoist(l.Index, ind, b); err != nil {
			return err
		}
		idx, _, err := m.expr(l.Index)
		if err != nil {
			return err
		}
		v, err := m.val(rhs, ind, b)
		if err != nil {
			return err
		}
		cur := m.env[obj]
		fn := sanitize(f.goName)
		t := m.freshName("t")
		m.bind(b, ind, fmt.Sprintf("AM.wr %s %s.%s %s %s", m.S(), cur, fn, nfAtom(idx), nfAtom(v.text)), t)
		m.setStruct(obj, fmt.Sprintf("{ %s with %s := %s }", cur, fn, t), ind, b)
		return nil
	case *ast.SelectorExpr:
		obj, f, ok := m.fieldRef(l)
		if !ok || f.t.k != "scalar" || f.goName == "Mutex" {
			return fmt.Errorf("assignment target %q outside the subset", m.pi.src(l))
		}
		v, err := m.val(rhs, ind, b)
		if err != nil {
			return err
		}
		cur := m.env[obj]
		m.setStruct(obj, fmt.Sprintf("{ %s with %s := %s }", cur, sanitize(f.goName), v.text), ind, b)
		return nil
	}
	return fmt.Errorf("assignment target %q outside the subset", m.pi.src(lhs))
}

func (m *amCtx) ifAM(x *ast.IfStmt, ind string, next func() (string, error)) (string, error) {
	var b strings.Builder
	cond, err := m.val(x.Cond, ind, &b)
	if err != nil {
		return "", err
	}
	var elseStmts []ast.Stmt
	switch e := x.Else.(type) {
	case nil:
	case *ast.BlockStmt:
		elseStmts = e.List
	case *ast.IfStmt:
		elseStmts = []ast.Stmt{e}
	}
	saved := m.saveEnv()
	if !m.containsJump(x.Body.List) && !m.containsJump(elseStmts) {
		as := assignSet{}
		m.assignedAM(x.Body.List, as)
		m.assignedAM(elseStmts, as)
		objs := sortedObjs(m.ctx, as)
		const joinMark = "\x00JOIN\x00"
		bindsBefore := m.binds
		joinK := func() (string, error) { return joinMark + tuple(m.stateNames(objs)), nil }
		tb, err := m.blockM(x.Body.List, ind+"    ", joinK)
		if err != nil {
			return "", err
		}
		m.restoreEnv(saved)
		eb, err := m.blockM(elseStmts, ind+"    ", joinK)
		if err != nil {
			return "", err
		}
		m.restoreEnv(saved)
		pure := m.binds == bindsBefore
		newNames := []string{}
		for _, o := range objs {
			newNames = append(newNames, m.freshName(o.Name()))
		}
		for i, o := range objs {
			m.env[o] = newNames[i]
		}
		r, err := next()
		if err != nil {
			return "", err
		}
		if len(objs) == 0 && pure {
			return b.String() + r, nil
		}
		pat := "_"
		if len(newNames) > 0 {
			pat = tuple(newNames)
		}
		if pure {
			tb = strings.ReplaceAll(tb, joinMark, ind+"    ")
			eb = strings.ReplaceAll(eb, joinMark, ind+"    ")
			ty, err := m.stateTypes(objs)
			if err != nil {
				return "", err
			}
			fmt.Fprintf(&b, "%slet %s : %s :=\n%s  if %s then\n%s\n%s  else\n%s\n", ind, pat, ty, ind, cond.text, tb, ind, eb)
			return b.String() + r, nil
		}
		tb = strings.ReplaceAll(tb, joinMark, ind+"    .ok ")
		eb = strings.ReplaceAll(eb, joinMark, ind+"    .ok ")
		m.binds++
		fmt.Fprintf(&b, "%s(if %s then\n%s\n%s  else\n%s).bind fun %s =>\n", ind, cond.text, tb, ind, eb, pat)
		return b.String() + r, nil
	}
	// a branch leaves the function, the loop round or the section: the rest goes into both branches
	tb, err := m.blockM(x.Body.List, ind+"  ", next)
	if err != nil {
		return "", err
	}
	m.restoreEnv(saved)
	eb, err := m.blockM(elseStmts, ind, next)
	if err != nil {
		return "", err
	}
	m.restoreEnv(saved)
	fmt.Fprintf(&b, "%sif %s then\n%s\n%selse\n%s", ind, cond.text, tb, ind, eb)
	return b.String(), nil
}

// loopAM: `for cond {}` / `for {}` (x) or `for i, v := range a.buffers {}` (rx), without yield points.
func (m *amCtx) loopAM(x *ast.ForStmt, rx *ast.RangeStmt, ind string, next func() (string, error)) (string, error) {
	var bodyStmts []ast.Stmt
	var head string
	if x != nil {
		if x.Init != nil || x.Post != nil {
			return "", fmt.Errorf("three-clause for loop outside the subset")
		}
		if m.g.containsCut(x.Body) {
			return "", fmt.Errorf("yield point inside a loop that is not `for {` outside the subset")
		}
		bodyStmts = x.Body.List
		head = firstLine(m.pi.src(x))
	} else {
		if m.g.containsCut(rx.Body) {
			return "", fmt.Errorf("yield point inside a range loop outside the subset")
		}
		bodyStmts = rx.Body.List
		head = firstLine(m.pi.src(rx))
	}
	head = strings.Join(strings.Fields(head), " ")
	var b strings.Builder
	as := assignSet{}
	m.assignedAM(bodyStmts, as)
	// the range expression is evaluated once, before the loop
	var rangeN, rangeField string
	var rangeObj types.Object
	if rx != nil {
		obj, f, ok := m.fieldRef(rx.X)
		if !ok || f.t.k != "slots" {
			return "", fmt.Errorf("range over %q outside the subset", m.pi.src(rx.X))
		}
		rangeObj, rangeField = obj, sanitize(f.goName)
		rangeN = fmt.Sprintf("%s.%s.size", m.env[obj], rangeField)
		// the body must not replace the slice itself
		bad := false
		for _, st := range bodyStmts {
			ast.Inspect(st, func(n ast.Node) bool {
				if asg, ok := n.(*ast.AssignStmt); ok {
					for _, l := range asg.Lhs {
						if o, f2, ok := m.fieldRef(l); ok && o == obj && f2 == f {
							if _, isSel := unparen(l).(*ast.SelectorExpr); isSel {
								bad = true
							}
						}
					}
				}
				return true
			})
		}
		if bad {
			return "", fmt.Errorf("the body of %q assigns the slice it ranges over", head)
		}
	}
	objs := sortedObjs(m.ctx, as)
	saved := m.saveEnv()
	outerFresh := map[types.Object]string{}
	for o, n := range saved {
		outerFresh[o] = n
	}
	stNames := []string{}
	for _, o := range objs {
		n := m.freshName(o.Name())
		stNames = append(stNames, n)
		m.env[o] = n
	}
	sigmaTy, err := m.stateTypes(objs)
	if err != nil {
		return "", err
	}
	stPat := "_"
	if len(stNames) > 0 {
		stPat = tuple(stNames)
	}
	oldRetWrap, oldRetRaw, oldCont, oldBrk := m.retWrap, m.retRaw, m.contK, m.brkK
	m.retRaw = func(v string) string { return ".ok (.ret " + nfAtom(v) + ")" }
	f := m.f
	m.retWrap = func(vals []string) string {
		v := tuple(vals)
		if f.cut {
			ctor := fmt.Sprintf("%s_Out.ret", f.lean)
			if len(vals) > 0 {
				ctor += " " + nfAtom(v)
			}
			return m.retRaw(fmt.Sprintf("(%s, %s)", m.env[m.recvObj], ctor))
		}
		if f.recv != nil {
			return m.retRaw(fmt.Sprintf("(%s, %s)", m.env[m.recvObj], v))
		}
		return m.retRaw(v)
	}
	bind := "    "
	m.contK = func(ind string) (string, error) { return ind + ".ok (.next " + tuple(m.stateNames(objs)) + ")", nil }
	m.brkK = func(ind string) (string, error) { return ind + ".ok (.brk " + tuple(m.stateNames(objs)) + ")", nil }
	m.inLoop++
	var body strings.Builder
	iName := ""
	if rx != nil {
		iName = m.freshName("i")
		if id, ok := rx.Key.(*ast.Ident); ok && id.Name != "_" {
			iName = m.freshName(id.Name)
			m.env[m.pi.info.Defs[id]] = iName
		}
		if rx.Value != nil {
			id, ok := rx.Value.(*ast.Ident)
			if !ok {
				return "", fmt.Errorf("range value %q outside the subset", m.pi.src(rx.Value))
			}
			if id.Name != "_" {
				vn := m.freshName(id.Name)
				m.bind(&body, bind, fmt.Sprintf("AM.rd %s %s.%s %s", m.S(), m.env[rangeObj], rangeField, iName), vn)
				m.env[m.pi.info.Defs[id]] = vn
			}
		}
	}
	var inner string
	if x != nil && x.Cond != nil {
		c, err := m.val(x.Cond, bind, &body)
		if err != nil {
			return "", err
		}
		brk, _ := m.brkK(bind + "  ")
		rest, err := m.blockM(bodyStmts, bind+"  ", func() (string, error) { return m.contK(bind + "  ") })
		if err != nil {
			return "", err
		}
		inner = fmt.Sprintf("%sif %s then\n%s\n%selse\n%s", bind, c.text, rest, bind, brk)
	} else {
		var err error
		inner, err = m.blockM(bodyStmts, bind, func() (string, error) { return m.contK(bind) })
		if err != nil {
			return "", err
		}
	}
	m.inLoop--
	m.retWrap, m.retRaw, m.contK, m.brkK = oldRetWrap, oldRetRaw, oldCont, oldBrk
	bodyTxt := body.String() + inner
	m.restoreEnv(saved)
	// the loop body as a definition of its own
	m.nloops++
	loopName := fmt.Sprintf("%s_loop%d", f.lean, m.nloops)
	var capNames, capDecls []string
	var capObjs []types.Object
	for o := range saved {
		capObjs = append(capObjs, o)
	}
	sort.Slice(capObjs, func(i, j int) bool { return capObjs[i].Pos() < capObjs[j].Pos() })
	seen := map[string]bool{}
	lead := ""
	leadArgs := ""
	if amMentions(bodyTxt, "fuel") {
		lead += " (fuel : Nat)"
		leadArgs += " fuel"
	}
	if amMentions(bodyTxt, m.nilName()) {
		lead += fmt.Sprintf(" (%s : Bool)", m.nilName())
		leadArgs += " " + m.nilName()
	}
	for _, o := range capObjs {
		name := saved[o]
		isState := false
		for _, so := range objs {
			if so == o {
				isState = true
			}
		}
		if isState || seen[name] || !amMentions(bodyTxt, name) {
			continue
		}
		t, err := m.g.amType(o.Type())
		if err != nil {
			continue
		}
		seen[name] = true
		capNames = append(capNames, name)
		capDecls = append(capDecls, fmt.Sprintf("(%s : %s)", name, t.lean()))
	}
	for _, n := range m.cur.needNames() {
		if amMentions(bodyTxt, n) && !seen[n] {
			seen[n] = true
			capNames = append(capNames, n)
			capDecls = append(capDecls, fmt.Sprintf("(%s : %s)", n, m.cur.needs[n]))
		}
	}
	iDecl := ""
	if rx != nil {
		iDecl = fmt.Sprintf(" (%s : BitVec 64)", iName)
	}
	var aux strings.Builder
	fmt.Fprintf(&aux, "/-- z.%s: one round of the loop `%s` -/\ndef %s%s%s%s :\n    %s → AM.Res %s (AM.LoopOut %s %s)\n  | %s =>\n%s\n\n",
		f.key, head, loopName, lead, nfLead(strings.Join(capDecls, " ")), iDecl,
		sigmaTy, f.sigma(), f.rho(), nfAtom(sigmaTy), stPat, bodyTxt)
	m.aux = append(m.aux, aux.String())
	loopCall := "Gen.AllocM." + loopName + leadArgs
	if len(capNames) > 0 {
		loopCall += " " + strings.Join(capNames, " ")
	}
	if strings.Contains(loopCall, " ") {
		loopCall = "(" + loopCall + ")"
	}
	init0 := tuple(m.stateNames(objs))
	// after the loop
	newNames := []string{}
	for _, o := range objs {
		newNames = append(newNames, m.freshName(o.Name()))
	}
	// where the allocator is when the fuel runs out
	spinAt := fmt.Sprintf("(fun _ => %s)", m.S())
	for i, o := range objs {
		if o == m.recvObj {
			spinAt = fmt.Sprintf("(fun %s => %s)", tuple(stNames), stNames[i])
		}
	}
	for i, o := range objs {
		m.env[o] = newNames[i]
	}
	r, err := next()
	if err != nil {
		return "", err
	}
	donePat := "_"
	if len(newNames) > 0 {
		donePat = tuple(newNames)
	}
	m.binds++
	if rx != nil {
		fmt.Fprintf(&b, "%s(AM.forRange (ρ := %s) %s %s %s).bind fun\n", ind, f.rho(), rangeN, loopCall, init0)
	} else {
		m.cur.usesFuel = true
		fmt.Fprintf(&b, "%s(AM.loop (ρ := %s) %s %s fuel %s).bind fun\n", ind, f.rho(), spinAt, loopCall, init0)
	}
	fmt.Fprintf(&b, "%s  | .ret v => %s\n", ind, m.retRaw("v"))
	fmt.Fprintf(&b, "%s  | .done %s =>\n", ind, donePat)
	return b.String() + indent(r, "    "), nil
}

// cutLoop: a `for {` loop that contains yield points.  Its head is a section boundary (`top`):
// entering the loop, `continue` and falling off the end of the body all stop there.
func (m *amCtx) cutLoop(x *ast.ForStmt, c *amCut, ind string, next func() (string, error)) (string, error) {
	if m.inLoop > 0 {
		return "", fmt.Errorf("loop with yield points inside an ordinary loop outside the subset")
	}
	oldCont, oldBrk := m.contK, m.brkK
	m.contK = func(ind string) (string, error) { return ind + m.yield(c, nil), nil }
	m.brkK = func(string) (string, error) { return next() }
	m.registerCut(c, fmt.Sprintf("from the head of the loop `%s`", strings.Join(strings.Fields(firstLine(m.pi.src(x))), " ")), func() (string, error) {
		return m.blockM(x.Body.List, "  ", func() (string, error) { return "  " + m.yield(c, nil), nil })
	})
	m.contK, m.brkK = oldCont, oldBrk
	return ind + m.yield(c, nil), nil
}

// callCut: `x := f(args)` where f has yield points: the section stops with `call_f args… live…`;
// the section `after_f` goes on with the result.
func (m *amCtx) callCut(x *ast.AssignStmt, call *ast.CallExpr, cf *amFunc, recv ast.Expr, ind string, next func() (string, error)) (string, error) {
	c, ok := m.f.cutByNode[call]
	if !ok || m.inLoop > 0 {
		return "", fmt.Errorf("call %q of a function with yield points inside an ordinary loop outside the subset", m.pi.src(call))
	}
	if len(x.Lhs) != 1 || len(cf.resT) != 1 || x.Tok != token.DEFINE {
		return "", fmt.Errorf("%q outside the subset (want `x := f(..)`)", firstLine(m.pi.src(x)))
	}
	id, ok := x.Lhs[0].(*ast.Ident)
	if !ok {
		return "", fmt.Errorf("%q outside the subset", firstLine(m.pi.src(x)))
	}
	if obj, ok := m.structVar(recv); !ok || obj != m.recvObj {
		return "", fmt.Errorf("call %q: the callee must run on the receiver", m.pi.src(call))
	}
	var b strings.Builder
	args := []string{}
	c.argTys = nil
	for _, a := range call.Args {
		if t, ok := m.typeOf(a); ok && t.k == "string" {
			continue
		}
		v, err := m.val(a, ind, &b)
		if err != nil {
			return "", err
		}
		args = append(args, v.text)
		c.argTys = append(c.argTys, v.t)
	}
	resObj := m.pi.info.Defs[id]
	c.resObj, c.resT = resObj, cf.resT[0]
	m.registerCut(c, fmt.Sprintf("after the call `%s`", m.pi.src(call)), func() (string, error) {
		if id.Name != "_" {
			m.env[resObj] = sanitize(id.Name)
		}
		return next()
	})
	return b.String() + ind + m.yield(c, args), nil
}
