package main

func init() { register("sketch", sketchSpecs()) }

func sketchSpecs() []Spec {
	o := "Sketch"
	return []Spec{
		{Kind: KConst, Match: "cmDepth", Lean: "cmDepth", Out: o},
		{Kind: KFunc, Func: "cmRow.get", Lean: "rowGet", Out: o},
		{Kind: KFunc, Func: "cmRow.increment", Lean: "rowIncrement", Out: o},
		{Kind: KFunc, Func: "cmRow.reset", Lean: "rowReset", Out: o},
		{Kind: KFunc, Func: "cmRow.clear", Lean: "rowClear", Out: o},
		{Kind: KFunc, Func: "next2Power", Lean: "next2Power", Out: o},
		{Kind: KExpr, Func: "cmSketch.Increment", Match: "(hashed ^ s.seed[i]) & s.mask", Lean: "incrIndex", Out: o},
		{Kind: KExpr, Func: "cmSketch.Estimate", Match: "(hashed ^ s.seed[i]) & s.mask", Lean: "estIndex", Out: o},
		{Kind: KExpr, Func: "cmSketch.Estimate", Match: "val < min", Lean: "estLess", Out: o},
		{Kind: KExpr, Func: "cmSketch.Estimate", Match: "byte(255)", Lean: "estInit", Out: o},
		{Kind: KExpr, Func: "newCmSketch", Match: "uint64(numCounters - 1)", Lean: "sketchMask", Out: o},
		{Kind: KExpr, Func: "newCmRow", Match: "numCounters / 2", Lean: "rowLen", Out: o},
	}
}
