package main

// methods_expr.go — per-method translation context and the expression part of methods.go.

import (
	"fmt"
	"go/ast"
	"go/token"
	"go/types"
	"strings"
)

// aliasInfo: what is known about a map-typed local.
type aliasInfo struct {
	root     types.Object // root of the path of the outer map (the receiver), nil = no origin
	fields   []*mField    // field path of the outer map
	key      string       // Lean text of the key under which this map sits in the outer map
	nonnil   bool         // known to be a real (made / stored) map
	stale    bool         // the outer map was written through another path since
	conflict bool         // the branches of an `if` disagree about the origin
	guard    string       // "" or a Lean Bool: the origin holds only when it is true (one branch of an
	//                       `if` stored / looked up the map, the other made a fresh one and did not store it)
}

func pathStr(fs []*mField) string {
	p := []string{}
	for _, f := range fs {
		p = append(p, f.goName)
	}
	return strings.Join(p, ".")
}

func (a aliasInfo) same(b aliasInfo) bool {
	return a.root == b.root && pathStr(a.fields) == pathStr(b.fields) && a.key == b.key &&
		a.stale == b.stale && a.conflict == b.conflict && a.guard == b.guard
}

type mstate struct {
	env   map[types.Object]string
	alias map[types.Object]aliasInfo
	okOf  map[types.Object]types.Object
	effs  string
}

func (s *mstate) clone() *mstate {
	n := &mstate{env: map[types.Object]string{}, alias: map[types.Object]aliasInfo{}, okOf: map[types.Object]types.Object{}, effs: s.effs}
	for k, v := range s.env {
		n.env[k] = v
	}
	for k, v := range s.alias {
		n.alias[k] = v
	}
	for k, v := range s.okOf {
		n.okOf[k] = v
	}
	return n
}

type mctx struct {
	g         *mgen
	me        *mMethod
	c         *ctx
	st        *mstate
	fresh     int
	final     bool // second pass: the shape of the result tuple is known
	nonnilOf  map[types.Object]*mParam
	inlDepth  int
	usedNames map[string]bool
}

func (m *mctx) freshName(base string) string {
	m.fresh++
	return fmt.Sprintf("%s_%d", sanitize(base), m.fresh)
}

func (m *mctx) clock(n ast.Node, i int) string {
	key := fmt.Sprintf("%d/%d", n.Pos(), i)
	if s, ok := m.me.clockOf[key]; ok {
		return s
	}
	name := "time_Now"
	if len(m.me.clocks) > 0 {
		name = fmt.Sprintf("time_Now%d", len(m.me.clocks)+1)
	}
	m.me.clocks = append(m.me.clocks, name)
	m.me.clockOf[key] = name
	return name
}

func (m *mctx) expr(e ast.Expr) (string, *mT, error) {
	s, t, handled, err := m.own(e)
	if err != nil {
		return "", nil, err
	}
	if handled {
		return s, t, nil
	}
	ls, lt, err := m.c.expr(e)
	if err != nil {
		return "", nil, err
	}
	if strings.HasPrefix(lt.kind, "x:") {
		return "", nil, fmt.Errorf("expression %q outside the subset", m.g.pi.src(e))
	}
	return ls, scalarT(lt), nil
}

func (m *mctx) hook(e ast.Expr) (string, lty, bool, error) {
	s, t, handled, err := m.own(e)
	if err != nil {
		return "", lty{}, true, err
	}
	if !handled {
		return "", lty{}, false, nil
	}
	return s, t.asLty(), true, nil
}

func (m *mctx) objOf(id *ast.Ident) types.Object {
	obj := m.g.pi.info.Uses[id]
	if obj == nil {
		obj = m.g.pi.info.Defs[id]
	}
	return obj
}

// resolvePath: e is root.f1.f2… with root a variable of the environment.
func (m *mctx) resolvePath(e ast.Expr) (types.Object, []*mField, *mT, bool) {
	switch x := unparen(e).(type) {
	case *ast.Ident:
		obj := m.objOf(x)
		if obj == nil {
			return nil, nil, nil, false
		}
		if _, ok := m.st.env[obj]; !ok {
			return nil, nil, nil, false
		}
		t, err := m.g.mtype(obj.Type())
		if err != nil {
			return nil, nil, nil, false
		}
		return obj, nil, t, true
	case *ast.StarExpr:
		return m.resolvePath(x.X)
	case *ast.SelectorExpr:
		sel, ok := m.g.pi.info.Selections[x]
		if !ok || sel.Kind() != types.FieldVal || len(sel.Index()) != 1 {
			return nil, nil, nil, false
		}
		root, fs, bt, ok := m.resolvePath(x.X)
		if !ok || (bt.k != mStruct && bt.k != mPtr) {
			return nil, nil, nil, false
		}
		f := bt.st.field(x.Sel.Name)
		if f == nil || f.skipped != "" {
			return nil, nil, nil, false
		}
		nf := append(append([]*mField{}, fs...), f)
		return root, nf, f.t, true
	}
	return nil, nil, nil, false
}

func (m *mctx) pathText(root types.Object, fs []*mField) string {
	s := m.st.env[root]
	for _, f := range fs {
		s += "." + f.lean
	}
	return s
}

// nonnil: Lean text of "e is not nil".
func (m *mctx) nonnil(e ast.Expr) (string, error) {
	switch x := unparen(e).(type) {
	case *ast.Ident:
		obj := m.objOf(x)
		if p, ok := m.nonnilOf[obj]; ok {
			p.needNonnil = true
			return p.name + "_nonnil", nil
		}
	case *ast.SelectorExpr:
		root, fs, t, ok := m.resolvePath(x)
		if ok && len(fs) > 0 && (t.k == mPtr || t.k == mOpaquePtr || t.k == mFunc) {
			return m.pathText(root, fs) + "_nonnil", nil
		}
	}
	return "", fmt.Errorf("nil-ness of %q outside the subset", m.g.pi.src(e))
}

func (m *mctx) own(e ast.Expr) (string, *mT, bool, error) {
	info := m.g.pi.info
	src := func() string { return m.g.pi.src(e) }
	switch x := e.(type) {
	case *ast.Ident:
		if x.Name == "nil" {
			return "", nil, true, fmt.Errorf("nil outside a comparison")
		}
		obj := m.objOf(x)
		if obj == nil {
			return "", nil, false, nil
		}
		if n, ok := m.st.env[obj]; ok {
			if a, ok := m.st.alias[obj]; ok && a.stale {
				return "", nil, true, fmt.Errorf("map %s may be stale (the map it was taken from has been written since)", x.Name)
			}
			t, err := m.g.mtype(obj.Type())
			return n, t, true, err
		}
		return "", nil, false, nil
	case *ast.StarExpr:
		s, t, err := m.expr(x.X)
		if err != nil {
			return "", nil, true, err
		}
		if t.k == mPtr {
			return s, &mT{k: mStruct, st: t.st, lean: t.lean}, true, nil
		}
		return "", nil, true, fmt.Errorf("dereference %q outside the subset", src())
	case *ast.SelectorExpr:
		sel, ok := info.Selections[x]
		if !ok || sel.Kind() != types.FieldVal {
			return "", nil, false, nil
		}
		if len(sel.Index()) != 1 {
			return "", nil, true, fmt.Errorf("promoted field %q outside the subset", src())
		}
		base, bt, err := m.expr(x.X)
		if err != nil {
			return "", nil, true, err
		}
		if bt.k != mStruct && bt.k != mPtr {
			return "", nil, true, fmt.Errorf("field selection %q outside the subset", src())
		}
		f := bt.st.field(x.Sel.Name)
		if f == nil {
			return "", nil, true, fmt.Errorf("unknown field in %q", src())
		}
		if f.skipped != "" {
			return "", nil, true, fmt.Errorf("field %s.%s is not represented (%s)", bt.st.goName, f.goName, f.skipped)
		}
		if f.t.k == mOpaquePtr {
			return "", nil, true, fmt.Errorf("only the nil-ness of %q is represented", src())
		}
		return atom(base) + "." + f.lean, f.t, true, nil
	case *ast.IndexExpr:
		tv, ok := info.Types[x.X]
		if !ok || tv.Type == nil || tv.IsType() {
			return "", nil, false, nil
		}
		if _, isMap := tv.Type.Underlying().(*types.Map); !isMap {
			return "", nil, false, nil
		}
		base, bt, err := m.expr(x.X)
		if err != nil {
			return "", nil, true, err
		}
		if bt.k != mMap {
			return "", nil, true, fmt.Errorf("index %q outside the subset", src())
		}
		k, _, err := m.expr(x.Index)
		if err != nil {
			return "", nil, true, err
		}
		z, err := m.g.zeroOf(bt.val, &m.me.needZero)
		if err != nil {
			return "", nil, true, err
		}
		return fmt.Sprintf("((%s.lookup %s).getD %s)", atom(base), atom(k), z), bt.val, true, nil
	case *ast.CompositeLit:
		tv := info.Types[x]
		if tv.Type != nil && isTime(tv.Type) && len(x.Elts) == 0 {
			return "Gen.zeroTime", scalarT(lty{kind: "time"}), true, nil
		}
		t, err := m.g.mtype(tv.Type)
		if err != nil || t.k != mStruct {
			return "", nil, true, fmt.Errorf("composite literal %q outside the subset", firstLine(src()))
		}
		given := map[string]string{}
		for _, el := range x.Elts {
			kv, ok := el.(*ast.KeyValueExpr)
			if !ok {
				return "", nil, true, fmt.Errorf("positional composite literal outside the subset")
			}
			id, ok := kv.Key.(*ast.Ident)
			if !ok {
				return "", nil, true, fmt.Errorf("composite literal key outside the subset")
			}
			v, _, err := m.expr(kv.Value)
			if err != nil {
				return "", nil, true, err
			}
			given[id.Name] = v
		}
		parts := []string{}
		for _, f := range t.st.fields {
			if f.skipped != "" {
				if _, ok := given[f.goName]; ok {
					return "", nil, true, fmt.Errorf("literal sets unrepresented field %s", f.goName)
				}
				continue
			}
			v, ok := given[f.goName]
			if !ok {
				v, err = m.g.zeroOf(f.t, &m.me.needZero)
				if err != nil {
					return "", nil, true, err
				}
			}
			parts = append(parts, f.lean+" := "+v)
		}
		tyText := t.st.lean
		if t.st.generic {
			tyText += " V"
		}
		return fmt.Sprintf("({ %s } : %s)", strings.Join(parts, ", "), tyText), t, true, nil
	case *ast.BinaryExpr:
		if (x.Op == token.EQL || x.Op == token.NEQ) && (isNilIdent(x.X) || isNilIdent(x.Y)) {
			other := x.X
			if isNilIdent(x.X) {
				other = x.Y
			}
			n, err := m.nonnil(other)
			if err != nil {
				return "", nil, true, err
			}
			if x.Op == token.EQL {
				n = "(!" + n + ")"
			}
			return n, scalarT(lty{kind: "bool"}), true, nil
		}
		return "", nil, false, nil
	case *ast.CallExpr:
		return m.ownCall(x)
	}
	return "", nil, false, nil
}

func (m *mctx) isSyncCall(call *ast.CallExpr) bool {
	sel, ok := unparen(call.Fun).(*ast.SelectorExpr)
	if !ok {
		return false
	}
	if s, ok := m.g.pi.info.Selections[sel]; ok {
		if fn, ok := s.Obj().(*types.Func); ok && fn.Pkg() != nil && fn.Pkg().Path() == "sync" {
			return true
		}
	}
	return false
}

func isHookCall(call *ast.CallExpr) bool {
	id, ok := unparen(call.Fun).(*ast.Ident)
	return ok && (id.Name == "verifPoint" || id.Name == "verifObserve")
}

func (m *mctx) ownCall(x *ast.CallExpr) (string, *mT, bool, error) {
	info := m.g.pi.info
	src := func() string { return firstLine(m.g.pi.src(x)) }
	if tvf, ok := info.Types[x.Fun]; ok && tvf.IsType() {
		return "", nil, false, nil // conversion
	}
	fun := unparen(x.Fun)
	// zeroValue[T]()
	zname := ""
	switch f := fun.(type) {
	case *ast.IndexExpr:
		if id, ok := f.X.(*ast.Ident); ok {
			zname = id.Name
		}
	case *ast.Ident:
		zname = f.Name
	}
	if zname == "zeroValue" && len(x.Args) == 0 {
		tv := info.Types[x]
		t, err := m.g.mtype(tv.Type)
		if err != nil {
			return "", nil, true, err
		}
		z, err := m.g.zeroOf(t, &m.me.needZero)
		return z, t, true, err
	}
	if id, ok := fun.(*ast.Ident); ok {
		if _, isBuiltin := info.Uses[id].(*types.Builtin); isBuiltin {
			switch id.Name {
			case "make":
				tv := info.Types[x]
				t, err := m.g.mtype(tv.Type)
				if err != nil || t.k != mMap {
					return "", nil, true, fmt.Errorf("%q outside the subset", src())
				}
				return "(RV.AMap.empty : " + t.lean + ")", t, true, nil
			}
			return "", nil, false, nil
		}
		// a func-typed local or parameter
		if obj := m.objOf(id); obj != nil {
			if n, ok := m.st.env[obj]; ok {
				t, err := m.g.mtype(obj.Type())
				if err != nil || t.k != mFunc {
					return "", nil, true, fmt.Errorf("call %q outside the subset", src())
				}
				return m.applyFn(n, t, x)
			}
		}
	}
	if sel, ok := fun.(*ast.SelectorExpr); ok {
		if id, ok := sel.X.(*ast.Ident); ok {
			if _, isPkg := info.Uses[id].(*types.PkgName); isPkg {
				switch id.Name + "." + sel.Sel.Name {
				case "time.Now":
					return m.clock(x, 0), scalarT(lty{kind: "time"}), true, nil
				case "atomic.LoadInt64", "atomic.LoadUint64":
					if u, ok := unparen(x.Args[0]).(*ast.UnaryExpr); ok && u.Op == token.AND {
						s, t, err := m.expr(u.X)
						return s, t, true, err
					}
				}
				return "", nil, false, nil
			}
		}
		if s, ok := info.Selections[sel]; ok && s.Kind() == types.FieldVal {
			// call of a func-typed field
			fs, ft, err := m.expr(sel)
			if err != nil {
				return "", nil, true, err
			}
			if ft.k != mFunc {
				return "", nil, true, fmt.Errorf("call %q outside the subset", src())
			}
			return m.applyFn(fs, ft, x)
		}
		if m.isSyncCall(x) {
			return "", nil, true, fmt.Errorf("lock operation %q inside an expression", src())
		}
	}
	// a function or method of the package
	fn, recvExpr := m.g.funcOfCall(x)
	if fn == nil {
		return "", nil, false, nil
	}
	if id, ok := fun.(*ast.Ident); ok {
		if _, ok := funcLeanNames[id.Name]; ok {
			return "", nil, false, nil // a KFunc kernel: main.go calls it by its Lean name
		}
	}
	fd := m.g.declOfFunc(fn)
	if fd == nil {
		return "", nil, true, fmt.Errorf("no body for %q", src())
	}
	// pure helper `func f(..) T { return e }`: inlined, parameters bound to the argument texts
	if len(fd.Body.List) == 1 && m.inlDepth < 4 {
		if ret, ok := fd.Body.List[0].(*ast.ReturnStmt); ok && len(ret.Results) == 1 {
			if s, t, err := m.inlineHelper(fd, recvExpr, x, ret.Results[0]); err == nil {
				return s, t, true, nil
			}
		}
	}
	callee := m.g.method(qualName(fd))
	if callee.err != nil {
		return "", nil, true, fmt.Errorf("call of %s: %v", callee.qual, callee.err)
	}
	if callee.mutates || callee.hasEffs {
		return "", nil, true, fmt.Errorf("call %q has side effects and sits inside an expression", src())
	}
	if len(callee.results) != 1 {
		return "", nil, true, fmt.Errorf("call %q with %d results inside an expression", src(), len(callee.results))
	}
	txt, err := m.buildCall(callee, x, recvExpr)
	if err != nil {
		return "", nil, true, err
	}
	return txt, callee.results[0], true, nil
}

func (m *mctx) applyFn(fs string, ft *mT, x *ast.CallExpr) (string, *mT, bool, error) {
	if len(x.Args) != len(ft.params) {
		return "", nil, true, fmt.Errorf("argument count of %q", m.g.pi.src(x))
	}
	parts := []string{atom(fs)}
	for _, a := range x.Args {
		s, _, err := m.expr(a)
		if err != nil {
			return "", nil, true, err
		}
		parts = append(parts, atom(s))
	}
	return "(" + strings.Join(parts, " ") + ")", ft.res, true, nil
}

func (m *mctx) inlineHelper(fd *ast.FuncDecl, recvExpr ast.Expr, call *ast.CallExpr, body ast.Expr) (string, *mT, error) {
	info := m.g.pi.info
	bound := []types.Object{}
	bind := func(id *ast.Ident, arg ast.Expr) error {
		obj := info.Defs[id]
		if obj == nil || id.Name == "_" {
			return nil
		}
		s, _, err := m.expr(arg)
		if err != nil {
			return err
		}
		m.st.env[obj] = atom(s)
		bound = append(bound, obj)
		return nil
	}
	defer func() {
		for _, o := range bound {
			delete(m.st.env, o)
		}
	}()
	if fd.Recv != nil && len(fd.Recv.List) == 1 && len(fd.Recv.List[0].Names) == 1 {
		if recvExpr == nil {
			return "", nil, fmt.Errorf("method value")
		}
		if err := bind(fd.Recv.List[0].Names[0], recvExpr); err != nil {
			return "", nil, err
		}
	}
	i := 0
	for _, f := range fd.Type.Params.List {
		for _, n := range f.Names {
			if i >= len(call.Args) {
				return "", nil, fmt.Errorf("argument count")
			}
			if err := bind(n, call.Args[i]); err != nil {
				return "", nil, err
			}
			i++
		}
	}
	if i != len(call.Args) {
		return "", nil, fmt.Errorf("argument count")
	}
	m.inlDepth++
	defer func() { m.inlDepth-- }()
	return m.expr(body)
}

// buildCall renders the application of a translated method to the call's receiver and arguments.
func (m *mctx) buildCall(callee *mMethod, call *ast.CallExpr, recvExpr ast.Expr) (string, error) {
	parts := []string{callee.lean}
	if callee.needZero {
		m.me.needZero = true
		parts = append(parts, "zeroV")
	}
	if callee.recv != nil {
		if recvExpr == nil {
			return "", fmt.Errorf("method %s called without a receiver", callee.qual)
		}
		if callee.recv.needNonnil {
			n, err := m.nonnil(recvExpr)
			if err != nil {
				return "", err
			}
			parts = append(parts, atom(n))
		}
		s, _, err := m.expr(recvExpr)
		if err != nil {
			return "", err
		}
		parts = append(parts, atom(s))
	}
	if len(call.Args) != len(callee.params) {
		return "", fmt.Errorf("argument count of the call of %s", callee.qual)
	}
	for i, p := range callee.params {
		if p.needNonnil {
			n, err := m.nonnil(call.Args[i])
			if err != nil {
				return "", err
			}
			parts = append(parts, atom(n))
		}
		s, _, err := m.expr(call.Args[i])
		if err != nil {
			return "", err
		}
		parts = append(parts, atom(s))
	}
	for i := range callee.clocks {
		parts = append(parts, m.clock(call, i+1))
	}
	return "(" + strings.Join(parts, " ") + ")", nil
}
