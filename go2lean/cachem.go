package main

// CacheM — the client methods of cache.go (SetWithTTL, Del, Get, GetTTL) cut at their yield points
// (output RV/Gen/CacheM.lean; equality with the model's step functions: RV/Props/TieCache.lean).
//
//   - CUTTING: a method is not one Lean function but one per SECTION: the code from the entry of
//     the method, from each `verifPoint(id)` and from the return of each call of a callee that has
//     yield points of its own (`cut` in specs_cachem.go), up to the next such point or `return`.
//     A section takes the shared state `w : W` and the Go locals that are referenced after the
//     point, and returns the new state and a value of the generated type `<fn>_Out` that says where
//     it stopped (`ret results…`, `<id> locals…`, `call_<callee> args… locals…`,
//     `<id>_blocked locals…` = parked inside a blocking channel send).  Nothing is anchored by
//     hand: a statement moved across a yield point lands in another section.
//   - everything a section calls but does not define is a field of the generated structure
//     `Iface W K V` (the table in specs_cachem.go names the callee expressions; the Lean type of
//     each field is computed from the Go signature): `c.storedItems.Update(i)` is
//     `I.store_Update w i : W × V × Bool`, the callbacks and `c.Metrics.add` are state
//     transformers (so their order relative to the store operations is part of the section),
//     `c.isClosed.Load()` and `time.Now()` read `w`, `c.keyToHash` is pure;
//   - `select { case ch <- x: A default: B }` is `I.<ch>_trySend w x : W × Bool` followed by the
//     two arms; the blocking `ch <- x` (which must be followed by a yield point) is
//     `I.<ch>_send w x : W × Bool`: true = sent, the goroutine is at the yield point; false = it is
//     parked inside the send (`<id>_blocked`; `<fn>_unblocked` says where it is once a receiver
//     has completed the send);
//   - `c == nil` is the parameter `c_nil`; `*Item[V]` is the structure `Gen.Methods.Item V` (a
//     pointer that is not shared before it is sent; `i.flag = x` is a functional update);
//     generic `K`, `V` are type parameters, the zero value of `V` is `I.zeroV`;
//     `time.Time` / `time.Duration` are `Int` nanoseconds (zero time = `Gen.zeroTime`);
//   - `if` (with init), tagless `switch` (with `break`), early `return`: the continuation is
//     duplicated into the branches; Go locals are renamed on assignment;
//   - `verifObserve` is skipped.
//
// Anything outside the subset (loops, closures, other statements, calls that are not in the
// table): `-- UNTRANSLATABLE <fn>: reason`.

import (
	"fmt"
	"go/ast"
	"go/token"
	"go/types"
	"sort"
	"strings"
)

func init() {
	extras["CacheM"] = genCacheM
	extraImports["CacheM"] = []string{"RV.Gen.Methods"}
	// covered.go: every section of these methods is proved equal to the model's step function in
	// RV/Props/TieCache.lean, so their anchored kernels (ttlNone, ttlNegative, ttlExpiration,
	// dropIsUpdate, getTTLNoExpiry, getTTLExpired, getTTLRemaining) may be KEPT when respelled;
	// outside the subset the module keeps its reviewed text (go2lean/pinned/CacheM.lean).
	for _, f := range []string{":Cache.SetWithTTL", ":Cache.Del", ":Cache.Get", ":Cache.GetTTL"} {
		coveredBy[f] = "TieCache"
	}
	staleOK["CacheM"] = true
	tieModule["TieCache"] = []string{"CacheM"}
}

type cmField struct{ name, ty string }

type cmKont struct {
	stmts []ast.Stmt
	next  *cmKont
	brk   *cmKont
	loop  *cmSection // target of `continue` (the parking point at the head of the enclosing `for { select … }`)
}

type cmState struct {
	env  map[types.Object]string
	w    string
	brk  *cmKont
	loop *cmSection
}

type cmSection struct {
	ctor      string    // constructor of <fn>_Out ("" = none)
	ctorArgs  []cmField // leading constructor fields (arguments of a cut call)
	def       string    // suffix of the section definition ("" = none)
	defExtra  []cmField // leading parameters of the definition (results of a cut call / function parameters)
	extraObjs []types.Object
	live      []types.Object
	cont      *cmKont
	doc       string
	body      string
	usesNil   bool
	blockedOf string // constructor reached once the blocked send has completed
}

type cmIface struct {
	sigs map[string]string
}

func (f *cmIface) add(name, sig string) error {
	if old, ok := f.sigs[name]; ok && old != sig {
		return fmt.Errorf("interface field %s used at two types: %s / %s", name, old, sig)
	}
	f.sigs[name] = sig
	return nil
}

type cmGen struct {
	pi       *pkgInfo
	fd       *ast.FuncDecl
	fn       string
	recv     types.Object
	c        *ctx
	iface    *cmIface
	tparams  []string
	secs     []*cmSection
	byPos    map[token.Pos]*cmSection
	names    map[string]int
	fresh    int
	cur      *cmState
	usesNil  bool
	retTypes []string
	// extensions used by the applier / control methods (cachea.go); nil = the client-method tables
	calls     []cmCall
	chans     map[string]string
	fields    map[string]string       // receiver fields read as pure interface values (`c.ignoreInternalCost`)
	nilFields map[string]string       // receiver fields compared with nil (`c.cost != nil`)
	cutNoArgs map[string]bool         // cut calls whose arguments are not represented
	wait      map[types.Object]types.Object // received item -> synthetic local holding its `wait` channel
	labels    map[string]*cmKont      // label of a loop -> continuation of `break <label>`
	prefix    string                  // name printed in doc comments ("Cache.")
}

func (g *cmGen) src(n ast.Node) string { return g.pi.src(n) }

func (g *cmGen) freshN(base string) string {
	g.fresh++
	return fmt.Sprintf("%s_%d", sanitize(base), g.fresh)
}

func (g *cmGen) outTy() string { return g.fn + "_Out " + strings.Join(g.tparams, " ") }

// ---------------------------------------------------------------- types

func (g *cmGen) isItem(t types.Type) bool {
	if p, ok := t.(*types.Pointer); ok {
		t = p.Elem()
	}
	n, ok := t.(*types.Named)
	return ok && n.Obj().Name() == "Item" && n.Obj().Pkg() == g.pi.pkg
}

func (g *cmGen) mapType(t types.Type) (string, error) {
	switch u := t.(type) {
	case *types.TypeParam:
		for _, p := range g.tparams {
			if p == u.Obj().Name() {
				return p, nil
			}
		}
		return "", fmt.Errorf("type parameter %s is not one of the receiver's", u.Obj().Name())
	case *types.Pointer:
		if g.isItem(t) {
			return g.mapType(u.Elem())
		}
		return "", fmt.Errorf("pointer type %s outside the subset", t)
	case *types.Slice:
		if g.isItem(u.Elem()) {
			e, err := g.mapType(u.Elem())
			if err != nil {
				return "", err
			}
			return "(List " + e + ")", nil
		}
	case *types.Chan:
		// the identity of a `wait` channel: nil or the number of its `make`
		return "(Option Nat)", nil
	case *types.Struct:
		if u.NumFields() == 0 {
			return "Unit", nil
		}
	case *types.Named:
		if g.isItem(t) {
			args := []string{}
			for i := 0; i < u.TypeArgs().Len(); i++ {
				a, err := g.mapType(u.TypeArgs().At(i))
				if err != nil {
					return "", err
				}
				args = append(args, a)
			}
			return "(Item " + strings.Join(args, " ") + ")", nil
		}
	}
	l, err := leanType(t)
	if err != nil {
		return "", err
	}
	if l.kind == "arr" {
		return "", fmt.Errorf("type %s outside the subset", t)
	}
	return l.lean(), nil
}

func (g *cmGen) zeroOf(t types.Type) (string, error) {
	if tp, ok := t.(*types.TypeParam); ok {
		if tp.Obj().Name() == "V" {
			return "I.zeroV", nil
		}
		return "", fmt.Errorf("zero value of type parameter %s", tp.Obj().Name())
	}
	if g.isItem(t) {
		if _, isPtr := t.(*types.Pointer); isPtr {
			return "", fmt.Errorf("nil item pointer outside the subset")
		}
		return "(Item.zero I.zeroV)", nil
	}
	l, err := leanType(t)
	if err != nil {
		return "", err
	}
	switch l.kind {
	case "bv":
		return fmt.Sprintf("0#%d", l.w), nil
	case "bool":
		return "false", nil
	case "time":
		return "Gen.zeroTime", nil
	case "dur":
		return "(0 : Int)", nil
	}
	return "", fmt.Errorf("zero value of %s outside the subset", t)
}

// ---------------------------------------------------------------- expressions

func cmParen(s string) string {
	if strings.ContainsAny(s, " \n") && !(strings.HasPrefix(s, "(") && strings.HasSuffix(s, ")") && balancedOuter(s)) {
		return "(" + s + ")"
	}
	return s
}

// cmUnparen strips one pair of outer parentheses
func cmUnparen(s string) string {
	if strings.HasPrefix(s, "(") && strings.HasSuffix(s, ")") && balancedOuter(s) {
		return s[1 : len(s)-1]
	}
	return s
}

// balancedOuter: the first "(" closes at the last ")"
func balancedOuter(s string) bool {
	d := 0
	for i, r := range s {
		switch r {
		case '(':
			d++
		case ')':
			d--
			if d == 0 && i != len(s)-1 {
				return false
			}
		}
	}
	return d == 0
}

func (g *cmGen) lookupCall(x *ast.CallExpr) *cmCall {
	txt := g.src(x.Fun)
	tab := cachemCalls
	if g.calls != nil {
		tab = g.calls
	}
	for i := range tab {
		if tab[i].match == txt {
			return &tab[i]
		}
	}
	return nil
}

func (g *cmGen) chanOf(e ast.Expr) (string, bool) {
	tab := cachemChans
	if g.chans != nil {
		tab = g.chans
	}
	ch, ok := tab[g.src(e)]
	return ch, ok
}

// signature of an interface call: Lean parameter types, Lean result types
func (g *cmGen) callSig(x *ast.CallExpr) ([]string, []string, error) {
	tv, ok := g.pi.info.Types[x.Fun]
	if !ok || tv.Type == nil {
		return nil, nil, fmt.Errorf("callee %q has no type", g.src(x.Fun))
	}
	sig, ok := tv.Type.Underlying().(*types.Signature)
	if !ok {
		return nil, nil, fmt.Errorf("callee %q is not a function", g.src(x.Fun))
	}
	if sig.Variadic() {
		return nil, nil, fmt.Errorf("variadic callee %q", g.src(x.Fun))
	}
	ps, rs := []string{}, []string{}
	for i := 0; i < sig.Params().Len(); i++ {
		t, err := g.mapType(sig.Params().At(i).Type())
		if err != nil {
			return nil, nil, fmt.Errorf("callee %q: %v", g.src(x.Fun), err)
		}
		ps = append(ps, t)
	}
	for i := 0; i < sig.Results().Len(); i++ {
		t, err := g.mapType(sig.Results().At(i).Type())
		if err != nil {
			return nil, nil, fmt.Errorf("callee %q: %v", g.src(x.Fun), err)
		}
		rs = append(rs, t)
	}
	if len(x.Args) != len(ps) {
		return nil, nil, fmt.Errorf("call %q: argument count", g.src(x))
	}
	return ps, rs, nil
}

func cmFnType(parts []string, res string) string {
	return strings.Join(append(append([]string{}, parts...), res), " → ")
}

// apply translates the call of an interface field: Lean text of the application and the result types.
func (g *cmGen) apply(spec *cmCall, x *ast.CallExpr, st *cmState) (string, []string, error) {
	ps, rs, err := g.callSig(x)
	if err != nil {
		return "", nil, err
	}
	args := []string{}
	for _, a := range x.Args {
		s, _, err := g.val(a, st)
		if err != nil {
			return "", nil, err
		}
		args = append(args, cmParen(s))
	}
	res := strings.Join(rs, " × ")
	var sig, text string
	switch spec.kind {
	case cmPure:
		if len(rs) == 0 {
			return "", nil, fmt.Errorf("pure callee %q without a result", spec.match)
		}
		sig = cmFnType(ps, res)
		text = "I." + spec.field
	case cmRead:
		if len(rs) == 0 {
			return "", nil, fmt.Errorf("reading callee %q without a result", spec.match)
		}
		sig = cmFnType(append([]string{"W"}, ps...), res)
		text = "I." + spec.field + " " + st.w
	case cmWrite:
		if len(rs) == 0 {
			sig = cmFnType(append([]string{"W"}, ps...), "W")
		} else {
			sig = cmFnType(append([]string{"W"}, ps...), "W × "+res)
		}
		text = "I." + spec.field + " " + st.w
	default:
		return "", nil, fmt.Errorf("call %q ends the section and cannot be used here", g.src(x))
	}
	if err := g.iface.add(spec.field, sig); err != nil {
		return "", nil, err
	}
	if len(args) > 0 {
		text += " " + strings.Join(args, " ")
	}
	return "(" + text + ")", rs, nil
}

func (g *cmGen) localOf(e ast.Expr, st *cmState) (types.Object, string, bool) {
	id, ok := e.(*ast.Ident)
	if !ok {
		return nil, "", false
	}
	obj := g.pi.info.Uses[id]
	if obj == nil {
		obj = g.pi.info.Defs[id]
	}
	if obj == nil {
		return nil, "", false
	}
	n, ok := st.env[obj]
	return obj, n, ok
}

// hook: the leaves of scalar expressions that main.go's ctx.expr does not know
func (g *cmGen) hook(e ast.Expr) (string, lty, bool, error) {
	st := g.cur
	if tv, ok := g.pi.info.Types[e]; ok && tv.Value != nil {
		return "", lty{}, false, nil // constants: main.go
	}
	switch x := e.(type) {
	case *ast.BinaryExpr:
		if (x.Op == token.EQL || x.Op == token.NEQ) && (isNilIdent(x.X) || isNilIdent(x.Y)) {
			other := x.X
			if isNilIdent(x.X) {
				other = x.Y
			}
			if id, ok := other.(*ast.Ident); ok && g.recv != nil && g.pi.info.Uses[id] == g.recv {
				g.usesNil = true
				if x.Op == token.EQL {
					return "c_nil", lty{kind: "bool"}, true, nil
				}
				return "(!c_nil)", lty{kind: "bool"}, true, nil
			}
			if sel, ok := other.(*ast.SelectorExpr); ok && sel.Sel.Name == "wait" {
				if obj, _, ok := g.localOf(sel.X, st); ok && g.wait[obj] != nil {
					if n, ok := st.env[g.wait[obj]]; ok {
						if x.Op == token.EQL {
							return "(" + n + ".isNone)", lty{kind: "bool"}, true, nil
						}
						return "(" + n + ".isSome)", lty{kind: "bool"}, true, nil
					}
				}
			}
			if f, ok := g.nilFields[g.src(other)]; ok {
				if err := g.iface.add(f, "Bool"); err != nil {
					return "", lty{}, true, err
				}
				if x.Op == token.EQL {
					return "(!I." + f + ")", lty{kind: "bool"}, true, nil
				}
				return "I." + f, lty{kind: "bool"}, true, nil
			}
			return "", lty{}, true, fmt.Errorf("nil comparison %q outside the subset", g.src(x))
		}
	case *ast.CallExpr:
		if spec := g.lookupCall(x); spec != nil {
			if spec.kind != cmPure && spec.kind != cmRead {
				return "", lty{}, true, fmt.Errorf("call %q with side effects inside an expression", g.src(x))
			}
			s, _, err := g.apply(spec, x, st)
			if err != nil {
				return "", lty{}, true, err
			}
			t, err := leanType(g.pi.info.Types[x].Type)
			return s, t, true, err
		}
		if g.src(x.Fun) == "time.Until" && len(x.Args) == 1 {
			a, _, err := g.val(x.Args[0], st)
			if err != nil {
				return "", lty{}, true, err
			}
			for i := range cachemCalls {
				if cachemCalls[i].match == "time.Now" {
					if err := g.iface.add(cachemCalls[i].field, "W → Int"); err != nil {
						return "", lty{}, true, err
					}
					return fmt.Sprintf("(%s - I.%s %s)", a, cachemCalls[i].field, st.w), lty{kind: "dur"}, true, nil
				}
			}
		}
		if id, ok := x.Fun.(*ast.Ident); !ok || (id.Name != "len") {
			if tvf, ok := g.pi.info.Types[x.Fun]; !ok || !tvf.IsType() {
				if sel, ok := x.Fun.(*ast.SelectorExpr); ok {
					if tvr, ok := g.pi.info.Types[sel.X]; ok && tvr.Type != nil && isTime(tvr.Type) {
						return "", lty{}, false, nil // time.Time methods: main.go
					}
				}
				return "", lty{}, true, fmt.Errorf("call %q is not in the interface table", g.src(x))
			}
		}
	case *ast.SelectorExpr:
		if obj, n, ok := g.localOf(x.X, st); ok && g.isItem(obj.Type()) {
			if x.Sel.Name == "wait" {
				return "", lty{}, true, fmt.Errorf("field %q is not represented", g.src(x))
			}
			t, err := leanType(g.pi.info.Types[x].Type)
			return n + "." + x.Sel.Name, t, true, err
		}
		if f, ok := g.fields[g.src(x)]; ok {
			t, err := leanType(g.pi.info.Types[x].Type)
			if err != nil {
				return "", lty{}, true, err
			}
			if err := g.iface.add(f, t.lean()); err != nil {
				return "", lty{}, true, err
			}
			return "I." + f, t, true, nil
		}
		return "", lty{}, true, fmt.Errorf("selector %q outside the subset", g.src(x))
	}
	return "", lty{}, false, nil
}

// val translates an expression of any supported type: Lean text and Lean type.
func (g *cmGen) val(e ast.Expr, st *cmState) (string, string, error) {
	for {
		p, ok := e.(*ast.ParenExpr)
		if !ok {
			break
		}
		e = p.X
	}
	switch x := e.(type) {
	case *ast.Ident:
		if obj, n, ok := g.localOf(x, st); ok {
			ty, err := g.mapType(obj.Type())
			return n, ty, err
		}
	case *ast.UnaryExpr:
		if cl, ok := x.X.(*ast.CompositeLit); ok && x.Op == token.AND {
			return g.composite(cl, st)
		}
	case *ast.CompositeLit:
		return g.composite(x, st)
	case *ast.CallExpr:
		if ix, ok := x.Fun.(*ast.IndexExpr); ok && g.src(ix.X) == "zeroValue" && len(x.Args) == 0 {
			z, err := g.zeroOf(g.pi.info.Types[x].Type)
			if err != nil {
				return "", "", err
			}
			ty, err := g.mapType(g.pi.info.Types[x].Type)
			return z, ty, err
		}
		if spec := g.lookupCall(x); spec != nil && (spec.kind == cmPure || spec.kind == cmRead) {
			s, rs, err := g.apply(spec, x, st)
			if err != nil {
				return "", "", err
			}
			return s, strings.Join(rs, " × "), nil
		}
	case *ast.SelectorExpr:
		if obj, n, ok := g.localOf(x.X, st); ok && g.isItem(obj.Type()) && x.Sel.Name != "wait" {
			ty, err := g.mapType(g.pi.info.Types[x].Type)
			return n + "." + x.Sel.Name, ty, err
		}
	}
	g.cur = st
	g.c.env = st.env
	s, t, err := g.c.expr(e)
	if err != nil {
		return "", "", err
	}
	return s, t.lean(), nil
}

func (g *cmGen) composite(cl *ast.CompositeLit, st *cmState) (string, string, error) {
	t := g.pi.info.Types[cl].Type
	if st, ok := t.Underlying().(*types.Struct); ok && st.NumFields() == 0 && len(cl.Elts) == 0 {
		return "()", "Unit", nil
	}
	if !g.isItem(t) {
		return "", "", fmt.Errorf("composite literal %q outside the subset", firstLine(g.src(cl)))
	}
	ty, err := g.mapType(t)
	if err != nil {
		return "", "", err
	}
	fs := []string{}
	for _, el := range cl.Elts {
		kv, ok := el.(*ast.KeyValueExpr)
		if !ok {
			return "", "", fmt.Errorf("positional composite literal outside the subset")
		}
		k, ok := kv.Key.(*ast.Ident)
		if !ok || k.Name == "wait" {
			return "", "", fmt.Errorf("field %q of the item literal is not represented", g.src(kv.Key))
		}
		v, _, err := g.val(kv.Value, st)
		if err != nil {
			return "", "", err
		}
		fs = append(fs, k.Name+" := "+v)
	}
	if len(fs) == 0 {
		return "(Item.zero I.zeroV)", ty, nil
	}
	return "({ Item.zero I.zeroV with " + strings.Join(fs, ", ") + " } : " + cmUnparen(ty) + ")", ty, nil
}

// ---------------------------------------------------------------- sections

func (g *cmGen) liveAt(k *cmKont, st *cmState, except map[types.Object]bool) []types.Object {
	seen := map[types.Object]bool{}
scan:
	for kk := k; kk != nil; kk = kk.next {
		for _, s := range kk.stmts {
			switch y := s.(type) {
			case *ast.ReturnStmt:
				for _, r := range y.Results {
					ast.Inspect(r, func(n ast.Node) bool {
						if id, ok := n.(*ast.Ident); ok {
							if obj := g.pi.info.Uses[id]; obj != nil && obj != g.recv && !except[obj] {
								if _, in := st.env[obj]; in {
									seen[obj] = true
								}
							}
						}
						return true
					})
				}
				break scan
			case *ast.BranchStmt:
				if y.Tok == token.CONTINUE && y.Label == nil && kk.loop != nil {
					for _, o := range kk.loop.live {
						if _, in := st.env[o]; in && !except[o] {
							seen[o] = true
						}
					}
					break scan
				}
			case *cmLoopBack:
				for _, o := range y.sec.live {
					if _, in := st.env[o]; in && !except[o] {
						seen[o] = true
					}
				}
				continue
			case *cmRangeHead:
				if _, in := st.env[y.rest]; in && !except[y.rest] {
					seen[y.rest] = true
				}
				s = y.rs.Body
			case *cmTryRecv:
				s = y.sel
			}
			ast.Inspect(s, func(n ast.Node) bool {
				if sel, ok := n.(*ast.SelectorExpr); ok && sel.Sel.Name == "wait" {
					if id, ok := sel.X.(*ast.Ident); ok {
						if wo := g.wait[g.pi.info.Uses[id]]; wo != nil && !except[wo] {
							if _, in := st.env[wo]; in {
								seen[wo] = true
							}
						}
					}
				}
				if id, ok := n.(*ast.Ident); ok {
					if obj := g.pi.info.Uses[id]; obj != nil && obj != g.recv && !except[obj] {
						if _, in := st.env[obj]; in {
							seen[obj] = true
						}
					}
				}
				return true
			})
		}
	}
	out := []types.Object{}
	for o := range seen {
		out = append(out, o)
	}
	sort.Slice(out, func(i, j int) bool { return out[i].Pos() < out[j].Pos() })
	return out
}

func (g *cmGen) uniq(base string) string {
	g.names[base]++
	if g.names[base] == 1 {
		return base
	}
	return fmt.Sprintf("%s_%d", base, g.names[base])
}

func (g *cmGen) liveFields(live []types.Object) ([]cmField, error) {
	fs := []cmField{}
	used := map[string]bool{}
	for _, o := range live {
		ty, err := g.mapType(o.Type())
		if err != nil {
			return nil, fmt.Errorf("local %s live across a yield point: %v", o.Name(), err)
		}
		n := sanitize(o.Name())
		if used[n] {
			return nil, fmt.Errorf("two live locals named %s", n)
		}
		used[n] = true
		fs = append(fs, cmField{n, ty})
	}
	return fs, nil
}

func (g *cmGen) liveArgs(live []types.Object, st *cmState) string {
	s := ""
	for _, o := range live {
		s += " " + st.env[o]
	}
	return s
}

func (g *cmGen) park(st *cmState, ctor, args, ind string) string {
	if args == "" {
		return fmt.Sprintf("%s(%s, (%s_Out.%s : %s))", ind, st.w, g.fn, ctor, g.outTy())
	}
	return fmt.Sprintf("%s(%s, %s_Out.%s%s)", ind, st.w, g.fn, ctor, args)
}

// yieldAt: the section that starts at the yield point `call`
func (g *cmGen) yieldAt(call *ast.CallExpr, cont *cmKont, st *cmState) (*cmSection, error) {
	if sec, ok := g.byPos[call.Pos()]; ok {
		return sec, nil
	}
	if len(call.Args) != 1 {
		return nil, fmt.Errorf("verifPoint with %d arguments", len(call.Args))
	}
	id, ok := call.Args[0].(*ast.Ident)
	if !ok {
		return nil, fmt.Errorf("verifPoint(%s): the argument is not a constant name", g.src(call.Args[0]))
	}
	name := g.uniq(id.Name)
	sec := &cmSection{ctor: name, def: name, live: g.liveAt(cont, st, nil), cont: cont,
		doc: fmt.Sprintf("section from the yield point `verifPoint(%s)`", id.Name)}
	if _, err := g.liveFields(sec.live); err != nil {
		return nil, err
	}
	g.byPos[call.Pos()] = sec
	g.secs = append(g.secs, sec)
	return sec, nil
}

func isVerifCall(s ast.Stmt, name string) *ast.CallExpr {
	es, ok := s.(*ast.ExprStmt)
	if !ok {
		return nil
	}
	call, ok := es.X.(*ast.CallExpr)
	if !ok {
		return nil
	}
	if id, ok := call.Fun.(*ast.Ident); ok && id.Name == name {
		return call
	}
	return nil
}

// ---------------------------------------------------------------- statements

func cmProj(base string, i, n int) string {
	if n == 1 {
		return base
	}
	s := base + strings.Repeat(".2", i)
	if i < n-1 {
		s += ".1"
	}
	return s
}

func copyEnv(m map[types.Object]string) map[types.Object]string {
	o := make(map[types.Object]string, len(m)+1)
	for k, v := range m {
		o[k] = v
	}
	return o
}

// bind: `let <fresh> : T := text` for the Go variable (or field) written by `lhs`
func (g *cmGen) bind(lhs ast.Expr, text string, st *cmState, ind string) (string, error) {
	switch l := lhs.(type) {
	case *ast.Ident:
		if l.Name == "_" {
			return "", nil
		}
		obj := g.pi.info.Defs[l]
		if obj == nil {
			obj = g.pi.info.Uses[l]
		}
		if obj == nil {
			return "", fmt.Errorf("assignment to unknown %s", l.Name)
		}
		if _, isVar := obj.(*types.Var); !isVar || obj.Parent() == g.pi.pkg.Scope() {
			return "", fmt.Errorf("assignment to %s outside the subset", l.Name)
		}
		if _, known := st.env[obj]; !known && g.pi.info.Defs[l] == nil {
			return "", fmt.Errorf("assignment to %s which is not a local of this function", l.Name)
		}
		ty, err := g.mapType(obj.Type())
		if err != nil {
			return "", fmt.Errorf("local %s: %v", l.Name, err)
		}
		n := g.freshN(l.Name)
		st.env = copyEnv(st.env)
		st.env[obj] = n
		return fmt.Sprintf("%slet %s : %s := %s\n", ind, n, cmUnparen(ty), text), nil
	case *ast.SelectorExpr:
		obj, cur, ok := g.localOf(l.X, st)
		if !ok || !g.isItem(obj.Type()) || l.Sel.Name == "wait" {
			return "", fmt.Errorf("assignment to %q outside the subset", g.src(lhs))
		}
		ty, err := g.mapType(obj.Type())
		if err != nil {
			return "", err
		}
		n := g.freshN(obj.Name())
		st.env = copyEnv(st.env)
		st.env[obj] = n
		return fmt.Sprintf("%slet %s : %s := { %s with %s := %s }\n", ind, n, cmUnparen(ty), cur, l.Sel.Name, text), nil
	}
	return "", fmt.Errorf("assignment to %q outside the subset", g.src(lhs))
}

func (g *cmGen) runK(k *cmKont, st cmState, ind string) (string, error) {
	if k == nil {
		if len(g.retTypes) != 0 {
			return "", fmt.Errorf("control reaches the end of a function with results")
		}
		return g.park(&st, "ret", "", ind), nil
	}
	st.brk = k.brk
	st.loop = k.loop
	return g.seq(k.stmts, k.next, st, ind)
}

// callStmt: `lhs… := I.f …` (lhs may be empty) for a pure / reading / writing interface call
func (g *cmGen) callStmt(spec *cmCall, call *ast.CallExpr, lhs []ast.Expr, st *cmState, ind string) (string, error) {
	text, rs, err := g.apply(spec, call, st)
	if err != nil {
		return "", err
	}
	if len(lhs) != 0 && len(lhs) != len(rs) {
		return "", fmt.Errorf("call %q: %d results assigned to %d variables", g.src(call), len(rs), len(lhs))
	}
	out := ""
	base := ""
	if spec.kind == cmWrite {
		if len(rs) == 0 {
			w := g.freshN("w")
			out += fmt.Sprintf("%slet %s : W := %s\n", ind, w, text)
			st.w = w
			return out, nil
		}
		r := g.freshN("r")
		w := g.freshN("w")
		out += fmt.Sprintf("%slet %s := %s\n%slet %s : W := %s.1\n", ind, r, text, ind, w, r)
		st.w = w
		base = "(" + r + ".2)"
		if len(rs) == 1 {
			base = r + ".2"
		}
	} else {
		if len(lhs) == 0 {
			return "", fmt.Errorf("the result of %q is not used", g.src(call))
		}
		if len(rs) == 1 {
			base = text
		} else {
			r := g.freshN("r")
			out += fmt.Sprintf("%slet %s := %s\n", ind, r, text)
			base = r
		}
	}
	for i, l := range lhs {
		b, err := g.bind(l, cmProj(base, i, len(rs)), st, ind)
		if err != nil {
			return "", err
		}
		out += b
	}
	return out, nil
}

// cutCall: the callee has yield points of its own; the section ends here
func (g *cmGen) cutCall(spec *cmCall, call *ast.CallExpr, lhs []ast.Expr, after *cmKont, st *cmState, ind string) (string, error) {
	var ps, rs []string
	var err error
	if g.cutNoArgs[spec.match] {
		// the arguments (policy, callbacks) are not represented
		sig, ok := g.pi.info.Types[call.Fun].Type.Underlying().(*types.Signature)
		if !ok {
			return "", fmt.Errorf("callee %q is not a function", g.src(call.Fun))
		}
		for i := 0; i < sig.Results().Len(); i++ {
			t, err := g.mapType(sig.Results().At(i).Type())
			if err != nil {
				return "", err
			}
			rs = append(rs, t)
		}
	} else {
		ps, rs, err = g.callSig(call)
	}
	if err != nil {
		return "", err
	}
	if len(lhs) != 0 && len(lhs) != len(rs) {
		return "", fmt.Errorf("call %q: %d results assigned to %d variables", g.src(call), len(rs), len(lhs))
	}
	sec, ok := g.byPos[call.Pos()]
	if !ok {
		name := g.uniq(spec.field)
		sec = &cmSection{ctor: "call_" + name, def: "after_" + name, cont: after,
			doc: fmt.Sprintf("section after the call `%s` (the callee has yield points of its own)", g.src(call))}
		for i, p := range ps {
			if g.cutNoArgs[spec.match] {
				break
			}
			sec.ctorArgs = append(sec.ctorArgs, cmField{fmt.Sprintf("arg%d", i+1), p})
		}
		except := map[types.Object]bool{}
		for i, r := range rs {
			var obj types.Object
			n := fmt.Sprintf("res%d", i+1)
			if len(lhs) != 0 {
				if id, ok := lhs[i].(*ast.Ident); ok && id.Name != "_" {
					obj = g.pi.info.Defs[id]
					if obj == nil {
						obj = g.pi.info.Uses[id]
					}
					n = sanitize(id.Name)
				} else if !ok {
					return "", fmt.Errorf("result of %q assigned to %q", g.src(call), g.src(lhs[i]))
				}
			}
			if obj != nil {
				except[obj] = true
			}
			sec.defExtra = append(sec.defExtra, cmField{n, r})
			sec.extraObjs = append(sec.extraObjs, obj)
		}
		sec.live = g.liveAt(after, st, except)
		if _, err := g.liveFields(sec.live); err != nil {
			return "", err
		}
		g.byPos[call.Pos()] = sec
		g.secs = append(g.secs, sec)
	}
	args := ""
	for _, a := range call.Args {
		if g.cutNoArgs[spec.match] {
			break
		}
		s, _, err := g.val(a, st)
		if err != nil {
			return "", err
		}
		args += " " + cmParen(s)
	}
	return g.park(st, sec.ctor, args+g.liveArgs(sec.live, st), ind), nil
}

func (g *cmGen) boolCond(e ast.Expr, st *cmState) (string, error) {
	s, ty, err := g.val(e, st)
	if err != nil {
		return "", err
	}
	if ty != "Bool" {
		return "", fmt.Errorf("condition %q is not a Bool", g.src(e))
	}
	return s, nil
}

func (g *cmGen) seq(stmts []ast.Stmt, k *cmKont, st cmState, ind string) (string, error) {
	if len(stmts) == 0 {
		return g.runK(k, st, ind)
	}
	s, rest := stmts[0], stmts[1:]
	after := &cmKont{rest, k, st.brk, st.loop}
	switch x := s.(type) {
	case *ast.BlockStmt:
		return g.seq(x.List, after, st, ind)
	case *ast.EmptyStmt:
		return g.seq(rest, k, st, ind)
	case *ast.ExprStmt:
		if u, ok := x.X.(*ast.UnaryExpr); ok && u.Op == token.ARROW && g.calls != nil {
			return g.recvStmt(u, rest, k, st, ind)
		}
		call, ok := x.X.(*ast.CallExpr)
		if !ok {
			break
		}
		if isVerifCall(s, "verifObserve") != nil {
			return g.seq(rest, k, st, ind)
		}
		if isVerifCall(s, "verifPoint") != nil {
			sec, err := g.yieldAt(call, after, &st)
			if err != nil {
				return "", err
			}
			return g.park(&st, sec.ctor, g.liveArgs(sec.live, &st), ind), nil
		}
		if out, ok, err := g.closeWait(call, &st, ind); ok || err != nil {
			if err != nil {
				return "", err
			}
			tail, err := g.seq(rest, k, st, ind)
			return out + tail, err
		}
		spec := g.lookupCall(call)
		if spec == nil {
			return "", fmt.Errorf("call %q is not in the interface table", g.src(call))
		}
		if spec.kind == cmCut {
			return g.cutCall(spec, call, nil, after, &st, ind)
		}
		if spec.kind != cmWrite {
			return "", fmt.Errorf("the result of %q is not used", g.src(call))
		}
		out, err := g.callStmt(spec, call, nil, &st, ind)
		if err != nil {
			return "", err
		}
		tail, err := g.seq(rest, k, st, ind)
		return out + tail, err
	case *ast.ReturnStmt:
		if len(x.Results) != len(g.retTypes) {
			return "", fmt.Errorf("return %q: result count", g.src(x))
		}
		args := ""
		for _, r := range x.Results {
			v, _, err := g.val(r, &st)
			if err != nil {
				return "", err
			}
			args += " " + cmParen(v)
		}
		return g.park(&st, "ret", args, ind), nil
	case *ast.DeclStmt:
		gd, ok := x.Decl.(*ast.GenDecl)
		if !ok || gd.Tok != token.VAR {
			break
		}
		out := ""
		for _, sp := range gd.Specs {
			vs := sp.(*ast.ValueSpec)
			if len(vs.Values) != 0 && len(vs.Values) != len(vs.Names) {
				return "", fmt.Errorf("declaration %q outside the subset", g.src(x))
			}
			for i, n := range vs.Names {
				var v string
				var err error
				if len(vs.Values) == 0 {
					v, err = g.zeroOf(g.pi.info.Defs[n].Type())
				} else {
					v, _, err = g.val(vs.Values[i], &st)
				}
				if err != nil {
					return "", err
				}
				b, err := g.bind(n, v, &st, ind)
				if err != nil {
					return "", err
				}
				out += b
			}
		}
		tail, err := g.seq(rest, k, st, ind)
		return out + tail, err
	case *ast.AssignStmt:
		if g.skippedDefine(x) {
			return g.seq(rest, k, st, ind)
		}
		if op, ok := cmOpAssign[x.Tok]; ok && len(x.Lhs) == 1 && len(x.Rhs) == 1 {
			v, _, err := g.val(&ast.BinaryExpr{X: x.Lhs[0], OpPos: x.TokPos, Op: op, Y: x.Rhs[0]}, &st)
			if err != nil {
				return "", err
			}
			out, err := g.bind(x.Lhs[0], v, &st, ind)
			if err != nil {
				return "", err
			}
			tail, err := g.seq(rest, k, st, ind)
			return out + tail, err
		}
		if x.Tok != token.DEFINE && x.Tok != token.ASSIGN {
			return "", fmt.Errorf("assignment %q outside the subset", g.src(x))
		}
		if len(x.Rhs) == 1 {
			if call, ok := x.Rhs[0].(*ast.CallExpr); ok {
				if spec := g.lookupCall(call); spec != nil {
					if spec.kind == cmCut {
						return g.cutCall(spec, call, x.Lhs, after, &st, ind)
					}
					out, err := g.callStmt(spec, call, x.Lhs, &st, ind)
					if err != nil {
						return "", err
					}
					tail, err := g.seq(rest, k, st, ind)
					return out + tail, err
				}
			}
		}
		if len(x.Lhs) != len(x.Rhs) {
			return "", fmt.Errorf("assignment %q outside the subset", g.src(x))
		}
		vals := []string{}
		for _, r := range x.Rhs {
			v, _, err := g.val(r, &st)
			if err != nil {
				return "", err
			}
			vals = append(vals, v)
		}
		out := ""
		for i, l := range x.Lhs {
			b, err := g.bind(l, vals[i], &st, ind)
			if err != nil {
				return "", err
			}
			out += b
		}
		tail, err := g.seq(rest, k, st, ind)
		return out + tail, err
	case *ast.IfStmt:
		if x.Init != nil {
			x2 := *x
			x2.Init = nil
			return g.seq(append([]ast.Stmt{x.Init, &x2}, rest...), k, st, ind)
		}
		cond, err := g.boolCond(x.Cond, &st)
		if err != nil {
			return "", err
		}
		thenS, err := g.seq(x.Body.List, after, st, ind+"  ")
		if err != nil {
			return "", err
		}
		var elseS string
		switch e := x.Else.(type) {
		case nil:
			elseS, err = g.seq(rest, k, st, ind)
			if err != nil {
				return "", err
			}
			return fmt.Sprintf("%sif %s then\n%s\n%selse\n%s", ind, cond, thenS, ind, elseS), nil
		case *ast.BlockStmt:
			elseS, err = g.seq(e.List, after, st, ind+"  ")
		default:
			elseS, err = g.seq([]ast.Stmt{e}, after, st, ind+"  ")
		}
		if err != nil {
			return "", err
		}
		return fmt.Sprintf("%sif %s then\n%s\n%selse\n%s", ind, cond, thenS, ind, elseS), nil
	case *ast.SwitchStmt:
		if x.Init != nil {
			return "", fmt.Errorf("switch with an init statement outside the subset")
		}
		tag := ""
		if x.Tag != nil {
			t, _, err := g.val(x.Tag, &st)
			if err != nil {
				return "", err
			}
			tag = cmParen(t)
		}
		var cases []*ast.CaseClause
		var deflt *ast.CaseClause
		for _, c := range x.Body.List {
			cc := c.(*ast.CaseClause)
			if cc.List == nil {
				deflt = cc
			} else {
				cases = append(cases, cc)
			}
		}
		inner := st
		inner.brk = after
		var build func(i int, ind string) (string, error)
		build = func(i int, ind string) (string, error) {
			if i == len(cases) {
				if deflt == nil {
					return g.runK(after, st, ind)
				}
				return g.seq(deflt.Body, after, inner, ind)
			}
			conds := []string{}
			for _, e := range cases[i].List {
				if tag != "" {
					v, _, err := g.val(e, &st)
					if err != nil {
						return "", err
					}
					conds = append(conds, "("+tag+" == "+cmParen(v)+")")
					continue
				}
				c, err := g.boolCond(e, &st)
				if err != nil {
					return "", err
				}
				conds = append(conds, c)
			}
			cond := strings.Join(conds, " || ")
			if len(conds) > 1 {
				cond = "(" + cond + ")"
			}
			thenS, err := g.seq(cases[i].Body, after, inner, ind+"  ")
			if err != nil {
				return "", err
			}
			elseS, err := build(i+1, ind)
			if err != nil {
				return "", err
			}
			return fmt.Sprintf("%sif %s then\n%s\n%selse\n%s", ind, cond, thenS, ind, elseS), nil
		}
		return build(0, ind)
	case *ast.BranchStmt:
		if x.Tok == token.BREAK && x.Label == nil && st.brk != nil {
			return g.runK(st.brk, st, ind)
		}
		if x.Tok == token.BREAK && x.Label != nil && g.labels[x.Label.Name] != nil {
			return g.runK(g.labels[x.Label.Name], st, ind)
		}
		if x.Tok == token.CONTINUE && x.Label == nil && st.loop != nil {
			return g.park(&st, st.loop.ctor, g.liveArgs(st.loop.live, &st), ind), nil
		}
		return "", fmt.Errorf("%q outside the subset", g.src(x))
	case *ast.GoStmt:
		if spec := g.lookupCall(x.Call); spec != nil && spec.kind == cmWrite && g.calls != nil {
			out, err := g.callStmt(spec, x.Call, nil, &st, ind)
			if err != nil {
				return "", err
			}
			tail, err := g.seq(rest, k, st, ind)
			return out + tail, err
		}
	case *cmLoopBack:
		return g.park(&st, x.sec.ctor, g.liveArgs(x.sec.live, &st), ind), nil
	case *cmRangeHead:
		return g.rangeHead(x, after, st, ind)
	case *cmTryRecv:
		return g.tryRecv(x, after, st, ind)
	case *ast.RangeStmt:
		return g.rangeStart(x, after, st, ind)
	case *ast.LabeledStmt:
		if f, ok := x.Stmt.(*ast.ForStmt); ok {
			return g.forSelect(f, x.Label.Name, after, st, ind)
		}
	case *ast.ForStmt:
		return g.forSelect(x, "", after, st, ind)
	case *ast.SelectStmt:
		if isRecvSelect(x) {
			return "", fmt.Errorf("a receiving select outside `for { select … }` is outside the subset")
		}
		var send *ast.CommClause
		var deflt *ast.CommClause
		for _, c := range x.Body.List {
			cc := c.(*ast.CommClause)
			if cc.Comm == nil {
				deflt = cc
			} else if _, ok := cc.Comm.(*ast.SendStmt); ok && send == nil {
				send = cc
			} else {
				return "", fmt.Errorf("select clause %q outside the subset", firstLine(g.src(cc)))
			}
		}
		if send == nil || deflt == nil || len(x.Body.List) != 2 {
			return "", fmt.Errorf("select outside the subset (one send clause and a default clause)")
		}
		ss := send.Comm.(*ast.SendStmt)
		ch, ok := g.chanOf(ss.Chan)
		if !ok {
			return "", fmt.Errorf("channel %q is not in the interface table", g.src(ss.Chan))
		}
		v, vty, err := g.val(ss.Value, &st)
		if err != nil {
			return "", err
		}
		if err := g.iface.add(ch+"_trySend", cmFnType([]string{"W", vty}, "W × Bool")); err != nil {
			return "", err
		}
		r, w := g.freshN("r"), g.freshN("w")
		out := fmt.Sprintf("%slet %s := I.%s_trySend %s %s\n%slet %s : W := %s.1\n", ind, r, ch, st.w, cmParen(v), ind, w, r)
		inner := st
		inner.w = w
		inner.brk = after
		thenS, err := g.seq(send.Body, after, inner, ind+"  ")
		if err != nil {
			return "", err
		}
		elseS, err := g.seq(deflt.Body, after, inner, ind+"  ")
		if err != nil {
			return "", err
		}
		return out + fmt.Sprintf("%sif %s.2 then\n%s\n%selse\n%s", ind, r, thenS, ind, elseS), nil
	case *ast.SendStmt:
		ch, ok := g.chanOf(x.Chan)
		if !ok {
			return "", fmt.Errorf("channel %q is not in the interface table", g.src(x.Chan))
		}
		if len(rest) == 0 || isVerifCall(rest[0], "verifPoint") == nil {
			return "", fmt.Errorf("the blocking send %q is not followed by a yield point", g.src(x))
		}
		v, vty, err := g.val(x.Value, &st)
		if err != nil {
			return "", err
		}
		if err := g.iface.add(ch+"_send", cmFnType([]string{"W", vty}, "W × Bool")); err != nil {
			return "", err
		}
		sec, err := g.yieldAt(isVerifCall(rest[0], "verifPoint"), &cmKont{rest[1:], k, st.brk, st.loop}, &st)
		if err != nil {
			return "", err
		}
		blocked := sec.ctor + "_blocked"
		found := false
		for _, s := range g.secs {
			if s.ctor == blocked {
				found = true
			}
		}
		if !found {
			g.secs = append(g.secs, &cmSection{ctor: blocked, live: sec.live, blockedOf: sec.ctor,
				doc: fmt.Sprintf("parked inside the blocking send `%s`", g.src(x))})
		}
		r, w := g.freshN("r"), g.freshN("w")
		out := fmt.Sprintf("%slet %s := I.%s_send %s %s\n%slet %s : W := %s.1\n", ind, r, ch, st.w, cmParen(v), ind, w, r)
		st.w = w
		return out + fmt.Sprintf("%sif %s.2 then\n%s\n%selse\n%s", ind, r,
			g.park(&st, sec.ctor, g.liveArgs(sec.live, &st), ind+"  "), ind,
			g.park(&st, blocked, g.liveArgs(sec.live, &st), ind+"  ")), nil
	}
	return "", fmt.Errorf("statement %q outside the subset", firstLine(g.src(s)))
}

// ---------------------------------------------------------------- one function

func (g *cmGen) translate() (string, error) {
	fd := g.fd
	if fd.Recv == nil || len(fd.Recv.List) != 1 || len(fd.Recv.List[0].Names) != 1 {
		return "", fmt.Errorf("not a method with a named receiver")
	}
	g.recv = g.pi.info.Defs[fd.Recv.List[0].Names[0]]
	// type parameters of the receiver
	rt := g.recv.Type()
	if p, ok := rt.(*types.Pointer); ok {
		rt = p.Elem()
	}
	if n, ok := rt.(*types.Named); ok {
		for i := 0; i < n.TypeArgs().Len(); i++ {
			if tp, ok := n.TypeArgs().At(i).(*types.TypeParam); ok {
				g.tparams = append(g.tparams, tp.Obj().Name())
			}
		}
	}
	if strings.Join(g.tparams, " ") != "K V" {
		return "", fmt.Errorf("receiver type parameters %v (expected K V)", g.tparams)
	}
	if fd.Type.Results != nil {
		for _, f := range fd.Type.Results.List {
			if len(f.Names) != 0 {
				return "", fmt.Errorf("named results outside the subset")
			}
			t, err := g.mapType(g.pi.info.Types[f.Type].Type)
			if err != nil {
				return "", err
			}
			g.retTypes = append(g.retTypes, t)
		}
	}
	entry := &cmSection{def: "entry", cont: &cmKont{stmts: fd.Body.List}, doc: "section from the entry of the method"}
	for _, f := range fd.Type.Params.List {
		for _, n := range f.Names {
			obj := g.pi.info.Defs[n]
			ty, err := g.mapType(obj.Type())
			if err != nil {
				return "", fmt.Errorf("parameter %s: %v", n.Name, err)
			}
			entry.defExtra = append(entry.defExtra, cmField{sanitize(n.Name), ty})
			entry.extraObjs = append(entry.extraObjs, obj)
		}
	}
	g.secs = append(g.secs, entry)
	for i := 0; i < len(g.secs); i++ {
		sec := g.secs[i]
		if sec.def == "" {
			continue
		}
		st := cmState{env: map[types.Object]string{}, w: "w"}
		for j, o := range sec.extraObjs {
			if o != nil {
				st.env[o] = sec.defExtra[j].name
			}
		}
		for _, o := range sec.live {
			st.env[o] = sanitize(o.Name())
		}
		g.fresh = 0
		g.usesNil = false
		body, err := g.runK(sec.cont, st, "  ")
		if err != nil {
			return "", err
		}
		sec.body = body
		sec.usesNil = g.usesNil
	}
	// ---- emit
	var b strings.Builder
	full := "Cache." + g.fn
	tp := strings.Join(g.tparams, " ")
	fmt.Fprintf(&b, "/-- where a section of %s stopped, with the Go locals that are referenced after that point -/\n", full)
	fmt.Fprintf(&b, "inductive %s_Out (%s : Type) where\n", g.fn, tp)
	ret := "  | ret"
	for i, t := range g.retTypes {
		ret += fmt.Sprintf(" (r%d : %s)", i+1, cmUnparen(t))
	}
	b.WriteString(ret + "\n")
	for _, sec := range g.secs {
		if sec.ctor == "" {
			continue
		}
		fs, _ := g.liveFields(sec.live)
		line := "  | " + sec.ctor
		for _, f := range append(append([]cmField{}, sec.ctorArgs...), fs...) {
			line += fmt.Sprintf(" (%s : %s)", f.name, cmUnparen(f.ty))
		}
		b.WriteString(line + "\n")
	}
	b.WriteString("\n")
	for _, sec := range g.secs {
		if sec.def == "" {
			continue
		}
		fs, _ := g.liveFields(sec.live)
		params := ""
		if sec.usesNil {
			params += " (c_nil : Bool)"
		}
		params += " (w : W)"
		for _, f := range append(append([]cmField{}, sec.defExtra...), fs...) {
			params += fmt.Sprintf(" (%s : %s)", f.name, cmUnparen(f.ty))
		}
		fmt.Fprintf(&b, "/-- %s, %s -/\n", full, sec.doc)
		fmt.Fprintf(&b, "def %s_%s {W %s : Type} (I : Iface W %s)%s : W × %s :=\n%s\n\n", g.fn, sec.def, tp, tp, params, g.outTy(), sec.body)
	}
	// dispatcher
	fmt.Fprintf(&b, "/-- %s: run the section that starts where `o` stopped (`ret`, `call_…` and `…_blocked` do not run code of this method) -/\n", full)
	fmt.Fprintf(&b, "def %s_step {W %s : Type} (I : Iface W %s) (w : W) : %s → W × %s\n", g.fn, tp, tp, g.outTy(), g.outTy())
	for _, sec := range g.secs {
		if sec.ctor == "" || sec.def == "" || len(sec.ctorArgs) != 0 || strings.HasPrefix(sec.ctor, "call_") || sec.usesNil {
			continue
		}
		fs, _ := g.liveFields(sec.live)
		args := ""
		for _, f := range fs {
			args += " " + f.name
		}
		fmt.Fprintf(&b, "  | .%s%s => %s_%s I w%s\n", sec.ctor, args, g.fn, sec.def, args)
	}
	b.WriteString("  | o => (w, o)\n\n")
	hasBlocked := false
	for _, sec := range g.secs {
		if sec.blockedOf != "" {
			hasBlocked = true
		}
	}
	if hasBlocked {
		fmt.Fprintf(&b, "/-- %s: where the goroutine is once a receiver has completed its blocked send -/\n", full)
		fmt.Fprintf(&b, "def %s_unblocked {%s : Type} : %s → %s\n", g.fn, tp, g.outTy(), g.outTy())
		for _, sec := range g.secs {
			if sec.blockedOf == "" {
				continue
			}
			fs, _ := g.liveFields(sec.live)
			args := ""
			for _, f := range fs {
				args += " " + f.name
			}
			fmt.Fprintf(&b, "  | .%s%s => .%s%s\n", sec.ctor, args, sec.blockedOf, args)
		}
		b.WriteString("  | o => o\n\n")
	}
	return b.String(), nil
}

// ---------------------------------------------------------------- the module

func genCacheM(load func(string) *pkgInfo) (string, error) {
	pi := load("")
	iface := &cmIface{sigs: map[string]string{}}
	var body strings.Builder
	for _, name := range cachemFuncs {
		fd := pi.findFunc(name)
		short := strings.TrimPrefix(name, "Cache.")
		if fd == nil || fd.Body == nil {
			msg := fmt.Sprintf("%s: function not found", short)
			extraFailed = append(extraFailed, "CacheM."+msg)
			fmt.Fprintf(&body, "-- UNTRANSLATABLE %s\n\n", msg)
			continue
		}
		g := &cmGen{pi: pi, fd: fd, fn: short, iface: iface, byPos: map[token.Pos]*cmSection{}, names: map[string]int{}}
		g.c = &ctx{pi: pi, env: map[types.Object]string{}, leaves: map[string]string{}, opaque: false}
		g.c.hook = g.hook
		txt, err := g.translate()
		if err != nil {
			msg := fmt.Sprintf("%s: %v", short, strings.ReplaceAll(err.Error(), "\n", " "))
			extraFailed = append(extraFailed, "CacheM."+msg)
			fmt.Fprintf(&body, "-- UNTRANSLATABLE %s\n\n", msg)
			continue
		}
		body.WriteString(txt)
	}
	var b strings.Builder
	b.WriteString("open Gen.Methods\n\n")
	b.WriteString("-- cache.go: the client methods cut at their yield points; see go2lean/cachem.go.\n")
	b.WriteString("set_option linter.unusedVariables false\n\n")
	b.WriteString("/-- everything the sections call but do not define (go2lean/specs_cachem.go); `W` is the shared state -/\n")
	b.WriteString("structure Iface (W K V : Type) where\n")
	b.WriteString("  zeroV : V\n")
	for _, c := range cachemCalls {
		if sig, ok := iface.sigs[c.field]; ok {
			fmt.Fprintf(&b, "  /-- `%s` -/\n  %s : %s\n", c.match, c.field, sig)
		}
	}
	chans := []string{}
	for k := range cachemChans {
		chans = append(chans, k)
	}
	sort.Strings(chans)
	for _, k := range chans {
		ch := cachemChans[k]
		if sig, ok := iface.sigs[ch+"_trySend"]; ok {
			fmt.Fprintf(&b, "  /-- `select { case %s <- x: … default: … }`: (state, sent) -/\n  %s_trySend : %s\n", k, ch, sig)
		}
		if sig, ok := iface.sigs[ch+"_send"]; ok {
			fmt.Fprintf(&b, "  /-- the blocking `%s <- x`: (state, sent); false = parked inside the send -/\n  %s_send : %s\n", k, ch, sig)
		}
	}
	b.WriteString("\n")
	b.WriteString(body.String())
	return b.String(), nil
}
