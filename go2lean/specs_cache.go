package main

func init() { register("cache", cacheSpecs()) }

// Kernels of cache.go / store.go / ttl.go used by the concurrent Cache model.
func cacheSpecs() []Spec {
	o := "Cache"
	return []Spec{
		{Kind: KConst, Match: "itemSize", Lean: "itemSize", Out: o},
		{Kind: KConst, Match: "numShards", Lean: "numShards", Out: o},
		{Kind: KConst, Match: "bucketDurationSecs", Lean: "bucketDurationSecs", Out: o},
		{Kind: KConst, Match: "setBufSize", Lean: "setBufSize", Out: o},
		// ttl.go
		{Kind: KFunc, Func: "storageBucket", Lean: "storageBucket", Out: o},
		{Kind: KFunc, Func: "cleanupBucket", Lean: "cleanupBucket", Out: o},
		{Kind: KExpr, Func: "expirationMap.add", Match: "expiration.IsZero()", Lean: "emAddSkip", Out: o},
		{Kind: KExpr, Func: "expirationMap.update", Match: "newExpTime.IsZero()", Lean: "emUpdateSkip", Out: o},
		{Kind: KExpr, Func: "expirationMap.add", Match: "bucketNum <= m.lastCleanedBucketNum", Lean: "emAddLate", Out: o},
		{Kind: KExpr, Func: "expirationMap.add", Match: "m.lastCleanedBucketNum + 1", Lean: "emAddNext", Out: o},
		{Kind: KExpr, Func: "expirationMap.update", Match: "newBucketNum <= m.lastCleanedBucketNum", Lean: "emUpdateLate", Out: o},
		{Kind: KExpr, Func: "expirationMap.update", Match: "m.lastCleanedBucketNum + 1", Lean: "emUpdateNext", Out: o},
		{Kind: KExpr, Func: "expirationMap.cleanup", Match: "m.lastCleanedBucketNum + 1", Lean: "sweepFirst", Out: o},
		{Kind: KExpr, Func: "expirationMap.cleanup", Match: "bucketNum <= currentBucketNum", Lean: "sweepLoopCond", Out: o},
		{Kind: KExpr, Func: "lockedMap.DelExpired", Match: "item.expiration.IsZero() || item.expiration.After(now)", Lean: "sweepSkip", Out: o},
		{Kind: KExpr, Func: "lockedMap.DelExpired", Match: "conflict != 0 && (conflict != item.conflict)", Lean: "sweepConflictMismatch", Out: o},
		// store.go
		{Kind: KExpr, Func: "shardedMap.Get", Match: "key % numShards", Lean: "shardOf", Out: o},
		{Kind: KExpr, Func: "lockedMap.get", Match: "conflict != 0 && (conflict != item.conflict)", Lean: "getConflictMismatch", Out: o},
		{Kind: KExpr, Func: "lockedMap.get", Match: "!item.expiration.IsZero() && time.Now().After(item.expiration)", Lean: "getExpired", Out: o},
		{Kind: KExpr, Func: "lockedMap.Set", Match: "i.Conflict != 0 && (i.Conflict != item.conflict)", Lean: "setConflictMismatch", Out: o},
		{Kind: KExpr, Func: "lockedMap.Set", Match: "m.shouldUpdate != nil && !m.shouldUpdate(i.Value, item.value)", Lean: "setRefused", Out: o},
		{Kind: KExpr, Func: "lockedMap.Del", Match: "conflict != 0 && (conflict != item.conflict)", Lean: "delConflictMismatch", Out: o},
		{Kind: KExpr, Func: "lockedMap.Del", Match: "!item.expiration.IsZero()", Lean: "delHasExpiry", Out: o},
		{Kind: KExpr, Func: "lockedMap.Update", Match: "newItem.Conflict != 0 && (newItem.Conflict != item.conflict)", Lean: "updConflictMismatch", Out: o},
		{Kind: KExpr, Func: "lockedMap.Update", Match: "m.shouldUpdate != nil && !m.shouldUpdate(newItem.Value, item.value)", Lean: "updRefused", Out: o},
		{Kind: KExpr, Func: "shardedMap.IterValues", Match: "!item.expiration.IsZero() && time.Now().After(item.expiration)", Lean: "iterExpired", Out: o},
		// cache.go
		{Kind: KExpr, Func: "Cache.SetWithTTL", Match: "ttl == 0", Lean: "ttlNone", Out: o},
		{Kind: KExpr, Func: "Cache.SetWithTTL", Match: "ttl < 0", Lean: "ttlNegative", Out: o},
		{Kind: KExpr, Func: "Cache.SetWithTTL", Match: "time.Now().Add(ttl)", Lean: "ttlExpiration", Out: o},
		{Kind: KExpr, Func: "Cache.SetWithTTL", Match: "i.flag == itemUpdate", Lean: "dropIsUpdate", Out: o},
		{Kind: KExpr, Func: "Cache.GetTTL", Match: "expiration.IsZero()", Lean: "getTTLNoExpiry", Out: o},
		{Kind: KExpr, Func: "Cache.GetTTL", Match: "time.Now().After(expiration)", Lean: "getTTLExpired", Out: o},
		{Kind: KExpr, Func: "Cache.GetTTL", Match: "time.Until(expiration)", Lean: "getTTLRemaining", Out: o},
		{Kind: KExpr, Func: "Cache.Clear", Match: "i.flag != itemUpdate", Lean: "clearEvictsItem", Out: o},
		{Kind: KExpr, Func: "Cache.processItems", Match: "i.Cost == 0 && c.cost != nil && i.flag != itemDelete", Lean: "useCostFn", Out: o},
		{Kind: KExpr, Func: "Cache.processItems", Match: "!c.ignoreInternalCost", Lean: "addInternalCost", Out: o},
		{Kind: KExpr, Func: "Metrics.add", Match: "(hash % 25) * 10", Lean: "metricStripe", Out: o},
		// statement sequences that are modelled by hand and observable only through rare behaviour
		{Kind: KPin, Func: "defaultPolicy.Clear", Nth: -1, Match: "p.Lock(); p.admit.clear(); p.evict.clear(); p.Unlock()", Lean: "pinPolicyClear", Out: o},
		{Kind: KPin, Func: "tinyLFU.clear", Nth: -1, Match: "p.incrs = 0; p.door.Clear(); p.freq.Clear()", Lean: "pinTinyClear", Out: o},
		{Kind: KPin, Func: "sampledLFU.clear", Nth: -1, Match: "p.used = 0; p.keyCosts = make(map[uint64]int64)", Lean: "pinEvictClear", Out: o},
		// atomic sections the model treats as one step
		{Kind: KLockShape, Func: "lockedMap.Update", Match: "m.Lock", Lean: "atomicUpdate", Out: o},
		{Kind: KLockShape, Func: "lockedMap.Del", Match: "m.Lock", Lean: "atomicDel", Out: o},
		{Kind: KLockShape, Func: "lockedMap.DelExpired", Match: "m.Lock", Lean: "atomicDelExpired", Out: o},
		{Kind: KLockShape, Func: "lockedMap.Clear", Match: "m.Lock", Lean: "atomicShardClear", Out: o},
		{Kind: KLockShape, Func: "lockedMap.Expiration", Match: "m.RLock", Lean: "atomicExpiration", Out: o},
		{Kind: KLockShape, Func: "lockedMap.get", Match: "m.RLock-read", Lean: "atomicGetRead", Out: o},
		{Kind: KLockShape, Func: "lockedMap.Set", Match: "m.Lock", Nth: 1, Lean: "atomicSet", Out: o},
		{Kind: KLockShape, Func: "defaultPolicy.Add", Match: "p.Lock", Lean: "atomicPolicyAdd", Out: o},
		{Kind: KConst, Match: "itemNew", Lean: "itemNew", Out: o},
		{Kind: KConst, Match: "itemDelete", Lean: "itemDelete", Out: o},
		{Kind: KConst, Match: "itemUpdate", Lean: "itemUpdate", Out: o},
	}
}
