package main

// Whole-method translation (methods.go): which Go struct types become Lean structures, which
// methods are translated in state-passing style, which callees are kept as ordered *effects*
// and which constants are emitted next to them.  Output: RV/Gen/Methods.lean.
//
// The hand-written cache / policy models are proved EQUAL to these generated functions in
// RV/Props/TieStore.lean, TieExpiry.lean, TiePolicy.lean.

// Go struct types, dependencies first.
var methodStructs = []string{"storeItem", "Item", "expirationMap", "lockedMap", "sampledLFU", "defaultPolicy"}

// Calls that are not translated but recorded, in order, in the `effs : List Eff` result.
var methodEffects = []string{"Metrics.add"}

// Constants used to interpret the effects (metric kinds).
var methodConsts = []string{"hit", "miss", "keyAdd", "keyUpdate", "keyEvict", "costAdd", "costEvict",
	"dropSets", "rejectSets", "dropGets", "keepGets"}

type methodSpec struct {
	fn   string // "lockedMap.Update"
	lean string // Lean def name
}

// Methods, in the order of the task's priorities.  Callees are translated before their callers
// whatever the order here; a callee that is not listed is translated on demand as an
// `@[simp]` auxiliary definition (so an extracted helper is unfolded by the same proof script).
var methodSpecs = []methodSpec{
	// ttl.go
	{"expirationMap.add", "expirationMap_add"},
	{"expirationMap.update", "expirationMap_update"},
	{"expirationMap.del", "expirationMap_del"},
	// store.go
	{"lockedMap.get", "lockedMap_get"},
	{"lockedMap.Expiration", "lockedMap_Expiration"},
	{"lockedMap.Set", "lockedMap_Set"},
	{"lockedMap.Update", "lockedMap_Update"},
	{"lockedMap.Del", "lockedMap_Del"},
	{"lockedMap.DelExpired", "lockedMap_DelExpired"},
	// policy.go
	{"sampledLFU.getMaxCost", "sampledLFU_getMaxCost"},
	{"sampledLFU.roomLeft", "sampledLFU_roomLeft"},
	{"sampledLFU.add", "sampledLFU_add"},
	{"sampledLFU.del", "sampledLFU_del"},
	{"sampledLFU.updateIfHas", "sampledLFU_updateIfHas"},
	{"sampledLFU.clear", "sampledLFU_clear"},
	{"defaultPolicy.Has", "defaultPolicy_Has"},
	{"defaultPolicy.Del", "defaultPolicy_Del"},
	{"defaultPolicy.Cap", "defaultPolicy_Cap"},
	{"defaultPolicy.Update", "defaultPolicy_Update"},
	{"defaultPolicy.Cost", "defaultPolicy_Cost"},
}
