package main

// Cache methods of cache.go cut at their yield points (cachem.go): output RV/Gen/CacheM.lean.
//
// RV/Props/TieCache.lean proves every generated section equal to the step function of the
// hand-written model RV/Model/Cache.lean for the corresponding program counter.

// Functions, in the order of emission.
var cachemFuncs = []string{
	"Cache.SetWithTTL",
	"Cache.Del",
	"Cache.Get",
	"Cache.GetTTL",
}

// What a section may call.  `match` is the gofmt text of the callee expression.
//
//	pure  - a function of its arguments only                          f : args → R
//	read  - reads the shared state, does not change it                f : W → args → R
//	write - may change the shared state (store, callbacks, metrics)   f : W → args → W [× R]
//	cut   - the callee has yield points of its own: the section ends at the call
//	        (`call_<field> args…`) and a new section starts with its results
//
// The parameter / result types of the interface field are taken from the Go signature of the
// callee, nothing is declared here.
type cmCallKind int

const (
	cmPure cmCallKind = iota
	cmRead
	cmWrite
	cmCut
)

type cmCall struct {
	match string
	field string
	kind  cmCallKind
}

var cachemCalls = []cmCall{
	{"c.keyToHash", "keyToHash", cmPure},
	{"c.isClosed.Load", "isClosed", cmRead},
	{"time.Now", "time_Now", cmRead},
	{"c.storedItems.Update", "store_Update", cmWrite},
	{"c.storedItems.Del", "store_Del", cmWrite},
	{"c.storedItems.Get", "store_Get", cmCut},
	{"c.storedItems.Expiration", "store_Expiration", cmRead},
	{"c.getBuf.Push", "getBuf_Push", cmWrite},
	{"c.onExit", "onExit", cmWrite},
	{"c.Metrics.add", "Metrics_add", cmWrite},
}

// Channels a section may send on: `select { case ch <- x: … default: … }` is `<field>_trySend`,
// the blocking `ch <- x` is `<field>_send` (result false = the goroutine is parked in the send).
var cachemChans = map[string]string{
	"c.setBuf": "setBuf",
}
