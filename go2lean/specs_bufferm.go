package main

// Whole-method translation of z/buffer.go (bufm.go): which Go structs become Lean structures,
// which functions are translated, the loop bounds, and the calls that leave the package.
// Output: RV/Gen/BufferM.lean; hand-written meaning of the primitives: RV/GenBuf.lean.
//
// RV/Props/TieBuffer.lean proves the hand-written model RV/Model/Buffer.lean (the one the C11
// theorems are about) equal to these generated functions; Drive/BufferM.lean replays the
// `buffer` stream on them.

func init() {
	extras["BufferM"] = genBufferM
	extraImports["BufferM"] = []string{"RV.GenBuf"}
}

// Struct fields that are modelled.  `nonnil`: the field is a slice / pointer whose nil-ness
// the code looks at (or relies on): a Bool companion field `<f>_nonnil` is kept.
// Everything not listed is dropped (named in the generated doc comment).
var bufmStructs = []bmStructSpec{
	{Go: "MmapFile", Lean: "Gen.Buf.MmapFile", Handwritten: true, Fields: []bmFieldSpec{{Name: "Data"}}},
	{Go: "Buffer", Lean: "Buffer", Fields: []bmFieldSpec{
		{Name: "padding"}, {Name: "offset"}, {Name: "buf", Nonnil: true}, {Name: "bufType"},
		{Name: "curSz"}, {Name: "maxSz"}, {Name: "mmapFile", Nonnil: true}, {Name: "autoMmapAfter"}}},
	{Go: "sortHelper", Lean: "sortHelper", Fields: []bmFieldSpec{
		{Name: "offsets"}, {Name: "b"}, {Name: "tmp"}, {Name: "less"}, {Name: "small"}}},
}

// Functions, callees before callers.  Fuel: bound of the k-th `for cond {}` loop (or of the
// recursion), a Lean term in which `$x` stands for the current value of the Go variable x.
// Alias: a `[]byte` parameter that is a window of a slice field reachable from the receiver.
var bufmFuncs = []bmFuncSpec{
	{Go: "Buffer.StartOffset", Lean: "StartOffset"},
	{Go: "Buffer.IsEmpty", Lean: "IsEmpty"},
	{Go: "Buffer.LenWithPadding", Lean: "LenWithPadding"},
	{Go: "Buffer.LenNoPadding", Lean: "LenNoPadding"},
	{Go: "Buffer.Bytes", Lean: "Bytes"},
	{Go: "Buffer.Grow", Lean: "Grow"},
	{Go: "Buffer.Allocate", Lean: "Allocate"},
	{Go: "Buffer.AllocateOffset", Lean: "AllocateOffset"},
	{Go: "Buffer.writeLen", Lean: "writeLen"},
	{Go: "Buffer.SliceAllocate", Lean: "SliceAllocate"},
	{Go: "Buffer.WriteSlice", Lean: "WriteSlice"},
	{Go: "Buffer.Write", Lean: "Write"},
	{Go: "Buffer.Reset", Lean: "Reset"},
	{Go: "Buffer.Data", Lean: "Data"},
	{Go: "Buffer.Slice", Lean: "Slice"},
	{Go: "Buffer.SliceOffsets", Lean: "SliceOffsets", Fuel: []string{"$b.offset.toNat + 2"}},
	{Go: "Buffer.SliceIterate", Lean: "SliceIterate", Fuel: []string{"$b.offset.toNat + 2"}},
	{Go: "NewBuffer", Lean: "NewBuffer"},
	{Go: "rawSlice", Lean: "rawSlice"},
	{Go: "sortHelper.sortSmall", Lean: "sortSmall", Fuel: []string{"$s.b.offset.toNat + 2"}},
	{Go: "sortHelper.merge", Lean: "merge", Fuel: []string{"(Gen.Buf.Win.len $left).toNat + (Gen.Buf.Win.len $right).toNat + 1"},
		Alias: map[string][]string{"left": {"b", "buf"}, "right": {"b", "buf"}}},
	{Go: "sortHelper.sort", Lean: "sort", Recursive: true},
	{Go: "Buffer.SortSliceBetween", Lean: "SortSliceBetween", Fuel: []string{"$b.offset.toNat + 2"}, RecFuel: "$offsets.size + 1"},
	{Go: "Buffer.SortSlice", Lean: "SortSlice"},
}

// Calls that leave the translated set.  Lean: the term applied to the modelled arguments
// (`Args`: indices of the Go arguments that are passed; the others — tags, directories,
// files — are not modelled).  Results: kinds of the Go results in order ("_" = not modelled,
// "err", "bytes" = a fresh memory object, "MmapFile").  Option: the Lean term is in `Option`.
// Mem: for a method of a struct field: the sibling `[]byte` field holding the live content of
// the memory the call works on, passed first; the first Lean result replaces the field
// `Store` of the receiver.
var bufmExterns = map[string]bmExternSpec{
	"Calloc":            {Lean: "os.calloc", Args: []int{0}, Results: []string{"bytes"}, Option: true, OS: true},
	"os.CreateTemp":     {Lean: "os.createTemp", Args: []int{}, Results: []string{"_", "err"}, OS: true},
	"OpenMmapFileUsing": {Lean: "os.openMmap", Args: []int{1}, Results: []string{"MmapFile", "err"}, OS: true},
	"MmapFile.Truncate": {Lean: "os.truncate", Args: []int{0}, Results: []string{"err"}, OS: true, Mem: "buf", Store: "Data"},
}

// Calls that have no modelled effect.
var bufmSkip = map[string]bool{"Free": true, "Buffer.Release": true}
