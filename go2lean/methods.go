package main

// Whole-method translation in state-passing style (RV/Gen/Methods.lean).
//
// Each listed Go struct becomes a Lean structure (mutexes and channels dropped; a pointer or
// func field `f` becomes `f_nonnil : Bool` plus the pointee / the function; a pointer to a
// struct that is not listed keeps only `f_nonnil`).  Each listed method becomes a Lean function
//
//	name {V} [zeroV] [recv_nonnil] recv  [p_nonnil] p …  [time_Now …]
//	    : [recv'] × results… × [effs]
//
// where recv' is present iff the method writes receiver state, `effs : List Eff` iff the method
// (transitively) performs one of the calls listed in methodEffects (recorded in program order),
// `X_nonnil` iff the body compares X with nil, `time_Now…` one per syntactic `time.Now()`.
//
// Maps are RV.AMap: `v, ok := m[k]` is `lookup` (+ `getD zero`, `isSome`), `m[k] = v` is
// `insert`, `delete(m,k)` is `erase`.  A map-typed local obtained from a map of maps is an
// ALIAS of that element: a write through it is written back to the element (`origin`), provided
// the local is known to be non-nil (made by `make`, or guarded by its comma-ok flag) and no
// other write to the outer map happened in between (otherwise UNTRANSLATABLE, never a guess).
// Lock/Unlock/defer Unlock and the verif hooks are skipped (the lock shape is a separate
// obligation).  Scalar expressions go through main.go's `ctx.expr` (hooked).
//
// Anything outside the subset yields `-- UNTRANSLATABLE <name>: reason`.

import (
	"fmt"
	"go/ast"
	"go/token"
	"go/types"
	"sort"
	"strings"
)

func init() {
	extras["Methods"] = genMethods
	extraImports["Methods"] = []string{"RV.Data.AMap", "RV.Gen.Cache"}
}

// ---------------------------------------------------------------- types

type mKind int

const (
	mScalar mKind = iota
	mTParam
	mStruct
	mPtr       // pointer to a translated struct
	mOpaquePtr // pointer to anything else: only its nil-ness is kept
	mMap
	mFunc
)

type mT struct {
	k        mKind
	l        lty
	lean     string
	st       *mStructInfo
	key, val *mT
	params   []*mT
	res      *mT
}

func (t *mT) asLty() lty {
	if t.k == mScalar {
		return t.l
	}
	return lty{kind: "x:" + t.lean}
}

func scalarT(l lty) *mT { return &mT{k: mScalar, l: l, lean: l.lean()} }

type mField struct {
	goName, lean string
	t            *mT
	skipped      string
}

type mStructInfo struct {
	goName, lean string
	generic      bool
	fields       []*mField
	hasZero      bool
	filled       bool
}

func (s *mStructInfo) leanType() string {
	if s.generic {
		return "(" + s.lean + " V)"
	}
	return s.lean
}

func (s *mStructInfo) field(name string) *mField {
	for _, f := range s.fields {
		if f.goName == name {
			return f
		}
	}
	return nil
}

func isAtomic(s string) bool {
	if !strings.ContainsAny(s, " \n") {
		return true
	}
	open := map[byte]byte{'(': ')', '{': '}', '[': ']'}
	cl, ok := open[s[0]]
	if !ok {
		return false
	}
	depth := 0
	for i := 0; i < len(s); i++ {
		switch s[i] {
		case s[0]:
			depth++
		case cl:
			depth--
			if depth == 0 {
				return i == len(s)-1
			}
		}
	}
	return false
}

func atom(s string) string {
	if isAtomic(s) {
		return s
	}
	return "(" + s + ")"
}

type mEffect struct {
	qual, ctor string
	recvPtr    bool
	names      []string
	params     []*mT
}

type mParam struct {
	obj        types.Object
	name       string
	t          *mT
	needNonnil bool
}

type mMethod struct {
	qual, lean string
	fd         *ast.FuncDecl
	err        error
	aux        bool
	generic    bool
	needZero   bool
	recv       *mParam
	params     []*mParam
	clocks     []string
	clockOf    map[string]string
	results    []*mT
	mutates    bool
	hasEffs    bool
}

func (me *mMethod) nComps() int {
	n := len(me.results)
	if me.mutates {
		n++
	}
	if me.hasEffs {
		n++
	}
	return n
}

type mgen struct {
	pi       *pkgInfo
	structs  map[string]*mStructInfo
	effects  map[string]*mEffect
	done     map[string]*mMethod
	inProg   map[string]bool
	out      []string
	specLean map[string]string
}

func lowerFirstUpper(s string) string {
	if s == "" {
		return s
	}
	return strings.ToUpper(s[:1]) + s[1:]
}

func namedOf(t types.Type) *types.Named {
	if a, ok := t.(*types.Alias); ok {
		t = types.Unalias(a)
	}
	n, _ := t.(*types.Named)
	return n
}

func (g *mgen) mtype(t types.Type) (*mT, error) {
	if t == nil {
		return nil, fmt.Errorf("untyped expression")
	}
	switch u := t.(type) {
	case *types.TypeParam:
		return &mT{k: mTParam, lean: "V"}, nil
	case *types.Pointer:
		if n := namedOf(u.Elem()); n != nil {
			if st := g.structs[n.Origin().Obj().Name()]; st != nil && n.Obj().Pkg() == g.pi.pkg {
				return &mT{k: mPtr, st: st, lean: st.leanType()}, nil
			}
		}
		return &mT{k: mOpaquePtr, lean: "Bool"}, nil
	}
	if n := namedOf(t); n != nil && n.Obj().Pkg() == g.pi.pkg {
		if st := g.structs[n.Origin().Obj().Name()]; st != nil {
			return &mT{k: mStruct, st: st, lean: st.leanType()}, nil
		}
	}
	if l, err := leanType(t); err == nil {
		return scalarT(l), nil
	}
	switch u := t.Underlying().(type) {
	case *types.Map:
		k, err := g.mtype(u.Key())
		if err != nil || k.k != mScalar {
			return nil, fmt.Errorf("map key type %s outside the subset", u.Key())
		}
		v, err := g.mtype(u.Elem())
		if err != nil {
			return nil, err
		}
		if v.k != mScalar && v.k != mTParam && v.k != mStruct && v.k != mMap {
			return nil, fmt.Errorf("map value type %s outside the subset", u.Elem())
		}
		return &mT{k: mMap, key: k, val: v, lean: fmt.Sprintf("(RV.AMap %s %s)", atom(k.lean), atom(v.lean))}, nil
	case *types.Signature:
		if u.Results().Len() != 1 || u.Variadic() {
			return nil, fmt.Errorf("func type %s outside the subset", t)
		}
		ft := &mT{k: mFunc}
		parts := []string{}
		for i := 0; i < u.Params().Len(); i++ {
			p, err := g.mtype(u.Params().At(i).Type())
			if err != nil || (p.k != mScalar && p.k != mTParam) {
				return nil, fmt.Errorf("func type %s outside the subset", t)
			}
			ft.params = append(ft.params, p)
			parts = append(parts, atom(p.lean))
		}
		r, err := g.mtype(u.Results().At(0).Type())
		if err != nil || (r.k != mScalar && r.k != mTParam) {
			return nil, fmt.Errorf("func type %s outside the subset", t)
		}
		ft.res = r
		parts = append(parts, atom(r.lean))
		ft.lean = "(" + strings.Join(parts, " → ") + ")"
		return ft, nil
	}
	return nil, fmt.Errorf("type %s outside the subset", t)
}

func containsRef(t *mT) bool {
	switch t.k {
	case mMap, mPtr, mOpaquePtr, mFunc:
		return true
	case mStruct:
		for _, f := range t.st.fields {
			if f.skipped == "" && containsRef(f.t) {
				return true
			}
		}
	}
	return false
}

// buildStructs creates the structure table (shells first, so that fields may refer to each other).
func (g *mgen) buildStructs() error {
	for _, name := range methodStructs {
		obj := g.pi.pkg.Scope().Lookup(name)
		tn, ok := obj.(*types.TypeName)
		if !ok {
			return fmt.Errorf("struct type %s not found", name)
		}
		n := namedOf(tn.Type())
		if n == nil {
			return fmt.Errorf("%s is not a named type", name)
		}
		if _, ok := n.Underlying().(*types.Struct); !ok {
			return fmt.Errorf("%s is not a struct", name)
		}
		if n.TypeParams().Len() > 1 {
			return fmt.Errorf("%s has more than one type parameter", name)
		}
		g.structs[name] = &mStructInfo{goName: name, lean: lowerFirstUpper(name), generic: n.TypeParams().Len() == 1}
	}
	for _, name := range methodStructs {
		st := g.structs[name]
		n := namedOf(g.pi.pkg.Scope().Lookup(name).Type())
		s := n.Underlying().(*types.Struct)
		st.hasZero = true
		for i := 0; i < s.NumFields(); i++ {
			f := s.Field(i)
			mf := &mField{goName: f.Name(), lean: sanitize(f.Name())}
			if fn := namedOf(f.Type()); fn != nil && fn.Obj().Pkg() != nil && fn.Obj().Pkg().Path() == "sync" {
				mf.skipped = "lock (the lock shape is a separate obligation)"
			} else if _, isChan := f.Type().Underlying().(*types.Chan); isChan {
				mf.skipped = "channel"
			} else {
				t, err := g.mtype(f.Type())
				if err != nil {
					mf.skipped = err.Error()
				} else {
					mf.t = t
					if t.k == mPtr {
						// must already be emitted
						if idx(methodStructs, t.st.goName) >= idx(methodStructs, name) {
							return fmt.Errorf("struct %s refers to %s, which must be listed before it", name, t.st.goName)
						}
					}
					if t.k == mPtr || t.k == mOpaquePtr || t.k == mFunc {
						st.hasZero = false
					}
					if t.k == mStruct && !t.st.hasZero {
						st.hasZero = false
					}
				}
			}
			st.fields = append(st.fields, mf)
		}
		st.filled = true
	}
	return nil
}

func idx(xs []string, s string) int {
	for i, x := range xs {
		if x == s {
			return i
		}
	}
	return -1
}

func (g *mgen) zeroOf(t *mT, usedZero *bool) (string, error) {
	switch t.k {
	case mScalar:
		switch t.l.kind {
		case "bv":
			return fmt.Sprintf("0#%d", t.l.w), nil
		case "bool":
			return "false", nil
		case "time":
			return "Gen.zeroTime", nil
		case "dur":
			return "(0 : Int)", nil
		}
	case mTParam:
		*usedZero = true
		return "zeroV", nil
	case mMap:
		return "(RV.AMap.empty : " + t.lean + ")", nil
	case mStruct:
		if t.st.hasZero {
			if t.st.generic {
				*usedZero = true
				return "(" + t.st.lean + ".zero zeroV)", nil
			}
			return t.st.lean + ".zero", nil
		}
	}
	return "", fmt.Errorf("zero value of %s outside the subset", t.lean)
}

func (g *mgen) emitStructs() (string, error) {
	var b strings.Builder
	for _, name := range methodStructs {
		st := g.structs[name]
		fmt.Fprintf(&b, "/-- Go `%s`", st.goName)
		sk := []string{}
		for _, f := range st.fields {
			if f.skipped != "" {
				sk = append(sk, f.goName+": "+f.skipped)
			}
		}
		if len(sk) > 0 {
			fmt.Fprintf(&b, "; fields not represented: %s", strings.Join(sk, "; "))
		}
		fmt.Fprintf(&b, " -/\nstructure %s", st.lean)
		if st.generic {
			b.WriteString(" (V : Type)")
		}
		b.WriteString(" where\n")
		n := 0
		for _, f := range st.fields {
			if f.skipped != "" {
				continue
			}
			switch f.t.k {
			case mPtr, mFunc:
				fmt.Fprintf(&b, "  %s_nonnil : Bool\n  %s : %s\n", f.lean, f.lean, f.t.lean)
			case mOpaquePtr:
				fmt.Fprintf(&b, "  %s_nonnil : Bool\n", f.lean)
			default:
				fmt.Fprintf(&b, "  %s : %s\n", f.lean, f.t.lean)
			}
			n++
		}
		if n == 0 {
			return "", fmt.Errorf("struct %s has no representable field", name)
		}
		b.WriteString("\n")
		if st.hasZero {
			used := false
			parts := []string{}
			for _, f := range st.fields {
				if f.skipped != "" {
					continue
				}
				z, err := g.zeroOf(f.t, &used)
				if err != nil {
					return "", err
				}
				parts = append(parts, f.lean+" := "+z)
			}
			if st.generic {
				fmt.Fprintf(&b, "/-- the Go zero value of `%s` -/\ndef %s.zero {V : Type} (zeroV : V) : %s V :=\n  { %s }\n\n", st.goName, st.lean, st.lean, strings.Join(parts, ", "))
			} else {
				fmt.Fprintf(&b, "/-- the Go zero value of `%s` -/\ndef %s.zero : %s :=\n  { %s }\n\n", st.goName, st.lean, st.lean, strings.Join(parts, ", "))
			}
		}
	}
	return b.String(), nil
}

// ---------------------------------------------------------------- declarations

func (g *mgen) funcOfCall(call *ast.CallExpr) (*types.Func, ast.Expr) {
	info := g.pi.info
	var obj types.Object
	var recv ast.Expr
	switch f := unparen(call.Fun).(type) {
	case *ast.Ident:
		obj = info.Uses[f]
	case *ast.SelectorExpr:
		if sel, ok := info.Selections[f]; ok {
			if sel.Kind() != types.MethodVal {
				return nil, nil
			}
			obj = sel.Obj()
			recv = f.X
		} else {
			obj = info.Uses[f.Sel]
		}
	case *ast.IndexExpr:
		if id, ok := f.X.(*ast.Ident); ok {
			obj = info.Uses[id]
		}
	}
	fn, ok := obj.(*types.Func)
	if !ok || fn == nil || fn.Pkg() != g.pi.pkg {
		return nil, nil
	}
	return fn.Origin(), recv
}

func (g *mgen) declOfFunc(fn *types.Func) *ast.FuncDecl {
	for _, file := range g.pi.files {
		for _, d := range file.Decls {
			if fd, ok := d.(*ast.FuncDecl); ok && fd.Body != nil {
				if o, ok := g.pi.info.Defs[fd.Name].(*types.Func); ok && o.Origin() == fn {
					return fd
				}
			}
		}
	}
	return nil
}

func (g *mgen) buildEffects() (string, error) {
	var b strings.Builder
	b.WriteString("/-- calls that are recorded, in program order, instead of being translated -/\ninductive Eff where\n")
	for _, q := range methodEffects {
		fd := g.pi.findFunc(q)
		if fd == nil {
			return "", fmt.Errorf("effect callee %s not found", q)
		}
		ef := &mEffect{qual: q, ctor: sanitize(strings.ReplaceAll(q, ".", "_"))}
		fmt.Fprintf(&b, "  | %s", ef.ctor)
		if fd.Recv != nil {
			ef.recvPtr = true
			b.WriteString(" (recv_nonnil : Bool)")
		}
		for _, f := range fd.Type.Params.List {
			for _, n := range f.Names {
				obj := g.pi.info.Defs[n]
				t, err := g.mtype(obj.Type())
				if err != nil || t.k != mScalar {
					return "", fmt.Errorf("effect %s: parameter %s outside the subset", q, n.Name)
				}
				ef.names = append(ef.names, sanitize(n.Name))
				ef.params = append(ef.params, t)
				fmt.Fprintf(&b, " (%s : %s)", sanitize(n.Name), t.lean)
			}
		}
		b.WriteString("\n")
		g.effects[q] = ef
	}
	b.WriteString("deriving DecidableEq, Repr\n\n")
	return b.String(), nil
}

func genMethods(load func(string) *pkgInfo) (string, error) {
	pi := load("")
	g := &mgen{pi: pi, structs: map[string]*mStructInfo{}, effects: map[string]*mEffect{},
		done: map[string]*mMethod{}, inProg: map[string]bool{}, specLean: map[string]string{}}
	var b strings.Builder
	b.WriteString("set_option linter.unusedVariables false\n\n")
	if err := g.buildStructs(); err != nil {
		return "", err
	}
	s, err := g.emitStructs()
	if err != nil {
		return "", err
	}
	b.WriteString(s)
	s, err = g.buildEffects()
	if err != nil {
		return "", err
	}
	b.WriteString(s)
	for _, c := range methodConsts {
		txt, err := translateConst(pi, Spec{Kind: KConst, Match: c, Lean: "metric_" + c})
		if err != nil {
			msg := fmt.Sprintf("metric_%s: %v", c, err)
			extraFailed = append(extraFailed, msg)
			fmt.Fprintf(&b, "-- UNTRANSLATABLE %s\n\n", msg)
			continue
		}
		b.WriteString(txt + "\n")
	}
	for _, ms := range methodSpecs {
		g.specLean[ms.fn] = ms.lean
	}
	for _, ms := range methodSpecs {
		me := g.method(ms.fn)
		if me.err != nil {
			msg := fmt.Sprintf("%s: %s", ms.lean, strings.ReplaceAll(me.err.Error(), "\n", " "))
			extraFailed = append(extraFailed, msg)
			g.out = append(g.out, "-- UNTRANSLATABLE "+msg+"\n")
		}
	}
	b.WriteString(strings.Join(g.out, "\n"))
	return b.String(), nil
}

// method translates (once) the function or method with the qualified name q.
func (g *mgen) method(q string) *mMethod {
	if me, ok := g.done[q]; ok {
		return me
	}
	me := &mMethod{qual: q}
	if ln, ok := g.specLean[q]; ok {
		me.lean = ln
	} else {
		me.aux = true
		if strings.Contains(q, ".") {
			me.lean = sanitize(strings.ReplaceAll(q, ".", "_"))
		} else {
			me.lean = "fn_" + sanitize(q)
		}
	}
	if g.inProg[q] {
		me.err = fmt.Errorf("recursive call of %s outside the subset", q)
		return me
	}
	g.inProg[q] = true
	defer func() { g.inProg[q] = false }()
	me.fd = g.pi.findFunc(q)
	if me.fd == nil {
		me.err = fmt.Errorf("function %s not found", q)
		g.done[q] = me
		return me
	}
	txt, err := g.translateMethod(me)
	me.err = err
	g.done[q] = me
	if err == nil {
		g.out = append(g.out, txt)
	}
	return me
}

func sortedObjKeys(m map[types.Object]string) []types.Object {
	ks := []types.Object{}
	for k := range m {
		ks = append(ks, k)
	}
	sort.Slice(ks, func(i, j int) bool { return ks[i].Pos() < ks[j].Pos() })
	return ks
}

var _ = token.ADD
