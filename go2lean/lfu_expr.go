package main

// lfu_expr.go — per-function context, paths and expressions of lfu.go.

import (
	"fmt"
	"go/ast"
	"go/token"
	"go/types"
	"sort"
	"strings"
)

type lxVal struct {
	text string
	t    *lxT
}

// lxPath: an assignable location root.f1.f2…[idx]
type lxPath struct {
	root   types.Object
	fields []*lxField
	idx    string // Lean text of the evaluated index ("" = no index step)
	t      *lxT   // type of the location
	arrT   *lxT   // type of the indexed array (idx != "")
}

type lxLoop struct {
	sigma []types.Object
	jumps bool // the body reports how it ended (LoopOut)
}

type lx struct {
	g          *lxGen
	me         *lxMethod
	c          *ctx
	env        map[types.Object]string
	ty         map[types.Object]*lxT
	alias      map[types.Object]*lxPath
	freshObj   map[types.Object]bool // locals holding a freshly built struct / array: writable roots
	reassigned map[types.Object]bool // slice parameters that were assigned as a whole
	subst      map[ast.Expr]lxVal
	nameTy     map[string]string
	n          int
	effsObj    types.Object
	orcObj     types.Object
	aux        []string
	nloops     int
	nbinds     int
	loop       *lxLoop
}

type lxSaved struct {
	env      map[types.Object]string
	alias    map[types.Object]*lxPath
	freshObj map[types.Object]bool
}

func (m *lx) save() *lxSaved {
	s := &lxSaved{env: map[types.Object]string{}, alias: map[types.Object]*lxPath{}, freshObj: map[types.Object]bool{}}
	for k, v := range m.env {
		s.env[k] = v
	}
	for k, v := range m.alias {
		s.alias[k] = v
	}
	for k, v := range m.freshObj {
		s.freshObj[k] = v
	}
	return s
}

func (m *lx) restore(s *lxSaved) {
	c := &lxSaved{env: s.env, alias: s.alias, freshObj: s.freshObj}
	m.env, m.alias, m.freshObj = map[types.Object]string{}, map[types.Object]*lxPath{}, map[types.Object]bool{}
	for k, v := range c.env {
		m.env[k] = v
	}
	for k, v := range c.alias {
		m.alias[k] = v
	}
	for k, v := range c.freshObj {
		m.freshObj[k] = v
	}
}

func (m *lx) freshName(base string) string {
	m.n++
	return fmt.Sprintf("%s_%d", strings.TrimSuffix(sanitize(base), "'"), m.n)
}

func (m *lx) let(b *strings.Builder, ind, name, ty, val string) {
	if ty != "" {
		fmt.Fprintf(b, "%slet %s : %s := %s\n", ind, name, ty, val)
	} else {
		fmt.Fprintf(b, "%slet %s := %s\n", ind, name, val)
	}
	m.nameTy[name] = ty
}

func (m *lx) bindM(b *strings.Builder, ind, term, name, ty string) {
	fmt.Fprintf(b, "%s(%s).bind fun %s =>\n", ind, term, name)
	m.nameTy[name] = ty
	m.nbinds++
	m.me.partial = true
}

func (m *lx) objOf(id *ast.Ident) types.Object {
	obj := m.g.pi.info.Uses[id]
	if obj == nil {
		obj = m.g.pi.info.Defs[id]
	}
	return obj
}

func (m *lx) src(n ast.Node) string { return firstLine(m.g.pi.src(n)) }

// sortedObjs: deterministic order of variables (source position; the pseudo-variables last).
func (m *lx) sortedObjs(set map[types.Object]bool) []types.Object {
	objs := []types.Object{}
	for o := range set {
		objs = append(objs, o)
	}
	rank := func(o types.Object) int {
		switch o {
		case m.effsObj:
			return 1
		case m.orcObj:
			return 2
		}
		return 0
	}
	sort.Slice(objs, func(i, j int) bool {
		if rank(objs[i]) != rank(objs[j]) {
			return rank(objs[i]) < rank(objs[j])
		}
		return objs[i].Pos() < objs[j].Pos()
	})
	return objs
}

func (m *lx) tyText(o types.Object) string {
	switch o {
	case m.effsObj:
		return "List Eff"
	case m.orcObj:
		return "GenL.Orc"
	}
	if t := m.ty[o]; t != nil {
		return t.lean
	}
	return "?"
}

// ---------------------------------------------------------------- static types

func (m *lx) isPkgName(e ast.Expr) bool {
	id, ok := unparen(e).(*ast.Ident)
	if !ok {
		return false
	}
	_, isPkg := m.g.pi.info.Uses[id].(*types.PkgName)
	return isPkg
}

// typeOf: the translated type of an expression, without emitting anything.
func (m *lx) typeOf(e ast.Expr) (*lxT, error) {
	e = unparen(e)
	if v, ok := m.subst[e]; ok {
		return v.t, nil
	}
	switch x := e.(type) {
	case *ast.Ident:
		if obj := m.objOf(x); obj != nil {
			if t, ok := m.ty[obj]; ok {
				return t, nil
			}
		}
	case *ast.StarExpr:
		return m.typeOf(x.X)
	case *ast.SelectorExpr:
		if !m.isPkgName(x.X) {
			bt, err := m.typeOf(x.X)
			if err == nil && bt.k == lkStruct {
				if f := bt.st.field(x.Sel.Name); f != nil {
					if f.skipped != "" {
						return nil, fmt.Errorf("field %s.%s is not represented (%s)", bt.st.goName, f.goName, f.skipped)
					}
					return f.t, nil
				}
			}
		}
	case *ast.IndexExpr:
		bt, err := m.typeOf(x.X)
		if err == nil {
			switch bt.k {
			case lkArr:
				return bt.elem, nil
			case lkMap:
				return bt.val, nil
			}
		}
	case *ast.UnaryExpr:
		if x.Op == token.AND {
			t, err := m.typeOf(x.X)
			if err == nil && t.k == lkStruct {
				return &lxT{k: lkStruct, st: t.st, lean: t.lean, ptr: true}, nil
			}
			return t, err
		}
	case *ast.CallExpr:
		if ci := m.classify(x); ci != nil {
			switch ci.kind {
			case lcExtern:
				if ci.em.res != nil {
					return ci.em.res, nil
				}
			case lcCallee:
				if len(ci.callee.results) == 1 {
					return ci.callee.results[0], nil
				}
			}
		}
	}
	tv, ok := m.g.pi.info.Types[e]
	if !ok || tv.Type == nil {
		return nil, fmt.Errorf("expression %q has no type", m.src(e))
	}
	if b, ok := tv.Type.(*types.Basic); ok && b.Kind() == types.Invalid {
		return nil, fmt.Errorf("expression %q has no type", m.src(e))
	}
	return m.g.ltype(tv.Type)
}

// ---------------------------------------------------------------- calls

type lxCallKind int

const (
	lcSkip    lxCallKind = iota // lock operations, verif hooks
	lcBuiltin                   // len, append, make, delete, panic
	lcConv                      // conversion
	lcEffect                    // recorded effect
	lcExtern                    // operation of an abstract extern object
	lcCallee                    // translated function / method
	lcAtomicLoad
	lcExternCtor // constructor of an abstract extern object
)

type lxCall struct {
	kind    lxCallKind
	builtin string
	recv    ast.Expr
	ef      *mEffect
	ext     *lxExternT
	em      *lxExtM
	callee  *lxMethod
}

func (m *lx) classify(x *ast.CallExpr) *lxCall {
	info := m.g.pi.info
	if tvf, ok := info.Types[x.Fun]; ok && tvf.IsType() {
		return &lxCall{kind: lcConv}
	}
	if isHookCall(x) {
		return &lxCall{kind: lcSkip}
	}
	fun := unparen(x.Fun)
	if id, ok := fun.(*ast.Ident); ok {
		if _, isBuiltin := info.Uses[id].(*types.Builtin); isBuiltin {
			return &lxCall{kind: lcBuiltin, builtin: id.Name}
		}
	}
	if sel, ok := fun.(*ast.SelectorExpr); ok {
		if s, ok := info.Selections[sel]; ok {
			if fn, ok := s.Obj().(*types.Func); ok && fn.Pkg() != nil && fn.Pkg().Path() == "sync" {
				return &lxCall{kind: lcSkip}
			}
		}
		if m.isPkgName(sel.X) {
			name := unparen(sel.X).(*ast.Ident).Name + "." + sel.Sel.Name
			if (name == "atomic.LoadInt64" || name == "atomic.LoadUint64") && len(x.Args) == 1 {
				return &lxCall{kind: lcAtomicLoad}
			}
			if key, ok := lxExternCtors[name]; ok {
				if ext := m.g.externs[key]; ext != nil {
					return &lxCall{kind: lcExternCtor, ext: ext}
				}
			}
			return nil
		}
		// operation of an extern object?
		if rt, err := m.typeOf(sel.X); err == nil && rt.k == lkExtern {
			if em := rt.ext.method(sel.Sel.Name); em != nil {
				return &lxCall{kind: lcExtern, recv: sel.X, ext: rt.ext, em: em}
			}
			return nil
		}
	}
	fn, recv := m.g.funcOfCall(x)
	if fn == nil {
		return nil
	}
	fd := m.g.declOfFunc(fn)
	if fd == nil {
		return nil
	}
	q := qualName(fd)
	if ef, ok := m.g.effects[q]; ok {
		return &lxCall{kind: lcEffect, recv: recv, ef: ef}
	}
	callee := m.g.method(q, m.me.mod)
	return &lxCall{kind: lcCallee, recv: recv, callee: callee}
}

// stateful: the callee changes something of the caller (receiver, slice argument, effects, oracle).
func (me *lxMethod) stateful() bool {
	if me.hasEffs || me.usesOrc {
		return true
	}
	if me.recv != nil && me.recv.written {
		return true
	}
	for _, p := range me.params {
		if p.written {
			return true
		}
	}
	return false
}

// buildCall renders the application of a translated callee; receiver and arguments are hoisted.
func (m *lx) buildCall(ci *lxCall, x *ast.CallExpr, ind string, b *strings.Builder) (string, error) {
	callee := ci.callee
	parts := []string{callee.full()}
	if callee.needsZero {
		m.me.needsZero = true
		parts = append(parts, "zeroV")
	}
	for _, e := range callee.exts {
		m.me.addExt(e)
		parts = append(parts, e.opsVar)
	}
	if callee.needsFuel {
		m.me.needsFuel = true
		parts = append(parts, "fuel")
	}
	if callee.recv != nil {
		if ci.recv == nil {
			return "", fmt.Errorf("method %s called without a receiver", callee.qual)
		}
		s, _, err := m.value(ci.recv, ind, b)
		if err != nil {
			return "", err
		}
		parts = append(parts, atom(s))
	}
	if len(x.Args) != len(callee.params) {
		return "", fmt.Errorf("argument count of the call of %s", callee.qual)
	}
	if len(callee.ctorParams) > 0 {
		return "", fmt.Errorf("call of %s, which builds an extern object, outside the subset", callee.qual)
	}
	for _, a := range x.Args {
		s, _, err := m.value(a, ind, b)
		if err != nil {
			return "", err
		}
		parts = append(parts, atom(s))
	}
	if callee.usesOrc {
		m.me.usesOrc = true
		parts = append(parts, m.env[m.orcObj])
	}
	return strings.Join(parts, " "), nil
}

// ---------------------------------------------------------------- expressions

func (m *lx) expr(e ast.Expr) (string, *lxT, error) {
	s, t, handled, err := m.own(e)
	if err != nil {
		return "", nil, err
	}
	if handled {
		return s, t, nil
	}
	ls, lt, err := m.c.expr(e)
	if err != nil {
		return "", nil, err
	}
	if lt.kind != "bv" && lt.kind != "bool" {
		return "", nil, fmt.Errorf("expression %q outside the subset", m.src(e))
	}
	return ls, lxScalarT(lt), nil
}

func (m *lx) hook(e ast.Expr) (string, lty, bool, error) {
	s, t, handled, err := m.own(e)
	if err != nil {
		return "", lty{}, true, err
	}
	if !handled {
		return "", lty{}, false, nil
	}
	return s, t.asLty(), true, nil
}

// value hoists e and renders it.
func (m *lx) value(e ast.Expr, ind string, b *strings.Builder) (string, *lxT, error) {
	if err := m.hoist(e, ind, b); err != nil {
		return "", nil, err
	}
	return m.expr(e)
}

func (m *lx) own(e ast.Expr) (string, *lxT, bool, error) {
	if v, ok := m.subst[e]; ok {
		return v.text, v.t, true, nil
	}
	info := m.g.pi.info
	switch x := e.(type) {
	case *ast.Ident:
		if x.Name == "nil" {
			return "", nil, true, fmt.Errorf("nil outside the subset here")
		}
		obj := m.objOf(x)
		if obj == nil {
			return "", nil, false, nil
		}
		if _, isAlias := m.alias[obj]; isAlias {
			return "", nil, true, fmt.Errorf("alias %s read without being bound", x.Name)
		}
		if n, ok := m.env[obj]; ok {
			t := m.ty[obj]
			if t == nil {
				return "", nil, true, fmt.Errorf("variable %s has no translated type", x.Name)
			}
			return n, t, true, nil
		}
		return "", nil, false, nil
	case *ast.StarExpr:
		s, t, err := m.expr(x.X)
		return s, t, true, err
	case *ast.SelectorExpr:
		if m.isPkgName(x.X) {
			return "", nil, false, nil
		}
		base, bt, err := m.expr(x.X)
		if err != nil {
			return "", nil, true, err
		}
		if bt.k != lkStruct {
			return "", nil, true, fmt.Errorf("field selection %q outside the subset", m.src(e))
		}
		f := bt.st.field(x.Sel.Name)
		if f == nil {
			return "", nil, true, fmt.Errorf("unknown field in %q", m.src(e))
		}
		if f.skipped != "" {
			return "", nil, true, fmt.Errorf("field %s.%s is not represented (%s)", bt.st.goName, f.goName, f.skipped)
		}
		if f.t.k == lkNilOnly {
			return "", nil, true, fmt.Errorf("only the nil-ness of %q is represented", m.src(e))
		}
		return atom(base) + "." + f.lean, f.t, true, nil
	case *ast.IndexExpr:
		bt, err := m.typeOf(x.X)
		if err != nil {
			return "", nil, false, nil
		}
		switch bt.k {
		case lkMap:
			base, _, err := m.expr(x.X)
			if err != nil {
				return "", nil, true, err
			}
			k, _, err := m.expr(x.Index)
			if err != nil {
				return "", nil, true, err
			}
			z, err := m.g.zeroOf(bt.val, &m.me.needsZero)
			if err != nil {
				return "", nil, true, err
			}
			return fmt.Sprintf("((%s.lookup %s).getD %s)", atom(base), atom(k), z), bt.val, true, nil
		case lkArr:
			return "", nil, true, fmt.Errorf("index expression %q was not bound (internal)", m.src(e))
		}
		return "", nil, false, nil
	case *ast.UnaryExpr:
		if x.Op == token.AND {
			if cl, ok := unparen(x.X).(*ast.CompositeLit); ok {
				s, t, err := m.compositeLit(cl)
				if err != nil {
					return "", nil, true, err
				}
				return s, &lxT{k: lkStruct, st: t.st, lean: t.lean, ptr: true}, true, nil
			}
			return "", nil, true, fmt.Errorf("address-of %q outside the subset", m.src(e))
		}
		return "", nil, false, nil
	case *ast.CompositeLit:
		s, t, err := m.compositeLit(x)
		return s, t, true, err
	case *ast.BinaryExpr:
		if (x.Op == token.EQL || x.Op == token.NEQ) && (isNilIdent(x.X) || isNilIdent(x.Y)) {
			return "", nil, true, fmt.Errorf("comparison with nil %q outside the subset", m.src(e))
		}
		return "", nil, false, nil
	case *ast.CallExpr:
		ci := m.classify(x)
		if ci == nil {
			if tv, ok := info.Types[e]; ok && tv.Value != nil {
				return "", nil, false, nil
			}
			return "", nil, true, fmt.Errorf("call %q outside the subset", m.src(e))
		}
		switch ci.kind {
		case lcConv:
			return "", nil, false, nil
		case lcSkip, lcEffect, lcExternCtor:
			return "", nil, true, fmt.Errorf("call %q inside an expression", m.src(e))
		case lcAtomicLoad:
			if u, ok := unparen(x.Args[0]).(*ast.UnaryExpr); ok && u.Op == token.AND {
				s, t, err := m.expr(u.X)
				return s, t, true, err
			}
			return "", nil, true, fmt.Errorf("call %q outside the subset", m.src(e))
		case lcBuiltin:
			switch ci.builtin {
			case "len":
				if len(x.Args) == 1 {
					if at, err := m.typeOf(x.Args[0]); err == nil && at.k == lkArr {
						s, _, err := m.expr(x.Args[0])
						if err != nil {
							return "", nil, true, err
						}
						return fmt.Sprintf("(BitVec.ofNat 64 %s.size)", atom(s)), lxScalarT(lty{"bv", 64, true}), true, nil
					}
				}
			case "make":
				tv := info.Types[x]
				t, err := m.g.ltype(tv.Type)
				if err != nil {
					return "", nil, true, err
				}
				if t.k == lkMap {
					return "(RV.AMap.empty : " + t.lean + ")", t, true, nil
				}
				if t.k == lkArr && len(x.Args) >= 2 {
					if lv := info.Types[x.Args[1]]; lv.Value != nil && lv.Value.ExactString() == "0" {
						return "(#[] : " + t.lean + ")", t, true, nil
					}
				}
			}
			return "", nil, true, fmt.Errorf("builtin call %q outside the subset here", m.src(e))
		case lcExtern:
			if ci.em.mutates {
				return "", nil, true, fmt.Errorf("call %q changes the extern object and sits inside an expression", m.src(e))
			}
			if ci.em.res == nil {
				return "", nil, true, fmt.Errorf("call %q has no result", m.src(e))
			}
			m.me.addExt(ci.ext)
			parts := []string{ci.ext.opsVar + "." + ci.em.name}
			s, _, err := m.expr(ci.recv)
			if err != nil {
				return "", nil, true, err
			}
			parts = append(parts, atom(s))
			if len(x.Args) != len(ci.em.params) {
				return "", nil, true, fmt.Errorf("argument count of %q", m.src(e))
			}
			for _, a := range x.Args {
				s, _, err := m.expr(a)
				if err != nil {
					return "", nil, true, err
				}
				parts = append(parts, atom(s))
			}
			return "(" + strings.Join(parts, " ") + ")", ci.em.res, true, nil
		case lcCallee:
			callee := ci.callee
			if callee.err != nil {
				return "", nil, true, fmt.Errorf("call of %s: %v", callee.qual, callee.err)
			}
			if callee.partial || callee.stateful() {
				return "", nil, true, fmt.Errorf("call %q was not bound (internal)", m.src(e))
			}
			if len(callee.results) != 1 {
				return "", nil, true, fmt.Errorf("call %q with %d results inside an expression", m.src(e), len(callee.results))
			}
			var scratch strings.Builder
			txt, err := m.buildCall(ci, x, "", &scratch)
			if err != nil {
				return "", nil, true, err
			}
			if scratch.Len() > 0 {
				return "", nil, true, fmt.Errorf("arguments of %q were not bound (internal)", m.src(e))
			}
			return "(" + txt + ")", callee.results[0], true, nil
		}
	}
	return "", nil, false, nil
}

func (m *lx) compositeLit(x *ast.CompositeLit) (string, *lxT, error) {
	tv := m.g.pi.info.Types[x]
	t, err := m.g.ltype(tv.Type)
	if err != nil || t.k != lkStruct {
		return "", nil, fmt.Errorf("composite literal %q outside the subset", m.src(x))
	}
	given := map[string]string{}
	repr := []*lxField{}
	for _, f := range t.st.fields {
		repr = append(repr, f)
	}
	for i, el := range x.Elts {
		if kv, ok := el.(*ast.KeyValueExpr); ok {
			id, ok := kv.Key.(*ast.Ident)
			if !ok {
				return "", nil, fmt.Errorf("composite literal key outside the subset")
			}
			v, _, err := m.expr(kv.Value)
			if err != nil {
				return "", nil, err
			}
			given[id.Name] = v
			continue
		}
		if i >= len(repr) {
			return "", nil, fmt.Errorf("too many values in %q", m.src(x))
		}
		v, _, err := m.expr(el)
		if err != nil {
			return "", nil, err
		}
		given[repr[i].goName] = v
	}
	s, err := m.g.structLit(t.st, given, &m.me.needsZero)
	return s, t, err
}

// ---------------------------------------------------------------- hoisting

// hoist binds, in evaluation order, every sub-expression of e that can fail (index reads, calls of
// partial functions) and records the bound names in m.subst.
func (m *lx) hoist(e ast.Expr, ind string, b *strings.Builder) error {
	if e == nil {
		return nil
	}
	if _, done := m.subst[e]; done {
		return nil
	}
	switch x := e.(type) {
	case *ast.ParenExpr:
		return m.hoist(x.X, ind, b)
	case *ast.BasicLit:
		return nil
	case *ast.Ident:
		if obj := m.objOf(x); obj != nil {
			if p, ok := m.alias[obj]; ok {
				s, err := m.readPath(p, x.Name, ind, b)
				if err != nil {
					return err
				}
				m.subst[e] = lxVal{s, p.t}
			}
		}
		return nil
	case *ast.StarExpr:
		return m.hoist(x.X, ind, b)
	case *ast.SelectorExpr:
		if m.isPkgName(x.X) {
			return nil
		}
		return m.hoist(x.X, ind, b)
	case *ast.UnaryExpr:
		return m.hoist(x.X, ind, b)
	case *ast.BinaryExpr:
		if x.Op == token.LAND || x.Op == token.LOR {
			if m.mayFail(x.Y) {
				return fmt.Errorf("the right operand of %q can fail: outside the subset", m.src(e))
			}
		}
		if err := m.hoist(x.X, ind, b); err != nil {
			return err
		}
		return m.hoist(x.Y, ind, b)
	case *ast.KeyValueExpr:
		return m.hoist(x.Value, ind, b)
	case *ast.CompositeLit:
		for _, el := range x.Elts {
			if err := m.hoist(el, ind, b); err != nil {
				return err
			}
		}
		return nil
	case *ast.IndexExpr:
		bt, err := m.typeOf(x.X)
		if err != nil {
			return err
		}
		if err := m.hoist(x.X, ind, b); err != nil {
			return err
		}
		if err := m.hoist(x.Index, ind, b); err != nil {
			return err
		}
		if bt.k == lkMap {
			return nil
		}
		if bt.k != lkArr {
			return fmt.Errorf("index expression %q outside the subset", m.src(e))
		}
		a, _, err := m.expr(x.X)
		if err != nil {
			return err
		}
		i, ti, err := m.expr(x.Index)
		if err != nil {
			return err
		}
		if ti.k != lkScalar || ti.l.kind != "bv" || ti.l.w != 64 {
			return fmt.Errorf("index %q is not a 64-bit integer", m.src(x.Index))
		}
		t := m.freshName("t")
		m.bindM(b, ind, fmt.Sprintf("GenL.rd %s %s", atom(a), atom(i)), t, bt.elem.lean)
		m.subst[e] = lxVal{t, bt.elem}
		return nil
	case *ast.CallExpr:
		ci := m.classify(x)
		if ci == nil {
			return nil // constants (math.MaxInt64 …) or an error reported by own
		}
		switch ci.kind {
		case lcConv, lcAtomicLoad:
			for _, a := range x.Args {
				if err := m.hoist(a, ind, b); err != nil {
					return err
				}
			}
			return nil
		case lcBuiltin:
			if ci.builtin == "make" {
				tv := m.g.pi.info.Types[x]
				t, err := m.g.ltype(tv.Type)
				if err != nil {
					return err
				}
				if lv := m.g.pi.info.Types[x.Args[len(x.Args)-1]]; t.k == lkArr && len(x.Args) >= 2 {
					if l1 := m.g.pi.info.Types[x.Args[1]]; l1.Value != nil && l1.Value.ExactString() == "0" {
						return nil // an empty slice: rendered by own
					}
					_ = lv
				}
				if t.k == lkArr && len(x.Args) == 2 {
					n, _, err := m.value(x.Args[1], ind, b)
					if err != nil {
						return err
					}
					z, err := m.g.zeroOf(t.elem, &m.me.needsZero)
					if err != nil {
						return err
					}
					nm := m.freshName("t")
					m.bindM(b, ind, fmt.Sprintf("GenL.mkArr %s %s", atom(n), atom(z)), nm, t.lean)
					m.subst[e] = lxVal{nm, t}
					return nil
				}
				return nil
			}
			for _, a := range x.Args {
				if err := m.hoist(a, ind, b); err != nil {
					return err
				}
			}
			return nil
		case lcExtern:
			if err := m.hoist(ci.recv, ind, b); err != nil {
				return err
			}
			for _, a := range x.Args {
				if err := m.hoist(a, ind, b); err != nil {
					return err
				}
			}
			return nil
		case lcCallee:
			callee := ci.callee
			if callee.err != nil {
				return fmt.Errorf("call of %s: %v", callee.qual, callee.err)
			}
			if callee.stateful() {
				return fmt.Errorf("call %q changes state and sits inside an expression (use it as a statement or as the whole right-hand side)", m.src(e))
			}
			if !callee.partial {
				if ci.recv != nil {
					if err := m.hoist(ci.recv, ind, b); err != nil {
						return err
					}
				}
				for _, a := range x.Args {
					if err := m.hoist(a, ind, b); err != nil {
						return err
					}
				}
				return nil
			}
			if len(callee.results) != 1 {
				return fmt.Errorf("call %q with %d results inside an expression", m.src(e), len(callee.results))
			}
			txt, err := m.buildCall(ci, x, ind, b)
			if err != nil {
				return err
			}
			nm := m.freshName("t")
			m.bindM(b, ind, txt, nm, callee.results[0].lean)
			m.subst[e] = lxVal{nm, callee.results[0]}
			return nil
		}
		return nil
	}
	return fmt.Errorf("expression %q outside the subset", m.src(e))
}

// mayFail: would hoisting e bind anything?
func (m *lx) mayFail(e ast.Expr) bool {
	found := false
	ast.Inspect(e, func(n ast.Node) bool {
		if found {
			return false
		}
		switch x := n.(type) {
		case *ast.IndexExpr:
			if bt, err := m.typeOf(x.X); err != nil || bt.k != lkMap {
				found = true
			}
		case *ast.Ident:
			if obj := m.objOf(x); obj != nil {
				if _, ok := m.alias[obj]; ok {
					found = true
				}
			}
		case *ast.CallExpr:
			if ci := m.classify(x); ci != nil && ci.kind == lcCallee && (ci.callee.err != nil || ci.callee.partial || ci.callee.stateful()) {
				found = true
			}
			if ci := m.classify(x); ci != nil && ci.kind == lcBuiltin && ci.builtin == "make" {
				found = true
			}
		}
		return !found
	})
	return found
}

// ---------------------------------------------------------------- paths

func (m *lx) resolvePath(e ast.Expr, ind string, b *strings.Builder) (*lxPath, error) {
	switch x := unparen(e).(type) {
	case *ast.Ident:
		obj := m.objOf(x)
		if obj == nil {
			return nil, fmt.Errorf("unknown variable %s", x.Name)
		}
		if p, ok := m.alias[obj]; ok {
			cp := *p
			return &cp, nil
		}
		if _, ok := m.env[obj]; !ok {
			return nil, fmt.Errorf("%s is not a variable of the function", x.Name)
		}
		return &lxPath{root: obj, t: m.ty[obj]}, nil
	case *ast.StarExpr:
		return m.resolvePath(x.X, ind, b)
	case *ast.SelectorExpr:
		if m.isPkgName(x.X) {
			break
		}
		p, err := m.resolvePath(x.X, ind, b)
		if err != nil {
			return nil, err
		}
		if p.idx != "" || p.t == nil || p.t.k != lkStruct {
			return nil, fmt.Errorf("location %q outside the subset", m.src(e))
		}
		f := p.t.st.field(x.Sel.Name)
		if f == nil || f.skipped != "" {
			return nil, fmt.Errorf("field %q is not represented", m.src(e))
		}
		p.fields = append(append([]*lxField{}, p.fields...), f)
		p.t = f.t
		return p, nil
	case *ast.IndexExpr:
		p, err := m.resolvePath(x.X, ind, b)
		if err != nil {
			return nil, err
		}
		if p.idx != "" || p.t == nil || p.t.k != lkArr {
			return nil, fmt.Errorf("location %q outside the subset", m.src(e))
		}
		i, ti, err := m.value(x.Index, ind, b)
		if err != nil {
			return nil, err
		}
		if ti.k != lkScalar || ti.l.kind != "bv" || ti.l.w != 64 {
			return nil, fmt.Errorf("index %q is not a 64-bit integer", m.src(x.Index))
		}
		p.idx, p.arrT, p.t = i, p.t, p.t.elem
		return p, nil
	}
	return nil, fmt.Errorf("location %q outside the subset", m.src(e))
}

// pathText: root.f1.f2 (without the index step)
func (m *lx) pathText(p *lxPath) string {
	s := m.env[p.root]
	for _, f := range p.fields {
		s += "." + lxFieldName(f)
	}
	return s
}

func (m *lx) readPath(p *lxPath, base, ind string, b *strings.Builder) (string, error) {
	if p.idx == "" {
		return m.pathText(p), nil
	}
	t := m.freshName(base)
	m.bindM(b, ind, fmt.Sprintf("GenL.rd %s %s", atom(m.pathText(p)), atom(p.idx)), t, p.t.lean)
	return t, nil
}

func lxNestedWith(cur string, fs []*lxField, val string) string {
	if len(fs) == 0 {
		return val
	}
	return fmt.Sprintf("{ %s with %s := %s }", cur, lxFieldName(fs[0]), lxNestedWith(cur+"."+lxFieldName(fs[0]), fs[1:], val))
}

// writePath stores val at the location.
func (m *lx) writePath(p *lxPath, val, ind string, b *strings.Builder) error {
	root := p.root
	isRecv := m.me.recv != nil && root == m.me.recv.obj
	var par *lxParam
	for _, q := range m.me.params {
		if q.obj == root {
			par = q
		}
	}
	switch {
	case isRecv:
		if m.me.recv.t.k == lkStruct && !m.me.recv.t.ptr {
			return fmt.Errorf("a value receiver is written (the caller would not see it)")
		}
		m.me.recv.written = true
		if len(p.fields) == 0 && p.idx == "" {
			// the whole receiver object replaced by what a callee made of it
			nm := m.freshName(root.Name())
			m.let(b, ind, nm, m.tyText(root), val)
			m.env[root] = nm
			return nil
		}
	case par != nil:
		if par.t.k != lkArr || len(p.fields) != 0 || p.idx == "" {
			return fmt.Errorf("write through the parameter %s outside the subset", par.name)
		}
		if m.reassigned[root] {
			return fmt.Errorf("elements of the parameter %s are written after it was assigned as a whole", par.name)
		}
		par.written = true
	default:
		rt := m.ty[root]
		if rt != nil && rt.k == lkStruct && !m.freshObj[root] {
			return fmt.Errorf("write through %s, which is neither the receiver nor a fresh local", root.Name())
		}
	}
	if p.idx != "" {
		arr := m.freshName(strings.TrimSuffix(lastName(p, root), "'"))
		m.bindM(b, ind, fmt.Sprintf("GenL.wr %s %s %s", atom(m.pathText(p)), atom(p.idx), atom(val)), arr, p.arrT.lean)
		val = arr
		if len(p.fields) == 0 {
			m.env[root] = arr
			return nil
		}
	}
	cur := m.env[root]
	nm := m.freshName(root.Name())
	m.let(b, ind, nm, m.tyText(root), lxNestedWith(cur, p.fields, val))
	m.env[root] = nm
	return nil
}

func lastName(p *lxPath, root types.Object) string {
	if len(p.fields) > 0 {
		return p.fields[len(p.fields)-1].lean
	}
	return root.Name()
}
