package main

func init() {
	register("node", nodeSpecs())
	extraImports["Node"] = []string{"RV.GenNode", "RV.Gen.Tree"}
}

// The `node` methods of z/btree.go translated WHOLE (kind KFuncM, funcm.go) into functions over
// the flat page `Array (BitVec 64)`: RV/Gen/Node.lean.  `maxKeys` (a package variable) is a
// parameter.  RV/Props/TieNode.lean proves that on well-formed pages these functions implement
// the entry-list operations of RV/Model/Tree.lean that the C10 / C16 theorems are about;
// Drive/Node.lean replays traces of the real methods on them word by word.
//
// Callees come before their callers.
func nodeSpecs() []Spec {
	o := "Node"
	z := "z"
	f := func(fn, lean string) Spec { return Spec{Kind: KFuncM, Pkg: z, Func: fn, Lean: lean, Out: o} }
	return []Spec{
		f("zeroOut", "zeroOut"),
		f("node.uint64", "uint64"),
		f("node.setAt", "setAt"),
		f("node.numKeys", "numKeys"),
		f("node.pageID", "pageID"),
		f("node.key", "key"),
		f("node.val", "val"),
		f("node.data", "data"),
		f("node.setNumKeys", "setNumKeys"),
		f("node.moveRight", "moveRight"),
		f("node.setBit", "setBit"),
		f("node.bits", "bits"),
		f("node.isLeaf", "isLeaf"),
		f("node.isFull", "isFull"),
		f("node.search", "search"),
		f("node.maxKey", "maxKey"),
		f("node.compact", "compact"),
		f("node.get", "get"),
		f("node.set", "set"),
		f("node.iterate", "iterate"),
	}
}
