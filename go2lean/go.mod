module go2lean

go 1.24.0
