package main

// CacheA — the rest of cache.go cut at its yield points with the machinery of cachem.go: the applier
// `Cache.processItems` (output RV/Gen/CacheA.lean; equality with the model's applier steps:
// RV/Props/TieCacheApp.lean).  What this file adds to the subset of cachem.go:
//
//   - `for { select { case x := <-ch: A … } }` (all clauses receive, no default): the loop head is the
//     parking point `loop` (which clause runs is the scheduler's choice, so `loop` has no section of
//     its own); each clause is a section `recv_<ch>` that takes the received value; `continue` and
//     the end of a clause park at `loop` again;
//   - `for { select { case x := <-ch: A  default: B } }` (possibly labelled; `break <label>` leaves
//     it): the loop head is a parking point AND a section: `I.<ch>_tryRecv w` decides which arm runs,
//     one section per iteration;
//   - a received `*Item[V]` is two Lean values: the item and `<x>_wait : Option Nat`, the identity of
//     its `wait` channel (none = nil); `x.wait != nil` is `<x>_wait.isSome`, `close(x.wait)` is
//     `I.chan_close w <x>_wait`;
//   - `for _, v := range xs { … }` over a local slice of items whose body contains yield points: the
//     remaining elements are a local (`xs` is consumed from the front), the head of the loop is a
//     `match` on it; a section that reaches the head with elements left binds the next one and goes
//     on in the body — so "the loop is at element v with `rest` to go" is what the parking points
//     inside the body carry;
//   - `switch tag { case a: … }`, `x op= e`, receiver fields (`c.ignoreInternalCost` is the interface
//     value `I.ignoreInternalCost`), `c.cost != nil` is `I.cost_nonnil`, `struct{}{}` is `()`;
//   - a local closure that is called (`onEvict`, `trackAdmission`) is an interface function
//     `I.local_<name>`: its body is NOT cut (life-expectancy bookkeeping on the goroutine-local map
//     `startTs`, then the cache's callback); locals that are only referenced inside closures are
//     skipped.

import (
	"fmt"
	"go/ast"
	"go/token"
	"go/types"
	"sort"
	"strings"
)

func init() {
	extras["CacheA"] = func(load func(string) *pkgInfo) (string, error) {
		return genCacheSections(load, "CacheA", cacheaFuncs, "the applier")
	}
	extraImports["CacheA"] = []string{"RV.Gen.Methods"}
	extras["CacheC"] = func(load func(string) *pkgInfo) (string, error) {
		return genCacheSections(load, "CacheC", cachecFuncs, "`Clear`")
	}
	extraImports["CacheC"] = []string{"RV.Gen.Methods"}
	coveredBy[":Cache.Clear"] = "TieCacheClear"
	staleOK["CacheC"] = true
	tieModule["TieCacheClear"] = []string{"CacheC"}
	coveredBy[":Cache.processItems"] = "TieCacheApp"
	staleOK["CacheA"] = true
	tieModule["TieCacheApp"] = []string{"CacheA"}
}

var cacheaFuncs = []string{
	"Cache.processItems",
}

// CacheC — `Cache.Clear` cut the same way (output RV/Gen/CacheC.lean, its own interface structure;
// tied in RV/Props/TieCacheClear.lean)
var cachecFuncs = []string{
	"Cache.Clear",
}

var cacheaCalls = []cmCall{
	{"c.isClosed.Load", "isClosed", cmRead},
	{"c.cost", "cost", cmPure},
	{"c.cachePolicy.Add", "policy_Add", cmWrite},
	{"c.cachePolicy.Update", "policy_Update", cmWrite},
	{"c.cachePolicy.Del", "policy_Del", cmWrite},
	{"c.cachePolicy.Clear", "policy_Clear", cmWrite},
	{"c.storedItems.Set", "store_Set", cmWrite},
	{"c.storedItems.Del", "store_Del", cmWrite},
	{"c.storedItems.Cleanup", "store_Cleanup", cmCut},
	{"c.storedItems.Clear", "store_Clear", cmCut},
	{"c.Metrics.add", "Metrics_add", cmWrite},
	{"c.Metrics.Clear", "Metrics_Clear", cmWrite},
	{"c.onExit", "onExit", cmWrite},
	{"c.onEvict", "onEvict", cmWrite},
	{"c.onReject", "onReject", cmWrite},
	{"trackAdmission", "local_trackAdmission", cmWrite},
	{"onEvict", "local_onEvict", cmWrite},
	{"c.Clear", "Clear", cmCut},
	{"c.processItems", "go_processItems", cmWrite},
}

var cacheaChans = map[string]string{
	"c.setBuf":          "setBuf",
	"c.cleanupTicker.C": "ticker",
	"c.stop":            "stop",
	"c.done":            "done",
}

var cacheaFields = map[string]string{"c.ignoreInternalCost": "ignoreInternalCost"}
var cacheaNilFields = map[string]string{"c.cost": "cost_nonnil", "c.Metrics": "Metrics_nonnil"}
var cacheaCutNoArgs = map[string]bool{"c.storedItems.Cleanup": true, "c.storedItems.Clear": true}

var cmOpAssign = map[token.Token]token.Token{
	token.ADD_ASSIGN: token.ADD, token.SUB_ASSIGN: token.SUB, token.MUL_ASSIGN: token.MUL,
	token.AND_ASSIGN: token.AND, token.OR_ASSIGN: token.OR, token.XOR_ASSIGN: token.XOR,
}

// pseudo-statements of the cutter (never handed to go/ast's walkers)

// cmLoopBack: the end of a clause of `for { select … }`: park at the loop head again
type cmLoopBack struct {
	ast.EmptyStmt
	sec *cmSection
}

// cmRangeHead: the head of `for _, v := range xs`; `rest` is the synthetic local holding the
// elements that have not been visited
type cmRangeHead struct {
	ast.EmptyStmt
	rs   *ast.RangeStmt
	rest types.Object
}

var cmRangeHeads = map[*ast.RangeStmt]*cmRangeHead{}

func isRecvComm(s ast.Stmt) (*ast.UnaryExpr, *ast.Ident, bool) {
	switch c := s.(type) {
	case *ast.ExprStmt:
		if u, ok := c.X.(*ast.UnaryExpr); ok && u.Op == token.ARROW {
			return u, nil, true
		}
	case *ast.AssignStmt:
		if c.Tok == token.DEFINE && len(c.Lhs) == 1 && len(c.Rhs) == 1 {
			if u, ok := c.Rhs[0].(*ast.UnaryExpr); ok && u.Op == token.ARROW {
				if id, ok := c.Lhs[0].(*ast.Ident); ok {
					return u, id, true
				}
			}
		}
	}
	return nil, nil, false
}

func isRecvSelect(x *ast.SelectStmt) bool {
	for _, c := range x.Body.List {
		if cc := c.(*ast.CommClause); cc.Comm != nil {
			if _, _, ok := isRecvComm(cc.Comm); ok {
				return true
			}
		}
	}
	return false
}

// closeWait: `close(x.wait)` for a received item x
func (g *cmGen) closeWait(call *ast.CallExpr, st *cmState, ind string) (string, bool, error) {
	id, ok := call.Fun.(*ast.Ident)
	if !ok || id.Name != "close" || len(call.Args) != 1 {
		return "", false, nil
	}
	sel, ok := call.Args[0].(*ast.SelectorExpr)
	if !ok || sel.Sel.Name != "wait" {
		return "", false, fmt.Errorf("%q outside the subset", g.src(call))
	}
	obj, _, ok := g.localOf(sel.X, st)
	if !ok || g.wait[obj] == nil {
		return "", false, fmt.Errorf("%q: the channel is not the wait channel of a received item", g.src(call))
	}
	n, ok := st.env[g.wait[obj]]
	if !ok {
		return "", false, fmt.Errorf("%q: the wait channel is not live here", g.src(call))
	}
	if err := g.iface.add("chan_close", "W → Option Nat → W"); err != nil {
		return "", false, err
	}
	w := g.freshN("w")
	out := fmt.Sprintf("%slet %s : W := (I.chan_close %s %s)\n", ind, w, st.w, n)
	st.w = w
	return out, true, nil
}

// skippedDefine: `name := func…` of a closure that is an interface function, or a local that is
// referenced only inside function literals
func (g *cmGen) skippedDefine(x *ast.AssignStmt) bool {
	if x.Tok != token.DEFINE || len(x.Lhs) != 1 || len(x.Rhs) != 1 {
		return false
	}
	id, ok := x.Lhs[0].(*ast.Ident)
	if !ok || g.calls == nil {
		return false
	}
	obj := g.pi.info.Defs[id]
	if obj == nil {
		return false
	}
	if _, isLit := x.Rhs[0].(*ast.FuncLit); isLit {
		for _, c := range g.calls {
			if c.match == id.Name {
				return true
			}
		}
		return false
	}
	outside := false
	var walk func(n ast.Node, inLit bool)
	walk = func(n ast.Node, inLit bool) {
		ast.Inspect(n, func(m ast.Node) bool {
			if m == nil {
				return false
			}
			if fl, ok := m.(*ast.FuncLit); ok && m != n {
				walk(fl.Body, true)
				return false
			}
			if u, ok := m.(*ast.Ident); ok && g.pi.info.Uses[u] == obj && !inLit {
				outside = true
			}
			return true
		})
	}
	walk(g.fd.Body, false)
	return !outside
}

func (g *cmGen) rangeStart(x *ast.RangeStmt, after *cmKont, st cmState, ind string) (string, error) {
	if x.Key != nil {
		if id, ok := x.Key.(*ast.Ident); !ok || id.Name != "_" {
			return "", fmt.Errorf("range with an index variable outside the subset")
		}
	}
	if _, ok := x.Value.(*ast.Ident); !ok || x.Tok != token.DEFINE {
		return "", fmt.Errorf("range %q outside the subset", firstLine(g.src(x)))
	}
	obj, cur, ok := g.localOf(x.X, &st)
	if !ok {
		return "", fmt.Errorf("range over %q, which is not a local", g.src(x.X))
	}
	ty, err := g.mapType(obj.Type())
	if err != nil || !strings.HasPrefix(ty, "(List ") {
		return "", fmt.Errorf("range over %q: not a slice of items", g.src(x.X))
	}
	h := cmRangeHeads[x]
	if h == nil {
		h = &cmRangeHead{rs: x, rest: types.NewVar(x.Pos(), g.pi.pkg, obj.Name()+"_rest", obj.Type())}
		cmRangeHeads[x] = h
	}
	st.env = copyEnv(st.env)
	st.env[h.rest] = cur
	return g.seq([]ast.Stmt{h}, after, st, ind)
}

func (g *cmGen) rangeHead(h *cmRangeHead, after *cmKont, st cmState, ind string) (string, error) {
	cur, ok := st.env[h.rest]
	if !ok {
		return "", fmt.Errorf("range loop: the remaining elements are not live here")
	}
	vid := h.rs.Value.(*ast.Ident)
	vobj := g.pi.info.Defs[vid]
	vn, rn := g.freshN(vid.Name), g.freshN(h.rest.Name())
	inner := st
	inner.env = copyEnv(st.env)
	inner.env[vobj] = vn
	inner.env[h.rest] = rn
	inner.brk, inner.loop = nil, nil
	back := &cmKont{stmts: []ast.Stmt{h}, next: after}
	body, err := g.seq(h.rs.Body.List, back, inner, ind+"    ")
	if err != nil {
		return "", err
	}
	done, err := g.runK(after, st, ind+"    ")
	if err != nil {
		return "", err
	}
	return fmt.Sprintf("%smatch %s with\n%s| [] => (\n%s\n%s  )\n%s| %s :: %s => (\n%s\n%s  )",
		ind, cur, ind, done, ind, ind, vn, rn, body, ind), nil
}

// recvBinding: the Lean parameters that stand for the value received by a clause
func (g *cmGen) recvBinding(id *ast.Ident) ([]cmField, []types.Object, error) {
	if id == nil || id.Name == "_" {
		return nil, nil, nil
	}
	obj := g.pi.info.Defs[id]
	if obj == nil {
		return nil, nil, fmt.Errorf("received variable %s", id.Name)
	}
	ty, err := g.mapType(obj.Type())
	if err != nil {
		return nil, nil, err
	}
	fs := []cmField{{sanitize(id.Name), ty}}
	objs := []types.Object{obj}
	if g.isItem(obj.Type()) {
		wo := g.wait[obj]
		if wo == nil {
			var wt types.Type = types.NewChan(types.SendRecv, types.NewStruct(nil, nil))
			wo = types.NewVar(id.End(), g.pi.pkg, id.Name+"_wait", wt) // position after the item: the order of live locals is by position
			g.wait[obj] = wo
		}
		fs = append(fs, cmField{sanitize(id.Name) + "_wait", "(Option Nat)"})
		objs = append(objs, wo)
	}
	return fs, objs, nil
}

func (g *cmGen) forSelect(f *ast.ForStmt, label string, after *cmKont, st cmState, ind string) (string, error) {
	if f.Init != nil || f.Cond != nil || f.Post != nil || len(f.Body.List) != 1 {
		return "", fmt.Errorf("loop %q outside the subset (only `for { select … }`)", firstLine(g.src(f)))
	}
	sel, ok := f.Body.List[0].(*ast.SelectStmt)
	if !ok {
		return "", fmt.Errorf("loop %q outside the subset (only `for { select … }`)", firstLine(g.src(f)))
	}
	loop, ok := g.byPos[f.Pos()]
	if !ok {
		var deflt *ast.CommClause
		for _, c := range sel.Body.List {
			if cc := c.(*ast.CommClause); cc.Comm == nil {
				deflt = cc
			}
		}
		name := g.uniq("loop")
		loop = &cmSection{ctor: name, live: g.liveAt(&cmKont{stmts: []ast.Stmt{f}, next: after}, &st, nil)}
		if _, err := g.liveFields(loop.live); err != nil {
			return "", err
		}
		g.byPos[f.Pos()] = loop
		g.secs = append(g.secs, loop)
		if label != "" {
			g.labels[label] = after
		}
		back := &cmKont{stmts: []ast.Stmt{&cmLoopBack{sec: loop}}}
		if deflt == nil {
			loop.doc = "parked at the head of `for { select … }`"
			for _, c := range sel.Body.List {
				cc := c.(*ast.CommClause)
				u, id, ok := isRecvComm(cc.Comm)
				if !ok {
					return "", fmt.Errorf("select clause %q outside the subset", firstLine(g.src(cc)))
				}
				ch, ok := g.chanOf(u.X)
				if !ok {
					return "", fmt.Errorf("channel %q is not in the interface table", g.src(u.X))
				}
				fs, objs, err := g.recvBinding(id)
				if err != nil {
					return "", err
				}
				g.secs = append(g.secs, &cmSection{def: "recv_" + g.uniq(ch), defExtra: fs, extraObjs: objs, live: loop.live,
					cont: &cmKont{stmts: cc.Body, next: back, loop: loop},
					doc:  fmt.Sprintf("section of the clause `%s` of the select at the loop head (the scheduler chose it; the received value is a parameter)", g.src(cc.Comm))})
			}
		} else {
			// non-blocking receive: one section per iteration
			if len(sel.Body.List) != 2 {
				return "", fmt.Errorf("select with a default clause: exactly one receive clause expected")
			}
			loop.def = name
			loop.doc = "one iteration of the loop `for { select { case x := <-ch: … default: … } }` (from its head)"
			loop.cont = &cmKont{stmts: []ast.Stmt{&cmTryRecv{sel: sel}}, next: back, loop: loop}
		}
	}
	return g.park(&st, loop.ctor, g.liveArgs(loop.live, &st), ind), nil
}

// recvStmt: the blocking receive `<-ch` (the value is dropped), which must be followed by a yield
// point: `I.<ch>_recv w : W × Bool`, true = received, false = parked inside the receive
func (g *cmGen) recvStmt(u *ast.UnaryExpr, rest []ast.Stmt, k *cmKont, st cmState, ind string) (string, error) {
	ch, ok := g.chanOf(u.X)
	if !ok {
		return "", fmt.Errorf("channel %q is not in the interface table", g.src(u.X))
	}
	if len(rest) == 0 || isVerifCall(rest[0], "verifPoint") == nil {
		return "", fmt.Errorf("the blocking receive %q is not followed by a yield point", g.src(u))
	}
	if err := g.iface.add(ch+"_recv", "W → W × Bool"); err != nil {
		return "", err
	}
	sec, err := g.yieldAt(isVerifCall(rest[0], "verifPoint"), &cmKont{rest[1:], k, st.brk, st.loop}, &st)
	if err != nil {
		return "", err
	}
	blocked := sec.ctor + "_blocked"
	found := false
	for _, s := range g.secs {
		if s.ctor == blocked {
			found = true
		}
	}
	if !found {
		g.secs = append(g.secs, &cmSection{ctor: blocked, live: sec.live, blockedOf: sec.ctor,
			doc: fmt.Sprintf("parked inside the blocking receive `%s`", g.src(u))})
	}
	r, w := g.freshN("r"), g.freshN("w")
	out := fmt.Sprintf("%slet %s := I.%s_recv %s\n%slet %s : W := %s.1\n", ind, r, ch, st.w, ind, w, r)
	st.w = w
	return out + fmt.Sprintf("%sif %s.2 then\n%s\n%selse\n%s", ind, r,
		g.park(&st, sec.ctor, g.liveArgs(sec.live, &st), ind+"  "), ind,
		g.park(&st, blocked, g.liveArgs(sec.live, &st), ind+"  ")), nil
}

// cmTryRecv: the body of one iteration of a non-blocking receive loop
type cmTryRecv struct {
	ast.EmptyStmt
	sel *ast.SelectStmt
}

func (g *cmGen) tryRecv(x *cmTryRecv, after *cmKont, st cmState, ind string) (string, error) {
	var recv, deflt *ast.CommClause
	for _, c := range x.sel.Body.List {
		if cc := c.(*ast.CommClause); cc.Comm == nil {
			deflt = cc
		} else {
			recv = cc
		}
	}
	u, id, ok := isRecvComm(recv.Comm)
	if !ok {
		return "", fmt.Errorf("select clause %q outside the subset", firstLine(g.src(recv)))
	}
	ch, ok := g.chanOf(u.X)
	if !ok {
		return "", fmt.Errorf("channel %q is not in the interface table", g.src(u.X))
	}
	fs, objs, err := g.recvBinding(id)
	if err != nil {
		return "", err
	}
	tys := []string{}
	for _, f := range fs {
		tys = append(tys, f.ty)
	}
	vty := strings.Join(tys, " × ")
	if vty == "" {
		vty = "Unit"
	}
	if err := g.iface.add(ch+"_tryRecv", "W → Option (W × "+vty+")"); err != nil {
		return "", err
	}
	dS, err := g.seq(deflt.Body, after, st, ind+"    ")
	if err != nil {
		return "", err
	}
	r, w := g.freshN("r"), g.freshN("w")
	inner := st
	inner.env = copyEnv(st.env)
	inner.w = w
	binds := fmt.Sprintf("%s    let %s : W := %s.1\n", ind, w, r)
	for i, o := range objs {
		n := g.freshN(fs[i].name)
		inner.env[o] = n
		binds += fmt.Sprintf("%s    let %s : %s := %s\n", ind, n, strings.Trim(fs[i].ty, "()"), cmProj("("+r+".2)", i, len(objs)))
	}
	rS, err := g.seq(recv.Body, after, inner, ind+"    ")
	if err != nil {
		return "", err
	}
	return fmt.Sprintf("%smatch I.%s_tryRecv %s with\n%s| none => (\n%s\n%s  )\n%s| some %s => (\n%s%s\n%s  )",
		ind, ch, st.w, ind, dS, ind, ind, r, binds, rS, ind), nil
}

// ---------------------------------------------------------------- the module

func genCacheSections(load func(string) *pkgInfo, mod string, funcs []string, what string) (string, error) {
	pi := load("")
	iface := &cmIface{sigs: map[string]string{}}
	var body strings.Builder
	for _, name := range funcs {
		fd := pi.findFunc(name)
		short := strings.TrimPrefix(name, "Cache.")
		if fd == nil || fd.Body == nil {
			msg := fmt.Sprintf("%s: function not found", short)
			extraFailed = append(extraFailed, mod+"."+msg)
			fmt.Fprintf(&body, "-- UNTRANSLATABLE %s\n\n", msg)
			continue
		}
		g := &cmGen{pi: pi, fd: fd, fn: short, iface: iface, byPos: map[token.Pos]*cmSection{}, names: map[string]int{},
			calls: cacheaCalls, chans: cacheaChans, fields: cacheaFields, nilFields: cacheaNilFields, cutNoArgs: cacheaCutNoArgs,
			wait: map[types.Object]types.Object{}, labels: map[string]*cmKont{}}
		g.c = &ctx{pi: pi, env: map[types.Object]string{}, leaves: map[string]string{}, opaque: false}
		g.c.hook = g.hook
		txt, err := g.translate()
		if err != nil {
			msg := fmt.Sprintf("%s: %v", short, strings.ReplaceAll(err.Error(), "\n", " "))
			extraFailed = append(extraFailed, mod+"."+msg)
			fmt.Fprintf(&body, "-- UNTRANSLATABLE %s\n\n", msg)
			continue
		}
		body.WriteString(txt)
	}
	var b strings.Builder
	b.WriteString("open Gen.Methods\n\n")
	b.WriteString("-- cache.go: " + what + " cut at its yield points; see go2lean/cachea.go and go2lean/cachem.go.\n")
	b.WriteString("set_option linter.unusedVariables false\n\n")
	b.WriteString("/-- everything the sections call but do not define (go2lean/cachea.go); `W` is the shared state -/\n")
	b.WriteString("structure Iface (W K V : Type) where\n")
	b.WriteString("  zeroV : V\n")
	done := map[string]bool{}
	for _, c := range cacheaCalls {
		if sig, ok := iface.sigs[c.field]; ok && !done[c.field] {
			done[c.field] = true
			what := "`" + c.match + "`"
			if strings.HasPrefix(c.field, "local_") {
				what = "the local closure `" + c.match + "` (its body is not cut)"
			}
			fmt.Fprintf(&b, "  /-- %s -/\n  %s : %s\n", what, c.field, sig)
		}
	}
	rest := []string{}
	for k := range iface.sigs {
		if !done[k] {
			rest = append(rest, k)
		}
	}
	sort.Strings(rest)
	for _, k := range rest {
		fmt.Fprintf(&b, "  %s : %s\n", k, iface.sigs[k])
	}
	b.WriteString("\n")
	b.WriteString(body.String())
	return b.String(), nil
}
