package main

// lfu.go — whole-function translation with loops, arrays of slices, slices of (immutable) struct
// pointers, abstract extern objects and an enumeration oracle for `range` over maps.
// Outputs RV/Gen/SketchM.lean, TinyLFUM.lean, PolicyM.lean (specs_lfu.go); the Lean meaning of the
// constructs is RV/GenLfu.lean (namespace GenL).  The generated functions are proved EQUAL to the
// hand-written models in RV/Props/TieSketch.lean, TieTinyLFU.lean, TiePolicyAdd.lean.
//
// Shape of a translated function (state-passing, like methods.go; loops like funcm.go):
//
//	name {V Door…} [zeroV] [ops…] [fuel] recv params… [orc]
//	    : [Res] ([recv'] × [written slice params'] × results… × [effs] × [orc'])
//
//   - `Res` (GenL.Res: ok / panic / stuck) iff the function (transitively) can fail: an index or
//     slice expression, `panic`, a loop, an oracle or fuel consumer;
//   - recv' iff the receiver is written (pointer receiver fields, or elements of a slice-typed
//     value receiver such as `cmRow`);
//   - `effs : List Eff` iff it (transitively) performs a call listed in lxEffects, in program order;
//   - `orc : GenL.Orc` iff it (transitively) ranges over a map: the enumerations seen, in order;
//   - `fuel : Nat` iff it (transitively) has a `for init; cond; post` loop that is not counted;
//   - `ops : XOps X` for every abstract extern type X (lxExterns) whose methods it calls;
//   - `zeroV : V` iff a zero value of the type parameter is needed.
//
// Slices have VALUE semantics in the output.  That is sound only when no two live slice values
// share a backing array that one of them is written through.  The translator enforces a simple
// discipline instead of an alias analysis and refuses everything else:
//   - a slice variable is assigned only from `make`, `nil`, `append(x, v)` / `x[:hi]` of ITSELF, or
//     the result of a call that was given the variable itself (`s = f(s)`) or no slice at all;
//   - a `range` value variable of slice type (rows of `[N]cmRow`) is an ALIAS of the element: reads
//     and writes go to the element of the current state;
//   - the ranged slice / array / map is not assigned inside the loop body (for arrays of slices:
//     no whole-element assignment), so a snapshot and the live object agree;
//   - pointers to structs (`*policyPair`, `*Item[V]`) are values: writes through them are refused
//     (only the receiver and fresh locals are writable roots).
//
// Lock/Unlock/defer Unlock and the verif hooks are skipped (lock shape: separate obligation; hook
// arguments are evaluated by Go but have no effect on the state).  Not modelled: nil dereference,
// nil map write, memory exhaustion.  Anything outside the subset: `-- UNTRANSLATABLE name: reason`.

import (
	"fmt"
	"go/ast"
	"go/types"
	"regexp"
	"sort"
	"strings"
)

func init() {
	for _, mod := range lxModules {
		mod := mod
		extras[mod.name] = func(load func(string) *pkgInfo) (string, error) { return lxGenerate(load, mod.name) }
		extraImports[mod.name] = mod.imports
	}
}

// ---------------------------------------------------------------- types

type lxKind int

const (
	lkScalar lxKind = iota
	lkTParam
	lkStruct  // a listed struct, or a pointer to one
	lkExtern  // abstract object of an extern type (a Lean type parameter + an ops structure)
	lkArr     // slice or fixed-size array
	lkMap     // map[scalar]scalar
	lkNilOnly // pointer to anything else: only its nil-ness
)

type lxT struct {
	k        lxKind
	l        lty
	lean     string
	st       *lxStruct
	ext      *lxExternT
	elem     *lxT
	fixed    int64 // array length; -1 for slices
	key, val *lxT
	ptr      bool // lxStruct reached through a pointer
}

func (t *lxT) asLty() lty {
	if t.k == lkScalar {
		return t.l
	}
	return lty{kind: "x:" + t.lean}
}

func lxScalarT(l lty) *lxT { return &lxT{k: lkScalar, l: l, lean: l.lean()} }

var lxBoolT = lxScalarT(lty{kind: "bool"})

type lxField struct {
	goName, lean string
	t            *lxT
	skipped      string
}

type lxStruct struct {
	goName, lean, mod string
	tps               []string
	fields            []*lxField
	spec              *ast.StructType
}

func (s *lxStruct) full() string { return "Gen." + s.mod + "." + s.lean }

func (s *lxStruct) typeText() string {
	if len(s.tps) == 0 {
		return s.full()
	}
	return "(" + s.full() + " " + strings.Join(s.tps, " ") + ")"
}

func (s *lxStruct) field(name string) *lxField {
	for _, f := range s.fields {
		if f.goName == name {
			return f
		}
	}
	return nil
}

type lxExtM struct {
	name    string
	mutates bool
	params  []*lxT
	res     *lxT
}

type lxExternT struct {
	key     string // "z.Bloom"
	lean    string // type parameter name, "Door"
	ops     string // structure name, "BloomOps"
	opsVar  string // parameter name, "ops"
	mod     string
	methods []*lxExtM
}

func (x *lxExternT) method(name string) *lxExtM {
	for _, m := range x.methods {
		if m.name == name {
			return m
		}
	}
	return nil
}

type lxParam struct {
	obj     types.Object
	name    string
	t       *lxT
	written bool // elements of a slice-typed parameter / fields of the receiver are written
}

type lxMethod struct {
	qual, lean, mod string
	fd              *ast.FuncDecl
	err             error
	aux             bool
	recv            *lxParam
	params          []*lxParam
	results         []*lxT
	partial         bool
	hasEffs         bool
	usesOrc         bool
	needsFuel       bool
	needsZero       bool
	exts            []*lxExternT
	ctorParams      []lxCtorParam // extern objects built by a constructor call: received as parameters
	text            string
}

type lxCtorParam struct {
	name string
	ext  *lxExternT
}

func (me *lxMethod) full() string { return "Gen." + me.mod + "." + me.lean }

func (me *lxMethod) addExt(x *lxExternT) {
	for _, e := range me.exts {
		if e == x {
			return
		}
	}
	me.exts = append(me.exts, x)
	sort.Slice(me.exts, func(i, j int) bool { return me.exts[i].key < me.exts[j].key })
}

// comps: the components of the result tuple, in order.
func (me *lxMethod) compTypes() []string {
	cs := []string{}
	if me.recv != nil && me.recv.written {
		cs = append(cs, me.recv.t.lean)
	}
	for _, p := range me.params {
		if p.written {
			cs = append(cs, p.t.lean)
		}
	}
	for _, r := range me.results {
		cs = append(cs, r.lean)
	}
	if me.hasEffs {
		cs = append(cs, "List Eff")
	}
	if me.usesOrc {
		cs = append(cs, "GenL.Orc")
	}
	return cs
}

func (me *lxMethod) tupleType() string {
	cs := me.compTypes()
	if len(cs) == 0 {
		return "Unit"
	}
	for i, c := range cs {
		if i < len(cs)-1 {
			cs[i] = atom(c)
		}
	}
	return strings.Join(cs, " × ")
}

func (me *lxMethod) resType() string {
	if me.partial {
		return "GenL.Res " + atom(me.tupleType())
	}
	return me.tupleType()
}

type lxGen struct {
	pi      *pkgInfo
	load    func(string) *pkgInfo
	structs map[string]*lxStruct
	externs map[string]*lxExternT
	effects map[string]*mEffect
	done    map[string]*lxMethod
	inProg  map[string]bool
	outs    map[string][]string // module -> definitions in emission order
	failed  map[string][]string // module -> UNTRANSLATABLE messages
	spec    map[string]lxSpec
	built   bool
	headErr error
	heads   map[string]string // module -> structures etc.
}

var lxTheGen *lxGen

func lxGenerate(load func(string) *pkgInfo, mod string) (string, error) {
	if lxTheGen == nil {
		lxTheGen = &lxGen{pi: load(""), load: load, structs: map[string]*lxStruct{}, externs: map[string]*lxExternT{},
			effects: map[string]*mEffect{}, done: map[string]*lxMethod{}, inProg: map[string]bool{},
			outs: map[string][]string{}, failed: map[string][]string{}, spec: map[string]lxSpec{}, heads: map[string]string{}}
		lxTheGen.run()
	}
	g := lxTheGen
	if g.headErr != nil {
		return "", g.headErr
	}
	var b strings.Builder
	b.WriteString("set_option linter.unusedVariables false\n\n")
	b.WriteString(g.heads[mod])
	b.WriteString(strings.Join(g.outs[mod], "\n"))
	for _, f := range g.failed[mod] {
		extraFailed = append(extraFailed, f)
		fmt.Fprintf(&b, "\n-- UNTRANSLATABLE %s\n", f)
	}
	return b.String(), nil
}

func (g *lxGen) run() {
	if err := g.buildExterns(); err != nil {
		g.headErr = err
		return
	}
	if err := g.buildStructs(); err != nil {
		g.headErr = err
		return
	}
	if err := g.emitHeads(); err != nil {
		g.headErr = err
		return
	}
	for _, s := range lxSpecs {
		g.spec[s.fn] = s
	}
	for _, s := range lxSpecs {
		me := g.method(s.fn, s.mod)
		if me.err != nil {
			g.failed[s.mod] = append(g.failed[s.mod], fmt.Sprintf("%s: %s", s.lean, strings.ReplaceAll(me.err.Error(), "\n", " ")))
		}
	}
}

func lxModOf(name string) *lxModule {
	for i := range lxModules {
		if lxModules[i].name == name {
			return &lxModules[i]
		}
	}
	return nil
}

func lxModIdx(name string) int {
	for i := range lxModules {
		if lxModules[i].name == name {
			return i
		}
	}
	return -1
}

// ---------------------------------------------------------------- extern types

func (g *lxGen) buildExterns() error {
	for _, xs := range lxExterns {
		x := &lxExternT{key: xs.key, lean: xs.lean, ops: xs.ops, opsVar: xs.opsVar, mod: xs.mod}
		if xs.pkg == "-" {
			for _, ms := range xs.methods {
				em := &lxExtM{name: ms.name, mutates: ms.mutates}
				for _, pt := range ms.params {
					t, err := lxBasicType(pt)
					if err != nil {
						return err
					}
					em.params = append(em.params, t)
				}
				if ms.res != "" {
					t, err := lxBasicType(ms.res)
					if err != nil {
						return err
					}
					em.res = t
				}
				x.methods = append(x.methods, em)
			}
			g.externs[xs.key] = x
			continue
		}
		pi := g.load(xs.pkg)
		for _, ms := range xs.methods {
			fd := pi.findFunc(xs.goType + "." + ms.name)
			if fd == nil {
				return fmt.Errorf("extern method %s.%s not found in package %q", xs.goType, ms.name, xs.pkg)
			}
			em := &lxExtM{name: ms.name, mutates: ms.mutates}
			for _, f := range fd.Type.Params.List {
				tv := pi.info.Types[f.Type]
				l, err := leanType(tv.Type)
				if tv.Type == nil || err != nil || (l.kind != "bv" && l.kind != "bool") {
					return fmt.Errorf("extern method %s.%s: parameter type outside the subset", xs.goType, ms.name)
				}
				n := len(f.Names)
				if n == 0 {
					n = 1
				}
				for i := 0; i < n; i++ {
					em.params = append(em.params, lxScalarT(l))
				}
			}
			if fd.Type.Results != nil {
				if fd.Type.Results.NumFields() > 1 {
					return fmt.Errorf("extern method %s.%s: more than one result", xs.goType, ms.name)
				}
				for _, f := range fd.Type.Results.List {
					tv := pi.info.Types[f.Type]
					l, err := leanType(tv.Type)
					if tv.Type == nil || err != nil || (l.kind != "bv" && l.kind != "bool") {
						return fmt.Errorf("extern method %s.%s: result type outside the subset", xs.goType, ms.name)
					}
					em.res = lxScalarT(l)
				}
			}
			x.methods = append(x.methods, em)
		}
		g.externs[xs.key] = x
	}
	return nil
}

func lxBasicType(name string) (*lxT, error) {
	switch name {
	case "uint64":
		return lxScalarT(lty{"bv", 64, false}), nil
	case "int64", "int":
		return lxScalarT(lty{"bv", 64, true}), nil
	case "bool":
		return lxScalarT(lty{kind: "bool"}), nil
	}
	return nil, fmt.Errorf("extern signature type %s outside the subset", name)
}

func (x *lxExternT) emit() string {
	var b strings.Builder
	fmt.Fprintf(&b, "/-- operations of the abstract extern object `%s` (not translated; signatures read from its source) -/\nstructure %s (%s : Type) where\n", x.key, x.ops, x.lean)
	for _, m := range x.methods {
		parts := []string{x.lean}
		for _, p := range m.params {
			parts = append(parts, atom(p.lean))
		}
		res := "Unit"
		switch {
		case m.mutates && m.res != nil:
			res = x.lean + " × " + atom(m.res.lean)
		case m.mutates:
			res = x.lean
		case m.res != nil:
			res = atom(m.res.lean)
		}
		fmt.Fprintf(&b, "  %s : %s → %s\n", m.name, strings.Join(parts, " → "), res)
	}
	b.WriteString("\n")
	return b.String()
}

// ---------------------------------------------------------------- struct types

func (g *lxGen) typeSpecOf(name string) *ast.TypeSpec {
	for _, f := range g.pi.files {
		for _, d := range f.Decls {
			gd, ok := d.(*ast.GenDecl)
			if !ok {
				continue
			}
			for _, sp := range gd.Specs {
				if ts, ok := sp.(*ast.TypeSpec); ok && ts.Name.Name == name {
					return ts
				}
			}
		}
	}
	return nil
}

// externOfTypeExpr: `*z.Bloom` / `z.Bloom` written in the source.
func (g *lxGen) externOfTypeExpr(e ast.Expr) *lxExternT {
	if s, ok := e.(*ast.StarExpr); ok {
		e = s.X
	}
	if sel, ok := e.(*ast.SelectorExpr); ok {
		if id, ok := sel.X.(*ast.Ident); ok {
			return g.externs[id.Name+"."+sel.Sel.Name]
		}
	}
	return nil
}

func (g *lxGen) ltype(t types.Type) (*lxT, error) {
	if t == nil {
		return nil, fmt.Errorf("untyped expression")
	}
	switch u := t.(type) {
	case *types.TypeParam:
		return &lxT{k: lkTParam, lean: "V"}, nil
	case *types.Pointer:
		if n := namedOf(u.Elem()); n != nil && n.Obj().Pkg() == g.pi.pkg {
			if st := g.structs[n.Origin().Obj().Name()]; st != nil {
				return &lxT{k: lkStruct, st: st, lean: st.typeText(), ptr: true}, nil
			}
		}
		return &lxT{k: lkNilOnly, lean: "Bool"}, nil
	}
	if n := namedOf(t); n != nil && n.Obj().Pkg() == g.pi.pkg {
		if st := g.structs[n.Origin().Obj().Name()]; st != nil {
			return &lxT{k: lkStruct, st: st, lean: st.typeText()}, nil
		}
	}
	if l, err := leanType(t); err == nil && (l.kind == "bv" || l.kind == "bool") {
		return lxScalarT(l), nil
	}
	switch u := t.Underlying().(type) {
	case *types.Slice:
		e, err := g.ltype(u.Elem())
		if err != nil {
			return nil, err
		}
		if e.k == lkMap || e.k == lkNilOnly || e.k == lkExtern {
			return nil, fmt.Errorf("slice element type %s outside the subset", u.Elem())
		}
		return &lxT{k: lkArr, elem: e, fixed: -1, lean: "Array " + atom(e.lean)}, nil
	case *types.Array:
		e, err := g.ltype(u.Elem())
		if err != nil {
			return nil, err
		}
		if e.k == lkMap || e.k == lkNilOnly || e.k == lkExtern {
			return nil, fmt.Errorf("array element type %s outside the subset", u.Elem())
		}
		return &lxT{k: lkArr, elem: e, fixed: u.Len(), lean: "Array " + atom(e.lean)}, nil
	case *types.Map:
		k, err := g.ltype(u.Key())
		if err != nil || k.k != lkScalar {
			return nil, fmt.Errorf("map key type %s outside the subset", u.Key())
		}
		v, err := g.ltype(u.Elem())
		if err != nil || v.k != lkScalar {
			return nil, fmt.Errorf("map value type %s outside the subset", u.Elem())
		}
		if k.lean != "BitVec 64" || v.lean != "BitVec 64" {
			return nil, fmt.Errorf("map type %s outside the subset (the oracle enumerates 64-bit pairs)", t)
		}
		return &lxT{k: lkMap, key: k, val: v, lean: fmt.Sprintf("RV.AMap %s %s", atom(k.lean), atom(v.lean))}, nil
	}
	return nil, fmt.Errorf("type %s outside the subset", t)
}

func (g *lxGen) buildStructs() error {
	for _, ss := range lxStructs {
		ts := g.typeSpecOf(ss.name)
		if ts == nil {
			return fmt.Errorf("struct type %s not found", ss.name)
		}
		st, ok := ts.Type.(*ast.StructType)
		if !ok {
			return fmt.Errorf("%s is not a struct", ss.name)
		}
		g.structs[ss.name] = &lxStruct{goName: ss.name, lean: lowerFirstUpper(ss.name), mod: ss.mod, spec: st}
	}
	for _, ss := range lxStructs {
		st := g.structs[ss.name]
		tpSet := map[string]bool{}
		for _, fl := range st.spec.Fields.List {
			names := []string{}
			for _, n := range fl.Names {
				names = append(names, n.Name)
			}
			if len(names) == 0 { // embedded
				names = []string{strings.TrimPrefix(strings.ReplaceAll(g.pi.src(fl.Type), "*", ""), "sync.")}
			}
			for _, name := range names {
				mf := &lxField{goName: name, lean: lxIdent(name)}
				tv := g.pi.info.Types[fl.Type]
				switch {
				case g.externOfTypeExpr(fl.Type) != nil:
					x := g.externOfTypeExpr(fl.Type)
					mf.t = &lxT{k: lkExtern, ext: x, lean: x.lean}
					tpSet[x.lean] = true
				case tv.Type == nil:
					mf.skipped = "type not resolved"
				default:
					if fn := namedOf(tv.Type); fn != nil && fn.Obj().Pkg() != nil && fn.Obj().Pkg().Path() == "sync" {
						mf.skipped = "lock (the lock shape is a separate obligation)"
					} else if _, isChan := tv.Type.Underlying().(*types.Chan); isChan {
						mf.skipped = "channel"
					} else {
						t, err := g.ltype(tv.Type)
						if err != nil {
							mf.skipped = err.Error()
						} else {
							mf.t = t
							g.collectTps(t, tpSet, ss.name)
						}
					}
				}
				st.fields = append(st.fields, mf)
			}
		}
		// declared order: V first, then extern parameters by name
		if tpSet["V"] {
			st.tps = append(st.tps, "V")
		}
		rest := []string{}
		for k := range tpSet {
			if k != "V" {
				rest = append(rest, k)
			}
		}
		sort.Strings(rest)
		st.tps = append(st.tps, rest...)
		// now that the parameters are known, refresh the type texts of fields referring to structs
		// listed earlier (they are complete) — a struct must be listed after the structs it uses
		for _, f := range st.fields {
			if f.t != nil {
				g.refresh(f.t)
			}
		}
	}
	return nil
}

func (g *lxGen) collectTps(t *lxT, set map[string]bool, owner string) {
	switch t.k {
	case lkTParam:
		set["V"] = true
	case lkExtern:
		set[t.ext.lean] = true
	case lkStruct:
		for _, p := range t.st.tps {
			set[p] = true
		}
	case lkArr:
		g.collectTps(t.elem, set, owner)
	}
}

// refresh recomputes the Lean text of a type (struct parameters are known only after buildStructs).
func (g *lxGen) refresh(t *lxT) {
	switch t.k {
	case lkStruct:
		t.lean = t.st.typeText()
	case lkArr:
		g.refresh(t.elem)
		t.lean = "Array " + atom(t.elem.lean)
	}
}

func (g *lxGen) zeroOf(t *lxT, usedZero *bool) (string, error) {
	switch t.k {
	case lkScalar:
		switch t.l.kind {
		case "bv":
			return fmt.Sprintf("0#%d", t.l.w), nil
		case "bool":
			return "false", nil
		}
	case lkTParam:
		*usedZero = true
		return "zeroV", nil
	case lkMap:
		return "(RV.AMap.empty : " + t.lean + ")", nil
	case lkNilOnly:
		return "false", nil
	case lkArr:
		if t.fixed < 0 {
			return "(#[] : " + t.lean + ")", nil
		}
		z, err := g.zeroOf(t.elem, usedZero)
		if err != nil {
			return "", err
		}
		return fmt.Sprintf("(Array.replicate %d %s : %s)", t.fixed, atom(z), t.lean), nil
	case lkStruct:
		if !t.ptr {
			return g.structLit(t.st, map[string]string{}, usedZero)
		}
	}
	return "", fmt.Errorf("zero value of %s outside the subset", t.lean)
}

func (g *lxGen) structLit(st *lxStruct, given map[string]string, usedZero *bool) (string, error) {
	parts := []string{}
	for _, f := range st.fields {
		if f.skipped != "" {
			if _, ok := given[f.goName]; ok {
				return "", fmt.Errorf("literal sets the unrepresented field %s", f.goName)
			}
			continue
		}
		v, ok := given[f.goName]
		if !ok {
			var err error
			v, err = g.zeroOf(f.t, usedZero)
			if err != nil {
				return "", fmt.Errorf("field %s: %v", f.goName, err)
			}
		}
		parts = append(parts, lxFieldName(f)+" := "+v)
	}
	return fmt.Sprintf("({ %s } : %s)", strings.Join(parts, ", "), strings.Trim(st.typeText(), "()")), nil
}

// lxIdent: a Lean identifier for a Go name.  Names that are Lean tactic keywords the audit greps for
// (`admit`, `sorry`) get a trailing underscore.
func lxIdent(name string) string {
	n := sanitize(name)
	if n == "admit" || n == "sorry" {
		n += "_"
	}
	return n
}

func lxFieldName(f *lxField) string {
	if f.t != nil && f.t.k == lkNilOnly {
		return f.lean + "_nonnil"
	}
	return f.lean
}

func (g *lxGen) emitHeads() error {
	for _, mod := range lxModules {
		var b strings.Builder
		for _, xs := range lxExterns {
			if xs.mod == mod.name {
				b.WriteString(g.externs[xs.key].emit())
			}
		}
		for _, ss := range lxStructs {
			if ss.mod != mod.name {
				continue
			}
			st := g.structs[ss.name]
			fmt.Fprintf(&b, "/-- Go `%s`", st.goName)
			sk := []string{}
			for _, f := range st.fields {
				if f.skipped != "" {
					sk = append(sk, f.goName+": "+f.skipped)
				}
			}
			if len(sk) > 0 {
				fmt.Fprintf(&b, "; fields not represented: %s", strings.Join(sk, "; "))
			}
			fmt.Fprintf(&b, " -/\nstructure %s", st.lean)
			for _, p := range st.tps {
				fmt.Fprintf(&b, " (%s : Type)", p)
			}
			b.WriteString(" where\n")
			n := 0
			for _, f := range st.fields {
				if f.skipped != "" {
					continue
				}
				fmt.Fprintf(&b, "  %s : %s\n", lxFieldName(f), f.t.lean)
				n++
			}
			if n == 0 {
				return fmt.Errorf("struct %s has no representable field", ss.name)
			}
			b.WriteString("\n")
		}
		if mod.name == lxEffectsMod {
			pi := g.pi
			b.WriteString("/-- calls that are recorded, in program order, instead of being translated -/\ninductive Eff where\n")
			for _, q := range lxEffects {
				fd := pi.findFunc(q)
				if fd == nil {
					return fmt.Errorf("effect callee %s not found", q)
				}
				ef := &mEffect{qual: q, ctor: sanitize(strings.ReplaceAll(q, ".", "_"))}
				fmt.Fprintf(&b, "  | %s", ef.ctor)
				if fd.Recv != nil {
					ef.recvPtr = true
					b.WriteString(" (recv_nonnil : Bool)")
				}
				for _, f := range fd.Type.Params.List {
					for _, n := range f.Names {
						obj := pi.info.Defs[n]
						l, err := leanType(obj.Type())
						if err != nil || l.kind != "bv" {
							return fmt.Errorf("effect %s: parameter %s outside the subset", q, n.Name)
						}
						ef.names = append(ef.names, sanitize(n.Name))
						fmt.Fprintf(&b, " (%s : %s)", sanitize(n.Name), l.lean())
						ef.params = append(ef.params, nil)
					}
				}
				b.WriteString("\n")
				g.effects[q] = ef
			}
			b.WriteString("deriving DecidableEq, Repr\n\n")
			for _, c := range lxConsts {
				txt, err := translateConst(pi, Spec{Kind: KConst, Match: c.goName, Lean: c.lean})
				if err != nil {
					g.failed[mod.name] = append(g.failed[mod.name], fmt.Sprintf("%s: %v", c.lean, err))
					continue
				}
				b.WriteString(txt + "\n")
			}
		}
		g.heads[mod.name] = b.String()
	}
	return nil
}

// ---------------------------------------------------------------- functions

func (g *lxGen) funcOfCall(call *ast.CallExpr) (*types.Func, ast.Expr) {
	info := g.pi.info
	var obj types.Object
	var recv ast.Expr
	switch f := unparen(call.Fun).(type) {
	case *ast.Ident:
		obj = info.Uses[f]
	case *ast.SelectorExpr:
		if sel, ok := info.Selections[f]; ok {
			if sel.Kind() != types.MethodVal {
				return nil, nil
			}
			obj = sel.Obj()
			recv = f.X
		} else {
			obj = info.Uses[f.Sel]
		}
	case *ast.IndexExpr:
		if id, ok := f.X.(*ast.Ident); ok {
			obj = info.Uses[id]
		}
	}
	fn, ok := obj.(*types.Func)
	if !ok || fn == nil || fn.Pkg() != g.pi.pkg {
		return nil, nil
	}
	return fn.Origin(), recv
}

func (g *lxGen) declOfFunc(fn *types.Func) *ast.FuncDecl {
	for _, file := range g.pi.files {
		for _, d := range file.Decls {
			if fd, ok := d.(*ast.FuncDecl); ok && fd.Body != nil {
				if o, ok := g.pi.info.Defs[fd.Name].(*types.Func); ok && o.Origin() == fn {
					return fd
				}
			}
		}
	}
	return nil
}

// modOfDecl: the module an on-demand callee goes to — that of its receiver's type, else the
// requester's.
func (g *lxGen) modOfDecl(fd *ast.FuncDecl, requester string) string {
	q := qualName(fd)
	if i := strings.Index(q, "."); i >= 0 {
		if m, ok := lxTypeModule[q[:i]]; ok {
			return m
		}
	}
	return requester
}

// method translates (once) the function or method with the qualified name q.
func (g *lxGen) method(q, requester string) *lxMethod {
	if me, ok := g.done[q]; ok {
		return me
	}
	me := &lxMethod{qual: q}
	if g.inProg[q] {
		me.err = fmt.Errorf("recursive call of %s outside the subset", q)
		return me
	}
	me.fd = g.pi.findFunc(q)
	if me.fd == nil {
		me.err = fmt.Errorf("function %s not found", q)
		g.done[q] = me
		return me
	}
	if s, ok := g.spec[q]; ok {
		me.lean, me.mod = s.lean, s.mod
	} else {
		me.aux = true
		me.mod = g.modOfDecl(me.fd, requester)
		if strings.Contains(q, ".") {
			me.lean = sanitize(strings.ReplaceAll(q, ".", "_"))
		} else {
			me.lean = "fn_" + sanitize(q)
		}
	}
	g.inProg[q] = true
	defer func() { g.inProg[q] = false }()
	txt, err := g.translateFn(me)
	me.err = err
	g.done[q] = me
	if err == nil {
		if lxModIdx(me.mod) > lxModIdx(requester) && requester != "" {
			me.err = fmt.Errorf("%s lives in module %s, which %s does not import", q, me.mod, requester)
			return me
		}
		me.text = txt
		g.outs[me.mod] = append(g.outs[me.mod], txt)
	}
	return me
}

var lxWord = regexp.MustCompile(`[A-Za-z_][A-Za-z0-9_'.]*`)

// lxMentions: does the Lean text mention the identifier as a whole word?
func lxMentions(text, name string) bool {
	for _, loc := range lxWord.FindAllStringIndex(text, -1) {
		w := text[loc[0]:loc[1]]
		if w == name || strings.HasPrefix(w, name+".") {
			return true
		}
	}
	return false
}

// lxTypeParamsIn: which type parameters (V, extern parameters) occur in the signature text.
func (g *lxGen) typeParamsIn(sig string) []string {
	tps := []string{}
	if lxMentions(sig, "V") {
		tps = append(tps, "V")
	}
	names := []string{}
	for _, x := range g.externs {
		names = append(names, x.lean)
	}
	sort.Strings(names)
	for _, n := range names {
		if lxMentions(sig, n) {
			tps = append(tps, n)
		}
	}
	return tps
}
