package main

// Arithmetic identities tolerated when an anchored expression (KExpr) is looked up in the source.
// A maintainer may respell `x % 256` as `x & 255`, `x * 4` as `x << 2`, `x / 2` as `x >> 1` or, for
// an unsigned x, `x > 0` as `x != 0`: for every value of the Go type involved both spellings denote
// the same function, so the anchored expression is still there.  The match succeeds, and the
// translator is handed the PATTERN's spelling over the candidate's operands (amatch.repl), so the
// generated Lean definition - and everything proved about it - is unchanged.  The rules are part of
// the trusted translator; each is restricted to integer operands (unsigned where it matters) and
// to constant right operands whose values correspond exactly.

import (
	"go/ast"
	"go/constant"
	"go/token"
	"go/types"
	"math/big"
)

// patConst evaluates a constant sub-expression of a pattern (which carries no type information):
// integer literals, package-level constants, and + - of those.
func (m *amatch) patConst(e ast.Expr) (constant.Value, bool) {
	switch x := unparen(e).(type) {
	case *ast.BasicLit:
		if x.Kind == token.INT {
			v := constant.MakeFromLiteral(x.Value, token.INT, 0)
			return v, v.Kind() == constant.Int
		}
	case *ast.Ident:
		if obj, ok := m.pi.pkg.Scope().Lookup(x.Name).(*types.Const); ok && obj.Val().Kind() == constant.Int {
			return obj.Val(), true
		}
	case *ast.BinaryExpr:
		if x.Op == token.ADD || x.Op == token.SUB {
			a, ok1 := m.patConst(x.X)
			b, ok2 := m.patConst(x.Y)
			if ok1 && ok2 {
				return constant.BinaryOp(a, x.Op, b), true
			}
		}
	}
	return nil, false
}

func (m *amatch) candConst(e ast.Expr) (constant.Value, bool) {
	tv, ok := m.pi.info.Types[e]
	if !ok || tv.Value == nil || tv.Value.Kind() != constant.Int {
		return nil, false
	}
	return tv.Value, true
}

func bigOf(v constant.Value) *big.Int {
	b, ok := new(big.Int).SetString(v.ExactString(), 10)
	if !ok {
		return nil
	}
	return b
}

// log2 of a positive power of two, else -1
func pow2(v constant.Value) int {
	b := bigOf(v)
	if b == nil || b.Sign() <= 0 || new(big.Int).And(b, new(big.Int).Sub(b, big.NewInt(1))).Sign() != 0 {
		return -1
	}
	return b.BitLen() - 1
}

func (m *amatch) intKind(e ast.Expr) (isInt, unsigned bool) {
	tv, ok := m.pi.info.Types[e]
	if !ok || tv.Type == nil {
		return false, false
	}
	b, ok := tv.Type.Underlying().(*types.Basic)
	if !ok || b.Info()&types.IsInteger == 0 {
		return false, false
	}
	return true, b.Info()&types.IsUnsigned != 0
}

// identity: pattern p and candidate c are binary expressions with different operators (or
// different constants); do they agree through one of the identities?
func (m *amatch) identity(p, c *ast.BinaryExpr) bool {
	isInt, uns := m.intKind(c.X)
	if !isInt {
		return false
	}
	pv, pok := m.patConst(p.Y)
	cv, cok := m.candConst(c.Y)
	if !pok || !cok {
		return false
	}
	one := constant.MakeInt64(1)
	ok := false
	switch {
	case p.Op == token.REM && c.Op == token.AND && uns: // x % 2^k  ==  x & (2^k - 1)
		ok = pow2(pv) >= 0 && constant.Compare(cv, token.EQL, constant.BinaryOp(pv, token.SUB, one))
	case p.Op == token.AND && c.Op == token.REM && uns:
		ok = pow2(cv) >= 0 && constant.Compare(pv, token.EQL, constant.BinaryOp(cv, token.SUB, one))
	case p.Op == token.MUL && c.Op == token.SHL: // x * 2^k  ==  x << k   (wrap-around included)
		k := pow2(pv)
		ok = k >= 0 && constant.Compare(cv, token.EQL, constant.MakeInt64(int64(k)))
	case p.Op == token.SHL && c.Op == token.MUL:
		k := pow2(cv)
		ok = k >= 0 && constant.Compare(pv, token.EQL, constant.MakeInt64(int64(k)))
	case p.Op == token.QUO && c.Op == token.SHR && uns: // x / 2^k  ==  x >> k   (unsigned only)
		k := pow2(pv)
		ok = k >= 0 && constant.Compare(cv, token.EQL, constant.MakeInt64(int64(k)))
	case p.Op == token.SHR && c.Op == token.QUO && uns:
		k := pow2(cv)
		ok = k >= 0 && constant.Compare(pv, token.EQL, constant.MakeInt64(int64(k)))
	case uns && ((p.Op == token.GTR && c.Op == token.NEQ) || (p.Op == token.NEQ && c.Op == token.GTR)): // x > 0  ==  x != 0
		ok = constant.Sign(pv) == 0 && constant.Sign(cv) == 0
	}
	if !ok || !m.eq(p.X, c.X) {
		return false
	}
	// the pattern's spelling over the candidate's left operand, typed like the candidate
	yT := m.pi.info.Types[c.Y].Type
	if p.Op != token.SHL && p.Op != token.SHR {
		yT = m.pi.info.Types[c.X].Type // both operands of an arithmetic / comparison operator share the type
	} else if c.Op != token.SHL && c.Op != token.SHR {
		yT = types.Typ[types.Uint] // a shift count
	}
	y := &ast.BasicLit{Kind: token.INT, Value: pv.ExactString()}
	m.pi.info.Types[y] = types.TypeAndValue{Type: yT, Value: pv}
	syn := &ast.BinaryExpr{X: c.X, Op: p.Op, Y: y}
	m.pi.info.Types[syn] = m.pi.info.Types[c]
	m.repl[c] = syn
	return true
}
