package main

func init() { register("tree", treeSpecs()) }

// Kernels of z/btree.go (C10, C16).  The layout arithmetic and every decision
// point of the node / tree operations; the recursion structure is hand-modelled
// in lean/RV/Model/Tree.lean and calls these.
func treeSpecs() []Spec {
	o := "Tree"
	z := "z"
	return []Spec{
		// constants and layout
		{Kind: KConst, Pkg: z, Match: "absoluteMax", Lean: "absoluteMax", Out: o},
		{Kind: KConst, Pkg: z, Match: "minSize", Lean: "minSize", Out: o},
		{Kind: KConst, Pkg: z, Match: "bitLeaf", Lean: "bitLeaf", Out: o},
		// every page handed out is wiped, and Reset wipes the whole backing buffer: the model's
		// pages are empty when allocated (hand-modelled; the order of these statements is the content)
		{Kind: KPin, Pkg: z, Func: "Tree.newNode", Match: "n := t.node(pageId); if t.freePage > 0 { t.freePage = n.uint64(0) }; zeroOut(n); n.setBit(bit); n.setAt(keyOffset(maxKeys), pageId); return n", Lean: "pinNewNodeWipes", Out: o},
		// (only the wiping prefix is pinned: the order of the scalar resets that follow is immaterial, they
		// are compared after every Reset by the tree / treem validators and Tree.Reset is generated whole)
		{Kind: KPin, Pkg: z, Func: "Tree.Reset", Match: "Memclr(t.buffer.buf); t.buffer.Reset(); t.buffer.AllocateOffset(minSize); t.data = t.buffer.Bytes()", Lean: "pinResetWipes", Out: o},
		{Kind: KFunc, Pkg: z, Func: "keyOffset", Lean: "keyOffset", Out: o},
		{Kind: KFunc, Pkg: z, Func: "valOffset", Lean: "valOffset", Out: o},
		// meta word: | bits (1 byte) | 3 free bytes | numKeys (4 bytes) |
		{Kind: KExpr, Pkg: z, Func: "node.numKeys", Match: "n.uint64(valOffset(maxKeys)) & 0xFFFFFFFF", Lean: "numKeysOfMeta", Out: o},
		{Kind: KExpr, Pkg: z, Func: "node.setNumKeys", Match: "0xFFFFFFFF00000000", Lean: "setNumKeysKeep", Out: o},
		{Kind: KExpr, Pkg: z, Func: "node.setNumKeys", Match: "uint64(num)", Lean: "setNumKeysNum", Out: o},
		{Kind: KExpr, Pkg: z, Func: "node.setBit", Match: "0xFFFFFFFF", Lean: "setBitKeep", Out: o},
		{Kind: KExpr, Pkg: z, Func: "node.bits", Match: "n.val(maxKeys) & 0xFF00000000000000", Lean: "bitsOfMeta", Out: o},
		{Kind: KExpr, Pkg: z, Func: "node.isLeaf", Match: "n.bits()&bitLeaf > 0", Lean: "isLeaf", Out: o},
		{Kind: KExpr, Pkg: z, Func: "node.isFull", Match: "n.numKeys() == maxKeys", Lean: "isFull", Out: o},
		{Kind: KExpr, Pkg: z, Func: "node.maxKey", Match: "idx > 0", Lean: "maxKeyDec", Out: o},
		// search (small-node loop; simd.Search is specified to agree, C20)
		{Kind: KExpr, Pkg: z, Func: "node.search", Match: "ki >= k", Lean: "searchHit", Out: o},
		// node.get
		{Kind: KExpr, Pkg: z, Func: "node.get", Match: "idx == n.numKeys()", Lean: "getMiss", Out: o},
		{Kind: KExpr, Pkg: z, Func: "node.get", Match: "ki == k", Lean: "getHit", Out: o},
		// node.set
		{Kind: KExpr, Pkg: z, Func: "node.set", Match: "n.numKeys() == maxKeys", Lean: "setFull", Out: o},
		{Kind: KExpr, Pkg: z, Func: "node.set", Match: "ki == k", Lean: "setFullAssert", Out: o},
		{Kind: KExpr, Pkg: z, Func: "node.set", Match: "ki > k", Lean: "setMove", Out: o},
		{Kind: KExpr, Pkg: z, Func: "node.set", Match: "ki != k", Lean: "setIsNew", Out: o},
		{Kind: KExpr, Pkg: z, Func: "node.set", Match: "ki == 0 || ki >= k", Lean: "setWrite", Out: o},
		{Kind: KExpr, Pkg: z, Func: "node.moveRight", Match: "hi != maxKeys", Lean: "moveRightAssert", Out: o},
		// node.compact
		{Kind: KExpr, Pkg: z, Func: "node.compact", Match: "n.val(right) < lo && n.key(right) < mk", Lean: "compactSkip", Out: o},
		{Kind: KExpr, Pkg: z, Func: "node.compact", Match: "left > 0 && n.key(left-1) == mk && n.val(left-1) < lo", Lean: "compactPlaceholder", Out: o},
		{Kind: KExpr, Pkg: z, Func: "node.compact", Match: "left == 1 && n.key(0) == mk && n.val(0) < lo", Lean: "compactDroppable", Out: o},
		// Tree.Set / Tree.set / Tree.Get / Tree.get
		{Kind: KExpr, Pkg: z, Func: "Tree.Set", Match: "k == math.MaxUint64 || k == 0", Lean: "setKeyPanic", Out: o},
		{Kind: KExpr, Pkg: z, Func: "Tree.Get", Match: "k == math.MaxUint64 || k == 0", Lean: "getKeyPanic", Out: o},
		{Kind: KExpr, Pkg: z, Func: "Tree.set", Match: "idx >= maxKeys", Lean: "setIdxPanic", Out: o},
		{Kind: KExpr, Pkg: z, Func: "Tree.set", Match: "n.key(idx) == 0", Lean: "setSlotEmpty", Out: o},
		{Kind: KExpr, Pkg: z, Func: "Tree.get", Match: "idx == n.numKeys() || n.key(idx) == 0", Lean: "getNoChild", Out: o},
		// Tree.compact / DeleteBelow
		{Kind: KExpr, Pkg: z, Func: "Tree.compact", Match: "rem == 0 && i < N-1", Lean: "compactDropChild", Out: o},
		{Kind: KExpr, Pkg: z, Func: "Tree.compact", Match: "n.key(i) > 0", Lean: "compactKeyAssert", Out: o},
		{Kind: KExpr, Pkg: z, Func: "Tree.DeleteBelow", Match: "root.numKeys() >= 1", Lean: "deleteBelowAssert", Out: o},
		// IterateKV
		{Kind: KExpr, Pkg: z, Func: "Tree.IterateKV", Match: "val == 0", Lean: "iterSkip", Out: o},
		{Kind: KExpr, Pkg: z, Func: "Tree.IterateKV", Match: "newVal != 0", Lean: "iterWrite", Out: o},
		{Kind: KExpr, Pkg: z, Func: "Tree.iterate", Match: "n.key(i) == 0", Lean: "iterStop", Out: o},
		// split
		{Kind: KExpr, Pkg: z, Func: "Tree.split", Match: "maxKeys / 2", Nth: 1, Lean: "splitFrom", Out: o},
		{Kind: KExpr, Pkg: z, Func: "Tree.split", Match: "maxKeys - maxKeys/2", Lean: "splitRightCount", Out: o},
		{Kind: KExpr, Pkg: z, Func: "Tree.split", Match: "maxKeys / 2", Nth: 3, Lean: "splitLeftCount", Out: o},
		// newNode (page allocator)
		{Kind: KExpr, Pkg: z, Func: "Tree.newNode", Match: "t.freePage > 0", Nth: 1, Lean: "newNodeUseFree", Out: o},
		{Kind: KExpr, Pkg: z, Func: "Tree.newNode", Match: "t.freePage > 0", Nth: 2, Lean: "newNodePopFree", Out: o},
		{Kind: KExpr, Pkg: z, Func: "Tree.newNode", Match: "int(pageId) * pageSize", Lean: "newNodeOffset", Out: o},
		{Kind: KExpr, Pkg: z, Func: "Tree.newNode", Match: "offset + pageSize", Lean: "newNodeReqSize", Out: o},
		{Kind: KExpr, Pkg: z, Func: "Tree.newNode", Match: "reqSize > len(t.data)", Lean: "newNodeGrow", Out: o},
		{Kind: KExpr, Pkg: z, Func: "Tree.newNode", Match: "reqSize - len(t.data)", Lean: "newNodeGrowBy", Out: o},
		// Stats
		{Kind: KExpr, Pkg: z, Func: "Tree.Stats", Match: "int(t.nextPage - 1)", Lean: "statsNumPages", Out: o},
		{Kind: KExpr, Pkg: z, Func: "Tree.Stats", Match: "numPages * pageSize", Lean: "statsBytes", Out: o},
		// reinit / NewTreePersistent
		{Kind: KExpr, Pkg: z, Func: "Tree.reinit", Match: "(int(t.nextPage)+1)*pageSize <= len(t.data)", Lean: "reinitFits", Out: o},
		{Kind: KExpr, Pkg: z, Func: "Tree.reinit", Match: "n.pageID() == 0", Lean: "reinitUnused", Out: o},
		{Kind: KExpr, Pkg: z, Func: "Tree.reinit", Match: "t.nextPage - 1", Lean: "reinitMaxPage", Out: o},
		{Kind: KExpr, Pkg: z, Func: "Tree.reinit", Match: "nextPageId != 0", Lean: "reinitHasNext", Out: o},
		{Kind: KExpr, Pkg: z, Func: "NewTreePersistent", Match: "root.pageID() != 0", Lean: "isInitialized", Out: o},
		// Buffer growth as used by the tree (AllocateOffset -> Grow)
		{Kind: KExpr, Pkg: z, Func: "Buffer.Grow", Match: "int(b.offset)+n < b.curSz", Lean: "growNotNeeded", Out: o},
		{Kind: KExpr, Pkg: z, Func: "Buffer.Grow", Match: "b.curSz + n", Lean: "growBy", Out: o},
		{Kind: KExpr, Pkg: z, Func: "Buffer.Grow", Match: "growBy > 1<<30", Lean: "growCapped", Out: o},
		{Kind: KExpr, Pkg: z, Func: "Buffer.Grow", Match: "n > growBy", Lean: "growAtLeast", Out: o},
	}
}
