package main

// lfu_stmt.go — functions, statements and loops of lfu.go.

import (
	"fmt"
	"go/ast"
	"go/token"
	"go/types"
	"strings"
)

func (g *lxGen) translateFn(me *lxMethod) (string, error) {
	fd := me.fd
	info := g.pi.info
	mkParam := func(id *ast.Ident, tyExpr ast.Expr) (*lxParam, error) {
		obj := info.Defs[id]
		if obj == nil {
			return nil, fmt.Errorf("parameter %s has no type", id.Name)
		}
		var t *lxT
		if x := g.externOfTypeExpr(tyExpr); x != nil {
			t = &lxT{k: lkExtern, ext: x, lean: x.lean}
		} else {
			var err error
			t, err = g.ltype(obj.Type())
			if err != nil {
				return nil, fmt.Errorf("parameter %s: %v", id.Name, err)
			}
		}
		if t.k == lkNilOnly || t.k == lkMap {
			return nil, fmt.Errorf("parameter %s of type %s outside the subset", id.Name, obj.Type())
		}
		return &lxParam{obj: obj, name: lxIdent(id.Name), t: t}, nil
	}
	if fd.Recv != nil && len(fd.Recv.List) == 1 {
		if len(fd.Recv.List[0].Names) != 1 || fd.Recv.List[0].Names[0].Name == "_" {
			return "", fmt.Errorf("unnamed receiver")
		}
		p, err := mkParam(fd.Recv.List[0].Names[0], fd.Recv.List[0].Type)
		if err != nil {
			return "", err
		}
		if p.t.k != lkStruct && p.t.k != lkArr {
			return "", fmt.Errorf("receiver type outside the subset")
		}
		me.recv = p
	}
	for _, f := range fd.Type.Params.List {
		if len(f.Names) == 0 {
			return "", fmt.Errorf("unnamed parameter")
		}
		for _, n := range f.Names {
			p, err := mkParam(n, f.Type)
			if err != nil {
				return "", err
			}
			me.params = append(me.params, p)
		}
	}
	if fd.Type.Results != nil {
		for _, f := range fd.Type.Results.List {
			if len(f.Names) > 0 {
				return "", fmt.Errorf("named results outside the subset")
			}
			tv := info.Types[f.Type]
			t, err := g.ltype(tv.Type)
			if err != nil {
				return "", fmt.Errorf("result type: %v", err)
			}
			if t.k == lkMap || t.k == lkNilOnly || t.k == lkExtern {
				return "", fmt.Errorf("result type %s outside the subset", tv.Type)
			}
			me.results = append(me.results, t)
		}
	}
	var body string
	var aux []string
	for pass := 0; pass < 2; pass++ {
		me.ctorParams = nil
		m := &lx{g: g, me: me, env: map[types.Object]string{}, ty: map[types.Object]*lxT{}, alias: map[types.Object]*lxPath{},
			freshObj: map[types.Object]bool{}, reassigned: map[types.Object]bool{}, subst: map[ast.Expr]lxVal{}, nameTy: map[string]string{}}
		m.c = &ctx{pi: g.pi, env: map[types.Object]string{}, hook: m.hook}
		m.effsObj = types.NewVar(token.NoPos, g.pi.pkg, "effs", types.Typ[types.Invalid])
		m.orcObj = types.NewVar(token.NoPos, g.pi.pkg, "orc", types.Typ[types.Invalid])
		m.env[m.effsObj], m.nameTy["effs_0"] = "effs_0", "List Eff"
		m.env[m.orcObj], m.nameTy["orc"] = "orc", "GenL.Orc"
		all := []*lxParam{}
		if me.recv != nil {
			all = append(all, me.recv)
		}
		all = append(all, me.params...)
		for _, p := range all {
			m.env[p.obj] = p.name
			m.ty[p.obj] = p.t
			m.nameTy[p.name] = p.t.lean
		}
		m.nameTy["zeroV"], m.nameTy["fuel"] = "V", "Nat"
		for _, x := range g.externs {
			m.nameTy[x.opsVar] = x.ops + " " + x.lean
		}
		var err error
		body, err = m.block(fd.Body.List, "  ", func() (string, error) { return m.ret(nil, "  ", nil) })
		if err != nil {
			return "", err
		}
		aux = m.aux
	}
	// signature
	var sig strings.Builder
	if me.needsZero {
		sig.WriteString(" (zeroV : V)")
	}
	for _, x := range me.exts {
		fmt.Fprintf(&sig, " (%s : %s %s)", x.opsVar, lxQual(x.mod, x.ops), x.lean)
	}
	if me.needsFuel {
		sig.WriteString(" (fuel : Nat)")
	}
	all := []*lxParam{}
	if me.recv != nil {
		all = append(all, me.recv)
	}
	all = append(all, me.params...)
	for _, p := range all {
		fmt.Fprintf(&sig, " (%s : %s)", p.name, p.t.lean)
	}
	for _, cp := range me.ctorParams {
		fmt.Fprintf(&sig, " (%s : %s)", cp.name, cp.ext.lean)
	}
	if me.usesOrc {
		sig.WriteString(" (orc : GenL.Orc)")
	}
	fmt.Fprintf(&sig, " : %s", me.resType())
	var b strings.Builder
	for _, a := range aux {
		b.WriteString(a)
	}
	kind := "whole method"
	if me.recv == nil {
		kind = "whole function"
	}
	comps := []string{}
	if me.recv != nil && me.recv.written {
		comps = append(comps, "receiver'")
	}
	for _, p := range me.params {
		if p.written {
			comps = append(comps, p.name+"'")
		}
	}
	for i := range me.results {
		comps = append(comps, fmt.Sprintf("result%d", i+1))
	}
	if me.hasEffs {
		comps = append(comps, "effects")
	}
	if me.usesOrc {
		comps = append(comps, "oracle'")
	}
	fmt.Fprintf(&b, "/-- %s (%s, state-passing); returns (%s) -/\ndef %s", me.qual, kind, strings.Join(comps, ", "), me.lean)
	for _, tp := range g.typeParamsIn(sig.String()) {
		fmt.Fprintf(&b, " {%s : Type}", tp)
	}
	b.WriteString(sig.String() + " :=\n")
	if me.hasEffs {
		b.WriteString("  let effs_0 : List Eff := []\n")
	}
	b.WriteString(body + "\n")
	return b.String(), nil
}

func lxQual(mod, name string) string { return "Gen." + mod + "." + name }

// retTuple: the result tuple at a return with the given (already rendered) result values.
func (m *lx) retTuple(vals []string) string {
	parts := []string{}
	if m.me.recv != nil && m.me.recv.written {
		parts = append(parts, m.env[m.me.recv.obj])
	}
	for _, p := range m.me.params {
		if p.written {
			parts = append(parts, m.env[p.obj])
		}
	}
	parts = append(parts, vals...)
	if m.me.hasEffs {
		parts = append(parts, m.env[m.effsObj])
	}
	if m.me.usesOrc {
		parts = append(parts, m.env[m.orcObj])
	}
	return tuple(parts)
}

func (m *lx) wrapOk(v string) string {
	if m.me.partial {
		return "GenL.Res.ok " + atom(v)
	}
	return v
}

// ret renders `return results…` (b: what was bound so far for this statement).
func (m *lx) ret(results []ast.Expr, ind string, b *strings.Builder) (string, error) {
	if len(results) != len(m.me.results) {
		return "", fmt.Errorf("return with %d results, expected %d", len(results), len(m.me.results))
	}
	var lb strings.Builder
	if b == nil {
		b = &lb
	}
	m.subst = map[ast.Expr]lxVal{}
	vals := []string{}
	for i, r := range results {
		if isNilIdent(unparen(r)) {
			z, err := m.g.zeroOf(m.me.results[i], &m.me.needsZero)
			if err != nil || m.me.results[i].k != lkArr {
				return "", fmt.Errorf("return of nil for %s outside the subset", m.me.results[i].lean)
			}
			vals = append(vals, z)
			continue
		}
		s, _, err := m.value(r, ind, b)
		if err != nil {
			return "", err
		}
		vals = append(vals, s)
	}
	v := m.retTuple(vals)
	if m.loop != nil {
		if !m.loop.jumps {
			return "", fmt.Errorf("return inside a loop that was classified as jump-free (internal)")
		}
		return b.String() + ind + "GenL.Res.ok (GenL.LoopOut.ret " + atom(v) + ")", nil
	}
	return b.String() + ind + m.wrapOk(v), nil
}

func (m *lx) sigmaTuple(objs []types.Object) string {
	names := []string{}
	for _, o := range objs {
		names = append(names, m.env[o])
	}
	return tuple(names)
}

func lxSigmaType(m *lx, objs []types.Object) string {
	tys := []string{}
	for _, o := range objs {
		tys = append(tys, atom(m.tyText(o)))
	}
	if len(tys) == 0 {
		return "Unit"
	}
	if len(tys) == 1 {
		return m.tyText(objs[0])
	}
	return strings.Join(tys, " × ")
}

func lxElse(x *ast.IfStmt) []ast.Stmt {
	switch e := x.Else.(type) {
	case *ast.BlockStmt:
		return e.List
	case *ast.IfStmt:
		return []ast.Stmt{e}
	}
	return nil
}

// lxJumps: does the statement list leave the enclosing loop round or function?
func lxJumps(stmts []ast.Stmt) bool {
	found := false
	for _, s := range stmts {
		ast.Inspect(s, func(n ast.Node) bool {
			switch x := n.(type) {
			case *ast.ReturnStmt:
				found = true
			case *ast.BranchStmt:
				found = true
			case *ast.CallExpr:
				if id, ok := x.Fun.(*ast.Ident); ok && id.Name == "panic" {
					found = true
				}
			case *ast.ForStmt, *ast.RangeStmt:
				if containsReturn([]ast.Stmt{x.(ast.Stmt)}) {
					found = true
				}
				return false
			}
			return !found
		})
	}
	return found
}

func (m *lx) block(stmts []ast.Stmt, ind string, k func() (string, error)) (string, error) {
	if len(stmts) == 0 {
		return k()
	}
	st, rest := stmts[0], stmts[1:]
	next := func() (string, error) { return m.block(rest, ind, k) }
	var b strings.Builder
	seq := func(err error) (string, error) {
		if err != nil {
			return "", err
		}
		r, err := next()
		return b.String() + r, err
	}
	m.subst = map[ast.Expr]lxVal{}
	switch x := st.(type) {
	case *ast.EmptyStmt:
		return next()
	case *ast.BlockStmt:
		return m.block(append(append([]ast.Stmt{}, x.List...), rest...), ind, k)
	case *ast.ReturnStmt:
		return m.ret(x.Results, ind, nil)
	case *ast.DeferStmt:
		if ci := m.classify(x.Call); ci != nil && ci.kind == lcSkip {
			return next()
		}
		return "", fmt.Errorf("defer %q outside the subset", m.src(x.Call))
	case *ast.BranchStmt:
		if x.Label != nil || m.loop == nil || !m.loop.jumps {
			return "", fmt.Errorf("%s outside the subset here", x.Tok)
		}
		switch x.Tok {
		case token.CONTINUE:
			return ind + "GenL.Res.ok (GenL.LoopOut.next " + atom(m.sigmaTuple(m.loop.sigma)) + ")", nil
		case token.BREAK:
			return ind + "GenL.Res.ok (GenL.LoopOut.brk " + atom(m.sigmaTuple(m.loop.sigma)) + ")", nil
		}
		return "", fmt.Errorf("%s outside the subset", x.Tok)
	case *ast.ExprStmt:
		call, ok := x.X.(*ast.CallExpr)
		if !ok {
			return "", fmt.Errorf("statement %q outside the subset", m.src(st))
		}
		if id, ok := call.Fun.(*ast.Ident); ok && id.Name == "panic" {
			m.me.partial = true
			m.nbinds++
			return ind + "GenL.Res.panic", nil
		}
		return seq(m.callStmt(call, nil, false, ind, &b))
	case *ast.DeclStmt:
		return seq(m.declStmt(x, ind, &b))
	case *ast.AssignStmt:
		return seq(m.assign(x, ind, &b))
	case *ast.IncDecStmt:
		op := token.ADD
		if x.Tok == token.DEC {
			op = token.SUB
		}
		return seq(m.opAssign(x.X, op, nil, ind, &b))
	case *ast.IfStmt:
		if x.Init != nil {
			x2 := *x
			x2.Init = nil
			return m.block(append([]ast.Stmt{x.Init, &x2}, rest...), ind, k)
		}
		return m.ifStmt(x, ind, next)
	case *ast.SwitchStmt:
		if x.Tag == nil && x.Init == nil {
			if ifs := switchAsIf(x); ifs != nil {
				return m.ifStmt(ifs, ind, next)
			}
		}
	case *ast.RangeStmt:
		return m.rangeStmt(x, ind, next)
	case *ast.ForStmt:
		return m.forStmt(x, ind, next)
	}
	return "", fmt.Errorf("statement %q outside the subset", m.src(st))
}

func (m *lx) declStmt(x *ast.DeclStmt, ind string, b *strings.Builder) error {
	gd, ok := x.Decl.(*ast.GenDecl)
	if !ok || gd.Tok != token.VAR {
		return fmt.Errorf("declaration outside the subset")
	}
	for _, sp := range gd.Specs {
		vs := sp.(*ast.ValueSpec)
		for i, n := range vs.Names {
			obj := m.g.pi.info.Defs[n]
			if i < len(vs.Values) {
				if err := m.assignOne(n, true, vs.Values[i], ind, b); err != nil {
					return err
				}
				continue
			}
			t, err := m.g.ltype(obj.Type())
			if err != nil {
				return err
			}
			val, err := m.g.zeroOf(t, &m.me.needsZero)
			if err != nil {
				return err
			}
			m.bindLocal(obj, n.Name, t, val, ind, b)
		}
	}
	return nil
}

func (m *lx) bindLocal(obj types.Object, base string, t *lxT, val, ind string, b *strings.Builder) {
	nm := m.freshName(base)
	m.let(b, ind, nm, t.lean, val)
	m.env[obj] = nm
	m.ty[obj] = t
	delete(m.alias, obj)
}

// storeLocal assigns val (of type t) to the variable id.
func (m *lx) storeLocal(id *ast.Ident, define bool, val string, t *lxT, ind string, b *strings.Builder) error {
	if id.Name == "_" {
		return nil
	}
	obj := m.objOf(id)
	if obj == nil {
		return fmt.Errorf("unknown variable %s", id.Name)
	}
	if _, known := m.env[obj]; !known && m.g.pi.info.Defs[id] == nil {
		return fmt.Errorf("assignment to the non-local %s", id.Name)
	}
	if m.me.recv != nil && obj == m.me.recv.obj {
		return fmt.Errorf("assignment to the receiver variable")
	}
	for _, p := range m.me.params {
		if p.obj == obj {
			if p.t.k == lkStruct || p.t.k == lkExtern {
				return fmt.Errorf("assignment to the parameter %s", id.Name)
			}
			if p.t.k == lkArr {
				if p.written {
					return fmt.Errorf("the parameter %s is assigned as a whole after its elements were written", id.Name)
				}
				m.reassigned[obj] = true
			}
		}
	}
	if _, isAlias := m.alias[obj]; isAlias {
		return fmt.Errorf("assignment to the range variable %s, which aliases an element", id.Name)
	}
	switch t.k {
	case lkExtern, lkNilOnly, lkMap:
		return fmt.Errorf("local %s of type %s outside the subset", id.Name, t.lean)
	}
	m.bindLocal(obj, id.Name, t, val, ind, b)
	return nil
}

// sliceSource checks the slice discipline for `lhs = rhs` where rhs is slice-valued.
func (m *lx) sliceSource(lhs *ast.Ident, rhs ast.Expr) error {
	self := func(e ast.Expr) bool {
		id, ok := unparen(e).(*ast.Ident)
		return ok && lhs != nil && m.objOf(id) == m.objOf(lhs)
	}
	switch r := unparen(rhs).(type) {
	case *ast.Ident:
		if r.Name == "nil" {
			return nil
		}
	case *ast.SliceExpr:
		if self(r.X) {
			return nil
		}
	case *ast.CallExpr:
		ci := m.classify(r)
		if ci == nil {
			break
		}
		if ci.kind == lcBuiltin && ci.builtin == "make" {
			return nil
		}
		if ci.kind == lcBuiltin && ci.builtin == "append" && len(r.Args) >= 1 && self(r.Args[0]) {
			return nil
		}
		if ci.kind == lcCallee {
			for _, a := range r.Args {
				if at, err := m.typeOf(a); err == nil && at.k == lkArr && !self(a) {
					return fmt.Errorf("%q: the slice argument %q could share its backing array with the result", m.src(rhs), m.src(a))
				}
			}
			return nil
		}
	}
	return fmt.Errorf("slice value %q assigned to another variable: possible aliasing, outside the subset", m.src(rhs))
}

// assignOne: `lhs = rhs` / `lhs := rhs` for one pair.
func (m *lx) assignOne(lhs ast.Expr, define bool, rhs ast.Expr, ind string, b *strings.Builder) error {
	// `x := rand.New(...)`: an abstract extern object, received as the parameter x_new
	if call, ok := unparen(rhs).(*ast.CallExpr); ok {
		if ci := m.classify(call); ci != nil && ci.kind == lcExternCtor {
			id, isId := unparen(lhs).(*ast.Ident)
			if !isId || !define || id.Name == "_" || m.loop != nil {
				return fmt.Errorf("extern constructor %q outside the subset (want x := ctor(...) outside loops)", m.src(rhs))
			}
			name := lxIdent(id.Name) + "_new"
			for _, cp := range m.me.ctorParams {
				if cp.name == name {
					return fmt.Errorf("two extern objects named %s", id.Name)
				}
			}
			m.me.ctorParams = append(m.me.ctorParams, lxCtorParam{name, ci.ext})
			m.me.addExt(ci.ext)
			m.nameTy[name] = ci.ext.lean
			m.bindLocal(m.objOf(id), id.Name, &lxT{k: lkExtern, ext: ci.ext, lean: ci.ext.lean}, name, ind, b)
			return nil
		}
	}
	// a call that changes state, as the whole right-hand side
	if call, ok := unparen(rhs).(*ast.CallExpr); ok {
		if ci := m.classify(call); ci != nil && (ci.kind == lcCallee && ci.callee.err == nil && (ci.callee.stateful() || len(ci.callee.results) != 1) ||
			ci.kind == lcExtern && ci.em.mutates) {
			return m.callStmt(call, []ast.Expr{lhs}, define, ind, b)
		}
	}
	lid, isIdent := unparen(lhs).(*ast.Ident)
	// slice-valued right-hand sides
	if rt, err := m.typeOf(rhs); err == nil && rt.k == lkArr || isNilIdent(unparen(rhs)) {
		if !isIdent {
			if _, isIdx := unparen(lhs).(*ast.IndexExpr); !isIdx {
				// field := slice value: only fresh values
				if err := m.sliceSource(nil, rhs); err != nil {
					return err
				}
			}
		} else if err := m.sliceSource(lid, rhs); err != nil {
			return err
		}
		switch r := unparen(rhs).(type) {
		case *ast.Ident: // nil
			lt, err := m.typeOf(lhs)
			if err != nil || lt.k != lkArr {
				return fmt.Errorf("assignment of nil to %q outside the subset", m.src(lhs))
			}
			z, _ := m.g.zeroOf(&lxT{k: lkArr, elem: lt.elem, fixed: -1, lean: lt.lean}, &m.me.needsZero)
			return m.storeTo(lhs, define, z, lt, ind, b)
		case *ast.SliceExpr:
			if r.Low != nil || r.Slice3 || r.High == nil {
				return fmt.Errorf("slice expression %q outside the subset (want x[:hi])", m.src(rhs))
			}
			a, at, err := m.value(r.X, ind, b)
			if err != nil {
				return err
			}
			hi, _, err := m.value(r.High, ind, b)
			if err != nil {
				return err
			}
			nm := m.freshName(lid.Name)
			m.bindM(b, ind, fmt.Sprintf("GenL.takeTo %s %s", atom(a), atom(hi)), nm, at.lean)
			return m.storeTo(lhs, define, nm, at, ind, b)
		case *ast.CallExpr:
			if ci := m.classify(r); ci != nil && ci.kind == lcBuiltin && ci.builtin == "append" {
				if len(r.Args) != 2 || r.Ellipsis != token.NoPos {
					return fmt.Errorf("%q outside the subset (want append(x, v))", m.src(rhs))
				}
				a, at, err := m.value(r.Args[0], ind, b)
				if err != nil {
					return err
				}
				v, _, err := m.value(r.Args[1], ind, b)
				if err != nil {
					return err
				}
				return m.storeTo(lhs, define, fmt.Sprintf("%s.push %s", atom(a), atom(v)), at, ind, b)
			}
		}
	}
	val, t, err := m.value(rhs, ind, b)
	if err != nil {
		return err
	}
	if isIdent && t.k == lkStruct {
		// a local holding a struct: fresh literal (writable) or a copy of an immutable value
		if err := m.storeLocal(lid, define, val, t, ind, b); err != nil {
			return err
		}
		_, isLit := unparen(rhs).(*ast.CompositeLit)
		if u, ok := unparen(rhs).(*ast.UnaryExpr); ok && u.Op == token.AND {
			_, isLit = unparen(u.X).(*ast.CompositeLit)
		}
		if isLit && lid.Name != "_" {
			m.freshObj[m.objOf(lid)] = true
		}
		return nil
	}
	return m.storeTo(lhs, define, val, t, ind, b)
}

// storeTo assigns an already rendered value to an assignable expression.
func (m *lx) storeTo(l ast.Expr, define bool, val string, t *lxT, ind string, b *strings.Builder) error {
	switch lx := unparen(l).(type) {
	case *ast.Ident:
		return m.storeLocal(lx, define, val, t, ind, b)
	case *ast.IndexExpr:
		if bt, err := m.typeOf(lx.X); err == nil && bt.k == lkMap {
			k, _, err := m.value(lx.Index, ind, b)
			if err != nil {
				return err
			}
			p, err := m.resolvePath(lx.X, ind, b)
			if err != nil {
				return err
			}
			return m.writePath(p, fmt.Sprintf("%s.insert %s %s", atom(m.pathText(p)), atom(k), atom(val)), ind, b)
		}
	}
	p, err := m.resolvePath(l, ind, b)
	if err != nil {
		return err
	}
	if len(p.fields) == 0 && p.idx == "" {
		return fmt.Errorf("assignment target %q outside the subset", m.src(l))
	}
	if p.t != nil && (p.t.k == lkExtern || p.t.k == lkNilOnly || p.t.k == lkStruct && p.t.ptr) && p.idx == "" {
		return fmt.Errorf("assignment to the reference field %q outside the subset", m.src(l))
	}
	return m.writePath(p, val, ind, b)
}

var lxAssignOps = map[token.Token]token.Token{
	token.ADD_ASSIGN: token.ADD, token.SUB_ASSIGN: token.SUB, token.MUL_ASSIGN: token.MUL,
	token.QUO_ASSIGN: token.QUO, token.REM_ASSIGN: token.REM, token.AND_ASSIGN: token.AND,
	token.OR_ASSIGN: token.OR, token.XOR_ASSIGN: token.XOR, token.SHL_ASSIGN: token.SHL,
	token.SHR_ASSIGN: token.SHR, token.AND_NOT_ASSIGN: token.AND_NOT,
}

// opAssign: `lhs op= rhs`; rhs == nil means the literal 1 (`++` / `--`).
func (m *lx) opAssign(lhs ast.Expr, op token.Token, rhs ast.Expr, ind string, b *strings.Builder) error {
	var p *lxPath
	var cur string
	var lt *lxT
	if id, ok := unparen(lhs).(*ast.Ident); ok && m.alias[m.objOf(id)] == nil {
		s, t, err := m.expr(id)
		if err != nil {
			return err
		}
		cur, lt = s, t
	} else {
		var err error
		p, err = m.resolvePath(lhs, ind, b) // the index operand is evaluated once
		if err != nil {
			return err
		}
		cur, err = m.readPath(p, "t", ind, b)
		if err != nil {
			return err
		}
		lt = p.t
	}
	if lt == nil || lt.k != lkScalar || lt.l.kind != "bv" {
		return fmt.Errorf("op-assignment on %q outside the subset", m.src(lhs))
	}
	var val string
	var err error
	if rhs == nil {
		val, err = m.c.binText(op, cur, lt.l, fmt.Sprintf("1#%d", lt.l.w), lt.l)
	} else {
		if err := m.hoist(rhs, ind, b); err != nil {
			return err
		}
		// render `cur op rhs` through main.go so that shifts / untyped constants get Go's typing
		ph := &ast.Ident{Name: "lhs_"}
		m.subst[ph] = lxVal{cur, lt}
		bin := &ast.BinaryExpr{X: ph, Op: op, Y: rhs}
		val, _, err = m.c.binary(bin)
		if err == nil {
			if tv := m.g.pi.info.Types[rhs]; tv.Value != nil && op != token.SHL && op != token.SHR {
				// an untyped constant operand takes the type of the left side
				lit, e2 := constLit(tv.Value, lt.l)
				if e2 == nil {
					val, err = m.c.binText(op, cur, lt.l, lit, lt.l)
				}
			}
		}
	}
	if err != nil {
		return err
	}
	if p == nil {
		return m.storeLocal(unparen(lhs).(*ast.Ident), false, val, lt, ind, b)
	}
	return m.writePath(p, val, ind, b)
}

func (m *lx) assign(x *ast.AssignStmt, ind string, b *strings.Builder) error {
	define := x.Tok == token.DEFINE
	if x.Tok != token.ASSIGN && x.Tok != token.DEFINE {
		op, ok := lxAssignOps[x.Tok]
		if !ok || len(x.Lhs) != 1 || len(x.Rhs) != 1 {
			return fmt.Errorf("assignment %q outside the subset", m.src(x))
		}
		return m.opAssign(x.Lhs[0], op, x.Rhs[0], ind, b)
	}
	if len(x.Lhs) == 2 && len(x.Rhs) == 1 {
		switch r := unparen(x.Rhs[0]).(type) {
		case *ast.IndexExpr:
			return m.commaOk(x.Lhs[0], x.Lhs[1], define, r, ind, b)
		case *ast.CallExpr:
			return m.callStmt(r, x.Lhs, define, ind, b)
		}
	}
	if len(x.Rhs) == 1 && len(x.Lhs) > 1 {
		if call, ok := unparen(x.Rhs[0]).(*ast.CallExpr); ok {
			return m.callStmt(call, x.Lhs, define, ind, b)
		}
	}
	if len(x.Lhs) != len(x.Rhs) {
		return fmt.Errorf("assignment %q outside the subset", m.src(x))
	}
	if len(x.Lhs) == 1 {
		return m.assignOne(x.Lhs[0], define, x.Rhs[0], ind, b)
	}
	// parallel assignment: all right-hand sides first
	vals := []string{}
	tys := []*lxT{}
	for _, r := range x.Rhs {
		s, t, err := m.value(r, ind, b)
		if err != nil {
			return err
		}
		if t.k != lkScalar {
			return fmt.Errorf("parallel assignment of non-scalar values %q outside the subset", m.src(x))
		}
		tn := m.freshName("t")
		m.let(b, ind, tn, t.lean, s)
		vals = append(vals, tn)
		tys = append(tys, t)
	}
	for i, l := range x.Lhs {
		if err := m.storeTo(l, define, vals[i], tys[i], ind, b); err != nil {
			return err
		}
	}
	return nil
}

func (m *lx) commaOk(lv, lok ast.Expr, define bool, r *ast.IndexExpr, ind string, b *strings.Builder) error {
	base, bt, err := m.value(r.X, ind, b)
	if err != nil {
		return err
	}
	if bt.k != lkMap {
		return fmt.Errorf("comma-ok on %q outside the subset", m.src(r))
	}
	k, _, err := m.value(r.Index, ind, b)
	if err != nil {
		return err
	}
	z, err := m.g.zeroOf(bt.val, &m.me.needsZero)
	if err != nil {
		return err
	}
	o := m.freshName("look")
	m.let(b, ind, o, "", fmt.Sprintf("%s.lookup %s", atom(base), atom(k)))
	if err := m.storeTo(lv, define, fmt.Sprintf("%s.getD %s", o, z), bt.val, ind, b); err != nil {
		return err
	}
	return m.storeTo(lok, define, o+".isSome", lxBoolT, ind, b)
}

// callStmt: a call in statement position or as the whole right-hand side (results bound to lhs).
func (m *lx) callStmt(call *ast.CallExpr, lhs []ast.Expr, define bool, ind string, b *strings.Builder) error {
	ci := m.classify(call)
	if ci == nil {
		return fmt.Errorf("call %q outside the subset", m.src(call))
	}
	switch ci.kind {
	case lcSkip:
		if len(lhs) > 0 {
			return fmt.Errorf("result of %q used", m.src(call))
		}
		return nil
	case lcBuiltin:
		if ci.builtin == "delete" && len(call.Args) == 2 && len(lhs) == 0 {
			k, _, err := m.value(call.Args[1], ind, b)
			if err != nil {
				return err
			}
			p, err := m.resolvePath(call.Args[0], ind, b)
			if err != nil {
				return err
			}
			if p.t == nil || p.t.k != lkMap {
				return fmt.Errorf("delete on %q outside the subset", m.src(call.Args[0]))
			}
			return m.writePath(p, fmt.Sprintf("%s.erase %s", atom(m.pathText(p)), atom(k)), ind, b)
		}
		return fmt.Errorf("builtin call %q outside the subset as a statement", m.src(call))
	case lcEffect:
		if len(lhs) > 0 {
			return fmt.Errorf("result of the effect %q used", m.src(call))
		}
		ef := ci.ef
		parts := []string{"Eff." + ef.ctor}
		if ef.recvPtr {
			p, err := m.resolvePath(ci.recv, ind, b)
			if err != nil || p.t == nil || p.t.k != lkNilOnly || p.idx != "" {
				return fmt.Errorf("receiver of the effect %q outside the subset", m.src(call))
			}
			parts = append(parts, m.pathText(p))
		}
		if len(call.Args) != len(ef.names) {
			return fmt.Errorf("argument count of %q", m.src(call))
		}
		for _, a := range call.Args {
			s, _, err := m.value(a, ind, b)
			if err != nil {
				return err
			}
			parts = append(parts, atom(s))
		}
		nm := m.freshName("effs")
		m.let(b, ind, nm, "List Eff", fmt.Sprintf("%s ++ [%s]", m.env[m.effsObj], strings.Join(parts, " ")))
		m.env[m.effsObj] = nm
		m.me.hasEffs = true
		return nil
	case lcExtern:
		m.me.addExt(ci.ext)
		em := ci.em
		if len(lhs) > 1 || (len(lhs) == 1 && em.res == nil) {
			return fmt.Errorf("%q: results bound to %d variables", m.src(call), len(lhs))
		}
		p, err := m.resolvePath(ci.recv, ind, b)
		if err != nil {
			return err
		}
		if p.idx != "" {
			return fmt.Errorf("extern receiver %q outside the subset", m.src(ci.recv))
		}
		parts := []string{ci.ext.opsVar + "." + em.name, m.pathText(p)}
		if len(call.Args) != len(em.params) {
			return fmt.Errorf("argument count of %q", m.src(call))
		}
		for _, a := range call.Args {
			s, _, err := m.value(a, ind, b)
			if err != nil {
				return err
			}
			parts = append(parts, atom(s))
		}
		txt := strings.Join(parts, " ")
		if !em.mutates {
			if len(lhs) == 1 {
				return m.storeTo(lhs[0], define, txt, em.res, ind, b)
			}
			return nil
		}
		r := m.freshName("r")
		if em.res != nil {
			m.let(b, ind, r, atom(ci.ext.lean)+" × "+atom(em.res.lean), txt)
			if err := m.writePath(p, r+".1", ind, b); err != nil {
				return err
			}
			if len(lhs) == 1 {
				return m.storeTo(lhs[0], define, r+".2", em.res, ind, b)
			}
			return nil
		}
		m.let(b, ind, r, ci.ext.lean, txt)
		return m.writePath(p, r, ind, b)
	case lcCallee:
		callee := ci.callee
		if callee.err != nil {
			return fmt.Errorf("call of %s: %v", callee.qual, callee.err)
		}
		if len(lhs) > 0 && len(lhs) != len(callee.results) {
			return fmt.Errorf("%q: %d results bound to %d variables", m.src(call), len(callee.results), len(lhs))
		}
		// locations that receive the written receiver / slice arguments (resolved before the call:
		// their index operands are evaluated first, as in Go)
		var recvPath *lxPath
		if callee.recv != nil && callee.recv.written {
			var err error
			recvPath, err = m.resolvePath(ci.recv, ind, b)
			if err != nil {
				return fmt.Errorf("%q: %v", m.src(call), err)
			}
		}
		argPaths := map[int]*lxPath{}
		for i, p := range callee.params {
			if p.written {
				ap, err := m.resolvePath(call.Args[i], ind, b)
				if err != nil {
					return fmt.Errorf("%q: %v", m.src(call), err)
				}
				argPaths[i] = ap
			}
		}
		var txt string
		var err error
		if recvPath != nil && recvPath.idx != "" {
			// read the element once, pass it as the receiver
			cur, err := m.readPath(recvPath, lastName(recvPath, recvPath.root), ind, b)
			if err != nil {
				return err
			}
			m.subst[unparen(ci.recv)] = lxVal{cur, recvPath.t}
			m.subst[ci.recv] = lxVal{cur, recvPath.t}
		}
		txt, err = m.buildCall(ci, call, ind, b)
		if err != nil {
			return err
		}
		comps := callee.compTypes()
		n := len(comps)
		if n == 0 {
			if callee.partial {
				m.bindM(b, ind, txt, "_", "Unit")
			}
			return nil
		}
		r := m.freshName("r")
		if callee.partial {
			m.bindM(b, ind, txt, r, callee.tupleType())
		} else {
			m.let(b, ind, r, "", txt)
			m.nameTy[r] = callee.tupleType()
		}
		i := 0
		if callee.recv != nil && callee.recv.written {
			if err := m.writePath(recvPath, proj(r, i, n), ind, b); err != nil {
				return err
			}
			i++
		}
		for j, p := range callee.params {
			if p.written {
				if err := m.writePath(argPaths[j], proj(r, i, n), ind, b); err != nil {
					return err
				}
				i++
			}
		}
		for j := range callee.results {
			if len(lhs) > 0 {
				rt := callee.results[j]
				if rt.k == lkArr {
					lid, _ := unparen(lhs[j]).(*ast.Ident)
					if err := m.sliceSource(lid, call); err != nil {
						return err
					}
				}
				if err := m.storeTo(lhs[j], define, proj(r, i, n), rt, ind, b); err != nil {
					return err
				}
			}
			i++
		}
		if callee.hasEffs {
			nm := m.freshName("effs")
			m.let(b, ind, nm, "List Eff", fmt.Sprintf("%s ++ %s", m.env[m.effsObj], proj(r, i, n)))
			m.env[m.effsObj] = nm
			m.me.hasEffs = true
			i++
		}
		if callee.usesOrc {
			nm := m.freshName("orc")
			m.let(b, ind, nm, "GenL.Orc", proj(r, i, n))
			m.env[m.orcObj] = nm
			m.me.usesOrc = true
			i++
		}
		return nil
	}
	return fmt.Errorf("call %q outside the subset as a statement", m.src(call))
}

// changed: variables whose binding differs from the saved state (in deterministic order).
func (m *lx) changed(saved *lxSaved, states ...map[types.Object]string) []types.Object {
	set := map[types.Object]bool{}
	for o, n := range saved.env {
		for _, st := range states {
			if st[o] != n {
				set[o] = true
			}
		}
	}
	return m.sortedObjs(set)
}

func (m *lx) copyEnv() map[types.Object]string {
	c := map[types.Object]string{}
	for k, v := range m.env {
		c[k] = v
	}
	return c
}

type lxMark struct {
	n, nloops, naux, nbinds int
}

func (m *lx) mark() lxMark { return lxMark{m.n, m.nloops, len(m.aux), m.nbinds} }
func (m *lx) reset(k lxMark) {
	m.n, m.nloops, m.aux, m.nbinds = k.n, k.nloops, m.aux[:k.naux], k.nbinds
}

func (m *lx) ifStmt(x *ast.IfStmt, ind string, next func() (string, error)) (string, error) {
	var b strings.Builder
	cond, ct, err := m.value(x.Cond, ind, &b)
	if err != nil {
		return "", err
	}
	if ct.k != lkScalar || ct.l.kind != "bool" {
		return "", fmt.Errorf("condition %q is not Boolean", m.src(x.Cond))
	}
	thenS, elseS := x.Body.List, lxElse(x)
	saved := m.save()
	if lxJumps(thenS) || lxJumps(elseS) {
		inner := func() (string, error) {
			s, err := next()
			return indent(s, "  "), err
		}
		tb, err := m.block(thenS, ind+"  ", inner)
		if err != nil {
			return "", err
		}
		m.restore(saved)
		eb, err := m.block(elseS, ind+"  ", inner)
		if err != nil {
			return "", err
		}
		return fmt.Sprintf("%s%sif %s then\n%s\n%selse\n%s", b.String(), ind, cond, tb, ind, eb), nil
	}
	// join: a dry run tells which variables the branches change
	mk := m.mark()
	if _, err := m.block(thenS, ind+"    ", func() (string, error) { return "", nil }); err != nil {
		return "", err
	}
	envT := m.copyEnv()
	m.restore(saved)
	if _, err := m.block(elseS, ind+"    ", func() (string, error) { return "", nil }); err != nil {
		return "", err
	}
	envE := m.copyEnv()
	m.restore(saved)
	m.reset(mk)
	keys := m.changed(saved, envT, envE)
	if len(keys) == 0 {
		// nothing visible changes (the branches may still fail): keep them for their checks
		keys = nil
	}
	nb0 := m.nbinds
	monadic := false
	joinK := func() (string, error) {
		v := m.sigmaTuple(keys)
		if monadic {
			return ind + "    GenL.Res.ok " + atom(v), nil
		}
		return ind + "    " + v, nil
	}
	run := func() (string, string, error) {
		tb, err := m.block(thenS, ind+"    ", joinK)
		if err != nil {
			return "", "", err
		}
		m.restore(saved)
		eb, err := m.block(elseS, ind+"    ", joinK)
		if err != nil {
			return "", "", err
		}
		m.restore(saved)
		return tb, eb, nil
	}
	tb, eb, err := run()
	if err != nil {
		return "", err
	}
	if m.nbinds != nb0 {
		// a branch can fail: render again with `Res.ok` at the joins
		m.reset(mk)
		monadic = true
		tb, eb, err = run()
		if err != nil {
			return "", err
		}
		m.nbinds++
		m.me.partial = true
	}
	if len(keys) == 0 && !monadic {
		r, err := next()
		return b.String() + r, err
	}
	j := m.freshName("j")
	jty := lxSigmaType(m, keys)
	if monadic {
		fmt.Fprintf(&b, "%s(if %s then\n%s\n%s  else\n%s).bind fun %s =>\n", ind, cond, tb, ind, eb, j)
	} else {
		fmt.Fprintf(&b, "%slet %s : %s :=\n%s  if %s then\n%s\n%s  else\n%s\n", ind, j, jty, ind, cond, tb, ind, eb)
	}
	m.nameTy[j] = jty
	for i, o := range keys {
		nm := m.freshName(o.Name())
		m.let(&b, ind, nm, m.tyText(o), proj(j, i, len(keys)))
		m.env[o] = nm
	}
	r, err := next()
	return b.String() + r, err
}

// ---------------------------------------------------------------- loops

type lxLoopSpec struct {
	src      string
	items    string                                     // Lean text of the list of items (range loops)
	itemTy   string                                     // "" for while loops
	bindItem func(ind string, b *strings.Builder) error // binds the loop variables from `it`
	body     []ast.Stmt
	post     ast.Stmt
	cond     ast.Expr // while loops
}

// loopBody renders one round of a loop as a definition of its own and returns (name applied to its
// captures, sigma objects, whether it reports jumps, condition definition applied to captures).
func (m *lx) emitLoop(sp *lxLoopSpec, ind string, next func() (string, error)) (string, error) {
	jumps := sp.cond != nil || lxJumps(sp.body)
	saved := m.save()
	outerLoop := m.loop
	round := func(sigma []types.Object, final bool) (string, error) {
		// one round: bind sigma from `st`, the loop variables from `it`, then the body (+ post)
		var b strings.Builder
		in := "  "
		for i, o := range sigma {
			nm := m.freshName(o.Name())
			m.let(&b, in, nm, m.tyText(o), proj("st", i, len(sigma)))
			m.env[o] = nm
		}
		if sp.bindItem != nil {
			if err := sp.bindItem(in, &b); err != nil {
				return "", err
			}
		}
		m.loop = &lxLoop{sigma: sigma, jumps: jumps}
		stmts := append([]ast.Stmt{}, sp.body...)
		tail := func() (string, error) {
			var pb strings.Builder
			if sp.post != nil {
				m.loop = nil // a jump inside the post statement makes no sense
				txt, err := m.block([]ast.Stmt{sp.post}, in, func() (string, error) { return "", nil })
				m.loop = &lxLoop{sigma: sigma, jumps: jumps}
				if err != nil {
					return "", err
				}
				pb.WriteString(txt)
			}
			if jumps {
				return pb.String() + in + "GenL.Res.ok (GenL.LoopOut.next " + atom(m.sigmaTuple(sigma)) + ")", nil
			}
			return pb.String() + in + "GenL.Res.ok " + atom(m.sigmaTuple(sigma)), nil
		}
		if sp.post != nil && lxHasContinue(sp.body) {
			return "", fmt.Errorf("`continue` in a loop with a post statement outside the subset")
		}
		txt, err := m.block(stmts, in, tail)
		m.loop = outerLoop
		if err != nil {
			return "", err
		}
		return b.String() + txt, nil
	}
	// dry run with an empty sigma: which outer variables does the body change?
	mk := m.mark()
	if _, err := round(nil, false); err != nil {
		return "", err
	}
	sigma := m.changed(saved, m.copyEnv())
	m.restore(saved)
	m.reset(mk)
	m.me.partial = true
	m.nbinds++
	m.nloops++
	k := m.nloops
	loopName := fmt.Sprintf("%s_loop%d", m.me.lean, k)
	condName := fmt.Sprintf("%s_cond%d", m.me.lean, k)
	body, err := round(sigma, true)
	if err != nil {
		return "", err
	}
	envAfterBody := m.copyEnv()
	_ = envAfterBody
	m.restore(saved)
	// the condition of a while loop, over sigma
	condBody := ""
	if sp.cond != nil {
		var cb strings.Builder
		for i, o := range sigma {
			nm := m.freshName(o.Name())
			m.let(&cb, "  ", nm, m.tyText(o), proj("st", i, len(sigma)))
			m.env[o] = nm
		}
		m.subst = map[ast.Expr]lxVal{}
		if m.mayFail(sp.cond) {
			return "", fmt.Errorf("loop condition %q can fail: outside the subset", m.src(sp.cond))
		}
		c, ct, err := m.expr(sp.cond)
		if err != nil {
			return "", err
		}
		if ct.k != lkScalar || ct.l.kind != "bool" {
			return "", fmt.Errorf("loop condition %q is not Boolean", m.src(sp.cond))
		}
		condBody = cb.String() + "  " + c
		m.restore(saved)
	}
	// captures: outer names the round (or the condition) mentions
	sigmaSet := map[types.Object]bool{}
	for _, o := range sigma {
		sigmaSet[o] = true
	}
	capOf := func(text string) ([]string, []string) {
		var names, decls []string
		seen := map[string]bool{}
		add := func(n, ty string) {
			if seen[n] || !lxMentions(text, n) {
				return
			}
			seen[n] = true
			names = append(names, n)
			decls = append(decls, fmt.Sprintf("(%s : %s)", n, ty))
		}
		if m.me.needsZero || lxMentions(text, "zeroV") {
			add("zeroV", "V")
		}
		for _, x := range m.me.exts {
			add(x.opsVar, lxQual(x.mod, x.ops)+" "+x.lean)
		}
		add("fuel", "Nat")
		all := map[types.Object]bool{}
		for o := range saved.env {
			all[o] = true
		}
		for _, o := range m.sortedObjs(all) {
			if sigmaSet[o] {
				continue
			}
			n := saved.env[o]
			add(n, m.nameTyOf(n, o))
		}
		return names, decls
	}
	sigTy := lxSigmaType(m, sigma)
	rho := m.me.tupleType()
	outTy := "GenL.Res " + atom(sigTy)
	if jumps {
		outTy = fmt.Sprintf("GenL.Res (GenL.LoopOut %s %s)", atom(rho), atom(sigTy))
	}
	capNames, capDecls := capOf(body)
	itemDecl := ""
	if sp.itemTy != "" {
		itemDecl = fmt.Sprintf(" (it : %s)", sp.itemTy)
	}
	sigText := strings.Join(capDecls, " ") + itemDecl + " " + sigTy + " " + outTy
	var aux strings.Builder
	fmt.Fprintf(&aux, "/-- %s: one round of the loop `%s` -/\ndef %s", m.me.qual, sp.src, loopName)
	for _, tp := range m.g.typeParamsIn(sigText) {
		fmt.Fprintf(&aux, " {%s : Type}", tp)
	}
	if len(capDecls) > 0 {
		aux.WriteString(" " + strings.Join(capDecls, " "))
	}
	fmt.Fprintf(&aux, "%s (st : %s) :\n    %s :=\n%s\n\n", itemDecl, sigTy, outTy, body)
	m.aux = append(m.aux, aux.String())
	loopCall := lxQual(m.me.mod, loopName)
	if len(capNames) > 0 {
		loopCall = "(" + loopCall + " " + strings.Join(capNames, " ") + ")"
	}
	condCall := ""
	if sp.cond != nil {
		cNames, cDecls := capOf(condBody)
		cSig := strings.Join(cDecls, " ") + " " + sigTy
		var ca strings.Builder
		fmt.Fprintf(&ca, "/-- %s: the condition of the loop `%s` -/\ndef %s", m.me.qual, sp.src, condName)
		for _, tp := range m.g.typeParamsIn(cSig) {
			fmt.Fprintf(&ca, " {%s : Type}", tp)
		}
		if len(cDecls) > 0 {
			ca.WriteString(" " + strings.Join(cDecls, " "))
		}
		fmt.Fprintf(&ca, " (st : %s) : Bool :=\n%s\n\n", sigTy, condBody)
		m.aux = append(m.aux, ca.String())
		condCall = lxQual(m.me.mod, condName)
		if len(cNames) > 0 {
			condCall = "(" + condCall + " " + strings.Join(cNames, " ") + ")"
		}
	}
	return m.finishLoop(sp, loopCall, condCall, sigma, jumps, ind, next)
}

func (m *lx) nameTyOf(n string, o types.Object) string {
	if t, ok := m.nameTy[n]; ok && t != "" {
		return t
	}
	return m.tyText(o)
}

func lxHasContinue(stmts []ast.Stmt) bool {
	found := false
	for _, s := range stmts {
		ast.Inspect(s, func(n ast.Node) bool {
			switch x := n.(type) {
			case *ast.BranchStmt:
				if x.Tok == token.CONTINUE {
					found = true
				}
			case *ast.ForStmt, *ast.RangeStmt:
				return false
			}
			return !found
		})
	}
	return found
}

// finishLoop renders the loop call and what follows it.  sp.items must have been set by the caller
// through m.loopItems.
func (m *lx) finishLoop(sp *lxLoopSpec, loopCall, condCall string, sigma []types.Object, jumps bool, ind string, next func() (string, error)) (string, error) {
	var b strings.Builder
	init := m.sigmaTuple(sigma)
	var call string
	switch {
	case sp.cond != nil:
		m.me.needsFuel = true
		call = fmt.Sprintf("GenL.whileL fuel %s %s %s", condCall, loopCall, atom(init))
	case jumps:
		call = fmt.Sprintf("GenL.loopL %s %s %s", atom(sp.items), loopCall, atom(init))
	default:
		call = fmt.Sprintf("GenL.forL %s %s %s", atom(sp.items), loopCall, atom(init))
	}
	res := m.freshName("lr")
	m.bindM(&b, ind, call, res, "")
	rebind := func(src string, in string, bb *strings.Builder) {
		for i, o := range sigma {
			nm := m.freshName(o.Name())
			m.let(bb, in, nm, m.tyText(o), proj(src, i, len(sigma)))
			m.env[o] = nm
		}
	}
	if !jumps {
		rebind(res, ind, &b)
		r, err := next()
		return b.String() + r, err
	}
	st := m.freshName("st")
	var rb strings.Builder
	rebind(st, ind+"  ", &rb)
	r, err := next()
	if err != nil {
		return "", err
	}
	retv := "GenL.Res.ok v"
	if m.loop != nil {
		if !m.loop.jumps {
			return "", fmt.Errorf("a loop with `return` inside a jump-free loop (internal)")
		}
		retv = "GenL.Res.ok (GenL.LoopOut.ret v)"
	}
	fmt.Fprintf(&b, "%smatch %s with\n%s| GenL.LoopRes.ret v => %s\n%s| GenL.LoopRes.done %s =>\n%s%s", ind, res, ind, retv, ind, st, rb.String(), indent(r, "  "))
	return b.String(), nil
}

func (m *lx) bodyAssigns(body []ast.Stmt, obj types.Object, wholeOnly bool) bool {
	found := false
	check := func(l ast.Expr) {
		switch lx := unparen(l).(type) {
		case *ast.Ident:
			if m.objOf(lx) == obj {
				found = true
			}
		case *ast.IndexExpr:
			if id, ok := unparen(lx.X).(*ast.Ident); ok && m.objOf(id) == obj && !wholeOnly {
				found = true
			}
		}
	}
	for _, s := range body {
		ast.Inspect(s, func(n ast.Node) bool {
			switch x := n.(type) {
			case *ast.AssignStmt:
				if x.Tok != token.DEFINE {
					for _, l := range x.Lhs {
						check(l)
					}
				}
			case *ast.IncDecStmt:
				check(x.X)
			}
			return true
		})
	}
	return found
}

func (m *lx) rangeStmt(x *ast.RangeStmt, ind string, next func() (string, error)) (string, error) {
	var b strings.Builder
	if x.Tok == token.ASSIGN {
		return "", fmt.Errorf("range with `=` outside the subset")
	}
	ct, err := m.typeOf(x.X)
	if err != nil {
		return "", err
	}
	ident := func(e ast.Expr) *ast.Ident {
		if e == nil {
			return nil
		}
		id, _ := e.(*ast.Ident)
		if id != nil && id.Name == "_" {
			return nil
		}
		return id
	}
	kid, vid := ident(x.Key), ident(x.Value)
	sp := &lxLoopSpec{src: strings.Join(strings.Fields(m.src(x)), " "), body: x.Body.List}
	intT := lxScalarT(lty{"bv", 64, true})
	switch ct.k {
	case lkMap:
		p, err := m.resolvePath(x.X, ind, &b)
		if err != nil {
			return "", err
		}
		if m.pathWritten(x.Body.List, p) {
			return "", fmt.Errorf("the map %q is written inside the loop over it", m.src(x.X))
		}
		m.me.usesOrc = true
		r := m.freshName("en")
		m.bindM(&b, ind, "GenL.popEnum "+m.env[m.orcObj], r, "List (BitVec 64 × BitVec 64) × GenL.Orc")
		en, orc := m.freshName("enum"), m.freshName("orc")
		m.let(&b, ind, en, "List (BitVec 64 × BitVec 64)", r+".1")
		m.let(&b, ind, orc, "GenL.Orc", r+".2")
		m.env[m.orcObj] = orc
		sp.items = en
		sp.itemTy = "BitVec 64 × BitVec 64"
		sp.bindItem = func(in string, bb *strings.Builder) error {
			if kid != nil {
				m.bindLocal(m.objOf(kid), kid.Name, ct.key, "it.1", in, bb)
			}
			if vid != nil {
				m.bindLocal(m.objOf(vid), vid.Name, ct.val, "it.2", in, bb)
			}
			return nil
		}
	case lkArr:
		p, err := m.resolvePath(x.X, ind, &b)
		if err != nil {
			return "", err
		}
		if p.idx != "" {
			return "", fmt.Errorf("range over %q outside the subset", m.src(x.X))
		}
		base := m.pathText(p)
		aliasElems := vid != nil && ct.elem.k == lkArr
		if len(p.fields) == 0 && m.bodyAssigns(x.Body.List, p.root, vid == nil || aliasElems) {
			return "", fmt.Errorf("the ranged variable %q is assigned inside the loop", m.src(x.X))
		}
		switch {
		case vid == nil:
			sp.items = fmt.Sprintf("GenL.idxs %s.size", atom(base))
			sp.itemTy = "BitVec 64"
			sp.bindItem = func(in string, bb *strings.Builder) error {
				if kid != nil {
					m.bindLocal(m.objOf(kid), kid.Name, intT, "it", in, bb)
				}
				return nil
			}
		case aliasElems:
			// rows of an array of slices: the value variable aliases the element of the live state
			if m.pathWrittenWhole(x.Body.List, p) {
				return "", fmt.Errorf("elements of %q are assigned as a whole inside the loop", m.src(x.X))
			}
			sp.items = fmt.Sprintf("GenL.idxs %s.size", atom(base))
			sp.itemTy = "BitVec 64"
			sp.bindItem = func(in string, bb *strings.Builder) error {
				iname := "it"
				if kid != nil {
					m.bindLocal(m.objOf(kid), kid.Name, intT, "it", in, bb)
					iname = m.env[m.objOf(kid)]
				}
				vobj := m.objOf(vid)
				m.alias[vobj] = &lxPath{root: p.root, fields: p.fields, idx: iname, t: ct.elem, arrT: ct}
				m.ty[vobj] = ct.elem
				m.env[vobj] = "<alias>"
				return nil
			}
		default:
			if m.pathWritten(x.Body.List, p) {
				return "", fmt.Errorf("%q is written inside the loop over its values", m.src(x.X))
			}
			if kid == nil {
				sp.items = fmt.Sprintf("%s.toList", atom(base))
				sp.itemTy = ct.elem.lean
				sp.bindItem = func(in string, bb *strings.Builder) error {
					m.bindLocal(m.objOf(vid), vid.Name, ct.elem, "it", in, bb)
					return nil
				}
			} else {
				sp.items = fmt.Sprintf("GenL.enumA %s", atom(base))
				sp.itemTy = "BitVec 64 × " + atom(ct.elem.lean)
				sp.bindItem = func(in string, bb *strings.Builder) error {
					m.bindLocal(m.objOf(kid), kid.Name, intT, "it.1", in, bb)
					m.bindLocal(m.objOf(vid), vid.Name, ct.elem, "it.2", in, bb)
					return nil
				}
			}
		}
	default:
		return "", fmt.Errorf("range over %q outside the subset", m.src(x.X))
	}
	txt, err := m.emitLoop(sp, ind, next)
	if err != nil {
		return "", err
	}
	return b.String() + txt, nil
}

// pathWritten: does the body assign to the location p or below it (syntactically)?
func (m *lx) pathWritten(body []ast.Stmt, p *lxPath) bool {
	return m.pathWrittenIn(body, p, false)
}

func (m *lx) pathWrittenWhole(body []ast.Stmt, p *lxPath) bool {
	return m.pathWrittenIn(body, p, true)
}

func (m *lx) pathWrittenIn(body []ast.Stmt, p *lxPath, elemWholeOnly bool) bool {
	want := p.root.Name()
	for _, f := range p.fields {
		want += "." + f.goName
	}
	found := false
	check := func(l ast.Expr) {
		s := strings.ReplaceAll(m.g.pi.src(unparen(l)), " ", "")
		if elemWholeOnly {
			// want[...] exactly (an element assigned as a whole)
			if strings.HasPrefix(s, want+"[") && strings.HasSuffix(s, "]") && strings.Count(s, "[") == 1 {
				found = true
			}
			if s == want {
				found = true
			}
			return
		}
		if s == want || strings.HasPrefix(s, want+"[") || strings.HasPrefix(s, want+".") {
			found = true
		}
	}
	for _, s := range body {
		ast.Inspect(s, func(n ast.Node) bool {
			switch x := n.(type) {
			case *ast.AssignStmt:
				if x.Tok != token.DEFINE {
					for _, l := range x.Lhs {
						check(l)
					}
				}
			case *ast.IncDecStmt:
				check(x.X)
			case *ast.CallExpr:
				if id, ok := x.Fun.(*ast.Ident); ok && id.Name == "delete" && len(x.Args) == 2 {
					check(x.Args[0])
				}
			}
			return true
		})
	}
	return found
}

func (m *lx) forStmt(x *ast.ForStmt, ind string, next func() (string, error)) (string, error) {
	sp := &lxLoopSpec{src: strings.Join(strings.Fields(m.src(x)), " "), body: x.Body.List, post: x.Post, cond: x.Cond}
	if x.Cond == nil {
		return "", fmt.Errorf("loop without a condition outside the subset")
	}
	if txt, ok, err := m.countedLoop(x, ind, next); ok || err != nil {
		return txt, err
	}
	if x.Init != nil {
		var b strings.Builder
		x2 := *x
		x2.Init = nil
		txt, err := m.block([]ast.Stmt{x.Init}, ind, func() (string, error) { return m.forStmt(&x2, ind, next) })
		return b.String() + txt, err
	}
	m.me.needsFuel = true
	return m.emitLoop(sp, ind, next)
}

// countedLoop recognises `for i := a; i < b; i++ { body }` over a Go int whose bound does not
// depend on anything the body assigns; it becomes a loop over `GenL.countUp a b`.
func (m *lx) countedLoop(x *ast.ForStmt, ind string, next func() (string, error)) (string, bool, error) {
	init, ok := x.Init.(*ast.AssignStmt)
	if !ok || init.Tok != token.DEFINE || len(init.Lhs) != 1 || len(init.Rhs) != 1 {
		return "", false, nil
	}
	iv, ok := init.Lhs[0].(*ast.Ident)
	if !ok {
		return "", false, nil
	}
	ivObj := m.g.pi.info.Defs[iv]
	if ivObj == nil {
		return "", false, nil
	}
	if t, err := leanType(ivObj.Type()); err != nil || t.kind != "bv" || t.w != 64 || !t.signed {
		return "", false, nil
	}
	cond, ok := x.Cond.(*ast.BinaryExpr)
	if !ok || cond.Op != token.LSS {
		return "", false, nil
	}
	if id, ok := cond.X.(*ast.Ident); !ok || m.g.pi.info.Uses[id] != ivObj {
		return "", false, nil
	}
	post, ok := x.Post.(*ast.IncDecStmt)
	if !ok || post.Tok != token.INC {
		return "", false, nil
	}
	if id, ok := post.X.(*ast.Ident); !ok || m.g.pi.info.Uses[id] != ivObj {
		return "", false, nil
	}
	if m.bodyAssigns(x.Body.List, ivObj, false) || m.mayFail(cond.Y) || m.mayFail(init.Rhs[0]) {
		return "", false, nil
	}
	bad := false
	ast.Inspect(cond.Y, func(n ast.Node) bool {
		if id, ok := n.(*ast.Ident); ok {
			if o := m.g.pi.info.Uses[id]; o != nil && (o == ivObj || m.bodyAssigns(x.Body.List, o, false)) {
				bad = true
			}
		}
		if _, isCall := n.(*ast.CallExpr); isCall {
			if tv := m.g.pi.info.Types[n.(ast.Expr)]; tv.Value == nil {
				bad = true
			}
		}
		return !bad
	})
	if bad {
		return "", false, nil
	}
	var b strings.Builder
	m.subst = map[ast.Expr]lxVal{}
	lo, _, err := m.value(init.Rhs[0], ind, &b)
	if err != nil {
		return "", true, err
	}
	hi, _, err := m.value(cond.Y, ind, &b)
	if err != nil {
		return "", true, err
	}
	intT := lxScalarT(lty{"bv", 64, true})
	sp := &lxLoopSpec{src: strings.Join(strings.Fields(m.src(x)), " "), body: x.Body.List,
		items: fmt.Sprintf("GenL.countUp %s %s", atom(lo), atom(hi)), itemTy: "BitVec 64"}
	sp.bindItem = func(in string, bb *strings.Builder) error {
		m.bindLocal(ivObj, iv.Name, intT, "it", in, bb)
		return nil
	}
	txt, err := m.emitLoop(sp, ind, next)
	return b.String() + txt, true, err
}
