package main

import "fmt"

func translateLocks(pi *pkgInfo) (string, error) { return "", fmt.Errorf("not yet") }
