package main

// Lock table for C08 (part B, "lock discipline").
//
// Over the six anchored files of the ristretto root package this extracts EVERY read/write of
// a struct field of the shared types (lkShared) together with
//
//   - the mutexes syntactically held at that point (straight-line abstract interpretation of
//     x.Lock()/RLock()/Unlock()/RUnlock() per function body, conservative at joins), plus the
//     locks that every in-package caller holds at every call site (helper propagation, a
//     greatest fixpoint over the call graph; entry points start with the empty set);
//   - whether the access is a sync/atomic access;
//   - a goroutine-confinement / ordering tag from the small hand-written tables below.
//
// Output: `def accesses : List RV.Locks.Access` (+ `transfers`, `entryLocks`) in
// RV/Gen/Locks.lean.  The checker and its meaning are RV/Model/Locks.lean; the kernel evaluates
// the checker on the table in RV/Proofs/Locks.lean.
//
// Nothing is dropped silently: a selector whose name is a field name of a shared type but
// whose receiver cannot be typed, a Lock/Unlock call whose mutex cannot be named, an
// unresolvable interface / method call, `&x.f` outside sync/atomic, or a hand-table entry that
// no longer matches the code is a generator ERROR (go2lean exits 1, the obligation breaks).
//
// Function literals are separate units ("F.funcN") that run later: their entry lock set is
// empty and they never inherit the tag of the enclosing function.

import (
	"fmt"
	"go/ast"
	"go/token"
	"go/types"
	"path/filepath"
	"sort"
	"strings"
)

func init() {
	extras["Locks"] = genLocks
	extraImports["Locks"] = []string{"RV.Model.Locks"}
}

// ------------------------------------------------------------------ hand tables

// the anchored files (verif_*.go hook files are not part of the library proper)
var lkFiles = []string{"cache.go", "policy.go", "ring.go", "sketch.go", "store.go", "ttl.go"}

// the shared types whose fields are tracked (generic ones by the name of the origin type)
var lkShared = []string{"Cache", "shardedMap", "lockedMap", "expirationMap", "defaultPolicy",
	"sampledLFU", "tinyLFU", "cmSketch", "ringBuffer", "ringStripe", "Metrics"}

// Calls through interfaces are resolved by this table.  `store[V]` has exactly one
// implementation (newStore returns newShardedMap); `ringConsumer` is only ever the policy
// (NewCache passes `policy` to newRingBuffer).  genLocks checks that the concrete type has a
// method of the called name.
var lkIface = map[string]string{
	"store":        "shardedMap",
	"ringConsumer": "defaultPolicy",
}

// tag `ctor`: code that runs before the object it writes is shared with another goroutine.
var lkCtor = map[string]string{
	// builds a fresh *Cache; the only goroutine started before it returns that can see the
	// cache is `go cache.processItems()`, the LAST statement before the return (the go
	// statement orders everything before it).  Only the top-level statements: the closures
	// assigned to cache.onExit/onEvict/onReject are separate units that run later (tag none).
	"NewCache": "fresh *Cache; `go cache.processItems()` is the last statement before the return",
	// constructors of fresh objects, reachable only from NewCache (or, for newRingStripe, from
	// the sync.Pool New function, which hands the fresh stripe to exactly one Get caller)
	"newPolicy":        "fresh object",
	"newDefaultPolicy": "fresh *defaultPolicy; `go p.processItems()` is the last statement before the return",
	"newSampledLFU":    "fresh object",
	"newTinyLFU":       "fresh object",
	"newCmSketch":      "fresh object",
	"newCmRow":         "fresh object",
	"newMetrics":       "fresh object",
	"newStore":         "fresh object",
	"newShardedMap":    "fresh object",
	"newLockedMap":     "fresh object",
	"newExpirationMap": "fresh object",
	"newRingBuffer":    "fresh object",
	"newRingStripe":    "fresh stripe, handed to one goroutine by sync.Pool.Get",
}

// tag `ctor` for methods that are called ONLY from ctor code (checked: every call site must be
// a top-level statement of a ctor unit, never a closure).  They run inside NewCache before `go
// cache.processItems()` and before the cache is returned to the user.  NOTE: the POLICY
// goroutine (`go p.processItems()` in newDefaultPolicy) HAS already started at that time, but
// that goroutine touches only defaultPolicy.itemsCh/stop/done/admit and what tinyLFU.Push
// reaches (tinyLFU.*, cmSketch.*), and it receives nothing before the cache is in use; genLocks
// checks that no field written by the lkLateCtor units is accessed by anything reachable from
// defaultPolicy.processItems.
var lkCtorCalledOnlyFrom = map[string]string{
	"Cache.collectMetrics":         "NewCache (`if config.Metrics`)",
	"defaultPolicy.CollectMetrics": "Cache.collectMetrics",
	"shardedMap.SetShouldUpdateFn": "NewCache",
	"lockedMap.setShouldUpdateFn":  "shardedMap.SetShouldUpdateFn",
}

// ctor units that run after the policy goroutine has been started
var lkLateCtor = []string{"NewCache", "Cache.collectMetrics", "defaultPolicy.CollectMetrics",
	"shardedMap.SetShouldUpdateFn", "lockedMap.setShouldUpdateFn"}

const lkPolicyGoroutine = "defaultPolicy.processItems"

// tag `close`: C08 excludes Close from its concurrency claim; the Lean theorem excludes these
// accesses explicitly (`excluded`).  Only the bodies of the two Close methods: Cache.Clear,
// which Close calls, is a C08 call of its own and is NOT tagged.
var lkClose = map[string]bool{"Cache.Close": true, "defaultPolicy.Close": true}

// tag `stripe`: a *ringStripe is owned by exactly one goroutine between b.pool.Get() and
// b.pool.Put(stripe) in ringBuffer.Push (sync.Pool never hands one object to two Get callers
// without an intervening Put), so the accesses of ringStripe.cons/data/capa inside
// ringStripe.Push are confined to the current owner.  The `data` slice handed to
// cons.Push -> `p.itemsCh <- keys` is a channel hand-off to the policy goroutine, after which
// the stripe allocates a fresh slice (Push returned true) or re-uses it (returned false = not
// sent).  genLocks checks that ringStripe.Push is called only from ringBuffer.Push.
const (
	lkStripeUnit   = "ringStripe.Push"
	lkStripeType   = "ringStripe"
	lkStripeCaller = "ringBuffer.Push"
)

// tag `applier` (locals of Cache.processItems): startTs/numToKeep are locals, not fields, so
// nothing is tagged; fields read on the applier goroutine get no confinement tag.

// hand-listed ownership transfers (documentation, emitted as `transfers`)
var lkTransfers = []string{
	"sync.Pool stripes: ringBuffer.Push takes a *ringStripe with b.pool.Get() and returns it with b.pool.Put(stripe); between the two calls the stripe is owned by the calling goroutine only (tag stripe).",
	"itemsCh slice hand-off: ringStripe.Push passes s.data to defaultPolicy.Push, which sends it on p.itemsCh; if the send happened (Push returned true) the stripe allocates a fresh slice and the old one belongs to the policy goroutine (tinyLFU.Push reads it under the policy lock), otherwise the slice was not sent and the stripe truncates and re-uses it.",
	"setBuf hand-off of *Item: SetWithTTL/Del/Wait build a fresh *Item and send it on c.setBuf; after the send only the receiver (Cache.processItems, or the drain loop of Cache.Clear) touches it; Item is not one of the shared types.",
	"expiry buckets: expirationMap.cleanup unlinks the due buckets from m.buckets (delete under m.Lock()) and collects them in a local slice; after m.Unlock() no other goroutine can reach them, so the `range keys` after the Unlock reads maps that are local to the sweeping goroutine.",
}

// ------------------------------------------------------------------ data

type lkLock struct {
	mode byte   // 1 = R, 2 = W
	root string // root identifier of the receiver of the acquiring call ("" = inherited from callers)
}

type lkSet map[string]lkLock // nil is a valid empty set

type lkUnit struct {
	name     string
	file     string
	body     *ast.BlockStmt
	ftype    *ast.FuncType
	recv     *ast.FieldList
	recvType string
	exported bool
	isLit    bool
	nlits    int
	accs     []*lkAccess
	calls    []*lkCall
	isEntry  bool
	why      string
	top      bool
	entry    lkSet
	callers  []*lkCall
}

type lkCall struct {
	caller, callee *lkUnit
	held           lkSet
	line           int
}

type lkAccess struct {
	unit   *lkUnit
	field  string
	write  bool
	atomic bool
	held   lkSet
	file   string
	line   int
	col    int
	note   string
	root   string
	tag    string
	locks  lkSet
}

type lkGen struct {
	pi         *pkgInfo
	errs       []string
	units      map[string]*lkUnit
	unitOrder  []*lkUnit
	unitOfObj  map[types.Object]*lkUnit
	fieldOwner map[*types.Var]string
	structs    map[string]map[string]ast.Expr // T -> field name -> type expression
	embedMutex map[string]bool                // T embeds sync.Mutex / sync.RWMutex
	mutexField map[string]bool                // "T.f" is a mutex
	atomicBool map[string]bool                // "T.f" is an atomic.Bool
	fieldNames map[string]bool
	methNames  map[string]bool
	shared     map[string]bool
	ifaces     map[string]bool
	mutating   map[string]bool // "cmRow.increment"
	refNamed   map[string]bool // named slice / map types declared in the package
	goTargets  map[string]bool
}

func (g *lkGen) errorf(pos token.Pos, format string, a ...interface{}) {
	p := g.pi.fset.Position(pos)
	msg := fmt.Sprintf("%s:%d: %s", filepath.Base(p.Filename), p.Line, fmt.Sprintf(format, a...))
	for _, e := range g.errs {
		if e == msg {
			return
		}
	}
	g.errs = append(g.errs, msg)
}

// ------------------------------------------------------------------ lock sets

func (s lkSet) with(name string, mode byte, root string) lkSet {
	n := lkSet{}
	for k, v := range s {
		n[k] = v
	}
	if old, ok := n[name]; !ok || old.mode < mode {
		n[name] = lkLock{mode, root}
	}
	return n
}

func (s lkSet) without(name string) lkSet {
	n := lkSet{}
	for k, v := range s {
		if k != name {
			n[k] = v
		}
	}
	return n
}

// intersection; R ∩ W of the same lock = R
func lkMeet(a, b lkSet) lkSet {
	n := lkSet{}
	for k, v := range a {
		if w, ok := b[k]; ok {
			m := v
			if w.mode < m.mode {
				m.mode = w.mode
			}
			if w.root != v.root {
				m.root = "?"
			}
			n[k] = m
		}
	}
	return n
}

// union; the stronger mode wins
func lkJoin(a, b lkSet) lkSet {
	n := lkSet{}
	for k, v := range a {
		n[k] = v
	}
	for k, v := range b {
		if old, ok := n[k]; !ok || old.mode < v.mode {
			n[k] = v
		}
	}
	return n
}

func lkEqual(a, b lkSet) bool {
	if len(a) != len(b) {
		return false
	}
	for k, v := range a {
		if w, ok := b[k]; !ok || w.mode != v.mode {
			return false
		}
	}
	return true
}

func (s lkSet) lean() string {
	names := []string{}
	for k := range s {
		names = append(names, k)
	}
	sort.Strings(names)
	parts := []string{}
	for _, k := range names {
		m := ".R"
		if s[k].mode == 2 {
			m = ".W"
		}
		parts = append(parts, fmt.Sprintf("(%q, %s)", k, m))
	}
	return "[" + strings.Join(parts, ", ") + "]"
}

// ------------------------------------------------------------------ type helpers

func lkDeref(t types.Type) types.Type {
	for {
		t = types.Unalias(t)
		p, ok := t.(*types.Pointer)
		if !ok {
			return t
		}
		t = p.Elem()
	}
}

// name of the (origin) named type behind t; "sync.Mutex" style for foreign packages
func (g *lkGen) typeName(t types.Type) string {
	if t == nil {
		return ""
	}
	n, ok := lkDeref(t).(*types.Named)
	if !ok {
		return ""
	}
	o := n.Origin().Obj()
	if o.Pkg() != nil && o.Pkg() != g.pi.pkg {
		return o.Pkg().Name() + "." + o.Name()
	}
	return o.Name()
}

func lkTypeText(e ast.Expr) string {
	switch e := e.(type) {
	case *ast.Ident:
		return e.Name
	case *ast.StarExpr:
		return lkTypeText(e.X)
	case *ast.ParenExpr:
		return lkTypeText(e.X)
	case *ast.IndexExpr:
		return lkTypeText(e.X)
	case *ast.IndexListExpr:
		return lkTypeText(e.X)
	case *ast.SelectorExpr:
		return lkTypeText(e.X) + "." + e.Sel.Name
	}
	return ""
}

func lkElemType(e ast.Expr) ast.Expr {
	switch e := e.(type) {
	case *ast.ArrayType:
		return e.Elt
	case *ast.MapType:
		return e.Value
	case *ast.StarExpr:
		return lkElemType(e.X)
	case *ast.ParenExpr:
		return lkElemType(e.X)
	}
	return nil
}

func lkRootIdent(e ast.Expr) string {
	for {
		switch x := e.(type) {
		case *ast.Ident:
			return x.Name
		case *ast.SelectorExpr:
			e = x.X
		case *ast.IndexExpr:
			e = x.X
		case *ast.SliceExpr:
			e = x.X
		case *ast.ParenExpr:
			e = x.X
		case *ast.StarExpr:
			e = x.X
		case *ast.CallExpr:
			e = x.Fun
		case *ast.TypeAssertExpr:
			e = x.X
		default:
			return ""
		}
	}
}

func lkUnparen(e ast.Expr) ast.Expr {
	for {
		p, ok := e.(*ast.ParenExpr)
		if !ok {
			return e
		}
		e = p.X
	}
}

// ------------------------------------------------------------------ the walker

type lkAlias struct {
	field string
	root  string
}

type lkWalker struct {
	g      *lkGen
	u      *lkUnit
	rec    bool
	frames [][]lkSet
	alias  map[string]lkAlias  // local name -> field whose contents it aliases
	synTy  map[string]ast.Expr // local name -> declared type expression (syntactic fallback)
}

func (w *lkWalker) isPkgIdent(e ast.Expr) (string, bool) {
	id, ok := e.(*ast.Ident)
	if !ok {
		return "", false
	}
	if o, ok := w.g.pi.info.Uses[id]; ok {
		if pn, ok := o.(*types.PkgName); ok {
			return pn.Imported().Path(), true
		}
		return "", false
	}
	// no type information: an identifier that is not declared locally and names an import
	if id.Obj == nil {
		switch id.Name {
		case "atomic":
			return "sync/atomic", true
		case "sync", "time", "z", "math", "fmt", "errors", "bytes", "rand", "unsafe":
			return id.Name, true
		}
	}
	return "", false
}

// static type name of an expression: go/types first, the syntactic typer as fallback
func (w *lkWalker) typeNameOf(e ast.Expr) string {
	if tv, ok := w.g.pi.info.Types[e]; ok && tv.Type != nil {
		if n := w.g.typeName(tv.Type); n != "" {
			return n
		}
	}
	if id, ok := e.(*ast.Ident); ok {
		if o := w.g.pi.info.Uses[id]; o != nil && o.Type() != nil {
			if n := w.g.typeName(o.Type()); n != "" {
				return n
			}
		}
	}
	return lkTypeText(w.synType(e))
}

// syntactic typer: the type EXPRESSION of e, nil if unknown
func (w *lkWalker) synType(e ast.Expr) ast.Expr {
	switch e := e.(type) {
	case *ast.ParenExpr:
		return w.synType(e.X)
	case *ast.Ident:
		if t, ok := w.synTy[e.Name]; ok {
			return t
		}
	case *ast.SelectorExpr:
		owner := lkTypeText(w.synType(e.X))
		if fs, ok := w.g.structs[owner]; ok {
			if t, ok := fs[e.Sel.Name]; ok {
				return t
			}
		}
	case *ast.IndexExpr:
		return lkElemType(w.synType(e.X))
	case *ast.StarExpr:
		return w.synType(e.X)
	case *ast.UnaryExpr:
		if e.Op == token.AND {
			return w.synType(e.X)
		}
	case *ast.CompositeLit:
		return e.Type
	}
	return nil
}

// fieldOf: is sel a field selection of a shared type?  ("T.f", true) if so.
func (w *lkWalker) fieldOf(sel *ast.SelectorExpr) (string, bool) {
	g := w.g
	if s, ok := g.pi.info.Selections[sel]; ok {
		if s.Kind() != types.FieldVal {
			return "", false
		}
		v, ok := s.Obj().(*types.Var)
		if !ok {
			return "", false
		}
		if f, ok := g.fieldOwner[v.Origin()]; ok {
			return f, true
		}
		// a field of a non-shared type (Config, Item, storeItem, policyPair, time.Ticker ...)
		return "", false
	}
	if _, isPkg := w.isPkgIdent(sel.X); isPkg {
		return "", false
	}
	// no selection recorded (type error upstream): syntactic fallback
	tn := w.typeNameOf(sel.X)
	if tn != "" {
		if fs, ok := g.structs[tn]; ok {
			if _, ok := fs[sel.Sel.Name]; ok && g.shared[tn] {
				return tn + "." + sel.Sel.Name, true
			}
		}
		return "", false
	}
	if g.fieldNames[sel.Sel.Name] {
		g.errorf(sel.Pos(), "cannot type the receiver of selector %s, whose name is a field name of a shared type", g.pi.src(sel))
	}
	return "", false
}

// rooted: e = x.f [i]... ; returns the field selector, the field and the number of index/slice steps
func (w *lkWalker) rooted(e ast.Expr) (*ast.SelectorExpr, string, int) {
	depth := 0
	for {
		switch x := e.(type) {
		case *ast.ParenExpr:
			e = x.X
			continue
		case *ast.IndexExpr:
			e = x.X
			depth++
			continue
		case *ast.SliceExpr:
			e = x.X
			depth++
			continue
		case *ast.SelectorExpr:
			if f, ok := w.fieldOf(x); ok && !w.g.mutexField[f] {
				return x, f, depth
			}
		}
		return nil, "", 0
	}
}

// aliasOf: e = a [i]... with a an alias identifier
func (w *lkWalker) aliasOf(e ast.Expr) (string, lkAlias, bool) {
	for {
		switch x := e.(type) {
		case *ast.ParenExpr:
			e = x.X
			continue
		case *ast.IndexExpr:
			e = x.X
			continue
		case *ast.SliceExpr:
			e = x.X
			continue
		case *ast.Ident:
			a, ok := w.alias[x.Name]
			return x.Name, a, ok
		}
		return "", lkAlias{}, false
	}
}

func (w *lkWalker) record(field string, write, atomic bool, at ast.Node, h lkSet, note, root string) {
	if !w.rec {
		return
	}
	p := w.g.pi.fset.Position(at.Pos())
	w.u.accs = append(w.u.accs, &lkAccess{unit: w.u, field: field, write: write, atomic: atomic, held: h,
		file: filepath.Base(p.Filename), line: p.Line, col: p.Column, note: note, root: root})
}

// scan the sub-expressions of a rooted / aliased expression (indices and the base of the
// field selector) as reads, WITHOUT recording the root field itself
func (w *lkWalker) subexprs(e ast.Expr, h lkSet) {
	switch x := e.(type) {
	case *ast.ParenExpr:
		w.subexprs(x.X, h)
	case *ast.IndexExpr:
		w.subexprs(x.X, h)
		w.expr(x.Index, h)
	case *ast.SliceExpr:
		w.subexprs(x.X, h)
		w.expr(x.Low, h)
		w.expr(x.High, h)
		w.expr(x.Max, h)
	case *ast.SelectorExpr:
		w.expr(x.X, h)
	case *ast.Ident:
	default:
		w.expr(e, h)
	}
}

// a write whose target is e (assignment, inc/dec, op-assign; contentOp: delete / copy destination,
// which write the CONTENTS of e, so a bare alias identifier counts too)
func (w *lkWalker) writeTo(e ast.Expr, h lkSet, contentOp bool) {
	e = lkUnparen(e)
	if sel, f, depth := w.rooted(e); sel != nil {
		note := ""
		if depth > 0 {
			note = " (content)"
		}
		w.record(f, true, false, sel, h, note, lkRootIdent(sel))
		w.subexprs(e, h)
		return
	}
	if _, isIdent := e.(*ast.Ident); !isIdent || contentOp {
		if name, a, ok := w.aliasOf(e); ok {
			w.record(a.field, true, false, e, h, " (via alias "+name+")", a.root)
			w.subexprs(e, h)
			return
		}
	}
	switch x := e.(type) {
	case *ast.Ident:
		// a local (possibly an alias being re-bound: it keeps counting as the field's contents)
	case *ast.SelectorExpr:
		// a field of a non-shared type (Item, storeItem ...): only its base is read
		if f, ok := w.fieldOf(x); ok && w.g.mutexField[f] {
			w.g.errorf(x.Pos(), "assignment to mutex field %s", f)
		}
		w.expr(x.X, h)
	case *ast.IndexExpr:
		w.expr(x.X, h)
		w.expr(x.Index, h)
	case *ast.StarExpr:
		w.expr(x.X, h)
	default:
		w.expr(e, h)
	}
}

// lockOp: is call x.Lock()/RLock()/Unlock()/RUnlock() on a mutex?  name of the mutex, op
func (w *lkWalker) lockOp(call *ast.CallExpr) (name, op, root string, ok bool) {
	sel, isSel := lkUnparen(call.Fun).(*ast.SelectorExpr)
	if !isSel {
		return
	}
	switch sel.Sel.Name {
	case "Lock", "Unlock", "RLock", "RUnlock":
	default:
		return
	}
	if len(call.Args) != 0 {
		return
	}
	g := w.g
	x := lkUnparen(sel.X)
	root = lkRootIdent(x)
	// a mutex FIELD: p.mu.Lock()
	if fs, isF := x.(*ast.SelectorExpr); isF {
		if f, isField := w.fieldOf(fs); isField && g.mutexField[f] {
			return f, sel.Sel.Name, root, true
		}
	}
	// a type embedding the mutex: p.Lock(), shard.RLock()
	tn := w.typeNameOf(x)
	if g.embedMutex[tn] {
		return tn, sel.Sel.Name, root, true
	}
	g.errorf(call.Pos(), "cannot name the mutex of %s (receiver type %q)", g.pi.src(call), tn)
	return "", "", "", false
}

// resolve the callee of a call expression to a unit of the anchored files (nil: not one)
func (w *lkWalker) resolve(fun ast.Expr) *lkUnit {
	g := w.g
	fun = lkUnparen(fun)
	switch f := fun.(type) {
	case *ast.IndexExpr: // explicit instantiation newPolicy[V](...)
		if u := w.resolve(f.X); u != nil {
			return u
		}
		return nil
	case *ast.IndexListExpr:
		return w.resolve(f.X)
	case *ast.Ident:
		if o, ok := g.pi.info.Uses[f]; ok {
			if fn, ok := o.(*types.Func); ok {
				return g.unitOfObj[fn.Origin()]
			}
			return nil // local function value, builtin, type conversion
		}
		if f.Obj == nil || f.Obj.Kind == ast.Fun {
			if u, ok := g.units[f.Name]; ok && u.recvType == "" {
				return u
			}
		}
		return nil
	case *ast.SelectorExpr:
		if _, isPkg := w.isPkgIdent(f.X); isPkg {
			return nil
		}
		recv := ""
		if s, ok := g.pi.info.Selections[f]; ok {
			if s.Kind() == types.FieldVal {
				return nil // function value stored in a field: a read of the field, no call edge
			}
			if fn, ok := s.Obj().(*types.Func); ok {
				if u := g.unitOfObj[fn.Origin()]; u != nil {
					return u
				}
			}
			recv = g.typeName(s.Recv())
		} else {
			if _, isField := w.fieldOf(f); isField {
				return nil
			}
			recv = w.typeNameOf(f.X)
		}
		if conc, ok := lkIface[recv]; ok {
			u := g.units[conc+"."+f.Sel.Name]
			if u == nil {
				g.errorf(f.Pos(), "interface call %s: %s has no method %s in the anchored files", g.pi.src(f), conc, f.Sel.Name)
			}
			return u
		}
		if g.ifaces[recv] {
			g.errorf(f.Pos(), "call through interface %s, which is not in the lkIface table", recv)
			return nil
		}
		if recv != "" {
			if u, ok := g.units[recv+"."+f.Sel.Name]; ok {
				return u
			}
			return nil // method of a foreign / non-anchored type
		}
		if g.methNames[f.Sel.Name] {
			g.errorf(f.Pos(), "cannot type the receiver of call %s, whose name is a method name of the anchored files", g.pi.src(f))
		}
		return nil
	}
	return nil
}

func (w *lkWalker) callSite(u *lkUnit, at ast.Node, h lkSet) {
	if u == nil || !w.rec {
		return
	}
	c := &lkCall{caller: w.u, callee: u, held: h, line: w.g.pi.fset.Position(at.Pos()).Line}
	w.u.calls = append(w.u.calls, c)
}

func (w *lkWalker) funcLit(fl *ast.FuncLit) {
	if !w.rec {
		return
	}
	g := w.g
	w.u.nlits++
	// name the literal after the OUTERMOST declared function
	base := w.u.name
	u := &lkUnit{name: fmt.Sprintf("%s.func%d", base, w.u.nlits), file: w.u.file, body: fl.Body,
		ftype: fl.Type, isLit: true, isEntry: true, why: "function literal"}
	g.unitOrder = append(g.unitOrder, u)
	g.units[u.name] = u
	nw := &lkWalker{g: g, u: u, rec: true, alias: map[string]lkAlias{}, synTy: map[string]ast.Expr{}}
	// a closure sees the enclosing locals (aliases and syntactic types)
	for k, v := range w.alias {
		nw.alias[k] = v
	}
	for k, v := range w.synTy {
		nw.synTy[k] = v
	}
	nw.params(fl.Type)
	nw.block(fl.Body.List, nil)
}

func (w *lkWalker) params(ft *ast.FuncType) {
	if ft == nil || ft.Params == nil {
		return
	}
	for _, f := range ft.Params.List {
		for _, n := range f.Names {
			w.synTy[n.Name] = f.Type
			delete(w.alias, n.Name)
		}
	}
}

func lkAtomicKind(name string) (write, ok bool) {
	switch {
	case strings.HasPrefix(name, "Load"):
		return false, true
	case strings.HasPrefix(name, "Store"), strings.HasPrefix(name, "Add"), strings.HasPrefix(name, "Swap"),
		strings.HasPrefix(name, "CompareAndSwap"), strings.HasPrefix(name, "And"), strings.HasPrefix(name, "Or"):
		return true, true
	}
	return false, false
}

func (w *lkWalker) call(c *ast.CallExpr, h lkSet) {
	g := w.g
	fun := lkUnparen(c.Fun)
	args := func(from int) {
		for _, a := range c.Args[from:] {
			w.expr(a, h)
		}
	}
	if _, _, _, isLock := w.lockOpQuiet(c); isLock {
		g.errorf(c.Pos(), "lock operation %s in expression position is outside the subset", g.pi.src(c))
		return
	}
	switch f := fun.(type) {
	case *ast.FuncLit: // immediately invoked
		w.funcLit(f)
		args(0)
		return
	case *ast.Ident:
		isBuiltin := false
		if o, ok := g.pi.info.Uses[f]; ok {
			_, isBuiltin = o.(*types.Builtin)
		} else if f.Obj == nil {
			isBuiltin = f.Name == "delete" || f.Name == "copy"
		}
		if isBuiltin && (f.Name == "delete" || f.Name == "copy") && len(c.Args) > 0 {
			w.writeTo(c.Args[0], h, true)
			// delete(m.buckets[n], k): the TARGET m.buckets[n] is written; writeTo handled it
			args(1)
			return
		}
		w.callSite(w.resolve(f), c, h)
		args(0)
		return
	case *ast.SelectorExpr:
		if path, isPkg := w.isPkgIdent(f.X); isPkg {
			if path == "sync/atomic" && len(c.Args) > 0 {
				if wr, ok := lkAtomicKind(f.Sel.Name); ok {
					if un, isAddr := lkUnparen(c.Args[0]).(*ast.UnaryExpr); isAddr && un.Op == token.AND {
						if sel, fld, depth := w.rooted(un.X); sel != nil {
							note := ""
							if depth > 0 {
								note = " (content)"
							}
							w.record(fld, wr, true, sel, h, note, lkRootIdent(sel))
							w.subexprs(un.X, h)
							args(1)
							return
						}
					}
				}
			}
			args(0)
			return
		}
		// x.f.Load() / x.f.Store(v) on an atomic.Bool field
		if fs, isF := lkUnparen(f.X).(*ast.SelectorExpr); isF {
			if fld, ok := w.fieldOf(fs); ok && g.atomicBool[fld] {
				if wr, ok := lkAtomicKind(f.Sel.Name); ok {
					w.record(fld, wr, true, fs, h, "", lkRootIdent(fs))
					w.expr(fs.X, h)
					args(0)
					return
				}
				g.errorf(c.Pos(), "method %s of atomic field %s is outside the subset", f.Sel.Name, fld)
			}
		}
		// a function value stored in a field and called: c.onEvict(i) is a read of Cache.onEvict
		if _, isField := w.fieldOf(f); isField {
			w.expr(f, h)
			args(0)
			return
		}
		callee := w.resolve(f)
		w.callSite(callee, c, h)
		// method call on the CONTENTS of a field: s.rows[i].increment(..), r.reset() with r an alias
		mut := callee != nil && g.mutating[callee.name]
		if sel, fld, depth := w.rooted(f.X); sel != nil && depth > 0 {
			w.record(fld, mut, false, sel, h, " (content)", lkRootIdent(sel))
			w.subexprs(f.X, h)
		} else if name, a, ok := w.aliasOf(f.X); ok {
			w.record(a.field, mut, false, f.X, h, " (via alias "+name+")", a.root)
			w.subexprs(f.X, h)
		} else {
			w.expr(f.X, h)
		}
		args(0)
		return
	case *ast.IndexExpr, *ast.IndexListExpr:
		w.callSite(w.resolve(f), c, h)
		args(0)
		return
	}
	w.expr(fun, h)
	args(0)
}

// the receiver expression of a lock operation is evaluated: `c.cachePolicy.Lock()` reads
// Cache.cachePolicy; the mutex (field) itself is the lock, not an access
func (w *lkWalker) lockRecvReads(call *ast.CallExpr, h lkSet) {
	sel := lkUnparen(call.Fun).(*ast.SelectorExpr)
	x := lkUnparen(sel.X)
	if fs, ok := x.(*ast.SelectorExpr); ok {
		if f, isField := w.fieldOf(fs); isField && w.g.mutexField[f] {
			w.expr(fs.X, h)
			return
		}
	}
	w.expr(x, h)
}

func (w *lkWalker) lockOpQuiet(call *ast.CallExpr) (name, op, root string, ok bool) {
	sel, isSel := lkUnparen(call.Fun).(*ast.SelectorExpr)
	if !isSel || len(call.Args) != 0 {
		return
	}
	switch sel.Sel.Name {
	case "Lock", "Unlock", "RLock", "RUnlock":
		return w.lockOp(call)
	}
	return
}

func (w *lkWalker) complit(c *ast.CompositeLit, h lkSet) {
	g := w.g
	tn := ""
	if tv, ok := g.pi.info.Types[c]; ok && tv.Type != nil {
		tn = g.typeName(tv.Type)
	}
	if tn == "" && c.Type != nil {
		tn = lkTypeText(c.Type)
	}
	if g.shared[tn] {
		for i, el := range c.Elts {
			if kv, ok := el.(*ast.KeyValueExpr); ok {
				if id, ok := kv.Key.(*ast.Ident); ok {
					fld := tn + "." + id.Name
					if _, known := g.structs[tn][id.Name]; !known {
						g.errorf(kv.Pos(), "composite literal of %s: unknown field %s", tn, id.Name)
					}
					if !g.mutexField[fld] {
						w.record(fld, true, false, kv, h, " (composite literal)", "")
					}
				}
				w.expr(kv.Value, h)
				continue
			}
			g.errorf(el.Pos(), "positional composite literal of shared type %s (element %d) is outside the subset", tn, i)
		}
		return
	}
	for _, el := range c.Elts {
		if kv, ok := el.(*ast.KeyValueExpr); ok {
			// the key of a map literal is an expression, the key of a struct literal a field name
			if _, isIdent := kv.Key.(*ast.Ident); !isIdent {
				w.expr(kv.Key, h)
			}
			w.expr(kv.Value, h)
			continue
		}
		w.expr(el, h)
	}
}

// expr: e is evaluated (read)
func (w *lkWalker) expr(e ast.Expr, h lkSet) {
	switch x := e.(type) {
	case nil:
	case *ast.Ident, *ast.BasicLit:
	case *ast.ParenExpr:
		w.expr(x.X, h)
	case *ast.SelectorExpr:
		if _, isPkg := w.isPkgIdent(x.X); isPkg {
			return
		}
		if sl, ok := w.g.pi.info.Selections[x]; ok && sl.Kind() != types.FieldVal {
			if fn, ok := sl.Obj().(*types.Func); ok && w.g.unitOfObj[fn.Origin()] != nil {
				w.g.errorf(x.Pos(), "method value %s (not called) is outside the subset", w.g.pi.src(x))
			}
		}
		if f, ok := w.fieldOf(x); ok {
			if w.g.mutexField[f] {
				w.g.errorf(x.Pos(), "mutex field %s used other than as the receiver of a lock operation", f)
			} else {
				w.record(f, false, false, x, h, "", lkRootIdent(x))
			}
		}
		w.expr(x.X, h)
	case *ast.IndexExpr:
		if name, a, ok := w.aliasOf(x); ok {
			w.record(a.field, false, false, x, h, " (via alias "+name+")", a.root)
			w.subexprs(x, h)
			return
		}
		w.expr(x.X, h)
		w.expr(x.Index, h)
	case *ast.IndexListExpr:
		w.expr(x.X, h)
	case *ast.SliceExpr:
		if name, a, ok := w.aliasOf(x); ok {
			w.record(a.field, false, false, x, h, " (via alias "+name+")", a.root)
			w.subexprs(x, h)
			return
		}
		w.expr(x.X, h)
		w.expr(x.Low, h)
		w.expr(x.High, h)
		w.expr(x.Max, h)
	case *ast.StarExpr:
		w.expr(x.X, h)
	case *ast.UnaryExpr:
		if x.Op == token.AND {
			if sel, f, _ := w.rooted(x.X); sel != nil {
				w.g.errorf(x.Pos(), "address of shared field %s taken outside a sync/atomic call", f)
			}
		}
		w.expr(x.X, h)
	case *ast.BinaryExpr:
		w.expr(x.X, h)
		w.expr(x.Y, h)
	case *ast.KeyValueExpr:
		w.expr(x.Key, h)
		w.expr(x.Value, h)
	case *ast.TypeAssertExpr:
		w.expr(x.X, h)
	case *ast.CallExpr:
		w.call(x, h)
	case *ast.CompositeLit:
		w.complit(x, h)
	case *ast.FuncLit:
		w.funcLit(x)
	case *ast.ArrayType, *ast.MapType, *ast.ChanType, *ast.FuncType, *ast.InterfaceType, *ast.StructType, *ast.Ellipsis:
	default:
		w.g.errorf(e.Pos(), "expression form %T is outside the subset", e)
	}
}

// is the local `id` of slice / map type (only those can alias a field's contents)?
func (w *lkWalker) isRefLocal(id *ast.Ident) bool {
	if o := w.g.pi.info.Defs[id]; o != nil && o.Type() != nil {
		t := o.Type()
		if b, ok := t.Underlying().(*types.Basic); !ok || b.Kind() != types.Invalid {
			switch t.Underlying().(type) {
			case *types.Slice, *types.Map:
				return true
			}
			return false
		}
	}
	return true // unknown: be conservative, track it
}

// x := <field-rooted or aliased expression with at least one index step>, or range value
func (w *lkWalker) bindAlias(id *ast.Ident, src ast.Expr, minDepth int) {
	if id == nil || id.Name == "_" {
		return
	}
	delete(w.alias, id.Name)
	if !w.isRefLocal(id) {
		return
	}
	if sel, f, depth := w.rooted(src); sel != nil && depth >= minDepth {
		w.alias[id.Name] = lkAlias{f, lkRootIdent(sel)}
		return
	}
	if _, isIdent := lkUnparen(src).(*ast.Ident); !isIdent || minDepth == 0 {
		if _, a, ok := w.aliasOf(src); ok {
			w.alias[id.Name] = a
		}
	}
}

func (w *lkWalker) exit(h lkSet) {
	for i := range w.frames {
		w.frames[i] = append(w.frames[i], h)
	}
}

// runs body inside a break/continue frame; returns the meet of the fall-through end (if any)
// and of every break/continue/goto set recorded inside
func (w *lkWalker) framed(body func() (lkSet, bool)) (lkSet, bool) {
	w.frames = append(w.frames, nil)
	out, term := body()
	exits := w.frames[len(w.frames)-1]
	w.frames = w.frames[:len(w.frames)-1]
	have := !term
	for _, e := range exits {
		if !have {
			out, have = e, true
		} else {
			out = lkMeet(out, e)
		}
	}
	return out, !have
}

func (w *lkWalker) loop(h lkSet, body func(head lkSet) (lkSet, bool)) lkSet {
	saved := w.rec
	w.rec = false
	head := h
	for i := 0; i < 8; i++ {
		out, term := w.framed(func() (lkSet, bool) { return body(head) })
		if term {
			break
		}
		n := lkMeet(head, out)
		if lkEqual(n, head) {
			break
		}
		head = n
	}
	w.rec = saved
	out, term := w.framed(func() (lkSet, bool) { return body(head) })
	if term {
		return head
	}
	return lkMeet(head, out)
}

func (w *lkWalker) block(list []ast.Stmt, h lkSet) (lkSet, bool) {
	term := false
	for _, s := range list {
		var t bool
		h, t = w.stmt(s, h)
		term = term || t
	}
	return h, term
}

func (w *lkWalker) stmt(s ast.Stmt, h lkSet) (lkSet, bool) {
	g := w.g
	switch s := s.(type) {
	case nil, *ast.EmptyStmt:
		return h, false
	case *ast.ExprStmt:
		if c, ok := lkUnparen(s.X).(*ast.CallExpr); ok {
			if name, op, root, isLock := w.lockOpQuiet(c); isLock {
				w.lockRecvReads(c, h)
				switch op {
				case "Lock":
					return h.with(name, 2, root), false
				case "RLock":
					return h.with(name, 1, root), false
				default:
					if _, held := h[name]; !held {
						// releasing a lock that is not syntactically held (released on another path): ignore
						return h, false
					}
					return h.without(name), false
				}
			}
			if id, ok := lkUnparen(c.Fun).(*ast.Ident); ok && id.Name == "panic" {
				w.expr(s.X, h)
				return h, true
			}
		}
		w.expr(s.X, h)
		return h, false
	case *ast.SendStmt:
		w.expr(s.Chan, h)
		w.expr(s.Value, h)
		return h, false
	case *ast.IncDecStmt:
		w.writeTo(s.X, h, false)
		return h, false
	case *ast.AssignStmt:
		for _, r := range s.Rhs {
			w.expr(r, h)
		}
		for i, l := range s.Lhs {
			if s.Tok == token.DEFINE {
				if id, ok := l.(*ast.Ident); ok {
					var src ast.Expr
					if len(s.Rhs) == len(s.Lhs) {
						src = s.Rhs[i]
					} else if len(s.Rhs) == 1 && i == 0 {
						src = s.Rhs[0] // x, ok := m[k]
					}
					if src != nil {
						w.bindAlias(id, src, 0)
						if t := w.synType(src); t != nil {
							w.synTy[id.Name] = t
						} else {
							delete(w.synTy, id.Name)
						}
					}
					continue
				}
			}
			w.writeTo(l, h, false)
		}
		return h, false
	case *ast.GoStmt:
		if fl, ok := lkUnparen(s.Call.Fun).(*ast.FuncLit); ok {
			w.funcLit(fl)
		} else {
			if u := w.resolve(s.Call.Fun); u != nil {
				if w.rec {
					g.goTargets[u.name] = true
				}
			}
			if sel, ok := lkUnparen(s.Call.Fun).(*ast.SelectorExpr); ok {
				w.expr(sel.X, h)
			}
		}
		for _, a := range s.Call.Args {
			w.expr(a, h)
		}
		return h, false
	case *ast.DeferStmt:
		if _, op, _, isLock := w.lockOpQuiet(s.Call); isLock {
			if op == "Lock" || op == "RLock" {
				g.errorf(s.Pos(), "deferred lock acquisition is outside the subset")
			}
			// defer x.Unlock(): the lock stays held to the end of the function
			w.lockRecvReads(s.Call, h)
			return h, false
		}
		// any other deferred call runs at function exit with an unknown lock set: use the empty one
		if fl, ok := lkUnparen(s.Call.Fun).(*ast.FuncLit); ok {
			w.funcLit(fl)
		} else {
			w.callSite(w.resolve(s.Call.Fun), s.Call, nil)
			if sel, ok := lkUnparen(s.Call.Fun).(*ast.SelectorExpr); ok {
				w.expr(sel.X, h)
			}
		}
		for _, a := range s.Call.Args {
			w.expr(a, h)
		}
		return h, false
	case *ast.ReturnStmt:
		for _, r := range s.Results {
			w.expr(r, h)
		}
		return h, true
	case *ast.BranchStmt:
		if s.Tok == token.FALLTHROUGH {
			g.errorf(s.Pos(), "fallthrough is outside the subset")
			return h, false
		}
		w.exit(h)
		return h, true
	case *ast.BlockStmt:
		return w.block(s.List, h)
	case *ast.LabeledStmt:
		return w.stmt(s.Stmt, h)
	case *ast.DeclStmt:
		if gd, ok := s.Decl.(*ast.GenDecl); ok {
			for _, sp := range gd.Specs {
				if vs, ok := sp.(*ast.ValueSpec); ok {
					for _, v := range vs.Values {
						w.expr(v, h)
					}
					for _, n := range vs.Names {
						delete(w.alias, n.Name)
						if vs.Type != nil {
							w.synTy[n.Name] = vs.Type
						}
					}
				}
			}
		}
		return h, false
	case *ast.IfStmt:
		h, _ = w.stmt(s.Init, h)
		w.expr(s.Cond, h)
		h1, t1 := w.block(s.Body.List, h)
		h2, t2 := h, false
		if s.Else != nil {
			h2, t2 = w.stmt(s.Else, h)
		}
		switch {
		case t1 && t2:
			return h, true
		case t1:
			return h2, false
		case t2:
			return h1, false
		}
		return lkMeet(h1, h2), false
	case *ast.ForStmt:
		h, _ = w.stmt(s.Init, h)
		out := w.loop(h, func(head lkSet) (lkSet, bool) {
			w.expr(s.Cond, head)
			e, term := w.block(s.Body.List, head)
			if !term {
				e, _ = w.stmt(s.Post, e)
			} else if s.Post != nil {
				// reached through continue: evaluate the post statement with the loop-head set
				w.stmt(s.Post, head)
			}
			return e, term
		})
		return out, false
	case *ast.RangeStmt:
		// the range operand: a field (plain read) or an alias (content read)
		if _, isIdent := lkUnparen(s.X).(*ast.Ident); isIdent {
			if name, a, ok := w.aliasOf(s.X); ok {
				w.record(a.field, false, false, s.X, h, " (via alias "+name+")", a.root)
			}
		}
		w.expr(s.X, h)
		if s.Tok == token.DEFINE {
			if id, ok := s.Key.(*ast.Ident); ok {
				delete(w.alias, id.Name)
				delete(w.synTy, id.Name)
			}
			if id, ok := s.Value.(*ast.Ident); ok {
				w.bindAlias(id, s.X, 0)
				if t := lkElemType(w.synType(s.X)); t != nil {
					w.synTy[id.Name] = t
				} else {
					delete(w.synTy, id.Name)
				}
			}
		} else {
			if s.Key != nil {
				w.writeTo(s.Key, h, false)
			}
			if s.Value != nil {
				w.writeTo(s.Value, h, false)
			}
		}
		out := w.loop(h, func(head lkSet) (lkSet, bool) { return w.block(s.Body.List, head) })
		return out, false
	case *ast.SwitchStmt:
		h, _ = w.stmt(s.Init, h)
		w.expr(s.Tag, h)
		return w.clauses(s.Body.List, h, false)
	case *ast.TypeSwitchStmt:
		h, _ = w.stmt(s.Init, h)
		switch a := s.Assign.(type) {
		case *ast.ExprStmt:
			w.expr(a.X, h)
		case *ast.AssignStmt:
			for _, r := range a.Rhs {
				w.expr(r, h)
			}
		}
		return w.clauses(s.Body.List, h, false)
	case *ast.SelectStmt:
		return w.clauses(s.Body.List, h, true)
	}
	g.errorf(s.Pos(), "statement form %T is outside the subset", s)
	return h, false
}

// switch / select bodies: every clause starts from h; the set afterwards is the meet over the
// clauses that fall out of the statement (and h itself when a switch has no default clause)
func (w *lkWalker) clauses(list []ast.Stmt, h lkSet, isSelect bool) (lkSet, bool) {
	return w.framed(func() (lkSet, bool) {
		var out lkSet
		have := false
		add := func(e lkSet) {
			if !have {
				out, have = e, true
			} else {
				out = lkMeet(out, e)
			}
		}
		hasDefault := false
		for _, cl := range list {
			switch cl := cl.(type) {
			case *ast.CaseClause:
				if cl.List == nil {
					hasDefault = true
				}
				for _, e := range cl.List {
					w.expr(e, h)
				}
				if e, term := w.block(cl.Body, h); !term {
					add(e)
				}
			case *ast.CommClause:
				if cl.Comm == nil {
					hasDefault = true
				}
				hc, _ := w.stmt(cl.Comm, h)
				if e, term := w.block(cl.Body, hc); !term {
					add(e)
				}
			}
		}
		if !hasDefault && !isSelect {
			add(h)
		}
		if !have {
			return h, true
		}
		return out, false
	})
}

// ------------------------------------------------------------------ the generator

func lkRecvName(fd *ast.FuncDecl) string {
	if fd.Recv == nil || len(fd.Recv.List) != 1 {
		return ""
	}
	return lkTypeText(fd.Recv.List[0].Type)
}

func (g *lkGen) collectTypes() {
	isMutexText := func(t string) bool { return t == "sync.Mutex" || t == "sync.RWMutex" }
	for _, f := range g.pi.files {
		for _, d := range f.Decls {
			gd, ok := d.(*ast.GenDecl)
			if !ok || gd.Tok != token.TYPE {
				continue
			}
			for _, sp := range gd.Specs {
				ts := sp.(*ast.TypeSpec)
				switch t := ts.Type.(type) {
				case *ast.InterfaceType:
					g.ifaces[ts.Name.Name] = true
				case *ast.ArrayType:
					if t.Len == nil {
						g.refNamed[ts.Name.Name] = true
					}
				case *ast.MapType:
					g.refNamed[ts.Name.Name] = true
				case *ast.StructType:
					fs := map[string]ast.Expr{}
					for _, fl := range t.Fields.List {
						tt := lkTypeText(fl.Type)
						if len(fl.Names) == 0 { // embedded
							if isMutexText(tt) {
								g.embedMutex[ts.Name.Name] = true
							} else if g.shared[ts.Name.Name] {
								g.errorf(fl.Pos(), "shared type %s embeds %s: embedding other than a mutex is outside the subset", ts.Name.Name, tt)
							}
							continue
						}
						for _, n := range fl.Names {
							fs[n.Name] = fl.Type
							if g.shared[ts.Name.Name] {
								g.fieldNames[n.Name] = true
								if isMutexText(tt) {
									g.mutexField[ts.Name.Name+"."+n.Name] = true
								}
								if tt == "atomic.Bool" {
									g.atomicBool[ts.Name.Name+"."+n.Name] = true
								}
							}
						}
					}
					g.structs[ts.Name.Name] = fs
				}
			}
		}
	}
	for _, n := range lkShared {
		if _, ok := g.structs[n]; !ok {
			g.errs = append(g.errs, fmt.Sprintf("shared type %s is not a struct type of the package any more", n))
			continue
		}
		if g.pi.pkg == nil {
			continue
		}
		o := g.pi.pkg.Scope().Lookup(n)
		if o == nil {
			continue
		}
		st, ok := o.Type().Underlying().(*types.Struct)
		if !ok {
			continue
		}
		for i := 0; i < st.NumFields(); i++ {
			f := st.Field(i)
			if f.Embedded() {
				continue
			}
			g.fieldOwner[f] = n + "." + f.Name()
		}
	}
}

func (g *lkGen) collectUnits() {
	anchored := map[string]bool{}
	for _, f := range lkFiles {
		anchored[f] = true
	}
	seen := map[string]bool{}
	for _, f := range g.pi.files {
		base := filepath.Base(g.pi.fset.Position(f.Pos()).Filename)
		if !anchored[base] {
			continue
		}
		seen[base] = true
		for _, d := range f.Decls {
			fd, ok := d.(*ast.FuncDecl)
			if !ok || fd.Body == nil {
				continue
			}
			name := fd.Name.Name
			rt := lkRecvName(fd)
			if rt != "" {
				name = rt + "." + name
				g.methNames[fd.Name.Name] = true
			}
			u := &lkUnit{name: name, file: base, body: fd.Body, ftype: fd.Type, recv: fd.Recv, recvType: rt,
				exported: ast.IsExported(fd.Name.Name)}
			if _, dup := g.units[name]; dup {
				g.errorf(fd.Pos(), "duplicate function %s", name)
			}
			g.units[name] = u
			g.unitOrder = append(g.unitOrder, u)
			if o := g.pi.info.Defs[fd.Name]; o != nil {
				g.unitOfObj[o] = u
			}
			// mutating methods of named slice / map types: the body assigns to r[...] or deletes from r
			if rt != "" && g.refNamed[rt] && len(fd.Recv.List[0].Names) == 1 {
				r := fd.Recv.List[0].Names[0].Name
				ast.Inspect(fd.Body, func(n ast.Node) bool {
					target := func(e ast.Expr) {
						if ix, ok := lkUnparen(e).(*ast.IndexExpr); ok && lkRootIdent(ix) == r {
							g.mutating[name] = true
						}
					}
					switch n := n.(type) {
					case *ast.AssignStmt:
						for _, l := range n.Lhs {
							target(l)
						}
					case *ast.IncDecStmt:
						target(n.X)
					case *ast.CallExpr:
						if id, ok := n.Fun.(*ast.Ident); ok && (id.Name == "delete" || id.Name == "copy") && len(n.Args) > 0 && lkRootIdent(n.Args[0]) == r {
							g.mutating[name] = true
						}
					}
					return true
				})
			}
		}
	}
	for _, f := range lkFiles {
		if !seen[f] {
			g.errs = append(g.errs, "anchored file "+f+" is missing")
		}
	}
}

func (g *lkGen) walkUnits() {
	decl := append([]*lkUnit{}, g.unitOrder...)
	for _, u := range decl {
		w := &lkWalker{g: g, u: u, rec: true, alias: map[string]lkAlias{}, synTy: map[string]ast.Expr{}}
		if u.recv != nil {
			for _, f := range u.recv.List {
				for _, n := range f.Names {
					w.synTy[n.Name] = f.Type
				}
			}
		}
		w.params(u.ftype)
		w.block(u.body.List, nil)
	}
}

func (g *lkGen) entryPoints() {
	for _, u := range g.unitOrder {
		for _, c := range u.calls {
			c.callee.callers = append(c.callee.callers, c)
		}
	}
	for _, u := range g.unitOrder {
		short := u.name
		if i := strings.Index(short, "."); i >= 0 && !u.isLit {
			short = short[i+1:]
		}
		switch {
		case u.isLit:
			u.isEntry, u.why = true, "function literal"
		case u.exported && (u.recvType == "Cache" || u.recvType == "Metrics"):
			u.isEntry, u.why = true, "public API"
		case g.goTargets[u.name]:
			u.isEntry, u.why = true, "goroutine body"
		case u.recvType == "" && (strings.HasPrefix(short, "New") || strings.HasPrefix(short, "new")):
			u.isEntry, u.why = true, "constructor"
		case len(u.callers) == 0:
			u.isEntry, u.why = true, "no call site in the anchored files"
		}
		u.top = !u.isEntry
	}
	// greatest fixpoint: entry(f) = meet over call sites of (entry(caller) ∪ held at the site)
	for changed := true; changed; {
		changed = false
		for _, u := range g.unitOrder {
			if u.isEntry {
				continue
			}
			var acc lkSet
			have := false
			for _, c := range u.callers {
				if c.caller.top {
					continue
				}
				at := lkJoin(c.caller.entry, c.held)
				for k, v := range at { // the instance is the caller's business
					at[k] = lkLock{v.mode, ""}
				}
				if !have {
					acc, have = at, true
				} else {
					acc = lkMeet(acc, at)
				}
			}
			if !have {
				continue
			}
			if u.top || !lkEqual(acc, u.entry) {
				u.top, u.entry, changed = false, acc, true
			}
		}
	}
	for _, u := range g.unitOrder {
		if u.top { // only reachable from itself
			u.top, u.entry = false, nil
		}
	}
}

func (g *lkGen) reachable(from string) map[string]bool {
	seen := map[string]bool{}
	var visit func(u *lkUnit)
	visit = func(u *lkUnit) {
		if u == nil || seen[u.name] {
			return
		}
		seen[u.name] = true
		for _, c := range u.calls {
			visit(c.callee)
		}
	}
	visit(g.units[from])
	return seen
}

func (g *lkGen) tagAndCheck() []*lkAccess {
	isCtor := func(u *lkUnit) bool {
		if u.isLit {
			return false
		}
		_, a := lkCtor[u.name]
		_, b := lkCtorCalledOnlyFrom[u.name]
		return a || b
	}
	for name := range lkCtor {
		if g.units[name] == nil {
			g.errs = append(g.errs, "hand table lkCtor: function "+name+" does not exist any more")
		}
	}
	for name := range lkClose {
		if g.units[name] == nil {
			g.errs = append(g.errs, "hand table lkClose: function "+name+" does not exist any more")
		}
	}
	for name, from := range lkCtorCalledOnlyFrom {
		u := g.units[name]
		if u == nil {
			g.errs = append(g.errs, "hand table lkCtorCalledOnlyFrom: function "+name+" does not exist any more")
			continue
		}
		if len(u.callers) == 0 {
			g.errs = append(g.errs, "hand table lkCtorCalledOnlyFrom: "+name+" has no call site (expected: "+from+")")
		}
		for _, c := range u.callers {
			if !isCtor(c.caller) {
				g.errs = append(g.errs, fmt.Sprintf("%s is tagged ctor (called only from %s) but is called from %s (%s:%d)", name, from, c.caller.name, c.caller.file, c.line))
			}
		}
	}
	if u := g.units[lkStripeUnit]; u == nil {
		g.errs = append(g.errs, "hand table: "+lkStripeUnit+" does not exist any more")
	} else {
		for _, c := range u.callers {
			if c.caller.name != lkStripeCaller {
				g.errs = append(g.errs, fmt.Sprintf("%s must be called only from %s (Pool.Get/Put bracket) but is called from %s (%s:%d)", lkStripeUnit, lkStripeCaller, c.caller.name, c.caller.file, c.line))
			}
		}
	}
	if !g.goTargets[lkPolicyGoroutine] {
		g.errs = append(g.errs, lkPolicyGoroutine+" is not the target of a go statement any more")
	}
	var all []*lkAccess
	for _, u := range g.unitOrder {
		for _, a := range u.accs {
			a.locks = lkJoin(u.entry, a.held)
			a.tag = "none"
			switch {
			case isCtor(u):
				a.tag = "ctor"
			case lkClose[u.name] && !u.isLit:
				a.tag = "close"
			case u.name == lkStripeUnit && strings.HasPrefix(a.field, lkStripeType+"."):
				a.tag = "stripe"
			}
			all = append(all, a)
		}
	}
	// late ctor units versus the policy goroutine, which is already running
	late := map[string]bool{}
	for _, n := range lkLateCtor {
		late[n] = true
	}
	reach := g.reachable(lkPolicyGoroutine)
	lateWrites := map[string]*lkAccess{}
	for _, a := range all {
		if late[a.unit.name] && a.write {
			lateWrites[a.field] = a
		}
	}
	for _, a := range all {
		if reach[a.unit.name] {
			if wr, ok := lateWrites[a.field]; ok {
				g.errs = append(g.errs, fmt.Sprintf("field %s is written by late constructor code (%s:%d %s) but accessed from the already running policy goroutine (%s:%d %s)",
					a.field, wr.file, wr.line, wr.unit.name, a.file, a.line, a.unit.name))
			}
		}
	}
	sort.SliceStable(all, func(i, j int) bool {
		a, b := all[i], all[j]
		if a.file != b.file {
			return a.file < b.file
		}
		if a.line != b.line {
			return a.line < b.line
		}
		if a.col != b.col {
			return a.col < b.col
		}
		return !a.write && b.write
	})
	return all
}

func genLocks(load func(string) *pkgInfo) (string, error) {
	pi := load("")
	g := &lkGen{pi: pi, units: map[string]*lkUnit{}, unitOfObj: map[types.Object]*lkUnit{},
		fieldOwner: map[*types.Var]string{}, structs: map[string]map[string]ast.Expr{},
		embedMutex: map[string]bool{}, mutexField: map[string]bool{}, atomicBool: map[string]bool{},
		fieldNames: map[string]bool{}, methNames: map[string]bool{}, shared: map[string]bool{},
		ifaces: map[string]bool{}, mutating: map[string]bool{}, refNamed: map[string]bool{},
		goTargets: map[string]bool{}}
	for _, n := range lkShared {
		g.shared[n] = true
	}
	g.collectTypes()
	g.collectUnits()
	g.walkUnits()
	g.entryPoints()
	all := g.tagAndCheck()
	if len(g.errs) > 0 {
		sort.Strings(g.errs)
		return "", fmt.Errorf("%s", strings.Join(g.errs, "; "))
	}

	var b strings.Builder
	fields := map[string]bool{}
	tags := map[string]int{}
	for _, a := range all {
		fields[a.field] = true
		tags[a.tag]++
	}
	fmt.Fprintf(&b, "/-! Lock table of the ristretto root package (files %s).\n", strings.Join(lkFiles, ", "))
	fmt.Fprintf(&b, "%d accesses of %d distinct fields; tags: none %d, ctor %d, close %d, stripe %d, applier %d.\n",
		len(all), len(fields), tags["none"], tags["ctor"], tags["close"], tags["stripe"], tags["applier"])
	b.WriteString("Locks are named by the Go type that owns the mutex, not by instance. -/\n\n")

	fnames := []string{}
	for f := range fields {
		fnames = append(fnames, f)
	}
	sort.Strings(fnames)
	fid := map[string]int{}
	b.WriteString("/-- numeric ids of the field names (`Access.fid`; checked against `Access.field` by `RV.Locks.fidsOk`) -/\n")
	b.WriteString("def fieldIds : List (String × Nat) := [")
	for i, f := range fnames {
		fid[f] = i
		if i > 0 {
			b.WriteString(",")
		}
		fmt.Fprintf(&b, "\n  (%q, %d)", f, i)
	}
	b.WriteString("]\n\n")
	b.WriteString("/-- every read/write of a field of a shared type, ordered by file, line, column -/\n")
	b.WriteString("def accesses : List RV.Locks.Access := [\n")
	for i, a := range all {
		kind := ".read"
		if a.write {
			kind = ".write"
		}
		sep := ","
		if i == len(all)-1 {
			sep = ""
		}
		fmt.Fprintf(&b, "  { field := %q, fid := %d, kind := %s, locks := %s, atomic := %v, tag := .%s, loc := %q }%s\n",
			a.field, fid[a.field], kind, a.locks.lean(), a.atomic, a.tag, fmt.Sprintf("%s:%d %s%s", a.file, a.line, a.unit.name, a.note), sep)
	}
	b.WriteString("]\n\n")

	b.WriteString("/-- hand-listed ownership transfers (documentation of what the table cannot see) -/\n")
	b.WriteString("def transfers : List String := [\n")
	for i, t := range lkTransfers {
		sep := ","
		if i == len(lkTransfers)-1 {
			sep = ""
		}
		fmt.Fprintf(&b, "  %q%s\n", t, sep)
	}
	b.WriteString("]\n\n")

	b.WriteString("/-- lock set assumed at function entry (meet over all in-package call sites; entry points: empty),\n    with the reason for entry points -/\n")
	b.WriteString("def entryLocks : List (String × List (String × RV.Locks.Mode) × String) := [\n")
	us := append([]*lkUnit{}, g.unitOrder...)
	sort.SliceStable(us, func(i, j int) bool { return us[i].name < us[j].name })
	for i, u := range us {
		sep := ","
		if i == len(us)-1 {
			sep = ""
		}
		why := u.why
		if !u.isEntry {
			cs := []string{}
			seen := map[string]bool{}
			for _, c := range u.callers {
				if !seen[c.caller.name] {
					seen[c.caller.name] = true
					cs = append(cs, c.caller.name)
				}
			}
			sort.Strings(cs)
			why = "called from " + strings.Join(cs, ", ")
		}
		fmt.Fprintf(&b, "  (%q, %s, %q)%s\n", u.name, u.entry.lean(), why, sep)
	}
	b.WriteString("]\n\n")

	// instance check: where a lock is acquired in the same function as the access, the root
	// identifier of the lock receiver and of the access path must coincide
	b.WriteString("/-- accesses under a lock acquired in the same function whose receiver has a different root\n    identifier than the access path (locks are identified by owning TYPE; this lists where the\n    syntactic same-instance check does not apply) -/\n")
	b.WriteString("def instanceNotes : List String := [")
	notes := []string{}
	for _, a := range all {
		for k, l := range a.held {
			if l.root != "" && a.root != "" && l.root != a.root {
				notes = append(notes, fmt.Sprintf("%s:%d %s: %s accessed via `%s` under %s acquired via `%s`", a.file, a.line, a.unit.name, a.field, a.root, k, l.root))
			}
		}
	}
	sort.Strings(notes)
	for i, n := range notes {
		if i > 0 {
			b.WriteString(",")
		}
		fmt.Fprintf(&b, "\n  %q", n)
	}
	b.WriteString("]\n")
	return b.String(), nil
}
