package main

func init() { register("tinylfu", tinylfuSpecs()) }

// Decision points of tinyLFU (policy.go).  The statements `p.incrs++` and
// `hits++` are not expressions, and `!added` (variable of an if-init
// statement) is an untyped leaf for go2lean; these are modelled by hand
// (`+ 1` on the int64 word, `if added then .. else ..`) and tied by the
// tinylfu stream.
func tinylfuSpecs() []Spec {
	o := "TinyLFU"
	return []Spec{
		{Kind: KExpr, Func: "tinyLFU.Increment", Match: "p.incrs >= p.resetAt", Lean: "resetCond", Out: o},
	}
}
