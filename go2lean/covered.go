package main

// Anchored kernels (KExpr, KPin) inside functions that are ALSO translated whole and proved
// equal to the model's function (RV/Props/Tie*.lean).  For such a function the equality theorem is
// the tie: it re-checks the model — whose arithmetic is written with these kernels — against the
// current source on every run.  When a maintainer respells an anchored expression (extracts it,
// moves it into a helper, merges two tests) the anchor's text is no longer found although nothing
// changed; instead of failing, the kernel keeps its last reviewed definition (go2lean/pinned/*.lean,
// a copy of RV/Gen taken from the reviewed tree) and go2lean prints `KEPT <module>.<name> <Tie>`.
// The check then makes the named Tie module an obligation of the run: if the function changed
// its meaning, the equality no longer proves (and the traces no longer validate), exactly as before.
// Lock shapes (KLockShape) are never kept: the whole-function translators skip lock statements.

import (
	"os"
	"path/filepath"
	"regexp"
	"strings"
)

// "<pkg>:<func>" -> Props module whose equality theorem covers the whole function
var coveredBy = map[string]string{
	":lockedMap.get": "TieStore", ":lockedMap.Expiration": "TieStore", ":lockedMap.Set": "TieStore",
	":lockedMap.Update": "TieStore", ":lockedMap.Del": "TieStore", ":lockedMap.DelExpired": "TieStore",
	":expirationMap.add": "TieExpiry", ":expirationMap.update": "TieExpiry", ":expirationMap.del": "TieExpiry",
	":sampledLFU.roomLeft": "TiePolicy", ":sampledLFU.updateIfHas": "TiePolicy", ":sampledLFU.add": "TiePolicy",
	":sampledLFU.del": "TiePolicy", ":defaultPolicy.Cap": "TiePolicy", ":defaultPolicy.Cost": "TiePolicy",
	"z:Buffer.Grow": "TieBuffer", "z:Buffer.AllocateOffset": "TieBuffer", "z:Buffer.IsEmpty": "TieBuffer",
	"z:Buffer.SliceAllocate": "TieBuffer", "z:Buffer.writeLen": "TieBuffer", "z:NewBuffer": "TieBuffer",
	"z:Buffer.Slice": "TieBuffer", "z:Buffer.SliceIterate": "TieBuffer", "z:Buffer.SliceOffsets": "TieBuffer", "z:rawSlice": "TieBufferSort",
	"z:sortHelper.merge": "TieBufferSort", "z:sortHelper.sort": "TieBufferSort", "z:sortHelper.sortSmall": "TieBufferSort", "z:Buffer.SortSliceBetween": "TieBufferSort",
	":cmSketch.Increment": "TieSketch", ":cmSketch.Estimate": "TieSketch", ":newCmSketch": "TieSketch", ":newCmRow": "TieSketch",
	":tinyLFU.Increment": "TieTinyLFU", ":tinyLFU.Estimate": "TieTinyLFU", ":tinyLFU.reset": "TieTinyLFU", ":tinyLFU.clear": "TieTinyLFU", ":tinyLFU.Push": "TieTinyLFU",
	":defaultPolicy.Add": "TiePolicyAdd", ":sampledLFU.fillSample": "TiePolicyAdd",
	"z:Tree.newNode": "TieTree", "z:Tree.split": "TieTree", "z:Tree.get": "TieTree", "z:Tree.Get": "TieTree",
	"z:Allocator.Allocate": "TieAlloc", "z:Allocator.addBufferAt": "TieAlloc", "z:Allocator.TrimTo": "TieAlloc",
	"z:Allocator.AllocateAligned": "TieAlloc", "z:NewAllocator": "TieAlloc", "z:Allocator.Size": "TieAlloc", "z:Allocator.Reset": "TieAlloc",
	"z:Tree.set": "TieTree2", "z:Tree.Set": "TieTree2", "z:Tree.compact": "TieTree2", "z:Tree.DeleteBelow": "TieTree2",
	"z:Tree.IterateKV": "TieTree2", "z:Tree.iterate": "TieTree2", "z:Tree.Reset": "TieTree2", "z:Tree.reinit": "TieTree2", "z:Tree.initRootNode": "TieTree2",
	":sampledLFU.clear": "TiePolicy", ":sampledLFU.getMaxCost": "TiePolicy", ":defaultPolicy.Has": "TiePolicy", ":defaultPolicy.Del": "TiePolicy", ":defaultPolicy.Update": "TiePolicy",
	"z:node.bits": "TieNode", "z:node.compact": "TieNode", "z:node.get": "TieNode", "z:node.isFull": "TieNode",
	"z:node.isLeaf": "TieNode", "z:node.maxKey": "TieNode", "z:node.moveRight": "TieNode", "z:node.numKeys": "TieNode",
	"z:node.search": "TieNode", "z:node.set": "TieNode", "z:node.setBit": "TieNode", "z:node.setNumKeys": "TieNode",
}

var pinnedDir = func() string {
	exe, err := os.Executable()
	if err == nil {
		// .bin/go2lean or a scratch copy: the pinned copies live next to the sources
		for _, d := range []string{filepath.Join(filepath.Dir(exe), "..", "go2lean", "pinned"), "/verif/go2lean/pinned"} {
			if st, err := os.Stat(d); err == nil && st.IsDir() {
				return d
			}
		}
	}
	return "/verif/go2lean/pinned"
}()

// keptDef returns the pinned definition block (doc comment + def) of Gen.<out>.<lean>.
func keptDef(out, lean string) (string, bool) {
	b, err := os.ReadFile(filepath.Join(pinnedDir, out+".lean"))
	if err != nil {
		return "", false
	}
	src := string(b)
	re := regexp.MustCompile(`(?m)^def ` + regexp.QuoteMeta(lean) + `[ :(]`)
	loc := re.FindStringIndex(src)
	if loc == nil {
		return "", false
	}
	start := loc[0]
	// include the doc comment directly above
	if i := strings.LastIndex(src[:start], "/--"); i >= 0 && strings.TrimSpace(src[strings.Index(src[i:], "-/")+i+2:start]) == "" {
		start = i
	}
	end := strings.Index(src[loc[0]:], "\n\n")
	if end < 0 {
		return "", false
	}
	return src[start : loc[0]+end+1], true
}

// Whole-function modules.  When a construct of the source falls outside a whole-function
// translator's subset (a new helper call, another loop form), the tighter tie of that module cannot
// be re-established on this run - but the function is still tied as before the whole-function
// translators existed: by its anchored kernels, its action flow / pins and by trace validation,
// all of which are re-checked.  In that case the module keeps its last reviewed text (pinned copy),
// go2lean prints `STALE <module> <reason>`, and the check records that the whole-function tie of
// that module was not re-established.  The two fallbacks never combine: an anchor that is KEPT
// because its function is covered by a tie of a STALE module is a failure (covered.go, main.go).
var staleOK = map[string]bool{"Methods": true, "Node": true, "BufferM": true, "TreeM": true, "AllocM": true,
	"SketchM": true, "TinyLFUM": true, "PolicyM": true, "Ring": true, "KeyToHash": true}

var tieModule = map[string][]string{
	"TieStore": {"Methods"}, "TieExpiry": {"Methods"}, "TiePolicy": {"Methods"}, "TieNode": {"Node"},
	"TieBuffer": {"BufferM"}, "TieBufferSort": {"BufferM"}, "TieTree": {"TreeM", "Node"}, "TieTree2": {"TreeM", "Node"}, "TieAlloc": {"AllocM"},
	"TieSketch": {"SketchM"}, "TieTinyLFU": {"TinyLFUM", "SketchM"}, "TiePolicyAdd": {"PolicyM", "TinyLFUM", "SketchM"},
}

var untransRe = regexp.MustCompile(`(?m)^\s*-- UNTRANSLATABLE ([^:\s]+)`)

// staleText returns the pinned text of module `name` (without its closing `end Gen.<name>` line)
// with a marker comment after the first line.
func staleText(name, reason string) (string, bool) {
	b, err := os.ReadFile(filepath.Join(pinnedDir, name+".lean"))
	if err != nil {
		return "", false
	}
	src := strings.TrimRight(string(b), "\n")
	end := "end Gen." + name
	if !strings.HasSuffix(src, end) {
		return "", false
	}
	src = strings.TrimRight(strings.TrimSuffix(src, end), "\n") + "\n"
	nl := strings.Index(src, "\n")
	return src[:nl+1] + "-- STALE: not regenerated on this run (" + strings.ReplaceAll(reason, "\n", " ") + "); this is the last reviewed text\n" + src[nl+1:], true
}
