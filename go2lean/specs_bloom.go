package main

func init() { register("bloom", bloomSpecs()) }

func bloomSpecs() []Spec {
	o := "Bloom"
	z := "z"
	return []Spec{
		{Kind: KConst, Pkg: z, Match: "mask", Lean: "maskTable", Out: o},
		{Kind: KFunc, Pkg: z, Func: "getSize", Lean: "getSize", Out: o, Fuel: 64},
		{Kind: KExpr, Pkg: z, Func: "NewBloomFilter", Match: "size - 1", Lean: "newSizeMask", Out: o},
		{Kind: KExpr, Pkg: z, Func: "NewBloomFilter", Match: "64 - exponent", Lean: "newShift", Out: o},
		{Kind: KExpr, Pkg: z, Func: "Bloom.Size", Match: "sz >> 6", Lean: "numWords", Out: o},
		{Kind: KExpr, Pkg: z, Func: "Bloom.Add", Match: "hash >> bl.shift", Lean: "addH", Out: o},
		{Kind: KExpr, Pkg: z, Func: "Bloom.Add", Match: "hash << bl.shift >> bl.shift", Lean: "addL", Out: o},
		{Kind: KExpr, Pkg: z, Func: "Bloom.Add", Match: "(h + i*l) & bl.size", Lean: "addPos", Out: o},
		{Kind: KExpr, Pkg: z, Func: "Bloom.Add", Match: "i < bl.setLocs", Lean: "addLoopCond", Out: o},
		{Kind: KExpr, Pkg: z, Func: "Bloom.Has", Match: "hash >> bl.shift", Lean: "hasH", Out: o},
		{Kind: KExpr, Pkg: z, Func: "Bloom.Has", Match: "hash << bl.shift >> bl.shift", Lean: "hasL", Out: o},
		{Kind: KExpr, Pkg: z, Func: "Bloom.Has", Match: "(h + i*l) & bl.size", Lean: "hasPos", Out: o},
		{Kind: KExpr, Pkg: z, Func: "Bloom.Has", Match: "i < bl.setLocs", Lean: "hasLoopCond", Out: o},
		{Kind: KExpr, Pkg: z, Func: "Bloom.Set", Match: "idx >> 6", Lean: "setWord", Out: o},
		{Kind: KExpr, Pkg: z, Func: "Bloom.Set", Match: "(idx % 64) >> 3", Lean: "setByte", Out: o},
		{Kind: KExpr, Pkg: z, Func: "Bloom.Set", Match: "mask[idx%8]", Lean: "setMask", Out: o},
		{Kind: KExpr, Pkg: z, Func: "Bloom.IsSet", Match: "idx >> 6", Lean: "isSetWord", Out: o},
		{Kind: KExpr, Pkg: z, Func: "Bloom.IsSet", Match: "(idx % 64) >> 3", Lean: "isSetByte", Out: o},
		{Kind: KExpr, Pkg: z, Func: "Bloom.IsSet", Match: "((*(*uint8)(ptr)) >> (idx % 8)) & 1", Lean: "isSetBit", Out: o},
		{Kind: KExpr, Pkg: z, Func: "Bloom.IsSet", Match: "r == 1", Lean: "isSetResult", Out: o},
		{Kind: KExpr, Pkg: z, Func: "Bloom.JSONMarshal", Match: "len(bl.bitset) << 3", Lean: "exportLen", Out: o},
		{Kind: KExpr, Pkg: z, Func: "newWithBoolset", Match: "len(*bs) << 3", Lean: "importEntries", Out: o},
	}
}
